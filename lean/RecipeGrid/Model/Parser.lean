import RecipeGrid.Model.Num
import RecipeGrid.Model.Chars
import RecipeGrid.Gen.Units
import RecipeGrid.Gen.Escapes
/-! `recipe_grid.parser`: a direct-style transcription of `grammar.peg` (one function per rule)
    producing the AST of `ast.py` with source offsets.

    PEG semantics: ordered choice `<|>` commits to the first alternative that matches; an optional
    `(x)?` that matched is never re-tried without `x`; `*` is greedy.  All of this is what a
    backtracking state-and-failure monad gives for free.

    The `ZeroDivisionError` of `Fraction(n, 0)` is raised by the AST transformer, which only runs on
    the parse tree of a completely successful parse.  The parser state therefore carries a flag that
    is set by `fraction` and is restored with the position whenever an alternative is abandoned.

    Everything is total: loops take their fuel from the number of characters left (every iteration
    and every level of nesting consumes at least one character). -/
namespace RG

/-! ## AST (`ast.py`), with source offsets -/

inductive SubStr where
  | sub (off : Nat) (s : Str)
  | num (off : Nat) (n : Num)
deriving Repr, Inhabited

/-- `ast.String`: never empty -/
abbrev AString := List SubStr

inductive AAmount where
  | qty (off : Nat) (value : Num) (unit : Option AString) (spacing : Str) (prep : Str)
  | prop (off : Nat) (value : Option Num) (percentage : Bool) (wording : Option Str) (prep : Str)
deriving Repr, Inhabited

inductive AExpr where
  | step (name : AString) (inputs : List AExpr)
  | ref (name : AString) (amount : Option AAmount)
deriving Inhabited

structure AStmt where
  expr : AExpr
  outputs : Option (List AString)
  named : Bool
deriving Inhabited

inductive ParseResult where
  | ok (stmts : List AStmt)
  | syntaxError
  /-- `ZeroDivisionError` from `Fraction(n, 0)`: unreachable since denominators must be non-zero (kept for the protocol) -/
  | zeroDivision
deriving Inhabited

namespace Parser

/-! ## The parser monad -/

structure PState where
  /-- offset of the next character -/
  pos : Nat
  /-- a zero denominator has been seen on the current (not abandoned) path -/
  zero : Bool

/-- a parser reads the text, and either fails or returns a value and the new state -/
def P (α : Type) : Type := Array Char → PState → Option (α × PState)

instance : Monad P where
  pure a := fun _ s => some (a, s)
  bind m f := fun t s =>
    match m t s with
    | none => none
    | some (a, s') => f a t s'

def fail {α} : P α := fun _ _ => none

/-- ordered choice: the second parser starts from the state the first one started from -/
def orElse {α} (p : P α) (q : Unit → P α) : P α := fun t s =>
  match p t s with
  | some r => some r
  | none => q () t s

instance {α} : OrElse (P α) := ⟨orElse⟩

/-- `p?` -/
def opt {α} (p : P α) : P (Option α) := (some <$> p) <|> pure none

def getPos : P Nat := fun _ s => some (s.pos, s)

/-- number of characters left -/
def remaining : P Nat := fun t s => some (t.size - s.pos, s)


def manyF {α} (p : P α) : Nat → P (List α)
  | 0 => pure []
  | fuel + 1 => (do let a ← p; let rest ← manyF p fuel; pure (a :: rest)) <|> pure []

/-- `p*` for a `p` that consumes at least one character when it succeeds -/
def many {α} (p : P α) : P (List α) := do manyF p (← remaining)

/-- run `p` and also return the text it matched -/
def withText {α} (p : P α) : P (α × Str) := fun t s =>
  match p t s with
  | none => none
  | some (a, s') => some ((a, (t.extract s.pos s'.pos).toList), s')

/-- the text matched by `p` -/
def textOf (p : P Unit) : P Str := do let (_, text) ← withText p; pure text

/-! ## Characters and character classes -/

/-- one character satisfying `p` -/
def sat (p : Char → Bool) : P Char := fun t s =>
  match t[s.pos]? with
  | some c => if p c then some (c, { s with pos := s.pos + 1 }) else none
  | none => none

/-- `.` (peggie compiles every regex with DOTALL) -/
def anyChar : P Char := sat fun _ => true

def lit (c : Char) : P Unit := do let _ ← sat (· == c)

/-- first index `≥ i` whose character does not satisfy `p` -/
def spanEnd (p : Char → Bool) (t : Array Char) (i : Nat) : Nat := go (t.size - i) i
where
  go : Nat → Nat → Nat
    | 0, j => j
    | fuel + 1, j =>
      match t[j]? with
      | some c => if p c then go fuel (j + 1) else j
      | none => j

/-- `[p]*` -/
def skipMany (p : Char → Bool) : P Unit := fun t s =>
  some ((), { s with pos := spanEnd p t s.pos })

/-- `[p]+` -/
def skipMany1 (p : Char → Bool) : P Unit := do let _ ← sat p; skipMany p

/-- `hsp <- r"[ \t]+"` -/
def hsp : P Unit := skipMany1 isHsp
/-- `hsp?` -/
def ohsp : P Unit := skipMany isHsp
/-- `sp <- r"\s+"` -/
def sp : P Unit := skipMany1 isReSpace
/-- `sp?` -/
def osp : P Unit := skipMany isReSpace

/-- `eof <- !.` -/
def eof : P Unit := fun t s => if t.size ≤ s.pos then some ((), s) else none

/-- regex `\b` -/
def wordBoundary : P Unit := fun t s => if wordBoundaryAt t s.pos then some ((), s) else none

/-- a literal word under `(?i)` -/
def ciWord : Str → P Unit
  | [] => pure ()
  | l :: ls => do let _ ← sat (ciMatches · l); ciWord ls

/-! ## Numbers -/

def natOfDigits (ds : Str) : Nat := ds.foldl (fun n d => 10 * n + (d.toNat - 48)) 0

/-- `r"[0-9]+"` -/
def digits : P Str := textOf (skipMany1 isDigit)

/-- `decimal <- r"[0-9]+(\.[0-9]*)?"`; the value is `float(text)`, then `int(..)` of that
    if the text has no "." (so integers beyond 2^53 are rounded through a double) -/
def decimal : P (Nat × Num) := do
  let off ← getPos
  let whole ← digits
  let frac ← opt (do lit '.'; textOf (skipMany isDigit))
  match frac with
  | none => pure (off, ⟨((natOfDigits whole : Nat) : Rat), .int⟩)
  | some frac =>
    pure (off, ⟨toDouble (mkRat (natOfDigits (whole ++ frac) : Nat) (10 ^ frac.length)), .flt⟩)

/-- `fraction <- (r"[0-9]+" hsp)? r"[0-9]+" hsp? "/" hsp? r"0*[1-9][0-9]*"`; always a `Fraction`.
    The denominator pattern matches a digit run exactly when it contains a non-zero digit (and then all of it). -/
def fraction : P (Nat × Num) := do
  let start ← getPos
  let integer ← opt (do let ds ← digits; hsp; pure ds)
  let numerStart ← getPos
  let numer ← digits
  ohsp; lit '/'; ohsp
  let denom ← digits
  let off := if integer.isSome then start else numerStart
  let d := natOfDigits denom
  if d = 0 then fail
  else
    let i : Nat := natOfDigits (integer.getD [])
    let n : Nat := natOfDigits numer
    pure (off, ⟨(i : Rat) + mkRat n d, .frac⟩)

/-- `number <- fraction / decimal` -/
def number : P (Nat × Num) := fraction <|> decimal

/-! ## Strings -/

def isSpecial (c : Char) : Bool := "\"',:=/(){}".toList.contains c
/-- `[^"',:=/(){}\n\r]` -/
def isNakedInner (c : Char) : Bool := !isSpecial c && !isNewline c
/-- `[^"',:=/(){}\s]` -/
def isNakedEdge (c : Char) : Bool := !isSpecial c && !isReSpace c

/-- largest `k` with `lo < k ≤ hi` and `p t[k-1]`, or `lo` if there is none -/
def trimBack (p : Char → Bool) (t : Array Char) (lo : Nat) : Nat → Nat
  | 0 => lo
  | k + 1 =>
    if k + 1 ≤ lo then lo
    else match t[k]? with
      | some c => if p c then k + 1 else trimBack p t lo k
      | none => trimBack p t lo k

/-- `naked_string <- r"[^\"',:=/(){}\s]([^\"',:=/(){}\n\r]*[^\"',:=/(){}\s])?"`:
    the longest run of inner characters, given back up to its last edge character -/
def nakedString : P AString := do
  let off ← getPos
  let (_, text) ← withText (do
    let _ ← sat isNakedEdge
    fun t s =>
      let hi := spanEnd isNakedInner t s.pos
      some ((), { s with pos := trimBack isNakedEdge t s.pos hi }))
  pure [.sub off text]

/-- `ESCAPE_CHARS.get(c, c)` -/
def unescape (c : Char) : Char :=
  match Gen.escapeChars.lookup c.toNat with
  | some n => Char.ofNat n
  | none => c

/-- `"\\" .` -/
def escaped : P Char := do lit '\\'; let c ← anyChar; pure (unescape c)

/-- `s_quoted_string`, `d_quoted_string`: `q ("\\" . / r'[^q\n\r]')* q` -/
def quotedString (q : Char) : P AString := do
  let off ← getPos
  lit q
  let body ← many (escaped <|> sat fun c => c != q && !isNewline c)
  lit q
  pure [.sub off body]

inductive BracketedItem where
  | num (off : Nat) (n : Num)
  | chr (off : Nat) (c : Char)

/-- `interpolated_number / "\\" . / r"[^0-9{}\n\r]"` -/
def bracketedItem : P BracketedItem :=
  (do let (off, n) ← number; pure (.num off n))
  <|> (do let off ← getPos; let c ← escaped; pure (.chr off c))
  <|> (do let off ← getPos
          let c ← sat fun c => !isDigit c && c != '{' && c != '}' && !isNewline c
          pure (.chr off c))

/-- state of the loop in `RecipeTransformer.bracketed_string` -/
structure BracketedAcc where
  out : List SubStr
  segment : Str
  segmentOff : Option Nat

def BracketedAcc.push (a : BracketedAcc) : BracketedItem → BracketedAcc
  | .num off n =>
    let out := if a.segment.isEmpty then a.out else a.out ++ [.sub (a.segmentOff.getD 0) a.segment]
    { out := out ++ [.num off n], segment := [], segmentOff := none }
  | .chr off c =>
    { a with segment := a.segment ++ [c], segmentOff := some (a.segmentOff.getD off) }

def BracketedAcc.finish (a : BracketedAcc) : AString :=
  match a.segmentOff with
  | some off => a.out ++ [.sub off a.segment]
  | none => a.out

/-- `bracketed_string <- "{" (interpolated_number / "\\" . / r"[^0-9{}\n\r]")* "}"` -/
def bracketedString : P AString := do
  let off ← getPos
  lit '{'
  let body ← many bracketedItem
  lit '}'
  pure (body.foldl BracketedAcc.push ⟨[], [], some off⟩).finish

def stringF (static : Bool) : Nat → P AString
  | 0 => fail
  | fuel + 1 => do
    let first ← nakedString <|> quotedString '\'' <|> quotedString '"'
                <|> (if static then fail else bracketedString)
    let rest ← opt (do
      let off ← getPos
      let space ← textOf ohsp
      let more ← stringF static fuel
      pure (if space.isEmpty then more else .sub off space :: more))
    pure (first ++ rest.getD [])

/-- `string <- (naked_string / s_quoted_string / d_quoted_string / bracketed_string) (hsp? string)?`
    and `static_string`, the same without `bracketed_string` -/
def string (static : Bool := false) : P AString := do stringF static ((← remaining) + 1)

/-! ## Amounts -/

/-- `preposition <- r"(?i)of([ \t]+the)?\\b"`; if no `\b` follows "of the" the regex backtracks to "of" -/
def preposition : P Unit := do
  ciWord "of".toList
  (do hsp; ciWord "the".toList; wordBoundary) <|> wordBoundary

/-- `(hsp preposition)?` as text -/
def hspPreposition : P Str := textOf (do hsp; preposition) <|> pure []

/-- `remainder <- r"(?i)(remaining|remainder|rest|left[ \t]*over)\\b"`; a failing `\b` makes the
    regex try the later alternatives -/
def remainder : P Unit :=
  (do ciWord "remaining".toList; wordBoundary)
  <|> (do ciWord "remainder".toList; wordBoundary)
  <|> (do ciWord "rest".toList; wordBoundary)
  <|> (do ciWord "left".toList; ohsp; ciWord "over".toList; wordBoundary)

/-- the alternatives of `ALL_UNITS_REGEX_LITERAL`, as words to be joined by `\s+` -/
def unitPatterns : List (List Str) := Gen.unitPatterns.map fun ws => ws.map String.toList

/-- one alternative of the unit regex followed by the `\b` -/
def unitPattern : List Str → P Unit
  | [] => wordBoundary
  | [w] => do ciWord w; wordBoundary
  | w :: ws => do ciWord w; sp; unitPattern ws

def firstOf : List (P Unit) → P Unit
  | [] => fail
  | p :: ps => p <|> firstOf ps

/-- `known_unit <- r"(?i)(@KNOWN_UNITS@)\\b"` -/
def knownUnit : P Unit := firstOf (unitPatterns.map unitPattern)

/-- `proportion` -/
def proportion : P AAmount :=
  (do let off ← getPos
      let wording ← textOf remainder
      let prep ← hspPreposition
      pure (.prop off none false (some wording) prep))
  <|>
  (do let (off, v) ← number
      (do let prep ← textOf (do hsp; preposition)
          pure (.prop off (some v) false none prep))
      <|> (do let prep ← textOf (do ohsp; lit '%'; let _ ← hspPreposition)
              pure (.prop off (v.div (Num.ofNat 100)) true none prep))
      <|> (do let prep ← textOf (do ohsp; lit '*')
              pure (.prop off (some v) false none prep)))

/-- `explicit_quantity <- "{" hsp? number (hsp? freeform_unit)? hsp? "}" (hsp preposition)?` -/
def explicitQuantity : P AAmount := do
  let off ← getPos
  lit '{'; ohsp
  let (_, v) ← number
  let unit ← opt (do let spacing ← textOf ohsp; let u ← string (static := true); pure (spacing, u))
  ohsp; lit '}'
  let prep ← hspPreposition
  pure (.qty off v (unit.map (·.2)) ((unit.map (·.1)).getD []) prep)

/-- `implicit_quantity <- number (hsp? known_unit (hsp preposition)?)?` -/
def implicitQuantity : P AAmount := do
  let (off, v) ← number
  let unit ← opt (do
    let spacing ← textOf ohsp
    let unitOff ← getPos
    let name ← textOf knownUnit
    let prep ← hspPreposition
    pure (spacing, [SubStr.sub unitOff name], prep))
  match unit with
  | some (spacing, u, prep) => pure (.qty off v (some u) spacing prep)
  | none => pure (.qty off v none [] [])

/-! ## Expressions -/

/-- `reference <- ((proportion / explicit_quantity / implicit_quantity) hsp?)? ingredient` -/
def reference : P AExpr := do
  let amount ← opt (do
    let a ← proportion <|> explicitQuantity <|> implicitQuantity
    ohsp
    pure a)
  let name ← string
  pure (.ref name amount)

/-- `step <- action hsp? "(" sp? expr (sp? "," sp? expr)* (sp? ",")? sp? ")"` -/
def step (expr : P AExpr) : P AExpr := do
  let name ← string
  ohsp; lit '('; osp
  let first ← expr
  let rest ← many (do osp; lit ','; osp; expr)
  let _ ← opt (do osp; lit ',')
  osp; lit ')'
  pure (.step name (first :: rest))

/-- `ltr_shorthand <- expr (hsp? "," hsp? action)*` -/
def ltrShorthand (expr : P AExpr) : P AExpr := do
  let first ← expr
  let actions ← many (do ohsp; lit ','; ohsp; string)
  pure (actions.foldl (fun e action => .step action [e]) first)

/-- `expr <- step / reference / "(" sp? ltr_shorthand sp? ")"` -/
def expr : Nat → P AExpr
  | 0 => fail
  | fuel + 1 =>
    step (expr fuel)
    <|> reference
    <|> (do lit '('; osp; let e ← ltrShorthand (expr fuel); osp; lit ')'; pure e)

/-! ## Statements -/

/-- `eol <- r"[ \t]*[\r\n]\s*" / r"[ \t]*" eof` -/
def eol : P Unit :=
  (do ohsp; let _ ← sat isNewline; osp) <|> (do ohsp; eof)

/-- `output_list <- output (hsp? "," hsp? output)*` -/
def outputList : P (List AString) := do
  let first ← string
  let rest ← many (do ohsp; lit ','; ohsp; string)
  pure (first :: rest)

/-- `r":?="`; true for `:=` -/
def assign : P Bool := (do lit ':'; lit '='; pure true) <|> (do lit '='; pure false)

/-- `stmt <- (output_list hsp? r":?=" hsp?)? ltr_shorthand eol` -/
def stmt : P AStmt := do
  let target ← opt (do
    let outputs ← outputList
    ohsp
    let named ← assign
    ohsp
    pure (outputs, named))
  let e ← ltrShorthand (expr ((← remaining) + 1))
  eol
  pure { expr := e, outputs := target.map (·.1), named := (target.map (·.2)).getD false }

/-- `recipe <- sp? stmt+ eof` -/
def recipe : P (List AStmt) := do
  osp
  let first ← stmt
  let rest ← many stmt
  eof
  pure (first :: rest)

end Parser

/-- `recipe_grid.parser.parse` -/
def parse (src : Str) : ParseResult :=
  match Parser.recipe src.toArray ⟨0, false⟩ with
  | none => .syntaxError
  | some (stmts, _) => .ok stmts

/-! ## S-expression encoding -/

def SubStr.toSexp : SubStr → Sexp
  | .sub off s => Sexp.tag "sub" [Sexp.ofNat off, Sexp.ofStr s]
  | .num off n => Sexp.tag "num" [Sexp.ofNat off, n.toSexp]

def AString.toSexp (s : AString) : Sexp := Sexp.ofList SubStr.toSexp s

def AAmount.toSexp : AAmount → Sexp
  | .qty off v unit spacing prep =>
    Sexp.tag "qty" [Sexp.ofNat off, v.toSexp, Sexp.ofOpt AString.toSexp unit,
                    Sexp.ofStr spacing, Sexp.ofStr prep]
  | .prop off v percentage wording prep =>
    Sexp.tag "prop" [Sexp.ofNat off, Sexp.ofOpt Num.toSexp v, Sexp.ofBool percentage,
                     Sexp.ofOpt Sexp.ofStr wording, Sexp.ofStr prep]

mutual
def AExpr.toSexp : AExpr → Sexp
  | .step name inputs => Sexp.tag "step" [AString.toSexp name, Sexp.list (Sexp.atom "l" :: AExpr.toSexpList inputs)]
  | .ref name amount => Sexp.tag "ref" [AString.toSexp name, Sexp.ofOpt AAmount.toSexp amount]
def AExpr.toSexpList : List AExpr → List Sexp
  | [] => []
  | e :: es => e.toSexp :: AExpr.toSexpList es
end

def AStmt.toSexp (s : AStmt) : Sexp :=
  Sexp.tag "stmt" [s.expr.toSexp, Sexp.ofOpt (Sexp.ofList AString.toSexp) s.outputs, Sexp.ofBool s.named]

def ParseResult.toSexp : ParseResult → Sexp
  | .ok stmts => Sexp.tag "ok" [Sexp.ofList AStmt.toSexp stmts]
  | .syntaxError => Sexp.atom "syntax"
  | .zeroDivision => Sexp.atom "zerodiv"

end RG
