import RecipeGrid.Model.Markdown
/-! From document text to code blocks: the part of marko 0.9.1's block scanner (`marko/block.py`, `marko/helpers.py`)
    that decides where the code blocks of a *container-free* document are, what text they capture and which
    `pos` (`LogPosMixin` of `recipe_grid/markdown.py`) they get.

    The scanner is two passes over marko's lines (`Source.next_line`: text up to and including the next `"\n"` of
    the buffer, which is the document with `"\r\n"` replaced by `"\n"`; a lone `"\r"` is an ordinary — white-space —
    character for marko):

    * `tagLines`: a small state machine (top level / inside a paragraph / inside a fence / inside an indented block)
      that gives every line its role (`LineTag`);
    * `assemble`: every opening-fence line and every first line of an indented block yields one `MdBlock`, whose
      text is built from the following body lines the way `FencedCode.parse` / `CodeBlock.parse` do it.

    Containers (block quotes, lists), HTML blocks, thematic breaks, setext headings, link reference definitions and
    tabs are NOT modelled: `inDoc` (the sub-language **D**) is false for documents in which a line outside the code
    blocks could start one of them (conservatively), and for the few exotic white-space situations in which marko's
    captured text loses or gains a line (see NOTES.md). -/
namespace RG

deriving instance DecidableEq for CodeBlockKind

def CodeBlockKind.isFenced : CodeBlockKind → Bool
  | .fenced _ => true
  | .indented => false

structure MdBlock where
  kind : CodeBlockKind
  /-- `LogPosMixin.pos`: offset, in the CRLF-normalised document, of the opening fence line / of the first code line -/
  pos : Nat
  /-- `element.children[0].children` -/
  source : Str
  /-- number (1-based, lines as `str.splitlines` of the normalised document counts them) of the document line that
      follows the opening fence line / of the first code line -/
  startLine : Nat
deriving Repr, DecidableEq

-- ---------------------------------------------------------------- lines
/-- `Source.next_line`, repeatedly: the pieces of the buffer up to and including each `"\n"` -/
def mdLines : Str → List Str
  | [] => []
  | c :: rest =>
    if c = '\n' then ['\n'] :: mdLines rest
    else match mdLines rest with
      | [] => [[c]]
      | l :: ls => (c :: l) :: ls

def leadSpaces (l : Str) : Nat := (l.takeWhile (· == ' ')).length

/-- `not line.strip()` -/
def isBlankLine (l : Str) : Bool := l.all isReSpace

/-- the number of lines `str.splitlines` sees in a piece of the document once a lone `"\r"` counts as `"\n"` -/
def pyLineCount (l : Str) : Nat := (splitLinesKeep (crToLf l)).length

-- ---------------------------------------------------------------- fences
structure FenceInfo where
  indent : Nat
  ch : Char
  len : Nat
  /-- group 3 of `FencedCode.pattern`: the rest of the line after the fence and white space -/
  info : Str
deriving Repr, DecidableEq

/-- `FencedCode.match` on a whole line: `( {,3})(`{3,}|~{3,})[^\n\S]*(.*?)$`, and no backtick in the info string of a
    backtick fence -/
def fenceOpen? (l : Str) : Option FenceInfo :=
  let k := leadSpaces l
  if k > 3 then none
  else
    let rest := l.drop k
    match rest with
    | [] => none
    | c :: _ =>
      if c == '`' || c == '~' then
        let n := (rest.takeWhile (· == c)).length
        if n < 3 then none
        else
          let info := ((rest.drop n).takeWhile (· != '\n')).dropWhile isReSpace
          if c == '`' && info.contains '`' then none else some ⟨k, c, n, info⟩
      else none

def isAsciiPunct (c : Char) : Bool :=
  let n := c.toNat
  (33 ≤ n && n ≤ 47) || (58 ≤ n && n ≤ 64) || (91 ≤ n && n ≤ 96) || (123 ≤ n && n ≤ 126)

/-- `inline.Literal.strip_backslash`: `\\([!"#$%&'()*+,\-./:;<=>?@\[\\\]^_`{|}~])` ↦ `\1` -/
def stripBackslashAux : Bool → Str → Str
  | false, [] => []
  | true, [] => ['\\']
  | false, c :: r => if c = '\\' then stripBackslashAux true r else c :: stripBackslashAux false r
  | true, c :: r =>
    if isAsciiPunct c then c :: stripBackslashAux false r
    else '\\' :: (if c = '\\' then stripBackslashAux true r else c :: stripBackslashAux false r)
def stripBackslash (s : Str) : Str := stripBackslashAux false s

/-- `info.split(None, 1)[0]`, or `""` -/
def firstWord (s : Str) : Str := (s.dropWhile isReSpace).takeWhile (fun c => !isReSpace c)

/-- `FencedCode.lang` -/
def FenceInfo.lang (f : FenceInfo) : Str := stripBackslash (firstWord f.info)

/-- the closing test of `FencedCode.parse`: `re.match(r" {,3}(~+|`+)[^\n\S]*$", line, re.M)` and the opening fence is
    a substring of the run -/
def isFenceClose (f : FenceInfo) (l : Str) : Bool :=
  let k := leadSpaces l
  if k > 3 then false
  else
    let rest := l.drop k
    let n := (rest.takeWhile (· == f.ch)).length
    decide (f.len ≤ n) && (rest.drop n).all isReSpace

/-- what `FencedCode.parse` keeps of a body line: `Source.match_prefix(" " * n, line)` (with its "line shorter than the
    prefix" special case) and the `line.lstrip()` fall-back -/
def stripFence (n : Nat) (l : Str) : Str :=
  let k := leadSpaces l
  if n ≤ k then l.drop n
  else match l.drop k with
    | '\n' :: _ => ['\n']
    | _ => l.dropWhile isReSpace

-- ---------------------------------------------------------------- headings
/-- `Heading.pattern` matches the line: up to 3 spaces, 1–6 `#`, then white space or the end -/
def isHeadingLine (l : Str) : Bool :=
  let k := leadSpaces l
  if k > 3 then false
  else
    let rest := l.drop k
    let h := (rest.takeWhile (· == '#')).length
    decide (1 ≤ h) && decide (h ≤ 6) &&
      (match rest.drop h with
       | [] => true
       | c :: _ => isReSpace c)

-- ---------------------------------------------------------------- the line tagger
inductive LineTag where
  | blank
  | heading
  /-- a paragraph line that is not indented; `first`: it starts the paragraph -/
  | para (first : Bool)
  /-- an indented line inside a paragraph (lazy continuation, not code) -/
  | lazy
  | fenceOpen (f : FenceInfo)
  /-- a line inside a fence opened with `indent` spaces -/
  | fenceBody (indent : Nat)
  | fenceClose
  | codeStart
  | codeCont
  /-- a blank line after an indented code line (kept in the block's text if more code follows; what is left of the
      trailing ones is cut by `rstrip("\n")`) -/
  | codeBlank
deriving Repr, DecidableEq

structure TLine where
  tag : LineTag
  text : Str
deriving Repr

inductive ScanSt where
  | top
  | para
  | fence (f : FenceInfo)
  | code
deriving Repr

/-- a line met outside any code block: `Parser.parse` tries FencedCode (7), Heading (6), BlankLine (5), CodeBlock (4),
    Paragraph (1) — the other elements never match a line of **D** —, and `Paragraph.parse` goes on until
    `break_paragraph` (heading, blank line, fence) -/
def stepOutside (inPara : Bool) (l : Str) : LineTag × ScanSt :=
  if isBlankLine l then (.blank, .top)
  else if 4 ≤ leadSpaces l then (if inPara then (.lazy, .para) else (.codeStart, .code))
  else match fenceOpen? l with
    | some f => (.fenceOpen f, .fence f)
    | none => if isHeadingLine l then (.heading, .top) else (.para (!inPara), .para)

def step : ScanSt → Str → LineTag × ScanSt
  | .top, l => stepOutside false l
  | .para, l => stepOutside true l
  | .fence f, l => if isFenceClose f l then (.fenceClose, .top) else (.fenceBody f.indent, .fence f)
  | .code, l =>
    if isBlankLine l then (.codeBlank, .code)
    else if 4 ≤ leadSpaces l then (.codeCont, .code)
    else stepOutside false l

def tagLines : ScanSt → List Str → List TLine
  | _, [] => []
  | st, l :: ls => ⟨(step st l).1, l⟩ :: tagLines (step st l).2 ls

-- ---------------------------------------------------------------- assembling the blocks
def LineTag.isFenceBody : LineTag → Bool
  | .fenceBody _ => true
  | _ => false
def LineTag.isCodeMore : LineTag → Bool
  | .codeCont => true
  | .codeBlank => true
  | _ => false

/-- `CodeBlock.parse`: `strip_prefix(line, " {4}")`, replaced by `"\n"` when that is empty (blank lines only) -/
def stripCodeBlank (l : Str) : Str :=
  let s := if 4 ≤ leadSpaces l then l.drop 4 else []
  if s.isEmpty then ['\n'] else s

def stripCode (t : TLine) : Str :=
  match t.tag with
  | .codeBlank => stripCodeBlank t.text
  | _ => t.text.drop 4

/-- `s.rstrip("\n")` -/
def rstripNl (s : Str) : Str := (s.reverse.dropWhile (· == '\n')).reverse

def fencedSource (indent : Nat) (body : List TLine) : Str :=
  (body.map fun t => stripFence indent t.text).flatten

def codeSource (lines : List TLine) : Str :=
  rstripNl (lines.map stripCode).flatten ++ ['\n']

/-- `pos`: offset of the current line; `line`: its (1-based) line number -/
def assemble (pos line : Nat) : List TLine → List MdBlock
  | [] => []
  | t :: rest =>
    (match t.tag with
     | .fenceOpen f =>
       [⟨.fenced f.lang, pos, fencedSource f.indent (rest.takeWhile (·.tag.isFenceBody)), line + pyLineCount t.text⟩]
     | .codeStart =>
       [⟨.indented, pos, codeSource (t :: rest.takeWhile (·.tag.isCodeMore)), line⟩]
     | _ => []) ++ assemble (pos + t.text.length) (line + pyLineCount t.text) rest

def tagDoc (doc : Str) : List TLine := tagLines .top (mdLines (normaliseCrLf doc))

/-- the code blocks marko finds in the document, in order -/
def scanBlocks (doc : Str) : List MdBlock := assemble 0 1 (tagDoc doc)

-- ---------------------------------------------------------------- the sub-language D
/-- after the indentation: a list marker (`- + *`, or digits and `.`/`)`) followed by white space or the end; marko's pattern is `\d{1,9}`,
    i.e. any Unicode decimal digit (Arabic-Indic, full-width …), not only ASCII -/
def startsListMarker (rest : Str) : Bool :=
  let follow (r : Str) : Bool := match r with
    | [] => true
    | c :: _ => isReSpace c
  match rest with
  | [] => false
  | c :: r =>
    if c == '-' || c == '+' || c == '*' then follow r
    else
      let ds := rest.takeWhile fun c => inTable Gen.reDigitRanges c.toNat
      if ds.isEmpty then false
      else match rest.drop ds.length with
        | d :: r' => (d == '.' || d == ')') && follow r'
        | [] => false

/-- could be a thematic break: the non-white-space characters are three or more of the same one of `- _ *` -/
def looksThematic (rest : Str) : Bool :=
  let s := rest.filter (fun c => !isReSpace c)
  decide (3 ≤ s.length) && (s.all (· == '-') || s.all (· == '_') || s.all (· == '*'))

/-- could be a setext underline: a run of `=` or of `-`, then white space only -/
def looksSetext (rest : Str) : Bool :=
  match rest with
  | [] => false
  | c :: _ =>
    (c == '=' || c == '-') && ((rest.dropWhile (· == c)).all isReSpace)

/-- a line starting with `[` certainly does not start a link reference definition: the first bracket after it is
    there, is not escaped, and is a `[` or a `]` not followed by `:` -/
def bracketStartOk (rest : Str) : Bool :=
  match rest with
  | '[' :: inner =>
    let pre := inner.takeWhile (fun c => c != '[' && c != ']')
    match inner.drop pre.length with
    | [] => false
    | b :: after =>
      pre.getLast? != some '\\' &&
        (b == '[' || (match after with
                      | ':' :: _ => false
                      | _ => true))
  | _ => true

/-- `PlainLine`: a non-blank, non-indented, non-fence, non-heading line that certainly is paragraph text -/
def plainLine (first : Bool) (l : Str) : Bool :=
  let rest := l.drop (leadSpaces l)
  match rest with
  | [] => false
  | c :: _ =>
    c != '>' && c != '<' && !startsListMarker rest && !looksThematic rest && !looksSetext rest &&
      (!first || bracketStartOk rest)

/-- is this character a line boundary for `str.splitlines` (a lone `"\r"` included)? -/
def hasInnerBreak (l : Str) : Bool := (l.takeWhile (· != '\n')).any isLineBreak

def TLine.ok (t : TLine) : Bool :=
  match t.tag with
  | .para first => plainLine first t.text
  | .fenceOpen _ => !hasInnerBreak t.text
  | .fenceBody n =>
    decide (n ≤ leadSpaces t.text) ||
      (match t.text.drop (leadSpaces t.text) with
       | [] => true
       | c :: _ => c == '\n' || !isReSpace c)
  | .codeBlank =>
    decide (4 ≤ leadSpaces t.text) ||
      (match t.text.drop (leadSpaces t.text) with
       | [] => true
       | c :: _ => c == '\n')
  | _ => true

/-- membership in **D** -/
def inDoc (doc : Str) : Bool := !doc.contains '\t' && (tagDoc doc).all TLine.ok

end RG
