import RecipeGrid.Model.PegGrammar
import RecipeGrid.Gen.Regexes
/-! The generated grammar run with its terminals READ AS REGULAR EXPRESSIONS: the generic recogniser of `Model/Peg.lean` on
    `Gen.grammarRules`, every terminal matched by the engine of `Model/ReExt.lean` on the syntax `Gen.regexAst` that CPython's
    parser gives for its source - no hand-written scanner is involved.  `Props/C06d.lean` proves that this accepts exactly
    what the hand-written parser accepts. -/
namespace RG
namespace Peg
open Parser

/-- a terminal as a parser: `pattern.match` on the rest of the text (`Rx.matchEnd`), the flag of the state handed on -/
def regexParser (r : Rx) : P Unit := fun t s => (r.matchEnd t s.pos).map fun j => ((), { s with pos := j })

/-- the table of terminals given by the generated regular expressions -/
def regexScanner (re : String) : Option (P Unit) := (Gen.regexAst re).map regexParser

end Peg

/-- the start rule of the generated grammar on the whole text, terminals by the regex engine -/
def pegRecipeRe (src : Str) : PegRes :=
  pegRun Gen.grammarRules Peg.regexScanner src.toArray (pegFuel src.length) Gen.startRule 0

/-- does the PEG of `grammar.peg`, every terminal read as a regular expression, accept `src`?  `none`: the run is undefined -/
def pegAcceptsRe (src : Str) : Option Bool :=
  match pegRecipeRe src with
  | .ok _ => some true
  | .fail => some false
  | .err _ => none

def dispatchPegRe : Sexp → Option Sexp
  | .list [.atom "peg-accepts-re", src] =>
    match src.asStr? with
    | some src => some (Sexp.ofOpt Sexp.ofBool (pegAcceptsRe src))
    | none => some (Sexp.tag "bad-request" [Sexp.atom "args"])
  | .list [.atom "peg-rule-re", name, src] =>
    match name.asStr?, src.asStr? with
    | some name, some src =>
      some (pegRun Gen.grammarRules Peg.regexScanner src.toArray (pegFuel src.length) (String.ofList name) 0).toSexp
    | _, _ => some (Sexp.tag "bad-request" [Sexp.atom "args"])
  | _ => none

end RG
