import RecipeGrid.Model.Fmt
/-! Line protocol: one request S-expression per line, one reply per line. -/
namespace RG
open Sexp

def err (msg : String) : Sexp := Sexp.tag "bad-request" [Sexp.atom msg]

def dispatch : Sexp → Sexp
  | .list [.atom "todouble", p, q] =>
    match p.asInt?, q.asNat? with
    | some p, some q => if q == 0 then err "den" else (Num.toSexp ⟨toDouble (mkRat p q), .flt⟩)
    | _, _ => err "args"
  | .list [.atom "mul", a, b] =>
    match Num.ofSexp? a, Num.ofSexp? b with
    | some a, some b => Num.toSexp (a.mul b)
    | _, _ => err "args"
  | .list [.atom "add", a, b] =>
    match Num.ofSexp? a, Num.ofSexp? b with
    | some a, some b => Num.toSexp (a.add b)
    | _, _ => err "args"
  | .list [.atom "div", a, b] =>
    match Num.ofSexp? a, Num.ofSexp? b with
    | some a, some b => Sexp.ofOpt Num.toSexp (a.div b)
    | _, _ => err "args"
  | .list [.atom "fmt", a] =>
    match Num.ofSexp? a with
    | some a => Sexp.ofStr (formatNumber a)
    | _ => err "args"
  | .list [.atom "rnum", a] =>
    match Num.ofSexp? a with
    | some a => Sexp.ofStr (renderNumber a)
    | _ => err "args"
  | _ => err "unknown"

end RG
