import RecipeGrid.Model.Html
import RecipeGrid.Model.ParserDispatch
import RecipeGrid.Model.ParserErrDispatch
import RecipeGrid.Model.MdBlocksDispatch
import RecipeGrid.Model.BraceDispatch
import RecipeGrid.Model.EnumerateDispatch
import RecipeGrid.Model.SiteSourcesDispatch
import RecipeGrid.Model.TemplatesDispatch
import RecipeGrid.Model.PegGrammar
import RecipeGrid.Model.NumberReaderDispatch
import RecipeGrid.Model.MdContainersDispatch
import RecipeGrid.Model.ReExtDispatch
import RecipeGrid.Model.PegRegex
import RecipeGrid.Model.CacheDispatch
import RecipeGrid.Model.MdCompileDispatch
import RecipeGrid.Model.MdHeadingDispatch
import RecipeGrid.Model.DataUrlDispatch
import RecipeGrid.Model.PageValuesDispatch
import RecipeGrid.Model.MarkdownDispatch
import RecipeGrid.Model.SiteDispatch
import RecipeGrid.Model.FsDispatch
/-! Line protocol: one request S-expression per line, one reply per line. -/
namespace RG
open Sexp

def err (msg : String) : Sexp := Sexp.tag "bad-request" [Sexp.atom msg]

def invResult : Except InvErr Tree → Sexp
  | .ok t => Sexp.tag "ok" [t.toSexp]
  | .error .multiOutputNonRoot => .atom "MultiOutputSubRecipeUsedAsNonRootNodeError"
  | .error .outputIndex => .atom "OutputIndexError"
  | .error .zeroOutput => .atom "ZeroOutputSubRecipeError"
  | .error .referenceToInvalid => .atom "ReferenceToInvalidSubRecipeError"

def dispatch : Sexp → Sexp
  | .list [.atom "todouble", p, q] =>
    match p.asInt?, q.asNat? with
    | some p, some q => if q == 0 then err "den" else (Num.toSexp ⟨toDouble (mkRat p q), .flt⟩)
    | _, _ => err "args"
  | .list [.atom "mul", a, b] =>
    match Num.ofSexp? a, Num.ofSexp? b with
    | some a, some b => Num.toSexp (a.mul b)
    | _, _ => err "args"
  | .list [.atom "add", a, b] =>
    match Num.ofSexp? a, Num.ofSexp? b with
    | some a, some b => Num.toSexp (a.add b)
    | _, _ => err "args"
  | .list [.atom "div", a, b] =>
    match Num.ofSexp? a, Num.ofSexp? b with
    | some a, some b => Sexp.ofOpt Num.toSexp (a.div b)
    | _, _ => err "args"
  | .list [.atom "fmt", a] =>
    match Num.ofSexp? a with
    | some a => Sexp.ofStr (formatNumber a)
    | _ => err "args"
  | .list [.atom "rnum", a] =>
    match Num.ofSexp? a with
    | some a => Sexp.ofStr (renderNumber a)
    | _ => err "args"
  | .list [.atom "scale", k, bs] =>
    match Num.ofSexp? k, blocksOfSexp? bs with
    | some k, some bs => blocksToSexp (scaleBlocks k bs)
    | _, _ => err "args"
  | .list [.atom "layout", t] =>
    match Tree.ofSexp? t with
    | some t => (layout t).toSexp
    | _ => err "args"
  | .list [.atom "html", pre, t] =>
    match pre.asStr?, Tree.ofSexp? t with
    | some pre, some t => Sexp.ofStr (renderRecipeTree pre t)
    | _, _ => err "args"
  | .list [.atom "conv", spec, a, b] =>
    match spec.asBool?, a.asStr?, b.asStr? with
    | some spec, some a, some b => Sexp.ofOpt Num.toSexp (convertBetween spec a b)
    | _, _, _ => err "args"
  | .list [.atom "alts", u] =>
    match u.asStr? with
    | some u => Sexp.ofOpt (Sexp.ofList fun (n, s) => Sexp.list [n.toSexp, Sexp.ofStr s]) (altUnits u)
    | _ => err "args"
  | .list [.atom "eqv", a, b] =>
    match Quantity.ofSexp? a, Quantity.ofSexp? b with
    | some a, some b => Sexp.ofBool (a.hasEqualValueTo b)
    | _, _ => err "args"
  | .list [.atom "svs", .atom op, x] =>
    match Svs.ofSexp? x with
    | some x =>
      match op with
      | "lower" => Svs.toSexp (Svs.lower x)
      | "strip" => Svs.toSexp (Svs.strip x)
      | "norm" => Svs.toSexp (Svs.normalise x)
      | "render" => Sexp.ofStr (Svs.render x)
      | "html" => Sexp.ofStr (renderSvs x)
      | _ => err "op"
    | _ => err "args"
  | .list [.atom "valid", bs] =>
    match blocksOfSexp? bs with
    | some bs => Sexp.ofBool (checkBlocks [] bs)
    | _ => err "args"
  | .list [.atom "mkstep", d, ts] =>
    match Svs.ofSexp? d, Sexp.asList? Tree.ofSexp? ts with
    | some d, some ts => invResult (mkStep d ts)
    | _, _ => err "args"
  | .list [.atom "mksub", b, ns, sh] =>
    match Tree.ofSexp? b, Sexp.asList? Svs.ofSexp? ns, sh.asBool? with
    | some b, some ns, some sh => invResult (mkSub b ns sh)
    | _, _, _ => err "args"
  | .list [.atom "mkref", sub, i, a] =>
    match Tree.ofSexp? sub, i.asNat?, Amount.ofSexp? a with
    | some sub, some i, some a => invResult (mkReference sub i a)
    | _, _, _ => err "args"
  | req => ((((((((((((((((((((dispatchParser req).orElse fun _ => dispatchParserErr req).orElse fun _ => dispatchMarkdown req).orElse fun _ => dispatchSite req).orElse fun _ => fsDispatch req).orElse fun _ => dispatchMdBlocks req).orElse fun _ => dispatchBrace req).orElse fun _ => dispatchEnumerate req).orElse fun _ => dispatchSiteSources req).orElse fun _ => dispatchTemplates req).orElse fun _ => dispatchPeg req).orElse fun _ => dispatchNumberReader req).orElse fun _ => dispatchMdContainers req).orElse fun _ => dispatchRx req).orElse fun _ => dispatchPegRe req).orElse fun _ => dispatchCache req).orElse fun _ => dispatchMdCompile req).orElse fun _ => dispatchMdHeading req).orElse fun _ => dispatchDataUrl req).orElse fun _ => dispatchPageValues req).getD (err "unknown")

end RG
