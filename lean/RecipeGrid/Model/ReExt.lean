import RecipeGrid.Model.Chars
import RecipeGrid.Model.Num
/-! Regular expressions as DATA, and a backtracking matcher for them with the semantics of CPython's `re`
    (`pattern.match(text)`), for the constructs that occur in the terminals of `grammar.peg`.

    `tools/gen_model.py` (`gen_x_regexes`) writes, on every run, the abstract syntax of every regex terminal of the compiled
    grammar - as CPython's OWN parser (`re._parser.parse`) reads it - as a value of type `Rx` into `Gen/Regexes.lean`.
    This file gives that syntax a meaning.  It is the engine of `Model/BraceExpr.lean` (`RG.Re`: alternatives in order,
    greedy repetition that gives back, continuation-passing style, the first answer of the search is the match) with
    what that engine lacks for the grammar:

    * the syntax is data (`DecidableEq`), not functions: a character class is a list of items (`LITERAL`, `RANGE`,
      `CATEGORY_SPACE` / `_DIGIT` / `_WORD`) with a `NEGATE` flag;
    * positions instead of suffixes: the matcher runs on the text as an array from a position, so that `\b`
      (`AT_BOUNDARY`) can look at the character before;  `base` is the position the match was started from:
      peggie hands `text[offset:]` to `pattern.match`, so there is NO character before `base` for `\b`;
    * `(?i)`: a literal that is a cased ASCII lower-case letter matches by `ciMatches` (the generated table of the
      characters that CPython's `re` lets match it: the two ASCII cases, and `ſ`, `K` (U+212A), `İ`, `ı`);
    * `.` under `DOTALL` (every terminal of a peggie grammar is compiled with it): any character;
    * `\s`, `\d`, `\w`: the generated tables of the running CPython.

    Capture groups are kept in the syntax (`grp`) but not recorded: nothing refers back to them and peggie uses
    `group(0)` only.  The translator refuses (so the theorems about the generated data fail) what has no semantics
    here: lazy / possessive / counted repetition, a `*` or `+` whose body can match the empty string (CPython's
    rule for empty iterations is not modelled), look-around, back-references, anchors other than `\b`, flags other
    than `DOTALL|UNICODE(|IGNORECASE)`, cased characters other than `a`-`z` under `(?i)`.

    Loops take fuel: the number of characters left (every iteration of a `*` consumes a character). -/
namespace RG

/-- an item of a character class (`IN`) -/
inductive ClsItem where
  /-- `LITERAL` -/
  | chr (c : Char)
  /-- `RANGE` (inclusive) -/
  | range (lo hi : Char)
  /-- `CATEGORY_SPACE`: `\s` -/
  | space
  /-- `CATEGORY_DIGIT`: `\d` (Unicode decimal digits) -/
  | digit
  /-- `CATEGORY_WORD`: `\w` -/
  | word
deriving DecidableEq, Repr, Inhabited

def ClsItem.test : ClsItem → Char → Bool
  | .chr c, ch => ch == c
  | .range lo hi, ch => lo.toNat ≤ ch.toNat && ch.toNat ≤ hi.toNat
  | .space, ch => isReSpace ch
  | .digit, ch => inTable Gen.reDigitRanges ch.toNat
  | .word, ch => isReWord ch

/-- `[items]` / `[^items]` -/
def clsTest (neg : Bool) (items : List ClsItem) (ch : Char) : Bool :=
  (items.any fun it => it.test ch) != neg

/-- regular expressions: the op list of `re._parser.parse`, n-ary sequences and branches nested to the right -/
inductive Rx where
  /-- the empty sequence -/
  | eps
  /-- `LITERAL` (case-sensitive, or an uncased character under `(?i)`) -/
  | chr (c : Char)
  /-- `LITERAL` of a cased ASCII lower-case letter under `IGNORECASE` -/
  | ichr (c : Char)
  /-- `ANY` under `DOTALL` -/
  | any
  /-- `IN`; `neg`: the class starts with `NEGATE` -/
  | cls (neg : Bool) (items : List ClsItem)
  /-- two consecutive ops -/
  | seq (a b : Rx)
  /-- `BRANCH`: `a` first -/
  | alt (a b : Rx)
  /-- `MAX_REPEAT (0, MAXREPEAT)`: greedy `*` -/
  | star (a : Rx)
  /-- `MAX_REPEAT (1, MAXREPEAT)`: greedy `+` -/
  | plus (a : Rx)
  /-- `MAX_REPEAT (0, 1)`: greedy `?` -/
  | opt (a : Rx)
  /-- `SUBPATTERN` with a group number -/
  | grp (id : Nat) (a : Rx)
  /-- `AT_BOUNDARY`: `\b` -/
  | bound
deriving DecidableEq, Repr, Inhabited

namespace Rx

/-- a sequence of ops -/
def seqs : List Rx → Rx
  | [] => eps
  | [a] => a
  | a :: as => seq a (seqs as)

/-- the alternatives of a `BRANCH` -/
def alts : List Rx → Rx
  | [] => cls false []
  | [a] => a
  | a :: as => alt a (alts as)

/-- a continuation: what is matched after the current sub-pattern, from a position -/
abbrev K (α : Type) := Nat → Option α

/-- one character satisfying `p` -/
def step {α : Type} (t : Array Char) (p : Char → Bool) (i : Nat) (k : K α) : Option α :=
  match t[i]? with
  | some ch => if p ch then k (i + 1) else none
  | none => none

/-- greedy iteration: another round of `ma` first, leaving the loop second -/
def starK {α : Type} (ma : Nat → K α → Option α) : Nat → Nat → K α → Option α
  | 0, i, k => k i
  | fuel + 1, i, k =>
    match ma i (fun j => starK ma fuel j k) with
    | some a => some a
    | none => k i

/-- regex `\b` at `i` in a match that was started at `base` on `text[base:]`: exactly one of the characters before and
    after is a word character; there is nothing before `base` -/
def boundaryAt (t : Array Char) (base i : Nat) : Bool :=
  let before := if i ≤ base then false else (t[i - 1]?.map isReWord).getD false
  let after := (t[i]?.map isReWord).getD false
  before != after

/-- `run t base r i k`: the first answer of `k` over all ways of matching `r` from position `i`, in the order a
    backtracking engine tries them -/
def run {α : Type} (t : Array Char) (base : Nat) : Rx → Nat → K α → Option α
  | eps, i, k => k i
  | chr c, i, k => step t (· == c) i k
  | ichr c, i, k => step t (ciMatches · c) i k
  | any, i, k => step t (fun _ => true) i k
  | cls neg items, i, k => step t (clsTest neg items) i k
  | seq a b, i, k => run t base a i (fun j => run t base b j k)
  | alt a b, i, k =>
    match run t base a i k with
    | some r => some r
    | none => run t base b i k
  | star a, i, k => starK (run t base a) (t.size - i) i k
  | plus a, i, k => run t base a i (fun j => starK (run t base a) (t.size - j) j k)
  | opt a, i, k =>
    match run t base a i k with
    | some r => some r
    | none => k i
  | grp _ a, i, k => run t base a i k
  | bound, i, k => if boundaryAt t base i then k i else none

/-- `pattern.match(text[i:])`: the end of the match (as a position of `text`), or `none` -/
def matchEnd (r : Rx) (t : Array Char) (i : Nat) : Option Nat := run t i r i some

/-- can the pattern match the empty string?  (the translator refuses `*` / `+` over such a body) -/
def nullable : Rx → Bool
  | eps | bound => true
  | chr _ | ichr _ | any | cls _ _ => false
  | seq a b => nullable a && nullable b
  | alt a b => nullable a || nullable b
  | star _ | opt _ => true
  | plus a | grp _ a => nullable a

/-- no `*` / `+` over a body that can match the empty string -/
def wellFormed : Rx → Bool
  | seq a b | alt a b => wellFormed a && wellFormed b
  | star a | plus a => wellFormed a && !nullable a
  | opt a | grp _ a => wellFormed a
  | _ => true

end Rx
end RG
