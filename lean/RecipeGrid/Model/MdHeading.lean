import RecipeGrid.Model.MdBlocks
import RecipeGrid.Gen.Html5
/-! From document text to the recipe title: WHICH element is the first heading `render_heading` of `recipe_grid/markdown.py`
    sees, and WHAT text marko 0.9.1 renders for its inline content — on a sub-language **H** of documents (`inH`).

    * block level (`findHeading`): the lines up to the first heading are blank lines, paragraphs of plain lines
      (`plainLine` of `Model/MdBlocks.lean`: nothing that could start a block quote, a list, an HTML block, a thematic break
      or a link reference definition), fenced and indented code blocks, none with a tab in its indentation; the first heading is an ATX
      heading (`Heading.pattern`: up to 3 spaces, 1–6 `#`, white space or the end, optional closing `#`s) or a setext
      heading (a paragraph of one OR MORE lines followed by a line of `=`s or `-`s, `Paragraph.parse` /
      `SetextHeading.__init__`).  Whatever follows the first heading is arbitrary: marko's block parser never looks ahead of
      the heading line, and `render_heading` clears `first_heading` after the first heading it renders.
    * inline level (`inlineClass`): the heading's text is *plain* when — reading backslash escapes of ASCII punctuation as
      units — it contains none of `* _ ` [ < {` unescaped and no hard line break; marko then yields only `RawText`,
      `Literal` and soft `LineBreak` elements and `HTMLRenderer.escape_html = html.escape ∘ html.unescape` (with marko's
      `;`-terminated `_charref`) is applied to every raw run.  A text is *certainly markup* when it has a hard break, or
      (no backslash at all and) a brace expression, a code span, a simple HTML tag or a simple emphasis: the rendered text
      then contains `<` or a placeholder and no title is taken.  Everything else is outside **H**. -/
namespace RG

-- ---------------------------------------------------------------- html.unescape with marko's `_charref`, html.escape
def h5HexVal? (c : Char) : Option Nat :=
  let n := c.toNat
  if 48 ≤ n && n ≤ 57 then some (n - 48)
  else if 65 ≤ n && n ≤ 70 then some (n - 55)
  else if 97 ≤ n && n ≤ 102 then some (n - 87)
  else none
def h5IsHex (c : Char) : Bool := (h5HexVal? c).isSome
def h5HexValue (s : Str) : Nat := s.foldl (fun a c => 16 * a + (h5HexVal? c).getD 0) 0

/-- `[^\t\n\f <&#;]` -/
def isRefNameChar (c : Char) : Bool :=
  !(c == '\t' || c == '\n' || c == '\x0c' || c == ' ' || c == '<' || c == '&' || c == '#' || c == ';')

/-- the numeric branch of `html._replace_charref` -/
def decodeNumeric (n : Nat) : Str :=
  match Gen.invalidCharrefs.find? (fun e => e.1 == n) with
  | some e => [Char.ofNat e.2]
  | none =>
    if (0xD800 ≤ n && n ≤ 0xDFFF) || 0x10FFFF < n then [Char.ofNat 0xFFFD]
    else if Gen.invalidCodepoints.contains n then []
    else [Char.ofNat n]

def entityLookup (tbl : List (List Nat × List Nat)) (name : Str) : Option Str :=
  let key := name.map Char.toNat
  (tbl.find? (fun e => e.1 == key)).map fun e => e.2.map Char.ofNat

/-- "find the longest matching name": `for x in range(len(s)-1, 1, -1): if s[:x] in html5` — only the legacy names
    without `;` can match, since `s[:x]` has no `;` -/
def longestBare (name : Str) : Nat → Option Str
  | 0 => none
  | x + 1 =>
    if x + 1 < 2 then none
    else match entityLookup Gen.html5Bare (name.take (x + 1)) with
      | some v => some (v ++ name.drop (x + 1) ++ [';'])
      | none => longestBare name x

/-- the named branch of `html._replace_charref` for `&name;` -/
def decodeNamed (name : Str) : Str :=
  match entityLookup Gen.html5Semi name with
  | some v => v
  | none => (longestBare name name.length).getD ('&' :: name ++ [';'])

/-- what stands between `&` and the next `;`: the replacement if `&body;` matches marko's `_charref`
    (`&(#[0-9]{1,8};|#[xX][0-9a-fA-F]{1,8};|[^\t\n\f <&#;]{1,32};)`) -/
def decodeRef : Str → Option Str
  | '#' :: r =>
    let hexPart : Option Str := match r with
      | 'x' :: hs => some hs
      | 'X' :: hs => some hs
      | _ => none
    match hexPart with
    | some hs =>
      if 1 ≤ hs.length && hs.length ≤ 8 && hs.all h5IsHex then some (decodeNumeric (h5HexValue hs)) else none
    | none =>
      if 1 ≤ r.length && r.length ≤ 8 && r.all isDigit then some (decodeNumeric (natOfDigitChars r)) else none
  | name =>
    if 1 ≤ name.length && name.length ≤ 32 && name.all isRefNameChar then some (decodeNamed name) else none

/-- the text after one `&` up to the next `&` (or the end) -/
def decodeSeg (seg : Str) : Str :=
  let body := seg.takeWhile (· != ';')
  match seg.dropWhile (· != ';') with
  | ';' :: rest =>
    match decodeRef body with
    | some r => r ++ rest
    | none => '&' :: seg
  | _ => '&' :: seg

/-- the piece before the first `&`, and the pieces after each `&` -/
def splitAmp : Str → Str × List Str
  | [] => ([], [])
  | c :: r =>
    let p := splitAmp r
    if c = '&' then ([], p.1 :: p.2) else (c :: p.1, p.2)

/-- `html.unescape(s)` while marko's `HTMLRenderer` is active (a reference needs its `;`) -/
def htmlUnescape (s : Str) : Str :=
  let p := splitAmp s
  p.1 ++ (p.2.map decodeSeg).flatten

/-- `html.escape(s).replace("&#x27;", "'")` -/
def mkEscChar (c : Char) : Str :=
  if c = '&' then "&amp;".toList
  else if c = '<' then "&lt;".toList
  else if c = '>' then "&gt;".toList
  else if c = '"' then "&quot;".toList
  else [c]
def mkEscape (s : Str) : Str := s.flatMap mkEscChar

/-- `HTMLRenderer.escape_html` -/
def markoEscapeHtml (s : Str) : Str := mkEscape (htmlUnescape s)

-- ---------------------------------------------------------------- inline content
/-- the characters at which an inline element other than `Literal`, `LineBreak`, `RawText` can start -/
def isInlineSpecial (c : Char) : Bool :=
  c == '*' || c == '_' || c == '`' || c == '[' || c == '<' || c == '{'

inductive InlScan where
  /-- no unescaped special character: the text with escapes and references resolved (`html.unescape` of what marko
      renders), and whether there is a hard line break -/
  | ok (decoded : Str) (hard : Bool)
  | special
deriving Repr, DecidableEq

def InlScan.prepend (s : Str) : InlScan → InlScan
  | .ok d h => .ok (s ++ d) h
  | .special => .special
def InlScan.setHard : InlScan → InlScan
  | .ok d _ => .ok d true
  | .special => .special

/-- left to right over the heading text; `run` is the current raw-text run, reversed -/
def scanInline (run : Str) : Str → InlScan
  | [] => .ok (htmlUnescape run.reverse) false
  | [c] => if isInlineSpecial c then .special else .ok (htmlUnescape (c :: run).reverse) false
  | c :: d :: r =>
    if c = '\\' then
      if isAsciiPunct d then (scanInline [] r).prepend (htmlUnescape run.reverse ++ [d])
      else if d = '\n' && !r.isEmpty then ((scanInline [] r).prepend (htmlUnescape run.reverse)).setHard
      else scanInline ('\\' :: run) (d :: r)
    else if c = '\n' then
      let k := (run.takeWhile (· == ' ')).length
      if 2 ≤ k then ((scanInline [] (d :: r)).prepend (htmlUnescape (run.drop k).reverse)).setHard
      else (scanInline [] (d :: r)).prepend (htmlUnescape (run.drop k).reverse ++ ['\n'])
    else if isInlineSpecial c then .special
    else scanInline (c :: run) (d :: r)

-- certain markup (for texts without any backslash)
/-- a `{` with a `}` somewhere after it: `ScaledValueExpression.pattern` matches (every brace-free text is a
    sequence of its parts) -/
def hasBracePair (t : Str) : Bool := (t.dropWhile (· != '{')).contains '}'

/-- lengths of the maximal runs of backticks -/
def backtickRuns (cur : Nat) : Str → List Nat
  | [] => if cur = 0 then [] else [cur]
  | c :: r => if c = '`' then backtickRuns (cur + 1) r else (if cur = 0 then [] else [cur]) ++ backtickRuns 0 r

def hasDupNat : List Nat → Bool
  | [] => false
  | x :: xs => xs.contains x || hasDupNat xs

/-- two maximal backtick runs of the same length: `CodeSpan.pattern` matches -/
def hasCodeSpan (t : Str) : Bool := hasDupNat (backtickRuns 0 t)

def isAsciiLetter (c : Char) : Bool := (65 ≤ c.toNat && c.toNat ≤ 90) || (97 ≤ c.toNat && c.toNat ≤ 122)
def isTagNameChar (c : Char) : Bool := isAsciiLetter c || isDigit c || c == '-'

/-- after a `<`: `name>` or `/name>` -/
def simpleTagAt (s : Str) : Bool :=
  let s := match s with
    | '/' :: r => r
    | _ => s
  match s with
  | c :: r =>
    isAsciiLetter c && (match r.dropWhile isTagNameChar with
      | '>' :: _ => true
      | _ => false)
  | [] => false

/-- `<b>`, `</b>`, `<br>` …: `InlineHTML.pattern` matches -/
def hasSimpleTag : Str → Bool
  | [] => false
  | c :: r => (c == '<' && simpleTagAt r) || hasSimpleTag r

/-- the whole text is `A c^k W c^k B`: `c` one of `* _`, `W` a non-empty word (no white space, no ASCII punctuation),
    `A` empty or ending in white space, `B` empty or starting with white space, no other `*`/`_`, and no bracket or
    backtick anywhere: the two delimiter runs open and close an emphasis -/
def simpleEmph (t : Str) : Bool :=
  let isD : Char → Bool := fun c => c == '*' || c == '_'
  let a := t.takeWhile (fun c => !isD c)
  let r0 := t.drop a.length
  match r0 with
  | [] => false
  | c :: _ =>
    let k := (r0.takeWhile (· == c)).length
    let r1 := r0.drop k
    let w := r1.takeWhile (fun x => !isReSpace x && !isAsciiPunct x)
    let r2 := r1.drop w.length
    let k2 := (r2.takeWhile (· == c)).length
    let b := r2.drop k2
    !w.isEmpty && k2 == k && !b.any isD && !t.any (fun x => x == '[' || x == ']' || x == '`') &&
      (match a.getLast? with
       | none => true
       | some x => isReSpace x) &&
      (match b with
       | [] => true
       | x :: _ => isReSpace x)

/-- two or more spaces before a line break that is not the end of the text -/
def hasSpaceHardBreak : Str → Bool
  | [] => false
  | c :: r =>
    (c == ' ' && (match r with
      | ' ' :: '\n' :: _ :: _ => true
      | _ => false)) || hasSpaceHardBreak r

def definiteMarkup (t : Str) : Bool :=
  hasBracePair t || hasCodeSpan t || hasSimpleTag t || simpleEmph t || hasSpaceHardBreak t

inductive InlClass where
  /-- what `render_children` returns for the heading -/
  | plain (rendered : Str)
  /-- the rendered text certainly contains `<` or the placeholder of a brace expression -/
  | markup
  | unknown
deriving Repr, DecidableEq

def inlineClass (t : Str) : InlClass :=
  match scanInline [] t with
  | .ok d false => .plain (mkEscape d)
  | .ok _ true => .markup
  | .special => if !t.contains '\\' && definiteMarkup t then .markup else .unknown

/-- the text of a plain heading with backslash escapes and character references resolved -/
def decodeInline (t : Str) : Option Str :=
  match scanInline [] t with
  | .ok d false => some d
  | _ => none

-- ---------------------------------------------------------------- the heading's own text
/-- group 2 of `Heading.pattern`, stripped: `r` is the rest of the line after the opening `#`s (without the `"\n"`).
    A closing run of `#`s goes only when white space precedes it. -/
def atxContent (r : Str) : Str :=
  let r1 := rstripStr r
  let q := (r1.reverse.dropWhile (· == '#')).reverse
  if q.length < r1.length && (match q.getLast? with
      | some c => isReSpace c
      | none => false) then stripStr q
  else stripStr r1

/-- level and raw inline text of an ATX heading line -/
def atxParts (l : Str) : Nat × Str :=
  let rest := l.drop (leadSpaces l)
  let h := (rest.takeWhile (· == '#')).length
  (h, atxContent ((rest.drop h).takeWhile (· != '\n')))

/-- `Paragraph.is_setext_heading`: ` {,3}(=+|-+)[^\n\S]*$` -/
def isSetextUnderline (l : Str) : Bool := decide (leadSpaces l ≤ 3) && looksSetext (l.drop (leadSpaces l))

/-- `SetextHeading.__init__` -/
def setextLevel (underline : Str) : Nat :=
  match underline.drop (leadSpaces underline) with
  | '=' :: _ => 1
  | _ => 2
def setextContent (lines : List Str) : Str := stripStr (lines.map lstripStr).flatten

-- ---------------------------------------------------------------- the first heading
inductive RawHeading where
  /-- some line before the first heading is outside the sub-language -/
  | outside
  | noHeading
  | heading (level : Nat) (text : Str)
deriving Repr, DecidableEq

def ScanSt.isPara : ScanSt → Bool
  | .para => true
  | _ => false

/-- a tab in the indentation of a non-blank line (marko expands tabs when it looks for indented code; the model does not) -/
def leadTab (l : Str) : Bool := !isBlankLine l && (l.takeWhile (fun c => c == ' ' || c == '\t')).contains '\t'

/-- the block scanner of `Model/MdBlocks.lean` run until the first heading; `para`: the lines of the paragraph being
    read, last first -/
def findHeading : ScanSt → List Str → List Str → RawHeading
  | _, _, [] => .noHeading
  | st, para, l :: ls =>
    if st.isPara && isSetextUnderline l then .heading (setextLevel l) (setextContent para.reverse)
    else
      match (step st l).1 with
      | .heading => .heading (atxParts l).1 (atxParts l).2
      | .para first =>
        if leadTab l || !plainLine first l then .outside
        else findHeading (step st l).2 (if first then [l] else l :: para) ls
      | .lazy => if leadTab l then .outside else findHeading (step st l).2 (l :: para) ls
      | _ => if leadTab l then .outside else findHeading (step st l).2 [] ls

def rawHeading (doc : Str) : RawHeading := findHeading .top [] (mdLines (normaliseCrLf doc))

inductive HText where
  | plain (rendered : Str)
  | markup
deriving Repr, DecidableEq

inductive FirstHeading where
  | outside
  | noHeading
  | heading (level : Nat) (text : HText)
deriving Repr, DecidableEq

def firstHeadingX (doc : Str) : FirstHeading :=
  match rawHeading doc with
  | .outside => .outside
  | .noHeading => .noHeading
  | .heading level t =>
    match inlineClass t with
    | .plain r => .heading level (.plain r)
    | .markup => .heading level .markup
    | .unknown => .outside

/-- membership in **H** -/
def inH (doc : Str) : Bool :=
  match firstHeadingX doc with
  | .outside => false
  | _ => true

/-- level and rendered inline text of the first heading `render_heading` is called for; `none`: no heading, or the
    document is outside **H** (`inH` tells which) -/
def firstHeading (doc : Str) : Option (Nat × HText) :=
  match firstHeadingX doc with
  | .heading level t => some (level, t)
  | _ => none

/-- what `compile_markdown(doc)` records as title and serving count (for documents of **H**).  The placeholders issued
    for brace expressions of earlier paragraphs are random 34-character strings: the model takes it that the rendered text
    of a plain heading contains none of them. -/
def docTitle (doc : Str) : TitleInfo :=
  match firstHeadingX doc with
  | .heading level (.plain t) => headingInfo true level t []
  | _ => .none

end RG
