import RecipeGrid.Gen.Regexes
import RecipeGrid.Model.Sexp
/-! Line-protocol requests served by the regular-expression engine of `Model/ReExt.lean`:

    * `(rx-match re text)` / `(rx-match-at re text i)`: the generated syntax of the terminal with source `re`
      (`Gen.regexAst`) matched on `text` (from `i`: on `text[i:]`, the answer as a position of `text`);
    * `(rx-eval ast text)` / `(rx-eval-at ast text i)`: the same for a syntax tree sent with the request (the harness sends
      what `re._parser.parse` makes of arbitrary patterns of the supported fragment);
    * `(rx-ast re)`: is there a syntax for this source, and is it well formed.
    Replies are those of `(peg-term …)`: `(ok end)`, `fail`, `(err unknown-terminal …)`. -/
namespace RG

def ClsItem.ofSexp? : Sexp → Option ClsItem
  | .list [.atom "chr", c] => (c.asNat?).map fun n => .chr (Char.ofNat n)
  | .list [.atom "range", lo, hi] => do pure (.range (Char.ofNat (← lo.asNat?)) (Char.ofNat (← hi.asNat?)))
  | .atom "space" => some .space
  | .atom "digit" => some .digit
  | .atom "word" => some .word
  | _ => none

partial def Rx.ofSexp? : Sexp → Option Rx
  | .atom "eps" => some .eps
  | .atom "any" => some .any
  | .atom "bound" => some .bound
  | .list [.atom "chr", c] => (c.asNat?).map fun n => .chr (Char.ofNat n)
  | .list [.atom "ichr", c] => (c.asNat?).map fun n => .ichr (Char.ofNat n)
  | .list [.atom "cls", neg, items] => do pure (.cls (← neg.asBool?) (← Sexp.asList? ClsItem.ofSexp? items))
  | .list (.atom "seqs" :: xs) => do pure (Rx.seqs (← xs.mapM Rx.ofSexp?))
  | .list (.atom "alts" :: xs) => do pure (Rx.alts (← xs.mapM Rx.ofSexp?))
  | .list [.atom "star", a] => do pure (.star (← Rx.ofSexp? a))
  | .list [.atom "plus", a] => do pure (.plus (← Rx.ofSexp? a))
  | .list [.atom "opt", a] => do pure (.opt (← Rx.ofSexp? a))
  | .list [.atom "grp", n, a] => do pure (.grp (← n.asNat?) (← Rx.ofSexp? a))
  | _ => none

def rxReply : Option Nat → Sexp
  | some j => Sexp.tag "ok" [Sexp.ofNat j]
  | none => Sexp.atom "fail"

def dispatchRx : Sexp → Option Sexp
  | .list [.atom "rx-match", re, src] =>
    match re.asStr?, src.asStr? with
    | some re, some src =>
      match Gen.regexAst (String.ofList re) with
      | some r => some (rxReply (r.matchEnd src.toArray 0))
      | none => some (Sexp.tag "err" [Sexp.atom "unknown-terminal", Sexp.ofStr re])
    | _, _ => some (Sexp.tag "bad-request" [Sexp.atom "args"])
  | .list [.atom "rx-match-at", re, src, i] =>
    match re.asStr?, src.asStr?, i.asNat? with
    | some re, some src, some i =>
      match Gen.regexAst (String.ofList re) with
      | some r => some (rxReply (r.matchEnd src.toArray i))
      | none => some (Sexp.tag "err" [Sexp.atom "unknown-terminal", Sexp.ofStr re])
    | _, _, _ => some (Sexp.tag "bad-request" [Sexp.atom "args"])
  | .list [.atom "rx-eval", ast, src] =>
    match Rx.ofSexp? ast, src.asStr? with
    | some r, some src => some (rxReply (r.matchEnd src.toArray 0))
    | _, _ => some (Sexp.tag "bad-request" [Sexp.atom "args"])
  | .list [.atom "rx-eval-at", ast, src, i] =>
    match Rx.ofSexp? ast, src.asStr?, i.asNat? with
    | some r, some src, some i => some (rxReply (r.matchEnd src.toArray i))
    | _, _, _ => some (Sexp.tag "bad-request" [Sexp.atom "args"])
  | .list [.atom "rx-ast", re] =>
    match re.asStr? with
    | some re => some (Sexp.ofOpt (fun r => Sexp.ofBool r.wellFormed) (Gen.regexAst (String.ofList re)))
    | none => some (Sexp.tag "bad-request" [Sexp.atom "args"])
  | _ => none

end RG
