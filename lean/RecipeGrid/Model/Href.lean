import RecipeGrid.Model.Num
/-! `static_site/href.py`, and RFC 3986 reference resolution for path-only references. -/
namespace RG

/-- `s.split("/")` -/
def splitSlash (s : Str) : List Str := s.splitOn '/'
/-- `"/".join(parts)` -/
def joinSlash (parts : List Str) : Str := ['/'].intercalate parts

/-- `href.parent` -/
def hrefParent (href : Str) : Str := joinSlash (splitSlash href).dropLast

def commonPrefixLen : List Str → List Str → Nat
  | a :: as, b :: bs => if a == b then 1 + commonPrefixLen as bs else 0
  | _, _ => 0

def hexDigit (n : Nat) : Char := if n < 10 then Char.ofNat (48 + n) else Char.ofNat (55 + n)

/-- `urllib.parse.quote(s)` (safe = "/"): unreserved characters and "/" stay, everything else becomes the
    percent-encoded bytes of its UTF-8 encoding -/
def urlQuoteChar (c : Char) : Str :=
  if ('a' ≤ c && c ≤ 'z') || ('A' ≤ c && c ≤ 'Z') || ('0' ≤ c && c ≤ '9') || c == '_' || c == '.' || c == '-' || c == '~' || c == '/' then [c]
  else (String.utf8EncodeChar c).flatMap fun b => ['%', hexDigit (b.toNat / 16), hexDigit (b.toNat % 16)]
def urlQuote (s : Str) : Str := s.flatMap urlQuoteChar

/-- the relative path from the directory of `frm` to `to` (unquoted) -/
def relativePath (frm to : Str) : Str :=
  let fromParts := (splitSlash frm).dropLast
  let toParts := splitSlash to
  let c := commonPrefixLen fromParts toParts
  joinSlash (List.replicate (fromParts.length - c) "..".toList ++ toParts.drop c)

/-- `href.relative(from_href, to_href)`: the relative path, percent-encoded -/
def hrefRelative (frm to : Str) : Str := urlQuote (relativePath frm to)

/-- RFC 3986 §5.2.4 remove_dot_segments on a list of segments (after the leading "/") -/
def removeDots : List Str → List Str → List Str
  | acc, [] => acc.reverse
  | acc, seg :: rest =>
    if seg == ".".toList then (if rest.isEmpty then ([] :: acc).reverse else removeDots acc rest)
    else if seg == "..".toList then (if rest.isEmpty then ([] :: acc.drop 1).reverse else removeDots (acc.drop 1) rest)
    else removeDots (seg :: acc) rest

/-- resolve a relative path reference against an absolute base path (RFC 3986 §5.2: merge, then remove dot segments).
    An empty reference denotes the base document itself. -/
def resolveRef (base ref : Str) : Str :=
  if ref.isEmpty then base
  else if ref.head? == some '/' then '/' :: joinSlash (removeDots [] (splitSlash (ref.drop 1)))
  else
    let merged := (splitSlash (base.drop 1)).dropLast ++ splitSlash ref
    '/' :: joinSlash (removeDots [] merged)

end RG
