import RecipeGrid.Model.MdContainers
import RecipeGrid.Model.MdBlocksDispatch
/-! Line-protocol requests served by the container-aware block scanner model. -/
namespace RG

def Ctx.toSexp : Ctx → Sexp
  | .none => Sexp.atom "none"
  | .quote => Sexp.atom "quote"
  | .item k => Sexp.tag "item" [Sexp.ofNat k]

def dispatchMdContainers : Sexp → Option Sexp
  | .list [.atom "md-blocks2", d] =>
    match d.asStr? with
    | some d => some (Sexp.ofList (fun (b : MdBlock) =>
        Sexp.list [b.kind.toSexp, Sexp.ofNat b.pos, Sexp.ofNat b.startLine, Sexp.ofStr b.source,
          Sexp.ofStr (paddedSource d b.pos b.kind.isFenced b.source)]) (scanBlocks2 d))
    | none => some (Sexp.tag "bad-request" [Sexp.atom "args"])
  | .list [.atom "md-indoc2", d] =>
    match d.asStr? with
    | some d => some (Sexp.ofBool (inDoc2 d))
    | none => some (Sexp.tag "bad-request" [Sexp.atom "args"])
  | .list [.atom "md-tags2", d] =>
    match d.asStr? with
    | some d => some (Sexp.ofList (fun (t : TLine2) =>
        Sexp.list [Sexp.atom t.tag.name, t.ctx.toSexp, Sexp.ofNat t.pfx, Sexp.ofBool t.reg, Sexp.ofBool t.ok]) (tagDoc2 d))
    | none => some (Sexp.tag "bad-request" [Sexp.atom "args"])
  | _ => none

end RG
