import RecipeGrid.Model.Sexp
/-! `recipe_directory._cached_compile_markdown = lru_cache(compile_markdown)` and `compile_recipe_markdown`, which reads the file and asks the
    cache with the file's CONTENT as the key ("because we cache based on the markdown contents we will never produce a stale result").
    `functools.lru_cache(maxsize = cap)`: entries most recently used first; a hit moves its entry to the front; a miss calls the function,
    stores the result at the front and drops the least recently used entry when the cache is over its capacity; an exception is not stored. -/
namespace RG

structure Lru (κ ν : Type) where
  cap : Nat
  /-- most recently used first -/
  entries : List (κ × ν)

namespace Lru
variable {κ ν ε : Type} [DecidableEq κ]

def empty (cap : Nat) : Lru κ ν := ⟨cap, []⟩

def find (c : Lru κ ν) (k : κ) : Option ν := (c.entries.find? (·.1 = k)).map (·.2)

/-- one call of the wrapped function: (result, was it a hit, the cache afterwards) -/
def call (f : κ → Except ε ν) (c : Lru κ ν) (k : κ) : Except ε ν × Bool × Lru κ ν :=
  match c.find k with
  | some v => (.ok v, true, { c with entries := (k, v) :: c.entries.filter (·.1 ≠ k) })
  | none =>
    match f k with
    | .ok v => (.ok v, false, { c with entries := ((k, v) :: c.entries).take c.cap })
    | .error e => (.error e, false, c)

end Lru

/-- what the site generator does to its compile cache over time: files are written (created / edited), recipes are compiled from paths -/
inductive CacheOp (π τ : Type) where
  | write (path : π) (text : τ)
  | compile (path : π)

/-- `compile_recipe_markdown` over a history: the results of the `compile` operations, in order (a missing file is skipped) -/
def runCompiles {π τ ν ε : Type} [DecidableEq π] [DecidableEq τ] (f : τ → Except ε ν) :
    (π → Option τ) → Lru τ ν → List (CacheOp π τ) → List (Except ε ν)
  | _, _, [] => []
  | fs, c, .write p t :: ops => runCompiles f (fun q => if q = p then some t else fs q) c ops
  | fs, c, .compile p :: ops =>
    match fs p with
    | none => runCompiles f fs c ops
    | some t => let r := Lru.call f c t; r.1 :: runCompiles f fs r.2.2 ops

/-- the same history without any cache -/
def runCompilesPlain {π τ ν ε : Type} [DecidableEq π] (f : τ → Except ε ν) :
    (π → Option τ) → List (CacheOp π τ) → List (Except ε ν)
  | _, [] => []
  | fs, .write p t :: ops => runCompilesPlain f (fun q => if q = p then some t else fs q) ops
  | fs, .compile p :: ops =>
    match fs p with
    | none => runCompilesPlain f fs ops
    | some t => f t :: runCompilesPlain f fs ops

/-- the variant the seeded changes keep re-inventing: the cache asked with the PATH as the key -/
def runCompilesByPath {π τ ν ε : Type} [DecidableEq π] (f : τ → Except ε ν) :
    (π → Option τ) → Lru π ν → List (CacheOp π τ) → List (Except ε ν)
  | _, _, [] => []
  | fs, c, .write p t :: ops => runCompilesByPath f (fun q => if q = p then some t else fs q) c ops
  | fs, c, .compile p :: ops =>
    match fs p with
    | none => runCompilesByPath f fs c ops
    | some t => let r := Lru.call (fun _ => f t) c p; r.1 :: runCompilesByPath f fs r.2.2 ops

end RG
