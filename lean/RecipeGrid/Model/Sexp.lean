/-! S-expressions for the line protocol between the Python harness and the Lean model.
    Import-free. Atoms are runs of characters other than space and parentheses. -/
namespace RG

inductive Sexp where
  | atom (s : String)
  | list (xs : List Sexp)
deriving Repr, Inhabited

namespace Sexp

partial def toStr : Sexp → String
  | atom s => s
  | list xs => "(" ++ " ".intercalate (xs.map toStr) ++ ")"

instance : ToString Sexp := ⟨toStr⟩

/-- tokenise into "(" ")" and atoms -/
def tokens (s : String) : List String := Id.run do
  let mut out : Array String := #[]
  let mut cur : String := ""
  for c in s.toList do
    if c == '(' || c == ')' then
      if cur != "" then out := out.push cur; cur := ""
      out := out.push (String.singleton c)
    else if c == ' ' || c == '\n' || c == '\r' || c == '\t' then
      if cur != "" then out := out.push cur; cur := ""
    else
      cur := cur.push c
  if cur != "" then out := out.push cur
  return out.toList

/-- parse a token list with an explicit stack (total, no fuel needed) -/
def parseTokens (toks : List String) : Option Sexp := Id.run do
  let mut stack : List (List Sexp) := [[]]   -- each frame reversed
  for t in toks do
    if t == "(" then
      stack := [] :: stack
    else if t == ")" then
      match stack with
      | top :: next :: rest => stack := (Sexp.list top.reverse :: next) :: rest
      | _ => return none
    else
      match stack with
      | top :: rest => stack := (Sexp.atom t :: top) :: rest
      | [] => return none
  match stack with
  | [[x]] => return some x
  | _ => return none

def parse (s : String) : Option Sexp := parseTokens (tokens s)

def ofNat (n : Nat) : Sexp := atom (toString n)
def ofInt (n : Int) : Sexp := atom (toString n)
def ofBool (b : Bool) : Sexp := atom (if b then "T" else "F")
/-- strings travel as lists of code points: `(s 104 105)` -/
def ofStr (s : List Char) : Sexp := list (atom "s" :: s.map (fun c => ofNat c.toNat))
def ofOpt {α} (f : α → Sexp) : Option α → Sexp
  | none => atom "none"
  | some a => list [atom "some", f a]
def ofList {α} (f : α → Sexp) (xs : List α) : Sexp := list (atom "l" :: xs.map f)
def tag (t : String) (xs : List Sexp) : Sexp := list (atom t :: xs)

def asNat? : Sexp → Option Nat
  | atom s => s.toNat?
  | _ => none
def asInt? : Sexp → Option Int
  | atom s => s.toInt?
  | _ => none
def asBool? : Sexp → Option Bool
  | atom "T" => some true
  | atom "F" => some false
  | _ => none
def asStr? : Sexp → Option (List Char)
  | list (atom "s" :: cs) => cs.mapM (fun c => (asNat? c).map Char.ofNat)
  | _ => none
def asOpt? {α} (f : Sexp → Option α) : Sexp → Option (Option α)
  | atom "none" => some none
  | list [atom "some", x] => (f x).map some
  | _ => none
def asList? {α} (f : Sexp → Option α) : Sexp → Option (List α)
  | list (atom "l" :: xs) => xs.mapM f
  | _ => none

end Sexp
end RG
