import RecipeGrid.Model.Parser
import RecipeGrid.Model.Recipe
/-! `recipe_grid.markdown.ScaledValueExpression`: the `{…}` scaled-value expressions of Markdown prose.

    The class is driven by Python regular expressions, so the model has two layers.

    * A small backtracking regular-expression matcher (`Re`, `Re.run`) with the semantics of Python's `re`
      for the constructs that occur here: alternatives are tried in order, `*`, `+` and `?` are greedy and
      give back, capture groups record the text of their last (not abandoned) participation.  The matcher is
      written in continuation-passing style: `run r s caps k` matches `r` at the start of `s` and calls `k`
      with the rest of the text; if `k` answers `none` the matcher backtracks into `r`.  The first answer in
      that search order is the result - exactly the match that `re` reports.
    * The patterns of the class, transcribed literally (`fractionRe`, `decimalRe`, `freeTextRe`, `anyPartRe`,
      `patternRe`), `braceMatch` (= `pattern.match`), `braceTokens` (= `any_part_pattern.finditer` with the
      values that `__init__` builds), `braceParts` (the `ScaledValueString`), `braceChildren` and the
      constructor `braceExpr` with the exceptions it can raise.

    Loops take fuel: the number of characters left (every iteration of every `*` here consumes a character). -/
namespace RG

/-! ## A backtracking matcher -/

/-- regular expressions (the fragment used by `ScaledValueExpression`) -/
inductive Re where
  /-- the empty pattern -/
  | eps
  /-- one character of a class -/
  | cls (p : Char → Bool)
  /-- `ab` -/
  | seq (a b : Re)
  /-- `a|b`: `a` first -/
  | alt (a b : Re)
  /-- `a*`, greedy -/
  | star (a : Re)
  /-- a capturing group with number `id` -/
  | grp (id : Nat) (a : Re)

namespace Re
/-- `a+` -/
def plus (a : Re) : Re := seq a (star a)
/-- `a?`, greedy -/
def opt (a : Re) : Re := alt a eps
/-- a literal character -/
def chr (c : Char) : Re := cls (· == c)

/-- the groups that have matched, most recent first -/
abbrev Caps := List (Nat × Str)

/-- `match[id]`; `none` is Python's `None` (the group did not take part) -/
def Caps.get (c : Caps) (id : Nat) : Option Str :=
  match c with
  | [] => none
  | (i, s) :: rest => if i = id then some s else Caps.get rest id

/-- a continuation: what is matched after the current sub-pattern, on the rest of the text -/
abbrev Cont (α : Type) := Str → Caps → Option α

/-- greedy iteration: another round of `ma` first, leaving the loop second -/
def starK {α : Type} (ma : Str → Caps → Cont α → Option α) : Nat → Str → Caps → Cont α → Option α
  | 0, s, c, k => k s c
  | fuel + 1, s, c, k =>
    match ma s c (fun s' c' => starK ma fuel s' c' k) with
    | some a => some a
    | none => k s c

/-- `run r s c k`: the first answer of `k` over all ways of matching `r` at the start of `s`,
    in the order a backtracking engine tries them -/
def run {α : Type} : Re → Str → Caps → Cont α → Option α
  | eps, s, c, k => k s c
  | cls p, s, c, k =>
    match s with
    | ch :: rest => if p ch then k rest c else none
    | [] => none
  | seq a b, s, c, k => run a s c (fun s' c' => run b s' c' k)
  | alt a b, s, c, k =>
    match run a s c k with
    | some r => some r
    | none => run b s c k
  | star a, s, c, k => starK (run a) s.length s c k
  | grp id a, s, c, k => run a s c (fun s' c' => k s' ((id, s.take (s.length - s'.length)) :: c'))
end Re

/-! ## The patterns of `ScaledValueExpression` -/
namespace Brace
open Re

/-- group numbers -/
def gInteger : Nat := 0
def gNumerator : Nat := 1
def gDenominator : Nat := 2
def gDecimal : Nat := 3
def gEscaped : Nat := 4
def gChar : Nat := 5
def gSource : Nat := 6
/-- the unnamed group around `integer [ \t]+` -/
def gAnon1 : Nat := 7
/-- the unnamed group `(\.[0-9]*)` -/
def gAnon2 : Nat := 8

def digit : Re := cls isDigit
def hspc : Re := cls isHsp
/-- `[1-9]` -/
def isNonZeroDigit (c : Char) : Bool := 49 ≤ c.toNat && c.toNat ≤ 57
/-- `.` without DOTALL: anything but a line feed -/
def isDot (c : Char) : Bool := c != '\n'
/-- `[^0-9\{\}]` -/
def isFreeChar (c : Char) : Bool := !isDigit c && c != '{' && c != '}'

/-- `((?P<integer>[0-9]+)[ \t]+)` -/
def fracIntRe : Re := grp gAnon1 (seq (grp gInteger (plus digit)) (plus hspc))

/-- `0*[1-9][0-9]*` -/
def denomRe : Re := seq (star (chr '0')) (seq (cls isNonZeroDigit) (star digit))

/-- `(?P<numerator>[0-9]+)[ \t]*/[ \t]*(?P<denominator>0*[1-9][0-9]*)` -/
def fracTailRe : Re :=
  seq (grp gNumerator (plus digit))
  (seq (star hspc)
  (seq (chr '/')
  (seq (star hspc)
       (grp gDenominator denomRe))))

/-- `(?:((?P<integer>[0-9]+)[ \t]+)?(?P<numerator>[0-9]+)[ \t]*/[ \t]*(?P<denominator>0*[1-9][0-9]*))` -/
def fractionRe : Re := seq (opt fracIntRe) fracTailRe

/-- `(?P<decimal>[0-9]+(\.[0-9]*)?)` -/
def decimalRe : Re :=
  grp gDecimal (seq (plus digit) (opt (grp gAnon2 (seq (chr '.') (star digit)))))

/-- `\\(?P<escaped_char>.)|(?P<char>[^0-9\{\}])` -/
def freeTextRe : Re :=
  alt (seq (chr '\\') (grp gEscaped (cls isDot))) (grp gChar (cls isFreeChar))

/-- `(?:fraction|decimal|free_text)` -/
def anyPartRe : Re := alt fractionRe (alt decimalRe freeTextRe)

/-- `\{(?P<source>any_part*)\}` -/
def patternRe : Re := seq (chr '{') (seq (grp gSource (star anyPartRe)) (chr '}'))

end Brace

open Re Brace in
/-- `ScaledValueExpression.pattern.match(text)`: the `source` group and the text after the match -/
def braceMatch (text : Str) : Option (Str × Str) :=
  run patternRe text [] (fun rest c => some ((c.get gSource).getD [], rest))

/-! ## The parts -/

/-- text before and after the first "." -/
def splitDot : Str → Str × Option Str
  | [] => ([], none)
  | c :: rest =>
    if c == '.' then ([], some rest)
    else let (a, b) := splitDot rest; (c :: a, b)

open Parser in
/-- `int(integer) + Fraction(int(numerator), int(denominator))` (`integer` absent: `0 + …`); always a `Fraction` -/
def Brace.fracValue (integer : Option Str) (numer denom : Str) : Num :=
  let i : Nat := match integer with | some ds => natOfDigits ds | none => 0
  ⟨(i : Rat) + mkRat (natOfDigits numer) (natOfDigits denom), .frac⟩

open Parser in
/-- `int(text)` -/
def Brace.intValue (text : Str) : Num := ⟨((natOfDigits text : Nat) : Rat), .int⟩

open Parser in
/-- `float(whole "." frac)`: the nearest double -/
def Brace.floatValue (whole frac : Str) : Num :=
  ⟨toDouble (mkRat (natOfDigits (whole ++ frac) : Nat) (10 ^ frac.length)), .flt⟩

/-- the value `__init__` builds from one match of `any_part_pattern` -/
def Brace.partValue (c : Re.Caps) : Part :=
  match c.get gNumerator with
  | some numer => .num (fracValue (c.get gInteger) numer ((c.get gDenominator).getD []))
  | none =>
    match c.get gDecimal with
    | some text =>
      match splitDot text with
      | (whole, none) => .num (intValue whole)
      | (whole, some frac) => .num (floatValue whole frac)
    | none =>
      match c.get gEscaped with
      | some e => .text e
      | none => .text ((c.get gChar).getD [])

open Re Brace in
/-- one step of `finditer`: the first match of `any_part_pattern` at the start of `s` -/
def Brace.partAt (s : Str) : Option (Str × Re.Caps) :=
  run anyPartRe s [] (fun rest c => some (rest, c))

/-- `any_part_pattern.finditer(source)`: leftmost matches, characters at which nothing matches are skipped;
    each match with its groups -/
def Brace.matchesF : Nat → Str → List Re.Caps
  | 0, _ => []
  | _ + 1, [] => []
  | fuel + 1, ch :: rest =>
    match Brace.partAt (ch :: rest) with
    | some (s', c) => c :: matchesF fuel s'
    | none => matchesF fuel rest

def Brace.matches (src : Str) : List Re.Caps := Brace.matchesF src.length src

/-- the list handed to `ScaledValueString(...)` -/
def braceTokens (src : Str) : List Part := (Brace.matches src).map Brace.partValue

/-- `ScaledValueExpression(match).string` for `match["source"] = src` -/
def braceParts (src : Str) : SVS := Svs.normalise (braceTokens src)

/-- `ScaledValueExpression(match).children` -/
def braceChildren (src : Str) : Str := Svs.render (braceParts src)

/-! ## Exceptions of the constructor

    `int(text)` refuses more than 4300 digits (`sys.int_max_str_digits`, leading zeros count);
    `float(text)` silently gives `inf` from `2^1024 - 2^970` on (shown as `inf`; it used to make `str(self.string)` fail in
    `format_float`, repaired in /repo); `float(Fraction)` (used for denominators that are not shown as fractions)
    raises for the same values; `str(int)` refuses more than 4300 digits. -/

inductive BraceErr where
  /-- `ValueError: Exceeds the limit (4300 digits) for integer string conversion` -/
  | valueError
  /-- `OverflowError` (`float(Fraction)` of a value beyond the float range, for a denominator that is not shown as a fraction) -/
  | overflowError
  /-- no exception (since the repair of `format_float`): the string holds a float infinity, shown as `inf` - outside the model's
      numbers (exact rationals), so reported as an outcome of its own -/
  | infiniteFloat
deriving DecidableEq, Repr

def intMaxStrDigits : Nat := 4300

/-- from here on a decimal rounds to `inf` -/
def floatInfThreshold : Nat := 2 ^ 1024 - 2 ^ 970

open Brace in
/-- the `int(...)` calls of one match: does one of them raise? -/
def Brace.capsIntTooLong (c : Re.Caps) : Bool :=
  match c.get gNumerator with
  | some numer =>
    (match c.get gInteger with | some ds => decide (intMaxStrDigits < ds.length) | none => false)
    || decide (intMaxStrDigits < numer.length)
    || decide (intMaxStrDigits < ((c.get gDenominator).getD []).length)
  | none =>
    match c.get gDecimal with
    | some text => !text.contains '.' && decide (intMaxStrDigits < text.length)
    | none => false

/-- does `format_number` raise on this (non-negative) number, and what? -/
def renderNumErr (n : Num) : Option BraceErr :=
  match n.kind with
  | .flt => if (floatInfThreshold : Rat) ≤ n.val then some .infiniteFloat else none
  | .int => if intMaxStrDigits < (natDigits n.val.num.natAbs).length then some .valueError else none
  | .frac =>
    if n.val.den == 1 then
      if intMaxStrDigits < (natDigits n.val.num.natAbs).length then some .valueError else none
    else if !(Gen.allowedDenominators.contains n.val.den) then
      if (floatInfThreshold : Rat) ≤ n.val then some .overflowError else none
    else if n.val.num.natAbs > n.val.den then
      if intMaxStrDigits < (natDigits (n.val.num.natAbs / n.val.den)).length then some .valueError else none
    else none

/-- the first part on which `str(self.string)` raises -/
def renderSvsErr : SVS → Option BraceErr
  | [] => none
  | .text _ :: rest => renderSvsErr rest
  | .num n :: rest =>
    match renderNumErr n with
    | some .infiniteFloat =>
      -- showing `inf` raises nothing: a later part may still raise; otherwise the outcome is "holds an infinity"
      (match renderSvsErr rest with
       | some .valueError => some .valueError
       | some .overflowError => some .overflowError
       | _ => some .infiniteFloat)
    | some e => some e
    | none => renderSvsErr rest

/-- `ScaledValueExpression(match)`: the string, or the exception -/
def braceExpr (src : Str) : Except BraceErr SVS :=
  if (Brace.matches src).any Brace.capsIntTooLong then .error .valueError
  else
    match renderSvsErr (braceParts src) with
    | some e => .error e
    | none => .ok (braceParts src)

end RG
