import RecipeGrid.Model.ParserErr
/-! Line-protocol request served by the located-syntax-error model: `(parse-err <src>)` replies `(ok)` or
    `(syntax <offset> <line> <column> <quoted line or none>)`. -/
namespace RG

def dispatchParserErr : Sexp → Option Sexp
  | .list [.atom "parse-err", src] =>
    match src.asStr? with
    | some src => some ((parseE src).toSexp src)
    | none => some (Sexp.tag "bad-request" [Sexp.atom "args"])
  | _ => none

end RG
