import RecipeGrid.Model.Units
/-! `lint.py`, operation for operation on the code-shaped number layer (`lintWith false`) and as the same
    decision procedure over exact rationals (`lintWith true`, the documented meaning). -/
namespace RG

inductive LintKind where
  | unusedIngredient | quantityUnknown | incompatibleUnits | nonPositiveRemainder | notUsedUp | usedTooMuch
deriving Repr, DecidableEq, Inhabited

def LintKind.name : LintKind → String
  | .unusedIngredient => "unused_ingredient"
  | .quantityUnknown => "sub_recipe_quantity_unknown"
  | .incompatibleUnits => "sub_recipe_reference_incompatible_units"
  | .nonPositiveRemainder => "sub_recipe_reference_non_positive_remainder"
  | .notUsedUp => "sub_recipe_not_used_up"
  | .usedTooMuch => "sub_recipe_used_too_much"

mutual
/-- reference nodes met without recursing into references (document order) -/
def Tree.topRefs : Tree → List Tree
  | .ingredient .. => []
  | .step _ i => Tree.topRefsList i
  | t@(.reference ..) => [t]
  | .sub b _ _ => Tree.topRefs b
def Tree.topRefsList : List Tree → List Tree
  | [] => []
  | t :: ts => Tree.topRefs t ++ Tree.topRefsList ts
end

mutual
/-- implicit single-ingredient sub recipes (one output, name not shown) met without recursing into references -/
def Tree.implicitSubs : Tree → List Tree
  | .ingredient .. => []
  | .step _ i => Tree.implicitSubsList i
  | .reference .. => []
  | t@(.sub b ns sh) => (if ns.length == 1 && !sh then [t] else []) ++ Tree.implicitSubs b
def Tree.implicitSubsList : List Tree → List Tree
  | [] => []
  | t :: ts => Tree.implicitSubs t ++ Tree.implicitSubsList ts
end

/-- remove duplicates by Python `==` keeping first occurrences (set / dict key semantics) -/
def dedupTrees : List Tree → List Tree
  | [] => []
  | t :: ts => t :: (dedupTrees ts).filter (fun u => !(Tree.beq t u))

def refSub : Tree → Option (Tree × Nat × Amount)
  | .reference s i a => some (s, i, a)
  | _ => none

/-- `check_for_unused_ingredients` -/
def unusedIngredients (blocks : List Block) : List LintKind :=
  let roots := blocks.flatten
  let implicit := dedupTrees (Tree.implicitSubsList roots)
  let referenced := (Tree.topRefsList roots).filterMap fun r => (refSub r).map (·.1)
  (implicit.filter fun s => !(referenced.any (Tree.beq s ·))).map fun _ => .unusedIngredient

/-- the total quantity of a sub recipe made of a single ingredient -/
def totalQuantity : Tree → Option Quantity
  | .sub body names _ =>
    let rec chase : Tree → Option Quantity
      | .ingredient _ q => q
      | .step _ [i] => chase i
      | _ => none
    if names.length == 1 then
      match chase body with
      | some q => if q.value.val == 0 then none else some q
      | none => none
    else none
  | _ => none

structure SumState where
  used : Num := ⟨0, .flt⟩
  problem : Bool := false
  lints : List LintKind := []

/-- arithmetic of the accumulation: Python's (`spec = false`) or exact (`spec = true`) -/
def numMul (spec : Bool) (a b : Num) : Num := if spec then ⟨a.val * b.val, .frac⟩ else a.mul b
def numAdd (spec : Bool) (a b : Num) : Num := if spec then ⟨a.val + b.val, .frac⟩ else a.add b
def numDiv (spec : Bool) (a b : Num) : Option Num :=
  if spec then (if b.val == 0 then none else some ⟨a.val / b.val, .frac⟩) else a.div b

/-- one reference of the loop; `none` is `ZeroDivisionError` -/
def sumStep (spec : Bool) (total : Option Quantity) (st : SumState) (amount : Amount) : Option SumState :=
  match amount with
  | .quantity q =>
    match total with
    | none => some { st with problem := true, lints := st.lints ++ [.quantityUnknown] }
    | some tq =>
      let conv : Option Num :=
        match q.unit, tq.unit with
        | some u, some tu => convertBetween spec (lowerStr u) (lowerStr tu)
        | none, none => some ⟨1, .flt⟩
        | _, _ => none
      match conv with
      | none => some { st with problem := true, lints := st.lints ++ [.incompatibleUnits] }
      | some c =>
        match numDiv spec (numMul spec q.value c) tq.value with
        | none => none
        | some x => some { st with used := numAdd spec st.used x }
  | .proportion none _ _ _ =>
    let st := if st.used.val ≥ 1 then { st with problem := true, lints := st.lints ++ [.nonPositiveRemainder] } else st
    some { st with used := if st.used.val > 1 then st.used else ⟨1, .flt⟩ }
  | .proportion (some v) _ _ _ => some { st with used := numAdd spec st.used v }

def relTol2 : Rat := toDouble (mkRat 2 100)

/-- the verdict on the accumulated proportion -/
def sumVerdict (spec : Bool) (u : Rat) : List LintKind :=
  let close :=
    if spec then
      let d := if u < 1 then 1 - u else u - 1
      d ≤ (mkRat 2 100) * (if u < 1 then 1 else u)
    else isclose u 1 relTol2
  if close then [] else if u < 1 then [.notUsedUp] else [.usedTooMuch]

def sumRefs (spec : Bool) (total : Option Quantity) : SumState → List Amount → Option SumState
  | st, [] => some st
  | st, a :: as => (sumStep spec total st a).bind (sumRefs spec total · as)

/-- group references by (sub recipe, output index) in first-occurrence order, as the nested dicts do -/
def groupRefs (refs : List (Tree × Nat × Amount)) : List (Tree × List (Nat × List Amount)) :=
  let subs := dedupTrees (refs.map (·.1))
  subs.map fun s =>
    let mine := refs.filter fun r => Tree.beq s r.1
    let idxs := (mine.map (·.2.1)).eraseDups
    (s, idxs.map fun i => (i, (mine.filter (·.2.1 == i)).map (·.2.2)))

/-- `check_sub_recipe_references_sum_to_whole`; `none` is `ZeroDivisionError` -/
def sumChecks (spec : Bool) (blocks : List Block) : Option (List LintKind) :=
  let refs := (Tree.topRefsList blocks.flatten).filterMap refSub
  let rec go : List (Option Quantity × List Amount) → Option (List LintKind)
    | [] => some []
    | (total, amounts) :: rest =>
      match sumRefs spec total {} amounts with
      | none => none
      | some st =>
        let mine := st.lints ++ (if st.problem then [] else sumVerdict spec st.used.val)
        (go rest).map (mine ++ ·)
  go ((groupRefs refs).flatMap fun (s, byIdx) => byIdx.map fun (_, amounts) => (totalQuantity s, amounts))

/-- `[l.kind for l in check(recipes)]`; `none` is `ZeroDivisionError` -/
def lintWith (spec : Bool) (blocks : List Block) : Option (List LintKind) :=
  (sumChecks spec blocks).map (unusedIngredients blocks ++ ·)

def lintF := lintWith false
def lintQ := lintWith true

end RG
