import RecipeGrid.Model.MdCompile
/-! Line-protocol requests served by the end-to-end `compile_markdown` model: `(md-compile <doc>)` replies `(ok <n>)`,
    `(syntax <line> <column> <snippet>)`, `(redefined …)`, `(proportion …)`, `(undocumented <why>)` or `outside`;
    `(md-compile-any <doc>)` the same without the membership test (for information, outside **D2**). -/
namespace RG

def dispatchMdCompile : Sexp → Option Sexp
  | .list [.atom "md-compile", d] =>
    match d.asStr? with
    | some d => some (mdCompile d).toSexp
    | none => some (Sexp.tag "bad-request" [Sexp.atom "args"])
  | .list [.atom "md-compile-any", d] =>
    match d.asStr? with
    | some d => some (mdRun d (mdGroups d) 0).toSexp
    | none => some (Sexp.tag "bad-request" [Sexp.atom "args"])
  | _ => none

end RG
