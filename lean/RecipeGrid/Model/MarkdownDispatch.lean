import RecipeGrid.Model.Markdown
import RecipeGrid.Model.Lint
/-! Line-protocol requests served by the Markdown model. -/
namespace RG

def kindOfSexp? : Sexp → Option CodeBlockKind
  | .atom "indented" => some .indented
  | .list [.atom "fenced", l] => l.asStr?.map CodeBlockKind.fenced
  | _ => none

def mdDocOfSexp? : Sexp → Option MdDoc
  | .list [.atom "doc", html, svs, recipes, hasTitle, servings, prePost] => do
    let html ← html.asStr?
    let svs ← Sexp.asList? (fun x => match x with
      | .list [.atom "p", ph, s] => do pure ((← ph.asStr?), (← Svs.ofSexp? s))
      | _ => none) svs
    let recipes ← Sexp.asList? (fun x => match x with
      | .list [.atom "r", ph, isNew, trees] => do pure ((← ph.asStr?), (← isNew.asBool?), (← Sexp.asList? Tree.ofSexp? trees))
      | _ => none) recipes
    let hasTitle ← hasTitle.asBool?
    let servings ← Sexp.asOpt? Sexp.asNat? servings
    let prePost ← Sexp.asOpt? (fun x => match x with
      | .list [.atom "pp", a, b] => do pure ((← a.asStr?), (← b.asStr?))
      | _ => none) prePost
    pure { html, svs, recipes, hasTitle, servings, prePost }
  | _ => none

def TitleInfo.toSexp : TitleInfo → Sexp
  | .none => Sexp.atom "no-title"
  | .unscalable t => Sexp.tag "unscalable" [Sexp.ofStr t]
  | .scalable t n th p => Sexp.tag "scalable" [Sexp.ofStr t, Sexp.ofNat n, Sexp.ofStr th, Sexp.ofStr p]

def dispatchMarkdown : Sexp → Option Sexp
  | .list [.atom "mdrender", d, k] =>
    match mdDocOfSexp? d, Num.ofSexp? k with
    | some d, some k => some (Sexp.ofStr (renderDoc d k))
    | _, _ => some (Sexp.tag "bad-request" [Sexp.atom "args"])
  | .list [.atom "heading", first, level, text, phs] =>
    match first.asBool?, level.asNat?, text.asStr?, Sexp.asList? Sexp.asStr? phs with
    | some f, some l, some t, some phs => some (headingInfo f l t phs).toSexp
    | _, _, _, _ => some (Sexp.tag "bad-request" [Sexp.atom "args"])
  | .list [.atom "group", ks] =>
    match Sexp.asList? kindOfSexp? ks with
    | some ks => some (Sexp.ofList (Sexp.ofList Sexp.ofNat) (groupBlocks ks))
    | none => some (Sexp.tag "bad-request" [Sexp.atom "args"])
  | .list [.atom "padsrc", md, pos, fenced, src] =>
    match md.asStr?, pos.asNat?, fenced.asBool?, src.asStr? with
    | some md, some pos, some f, some src => some (Sexp.ofStr (paddedSource md pos f src))
    | _, _, _, _ => some (Sexp.tag "bad-request" [Sexp.atom "args"])
  | .list [.atom "lint", spec, bs] =>
    match spec.asBool?, blocksOfSexp? bs with
    | some spec, some bs => some (Sexp.ofOpt (Sexp.ofList fun (k : LintKind) => Sexp.atom k.name) (lintWith spec bs))
    | _, _ => some (Sexp.tag "bad-request" [Sexp.atom "args"])
  | _ => none

end RG
