import RecipeGrid.Model.SiteSources
import RecipeGrid.Model.SiteDispatch
/-! Line-protocol requests served by the source → page table model.

    `(site-sources <dir> <rootName> <M>)` — the table with every readme called `README.md`;
    `(site-sources <dir> <rootName> <M> (l (rd (l <seg>…) <file name>) …))` — with the given readme file names.
    Reply: `(ok (l (src (l <seg>…) <website path> <scalable>) …))` in dict order, or `(max-servings-too-low n)`. -/
namespace RG

def SrcEntry.toSexp (e : SrcEntry) : Sexp := Sexp.tag "src" [Sexp.ofList Sexp.ofStr e.1, Sexp.ofStr e.2.1, Sexp.ofBool e.2.2]

def siteSourcesReply (rn : List Str → Str) (d : Dir) (rootName : Str) (M : Nat) : Sexp :=
  match sitePages d rootName M with
  | .ok _ => Sexp.tag "ok" [Sexp.ofList SrcEntry.toSexp (sourceToPagePathsWith rn d rootName M)]
  | .error (.maxServingsTooLow n) => Sexp.tag "max-servings-too-low" [Sexp.ofNat n]

def readmeEntryOfSexp? : Sexp → Option (List Str × Str)
  | .list [.atom "rd", dirs, name] => do pure ((← Sexp.asList? Sexp.asStr? dirs), (← name.asStr?))
  | _ => none

def dispatchSiteSources : Sexp → Option Sexp
  | .list [.atom "site-sources", d, rootName, m] =>
    match dirOfSexp? d, rootName.asStr?, m.asNat? with
    | some d, some rn, some m => some (siteSourcesReply (fun _ => "README.md".toList) d rn m)
    | _, _, _ => some (Sexp.tag "bad-request" [Sexp.atom "args"])
  | .list [.atom "site-sources", d, rootName, m, readmes] =>
    match dirOfSexp? d, rootName.asStr?, m.asNat?, Sexp.asList? readmeEntryOfSexp? readmes with
    | some d, some rn, some m, some rd => some (siteSourcesReply (readmeNamesOf rd) d rn m)
    | _, _, _, _ => some (Sexp.tag "bad-request" [Sexp.atom "args"])
  | _ => none

end RG
