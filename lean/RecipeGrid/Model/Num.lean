import RecipeGrid.Model.Sexp
/-! Numbers as Python has them: `int`, `Fraction`, `float`.
    A float is the exact rational value of a binary64; every float operation is the exact
    result rounded by `toDouble` (round to nearest, ties to even, 53-bit significand).
    Overflow, subnormals and NaN are out of scope (unreachable from recipe text of sane size). -/
namespace RG

abbrev Str := List Char

/-- stable insertion sort (structurally recursive, so the kernel can evaluate it) -/
def insertSorted {α} (le : α → α → Bool) (x : α) : List α → List α
  | [] => [x]
  | y :: ys => if le x y then x :: y :: ys else y :: insertSorted le x ys
def insertionSort {α} (le : α → α → Bool) : List α → List α
  | [] => []
  | x :: xs => insertSorted le x (insertionSort le xs)


def pow2 (e : Int) : Rat :=
  if e ≥ 0 then ((2 ^ e.toNat : Nat) : Rat) else 1 / ((2 ^ (-e).toNat : Nat) : Rat)

/-- round to nearest integer, ties to even (Python's `round`, `'%.0f'`) -/
def roundHalfEven (q : Rat) : Int :=
  let fl := q.floor
  let r := q - (fl : Rat)
  if 2 * r > 1 then fl + 1
  else if 2 * r = 1 ∧ fl % 2 ≠ 0 then fl + 1
  else fl

/-- nearest binary64 (normal range), as an exact rational -/
def toDouble (q : Rat) : Rat :=
  if q == 0 then 0 else
  let a := if q < 0 then -q else q
  let e0 : Int := (Nat.log2 a.num.natAbs : Int) - (Nat.log2 a.den : Int) - 52
  let m0 := a / pow2 e0
  let e : Int := if m0 ≥ (9007199254740992 : Rat) then e0 + 1
                 else if m0 < (4503599627370496 : Rat) then e0 - 1 else e0
  let m := a / pow2 e
  let r : Rat := ((roundHalfEven m : Int) : Rat) * pow2 e
  if q < 0 then -r else r

inductive NumKind | int | frac | flt
deriving DecidableEq, Repr, Inhabited

structure Num where
  val : Rat
  kind : NumKind
deriving Repr, Inhabited

namespace Num
def ofNat (n : Nat) : Num := ⟨(n : Rat), .int⟩
def isFlt (a : Num) : Bool := a.kind == .flt
/-- `float(a)` -/
def toFlt (a : Num) : Rat := if a.isFlt then a.val else toDouble a.val
/-- Python `==` between numbers compares values -/
def beq (a b : Num) : Bool := a.val == b.val
instance : BEq Num := ⟨beq⟩

def exactKind (a b : Num) : NumKind :=
  if a.kind == .int && b.kind == .int then .int else .frac

/-- Python `a * b` -/
def mul (a b : Num) : Num :=
  if a.isFlt || b.isFlt then ⟨toDouble (a.toFlt * b.toFlt), .flt⟩
  else ⟨a.val * b.val, exactKind a b⟩
/-- Python `a + b` -/
def add (a b : Num) : Num :=
  if a.isFlt || b.isFlt then ⟨toDouble (a.toFlt + b.toFlt), .flt⟩
  else ⟨a.val + b.val, exactKind a b⟩
/-- Python `a / b`; `none` is `ZeroDivisionError` -/
def div (a b : Num) : Option Num :=
  if b.val == 0 then none
  else if a.isFlt || b.isFlt then some ⟨toDouble (a.toFlt / b.toFlt), .flt⟩
  else if a.kind == .int && b.kind == .int then some ⟨toDouble (a.val / b.val), .flt⟩
  else some ⟨a.val / b.val, .frac⟩

def toSexp (a : Num) : Sexp :=
  match a.kind with
  | .int => Sexp.tag "int" [Sexp.ofInt a.val.num]
  | .frac => Sexp.tag "frac" [Sexp.ofInt a.val.num, Sexp.ofNat a.val.den]
  | .flt => Sexp.tag "flt" [Sexp.ofInt a.val.num, Sexp.ofNat a.val.den]

def ofSexp? : Sexp → Option Num
  | .list [.atom "int", n] => do let n ← n.asInt?; pure ⟨(n : Rat), .int⟩
  | .list [.atom "frac", p, q] => do
      let p ← p.asInt?; let q ← q.asNat?
      if q == 0 then none else pure ⟨mkRat p q, .frac⟩
  | .list [.atom "flt", p, q] => do
      let p ← p.asInt?; let q ← q.asNat?
      if q == 0 then none else pure ⟨mkRat p q, .flt⟩
  | _ => none
end Num

/-- `math.isclose(a, b, rel_tol, abs_tol = 0)` on floats: all operations in binary64 -/
def isclose (a b relTol : Rat) : Bool :=
  if a == b then true else
  let diff := toDouble (b - a)
  let diff := if diff < 0 then -diff else diff
  let absb := if b < 0 then -b else b
  let absa := if a < 0 then -a else a
  (diff ≤ toDouble (relTol * absb)) || (diff ≤ toDouble (relTol * absa))

end RG
