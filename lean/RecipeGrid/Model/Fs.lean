import RecipeGrid.Model.Links
/-! An abstract POSIX file system and the path resolution that `html_postprocessing.resolve_local_links` /
    `embed_local_links_as_data_urls` delegate to `pathlib.Path.resolve()` (non-strict), followed by the decision the two
    functions take on the resolved path. `Model/Links.lean` takes the resolved path as an input; here it is computed.

    * A file system `Fs` is a finite map from absolute paths (lists of components below `/`) to nodes: a directory, a
      regular file with its bytes, or a symbolic link with the target string split at `/` (so the target may contain
      `..`, `.` and empty components, exactly as `os.readlink` returns them) and a flag saying whether the target
      string started with `/`.
    * `walk` is `posixpath._joinrealpath` (CPython 3.12, `strict=False`): components are consumed left to right; an empty
      component or `.` is skipped; `..` removes the last component of the part resolved so far (nothing to remove at
      `/`) -- *physically*, i.e. after the symbolic links before it have been followed; any other component is appended
      and looked up (`os.lstat`): if it is a symbolic link it is replaced by its target (continuing from the directory
      it stands in, or from `/` when the target is absolute) and the walk goes on with the target's components followed
      by the rest; if it is anything else -- including *not existing* or standing below a regular file -- it stays
      (non-strict mode appends such components unresolved, and `..` after them pops them again).
    * Loops. CPython records every link it is expanding (`seen[link] = None`) and reports a loop when such a link is
      met again before its expansion is finished; the model does the same with an `endLink` mark put behind the target's
      components. (CPython also memoises finished expansions; that does not change any result, and the model does not.)
      On a loop `_joinrealpath` returns the link's path followed by everything not yet walked, UNRESOLVED;
      `realpath` passes this through `abspath`, which cancels `..` lexically; `Path.resolve()` then calls `stat()` on the
      result and raises `RuntimeError("Symlink loop from ...")` only if the kernel reports `ELOOP` for it. Consequently
      `loop/../x` comes back as `<dir>/x` with `x` not resolved: `resolvePy` models exactly this (with `kwalk`, the
      kernel's own strict lookup with its limit of 40 links, for the `stat()`), and `resolve` is the part of it that
      meets no loop (`none` otherwise). Checked against CPython 3.12.1 on generated trees (see the harness).
    * The decision exists in three versions: `decideLinkP1` (one `resolve()`: the code up to commit 5662881, which
      serves a link out of the root after `loop/..`), `decideLinkP2` (`resolve().resolve()`, commit 5662881; still
      not enough when a link's *target* contains `..` after a loop), and `decideLinkP` -- the code now, commit
      f55deed: one `resolve()` and the refusal of a result on which some component is a symbolic link; for it
      containment and non-interference are proved unconditionally (Props/C16b).
    * Fuel. `walk` is bounded by `maxExpansions` = 4096 link expansions, only to be a total function: a loop is detected
      before, but a loop-free resolution can need exponentially many expansions without a memo. Running out of fuel is
      the separate answer `outOfFuel` / `gaveUp`, about which nothing is claimed (CPython would resolve).
      `walk_fuel_mono` (Props/C16b) says that more fuel never changes another answer.
    * Not modelled: paths that start with exactly two slashes (POSIX keeps `//`), a `//` inside a link target that is
      part of a loop (`os.path.join` would restart at `/`), a root or source path that is not absolute (the real code
      prefixes the working directory), names longer than `NAME_MAX`, `urlsplit`'s `ValueError` for a malformed
      bracketed host or a network location that changes under NFKC (the model says `untouched`: there is a network
      location), lone surrogates in URLs, permissions. -/
namespace RG

/-- an absolute path: the components below `/`. As the *argument* of `resolve` a path may contain `..`, `.` and empty
    components; the *result* of `resolve` never does. -/
abbrev Path := List Str

inductive Node where
  | dir
  | file (content : List Nat)
  /-- `target`: the link's target string split at `/`; `absolute`: the target string starts with `/` -/
  | symlink (target : List Str) (absolute : Bool)
deriving Repr, Inhabited, DecidableEq

structure Fs where
  nodes : List (Path × Node)
deriving Repr, Inhabited

/-- the node at a path; `/` itself is a directory -/
def Fs.nodeAt (fs : Fs) (p : Path) : Option Node :=
  match p with
  | [] => some .dir
  | _ => fs.nodes.lookup p

/-- what `os.lstat` + `os.readlink` tell the resolver about a path: the link's target if it is a symbolic link -/
def Fs.linkAt (fs : Fs) (p : Path) : Option (List Str × Bool) :=
  match fs.nodeAt p with
  | some (.symlink t a) => some (t, a)
  | _ => none

/-- a component that is skipped: empty (from `//`) or `.` -/
def isDot (c : Str) : Bool := c == [] || c == ['.']
def isDotDot (c : Str) : Bool := c == ['.', '.']

/-- the node at the path is a directory (no link followed) -/
def Fs.isDirAt (fs : Fs) (p : Path) : Bool := match fs.nodeAt p with | some .dir => true | _ => false

def allDistinct {α} [BEq α] : List α → Bool
  | [] => true
  | x :: xs => !xs.contains x && allDistinct xs

/-- well-formedness (what a real file system guarantees): every entry's path is non-empty, made of proper names
    without `/`, is listed once, and the entry's parent is a directory -/
def Fs.wf (fs : Fs) : Bool :=
  fs.nodes.all (fun (p, _) =>
    !p.isEmpty && p.all (fun c => !isDot c && !isDotDot c && !c.contains '/' && !c.contains (Char.ofNat 0))
      && fs.isDirAt p.dropLast)
  && allDistinct (fs.nodes.map (·.1))

/-! ### resolution -/

/-- what is left to walk: a component, or the mark that ends the expansion of the symbolic link standing at `p`
    (CPython's `seen[p] = None` lasts from the expansion of `p` to this mark) -/
inductive Item where
  | comp (c : Str)
  | endLink (p : Path)
deriving Repr, DecidableEq

/-- the components among the items -/
def itemComps : List Item → List Str
  | [] => []
  | .comp c :: rest => c :: itemComps rest
  | .endLink _ :: rest => itemComps rest

inductive WalkStep where
  /-- all components consumed -/
  | done (acc : Path)
  /-- a symbolic link was met: continue from `acc` with `todo` -/
  | link (acc : Path) (todo : List Item)
  /-- a symbolic link was met again while it was being expanded: the link's path followed by the unresolved rest -/
  | looped (unresolved : List Str)
deriving Repr

/-- walk up to the first symbolic link -/
def walkPlain (fs : Fs) : Path → List Item → WalkStep
  | acc, [] => .done acc
  | acc, .endLink _ :: rest => walkPlain fs acc rest
  | acc, .comp c :: rest =>
    if isDot c then walkPlain fs acc rest
    else if isDotDot c then walkPlain fs acc.dropLast rest
    else
      match fs.linkAt (acc ++ [c]) with
      | some (tgt, abs) =>
        if rest.contains (.endLink (acc ++ [c])) then .looped (acc ++ [c] ++ itemComps rest)
        else .link (if abs then [] else acc) (tgt.map .comp ++ .endLink (acc ++ [c]) :: rest)
      | none => walkPlain fs (acc ++ [c]) rest

inductive WalkResult where
  | ok (q : Path)
  /-- CPython's `_joinrealpath` returning `(path, False)` -/
  | looped (unresolved : List Str)
  | outOfFuel
deriving Repr, DecidableEq

/-- `fuel` bounds the number of symbolic links expanded; `acc`: the part resolved so far; the list: what is left -/
def walk (fs : Fs) : Nat → Path → List Item → WalkResult
  | fuel, acc, todo =>
    match walkPlain fs acc todo with
    | .done q => .ok q
    | .looped u => .looped u
    | .link acc' todo' =>
      match fuel with
      | 0 => .outOfFuel
      | fuel + 1 => walk fs fuel acc' todo'

/-- the model's own bound on link expansions in `realpath` (CPython has none; see the header) -/
def maxExpansions : Nat := 4096
/-- Linux's `MAXSYMLINKS`: the kernel's bound for one path lookup -/
def maxSymlinks : Nat := 40

/-- the fully resolved path: `none` when a loop is met (or the model runs out of fuel) -/
def resolve (fs : Fs) (p : Path) : Option Path :=
  match walk fs maxExpansions [] (p.map .comp) with
  | .ok q => some q
  | _ => none

/-- the paths the resolver looks at (`os.lstat`), in order -/
def lookupsPlain (fs : Fs) : Path → List Item → List Path
  | _, [] => []
  | acc, .endLink _ :: rest => lookupsPlain fs acc rest
  | acc, .comp c :: rest =>
    if isDot c then lookupsPlain fs acc rest
    else if isDotDot c then lookupsPlain fs acc.dropLast rest
    else
      (acc ++ [c]) ::
        match fs.linkAt (acc ++ [c]) with
        | some _ => []
        | none => lookupsPlain fs (acc ++ [c]) rest
def lookups (fs : Fs) : Nat → Path → List Item → List Path
  | fuel, acc, todo =>
    lookupsPlain fs acc todo ++
      match walkPlain fs acc todo with
      | .link acc' todo' =>
        match fuel with
        | 0 => []
        | fuel + 1 => lookups fs fuel acc' todo'
      | _ => []
/-- the paths `resolve fs p` looks at -/
def resolveLookups (fs : Fs) (p : Path) : List Path := lookups fs maxExpansions [] (p.map .comp)

/-- purely lexical normalisation: `os.path.normpath`; also what resolution is on a file system without symbolic links -/
def lexNorm : Path → List Str → Path
  | acc, [] => acc
  | acc, c :: rest =>
    if isDot c then lexNorm acc rest
    else if isDotDot c then lexNorm acc.dropLast rest
    else lexNorm (acc ++ [c]) rest

/-! the kernel's own path lookup (`stat`, `open`): strict -- every component but the last must be a directory (after
    following links), a missing component ends the lookup (`ENOENT`/`ENOTDIR`), the last component is followed too,
    and more than `MAXSYMLINKS` links give `ELOOP` -/
inductive KStep where
  | done (acc : Path)
  | link (acc : Path) (todo : List Str)
  | noent
deriving Repr

def kwalkPlain (fs : Fs) : Path → List Str → KStep
  | acc, [] => .done acc
  | acc, c :: rest =>
    match fs.nodeAt acc with
    | some .dir =>
      if isDot c then kwalkPlain fs acc rest
      else if isDotDot c then kwalkPlain fs acc.dropLast rest
      else
        match fs.nodeAt (acc ++ [c]) with
        | none => .noent
        | some (.symlink tgt abs) => .link (if abs then [] else acc) (tgt ++ rest)
        | some _ => kwalkPlain fs (acc ++ [c]) rest
    | _ => .noent

inductive KResult where
  /-- the lookup ends at the node at `q` (`q` is fully resolved) -/
  | ok (q : Path)
  | noent
  | eloop
deriving Repr, DecidableEq

def kwalk (fs : Fs) : Nat → Path → List Str → KResult
  | fuel, acc, todo =>
    match kwalkPlain fs acc todo with
    | .done q => .ok q
    | .noent => .noent
    | .link acc' todo' =>
      match fuel with
      | 0 => .eloop
      | fuel + 1 => kwalk fs fuel acc' todo'

/-- `os.stat(p)` -/
def Fs.stat (fs : Fs) (p : Path) : KResult := kwalk fs maxSymlinks [] p

/-- the node `os.stat(p)` / `open(p)` reaches, if any -/
def Fs.statNode (fs : Fs) (p : Path) : Option Node :=
  match fs.stat p with
  | .ok q => fs.nodeAt q
  | _ => none

inductive Resolved where
  | ok (q : Path)
  /-- `RuntimeError("Symlink loop from ...")` -/
  | eloop
  /-- the model gave up (more than `maxExpansions` link expansions without a loop): CPython would resolve -/
  | outOfFuel
deriving Repr, DecidableEq

/-- `Path("/" + "/".join(p)).resolve()` as CPython 3.12 computes it: `os.path.realpath(strict=False)`; when that
    meets a loop it returns the link's path followed by the rest, *unresolved*; `abspath` normalises this lexically;
    `Path.resolve` then calls `stat()` and raises only if that reports `ELOOP`. So a loop followed by `..` comes back as
    a path that is NOT resolved (`..` taken lexically, later links not followed). -/
def resolvePy (fs : Fs) (p : Path) : Resolved :=
  match walk fs maxExpansions [] (p.map .comp) with
  | .ok q => .ok q
  | .outOfFuel => .outOfFuel
  | .looped u =>
    let n := lexNorm [] u
    match fs.stat n with
    | .eloop => .eloop
    | _ => .ok n

/-- `Path(...).resolve().resolve()`: the first repair (commit 5662881) -- the second call resolves what the first one
    may have left unresolved after a loop. (Not enough: the second call can fall back in the same way, see
    `double_resolve_leaks` in Props/C16b.) -/
def resolvePy2 (fs : Fs) (p : Path) : Resolved :=
  match resolvePy fs p with
  | .ok n => resolvePy fs n
  | r => r

/-- no prefix `acc ++ [c₁ … cₖ]` (k ≥ 1) of `acc ++ s` is a symbolic link -/
def noLinkPrefix (fs : Fs) : Path → Path → Bool
  | _, [] => true
  | acc, c :: rest => (fs.linkAt (acc ++ [c])).isNone && noLinkPrefix fs (acc ++ [c]) rest

/-- `not any(p.is_symlink() for p in (q, *q.parents))`: the path is physical -/
def Fs.isPhysical (fs : Fs) (q : Path) : Bool := noLinkPrefix fs [] q

/-- the paths `isPhysical` looks at -/
def prefixesOf : Path → Path → List Path
  | _, [] => []
  | acc, c :: rest => (acc ++ [c]) :: prefixesOf (acc ++ [c]) rest

/-- the repair in force (commit f55deed): one `resolve()`, then refuse (`RuntimeError("Symlink loop from ...")`) a
    result that still has a symbolic link on it. `is_symlink()` of a path whose ancestors are no links is `lstat` of
    that very path, and an ancestor that is a link is itself among the paths tested, so on a well-formed file system
    the test is `isPhysical`. -/
def resolveChecked (fs : Fs) (p : Path) : Resolved :=
  match resolvePy fs p with
  | .ok n => if fs.isPhysical n then .ok n else .eloop
  | r => r

/-- `Path.exists()` -/
def Fs.exists (fs : Fs) (p : Path) : Bool := (fs.statNode p).isSome
/-- `Path.is_file()` -/
def Fs.isFile (fs : Fs) (p : Path) : Bool := match fs.statNode p with | some (.file _) => true | _ => false
/-- `Path.is_dir()` -/
def Fs.isDir (fs : Fs) (p : Path) : Bool := match fs.statNode p with | some .dir => true | _ => false
/-- `Path.read_bytes()` -/
def Fs.readFile (fs : Fs) (p : Path) : Option (List Nat) := match fs.statNode p with | some (.file c) => some c | _ => none

/-- `p.parts[:len(root.parts)] == root.parts`: a comparison of components, not of characters -/
def isUnder (root p : Path) : Bool := isPrefixParts root p

/-! ### the URL: `urlsplit`, `unquote` -/

def isAsciiAlpha (c : Char) : Bool := ('a' ≤ c && c ≤ 'z') || ('A' ≤ c && c ≤ 'Z')
def isSchemeChar (c : Char) : Bool := isAsciiAlpha c || ('0' ≤ c && c ≤ '9') || c == '+' || c == '-' || c == '.'

/-- `urllib.parse.urlsplit(url)`: (scheme, netloc, path) -/
def urlSplit (url : Str) : Str × Str × Str :=
  let url := (url.dropWhile (fun c => c.toNat ≤ 32)).filter (fun c => c != '\t' && c != '\r' && c != '\n')
  let i := (url.takeWhile (· != ':')).length
  let hasScheme := i < url.length && 0 < i && (url.head?.map isAsciiAlpha).getD false && (url.take i).all isSchemeChar
  let scheme := if hasScheme then url.take i else []
  let url := if hasScheme then url.drop (i + 1) else url
  let hasNetloc := url.take 2 == ['/', '/']
  let notDelim := fun (c : Char) => c != '/' && c != '?' && c != '#'
  let netloc := if hasNetloc then (url.drop 2).takeWhile notDelim else []
  let url := if hasNetloc then (url.drop 2).dropWhile notDelim else url
  let url := url.takeWhile (· != '#')
  (scheme, netloc, url.takeWhile (· != '?'))

def hexVal? (c : Char) : Option Nat :=
  if '0' ≤ c && c ≤ '9' then some (c.toNat - 48)
  else if 'a' ≤ c && c ≤ 'f' then some (c.toNat - 87)
  else if 'A' ≤ c && c ≤ 'F' then some (c.toNat - 55)
  else none

/-- `urllib.parse.unquote_to_bytes`; the counter says how many characters to skip (the two digits of an escape) -/
def unquoteGo : Nat → Str → List Nat
  | _, [] => []
  | k + 1, _ :: rest => unquoteGo k rest
  | 0, c :: rest =>
    if c == '%' then
      match rest with
      | a :: b :: _ =>
        match hexVal? a, hexVal? b with
        | some x, some y => (16 * x + y) :: unquoteGo 2 rest
        | _, _ => 37 :: unquoteGo 0 rest
      | _ => 37 :: unquoteGo 0 rest
    else (String.utf8EncodeChar c).map (·.toNat) ++ unquoteGo 0 rest
def unquoteToBytes (s : Str) : List Nat := unquoteGo 0 s

def replacementChar : Char := Char.ofNat 0xFFFD

/-- the first byte of a UTF-8 sequence: the character (ASCII), or (continuation bytes needed, bits so far, bounds of the
    next byte), or invalid -/
inductive Utf8Start where
  | char (c : Char)
  | pending (need cp lo hi : Nat)
  | invalid

def utf8Start (b : Nat) : Utf8Start :=
  if b < 0x80 then .char (Char.ofNat b)
  else if b < 0xC2 then .invalid
  else if b < 0xE0 then .pending 1 (b - 0xC0) 0x80 0xBF
  else if b < 0xF0 then .pending 2 (b - 0xE0) (if b == 0xE0 then 0xA0 else 0x80) (if b == 0xED then 0x9F else 0xBF)
  else if b < 0xF5 then .pending 3 (b - 0xF0) (if b == 0xF0 then 0x90 else 0x80) (if b == 0xF4 then 0x8F else 0xBF)
  else .invalid

/-- `bytes.decode("utf-8", "replace")`: one U+FFFD for every maximal ill-formed part -/
def utf8DecodeGo : Option (Nat × Nat × Nat × Nat) → List Nat → Str
  | none, [] => []
  | some _, [] => [replacementChar]
  | st, b :: tl =>
    let fresh (pre : Str) : Str :=
      match utf8Start b with
      | .char c => pre ++ c :: utf8DecodeGo none tl
      | .pending n cp lo hi => pre ++ utf8DecodeGo (some (n, cp, lo, hi)) tl
      | .invalid => pre ++ replacementChar :: utf8DecodeGo none tl
    match st with
    | none => fresh []
    | some (need, cp, lo, hi) =>
      if lo ≤ b && b ≤ hi then
        let cp' := cp * 64 + (b - 0x80)
        if need ≤ 1 then Char.ofNat cp' :: utf8DecodeGo none tl
        else utf8DecodeGo (some (need - 1, cp', 0x80, 0xBF)) tl
      else fresh [replacementChar]

/-- `urllib.parse.unquote` -/
def unquote (s : Str) : Str := utf8DecodeGo none (unquoteToBytes s)

/-! ### the decision -/

inductive Target where
  /-- external URL or in-page anchor -/
  | untouched
  /-- the decoded path contains a NUL character: no file can have that name (`ValueError` in `resolve()`,
      turned into `LinkToNonExistentFileError`) -/
  | invalid
  /-- the file-system path to resolve -/
  | path (raw : Path)
deriving Repr, DecidableEq

/-- which file-system path a URL written in a file of directory `sourceDir` names: relative to that directory, or to
    the root when the (decoded) path starts with `/` -/
def localTarget (root sourceDir : Path) (url : Str) : Target :=
  let (scheme, netloc, p) := urlSplit url
  if !scheme.isEmpty || !netloc.isEmpty || p.isEmpty then .untouched
  else
    let path := unquote p
    if path.contains (Char.ofNat 0) then .invalid
    else if path.head? == some '/' then .path (root ++ (splitSlash path).drop 1)
    else .path (sourceDir ++ splitSlash path)

inductive Outcome where
  /-- external URL or in-page anchor: returned unchanged -/
  | untouched
  /-- `LinkToExternalFileError` -/
  | external
  /-- `LinkToNonExistentFileError` -/
  | missing
  /-- a source page of the site: the key of `source_to_page_paths` that was hit (`fspath`) -/
  | page (key : Path)
  /-- a local file, copied to `<assets>/<relPath joined by "/">`: `fspath` relative to the resolved root, and the bytes
      that `open(fspath)` reads -/
  | asset (relPath : Path) (content : List Nat)
  /-- symbolic-link loop: `RuntimeError` in the real code -/
  | loop
  /-- the model ran out of fuel (no statement about the real code) -/
  | gaveUp
deriving Repr, Inhabited, DecidableEq

/-- `resolve_local_links.rewrite_link`. `res`: how `fspath` is resolved; `resRoot`: how `root` is resolved; `isPage`:
    membership in the keys of `source_to_page_paths` -/
def decideLinkWith (res resRoot : Fs → Path → Resolved) (isPage : Path → Bool) (fs : Fs) (root sourceDir : Path)
    (url : Str) : Outcome :=
  match localTarget root sourceDir url with
  | .untouched => .untouched
  | .invalid => .missing
  | .path raw =>
    match res fs raw with
    | .eloop => .loop
    | .outOfFuel => .gaveUp
    | .ok q =>
      if isPage q then .page q
      else
        match resRoot fs root with
        | .eloop => .loop
        | .outOfFuel => .gaveUp
        | .ok rr =>
          if !isUnder rr q then .external
          else
            match fs.statNode q with
            | some (.file content) => .asset (q.drop rr.length) content
            | _ => .missing

/-- the code as it is now (commit f55deed): `fspath.resolve()` followed by the refusal of a result that still has a
    symbolic link on it; `root.resolve()` as before -/
def decideLinkP (isPage : Path → Bool) (fs : Fs) (root sourceDir : Path) (url : Str) : Outcome :=
  decideLinkWith resolveChecked resolvePy isPage fs root sourceDir url

/-- the code before commit 5662881: a single `fspath.resolve()` (leaks: `single_resolve_leaks` in Props/C16b) -/
def decideLinkP1 (isPage : Path → Bool) (fs : Fs) (root sourceDir : Path) (url : Str) : Outcome :=
  decideLinkWith resolvePy resolvePy isPage fs root sourceDir url

/-- the code of commit 5662881: `fspath.resolve().resolve()` (still leaks: `double_resolve_leaks`) -/
def decideLinkP2 (isPage : Path → Bool) (fs : Fs) (root sourceDir : Path) (url : Str) : Outcome :=
  decideLinkWith resolvePy2 resolvePy isPage fs root sourceDir url

def endsWithMd (c : Str) : Bool := c.reverse.take 3 == ['d', 'm', '.']

/-- the sources that have a page when the site is generated from `root`: directories and `*.md` files below the
    resolved root (the rule the harness's `classify` uses) -/
def isPageSource (fs : Fs) (root : Path) (q : Path) : Bool :=
  match resolve fs root with
  | none => false
  | some rr =>
    isUnder rr q &&
      match fs.nodeAt q with
      | some .dir => true
      | some (.file _) => endsWithMd (q.getLast?.getD [])
      | _ => false

/-- the decision for a site generated from `root` -/
def decideLink (fs : Fs) (root sourceDir : Path) (url : Str) : Outcome :=
  decideLinkP (isPageSource fs root) fs root sourceDir url

/-- `embed_local_links_as_data_urls.rewrite_link`: the same without page lookup (`asset`: the bytes embedded) -/
def decideEmbed (fs : Fs) (root sourceDir : Path) (url : Str) : Outcome :=
  decideLinkP (fun _ => false) fs root sourceDir url

end RG
