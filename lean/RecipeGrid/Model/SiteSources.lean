import RecipeGrid.Model.Site
/-! `HomePage.make_source_to_page_paths_lookup()` of `static_site/website.py` over the abstract source tree of
    `Model/Site.lean`: the table that maps every source document of the tree (directory, readme, recipe file) to the
    website path of its *definitive* page and a flag saying whether that page also exists under every `/serves<N>/`.

    The Python code is a dict comprehension over `iter_all_pages()` × `page.sources()`:

    * `HomePage.sources()`        — the root readme (`welcome_message_source`), if there is one;
    * `CategoryPage.sources()`    — only for the unscaled (`categories`) hierarchy: the directory's readme
                                    (`description_source`, which is `None` for the ROOT category page) and then the
                                    directory itself;
    * `RecipePage.sources()`      — the recipe file, if `servings == native_servings` (the native-count page of a
                                    scalable recipe; the single page of an unscalable one, which is *shared* by all
                                    `serves<N>` hierarchies and is therefore met M times, each time with the same value).

    `iter_all_pages()`: home page; `serves1` … `servesM` hierarchy (category page, its sub-categories in
    (title, directory name) order — recursively —, then its recipe pages in (title, file name) order); the `categories`
    hierarchy (category pages only: `CategoryPage.children` yields recipes only for scaled categories).

    A dict comprehension keeps the position of the FIRST occurrence of a key and the value of the LAST (`dictOfList`).

    The tree type `Dir` does not record the file name of a readme (`README.md`, `index.md`, any letter case), which is
    the last segment of the readme's key; it is a parameter: `rn dirs` is the readme file name of the directory
    reached by the names `dirs` from the root. -/
namespace RG

/-- one entry of the table: source path relative to the source root (segments), (website path, scalable) -/
abbrev SrcEntry := List Str × (Str × Bool)

/-- `d[k] = v` on an insertion-ordered dict -/
def dictInsert (k : List Str) (v : Str × Bool) : List SrcEntry → List SrcEntry
  | [] => [(k, v)]
  | e :: rest => if e.1 == k then (e.1, v) :: rest else e :: dictInsert k v rest

/-- `{k: v for (k, v) in l}` -/
def dictOfList (l : List SrcEntry) : List SrcEntry := l.foldl (fun acc e => dictInsert e.1 e.2 acc) []

/-- `RecipePage.sources()` (with the table value) of the page of recipe `r` that hangs off the `serves<n>` category of
    the directory `dirs` -/
def recipeSource (n : Nat) (dirs : List Str) (r : RecipeFile) : Option SrcEntry :=
  match r.servings with
  | none => some (dirs ++ [r.file], (recipePath none dirs r.file, false))
  | some native => if native == n then some (dirs ++ [r.file], (recipePath (some n) dirs r.file, true)) else none

/-- order of `CategoryPage.subcategories`: (title, directory name) -/
def srcSubLe (a b : Str × Str × List SrcEntry) : Bool := if a.1 == b.1 then strLe a.2.1 b.2.1 else strLe a.1 b.1
/-- order of `CategoryPage.recipes`: (title, file name) -/
def srcRecLe (a b : RecipeFile) : Bool := if a.title == b.title then strLe a.file b.file else strLe a.title b.title

mutual
/-- sources of the pages of the `serves<n>` hierarchy below (and including) the directory with path `dirs`, in
    `iter_all_pages()` order -/
def scaledSources (n : Nat) (dirs : List Str) : Dir → List SrcEntry
  | .mk _ _ recipes subdirs =>
    let subs := insertionSort srcSubLe (scaledSourcesList n dirs subdirs)
    subs.flatMap (·.2.2) ++ (insertionSort srcRecLe recipes).filterMap (recipeSource n dirs)
def scaledSourcesList (n : Nat) (dirs : List Str) : List Dir → List (Str × Str × List SrcEntry)
  | [] => []
  | d :: ds => (d.title, d.name, scaledSources n (dirs ++ [d.name]) d) :: scaledSourcesList n dirs ds
end

mutual
/-- sources of the category pages of the `categories` hierarchy below (and including) the directory with path `dirs` -/
def unscaledSources (rn : List Str → Str) (dirs : List Str) (isRoot : Bool) : Dir → List SrcEntry
  | .mk _ readme _ subdirs =>
    let subs := insertionSort srcSubLe (unscaledSourcesList rn dirs subdirs)
    (if !isRoot && readme.isSome then [(dirs ++ [rn dirs], (catPath none dirs, true))] else [])
      ++ (dirs, (catPath none dirs, true)) :: subs.flatMap (·.2.2)
def unscaledSourcesList (rn : List Str → Str) (dirs : List Str) : List Dir → List (Str × Str × List SrcEntry)
  | [] => []
  | d :: ds => (d.title, d.name, unscaledSources rn (dirs ++ [d.name]) false d) :: unscaledSourcesList rn dirs ds
end

/-- `HomePage.sources()` -/
def homeSources (rn : List Str → Str) (root : Dir) : List SrcEntry :=
  if root.readmeTitle.isSome then [([rn []], ("/index.html".toList, true))] else []

/-- every (source, value) pair in the order the dict comprehension meets them -/
def allSources (rn : List Str → Str) (root : Dir) (M : Nat) : List SrcEntry :=
  homeSources rn root ++ (List.range M).flatMap (fun m => scaledSources (m + 1) [] root) ++ unscaledSources rn [] true root

/-- the table, for given readme file names (items in dict order) -/
def sourceToPagePathsWith (rn : List Str → Str) (root : Dir) (_rootName : Str) (M : Nat) : List SrcEntry :=
  dictOfList (allSources rn root M)

/-- the table when every readme is called `README.md` -/
def sourceToPagePaths (root : Dir) (rootName : Str) (M : Nat) : List SrcEntry :=
  sourceToPagePathsWith (fun _ => "README.md".toList) root rootName M

/-- readme names given as an association list (directory path ↦ file name), `README.md` where nothing is listed -/
def readmeNamesOf (l : List (List Str × Str)) (dirs : List Str) : Str :=
  match l.lookup dirs with
  | some n => n
  | none => "README.md".toList

/-- `dict.get` -/
def dictLookup (k : List Str) : List SrcEntry → Option (Str × Bool)
  | [] => none
  | e :: rest => if e.1 == k then some e.2 else dictLookup k rest

end RG
