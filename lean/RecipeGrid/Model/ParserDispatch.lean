import RecipeGrid.Model.Parser
/-! Line-protocol request served by the parser model: `(parse (s <code points>))`. -/
namespace RG

def dispatchParser : Sexp → Option Sexp
  | .list [.atom "parse", src] =>
    match src.asStr? with
    | some src => some (parse src).toSexp
    | none => some (Sexp.tag "bad-request" [Sexp.atom "args"])
  | _ => none

end RG
