import RecipeGrid.Model.Compiler
/-! Line-protocol requests served by the parser and compiler models. -/
namespace RG

def dispatchParser : Sexp → Option Sexp
  | .list [.atom "parse", src] =>
    match src.asStr? with
    | some src => some (parse src).toSexp
    | none => some (Sexp.tag "bad-request" [Sexp.atom "args"])
  | .list [.atom "compile", srcs] =>
    match Sexp.asList? Sexp.asStr? srcs with
    | some srcs => some ((compile srcs).toSexp srcs)
    | none => some (Sexp.tag "bad-request" [Sexp.atom "args"])
  | .list [.atom "elab", srcs] =>
    match Sexp.asList? Sexp.asStr? srcs with
    | some srcs => some (match elabBlocks srcs with
        | .ok (bs, _) => Sexp.tag "ok" [blocksToSexp bs]
        | .error e => e.toSexp srcs)
    | none => some (Sexp.tag "bad-request" [Sexp.atom "args"])
  | .list [.atom "linecol", src, off] =>
    match src.asStr?, off.asNat? with
    | some src, some off =>
      let (l, c) := offsetToLineCol src off
      some (Sexp.list [Sexp.ofNat l, Sexp.ofNat c, Sexp.ofOpt Sexp.ofStr (extractLine src l)])
    | _, _ => some (Sexp.tag "bad-request" [Sexp.atom "args"])
  | _ => none

end RG
