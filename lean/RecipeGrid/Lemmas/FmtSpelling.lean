import RecipeGrid.Lemmas.NumberReader
import RecipeGrid.Props.C11
import RecipeGrid.Lemmas.FloatErr
/-! The text of `format_number` is one of the four spellings (`C06.NumLit`) of the grammar's `number` rule, and
    the number that spelling means is the displayed value.  Used by `Props/C11c.lean`. -/
namespace RG
open NumberReader C06 C11

/-- `x` rounded half-to-even to the decimals the digit budget leaves (`fracDigits`): the value `format_float` shows -/
def roundedDecimal (y : Rat) : Rat :=
  ((roundHalfEven (y * ((10 ^ fracDigits Gen.significantFigures y : Nat) : Rat)) : Int) : Rat)
    / ((10 ^ fracDigits Gen.significantFigures y : Nat) : Rat)

/-- what a reader of the tool's number syntax gets from the text of `format_float y`: without a point an `int`,
    with a point the double nearest to the shown decimal -/
def decimalNum (y : Rat) : Num :=
  if '.' ∈ formatFloat y then ⟨toDouble (roundedDecimal y), .flt⟩ else ⟨roundedDecimal y, .int⟩

theorem natDigits_isDigits (n : Nat) : IsDigits (natDigits n) := isDigits_natDigits n

theorem dot_not_mem_natDigits (n : Nat) : '.' ∉ natDigits n := by
  intro h
  have := natDigits_isDigit n '.' h
  simp [Char.isDigit] at this

theorem mkRat_digits_dot (i : Nat) (s : Str) :
    mkRat (digitsValue (natDigits i ++ s) : Nat) (10 ^ s.length)
      = ((i : Nat) : Rat) + ((digitsVal s : Nat) : Rat) / ((10 ^ s.length : Nat) : Rat) := by
  have e : digitsValue (natDigits i ++ s) = i * 10 ^ s.length + digitsVal s := by
    have := Parser.digitsVal_append (natDigits i) s
    rw [digitsVal_natDigits] at this
    exact this
  have hP := pow10_cast_pos s.length
  rw [e, Rat.mkRat_eq_div, Rat.intCast_natCast, Rat.natCast_add, Rat.natCast_mul]
  generalize ((10 ^ s.length : Nat) : Rat) = P at hP
  generalize ((digitsVal s : Nat) : Rat) = V
  generalize ((i : Nat) : Rat) = I
  have h1 : I * P / P = I := Rat.mul_div_cancel (Rat.ne_of_gt hP)
  rw [Rat.div_def, Rat.add_mul, ← Rat.div_def, ← Rat.div_def, h1]

/-- the text of `format_float` is an integer spelling or a `whole.frac` spelling of the grammar, and means the rounded decimal -/
theorem formatFloat_spelling (y : Rat) (hy : 0 ≤ y) :
    ∃ l : NumLit, l.WF ∧ formatFloat y = l.print ∧ l.value = decimalNum y ∧
      ((∃ n : Nat, l = .int (natDigits n) ∧ roundedDecimal y = (n : Rat)) ∨
       (∃ s : Str, l = .dec (natDigits y.floor.toNat) s ∧ s ≠ [] ∧ s.getLast? ≠ some '0' ∧
          s.length ≤ fracDigits Gen.significantFigures y)) := by
  have hval := formatFloat_value Gen.significantFigures y hy
  have hP := pow10_cast_pos (fracDigits Gen.significantFigures y)
  rcases formatFloatSig_cases Gen.significantFigures y hy with ⟨n, hfmt, hr⟩ | ⟨s, k, hfmt, hs, hdig, hlast, hlen, hr⟩
  · have hD : roundedDecimal y = (n : Rat) := by
      rw [roundedDecimal, hr, Rat.intCast_natCast, Rat.natCast_mul, Rat.mul_div_cancel (Rat.ne_of_gt hP)]
    refine ⟨.int (natDigits n), natDigits_isDigits n, hfmt, ?_, Or.inl ⟨n, rfl, hD⟩⟩
    have hnd : '.' ∉ formatFloat y := by
      show '.' ∉ formatFloatSig Gen.significantFigures y
      rw [hfmt]; exact dot_not_mem_natDigits n
    simp only [decimalNum, hnd, if_false, NumLit.value, digitsValue_natDigits, hD]
  · have hdig' : ∀ c ∈ s, isDigit c = true := fun c hc => Parser.isDigit_of_charIsDigit (hdig c hc)
    refine ⟨.dec (natDigits y.floor.toNat) s, ⟨natDigits_isDigits _, hdig'⟩, hfmt, ?_,
      Or.inr ⟨s, rfl, hs, hlast, by omega⟩⟩
    have hd : '.' ∈ formatFloat y := by
      show '.' ∈ formatFloatSig Gen.significantFigures y
      rw [hfmt]; simp
    have h2 := readDecimal_digits_dot (natDigits_ne_nil y.floor.toNat) (natDigits_isDigit _) hs hdig
    rw [← hfmt, hval, digitsVal_natDigits] at h2
    have hD : roundedDecimal y
        = ((y.floor.toNat : Nat) : Rat) + ((digitsVal s : Nat) : Rat) / ((10 ^ s.length : Nat) : Rat) :=
      Option.some.inj h2
    simp only [decimalNum, hd, if_true, NumLit.value, mkRat_digits_dot, hD]

/-! ## exact numbers -/

theorem mixed_print (w p q : Str) : (NumLit.mixed w [' '] p [] [] q).print = w ++ ' ' :: p ++ '/' :: q := by
  simp [NumLit.print]

theorem frac_print (p q : Str) : (NumLit.frac p [] q).print = p ++ '/' :: q := by
  simp [NumLit.print]

theorem isBlanks_nil : IsBlanks [] := by intro c hc; cases hc
theorem isBlanks_space : IsBlanks [' '] := by
  intro c hc; simp at hc; subst hc; decide

/-- the text of `format_fraction` for an allowed denominator is a proper or mixed fraction spelling and means `q` -/
theorem formatFraction_spelling (q : Rat) (hq : 0 ≤ q) (hd : q.den ≠ 1) (ha : q.den ∈ Gen.allowedDenominators) :
    ∃ l : NumLit, l.WF ∧ formatFraction q = l.print ∧ l.value = ⟨q, .frac⟩ ∧
      ((l = .mixed (natDigits (q.num.natAbs / q.den)) [' '] (natDigits (q.num.natAbs % q.den)) [] [] (natDigits q.den)) ∨
       (l = .frac (natDigits q.num.natAbs) [] (natDigits q.den) ∧ q.num.natAbs ≤ q.den)) := by
  obtain ⟨hfmt, hpos, hlt, hcop, hv⟩ := format_fraction_exact q hq hd ha
  have hnum : 0 ≤ q.num := Rat.num_nonneg.mpr hq
  have hden := q.den_pos
  have hq0 : digitsValue (natDigits q.den) ≠ 0 := by rw [digitsValue_natDigits]; omega
  by_cases hgt : q.num.natAbs > q.den
  · refine ⟨.mixed (natDigits (q.num.natAbs / q.den)) [' '] (natDigits (q.num.natAbs % q.den)) [] [] (natDigits q.den),
      ⟨natDigits_isDigits _, by simp, isBlanks_space, natDigits_isDigits _, isBlanks_nil, isBlanks_nil,
        natDigits_isDigits _, hq0⟩, ?_, ?_, Or.inl rfl⟩
    · rw [mixed_print, hfmt, if_pos hgt]
    · simp only [NumLit.value, digitsValue_natDigits, Rat.mkRat_eq_div, Rat.intCast_natCast]
      rw [hv]
  · refine ⟨.frac (natDigits q.num.natAbs) [] (natDigits q.den),
      ⟨natDigits_isDigits _, isBlanks_nil, natDigits_isDigits _, hq0⟩, ?_, ?_, Or.inr ⟨rfl, by omega⟩⟩
    · rw [frac_print, hfmt, if_neg hgt]
    · simp only [NumLit.value, digitsValue_natDigits]
      have : ((q.num.natAbs : Nat) : Int) = q.num := by omega
      rw [this, Rat.mkRat_self]

/-! ## lengths -/

theorem fracDigits_le (sig : Nat) (y : Rat) : fracDigits sig y ≤ sig := by
  simp only [fracDigits]; omega

theorem natCast_pow10_mul (k d : Nat) : ((10 ^ k : Nat) : Rat) * ((10 ^ d : Nat) : Rat) = (((10 ^ k * 10 ^ d : Nat) : Int) : Rat) := by
  rw [Rat.intCast_natCast, Rat.natCast_mul]

theorem formatFloat_length {y : Rat} (hy : 0 ≤ y) {k : Nat} (hk : 0 < k) (hlt : y < ((10 ^ k : Nat) : Rat)) :
    (formatFloat y).length ≤ k + 5 := by
  obtain ⟨l, -, hp, -, ⟨n, rfl, hn⟩ | ⟨s, rfl, -, -, hs⟩⟩ := formatFloat_spelling y hy
  · -- the rounded integer is at most 10^k
    rw [hp]
    have hP := pow10_cast_pos (fracDigits Gen.significantFigures y)
    have h1 : y * ((10 ^ fracDigits Gen.significantFigures y : Nat) : Rat)
        < (((10 ^ k * 10 ^ fracDigits Gen.significantFigures y : Nat) : Int) : Rat) := by
      rw [← natCast_pow10_mul]; exact Rat.mul_lt_mul_of_pos_right hlt hP
    have h2 := roundHalfEven_le_of_lt h1
    have h3 : ((roundHalfEven (y * ((10 ^ fracDigits Gen.significantFigures y : Nat) : Rat)) : Int) : Rat)
        = (((n * 10 ^ fracDigits Gen.significantFigures y : Nat) : Int) : Rat) := by
      rw [Rat.intCast_natCast, Rat.natCast_mul, ← hn, roundedDecimal, Rat.div_mul_cancel (Rat.ne_of_gt hP)]
    have h4 := Rat.intCast_inj.mp h3
    rw [h4] at h2
    have h5 : n * 10 ^ fracDigits Gen.significantFigures y ≤ 10 ^ k * 10 ^ fracDigits Gen.significantFigures y := Int.ofNat_le.mp h2
    have h6 : n ≤ 10 ^ k := Nat.le_of_mul_le_mul_right h5 (Nat.pow_pos (by decide))
    have h7 : n < 10 ^ (k + 1) := by
      have : 0 < 10 ^ k := Nat.pow_pos (by decide)
      rw [Nat.pow_succ]; omega
    have := natDigits_length_le (Nat.succ_pos k) h7
    simp only [NumLit.print]; omega
  · rw [hp]
    have h0 : 0 ≤ y.floor := Rat.le_floor_iff.mpr (by simpa using hy)
    have h1 : y.floor < ((10 ^ k : Nat) : Int) := Rat.floor_lt_iff.mpr (by rw [Rat.intCast_natCast]; exact hlt)
    have h2 : y.floor.toNat < 10 ^ k := by omega
    have := natDigits_length_le hk h2
    have := fracDigits_le Gen.significantFigures y
    have : Gen.significantFigures = 3 := rfl
    simp only [NumLit.print, List.length_append, List.length_cons]; omega

theorem formatFraction_length {q : Rat} (hq : 0 ≤ q) (hd : q.den ≠ 1) (ha : q.den ∈ Gen.allowedDenominators)
    {k : Nat} (hk : 0 < k) (hlt : q < ((10 ^ k : Nat) : Rat)) : (formatFraction q).length ≤ k + 6 := by
  have hden : q.den < 10 ^ 2 := by
    have : ∀ d ∈ Gen.allowedDenominators, d < 10 ^ 2 := by decide
    exact this _ ha
  have hdl := natDigits_length_le (by decide) hden
  obtain ⟨l, -, hp, -, rfl | ⟨rfl, hle⟩⟩ := formatFraction_spelling q hq hd ha
  · rw [hp]
    have hmod : q.num.natAbs % q.den < 10 ^ 2 := Nat.lt_trans (Nat.mod_lt _ q.den_pos) hden
    have hml := natDigits_length_le (by decide) hmod
    have hw : q.num.natAbs / q.den < 10 ^ k := by
      have h0 : 0 ≤ q.num := Rat.num_nonneg.mpr hq
      have h1 : (((q.num.natAbs / q.den : Nat) : Int) : Rat) ≤ q := by
        have h2 : ((q.num.natAbs / q.den : Nat) : Int) = q.num / (q.den : Int) := by
          have : ((q.num.natAbs : Nat) : Int) = q.num := by omega
          rw [Int.natCast_ediv, this]
        rw [h2, ← Rat.floor_def]
        exact Rat.floor_le q
      have h3 : (((q.num.natAbs / q.den : Nat) : Int) : Rat) < (((10 ^ k : Nat) : Int) : Rat) := by
        rw [Rat.intCast_natCast (10 ^ k)]; grind
      have := Rat.intCast_lt_intCast.mp h3
      omega
    have hwl := natDigits_length_le hk hw
    simp only [NumLit.print, List.length_append, List.length_cons, List.length_nil]; omega
  · rw [hp]
    have hn : q.num.natAbs < 10 ^ 2 := by omega
    have hnl := natDigits_length_le (by decide) hn
    simp only [NumLit.print, List.length_append, List.length_cons, List.length_nil]; omega

/-- `toDouble` at most doubles a non-negative number (it moves it by a relative `2^-53`) -/
theorem toDouble_le_two_mul {x : Rat} (hx : 0 ≤ x) : toDouble x ≤ 2 * x := by
  have h := toDouble_err_mul x
  have habs : x.abs = x := Rat.abs_of_nonneg hx
  rw [habs] at h
  have h2 := (abs_le_iff (x := toDouble x - x) (y := (toDouble x - x).abs)).mp Rat.le_refl
  grind

/-- the text of `format_number` of a non-negative number below `10^k` has at most `k + 6` characters -/
theorem formatNumber_length_le (x : Num) (hx : 0 ≤ x.val) {k : Nat} (hk : 0 < k) (hlt : x.val < ((10 ^ k : Nat) : Rat)) :
    (formatNumber x).length ≤ k + 6 := by
  by_cases hf : x.isFlt = true
  · have := formatFloat_length hx hk hlt
    simp only [formatNumber, hf, if_true]
    omega
  · have hf' : x.isFlt = false := by simpa using hf
    simp only [formatNumber, hf', Bool.false_eq_true, if_false]
    by_cases hd : x.val.den = 1
    · have hnum : 0 ≤ x.val.num := Rat.num_nonneg.mpr hx
      have hv : ((x.val.num : Int) : Rat) = x.val := by
        have := Rat.mkRat_self x.val
        rw [hd, Rat.mkRat_eq_div, Rat.div_def] at this
        have h1 : ((1 : Nat) : Rat)⁻¹ = 1 := by decide +kernel
        rw [h1, Rat.mul_one] at this
        exact this
      have h1 : ((x.val.num : Int) : Rat) < (((10 ^ k : Nat) : Int) : Rat) := by
        rw [hv, Rat.intCast_natCast]; exact hlt
      have h2 := Rat.intCast_lt_intCast.mp h1
      have h3 : x.val.num.toNat < 10 ^ k := by omega
      have := natDigits_length_le hk h3
      simp only [formatFraction, hd, beq_self_eq_true, if_true, intStr_of_nonneg hnum]
      omega
    · by_cases ha : x.val.den ∈ Gen.allowedDenominators
      · exact formatFraction_length hx hd ha hk hlt
      · rw [formatFraction_fallback x.val hd ha]
        have h1 : toDouble x.val < ((10 ^ (k + 1) : Nat) : Rat) := by
          have := toDouble_le_two_mul hx
          rw [Nat.pow_succ, Rat.natCast_mul]
          have h10 : ((10 : Nat) : Rat) = 10 := rfl
          rw [h10]
          have hP := pow10_cast_pos k
          grind
        exact formatFloat_length (toDouble_nonneg hx) (Nat.succ_pos _) h1

/-- the text of `format_number` of a number below `10^(maxLen - 10)` has at most `maxLen` characters -/
theorem formatNumber_length (x : Num) (hx : 0 ≤ x.val) (hlt : x.val < ((10 ^ (maxLen - 10) : Nat) : Rat)) :
    (formatNumber x).length ≤ maxLen := by
  have := formatNumber_length_le x hx (k := maxLen - 10) (by decide) hlt
  have hm : maxLen = 300 := rfl
  omega

/-! ## how far the value that is read back is from the number shown -/

/-- the shown decimal is within half a unit of the last digit of the budget -/
theorem roundedDecimal_err (y : Rat) :
    2 * ((10 ^ fracDigits Gen.significantFigures y : Nat) : Rat) * (roundedDecimal y - y) ≤ 1 ∧
    2 * ((10 ^ fracDigits Gen.significantFigures y : Nat) : Rat) * (y - roundedDecimal y) ≤ 1 := by
  have hP := pow10_cast_pos (fracDigits Gen.significantFigures y)
  have hb := roundHalfEven_err (y * ((10 ^ fracDigits Gen.significantFigures y : Nat) : Rat))
  simp only [roundedDecimal]
  generalize ((10 ^ fracDigits Gen.significantFigures y : Nat) : Rat) = P at *
  generalize ((roundHalfEven (y * P) : Int) : Rat) = R at *
  have h1 : P * (R / P) = R := by
    rw [Rat.mul_comm, Rat.div_mul_cancel (Rat.ne_of_gt hP)]
  constructor <;> grind

theorem roundedDecimal_nonneg {y : Rat} (hy : 0 ≤ y) : 0 ≤ roundedDecimal y := by
  have hP := pow10_cast_pos (fracDigits Gen.significantFigures y)
  have h0 := roundHalfEven_nonneg (Rat.mul_nonneg hy (Rat.le_of_lt hP))
  have h1 : (0 : Rat) ≤ ((roundHalfEven (y * ((10 ^ fracDigits Gen.significantFigures y : Nat) : Rat)) : Int) : Rat) := by
    have := Rat.intCast_le_intCast.mpr h0
    simpa using this
  rw [roundedDecimal, Rat.div_def]
  exact Rat.mul_nonneg h1 (Rat.le_of_lt (Rat.inv_pos.mpr hP))

/-- with at least one decimal, the shown decimal has at most `10^sig` units of its last digit:
    the integer digits use up the rest of the budget -/
theorem scaled_le_of_fracDigits_pos {y : Rat} (hy : 0 ≤ y) (hd : 0 < fracDigits Gen.significantFigures y) :
    roundHalfEven (y * ((10 ^ fracDigits Gen.significantFigures y : Nat) : Rat)) ≤ ((10 ^ Gen.significantFigures : Nat) : Int) := by
  apply roundHalfEven_le_of_lt
  have hP := pow10_cast_pos (fracDigits Gen.significantFigures y)
  have hfl := Rat.lt_floor_add_one y
  have h0 : 0 ≤ y.floor := Rat.le_floor_iff.mpr (by simpa using hy)
  -- y < 10^len where len + d = sig
  have key : ∃ len : Nat, len + fracDigits Gen.significantFigures y = Gen.significantFigures ∧ y.floor.toNat < 10 ^ len := by
    by_cases hi : y.floor.toNat = 0
    · refine ⟨0, ?_, by simp [hi]⟩
      simp [fracDigits, hi]
    · refine ⟨(natDigits y.floor.toNat).length, ?_, ?_⟩
      · have : (y.floor.toNat == 0) = false := by simpa using hi
        simp only [fracDigits, this] at hd ⊢
        simp only [Bool.false_eq_true, if_false] at hd ⊢
        omega
      · have hpos : 0 < (natDigits y.floor.toNat).length := List.length_pos_iff.mpr (natDigits_ne_nil _)
        exact (Nat.length_toDigits_le_iff (b := 10) (by decide) hpos).mp (Nat.le_refl _)
  obtain ⟨len, hlen, hlt⟩ := key
  have h1 : y < ((10 ^ len : Nat) : Rat) := by
    have h2 : y.floor + 1 ≤ ((10 ^ len : Nat) : Int) := by omega
    have h3 := Rat.intCast_le_intCast.mpr h2
    rw [Rat.intCast_natCast] at h3
    rw [Rat.intCast_add] at h3 hfl
    grind
  have h4 := Rat.mul_lt_mul_of_pos_right h1 hP
  rw [← Rat.natCast_mul, ← Nat.pow_add, hlen] at h4
  rw [Rat.intCast_natCast]
  exact h4

/-- **distance between the number read back and the number shown**: without a point exactly the rounding bound of C11
    (half a unit of the last digit of the budget); with a point the reader returns the double nearest to the shown
    decimal, which adds at most `2·10^sig / 2^53` of that unit (`sig = 3`: about `2.2·10^-13` half-units) -/
theorem decimalNum_err (y : Rat) (hy : 0 ≤ y) :
    ('.' ∉ formatFloat y →
      2 * ((10 ^ fracDigits Gen.significantFigures y : Nat) : Rat) * ((decimalNum y).val - y) ≤ 1 ∧
      2 * ((10 ^ fracDigits Gen.significantFigures y : Nat) : Rat) * (y - (decimalNum y).val) ≤ 1) ∧
    ('.' ∈ formatFloat y →
      2 * ((10 ^ fracDigits Gen.significantFigures y : Nat) : Rat) * ((decimalNum y).val - y)
        ≤ 1 + 2 * ((10 ^ Gen.significantFigures : Nat) : Rat) / 9007199254740992 ∧
      2 * ((10 ^ fracDigits Gen.significantFigures y : Nat) : Rat) * (y - (decimalNum y).val)
        ≤ 1 + 2 * ((10 ^ Gen.significantFigures : Nat) : Rat) / 9007199254740992) := by
  have hb := roundedDecimal_err y
  constructor
  · intro hnd
    simpa [decimalNum, hnd] using hb
  · intro hd
    have hdpos : 0 < fracDigits Gen.significantFigures y := by
      obtain ⟨l, -, hp, -, ⟨n, rfl, -⟩ | ⟨s, rfl, hs, -, hlen⟩⟩ := formatFloat_spelling y hy
      · rw [hp] at hd; exact absurd hd (dot_not_mem_natDigits n)
      · have := List.length_pos_iff.mpr hs; omega
    have hR := scaled_le_of_fracDigits_pos hy hdpos
    have hP := pow10_cast_pos (fracDigits Gen.significantFigures y)
    have hD0 := roundedDecimal_nonneg hy
    have herr := toDouble_err_mul (roundedDecimal y)
    rw [Rat.abs_of_nonneg hD0, ← abs_mul_of_nonneg (by decide), abs_le_iff] at herr
    have hPD : ((10 ^ fracDigits Gen.significantFigures y : Nat) : Rat) * roundedDecimal y
        ≤ ((10 ^ Gen.significantFigures : Nat) : Rat) := by
      have h1 := Rat.intCast_le_intCast.mpr hR
      rw [Rat.intCast_natCast] at h1
      rw [roundedDecimal, Rat.mul_comm, Rat.div_mul_cancel (Rat.ne_of_gt hP)]
      exact h1
    simp only [decimalNum, hd, if_true]
    generalize ((10 ^ fracDigits Gen.significantFigures y : Nat) : Rat) = P at *
    generalize ((10 ^ Gen.significantFigures : Nat) : Rat) = S at *
    generalize roundedDecimal y = D at *
    generalize toDouble D = v at *
    rw [Rat.div_def]
    -- 2^53 * |v - D| ≤ D, P * D ≤ S, 2 P |D - y| ≤ 1
    have e1 := Rat.mul_le_mul_of_nonneg_left herr.1 (Rat.le_of_lt hP)
    have e2 := Rat.mul_le_mul_of_nonneg_left herr.2 (Rat.le_of_lt hP)
    have hinv : (9007199254740992 : Rat) * (9007199254740992 : Rat)⁻¹ = 1 := by decide +kernel
    constructor <;> grind

/-! ## `format_number` -/

/-- what a reader of the tool's number syntax gets from the text of `format_number x` -/
def shownNum (x : Num) : Num :=
  if x.isFlt then decimalNum x.val
  else if x.val.den = 1 then ⟨x.val, .int⟩
  else if x.val.den ∈ Gen.allowedDenominators then ⟨x.val, .frac⟩
  else decimalNum (toDouble x.val)

/-- **the text of `format_number` is a permitted spelling of the grammar's `number`, and means `shownNum`** -/
theorem formatNumber_spelling (x : Num) (hx : 0 ≤ x.val) :
    ∃ l : NumLit, l.WF ∧ formatNumber x = l.print ∧ l.value = shownNum x := by
  by_cases hf : x.isFlt = true
  · obtain ⟨l, hwf, hp, hv, -⟩ := formatFloat_spelling x.val hx
    exact ⟨l, hwf, by simp [formatNumber, hf, hp], by simp [shownNum, hf, hv]⟩
  · have hf' : x.isFlt = false := by simpa using hf
    by_cases hd : x.val.den = 1
    · have hnum : 0 ≤ x.val.num := Rat.num_nonneg.mpr hx
      refine ⟨.int (natDigits x.val.num.toNat), natDigits_isDigits _, ?_, ?_⟩
      · simp [formatNumber, hf', formatFraction, hd, intStr_of_nonneg hnum, NumLit.print]
      · simp only [shownNum, hf', hd, NumLit.value, digitsValue_natDigits]
        have h1 : ((x.val.num.toNat : Nat) : Rat) = ((x.val.num : Int) : Rat) := by
          rw [← Rat.intCast_natCast, Int.toNat_of_nonneg hnum]
        have h2 : ((x.val.num : Int) : Rat) = x.val := by
          have := Rat.mkRat_self x.val
          rw [hd, Rat.mkRat_eq_div, Rat.div_def] at this
          have h1 : ((1 : Nat) : Rat)⁻¹ = 1 := by decide +kernel
          rw [h1, Rat.mul_one] at this
          exact this
        simp [h1, h2]
    · by_cases ha : x.val.den ∈ Gen.allowedDenominators
      · obtain ⟨l, hwf, hp, hv, -⟩ := formatFraction_spelling x.val hx hd ha
        exact ⟨l, hwf, by simp [formatNumber, hf', hp], by simp [shownNum, hf', hd, ha, hv]⟩
      · obtain ⟨l, hwf, hp, hv, -⟩ := formatFloat_spelling (toDouble x.val) (toDouble_nonneg hx)
        refine ⟨l, hwf, ?_, by simp [shownNum, hf', hd, ha, hv]⟩
        simp [formatNumber, hf', formatFraction_fallback x.val hd ha, hp]

end RG
