import RecipeGrid.Lemmas.MdStrip
/-! The lines of a block's padded text against the lines of the document, for the blocks `assemble` produces
    from the tagged lines of a document of **D**. -/
namespace RG

theorem plines_flatten_nl (ls : List Str) (h : ∀ l ∈ ls, NlEnded l) (r : Str) :
    plines (crToLf (ls.flatten ++ r)) = plines (crToLf ls.flatten) ++ plines (crToLf r) := by
  induction ls with
  | nil => simp [crToLf, plines]
  | cons l ls ih =>
    have hl := h l (by simp)
    have ih' := ih (fun x hx => h x (List.mem_cons_of_mem _ hx))
    simp only [List.flatten_cons, List.append_assoc]
    rw [plines_crToLf_nlEnded_append _ _ hl, ih', plines_crToLf_nlEnded_append _ _ hl, List.append_assoc]

theorem klines_flatten_nl (ls : List Str) (h : ∀ l ∈ ls, NlEnded l) (r : Str) :
    klines (crToLf (ls.flatten ++ r)) = klines (crToLf ls.flatten) ++ klines (crToLf r) := by
  induction ls with
  | nil => simp [crToLf, klines]
  | cons l ls ih =>
    have hl := h l (by simp)
    have ih' := ih (fun x hx => h x (List.mem_cons_of_mem _ hx))
    simp only [List.flatten_cons, List.append_assoc]
    rw [klines_crToLf_nlEnded_append _ _ hl, ih', klines_crToLf_nlEnded_append _ _ hl, List.append_assoc]

theorem pyLineCount_eq (l : Str) : pyLineCount l = (plines (crToLf l)).length := by
  rw [pyLineCount, splitLinesKeep_eq_klines _ (not_cr_mem_crToLf l), klines_length]

theorem lineSum_eq (ts : List TLine) (h : ∀ t ∈ ts, NlEnded t.text) :
    lineSum ts = (plines (crToLf (ts.map (·.text)).flatten)).length := by
  induction ts with
  | nil => simp [lineSum, crToLf, plines]
  | cons t ts ih =>
    have ht := h t (by simp)
    have ih' := ih (fun x hx => h x (List.mem_cons_of_mem _ hx))
    simp only [lineSum, List.map_cons, List.sum_cons, List.flatten_cons] at ih' ⊢
    rw [plines_crToLf_nlEnded_append _ _ ht, List.length_append, ← ih', pyLineCount_eq]

theorem extractLine_eq_plines (X : Str) (hX : X ≠ []) (hr : '\r' ∉ X) (l : Nat) (hl : 1 ≤ l) :
    extractLine X l = (plines X)[l - 1]? := by
  unfold extractLine
  rw [if_neg (by simpa using hX), if_neg (by omega), splitLines_eq_plines X hr]

theorem plines_one_line (b : Str) (h : ∀ c ∈ b, isLineBreak c = false) : plines (b ++ ['\n']) = [b] := by
  induction b with
  | nil => simp [plines, isLineBreak_lf]
  | cons c b ih =>
    have hc := h c (by simp)
    simp only [List.cons_append, plines, hc, Bool.false_eq_true, if_false,
      ih (fun x hx => h x (List.mem_cons_of_mem _ hx)), attachPre]
    simp

theorem takeWhile_ne_nl (b : Str) (hb : '\n' ∉ b) : (b ++ ['\n']).takeWhile (· != '\n') = b := by
  induction b with
  | nil => simp
  | cons c b ih =>
    have hc : c ≠ '\n' := by intro e; subst e; simp at hb
    have hb' : '\n' ∉ b := fun e => hb (List.mem_cons_of_mem _ e)
    simp [hc, ih hb']

/-- an opening fence line of **D** is one line of the document -/
theorem pyLineCount_fence_line (l : Str) (hl : MdLine l) (hnl : NlEnded l) (hok : hasInnerBreak l = false) :
    pyLineCount l = 1 := by
  obtain ⟨b, rfl⟩ := hnl
  have hb : '\n' ∉ b := by
    intro hmem
    obtain ⟨a, c, hac⟩ := List.append_of_mem hmem
    have := hl.2 a (c ++ ['\n']) (by rw [hac]; simp)
    simp at this
  rw [hasInnerBreak, takeWhile_ne_nl b hb] at hok
  have hnb : ∀ c ∈ b, isLineBreak c = false := by
    intro c hc
    have := List.any_eq_false.mp hok c hc
    simpa using this
  rw [pyLineCount_eq, crToLf_append, crToLf_nl, crToLf_of_no_break b hnb, plines_one_line b hnb]
  rfl

theorem plines_no_break (b : Str) (h : ∀ c ∈ b, isLineBreak c = false) (hb : b ≠ []) : plines b = [b] := by
  induction b with
  | nil => contradiction
  | cons c b ih =>
    have hc := h c (by simp)
    simp only [plines, hc, Bool.false_eq_true, if_false]
    by_cases hb' : b = []
    · subst hb'; simp [plines, attachPre]
    · rw [ih (fun x hx => h x (List.mem_cons_of_mem _ hx)) hb']; simp [attachPre]

theorem takeWhile_ne_nl_self (b : Str) (hb : '\n' ∉ b) : b.takeWhile (· != '\n') = b := by
  induction b with
  | nil => rfl
  | cons c b ih =>
    have hc : c ≠ '\n' := by intro e; subst e; simp at hb
    have hb' : '\n' ∉ b := fun e => hb (List.mem_cons_of_mem _ e)
    simp [hc, ih hb']

/-- an opening fence line of **D** is one line of the document, also when it is the last line and has no newline -/
theorem pyLineCount_fence_line' (l : Str) (hl : MdLine l) (hok : hasInnerBreak l = false) : pyLineCount l = 1 := by
  by_cases hmem : '\n' ∈ l
  · obtain ⟨a, c, hac⟩ := List.append_of_mem hmem
    have hc := hl.2 a c hac
    subst hc
    exact pyLineCount_fence_line l hl ⟨a, hac⟩ hok
  · rw [hasInnerBreak, takeWhile_ne_nl_self l hmem] at hok
    have hnb : ∀ c ∈ l, isLineBreak c = false := by
      intro c hc
      have := List.any_eq_false.mp hok c hc
      simpa using this
    rw [pyLineCount_eq, crToLf_of_no_break l hnb, plines_no_break l hnb hl.1]
    rfl

theorem block_lines_core (N' Ap Cp Rp S : Str) (n k : Nat) (exc : Nat → Str → Prop)
    (hN : N' = Ap ++ (Cp ++ Rp))
    (hA : plines (Ap ++ (Cp ++ Rp)) = plines Ap ++ plines (Cp ++ Rp))
    (hk : k = (plines Ap).length)
    (hC : plines (Cp ++ Rp) = plines Cp ++ plines Rp)
    (hS : ∀ (j : Nat) (s : Str), (plines S)[j]? = some s → (∃ d, (plines Cp)[j]? = some d ∧ KRel n s d) ∨ exc j s) :
    ∀ (j : Nat) (s : Str), (plines (List.replicate k '\n' ++ S))[k + j]? = some s →
      (∃ d, (plines N')[k + j]? = some d ∧ KRel n s d) ∨ exc j s := by
  intro j s hs
  rw [plines_replicate_nl, List.getElem?_append_right (by simp)] at hs
  simp only [List.length_replicate, Nat.add_sub_cancel_left] at hs
  rcases hS j s hs with ⟨d, hd, hr⟩ | he
  · left
    refine ⟨d, ?_, hr⟩
    rw [hN, hA, hC, List.getElem?_append_right (by omega), ← hk, Nat.add_sub_cancel_left]
    rw [List.getElem?_append_left (List.getElem?_eq_some_iff.mp hd).1]
    exact hd
  · exact Or.inr he

/-- the tagged lines of a document, as lists of marko lines -/
theorem tagDoc_linesOk (doc : Str) (pre : List TLine) (t : TLine) (rest : List TLine)
    (hts : tagDoc doc = pre ++ t :: rest) :
    LinesOk (pre.map (·.text) ++ t.text :: rest.map (·.text)) := by
  have := mdLines_ok (normaliseCrLf doc)
  rw [← tagDoc_text, hts] at this
  simpa using this

theorem tagDoc_norm (doc : Str) (pre : List TLine) (t : TLine) (rest : List TLine)
    (hts : tagDoc doc = pre ++ t :: rest) :
    normaliseCrLf doc = (pre.map (·.text)).flatten ++ (t.text ++ (rest.map (·.text)).flatten) := by
  rw [← tagDoc_flatten, hts]; simp

theorem inDoc_ok (doc : Str) (hD : inDoc doc = true) : ∀ t ∈ tagDoc doc, t.ok = true := by
  simp only [inDoc, Bool.and_eq_true, List.all_eq_true] at hD
  exact hD.2

/-- the line of `pos` for a block that starts at tagged line `t` -/
theorem line_of_block_start (doc : Str) (pre : List TLine) (t : TLine) (rest : List TLine)
    (hts : tagDoc doc = pre ++ t :: rest) :
    (offsetToLineCol (crToLf (normaliseCrLf doc)) (lenSum pre)).1 = lineSum pre + 1 := by
  have hok := tagDoc_linesOk doc pre t rest hts
  have hnl : ∀ l ∈ pre.map (·.text), NlEnded l := hok.nlEnded_left (by simp)
  have hnl' : ∀ x ∈ pre, NlEnded x.text := fun x hx => hnl _ (List.mem_map_of_mem hx)
  have hN := tagDoc_norm doc pre t rest hts
  have ht : t.text ≠ [] := (hok.append_right).1.1
  rw [hN, crToLf_append, lenSum_eq, ← crToLf_length ((pre.map (·.text)).flatten)]
  rw [offsetToLineCol_line_start]
  · rw [klines_length, ← lineSum_eq pre hnl']
  · rw [← crToLf_append]; exact not_cr_mem_crToLf _
  · rw [← crToLf_append]; exact klines_flatten_nl _ hnl _
  · rw [Ne, crToLf_eq_nil]; simp [ht]

/-! ## small list facts missing from core -/

theorem length_dropWhile_le {α : Type} (p : α → Bool) (l : List α) : (l.dropWhile p).length ≤ l.length := by
  induction l with
  | nil => simp
  | cons x l ih =>
    simp only [List.dropWhile_cons]
    split
    · simp only [List.length_cons]; omega
    · simp

theorem length_takeWhile_le {α : Type} (p : α → Bool) (l : List α) : (l.takeWhile p).length ≤ l.length := by
  induction l with
  | nil => simp
  | cons x l ih =>
    simp only [List.takeWhile_cons]
    split
    · simp only [List.length_cons]; omega
    · simp

theorem mem_of_mem_takeWhile {α : Type} (p : α → Bool) (l : List α) (c : α) (h : c ∈ l.takeWhile p) : c ∈ l := by
  induction l with
  | nil => simp at h
  | cons x l ih =>
    simp only [List.takeWhile_cons] at h
    split at h
    · rcases List.mem_cons.1 h with rfl | h
      · simp
      · exact List.mem_cons_of_mem _ (ih h)
    · simp at h

/-! ## order and disjointness of the blocks `assemble` produces -/

theorem assemble_pos_ge {b : MdBlock} {pos line : Nat} {ts : List TLine} (h : b ∈ assemble pos line ts) :
    pos ≤ b.pos ∧ line ≤ b.startLine := by
  obtain ⟨pre, t, rest, _, h⟩ := mem_assemble h
  rcases h with ⟨f, _, rfl⟩ | ⟨_, rfl⟩ <;> simp only <;> omega

theorem assemble_ordered (pos line : Nat) (ts : List TLine) (hne : ∀ t ∈ ts, t.text ≠ []) :
    (assemble pos line ts).Pairwise fun b1 b2 => b1.pos < b2.pos ∧ b1.startLine ≤ b2.startLine := by
  induction ts generalizing pos line with
  | nil => simp [assemble]
  | cons t rest ih =>
    simp only [assemble]
    rw [List.pairwise_append]
    refine ⟨?_, ih _ _ (fun x hx => hne x (List.mem_cons_of_mem _ hx)), ?_⟩
    · split <;> simp
    · intro a ha b hb
      have hpos := assemble_pos_ge hb
      have htl : 0 < t.text.length := List.length_pos_iff.2 (hne t (by simp))
      split at ha
      · simp only [List.mem_singleton] at ha; subst ha; simp only; omega
      · simp only [List.mem_singleton] at ha; subst ha; simp only; omega
      · simp at ha


theorem stripFence_length_le (n : Nat) (l : Str) : (stripFence n l).length ≤ l.length := by
  unfold stripFence
  simp only
  split
  · simp
  · split
    · rename_i tail heq
      have h1 : (l.drop (leadSpaces l)).length ≤ l.length := by simp
      rw [heq, List.length_cons] at h1
      show 1 ≤ l.length
      omega
    · exact length_dropWhile_le _ _

theorem fencedSource_length_le (n : Nat) (body : List TLine) : (fencedSource n body).length ≤ lenSum body := by
  induction body with
  | nil => simp [fencedSource, lenSum]
  | cons t ts ih =>
    simp only [fencedSource, lenSum, List.map_cons, List.flatten_cons, List.length_append, List.sum_cons] at ih ⊢
    have := stripFence_length_le n t.text
    omega

theorem stripCode_length_le (t : TLine) (ht : t.text ≠ []) : (stripCode t).length ≤ t.text.length := by
  have hpos : 0 < t.text.length := List.length_pos_iff.2 ht
  unfold stripCode
  split
  · unfold stripCodeBlank
    by_cases h4 : 4 ≤ leadSpaces t.text
    · simp only [h4, if_true]
      by_cases he : (t.text.drop 4).isEmpty = true
      · simp only [he, if_true, List.length_cons, List.length_nil]; omega
      · simp only [he]; simp
    · simp only [h4, if_false, List.isEmpty_nil, if_true, List.length_cons, List.length_nil]; omega
  · simp

theorem stripCode_flatten_length_le (ts : List TLine) (h : ∀ t ∈ ts, t.text ≠ []) :
    ((ts.map stripCode).flatten).length ≤ lenSum ts := by
  induction ts with
  | nil => simp [lenSum]
  | cons t ts ih =>
    have := stripCode_length_le t (h t (by simp))
    have := ih (fun x hx => h x (List.mem_cons_of_mem _ hx))
    simp only [lenSum, List.map_cons, List.flatten_cons, List.length_append, List.sum_cons] at *
    omega

theorem rstripNl_length_le (s : Str) : (rstripNl s).length ≤ s.length := by
  unfold rstripNl
  rw [List.length_reverse]
  have := length_dropWhile_le (· == '\n') s.reverse
  simpa using this

theorem codeSource_length_le (t : TLine) (more : List TLine) (ht : t.tag = .codeStart) (hs : TagSound t)
    (h : ∀ x ∈ more, x.text ≠ []) :
    (codeSource (t :: more)).length ≤ t.text.length + lenSum more := by
  have h4 : 4 ≤ leadSpaces t.text := by simp only [TagSound, ht] at hs; exact hs.1
  have hlen : 4 ≤ t.text.length := by
    have : leadSpaces t.text ≤ t.text.length := length_takeWhile_le _ _
    omega
  have h1 : (stripCode t).length = t.text.length - 4 := by simp [stripCode, ht]
  have h2 := stripCode_flatten_length_le more h
  have h3 := rstripNl_length_le ((t :: more).map stripCode).flatten
  simp only [codeSource, List.length_append, List.length_cons, List.length_nil]
  simp only [List.map_cons, List.flatten_cons, List.length_append] at h3 ⊢
  omega

theorem takeWhile_prefix_of_stop {α : Type} (p : α → Bool) (pre : List α) (t : α) (r : List α) (ht : p t = false) :
    ∃ suffix, pre = (pre ++ t :: r).takeWhile p ++ suffix := by
  induction pre with
  | nil => exact ⟨[], by simp [ht]⟩
  | cons x pre ih =>
    simp only [List.cons_append, List.takeWhile_cons]
    split
    · obtain ⟨sfx, h⟩ := ih
      exact ⟨sfx, by rw [List.cons_append, ← h]⟩
    · exact ⟨x :: pre, rfl⟩

theorem lenSum_append (a b : List TLine) : lenSum (a ++ b) = lenSum a + lenSum b := by
  simp [lenSum]

theorem assemble_disjoint (pos line : Nat) (ts : List TLine) (hne : ∀ t ∈ ts, t.text ≠ []) (hs : ∀ t ∈ ts, TagSound t) :
    (assemble pos line ts).Pairwise fun b1 b2 => b1.pos + b1.source.length ≤ b2.pos := by
  induction ts generalizing pos line with
  | nil => simp [assemble]
  | cons t rest ih =>
    simp only [assemble]
    rw [List.pairwise_append]
    refine ⟨?_, ih _ _ (fun x hx => hne x (List.mem_cons_of_mem _ hx)) (fun x hx => hs x (List.mem_cons_of_mem _ hx)), ?_⟩
    · split <;> simp
    · intro a ha b hb
      obtain ⟨pre', t', rest', hr, hb'⟩ := mem_assemble hb
      have hbpos : b.pos = pos + t.text.length + lenSum pre' := by
        rcases hb' with ⟨f, _, rfl⟩ | ⟨_, rfl⟩ <;> rfl
      split at ha
      · rename_i f hf
        simp only [List.mem_singleton] at ha
        subst ha
        simp only
        have hstop : (fun x : TLine => x.tag.isFenceBody) t' = false := by
          rcases hb' with ⟨f', hf', _⟩ | ⟨hc', _⟩
          · simp [hf', LineTag.isFenceBody]
          · simp [hc', LineTag.isFenceBody]
        obtain ⟨sfx, hsfx⟩ := takeWhile_prefix_of_stop (fun x : TLine => x.tag.isFenceBody) pre' t' rest' hstop
        have h1 := fencedSource_length_le f.indent (rest.takeWhile (·.tag.isFenceBody))
        have h2 : lenSum pre' = lenSum (rest.takeWhile (·.tag.isFenceBody)) + lenSum sfx := by
          conv => lhs; rw [hsfx]
          rw [lenSum_append, hr]
        omega
      · rename_i hc
        simp only [List.mem_singleton] at ha
        subst ha
        simp only
        have hstop : (fun x : TLine => x.tag.isCodeMore) t' = false := by
          rcases hb' with ⟨f', hf', _⟩ | ⟨hc', _⟩
          · simp [hf', LineTag.isCodeMore]
          · simp [hc', LineTag.isCodeMore]
        obtain ⟨sfx, hsfx⟩ := takeWhile_prefix_of_stop (fun x : TLine => x.tag.isCodeMore) pre' t' rest' hstop
        have h1 := codeSource_length_le t (rest.takeWhile (·.tag.isCodeMore)) hc (hs t (by simp))
          (fun x hx => hne x (List.mem_cons_of_mem _ (mem_of_mem_takeWhile _ _ _ hx)))
        have h2 : lenSum pre' = lenSum (rest.takeWhile (·.tag.isCodeMore)) + lenSum sfx := by
          conv => lhs; rw [hsfx]
          rw [lenSum_append, hr]
        omega
      · simp at ha


/-! ## the indentation of an opening fence -/

theorem fenceOpen?_indent (l : Str) (f : FenceInfo) (h : fenceOpen? l = some f) :
    f.indent = leadSpaces l ∧ l.drop (leadSpaces l) ≠ [] := by
  unfold fenceOpen? at h
  simp only at h
  split at h
  · cases h
  · split at h
    · cases h
    · rename_i c r heq
      split at h
      · split at h
        · cases h
        · split at h
          · cases h
          · cases h; exact ⟨rfl, by rw [heq]; simp⟩
      · cases h

theorem leadSpaces_append (l r : Str) (h : l.drop (leadSpaces l) ≠ []) : leadSpaces (l ++ r) = leadSpaces l := by
  induction l with
  | nil => simp [leadSpaces] at h
  | cons c l ih =>
    simp only [leadSpaces, List.cons_append, List.takeWhile_cons] at h ih ⊢
    split
    · rename_i hc
      simp only [hc, if_true, List.length_cons, List.drop_succ_cons] at h
      simp only [List.length_cons]
      rw [ih h]
    · rfl

/-- the tags that open a block -/
def LineTag.startsBlock : LineTag → Bool
  | .fenceOpen _ => true
  | .codeStart => true
  | _ => false

theorem assemble_length (pos line : Nat) (ts : List TLine) :
    (assemble pos line ts).length = (ts.filter fun t => t.tag.startsBlock).length := by
  induction ts generalizing pos line with
  | nil => rfl
  | cons t rest ih =>
    simp only [assemble, List.length_append, ih, List.filter_cons]
    cases ht : t.tag <;> simp [LineTag.startsBlock] <;> omega

end RG
