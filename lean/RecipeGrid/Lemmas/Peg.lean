import RecipeGrid.Model.PegGrammar
import RecipeGrid.Lemmas.Parser
/-! The tie between the generic PEG recogniser (`Model/Peg.lean`) and parsers written in the monad `Parser.P`:
    `Ok call t e p s` says that the expression `e`, run from the position of the state `s`, ends where the hand-written
    parser `p` ends (the value `p` computes is forgotten).  One combinator lemma per PEG operator. -/
namespace RG
namespace Peg
open Parser

/-- what a run of a hand-written parser looks like to a recogniser: where it ended -/
def proj {α} : Option (α × PState) → PegRes
  | none => .fail
  | some (_, s) => .ok s.pos

@[simp] theorem proj_none {α} : proj (none : Option (α × PState)) = .fail := rfl
@[simp] theorem proj_some {α} (a : α) (s : PState) : proj (some (a, s)) = .ok s.pos := rfl

abbrev T := terminalScanner

/-- the expression `e` (rule calls answered by `call`) from the position of `s` ends where `p` ends -/
def Ok {α} (call : String → Nat → PegRes) (t : Array Char) (e : PExpr) (p : P α) (s : PState) : Prop :=
  pegExpr call T t e s.pos = proj (p t s)

section
variable {call : String → Nat → PegRes} {t : Array Char}

theorem Ok.of_eq {α β} {e : PExpr} {p : P α} {q : P β} {s : PState} (h : Ok call t e p s)
    (hpq : proj (q t s) = proj (p t s)) : Ok call t e q s := by
  unfold Ok at *; rw [hpq]; exact h

theorem Ok.pure {α} (a : α) (s : PState) : Ok call t .empty (pure a : P α) s := rfl

theorem Ok.rule {α} {name : String} {p : P α} {s : PState} (h : call name s.pos = proj (p t s)) :
    Ok call t (.rule name) p s := h

theorem Ok.bind {α β} {e1 e2 : PExpr} {m : P α} {f : α → P β} {s : PState} (h1 : Ok call t e1 m s)
    (h2 : ∀ a s', m t s = some (a, s') → Ok call t e2 (f a) s') : Ok call t (.cat e1 e2) (m >>= f) s := by
  unfold Ok at *
  rw [bind_apply]
  simp only [pegExpr]
  rw [h1]
  cases hm : m t s with
  | none => rfl
  | some r => obtain ⟨a, s'⟩ := r; exact h2 a s' hm

/-- a tail that computes without reading -/
theorem Ok.bind_pure {α β} {e : PExpr} {m : P α} {g : α → β} {s : PState} (h : Ok call t e m s) :
    Ok call t e (m >>= fun a => Pure.pure (g a)) s := by
  unfold Ok at *
  rw [bind_apply, h]
  cases m t s with
  | none => rfl
  | some r => rfl

theorem Ok.map {α β} {e : PExpr} {m : P α} {g : α → β} {s : PState} (h : Ok call t e m s) :
    Ok call t e (g <$> m) s := Ok.bind_pure h

/-- a tail that ends where it starts, whatever it computes -/
theorem Ok.bind_silent {α β} {e : PExpr} {m : P α} {f : α → P β} {s : PState} (h : Ok call t e m s)
    (hf : ∀ a s', ∃ b, f a t s' = some (b, s')) : Ok call t e (m >>= f) s := by
  unfold Ok at *
  rw [bind_apply, h]
  cases m t s with
  | none => rfl
  | some r => obtain ⟨a, s'⟩ := r; obtain ⟨b, hb⟩ := hf a s'; simp only [hb, proj_some]

theorem Ok.getPos_bind {β} {e : PExpr} {f : Nat → P β} {s : PState} (h : Ok call t e (f s.pos) s) :
    Ok call t e (getPos >>= f) s := h

theorem Ok.remaining_bind {β} {e : PExpr} {f : Nat → P β} {s : PState} (h : Ok call t e (f (t.size - s.pos)) s) :
    Ok call t e (remaining >>= f) s := h

theorem Ok.orElse {α} {e1 e2 : PExpr} {p q : P α} {s : PState} (h1 : Ok call t e1 p s) (h2 : Ok call t e2 q s) :
    Ok call t (.alt e1 e2) (p <|> q) s := by
  unfold Ok at *
  rw [orElse_apply]
  simp only [pegExpr]
  rw [h1]
  cases hp : p t s with
  | none => exact h2
  | some r => rfl

theorem Ok.opt {α} {e : PExpr} {p : P α} {s : PState} (h : Ok call t e p s) : Ok call t (.maybe e) (Parser.opt p) s := by
  unfold Ok at *
  simp only [pegExpr, Parser.opt, orElse_apply, map_apply]
  rw [h]
  cases hp : p t s with
  | none => rfl
  | some r => rfl

/-- `(x)?` written as `x <|> pure _` -/
theorem Ok.orPure {α} {e : PExpr} {p : P α} {a : α} {s : PState} (h : Ok call t e p s) :
    Ok call t (.maybe e) (p <|> Pure.pure a) s := by
  unfold Ok at *
  simp only [pegExpr, orElse_apply]
  rw [h]
  cases hp : p t s with
  | none => rfl
  | some r => rfl

theorem Ok.withText {α} {e : PExpr} {p : P α} {s : PState} (h : Ok call t e p s) : Ok call t e (Parser.withText p) s := by
  unfold Ok at *
  rw [h]
  unfold Parser.withText
  cases p t s with
  | none => rfl
  | some r => rfl

theorem Ok.textOf {e : PExpr} {p : P Unit} {s : PState} (h : Ok call t e p s) : Ok call t e (Parser.textOf p) s :=
  Ok.bind_pure (Ok.withText h)

theorem Ok.void {α} {e : PExpr} {p : P α} {s : PState} (h : Ok call t e p s) : Ok call t e (Peg.void p) s :=
  Ok.bind_pure h

/-! ## `*` and `+` -/

theorem manyF_some {α} (p : P α) : ∀ k t s, ∃ r, manyF p k t s = some r
  | 0, _, _ => ⟨_, rfl⟩
  | k + 1, t, s => by
    unfold manyF
    rw [orElse_apply]
    split
    · next r h => exact ⟨r, rfl⟩
    · exact ⟨_, rfl⟩

theorem star_manyF {α} {e : PExpr} {p : P α} (hadv : Adv p) (hneeds : NeedsChar p) (lo : Nat)
    (hbody : ∀ s' : PState, lo ≤ s'.pos → Ok call t e p s') :
    ∀ (k : Nat) (s : PState), lo ≤ s.pos → t.size - s.pos ≤ k →
      pegStar (pegExpr call T t e) (k + 1) s.pos = proj (manyF p k t s)
  | 0, s, hlo, hk => by
    unfold pegStar manyF
    have hb := hbody s hlo
    unfold Ok at hb
    rw [hb]
    cases hp : p t s with
    | none => rfl
    | some r => have := hneeds _ _ _ hp; omega
  | k + 1, s, hlo, hk => by
    have hb := hbody s hlo
    unfold Ok at hb
    unfold pegStar manyF
    rw [hb, orElse_apply, bind_apply]
    cases hp : p t s with
    | none => rfl
    | some r =>
      obtain ⟨a, s'⟩ := r
      have hlt := hadv _ _ _ _ hp
      have hsz := hneeds _ _ _ hp
      simp only [proj_some]
      rw [if_neg (by omega)]
      rw [star_manyF hadv hneeds lo hbody k s' (by omega) (by omega)]
      obtain ⟨r, hr⟩ := manyF_some p k t s'
      rw [bind_apply, hr]
      rfl

theorem Ok.many {α} {e : PExpr} {p : P α} {s : PState} (hadv : Adv p) (hneeds : NeedsChar p)
    (hbody : ∀ s' : PState, s.pos ≤ s'.pos → Ok call t e p s') : Ok call t (.star e) (Parser.many p) s := by
  unfold Ok
  simp only [pegExpr, Parser.many, bind_apply, remaining_apply]
  exact star_manyF hadv hneeds s.pos hbody _ s (Nat.le_refl _) (Nat.le_refl _)

theorem many_some {α} (p : P α) (t : Array Char) (s : PState) : ∃ r, many p t s = some r := by
  simp only [Parser.many, bind_apply, remaining_apply]
  exact manyF_some p _ t s

/-- `x+ rest` against `first ← x; more ← many x; rest` -/
theorem Ok.plus_bind {α β} {e e2 : PExpr} {p : P α} {f : α → List α → P β} {s : PState} (hadv : Adv p)
    (hneeds : NeedsChar p) (hbody : ∀ s' : PState, s.pos ≤ s'.pos → Ok call t e p s')
    (h2 : ∀ a as s', s.pos ≤ s'.pos → Ok call t e2 (f a as) s') :
    Ok call t (.cat (.plus e) e2) (p >>= fun a => Parser.many p >>= fun as => f a as) s := by
  unfold Ok
  have hb := hbody s (Nat.le_refl _)
  unfold Ok at hb
  simp only [pegExpr]
  rw [hb, bind_apply]
  cases hp : p t s with
  | none => rfl
  | some r =>
    obtain ⟨a, s1⟩ := r
    have hlt := hadv _ _ _ _ hp
    simp only [proj_some]
    rw [if_neg (by omega)]
    have hm : Ok call t (.star e) (Parser.many p) s1 := Ok.many hadv hneeds fun s' h => hbody s' (by omega)
    unfold Ok at hm
    simp only [pegExpr] at hm
    rw [hm, bind_apply]
    obtain ⟨⟨as, s2⟩, hr⟩ := many_some p t s1
    have hmono : s1.pos ≤ s2.pos := mono_many hadv.mono _ _ _ _ hr
    rw [hr]
    exact h2 a as s2 (by omega)

/-! ## terminals -/

/-- the result of `p` does not depend on the `zero` flag of the state, which it hands on -/
def Unif {α} (p : P α) : Prop :=
  ∀ t i z, p t ⟨i, z⟩ = (p t ⟨i, false⟩).map fun r => (r.1, ⟨r.2.pos, z⟩)

theorem Unif.proj {α} {p : P α} (h : Unif p) (t : Array Char) (s : PState) :
    proj (p t ⟨s.pos, false⟩) = proj (p t s) := by
  obtain ⟨i, z⟩ := s
  rw [h t i z]
  cases p t ⟨i, false⟩ with
  | none => rfl
  | some r => rfl

theorem Ok.term {α} {re : String} {scan : P Unit} {p : P α} {s : PState} (hT : T re = some scan) (hu : Unif scan)
    (hp : proj (p t s) = proj (scan t s)) : Ok call t (.term re) p s := by
  unfold Ok
  simp only [pegExpr, hT]
  rw [hp, ← hu.proj]
  cases scan t ⟨s.pos, false⟩ with
  | none => rfl
  | some r => rfl

theorem unif_pure {α} (a : α) : Unif (pure a : P α) := fun _ _ _ => rfl
theorem unif_fail {α} : Unif (fail : P α) := fun _ _ _ => rfl

theorem unif_bind {α β} {m : P α} {f : α → P β} (hm : Unif m) (hf : ∀ a, Unif (f a)) : Unif (m >>= f) := by
  intro t i z
  rw [bind_apply, bind_apply, hm t i z]
  cases m t ⟨i, false⟩ with
  | none => rfl
  | some r => obtain ⟨a, j, z'⟩ := r
              simp only [Option.map_some]
              rw [hf a t j z, hf a t j z']
              cases f a t ⟨j, false⟩ with
              | none => rfl
              | some r' => rfl

theorem unif_orElse {α} {p q : P α} (hp : Unif p) (hq : Unif q) : Unif (p <|> q) := by
  intro t i z
  rw [orElse_apply, orElse_apply, hp t i z]
  cases p t ⟨i, false⟩ with
  | none => exact hq t i z
  | some r => rfl

theorem unif_map {α β} {g : α → β} {p : P α} (hp : Unif p) : Unif (g <$> p) :=
  unif_bind hp fun _ => unif_pure _

theorem unif_opt {α} {p : P α} (hp : Unif p) : Unif (opt p) := unif_orElse (unif_map hp) (unif_pure _)

theorem unif_void {α} {p : P α} (hp : Unif p) : Unif (void p) := unif_bind hp fun _ => unif_pure _

theorem unif_getPos : Unif getPos := fun _ _ _ => rfl

theorem unif_sat (p : Char → Bool) : Unif (sat p) := by
  intro t i z
  simp only [sat]
  cases t[i]? with
  | none => rfl
  | some c => by_cases h : p c = true <;> simp [h]

theorem unif_lit (c : Char) : Unif (lit c) := unif_bind (unif_sat _) fun _ => unif_pure _

theorem unif_skipMany (p : Char → Bool) : Unif (skipMany p) := fun _ _ _ => rfl

theorem unif_skipMany1 (p : Char → Bool) : Unif (skipMany1 p) := unif_bind (unif_sat _) fun _ => unif_skipMany _

theorem unif_eof : Unif eof := by
  intro t i z
  simp only [eof]
  split <;> rfl

theorem unif_wordBoundary : Unif wordBoundary := by
  intro t i z
  simp only [wordBoundary]
  split <;> rfl

theorem unif_withText {α} {p : P α} (hp : Unif p) : Unif (withText p) := by
  intro t i z
  unfold Parser.withText
  rw [hp t i z]
  cases p t ⟨i, false⟩ with
  | none => rfl
  | some r => rfl

theorem unif_textOf {p : P Unit} (hp : Unif p) : Unif (textOf p) := unif_bind (unif_withText hp) fun _ => unif_pure _

theorem unif_ciWord : ∀ w : Str, Unif (ciWord w)
  | [] => unif_pure _
  | _ :: w => unif_bind (unif_sat _) fun _ => unif_ciWord w

theorem unif_unitPattern : ∀ ws : List Str, Unif (unitPattern ws)
  | [] => unif_wordBoundary
  | [w] => unif_bind (unif_ciWord w) fun _ => unif_wordBoundary
  | w :: w2 :: ws => by
    rw [unitPattern_cons2]
    exact unif_bind (unif_ciWord w) fun _ => unif_bind (unif_skipMany1 _) fun _ => unif_unitPattern (w2 :: ws)

theorem unif_firstOf : ∀ ps : List (P Unit), (∀ p ∈ ps, Unif p) → Unif (firstOf ps)
  | [], _ => unif_fail
  | p :: ps, h => unif_orElse (h p (List.mem_cons_self ..)) (unif_firstOf ps fun q hq => h q (List.mem_cons_of_mem _ hq))

theorem unif_knownUnit : Unif knownUnit := by
  unfold knownUnit
  refine unif_firstOf _ fun p hp => ?_
  obtain ⟨ws, _, rfl⟩ := List.mem_map.1 hp
  exact unif_unitPattern ws

theorem unif_digits : Unif digits := unif_textOf (unif_skipMany1 _)

theorem unif_denominator : Unif denominator := by
  unfold denominator
  refine unif_bind unif_digits fun ds => ?_
  split
  · exact unif_fail
  · exact unif_pure _

theorem unif_decimal : Unif decimal := by
  unfold decimal
  refine unif_bind unif_getPos fun _ => unif_bind unif_digits fun _ => unif_bind
    (unif_opt (unif_bind (unif_lit _) fun _ => unif_textOf (unif_skipMany _))) fun frac => ?_
  cases frac <;> exact unif_pure _

theorem unif_eolBreak : Unif eolBreak :=
  unif_bind (unif_skipMany _) fun _ => unif_bind (unif_sat _) fun _ => unif_skipMany _

theorem unif_assign : Unif assign :=
  unif_orElse (unif_bind (unif_lit _) fun _ => unif_bind (unif_lit _) fun _ => unif_pure _)
    (unif_bind (unif_lit _) fun _ => unif_pure _)

theorem unif_nakedTail : Unif nakedTail := fun _ _ _ => rfl

theorem unif_nakedString : Unif nakedString := by
  rw [nakedString_eq]
  exact unif_bind unif_getPos fun _ => unif_bind
    (unif_withText (unif_bind (unif_sat _) fun _ => unif_nakedTail)) fun _ => unif_pure _

theorem unif_preposition : Unif preposition := by
  unfold preposition
  exact unif_bind (unif_ciWord _) fun _ => unif_orElse
    (unif_bind (unif_skipMany1 _) fun _ => unif_bind (unif_ciWord _) fun _ => unif_wordBoundary) unif_wordBoundary

theorem unif_remainder : Unif remainder := by
  unfold remainder
  exact unif_orElse (unif_bind (unif_ciWord _) fun _ => unif_wordBoundary)
    (unif_orElse (unif_bind (unif_ciWord _) fun _ => unif_wordBoundary)
      (unif_orElse (unif_bind (unif_ciWord _) fun _ => unif_wordBoundary)
        (unif_bind (unif_ciWord _) fun _ => unif_bind (unif_skipMany _) fun _ =>
          unif_bind (unif_ciWord _) fun _ => unif_wordBoundary)))

end
end Peg
end RG
