import RecipeGrid.Lemmas.ParserErrBound
import RecipeGrid.Lemmas.Shift
/-! Position independence of the instrumented parser (`Model/ParserErr.lean`): on `pre ++ s` from position
    `i + pre.length` a rule does what it does on `s` from `i`, with its value's offsets, its final position and its
    furthest failure moved by `pre.length` (`ShE`, the companion of `Parser.Sh` in `Lemmas/Shift.lean`, whose lemmas
    about the scanners are reused for the terminals).  Hence `parseE_pad`. -/
namespace RG
namespace ParserE
open Parser (P PState Sh NonWord shSt)

/-- the furthest failure, seen from the padded text -/
def shFar (k : Nat) (f : Far) : Far := f.map (· + k)

theorem shFar_fmax (k : Nat) (a b : Far) : shFar k (fmax a b) = fmax (shFar k a) (shFar k b) := by
  cases a with
  | none => cases b <;> rfl
  | some x =>
    cases b with
    | none => rfl
    | some y =>
      simp only [shFar, fmax, Option.map_some, Option.some.injEq]
      omega

/-- the outcome of a run on the text, seen from the padded text -/
def shOut {α α' : Type} (k : Nat) (g : α → α') (r : Option (α × PState) × Far) : Option (α' × PState) × Far :=
  (r.1.map (fun x => (g x.1, shSt k x.2)), shFar k r.2)

/-- `pe'` on `pre ++ s` from the shifted state does what `pe` does on `s`, with the value mapped by `g` and the final
    position and the furthest failure shifted -/
def ShE {α α' : Type} (pre : Str) (g : α → α') (pe' : PE α') (pe : PE α) : Prop :=
  NonWord pre → ∀ (s : Str) (st : PState),
    pe' (pre ++ s).toArray (shSt pre.length st) = shOut pre.length g (pe s.toArray st)

variable {pre : Str}

theorem ShE.pure {α α' : Type} {g : α → α'} {a : α} {b : α'} (h : b = g a) : ShE pre g (pure b) (pure a) := by
  intro _ s st; subst h; rfl

/-- a terminal: from the position independence of the scanner -/
theorem ShE.term {α α' : Type} {g : α → α'} {p' : P α'} {p : P α} (h : Sh pre g p' p) : ShE pre g (term p') (term p) := by
  intro hw s st
  rw [term_apply, term_apply, h hw s st]
  cases p s.toArray st <;> rfl

theorem ShE.lift {α α' : Type} {g : α → α'} {p' : P α'} {p : P α} (h : Sh pre g p' p) : ShE pre g (lift p') (lift p) := by
  intro hw s st
  unfold ParserE.lift
  rw [h hw s st]
  rfl

theorem ShE.fail {α α' : Type} {g : α → α'} : ShE pre g (fail : PE α') (fail : PE α) := ShE.term Sh.fail

theorem ShE.bind {α α' β β' : Type} {f : α → α'} {g : β → β'} {m' : PE α'} {m : PE α}
    {h' : α' → PE β'} {h : α → PE β} (hm : ShE pre f m' m) (hh : ∀ a, ShE pre g (h' (f a)) (h a)) :
    ShE pre g (m' >>= h') (m >>= h) := by
  intro hw s st
  rw [bind_apply, bind_apply, hm hw s st]
  cases hr : (m s.toArray st).1 with
  | none => simp only [shOut, hr, Option.map_none]
  | some r =>
    obtain ⟨a, s1⟩ := r
    simp only [shOut, hr, Option.map_some]
    rw [hh a hw s s1]
    simp only [shOut, shFar_fmax]

theorem ShE.orElse {α α' : Type} {g : α → α'} {p' q' : PE α'} {p q : PE α}
    (hp : ShE pre g p' p) (hq : ShE pre g q' q) : ShE pre g (p' <|> q') (p <|> q) := by
  intro hw s st
  rw [orElse_apply, orElse_apply, hp hw s st]
  cases hr : (p s.toArray st).1 with
  | none =>
    simp only [shOut, hr, Option.map_none]
    rw [hq hw s st]
    simp only [shOut, shFar_fmax]
  | some r => simp only [shOut, hr, Option.map_some]

theorem ShE.map {α α' β β' : Type} {f : α → α'} {g : β → β'} {u' : α' → β'} {u : α → β} {p' : PE α'} {p : PE α}
    (hp : ShE pre f p' p) (hu : ∀ a, u' (f a) = g (u a)) : ShE pre g (u' <$> p') (u <$> p) :=
  ShE.bind hp fun a => ShE.pure (hu a)

theorem ShE.opt {α α' : Type} {g : α → α'} {p' : PE α'} {p : PE α} (hp : ShE pre g p' p) :
    ShE pre (Option.map g) (opt p') (opt p) :=
  ShE.orElse (ShE.map hp fun _ => rfl) (ShE.pure rfl)

theorem ShE.getPos : ShE pre (· + pre.length) getPos getPos := ShE.lift Sh.getPos
theorem ShE.remaining : ShE pre id remaining remaining := ShE.lift Sh.remaining

theorem ShE.manyF {α α' : Type} {g : α → α'} {p' : PE α'} {p : PE α} (hp : ShE pre g p' p) :
    ∀ fuel, ShE pre (List.map g) (manyF p' fuel) (manyF p fuel)
  | 0 => ShE.pure rfl
  | fuel + 1 => by
    unfold ParserE.manyF
    exact ShE.orElse (ShE.bind hp fun a => ShE.bind (ShE.manyF hp fuel) fun rest => ShE.pure rfl) (ShE.pure rfl)

theorem ShE.many {α α' : Type} {g : α → α'} {p' : PE α'} {p : PE α} (hp : ShE pre g p' p) :
    ShE pre (List.map g) (many p') (many p) :=
  ShE.bind ShE.remaining fun fuel => ShE.manyF hp fuel

theorem ShE.of_eq {α α' : Type} {g g' : α → α'} {p' : PE α'} {p : PE α} (h : ShE pre g p' p) (e : g = g') :
    ShE pre g' p' p := e ▸ h

theorem ShE.many_id {α : Type} {p' p : PE α} (hp : ShE pre id p' p) : ShE pre id (ParserE.many p') (ParserE.many p) :=
  (ShE.many hp).of_eq (by funext l; simp)

theorem ShE.withText {α α' : Type} {g : α → α'} {p' : PE α'} {p : PE α} (hp : ShE pre g p' p) :
    ShE pre (fun x => (g x.1, x.2)) (withText p') (withText p) := by
  intro hw s st
  unfold ParserE.withText
  rw [hp hw s st]
  cases hr : (p s.toArray st).1 with
  | none => simp only [shOut, hr, Option.map_none]
  | some r => simp only [shOut, hr, Option.map_some, Parser.shSt_pos, Parser.extract_pad]

theorem ShE.textOf {p' p : PE Unit} (hp : ShE pre id p' p) : ShE pre id (textOf p') (textOf p) :=
  ShE.bind (ShE.withText hp) fun _ => ShE.pure rfl

theorem ShE.skipManyOpt (p : Char → Bool) : ShE pre id (skipManyOpt p) (skipManyOpt p) := by
  intro _ s st
  unfold ParserE.skipManyOpt
  simp only [Parser.shSt_pos, Parser.spanEnd_pad, shOut, Option.map_some, id]
  by_cases h : Parser.spanEnd p s.toArray st.pos = st.pos
  · rw [if_pos h, if_pos (by omega)]; rfl
  · rw [if_neg h, if_neg (by omega)]; rfl

/-! ## the terminals -/

theorem ShE.lit (c : Char) : ShE pre id (lit c) (lit c) := ShE.term (Sh.lit c)
theorem ShE.hsp : ShE pre id hsp hsp := ShE.term Sh.hsp
theorem ShE.ohsp : ShE pre id ohsp ohsp := ShE.skipManyOpt _
theorem ShE.osp : ShE pre id osp osp := ShE.skipManyOpt _
theorem ShE.eof : ShE pre id eof eof := ShE.term Sh.eof
theorem ShE.digits : ShE pre id digits digits := ShE.term Sh.digits
theorem ShE.decimal : ShE pre (Parser.shNum pre.length) decimal decimal := ShE.term Sh.decimal
theorem ShE.nakedString : ShE pre (shiftString pre.length) nakedString nakedString := ShE.term Sh.nakedString
theorem ShE.sat (p : Char → Bool) : ShE pre id (ParserE.term (Parser.sat p)) (ParserE.term (Parser.sat p)) :=
  ShE.term (Sh.sat p)
theorem ShE.preposition : ShE pre id preposition preposition := ShE.term Sh.preposition
theorem ShE.remainder : ShE pre id remainder remainder := ShE.term Sh.remainder
theorem ShE.knownUnit : ShE pre id knownUnit knownUnit := ShE.term Sh.knownUnit
theorem ShE.assign : ShE pre id assign assign := ShE.term Sh.assign

theorem sh_denominator : Sh pre id denominator denominator := by
  unfold denominator
  refine Sh.bind Sh.digits fun ds => ?_
  simp only [id]
  split
  · exact Sh.fail
  · exact Sh.pure rfl

theorem sh_eolBreak : Sh pre id eolBreak eolBreak :=
  Sh.bind Sh.ohsp fun _ => Sh.bind (Sh.sat _) fun _ => Sh.osp

/-! ## the rules -/

theorem ShE.fraction : ShE pre (Parser.shNum pre.length) fraction fraction := by
  unfold ParserE.fraction
  refine ShE.bind ShE.getPos fun start => ?_
  refine ShE.bind (ShE.opt (g := id) (ShE.bind ShE.digits fun ds => ShE.bind ShE.hsp fun _ => ShE.pure rfl)) fun integer => ?_
  refine ShE.bind ShE.getPos fun numerStart => ?_
  refine ShE.bind ShE.digits fun numer => ?_
  refine ShE.bind ShE.ohsp fun _ => ?_
  refine ShE.bind (ShE.lit _) fun _ => ?_
  refine ShE.bind ShE.ohsp fun _ => ?_
  refine ShE.bind (ShE.term sh_denominator) fun denom => ?_
  refine ShE.pure ?_
  simp only [id, Option.map_id_fun]
  cases integer <;> rfl

theorem ShE.number : ShE pre (Parser.shNum pre.length) number number := ShE.orElse ShE.fraction ShE.decimal

theorem ShE.escaped : ShE pre id escaped escaped :=
  ShE.bind (ShE.lit _) fun _ => ShE.bind (ShE.term Sh.anyChar) fun _ => ShE.pure rfl

theorem ShE.quotedString (q : Char) : ShE pre (shiftString pre.length) (quotedString q) (quotedString q) := by
  unfold ParserE.quotedString
  refine ShE.bind ShE.getPos fun off => ?_
  refine ShE.bind (ShE.lit _) fun _ => ?_
  refine ShE.bind (ShE.many_id (ShE.orElse ShE.escaped (ShE.sat _))) fun body => ?_
  refine ShE.bind (ShE.lit _) fun _ => ?_
  exact ShE.pure rfl

theorem ShE.bracketedItem : ShE pre (Parser.shItem pre.length) bracketedItem bracketedItem := by
  unfold ParserE.bracketedItem
  refine ShE.orElse ?_ (ShE.orElse ?_ ?_)
  · refine ShE.bind ShE.number fun x => ?_
    obtain ⟨off, n⟩ := x
    exact ShE.pure rfl
  · exact ShE.bind ShE.getPos fun off => ShE.bind ShE.escaped fun c => ShE.pure rfl
  · exact ShE.bind ShE.getPos fun off => ShE.bind (ShE.sat _) fun c => ShE.pure rfl

theorem ShE.bracketedString : ShE pre (shiftString pre.length) bracketedString bracketedString := by
  unfold ParserE.bracketedString
  refine ShE.bind ShE.getPos fun off => ?_
  refine ShE.bind (ShE.lit _) fun _ => ?_
  refine ShE.bind (ShE.many ShE.bracketedItem) fun body => ?_
  refine ShE.bind (ShE.lit _) fun _ => ?_
  refine ShE.pure ?_
  rw [← Parser.finish_shift, ← Parser.foldl_push_shift _ _ _ (fun h => absurd rfl h)]
  rfl

theorem ShE.stringF (static : Bool) : ∀ fuel,
    ShE pre (shiftString pre.length) (stringF static fuel) (stringF static fuel)
  | 0 => ShE.fail
  | fuel + 1 => by
    unfold ParserE.stringF
    refine ShE.bind (f := shiftString pre.length) ?_ fun first => ?_
    · refine ShE.orElse ShE.nakedString (ShE.orElse (ShE.quotedString _) (ShE.orElse (ShE.quotedString _) ?_))
      cases static
      · exact ShE.bracketedString
      · exact ShE.fail
    refine ShE.bind (ShE.opt (g := shiftString pre.length) ?_) fun rest => ?_
    · refine ShE.bind ShE.getPos fun off => ?_
      refine ShE.bind (ShE.textOf ShE.ohsp) fun space => ?_
      refine ShE.bind (ShE.stringF static fuel) fun more => ?_
      refine ShE.pure ?_
      simp only [id]
      split <;> rfl
    · refine ShE.pure ?_
      cases rest <;> simp [shiftString]

theorem ShE.string (static : Bool) : ShE pre (shiftString pre.length) (string static) (string static) :=
  ShE.bind ShE.remaining fun _ => ShE.stringF static _

theorem ShE.hspPreposition : ShE pre id hspPreposition hspPreposition :=
  ShE.orElse (ShE.textOf (ShE.bind ShE.hsp fun _ => ShE.preposition)) (ShE.pure rfl)

theorem ShE.proportion : ShE pre (shiftAmount pre.length) proportion proportion := by
  unfold ParserE.proportion
  refine ShE.orElse ?_ ?_
  · refine ShE.bind ShE.getPos fun off => ?_
    refine ShE.bind (ShE.textOf ShE.remainder) fun wording => ?_
    exact ShE.bind ShE.hspPreposition fun prep => ShE.pure rfl
  · refine ShE.bind ShE.number fun x => ?_
    obtain ⟨off, v⟩ := x
    refine ShE.orElse ?_ (ShE.orElse ?_ ?_)
    · exact ShE.bind (ShE.textOf (ShE.bind ShE.hsp fun _ => ShE.preposition)) fun prep => ShE.pure rfl
    · refine ShE.bind (ShE.textOf (ShE.bind ShE.ohsp fun _ => ShE.bind (ShE.lit _) fun _ =>
        ShE.bind ShE.hspPreposition fun _ => ShE.pure rfl)) fun prep => ShE.pure rfl
    · exact ShE.bind (ShE.textOf (ShE.bind ShE.ohsp fun _ => ShE.lit _)) fun prep => ShE.pure rfl

theorem ShE.explicitQuantity : ShE pre (shiftAmount pre.length) explicitQuantity explicitQuantity := by
  unfold ParserE.explicitQuantity
  refine ShE.bind ShE.getPos fun off => ?_
  refine ShE.bind (ShE.lit _) fun _ => ?_
  refine ShE.bind ShE.ohsp fun _ => ?_
  refine ShE.bind ShE.number fun x => ?_
  obtain ⟨o, v⟩ := x
  refine ShE.bind (ShE.opt (g := fun x : Str × AString => (x.1, shiftString pre.length x.2))
    (ShE.bind (ShE.textOf ShE.ohsp) fun spacing => ShE.bind (ShE.string true) fun u => ShE.pure rfl)) fun unit => ?_
  refine ShE.bind ShE.ohsp fun _ => ?_
  refine ShE.bind (ShE.lit _) fun _ => ?_
  refine ShE.bind ShE.hspPreposition fun prep => ?_
  refine ShE.pure ?_
  cases unit <;> rfl

theorem ShE.implicitQuantity : ShE pre (shiftAmount pre.length) implicitQuantity implicitQuantity := by
  unfold ParserE.implicitQuantity
  refine ShE.bind ShE.number fun x => ?_
  obtain ⟨off, v⟩ := x
  refine ShE.bind (ShE.opt (g := fun x : Str × AString × Str => (x.1, shiftString pre.length x.2.1, x.2.2))
    ?_) fun unit => ?_
  · refine ShE.bind (ShE.textOf ShE.ohsp) fun spacing => ?_
    refine ShE.bind ShE.getPos fun unitOff => ?_
    refine ShE.bind (ShE.textOf ShE.knownUnit) fun name => ?_
    exact ShE.bind ShE.hspPreposition fun prep => ShE.pure rfl
  · cases unit with
    | none => exact ShE.pure rfl
    | some u => obtain ⟨spacing, u, prep⟩ := u; exact ShE.pure rfl

theorem ShE.reference : ShE pre (shiftExpr pre.length) reference reference := by
  unfold ParserE.reference
  refine ShE.bind (ShE.opt (g := shiftAmount pre.length) ?_) fun amount => ?_
  · refine ShE.bind (ShE.orElse ShE.proportion (ShE.orElse ShE.explicitQuantity ShE.implicitQuantity)) fun a => ?_
    exact ShE.bind ShE.ohsp fun _ => ShE.pure rfl
  · exact ShE.bind (ShE.string false) fun name => ShE.pure (by rw [shiftExpr])

theorem ShE.step {e : PE AExpr} (he : ShE pre (shiftExpr pre.length) e e) :
    ShE pre (shiftExpr pre.length) (step e) (step e) := by
  unfold ParserE.step
  refine ShE.bind (ShE.string false) fun name => ?_
  refine ShE.bind ShE.ohsp fun _ => ?_
  refine ShE.bind (ShE.lit _) fun _ => ?_
  refine ShE.bind ShE.osp fun _ => ?_
  refine ShE.bind he fun first => ?_
  refine ShE.bind (ShE.many (ShE.bind ShE.osp fun _ => ShE.bind (ShE.lit _) fun _ => ShE.bind ShE.osp fun _ => he)) fun rest => ?_
  refine ShE.bind (ShE.opt (g := id) (ShE.bind ShE.osp fun _ => ShE.lit _)) fun _ => ?_
  refine ShE.bind ShE.osp fun _ => ?_
  refine ShE.bind (ShE.lit _) fun _ => ?_
  exact ShE.pure (by rw [shiftExpr, shiftExprs_eq_map]; rfl)

theorem ShE.ltrShorthand {e : PE AExpr} (he : ShE pre (shiftExpr pre.length) e e) :
    ShE pre (shiftExpr pre.length) (ltrShorthand e) (ltrShorthand e) := by
  unfold ParserE.ltrShorthand
  refine ShE.bind he fun first => ?_
  refine ShE.bind (ShE.many (ShE.bind ShE.ohsp fun _ => ShE.bind (ShE.lit _) fun _ => ShE.bind ShE.ohsp fun _ =>
    ShE.string false)) fun actions => ?_
  exact ShE.pure (Parser.foldl_step_shift _ _ _)

theorem ShE.expr : ∀ fuel, ShE pre (shiftExpr pre.length) (expr fuel) (expr fuel)
  | 0 => ShE.fail
  | fuel + 1 => by
    unfold ParserE.expr
    refine ShE.orElse (ShE.step (ShE.expr fuel)) (ShE.orElse ShE.reference ?_)
    refine ShE.bind (ShE.lit _) fun _ => ?_
    refine ShE.bind ShE.osp fun _ => ?_
    refine ShE.bind (ShE.ltrShorthand (ShE.expr fuel)) fun e => ?_
    exact ShE.bind ShE.osp fun _ => ShE.bind (ShE.lit _) fun _ => ShE.pure rfl

theorem ShE.eol : ShE pre id eol eol :=
  ShE.orElse (ShE.term sh_eolBreak) (ShE.bind (ShE.lift Sh.ohsp) fun _ => ShE.eof)

theorem ShE.outputList : ShE pre (List.map (shiftString pre.length)) outputList outputList := by
  unfold ParserE.outputList
  refine ShE.bind (ShE.string false) fun first => ?_
  refine ShE.bind (ShE.many (ShE.bind ShE.ohsp fun _ => ShE.bind (ShE.lit _) fun _ => ShE.bind ShE.ohsp fun _ =>
    ShE.string false)) fun rest => ?_
  exact ShE.pure rfl

theorem ShE.stmt : ShE pre (shiftStmt pre.length) stmt stmt := by
  unfold ParserE.stmt
  refine ShE.bind (ShE.opt (g := fun x : List AString × Bool => (x.1.map (shiftString pre.length), x.2)) ?_)
    fun target => ?_
  · refine ShE.bind ShE.outputList fun outputs => ?_
    refine ShE.bind ShE.ohsp fun _ => ?_
    refine ShE.bind ShE.assign fun named => ?_
    exact ShE.bind ShE.ohsp fun _ => ShE.pure rfl
  refine ShE.bind ShE.remaining fun fuel => ?_
  refine ShE.bind (ShE.ltrShorthand (ShE.expr _)) fun e => ?_
  refine ShE.bind ShE.eol fun _ => ShE.pure ?_
  cases target <;> rfl

/-- `recipe` after its leading `sp?` -/
def recipeBody : PE (List AStmt) := do
  let first ← stmt
  let rest ← many stmt
  eof
  pure (first :: rest)

theorem recipe_eq_osp_body : recipe = (do osp; recipeBody) := rfl

theorem ShE.recipeBody : ShE pre (List.map (shiftStmt pre.length)) recipeBody recipeBody := by
  unfold ParserE.recipeBody
  refine ShE.bind ShE.stmt fun first => ?_
  refine ShE.bind (ShE.many ShE.stmt) fun rest => ?_
  exact ShE.bind ShE.eof fun _ => ShE.pure rfl

/-- shift invariance of the whole grammar (for a padding without word characters), from any position -/
theorem ShE.recipe : ShE pre (List.map (shiftStmt pre.length)) recipe recipe :=
  ShE.bind ShE.osp fun _ => ShE.recipeBody

theorem Good.recipeBody : Good recipeBody := by
  unfold ParserE.recipeBody
  refine Good.bind Good.stmt fun first => ?_
  refine Good.bind (Good.many Good.stmt) fun rest => ?_
  exact Good.bind Good.eof fun _ => Good.pure _

end ParserE

/-- the result of parsing, with the offsets — that of a syntax error included — moved -/
def shiftParseE (k : Nat) : ParseResultE → ParseResultE
  | .ok stmts => .ok (stmts.map (shiftStmt k))
  | .syntaxError off => .syntaxError (off + k)

theorem getD_fmax_zero {a : ParserE.Far} (ha : a = none ∨ a = some 0) (f : Nat) :
    (ParserE.fmax a (some f)).getD 0 = f := by
  rcases ha with rfl | rfl
  · rfl
  · simp [ParserE.fmax]

/-- parsing a text padded with white space gives the same result with all offsets, that of a syntax error included,
    moved by the length of the padding -/
theorem parseE_pad_space (pre s : Str) (hsp : ∀ c ∈ pre, isReSpace c = true) :
    parseE (pre ++ s) = shiftParseE pre.length (parseE s) := by
  unfold parseE
  rw [ParserE.recipe_eq_osp_body, ParserE.bind_apply, ParserE.bind_apply]
  have h1 : ParserE.osp (pre ++ s).toArray ⟨0, false⟩ =
      (some ((), Parser.shSt pre.length ⟨Parser.spanEnd isReSpace s.toArray 0, false⟩),
        if Parser.spanEnd isReSpace s.toArray 0 + pre.length = 0 then some 0 else none) := by
    simp only [ParserE.osp, ParserE.skipManyOpt, Parser.spanEnd_zero_pad _ _ _ hsp]; rfl
  have h2 : ParserE.osp s.toArray ⟨0, false⟩ =
      (some ((), ⟨Parser.spanEnd isReSpace s.toArray 0, false⟩),
        if Parser.spanEnd isReSpace s.toArray 0 = 0 then some 0 else none) := rfl
  rw [h1, h2]
  simp only
  rw [ParserE.ShE.recipeBody (Parser.nonWord_of_space hsp) s _]
  have hg := ParserE.Good.recipeBody s.toArray ⟨Parser.spanEnd isReSpace s.toArray 0, false⟩
    (Parser.PosBound.spanEnd_go_le _ _ _ (Nat.zero_le _))
  cases hB : ParserE.recipeBody s.toArray ⟨Parser.spanEnd isReSpace s.toArray 0, false⟩ with
  | mk r fb =>
    rw [hB] at hg
    cases r with
    | some x => rfl
    | none =>
      cases fb with
      | none => exact absurd rfl (hg.2.2 rfl)
      | some f =>
        simp only [ParserE.shOut, ParserE.shFar, Option.map_none, Option.map_some, shiftParseE]
        rw [getD_fmax_zero (by split <;> simp), getD_fmax_zero (by split <;> simp)]

/-- **shift invariance of `parseE`**: `k` newlines in front of the text move every offset — that of a syntax error
    included — by `k` and change nothing else -/
theorem parseE_pad (k : Nat) (s : Str) :
    parseE (List.replicate k '\n' ++ s) = shiftParseE k (parseE s) := by
  have h := parseE_pad_space (List.replicate k '\n') s (by
    intro c hc; rw [List.eq_of_mem_replicate hc]; decide)
  rw [List.length_replicate] at h
  exact h

end RG
