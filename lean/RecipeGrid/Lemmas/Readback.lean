import RecipeGrid.Lemmas.Table
/-! Helpers for C02.6 (read-back): a top-down description of the visible cells of a layout, and its injectivity.

    * `VCell` / `PCell.vis`: what the grid shows of a cell (everything except the path).
    * `NF`: normal forms of recipe trees (an `outlined` flag on leaves and steps, titles).
    * `cellsOf n r0 W B`: the visible cells of `n` drawn from row `r0`, widened to `W` columns, in a context that
      emphasises the sides of the region as `B` says.
    * `layout_vis`: the visible cells of `layout t` are `rootCells (nfRoot t)`.
    * `rootCells_inj`, `nfRoot_inj`: `rootCells` is injective (as a set of cells).
    * `rbRoot`, `rbRoot_layout`: an explicit read-back of the normal form from the cells, listed in any order.
    Labels are not part of a `VCell`; `Props/C02b.lean` adds them on top (`visL`). -/
namespace RG

/-- what the grid shows of a cell: position, extent, kind and borders; not the path -/
structure VCell where
  row : Nat
  col : Nat
  rows : Nat
  cols : Nat
  kind : CellKind
  bl : Border
  br : Border
  bt : Border
  bb : Border
deriving DecidableEq, Repr

def PCell.vis (x : PCell) : VCell := ⟨x.row, x.col, x.rows, x.cols, x.kind, x.bl, x.br, x.bt, x.bb⟩

/-- the borders a context puts on the four sides of a region -/
structure Ctx where
  bl : Border
  br : Border
  bt : Border
  bb : Border
deriving DecidableEq, Repr

def Ctx.top : Ctx := ⟨.subRecipe, .subRecipe, .subRecipe, .subRecipe⟩
def Ctx.bot : Ctx := ⟨.normal, .normal, .normal, .normal⟩

/-- normal forms: `o` = has its own outline, `r` = is a reference -/
inductive NF where
  | leaf (o : Bool) (r : Bool)
  | step (o : Bool) (ins : List NF)
  | titled (e : NF)
deriving Repr

def lk (r : Bool) : CellKind := if r then .reference else .ingredient

mutual
def NF.height : NF → Nat
  | .leaf _ _ => 1
  | .step _ ins => heights ins
  | .titled e => 1 + e.height
def heights : List NF → Nat
  | [] => 0
  | n :: ns => n.height + heights ns
end

mutual
def NF.width : NF → Nat
  | .leaf _ _ => 1
  | .step _ ins => widths ins + 1
  | .titled e => e.width
def widths : List NF → Nat
  | [] => 0
  | n :: ns => max n.width (widths ns)
end

mutual
/-- every step has an input -/
def NF.good : NF → Bool
  | .leaf _ _ => true
  | .step _ ins => !ins.isEmpty && goods ins
  | .titled e => e.good
def goods : List NF → Bool
  | [] => true
  | n :: ns => n.good && goods ns
end

def own (o : Bool) (B : Ctx) : Ctx := if o then .top else B

mutual
def cellsOf : NF → Nat → Nat → Ctx → List VCell
  | .leaf o r, r0, W, B => [⟨r0, 0, 1, W, lk r, (own o B).bl, (own o B).br, (own o B).bt, (own o B).bb⟩]
  | .step o ins, r0, W, B =>
    stackCells ins r0 (widths ins) (own o B).bl (own o B).bt (own o B).bb ++
      [⟨r0, widths ins, heights ins, W - widths ins, .step, .normal, (own o B).br, (own o B).bt, (own o B).bb⟩]
  | .titled e, r0, W, _ =>
    ⟨r0, 0, 1, W, .header, .subRecipe, .subRecipe, .subRecipe, .normal⟩ ::
      cellsOf e (r0 + 1) W ⟨.subRecipe, .subRecipe, .normal, .subRecipe⟩
def stackCells : List NF → Nat → Nat → Border → Border → Border → List VCell
  | [], _, _, _, _, _ => []
  | n :: ns, r0, w, bl, bt, bb =>
    cellsOf n r0 w ⟨bl, .normal, bt, if ns.isEmpty then bb else .normal⟩ ++
      stackCells ns (r0 + n.height) w bl .normal bb
end

-- ---------------------------------------------------------------- sizes
mutual
theorem NF.height_pos : ∀ n : NF, n.good = true → 0 < n.height
  | .leaf _ _, _ => by simp [NF.height]
  | .step _ ins, h => by
    simp only [NF.good, Bool.and_eq_true, Bool.not_eq_true', List.isEmpty_eq_false_iff] at h
    simp only [NF.height]
    exact heights_pos ins h.1 h.2
  | .titled e, _ => by simp only [NF.height]; omega
theorem heights_pos : ∀ ns : List NF, ns ≠ [] → goods ns = true → 0 < heights ns
  | [], h, _ => absurd rfl h
  | n :: ns, _, h => by
    simp only [goods, Bool.and_eq_true] at h
    have := NF.height_pos n h.1
    simp only [heights]; omega
end

theorem NF.width_pos : ∀ n : NF, 0 < n.width
  | .leaf _ _ => by simp [NF.width]
  | .step _ ins => by simp [NF.width]
  | .titled e => by simp only [NF.width]; exact NF.width_pos e

-- ---------------------------------------------------------------- bounds
/-- `x` lies in rows `[r0, r0 + h)` and ends at or before column `W` -/
def VCell.within (x : VCell) (r0 h W : Nat) : Prop :=
  0 < x.rows ∧ 0 < x.cols ∧ r0 ≤ x.row ∧ x.row + x.rows ≤ r0 + h ∧ x.col + x.cols ≤ W

mutual
theorem cellsOf_within : ∀ (n : NF) (r0 W : Nat) (B : Ctx), n.good = true → n.width ≤ W →
    ∀ x ∈ cellsOf n r0 W B, x.within r0 n.height W
  | .leaf o r, r0, W, B, _, hw, x, hx => by
    simp only [NF.width] at hw
    simp only [cellsOf, List.mem_singleton] at hx
    subst hx
    simp only [VCell.within, NF.height]; omega
  | .step o ins, r0, W, B, hg, hw, x, hx => by
    simp only [NF.good, Bool.and_eq_true, Bool.not_eq_true', List.isEmpty_eq_false_iff] at hg
    simp only [NF.width] at hw
    simp only [cellsOf, List.mem_append, List.mem_singleton] at hx
    have hp := heights_pos ins hg.1 hg.2
    rcases hx with hx | hx
    · have := stackCells_within ins r0 (widths ins) _ _ _ hg.2 (Nat.le_refl _) x hx
      simp only [VCell.within, NF.height] at this ⊢; omega
    · subst hx
      simp only [VCell.within, NF.height]; omega
  | .titled e, r0, W, B, hg, hw, x, hx => by
    simp only [NF.good] at hg
    simp only [NF.width] at hw
    simp only [cellsOf, List.mem_cons] at hx
    rcases hx with hx | hx
    · subst hx
      have := NF.width_pos e
      simp only [VCell.within, NF.height]; omega
    · have := cellsOf_within e (r0 + 1) W _ hg hw x hx
      simp only [VCell.within, NF.height] at this ⊢; omega
theorem stackCells_within : ∀ (ns : List NF) (r0 w : Nat) (bl bt bb : Border), goods ns = true → widths ns ≤ w →
    ∀ x ∈ stackCells ns r0 w bl bt bb, x.within r0 (heights ns) w
  | [], _, _, _, _, _, _, _, x, hx => by simp [stackCells] at hx
  | n :: ns, r0, w, bl, bt, bb, hg, hw, x, hx => by
    simp only [goods, Bool.and_eq_true] at hg
    simp only [widths] at hw
    simp only [stackCells, List.mem_append] at hx
    rcases hx with hx | hx
    · have := cellsOf_within n r0 w _ hg.1 (by omega) x hx
      simp only [VCell.within, heights] at this ⊢; omega
    · have := stackCells_within ns (r0 + n.height) w _ _ _ hg.2 (by omega) x hx
      simp only [VCell.within, heights] at this ⊢; omega
end

theorem widths_pos : ∀ ns : List NF, ns ≠ [] → 0 < widths ns
  | [], h => absurd rfl h
  | n :: ns, _ => by have := NF.width_pos n; simp only [widths]; omega

-- ---------------------------------------------------------------- the table operations on visible cells
def vpad (w0 w : Nat) (x : VCell) : VCell := if x.col + x.cols = w0 then { x with cols := w - x.col } else x
def vdown (d : Nat) (x : VCell) : VCell := { x with row := x.row + d }
def vborder (h w : Nat) (b : Border) (x : VCell) : VCell :=
  { x with
    bl := if x.col = 0 then b else x.bl
    br := if x.col + x.cols = w then b else x.br
    bt := if x.row = 0 then b else x.bt
    bb := if x.row + x.rows = h then b else x.bb }

theorem vis_padCell (w0 w : Nat) (x : PCell) : (padCell w0 w x).vis = vpad w0 w x.vis := by
  unfold padCell vpad
  by_cases h : x.col + x.cols = w0
  · simp [h, PCell.vis]
  · simp [h, PCell.vis]
theorem vis_shiftDown (d : Nat) (x : PCell) : (shiftDown d x).vis = vdown d x.vis := rfl
theorem vis_borderCell (h w : Nat) (b : Border) (x : PCell) : (borderCell h w b x).vis = vborder h w b x.vis := rfl

theorem map_vis_map (f : PCell → PCell) (g : VCell → VCell) (hfg : ∀ x, (f x).vis = g x.vis) (cs : List PCell) :
    (cs.map f).map PCell.vis = (cs.map PCell.vis).map g := by
  simp [List.map_map, Function.comp_def, hfg]

mutual
theorem cellsOf_down : ∀ (n : NF) (r0 W : Nat) (B : Ctx) (d : Nat),
    (cellsOf n r0 W B).map (vdown d) = cellsOf n (r0 + d) W B
  | .leaf o r, r0, W, B, d => by simp [cellsOf, vdown]
  | .step o ins, r0, W, B, d => by
    simp only [cellsOf, List.map_append, stackCells_down ins, List.map_cons, List.map_nil, vdown]
  | .titled e, r0, W, B, d => by
    simp only [cellsOf, List.map_cons, cellsOf_down e, vdown, Nat.add_right_comm]
theorem stackCells_down : ∀ (ns : List NF) (r0 w : Nat) (bl bt bb : Border) (d : Nat),
    (stackCells ns r0 w bl bt bb).map (vdown d) = stackCells ns (r0 + d) w bl bt bb
  | [], _, _, _, _, _, _ => by simp [stackCells]
  | n :: ns, r0, w, bl, bt, bb, d => by
    simp only [stackCells, List.map_append, cellsOf_down n, stackCells_down ns, Nat.add_right_comm]
end

theorem vpad_of_lt (w0 w : Nat) (x : VCell) (h : x.col + x.cols < w0) : vpad w0 w x = x := by
  unfold vpad; rw [if_neg (by omega)]

theorem cellsOf_pad : ∀ (n : NF) (r0 w W : Nat) (B : Ctx), n.good = true → n.width ≤ w → w ≤ W →
    (cellsOf n r0 w B).map (vpad w W) = cellsOf n r0 W B
  | .leaf o r, r0, w, W, B, _, _, _ => by simp [cellsOf, vpad]
  | .step o ins, r0, w, W, B, hg, hw, hW => by
    simp only [NF.good, Bool.and_eq_true, Bool.not_eq_true', List.isEmpty_eq_false_iff] at hg
    simp only [NF.width] at hw
    simp only [cellsOf, List.map_append, List.map_cons, List.map_nil]
    congr 1
    · conv => rhs; rw [← List.map_id (stackCells ins r0 (widths ins) _ _ _)]
      apply List.map_congr_left
      intro x hx
      have := stackCells_within ins r0 (widths ins) _ _ _ hg.2 (Nat.le_refl _) x hx
      simp only [VCell.within] at this
      exact vpad_of_lt _ _ _ (by omega)
    · simp only [vpad]
      rw [if_pos (by omega)]
  | .titled e, r0, w, W, B, hg, hw, hW => by
    simp only [NF.good] at hg
    simp only [NF.width] at hw
    simp only [cellsOf, List.map_cons, cellsOf_pad e (r0 + 1) w W _ hg hw hW]
    simp [vpad]

/-- the context after an enclosing `setBorder` of an `H × W'` table -/
def Ctx.bordered (B : Ctx) (r0 h W W' H : Nat) : Ctx :=
  ⟨.subRecipe, if W = W' then .subRecipe else B.br, if r0 = 0 then .subRecipe else B.bt,
   if r0 + h = H then .subRecipe else B.bb⟩

mutual
theorem cellsOf_border : ∀ (n : NF) (r0 W W' H : Nat) (B : Ctx), n.good = true → n.width ≤ W → W ≤ W' →
    r0 + n.height ≤ H →
    (cellsOf n r0 W B).map (vborder H W' .subRecipe) = cellsOf n r0 W (B.bordered r0 n.height W W' H)
  | .leaf o r, r0, W, W', H, B, _, _, _, _ => by
    cases o <;> simp [cellsOf, vborder, own, Ctx.bordered, Ctx.top, NF.height] <;> rfl
  | .step o ins, r0, W, W', H, B, hg, hw, hW, hH => by
    simp only [NF.good, Bool.and_eq_true, Bool.not_eq_true', List.isEmpty_eq_false_iff] at hg
    simp only [NF.width] at hw
    simp only [NF.height] at hH
    have hp := widths_pos ins hg.1
    simp only [cellsOf, List.map_append, List.map_cons, List.map_nil,
      stackCells_border ins r0 (widths ins) W' H _ _ _ hg.2 (Nat.le_refl _) (by omega) hH]
    have e1 : widths ins + (W - widths ins) = W := by omega
    have e2 : widths ins ≠ 0 := by omega
    cases o <;> simp [vborder, own, Ctx.bordered, Ctx.top, NF.height, e1, e2] <;> exact ⟨rfl, rfl⟩
  | .titled e, r0, W, W', H, B, hg, hw, hW, hH => by
    simp only [NF.good] at hg
    simp only [NF.width] at hw
    simp only [NF.height] at hH
    have hp := NF.height_pos e hg
    simp only [cellsOf, List.map_cons, cellsOf_border e (r0 + 1) W W' H _ hg hw hW (by omega)]
    have e1 : r0 + 1 + e.height = H ↔ r0 + (1 + e.height) = H := by omega
    have e2 : ¬ r0 + 1 = H := by omega
    simp [vborder, Ctx.bordered, e2]
theorem stackCells_border : ∀ (ns : List NF) (r0 w W' H : Nat) (bl bt bb : Border), goods ns = true →
    widths ns ≤ w → w < W' → r0 + heights ns ≤ H →
    (stackCells ns r0 w bl bt bb).map (vborder H W' .subRecipe) =
      stackCells ns r0 w .subRecipe (if r0 = 0 then .subRecipe else bt)
        (if r0 + heights ns = H then .subRecipe else bb)
  | [], _, _, _, _, _, _, _, _, _, _, _ => by simp [stackCells]
  | n :: ns, r0, w, W', H, bl, bt, bb, hg, hw, hW, hH => by
    simp only [goods, Bool.and_eq_true] at hg
    simp only [widths] at hw
    simp only [heights] at hH
    have hp := NF.height_pos n hg.1
    simp only [stackCells, List.map_append,
      cellsOf_border n r0 w W' H _ hg.1 (by omega) (by omega) (by omega),
      stackCells_border ns (r0 + n.height) w W' H _ _ _ hg.2 (by omega) hW (by omega)]
    have e1 : ¬ r0 + n.height = 0 := by omega
    have e2 : ¬ w = W' := by omega
    have e3 : r0 + n.height + heights ns = H ↔ r0 + (n.height + heights ns) = H := by omega
    congr 1
    · congr 1
      simp only [Ctx.bordered, e2, if_false, heights]
      cases ns with
      | nil => simp [heights]; rfl
      | cons m ms =>
        have hm : 0 < heights (m :: ms) := heights_pos _ (by simp) hg.2
        have : ¬ r0 + n.height = H := by omega
        simp [this]
    · simp only [e1, if_false, heights, e3]; rfl
end

-- ---------------------------------------------------------------- normal form of a tree
/-- give the region its own outline (a title already has one) -/
def NF.mark : NF → NF
  | .leaf _ r => .leaf true r
  | .step _ ins => .step true ins
  | .titled e => .titled e

theorem NF.mark_height (n : NF) : n.mark.height = n.height := by cases n <;> simp [NF.mark, NF.height]
theorem NF.mark_width (n : NF) : n.mark.width = n.width := by cases n <;> simp [NF.mark, NF.width]
theorem NF.mark_good (n : NF) : n.mark.good = n.good := by cases n <;> simp [NF.mark, NF.good]
theorem cellsOf_mark (n : NF) (r0 W : Nat) (B : Ctx) : cellsOf n.mark r0 W B = cellsOf n r0 W .top := by
  cases n with
  | leaf o r => cases o <;> simp [NF.mark, cellsOf, own]
  | step o ins => cases o <;> simp [NF.mark, cellsOf, own]
  | titled e => simp [NF.mark, cellsOf]

mutual
/-- the normal form of a tree in which every sub recipe has one output -/
def nf : Tree → NF
  | .ingredient .. => .leaf false false
  | .reference .. => .leaf false true
  | .step _ ins => .step false (nfs ins)
  | .sub b _ sh => if sh then .titled (nf b) else (nf b).mark
def nfs : List Tree → List NF
  | [] => []
  | t :: ts => nf t :: nfs ts
end

mutual
/-- every sub recipe has exactly one output -/
def single : Tree → Bool
  | .ingredient .. => true
  | .reference .. => true
  | .step _ ins => singles ins
  | .sub b ns _ => decide (ns.length = 1) && single b
def singles : List Tree → Bool
  | [] => true
  | t :: ts => single t && singles ts
end

theorem nfs_eq_nil (ts : List Tree) : nfs ts = [] ↔ ts = [] := by cases ts <;> simp [nfs]

mutual
theorem nf_good : ∀ t : Tree, wf t = true → (nf t).good = true
  | .ingredient .., _ => rfl
  | .reference .., _ => rfl
  | .step _ ins, h => by
    simp only [wf, Bool.and_eq_true, Bool.not_eq_true', List.isEmpty_eq_false_iff] at h
    simp only [nf, NF.good, Bool.and_eq_true, Bool.not_eq_true', List.isEmpty_eq_false_iff]
    exact ⟨fun e => h.1 ((nfs_eq_nil ins).1 e), nfs_good ins h.2⟩
  | .sub b _ sh, h => by
    simp only [wf] at h
    have := nf_good b h
    cases sh <;> simp [nf, NF.good, NF.mark_good, this]
theorem nfs_good : ∀ ts : List Tree, wfList ts = true → goods (nfs ts) = true
  | [], _ => rfl
  | t :: ts, h => by
    simp only [wfList, Bool.and_eq_true] at h
    simp only [nfs, goods, Bool.and_eq_true]
    exact ⟨nf_good t h.1, nfs_good ts h.2⟩
end

theorem maxWidth_cons (T : Tbl) (Ts : List Tbl) : maxWidth (T :: Ts) = max T.w (maxWidth Ts) := rfl

mutual
/-- the visible cells of a sub-table, top-down -/
theorem layoutAt_vis : ∀ (t : Tree) (p : List Nat), wf t = true → single t = true →
    (layoutAt p false t).h = (nf t).height ∧ (layoutAt p false t).w = (nf t).width ∧
    (layoutAt p false t).cells.map PCell.vis = cellsOf (nf t) 0 (nf t).width .bot
  | .ingredient .., p, _, _ => by
    simp [layoutAt, nf, NF.height, NF.width, cellsOf, PCell.vis, own, Ctx.bot, lk]
  | .reference .., p, _, _ => by
    simp [layoutAt, nf, NF.height, NF.width, cellsOf, PCell.vis, own, Ctx.bot, lk]
  | .step d ins, p, hw, hs => by
    simp only [wf, Bool.and_eq_true, Bool.not_eq_true', List.isEmpty_eq_false_iff] at hw
    simp only [single] at hs
    obtain ⟨h1, h2⟩ := layoutInputs_vis ins p 0 (widths (nfs ins)) hw.2 hs
    obtain ⟨h3, h4⟩ := h2 (Nat.le_refl _)
    have hwd : (vstack ((layoutInputs p 0 ins).map (pad · (widths (nfs ins))))).w = widths (nfs ins) :=
      vstack_pad_w _ _ (layoutInputs_ne p 0 ins hw.1) (by rw [← h1]; exact maxWidth_ge _)
    simp only [layoutAt, Bool.false_eq_true, if_false, h1, hcat, nf, NF.height, NF.width, cellsOf, h3, hwd,
      List.map_append, h4, List.map_cons, List.map_nil, own, Ctx.bot]
    refine ⟨trivial, trivial, ?_⟩
    simp [PCell.vis, shiftRight]
  | .sub b ns sh, p, hw, hs => by
    simp only [wf] at hw
    simp only [single, Bool.and_eq_true, decide_eq_true_eq] at hs
    obtain ⟨h1, h2, h3⟩ := layoutAt_vis b (p ++ [0]) hw hs.2
    have hg := nf_good b hw
    have hp := NF.height_pos _ hg
    cases sh with
    | true =>
      simp only [layoutAt, hs.1, if_true, setBorder, vcat, nf, NF.height, NF.width, h1, h2, cellsOf,
        List.cons_append, List.nil_append, List.map_cons]
      refine ⟨trivial, trivial, ?_⟩
      rw [map_vis_map _ _ (vis_borderCell _ _ _),
        map_vis_map _ _ (vis_shiftDown _), h3, cellsOf_down,
        cellsOf_border _ _ _ _ _ _ hg (Nat.le_refl _) (Nat.le_refl _) (by omega)]
      have e2 : ¬ (nf b).height = 0 := by omega
      simp [PCell.vis, borderCell, Ctx.bordered, Ctx.bot, e2]
    | false =>
      simp only [layoutAt, hs.1, if_true, Bool.false_eq_true, if_false, setBorder, nf, NF.mark_height,
        NF.mark_width, h1, h2, cellsOf_mark]
      refine ⟨trivial, trivial, ?_⟩
      rw [map_vis_map _ _ (vis_borderCell _ _ _), h3,
        cellsOf_border _ _ _ _ _ _ hg (Nat.le_refl _) (Nat.le_refl _) (by omega)]
      simp [Ctx.bordered, Ctx.top]
theorem layoutInputs_vis : ∀ (ts : List Tree) (p : List Nat) (i w : Nat), wfList ts = true → singles ts = true →
    maxWidth (layoutInputs p i ts) = widths (nfs ts) ∧
    (widths (nfs ts) ≤ w →
      (vstack ((layoutInputs p i ts).map (pad · w))).h = heights (nfs ts) ∧
      (vstack ((layoutInputs p i ts).map (pad · w))).cells.map PCell.vis =
        stackCells (nfs ts) 0 w .normal .normal .normal)
  | [], p, i, w, _, _ => by simp [layoutInputs, maxWidth, nfs, widths, heights, vstack, stackCells]
  | t :: ts, p, i, w, hw, hs => by
    simp only [wfList, Bool.and_eq_true] at hw
    simp only [singles, Bool.and_eq_true] at hs
    obtain ⟨h1, h2, h3⟩ := layoutAt_vis t (p ++ [i]) hw.1 hs.1
    obtain ⟨h4, h5⟩ := layoutInputs_vis ts p (i + 1) w hw.2 hs.2
    simp only [layoutInputs, maxWidth_cons, nfs, widths, h2, h4, List.map_cons, vstack_cons, vcat, pad_h, h1,
      heights, stackCells, List.map_append]
    refine ⟨trivial, fun hle => ?_⟩
    obtain ⟨h6, h7⟩ := h5 (by omega)
    refine ⟨by rw [h6], ?_⟩
    rw [pad_cells _ _ (by rw [h2]; omega), map_vis_map _ _ (vis_padCell _ _), h3, h2,
      cellsOf_pad _ _ _ _ _ (nf_good t hw.1) (Nat.le_refl _) (by omega),
      map_vis_map _ _ (vis_shiftDown _), h7, stackCells_down]
    simp [Ctx.bot]
end

-- ---------------------------------------------------------------- the whole table
/-- the outputs column of a root with several outputs -/
def outCell (h w : Nat) : VCell := ⟨0, w, h, 1, .outputs, .normal, .none, .none, .none⟩
/-- the visible cells of a whole table: `m` = there is an outputs column -/
def rootCells (m : Bool) (n : NF) : List VCell :=
  cellsOf n 0 n.width .bot ++ if m then [outCell n.height n.width] else []

/-- the normal form of a root tree (only the root may have several outputs) -/
def nfRoot : Tree → Bool × NF
  | .sub b ns sh => if ns.length = 1 then (false, nf (.sub b ns sh)) else (true, (nf b).mark)
  | t => (false, (nf t).mark)

/-- below the root every sub recipe has exactly one output -/
def singleRoot : Tree → Bool
  | .sub b _ _ => single b
  | t => single t

theorem layoutAt_true_vis (t : Tree) (p : List Nat) (hw : wf t = true) (hs : single t = true)
    (ht : layoutAt p true t = setBorder (layoutAt p false t) .subRecipe) :
    (layoutAt p true t).cells.map PCell.vis = cellsOf (nf t) 0 (nf t).width .top := by
  obtain ⟨h1, h2, h3⟩ := layoutAt_vis t p hw hs
  have hg := nf_good t hw
  rw [ht]
  simp only [setBorder]
  rw [map_vis_map _ _ (vis_borderCell _ _ _), h3, h1, h2,
    cellsOf_border _ _ _ _ _ _ hg (Nat.le_refl _) (Nat.le_refl _) (by omega)]
  simp [Ctx.bordered, Ctx.top]

/-- the visible cells of the whole table, top-down -/
theorem layout_vis (t : Tree) (hw : wf t = true) (hs : singleRoot t = true) :
    (layout t).cells.map PCell.vis = rootCells (nfRoot t).1 (nfRoot t).2 := by
  cases t with
  | ingredient d q =>
    simp only [layout, nfRoot, rootCells, NF.mark_width, cellsOf_mark, Bool.false_eq_true, if_false,
      List.append_nil]
    exact layoutAt_true_vis _ [] hw hs (by simp [layoutAt])
  | reference s i a =>
    simp only [layout, nfRoot, rootCells, NF.mark_width, cellsOf_mark, Bool.false_eq_true, if_false,
      List.append_nil]
    exact layoutAt_true_vis _ [] hw hs (by simp [layoutAt])
  | step d ins =>
    simp only [layout, nfRoot, rootCells, NF.mark_width, cellsOf_mark, Bool.false_eq_true, if_false,
      List.append_nil]
    exact layoutAt_true_vis _ [] hw hs (by simp [layoutAt])
  | sub b ns sh =>
    simp only [singleRoot] at hs
    by_cases h1 : ns.length = 1
    · have hs' : single (.sub b ns sh) = true := by simp [single, h1, hs]
      simp only [layout, nfRoot, h1, if_true, rootCells, Bool.false_eq_true, if_false, List.append_nil]
      rw [show layoutAt [] true (.sub b ns sh) = layoutAt [] false (.sub b ns sh) by simp only [layoutAt]]
      exact (layoutAt_vis _ [] hw hs').2.2
    · simp only [wf] at hw
      obtain ⟨e1, e2, e3⟩ := layoutAt_vis b ([] ++ [0]) hw hs
      have hg := nf_good b hw
      simp only [layout, nfRoot, h1, if_false, rootCells, if_true, NF.mark_width, NF.mark_height, cellsOf_mark,
        layoutAt, hcat, setBorder, List.map_append, List.map_cons, List.map_nil, e1, e2]
      rw [map_vis_map _ _ (vis_borderCell _ _ _), e3,
        cellsOf_border _ _ _ _ _ _ hg (Nat.le_refl _) (Nat.le_refl _) (by omega)]
      simp [Ctx.bordered, Ctx.top, outCell, PCell.vis, shiftRight]

-- ---------------------------------------------------------------- injectivity
theorem lk_ne_step (r : Bool) : lk r ≠ .step := by cases r <;> simp [lk]
theorem lk_ne_header (r : Bool) : lk r ≠ .header := by cases r <;> simp [lk]
theorem lk_ne_outputs (r : Bool) : lk r ≠ .outputs := by cases r <;> simp [lk]
theorem lk_inj {r1 r2 : Bool} (h : lk r1 = lk r2) : r1 = r2 := by cases r1 <;> cases r2 <;> simp [lk] at h ⊢

/-- the cell in the top row of the region that reaches its right edge -/
def tr : NF → Nat → Nat → Ctx → VCell
  | .leaf o r, r0, W, B => ⟨r0, 0, 1, W, lk r, (own o B).bl, (own o B).br, (own o B).bt, (own o B).bb⟩
  | .step o ins, r0, W, B =>
    ⟨r0, widths ins, heights ins, W - widths ins, .step, .normal, (own o B).br, (own o B).bt, (own o B).bb⟩
  | .titled _, r0, W, _ => ⟨r0, 0, 1, W, .header, .subRecipe, .subRecipe, .subRecipe, .normal⟩

theorem tr_mem (n : NF) (r0 W : Nat) (B : Ctx) : tr n r0 W B ∈ cellsOf n r0 W B := by
  cases n <;> simp [tr, cellsOf]
theorem tr_row (n : NF) (r0 W : Nat) (B : Ctx) : (tr n r0 W B).row = r0 := by cases n <;> rfl
theorem tr_right (n : NF) (r0 W : Nat) (B : Ctx) (hw : n.width ≤ W) :
    (tr n r0 W B).col + (tr n r0 W B).cols = W := by
  cases n with
  | leaf o r => simp [tr]
  | step o ins => simp only [NF.width] at hw; simp only [tr]; omega
  | titled e => simp [tr]

theorem tr_uniq (n : NF) (r0 W : Nat) (B : Ctx) (hg : n.good = true) (hw : n.width ≤ W) (x : VCell)
    (hx : x ∈ cellsOf n r0 W B) (h1 : x.row = r0) (h2 : x.col + x.cols = W) : x = tr n r0 W B := by
  cases n with
  | leaf o r => simpa [cellsOf, tr] using hx
  | step o ins =>
    simp only [NF.good, Bool.and_eq_true, Bool.not_eq_true', List.isEmpty_eq_false_iff] at hg
    simp only [NF.width] at hw
    simp only [cellsOf, List.mem_append, List.mem_singleton] at hx
    rcases hx with hx | hx
    · have := stackCells_within ins r0 (widths ins) _ _ _ hg.2 (Nat.le_refl _) x hx
      simp only [VCell.within] at this; omega
    · exact hx
  | titled e =>
    simp only [NF.good] at hg
    simp only [NF.width] at hw
    simp only [cellsOf, List.mem_cons] at hx
    rcases hx with hx | hx
    · exact hx
    · have := cellsOf_within e (r0 + 1) W _ hg hw x hx
      simp only [VCell.within] at this; omega

/-- in each row at most one cell reaches the right edge -/
theorem cellsOf_uniq : ∀ (n : NF) (r0 W : Nat) (B : Ctx), n.good = true → n.width ≤ W →
    ∀ x ∈ cellsOf n r0 W B, ∀ y ∈ cellsOf n r0 W B, x.row = y.row → x.col + x.cols = W → y.col + y.cols = W → x = y
  | .leaf o r, r0, W, B, _, _, x, hx, y, hy, _, _, _ => by
    simp only [cellsOf, List.mem_singleton] at hx hy; rw [hx, hy]
  | .step o ins, r0, W, B, hg, hw, x, hx, y, hy, _, h2, h3 => by
    simp only [NF.good, Bool.and_eq_true, Bool.not_eq_true', List.isEmpty_eq_false_iff] at hg
    simp only [NF.width] at hw
    simp only [cellsOf, List.mem_append, List.mem_singleton] at hx hy
    rcases hx with hx | hx
    · have := stackCells_within ins r0 (widths ins) _ _ _ hg.2 (Nat.le_refl _) x hx
      simp only [VCell.within] at this; omega
    · rcases hy with hy | hy
      · have := stackCells_within ins r0 (widths ins) _ _ _ hg.2 (Nat.le_refl _) y hy
        simp only [VCell.within] at this; omega
      · rw [hx, hy]
  | .titled e, r0, W, B, hg, hw, x, hx, y, hy, h1, h2, h3 => by
    simp only [NF.good] at hg
    simp only [NF.width] at hw
    simp only [cellsOf, List.mem_cons] at hx hy
    rcases hx with hx | hx <;> rcases hy with hy | hy
    · rw [hx, hy]
    · have := cellsOf_within e (r0 + 1) W _ hg hw y hy
      simp only [VCell.within] at this; subst hx; simp only at h1; omega
    · have := cellsOf_within e (r0 + 1) W _ hg hw x hx
      simp only [VCell.within] at this; subst hy; simp only at h1; omega
    · exact cellsOf_uniq e (r0 + 1) W _ hg hw x hx y hy h1 h2 h3

theorem stackCells_uniq : ∀ (ns : List NF) (r0 w : Nat) (bl bt bb : Border), goods ns = true → widths ns ≤ w →
    ∀ x ∈ stackCells ns r0 w bl bt bb, ∀ y ∈ stackCells ns r0 w bl bt bb,
      x.row = y.row → x.col + x.cols = w → y.col + y.cols = w → x = y
  | [], _, _, _, _, _, _, _, x, hx, _, _, _, _, _ => by simp [stackCells] at hx
  | n :: ns, r0, w, bl, bt, bb, hg, hw, x, hx, y, hy, h1, h2, h3 => by
    simp only [goods, Bool.and_eq_true] at hg
    simp only [widths] at hw
    simp only [stackCells, List.mem_append] at hx hy
    rcases hx with hx | hx <;> rcases hy with hy | hy
    · exact cellsOf_uniq n r0 w _ hg.1 (by omega) x hx y hy h1 h2 h3
    · have a := cellsOf_within n r0 w _ hg.1 (by omega) x hx
      have b := stackCells_within ns (r0 + n.height) w _ _ _ hg.2 (by omega) y hy
      simp only [VCell.within] at a b; omega
    · have a := cellsOf_within n r0 w _ hg.1 (by omega) y hy
      have b := stackCells_within ns (r0 + n.height) w _ _ _ hg.2 (by omega) x hx
      simp only [VCell.within] at a b; omega
    · exact stackCells_uniq ns (r0 + n.height) w _ _ _ hg.2 (by omega) x hx y hy h1 h2 h3

/-- the height of a region is determined by the cells around it -/
theorem height_determined : ∀ (n1 n2 : NF) (r0 w : Nat) (B1 B2 : Ctx) (S : VCell → Prop),
    n1.good = true → n2.good = true → n1.width ≤ w → n2.width ≤ w →
    (∀ x ∈ cellsOf n1 r0 w B1, S x) → (∀ x ∈ cellsOf n2 r0 w B2, S x) →
    (∀ x y, S x → S y → x.row = y.row → x.col + x.cols = w → y.col + y.cols = w → x = y) →
    n1.height = n2.height := by
  intro n1 n2 r0 w B1 B2 S g1 g2 w1 w2 s1 s2 hS
  have e : tr n1 r0 w B1 = tr n2 r0 w B2 :=
    hS _ _ (s1 _ (tr_mem ..)) (s2 _ (tr_mem ..)) (by rw [tr_row, tr_row]) (tr_right _ _ _ _ w1) (tr_right _ _ _ _ w2)
  match n1, n2, g1, g2, w1, w2, s1, s2, e with
  | .leaf _ _, .leaf _ _, _, _, _, _, _, _, _ => rfl
  | .leaf _ r, .step _ _, _, _, _, _, _, _, e => simp [tr, lk_ne_step] at e
  | .leaf _ r, .titled _, _, _, _, _, _, _, e => simp [tr, lk_ne_header] at e
  | .step _ _, .leaf _ r, _, _, _, _, _, _, e =>
    simp only [tr, VCell.mk.injEq] at e; exact absurd e.2.2.2.2.1.symm (lk_ne_step r)
  | .step _ _, .step _ _, _, _, _, _, _, _, e =>
    simp only [tr, VCell.mk.injEq] at e; simp only [NF.height]; exact e.2.2.1
  | .step _ _, .titled _, _, _, _, _, _, _, e => simp [tr] at e
  | .titled _, .leaf _ r, _, _, _, _, _, _, e =>
    simp only [tr, VCell.mk.injEq] at e; exact absurd e.2.2.2.2.1.symm (lk_ne_header r)
  | .titled _, .step _ _, _, _, _, _, _, _, e => simp [tr] at e
  | .titled e1, .titled e2, g1, g2, w1, w2, s1, s2, _ =>
    simp only [NF.good] at g1 g2
    simp only [NF.width] at w1 w2
    simp only [NF.height]
    rw [height_determined e1 e2 (r0 + 1) w ⟨.subRecipe, .subRecipe, .normal, .subRecipe⟩
      ⟨.subRecipe, .subRecipe, .normal, .subRecipe⟩ S g1 g2 w1 w2
      (fun x hx => s1 x (by simp [cellsOf, hx])) (fun x hx => s2 x (by simp [cellsOf, hx])) hS]

/-- the context leaves the right or the top side of the region plain, so an own outline shows -/
def Ctx.ok (B : Ctx) : Prop := B.br ≠ .subRecipe ∨ B.bt ≠ .subRecipe

theorem own_eq_of {o1 o2 : Bool} {B : Ctx} (hB : B.ok) (h1 : (own o1 B).br = (own o2 B).br)
    (h2 : (own o1 B).bt = (own o2 B).bt) : o1 = o2 := by
  cases o1 <;> cases o2 <;> simp only [own, Ctx.top, if_true, Bool.false_eq_true, if_false] at h1 h2 ⊢
  · rcases hB with hB | hB
    · exact absurd h1 hB
    · exact absurd h2 hB
  · rcases hB with hB | hB
    · exact absurd h1.symm hB
    · exact absurd h2.symm hB

theorem tr_eq_of (n1 n2 : NF) (r0 W : Nat) (B1 B2 : Ctx) (g2 : n2.good = true) (w1 : n1.width ≤ W)
    (w2 : n2.width ≤ W) (h : ∀ x, x ∈ cellsOf n1 r0 W B1 → x ∈ cellsOf n2 r0 W B2) :
    tr n1 r0 W B1 = tr n2 r0 W B2 :=
  tr_uniq n2 r0 W B2 g2 w2 _ (h _ (tr_mem ..)) (tr_row ..) (tr_right _ _ _ _ w1)

theorem iff_strip {α} {A A' P : α → Prop} (h : ∀ x, (A x ∨ P x) ↔ (A' x ∨ P x)) (h1 : ∀ x, A x → ¬ P x)
    (h2 : ∀ x, A' x → ¬ P x) : ∀ x, A x ↔ A' x := by
  intro x
  constructor
  · intro hx
    rcases (h x).1 (Or.inl hx) with h' | h'
    · exact h'
    · exact absurd h' (h1 x hx)
  · intro hx
    rcases (h x).2 (Or.inl hx) with h' | h'
    · exact h'
    · exact absurd h' (h2 x hx)

theorem iff_split {α} {A A' R R' Q : α → Prop} (h : ∀ x, (A x ∨ R x) ↔ (A' x ∨ R' x))
    (hA : ∀ x, A x → Q x) (hA' : ∀ x, A' x → Q x) (hR : ∀ x, R x → ¬ Q x) (hR' : ∀ x, R' x → ¬ Q x) :
    (∀ x, A x ↔ A' x) ∧ (∀ x, R x ↔ R' x) := by
  refine ⟨fun x => ⟨fun hx => ?_, fun hx => ?_⟩, fun x => ⟨fun hx => ?_, fun hx => ?_⟩⟩
  · rcases (h x).1 (Or.inl hx) with h' | h'
    · exact h'
    · exact absurd (hA x hx) (hR' x h')
  · rcases (h x).2 (Or.inl hx) with h' | h'
    · exact h'
    · exact absurd (hA' x hx) (hR x h')
  · rcases (h x).1 (Or.inr hx) with h' | h'
    · exact absurd (hA' x h') (hR x hx)
    · exact h'
  · rcases (h x).2 (Or.inr hx) with h' | h'
    · exact absurd (hA x h') (hR' x hx)
    · exact h'

theorem isEmpty_eq_of_heights (ns1 ns2 : List NF) (g1 : goods ns1 = true) (g2 : goods ns2 = true)
    (h : heights ns1 = heights ns2) : ns1.isEmpty = ns2.isEmpty := by
  cases ns1 with
  | nil =>
    cases ns2 with
    | nil => rfl
    | cons m ms => have := heights_pos (m :: ms) (by simp) g2; simp only [heights] at h this; omega
  | cons n ns =>
    cases ns2 with
    | nil => have := heights_pos (n :: ns) (by simp) g1; simp only [heights] at h this; omega
    | cons m ms => rfl

mutual
/-- the cells of a region determine its normal form -/
theorem cellsOf_inj : ∀ (n1 n2 : NF) (r0 W : Nat) (B : Ctx), n1.good = true → n2.good = true →
    n1.width ≤ W → n2.width ≤ W → B.ok →
    (∀ x, x ∈ cellsOf n1 r0 W B ↔ x ∈ cellsOf n2 r0 W B) → n1 = n2
  | .leaf o1 r1, .leaf o2 r2, r0, W, B, _, g2, w1, w2, hB, h => by
    have e := tr_eq_of _ _ r0 W B B g2 w1 w2 (fun x => (h x).1)
    simp only [tr, VCell.mk.injEq] at e
    obtain ⟨-, -, -, -, ek, -, e2, e3, -⟩ := e
    rw [lk_inj ek, own_eq_of hB e2 e3]
  | .leaf o1 r1, .step o2 ins2, r0, W, B, _, g2, w1, w2, _, h => by
    have e := tr_eq_of _ _ r0 W B B g2 w1 w2 (fun x => (h x).1)
    simp only [tr, VCell.mk.injEq] at e
    exact absurd e.2.2.2.2.1 (lk_ne_step r1)
  | .leaf o1 r1, .titled e2, r0, W, B, _, g2, w1, w2, _, h => by
    have e := tr_eq_of _ _ r0 W B B g2 w1 w2 (fun x => (h x).1)
    simp only [tr, VCell.mk.injEq] at e
    exact absurd e.2.2.2.2.1 (lk_ne_header r1)
  | .step o1 ins1, .leaf o2 r2, r0, W, B, _, g2, w1, w2, _, h => by
    have e := tr_eq_of _ _ r0 W B B g2 w1 w2 (fun x => (h x).1)
    simp only [tr, VCell.mk.injEq] at e
    exact absurd e.2.2.2.2.1.symm (lk_ne_step r2)
  | .step o1 ins1, .titled e2, r0, W, B, _, g2, w1, w2, _, h => by
    have e := tr_eq_of _ _ r0 W B B g2 w1 w2 (fun x => (h x).1)
    simp [tr] at e
  | .titled e1, .leaf o2 r2, r0, W, B, _, g2, w1, w2, _, h => by
    have e := tr_eq_of _ _ r0 W B B g2 w1 w2 (fun x => (h x).1)
    simp only [tr, VCell.mk.injEq] at e
    exact absurd e.2.2.2.2.1.symm (lk_ne_header r2)
  | .titled e1, .step o2 ins2, r0, W, B, _, g2, w1, w2, _, h => by
    have e := tr_eq_of _ _ r0 W B B g2 w1 w2 (fun x => (h x).1)
    simp [tr] at e
  | .step o1 ins1, .step o2 ins2, r0, W, B, g1, g2, w1, w2, hB, h => by
    have e := tr_eq_of _ _ r0 W B B g2 w1 w2 (fun x => (h x).1)
    simp only [tr, VCell.mk.injEq] at e
    obtain ⟨-, ew, eh, -, -, -, e2, e3, -⟩ := e
    have eo := own_eq_of hB e2 e3
    subst eo
    simp only [NF.good, Bool.and_eq_true, Bool.not_eq_true', List.isEmpty_eq_false_iff] at g1 g2
    simp only [NF.width] at w1 w2
    simp only [cellsOf, List.mem_append, List.mem_singleton, ← ew, ← eh] at h
    have hs := iff_strip h
      (fun x hx hc => by
        have := stackCells_within ins1 r0 (widths ins1) _ _ _ g1.2 (Nat.le_refl _) x hx
        simp only [VCell.within, hc] at this; omega)
      (fun x hx hc => by
        have := stackCells_within ins2 r0 (widths ins1) _ _ _ g2.2 (by omega) x hx
        simp only [VCell.within, hc] at this; omega)
    rw [stackCells_inj ins1 ins2 r0 (widths ins1) _ _ _ g1.2 g2.2 (Nat.le_refl _) (by omega) eh hs]
  | .titled e1, .titled e2, r0, W, B, g1, g2, w1, w2, _, h => by
    simp only [NF.good] at g1 g2
    simp only [NF.width] at w1 w2
    simp only [cellsOf, List.mem_cons] at h
    have h' : ∀ x, (x ∈ cellsOf e1 (r0 + 1) W ⟨.subRecipe, .subRecipe, .normal, .subRecipe⟩ ∨
        x = ⟨r0, 0, 1, W, .header, .subRecipe, .subRecipe, .subRecipe, .normal⟩) ↔
        (x ∈ cellsOf e2 (r0 + 1) W ⟨.subRecipe, .subRecipe, .normal, .subRecipe⟩ ∨
        x = ⟨r0, 0, 1, W, .header, .subRecipe, .subRecipe, .subRecipe, .normal⟩) := fun x => by
      rw [Or.comm, h x, Or.comm]
    have hs := iff_strip h'
      (fun x hx hc => by
        have := cellsOf_within e1 (r0 + 1) W _ g1 w1 x hx
        simp only [VCell.within, hc] at this; omega)
      (fun x hx hc => by
        have := cellsOf_within e2 (r0 + 1) W _ g2 w2 x hx
        simp only [VCell.within, hc] at this; omega)
    rw [cellsOf_inj e1 e2 (r0 + 1) W _ g1 g2 w1 w2 (Or.inr (by simp)) hs]
theorem stackCells_inj : ∀ (ns1 ns2 : List NF) (r0 w : Nat) (bl bt bb : Border), goods ns1 = true →
    goods ns2 = true → widths ns1 ≤ w → widths ns2 ≤ w → heights ns1 = heights ns2 →
    (∀ x, x ∈ stackCells ns1 r0 w bl bt bb ↔ x ∈ stackCells ns2 r0 w bl bt bb) → ns1 = ns2
  | [], [], _, _, _, _, _, _, _, _, _, _, _ => rfl
  | [], m :: ms, _, _, _, _, _, _, g2, _, _, eh, _ => by
    have := heights_pos (m :: ms) (by simp) g2; simp only [heights] at eh this; omega
  | n :: ns, [], _, _, _, _, _, g1, _, _, _, eh, _ => by
    have := heights_pos (n :: ns) (by simp) g1; simp only [heights] at eh this; omega
  | n1 :: ns1, n2 :: ns2, r0, w, bl, bt, bb, g1, g2, w1, w2, eh, h => by
    have g1' := g1
    have w1' := w1
    simp only [goods, Bool.and_eq_true] at g1 g2
    simp only [widths] at w1 w2
    simp only [heights] at eh
    have hh : n1.height = n2.height :=
      height_determined n1 n2 r0 w ⟨bl, .normal, bt, if ns1.isEmpty then bb else .normal⟩
        ⟨bl, .normal, bt, if ns2.isEmpty then bb else .normal⟩
        (fun x => x ∈ stackCells (n1 :: ns1) r0 w bl bt bb) g1.1 g2.1 (by omega) (by omega)
        (fun x hx => by simp only [stackCells, List.mem_append]; exact Or.inl hx)
        (fun x hx => (h x).2 (by simp only [stackCells, List.mem_append]; exact Or.inl hx))
        (fun x y hx hy => stackCells_uniq (n1 :: ns1) r0 w bl bt bb g1' w1' x hx y hy)
    have eh' : heights ns1 = heights ns2 := by omega
    have he := isEmpty_eq_of_heights ns1 ns2 g1.2 g2.2 eh'
    simp only [stackCells, List.mem_append, ← hh, ← he] at h
    obtain ⟨ha, hr⟩ := iff_split (Q := fun x => x.row < r0 + n1.height) h
      (fun x hx => by
        have := cellsOf_within n1 r0 w _ g1.1 (by omega) x hx
        simp only [VCell.within] at this; omega)
      (fun x hx => by
        have := cellsOf_within n2 r0 w _ g2.1 (by omega) x hx
        simp only [VCell.within] at this; omega)
      (fun x hx => by
        have := stackCells_within ns1 (r0 + n1.height) w _ _ _ g1.2 (by omega) x hx
        simp only [VCell.within] at this; omega)
      (fun x hx => by
        have := stackCells_within ns2 (r0 + n1.height) w _ _ _ g2.2 (by omega) x hx
        simp only [VCell.within] at this; omega)
    rw [cellsOf_inj n1 n2 r0 w _ g1.1 g2.1 (by omega) (by omega) (Or.inl (by simp)) ha,
      stackCells_inj ns1 ns2 (r0 + n1.height) w _ _ _ g1.2 g2.2 (by omega) (by omega) eh' hr]
end

mutual
theorem cellsOf_kind : ∀ (n : NF) (r0 W : Nat) (B : Ctx), ∀ x ∈ cellsOf n r0 W B, x.kind ≠ .outputs
  | .leaf o r, r0, W, B, x, hx => by
    simp only [cellsOf, List.mem_singleton] at hx; subst hx; exact lk_ne_outputs r
  | .step o ins, r0, W, B, x, hx => by
    simp only [cellsOf, List.mem_append, List.mem_singleton] at hx
    rcases hx with hx | hx
    · exact stackCells_kind ins _ _ _ _ _ x hx
    · subst hx; simp
  | .titled e, r0, W, B, x, hx => by
    simp only [cellsOf, List.mem_cons] at hx
    rcases hx with hx | hx
    · subst hx; simp
    · exact cellsOf_kind e _ _ _ x hx
theorem stackCells_kind : ∀ (ns : List NF) (r0 w : Nat) (bl bt bb : Border),
    ∀ x ∈ stackCells ns r0 w bl bt bb, x.kind ≠ .outputs
  | [], _, _, _, _, _, x, hx => by simp [stackCells] at hx
  | n :: ns, r0, w, bl, bt, bb, x, hx => by
    simp only [stackCells, List.mem_append] at hx
    rcases hx with hx | hx
    · exact cellsOf_kind n _ _ _ x hx
    · exact stackCells_kind ns _ _ _ _ _ x hx
end

theorem Ctx.bot_ok : Ctx.bot.ok := Or.inl (by simp [Ctx.bot])

/-- the cells of a whole table determine its normal form -/
theorem rootCells_inj (m1 m2 : Bool) (n1 n2 : NF) (g1 : n1.good = true) (g2 : n2.good = true)
    (h : ∀ x, x ∈ rootCells m1 n1 ↔ x ∈ rootCells m2 n2) : m1 = m2 ∧ n1 = n2 := by
  simp only [rootCells, List.mem_append] at h
  obtain ⟨ha, hr⟩ := iff_split (Q := fun x => x.kind ≠ .outputs) h
    (fun x hx => cellsOf_kind _ _ _ _ x hx) (fun x hx => cellsOf_kind _ _ _ _ x hx)
    (fun x hx => by cases m1 <;> simp [outCell] at hx; subst hx; simp)
    (fun x hx => by cases m2 <;> simp [outCell] at hx; subst hx; simp)
  have hm : m1 = m2 := by
    cases m1 <;> cases m2
    · rfl
    · have := (hr (outCell n2.height n2.width)).2 (by simp)
      simp at this
    · have := (hr (outCell n1.height n1.width)).1 (by simp)
      simp at this
    · rfl
  have h12 : n1.width ≤ n2.width := by
    have := cellsOf_within n2 0 n2.width _ g2 (Nat.le_refl _) _ ((ha _).1 (tr_mem n1 0 n1.width .bot))
    have e := tr_right n1 0 n1.width .bot (Nat.le_refl _)
    simp only [VCell.within] at this; omega
  have h21 : n2.width ≤ n1.width := by
    have := cellsOf_within n1 0 n1.width _ g1 (Nat.le_refl _) _ ((ha _).2 (tr_mem n2 0 n2.width .bot))
    have e := tr_right n2 0 n2.width .bot (Nat.le_refl _)
    simp only [VCell.within] at this; omega
  have hw : n2.width = n1.width := by omega
  rw [hw] at ha
  exact ⟨hm, cellsOf_inj n1 n2 0 n1.width .bot g1 g2 (Nat.le_refl _) (by omega) Ctx.bot_ok ha⟩

theorem nfRoot_good (t : Tree) (hw : wf t = true) : (nfRoot t).2.good = true := by
  cases t with
  | ingredient d q => rfl
  | reference s i a => rfl
  | step d ins => simp only [nfRoot, NF.mark_good]; exact nf_good _ hw
  | sub b ns sh =>
    simp only [nfRoot]
    split
    · exact nf_good _ hw
    · simp only [NF.mark_good]; simp only [wf] at hw; exact nf_good _ hw

/-- two trees whose tables show the same set of cells have the same normal form -/
theorem nfRoot_inj (t1 t2 : Tree) (hw1 : wf t1 = true) (hw2 : wf t2 = true) (hs1 : singleRoot t1 = true)
    (hs2 : singleRoot t2 = true)
    (h : ∀ x, x ∈ (layout t1).cells.map PCell.vis ↔ x ∈ (layout t2).cells.map PCell.vis) :
    nfRoot t1 = nfRoot t2 := by
  rw [layout_vis t1 hw1 hs1, layout_vis t2 hw2 hs2] at h
  obtain ⟨h1, h2⟩ := rootCells_inj _ _ _ _ (nfRoot_good t1 hw1) (nfRoot_good t2 hw2) h
  exact Prod.ext h1 h2

-- ---------------------------------------------------------------- Python's invariant, as a Boolean
mutual
theorem single_of_at : ∀ t : Tree, (∀ q b ns sh, t.at? q = some (.sub b ns sh) → ns.length = 1) → single t = true
  | .ingredient .., _ => rfl
  | .reference .., _ => rfl
  | .step d ins, h => by
    simp only [single]
    exact singles_of_at ins (fun i c hc q b ns sh hq => h (i :: q) b ns sh (by rw [at?_step_cons d ins i q c hc]; exact hq))
  | .sub b ns sh, h => by
    simp only [single, Bool.and_eq_true, decide_eq_true_eq]
    exact ⟨h [] b ns sh (at?_nil _),
      single_of_at b (fun q b' ns' sh' hq => h (0 :: q) b' ns' sh' (by rw [at?_sub_zero]; exact hq))⟩
theorem singles_of_at : ∀ ts : List Tree,
    (∀ (i : Nat) (c : Tree), ts[i]? = some c →
      ∀ (q : List Nat) (b : Tree) (ns : List SVS) (sh : Bool), c.at? q = some (.sub b ns sh) → ns.length = 1) →
    singles ts = true
  | [], _ => rfl
  | t :: ts, h => by
    simp only [singles, Bool.and_eq_true]
    exact ⟨single_of_at t (h 0 t rfl), singles_of_at ts (fun i c hc => h (i + 1) c (by simpa using hc))⟩
end

/-- "only the root can be a sub recipe with several outputs", as needed here -/
theorem singleRoot_of_at (t : Tree)
    (h : ∀ q b ns sh, t.at? q = some (.sub b ns sh) → ns.length ≠ 1 → q = []) : singleRoot t = true := by
  cases t with
  | ingredient d q => rfl
  | reference s i a => rfl
  | step d ins =>
    simp only [singleRoot]
    apply single_of_at
    intro q b ns sh hq
    apply Classical.byContradiction
    intro hn
    have := h q b ns sh hq hn
    subst this
    simp [Tree.at?] at hq
  | sub b ns sh =>
    simp only [singleRoot]
    apply single_of_at
    intro q b' ns' sh' hq
    apply Classical.byContradiction
    intro hn
    have := h (0 :: q) b' ns' sh' (by rw [at?_sub_zero]; exact hq) hn
    simp at this

theorem singles_getElem? : ∀ (ts : List Tree) (i : Nat) (c : Tree), singles ts = true → ts[i]? = some c →
    single c = true
  | [], _, _, _, h => by simp at h
  | a :: as, 0, c, hs, h => by
    simp only [singles, Bool.and_eq_true] at hs
    simp at h; subst h; exact hs.1
  | a :: as, i + 1, c, hs, h => by
    simp only [singles, Bool.and_eq_true] at hs
    simp only [List.getElem?_cons_succ] at h
    exact singles_getElem? as i c hs.2 h

theorem single_at : ∀ (q : List Nat) (t n : Tree), single t = true → t.at? q = some n → single n = true
  | [], t, n, hs, h => by simp [Tree.at?] at h; subst h; exact hs
  | i :: rest, t, n, hs, h => by
    rcases at?_cons t i rest n h with ⟨d, ins, c, rfl, hc, hr⟩ | ⟨b, ns, sh, rfl, rfl, hr⟩
    · simp only [single] at hs
      exact single_at rest c n (singles_getElem? ins i c hs hc) hr
    · simp only [single, Bool.and_eq_true] at hs
      exact single_at rest b n hs.2 hr

/-- the converse of `singleRoot_of_at`: the Boolean check implies Python's invariant -/
theorem at_of_singleRoot (t : Tree) (h : singleRoot t = true) :
    ∀ q b ns sh, t.at? q = some (.sub b ns sh) → ns.length ≠ 1 → q = [] := by
  intro q b ns sh hq hn
  have key : ∀ (q' : List Nat) (t' : Tree), single t' = true → t'.at? q' = some (.sub b ns sh) → False := by
    intro q' t' hs hq'
    have := single_at q' t' _ hs hq'
    simp only [single, Bool.and_eq_true, decide_eq_true_eq] at this
    exact hn this.1
  cases t with
  | ingredient d q' => exact (key _ _ h hq).elim
  | reference s i a => exact (key _ _ h hq).elim
  | step d ins => exact (key _ _ h hq).elim
  | sub b' ns' sh' =>
    cases q with
    | nil => rfl
    | cons i rest =>
      rcases at?_cons _ i rest _ hq with ⟨d, ins, c, he, _, _⟩ | ⟨b'', ns'', sh'', he, _, hr⟩
      · cases he
      · cases he
        exact (key _ b' h hr).elim

-- ---------------------------------------------------------------- sorting
theorem rb_insertSorted_perm {α} (le : α → α → Bool) (x : α) (l : List α) : (insertSorted le x l).Perm (x :: l) := by
  induction l with
  | nil => exact List.Perm.refl _
  | cons y ys ih =>
    simp only [insertSorted]
    split
    · exact List.Perm.refl _
    · exact (List.Perm.cons y ih).trans (List.Perm.swap x y ys)

theorem rb_insertionSort_perm {α} (le : α → α → Bool) (l : List α) : (insertionSort le l).Perm l := by
  induction l with
  | nil => exact List.Perm.refl _
  | cons x xs ih => exact (rb_insertSorted_perm le x _).trans (List.Perm.cons x ih)

theorem map_insertSorted {α β} (f : α → β) (le : α → α → Bool) (le' : β → β → Bool)
    (h : ∀ a b, le a b = le' (f a) (f b)) (x : α) (l : List α) :
    (insertSorted le x l).map f = insertSorted le' (f x) (l.map f) := by
  induction l with
  | nil => rfl
  | cons y ys ih =>
    simp only [insertSorted, List.map_cons, ← h]
    split
    · rfl
    · simp only [List.map_cons, ih]

theorem map_insertionSort {α β} (f : α → β) (le : α → α → Bool) (le' : β → β → Bool)
    (h : ∀ a b, le a b = le' (f a) (f b)) (l : List α) :
    (insertionSort le l).map f = insertionSort le' (l.map f) := by
  induction l with
  | nil => rfl
  | cons x xs ih => simp only [insertionSort, List.map_cons, map_insertSorted f le le' h, ih]

/-- raster order on visible cells -/
def vrasterLt (a b : VCell) : Bool := a.row < b.row || (a.row == b.row && a.col < b.col)

theorem map_vis_rasterSort (cs : List PCell) :
    (rasterSort cs).map PCell.vis = insertionSort (fun a b => !vrasterLt b a) (cs.map PCell.vis) :=
  map_insertionSort PCell.vis (fun a b : PCell => !rasterLt b a) (fun a b : VCell => !vrasterLt b a)
    (fun _ _ => rfl) cs

theorem mem_map_vis_rasterSort (cs : List PCell) (x : VCell) :
    x ∈ (rasterSort cs).map PCell.vis ↔ x ∈ cs.map PCell.vis :=
  ((rb_insertionSort_perm _ cs).map _).mem_iff

-- ---------------------------------------------------------------- labels
/-- the visible cells of a tiling are pairwise distinct -/
theorem RTiles.vis_nodup {cs : List PCell} {R : Rect} (h : RTiles cs R) : (cs.map PCell.vis).Nodup := by
  rw [List.Nodup, List.pairwise_map, List.pairwise_iff_forall_sublist]
  intro a b hab hv
  have ha : a ∈ cs := hab.subset (by simp)
  have hok := h.ok a ha
  have h1 := h.one a.row a.col (by omega) (by omega) (by omega) (by omega)
  have h2 : cover [a, b] a.row a.col ≤ cover cs a.row a.col := List.Sublist.countP_le hab
  have ca : covers a a.row a.col = true := by rw [covers_iff]; omega
  have cb : covers b a.row a.col = true := by
    simp only [PCell.vis, VCell.mk.injEq] at hv
    rw [covers_iff]; omega
  have h3 : cover [a, b] a.row a.col = 2 := by simp [cover, ca, cb]
  omega

/-- the second components of two zips with the same duplicate-free first components -/
theorem zip_right_inj {α β} : ∀ (C : List α) (l1 l2 : List β), C.Nodup → l1.length = C.length →
    l2.length = C.length → (∀ p, p ∈ C.zip l1 → p ∈ C.zip l2) → l1 = l2
  | [], l1, l2, _, h1, h2, _ => by
    simp at h1 h2; rw [h1, h2]
  | c :: cs, [], _, _, h1, _, _ => by simp at h1
  | c :: cs, _ :: _, [], _, _, h2, _ => by simp at h2
  | c :: cs, a :: as, b :: bs, hn, h1, h2, h => by
    rw [List.nodup_cons] at hn
    simp only [List.length_cons, Nat.add_right_cancel_iff] at h1 h2
    have hab : a = b := by
      have := h (c, a) (by simp)
      simp only [List.zip_cons_cons, List.mem_cons, Prod.mk.injEq, true_and] at this
      rcases this with h' | h'
      · exact h'
      · exact absurd (List.of_mem_zip h').1 hn.1
    subst hab
    rw [zip_right_inj cs as bs hn.2 h1 h2 (fun p hp => by
      have := h p (by simp [hp])
      simp only [List.zip_cons_cons, List.mem_cons] at this
      rcases this with h' | h'
      · have := (List.of_mem_zip hp).1
        rw [h'] at this
        exact absurd this hn.1
      · exact h')]

-- ---------------------------------------------------------------- an explicit read-back
/-- the cell whose top edge is row `r0` and whose right edge is column `W` -/
def findTR (S : List VCell) (r0 W : Nat) : Option VCell :=
  S.find? fun x => x.row == r0 && x.col + x.cols == W

/-- a cell has its own outline if its right and top borders are emphasised (the context never does both) -/
def ownFlag (x : VCell) : Bool := decide (x.br = .subRecipe ∧ x.bt = .subRecipe)

mutual
/-- read the region that starts in row `r0` and ends at column `W`: its top-right cell says what it is -/
def rbNF : Nat → List VCell → Nat → Nat → Option NF
  | 0, _, _, _ => none
  | fuel + 1, S, r0, W =>
    match findTR S r0 W with
    | none => none
    | some x =>
      match x.kind with
      | .header => (rbNF fuel S (r0 + 1) W).map .titled
      | .step => (rbStack fuel S r0 x.col (r0 + x.rows)).map (.step (ownFlag x))
      | .ingredient => some (.leaf (ownFlag x) false)
      | .reference => some (.leaf (ownFlag x) true)
      | .outputs => none
termination_by structural fuel => fuel
/-- read the regions stacked from row `r0` down to row `rEnd`, all ending at column `w` -/
def rbStack : Nat → List VCell → Nat → Nat → Nat → Option (List NF)
  | 0, _, _, _, _ => none
  | fuel + 1, S, r0, w, rEnd =>
    if rEnd ≤ r0 then some []
    else
      match rbNF fuel S r0 w with
      | none => none
      | some n => (rbStack fuel S (r0 + n.height) w rEnd).map (n :: ·)
termination_by structural fuel => fuel
end

mutual
/-- fuel that suffices to read a region back -/
def NF.fuel : NF → Nat
  | .leaf _ _ => 1
  | .step _ ins => 1 + fuels ins
  | .titled e => 1 + e.fuel
def fuels : List NF → Nat
  | [] => 1
  | n :: ns => 1 + n.fuel + fuels ns
end

/-- no two cells of `S` have the same top edge and the same right edge -/
def UniqTR (S : List VCell) : Prop :=
  ∀ x ∈ S, ∀ y ∈ S, x.row = y.row → x.col + x.cols = y.col + y.cols → x = y

theorem findTR_eq (S : List VCell) (hS : UniqTR S) (r0 W : Nat) (x : VCell) (hx : x ∈ S) (h1 : x.row = r0)
    (h2 : x.col + x.cols = W) : findTR S r0 W = some x := by
  unfold findTR
  cases hf : S.find? (fun x => x.row == r0 && x.col + x.cols == W) with
  | none =>
    rw [List.find?_eq_none] at hf
    have := hf x hx
    simp [h1, h2] at this
  | some y =>
    have hy := List.mem_of_find?_eq_some hf
    have hp := List.find?_some hf
    simp only [Bool.and_eq_true, beq_iff_eq] at hp
    rw [hS y hy x hx (by omega) (by omega)]

theorem ownFlag_own (o : Bool) (B : Ctx) (hB : B.ok) (x : VCell) (h1 : x.br = (own o B).br)
    (h2 : x.bt = (own o B).bt) : ownFlag x = o := by
  unfold ownFlag
  rw [h1, h2]
  cases o
  · simp only [own, Bool.false_eq_true, if_false, decide_eq_false_iff_not]
    rintro ⟨a, b⟩
    rcases hB with hB | hB
    · exact hB a
    · exact hB b
  · simp [own, Ctx.top]

mutual
theorem rbNF_cellsOf : ∀ (n : NF) (fuel : Nat) (S : List VCell) (r0 W : Nat) (B : Ctx), n.good = true →
    n.width ≤ W → B.ok → UniqTR S → (∀ x ∈ cellsOf n r0 W B, x ∈ S) → n.fuel ≤ fuel → rbNF fuel S r0 W = some n
  | n, 0, _, _, _, _, _, _, _, _, _, hf => by cases n <;> simp [NF.fuel] at hf
  | .leaf o r, fuel + 1, S, r0, W, B, _, _, hB, hS, hsub, _ => by
    have hx := hsub _ (tr_mem (.leaf o r) r0 W B)
    have hf := findTR_eq S hS r0 W _ hx (tr_row ..) (by simp [tr])
    have ho := ownFlag_own o B hB (tr (.leaf o r) r0 W B) rfl rfl
    simp only [tr] at ho
    cases r <;> simp only [rbNF, hf] <;> simp [tr, lk] <;> exact ho
  | .step o ins, fuel + 1, S, r0, W, B, hg, hw, hB, hS, hsub, hfu => by
    have hx := hsub _ (tr_mem (.step o ins) r0 W B)
    have hf := findTR_eq S hS r0 W _ hx (tr_row ..) (tr_right _ _ _ _ hw)
    have ho := ownFlag_own o B hB (tr (.step o ins) r0 W B) rfl rfl
    simp only [NF.good, Bool.and_eq_true, Bool.not_eq_true', List.isEmpty_eq_false_iff] at hg
    simp only [NF.fuel] at hfu
    have hst := rbStack_stackCells ins fuel S r0 (widths ins) _ _ _ hg.2 (Nat.le_refl _) hS
      (fun x hx => hsub x (by simp only [cellsOf, List.mem_append]; exact Or.inl hx)) (by omega)
    simp only [rbNF, hf]
    simp only [tr] at ho
    simp [tr, ho, hst]
  | .titled e, fuel + 1, S, r0, W, B, hg, hw, _, hS, hsub, hfu => by
    have hx := hsub _ (tr_mem (.titled e) r0 W B)
    have hf := findTR_eq S hS r0 W _ hx (tr_row ..) (by simp [tr])
    simp only [NF.good] at hg
    simp only [NF.width] at hw
    simp only [NF.fuel] at hfu
    have hb := rbNF_cellsOf e fuel S (r0 + 1) W ⟨.subRecipe, .subRecipe, .normal, .subRecipe⟩ hg hw
      (Or.inr (by simp)) hS (fun x hx => hsub x (by simp only [cellsOf, List.mem_cons]; exact Or.inr hx)) (by omega)
    simp only [rbNF, hf]
    simp [tr, hb]
theorem rbStack_stackCells : ∀ (ns : List NF) (fuel : Nat) (S : List VCell) (r0 w : Nat) (bl bt bb : Border),
    goods ns = true → widths ns ≤ w → UniqTR S → (∀ x ∈ stackCells ns r0 w bl bt bb, x ∈ S) → fuels ns ≤ fuel →
    rbStack fuel S r0 w (r0 + heights ns) = some ns
  | ns, 0, _, _, _, _, _, _, _, _, _, _, hf => by cases ns <;> simp [fuels] at hf
  | [], fuel + 1, S, r0, w, _, _, _, _, _, _, _, _ => by simp [rbStack, heights]
  | n :: ns, fuel + 1, S, r0, w, bl, bt, bb, hg, hw, hS, hsub, hfu => by
    simp only [goods, Bool.and_eq_true] at hg
    simp only [widths] at hw
    simp only [fuels] at hfu
    have hp := NF.height_pos n hg.1
    have h1 := rbNF_cellsOf n fuel S r0 w ⟨bl, .normal, bt, if ns.isEmpty then bb else .normal⟩ hg.1 (by omega)
      (Or.inl (by simp)) hS (fun x hx => hsub x (by simp only [stackCells, List.mem_append]; exact Or.inl hx))
      (by omega)
    have h2 := rbStack_stackCells ns fuel S (r0 + n.height) w bl .normal bb hg.2 (by omega) hS
      (fun x hx => hsub x (by simp only [stackCells, List.mem_append]; exact Or.inr hx)) (by omega)
    have hlt : ¬ r0 + (n.height + heights ns) ≤ r0 := by omega
    simp only [rbStack, heights, hlt, if_false, h1]
    rw [← Nat.add_assoc, h2]; rfl
end

/-- the right edge of the right-most cell -/
def maxRight : List VCell → Nat
  | [] => 0
  | x :: xs => max (x.col + x.cols) (maxRight xs)

theorem le_maxRight : ∀ (S : List VCell) (x : VCell), x ∈ S → x.col + x.cols ≤ maxRight S
  | [], _, h => by simp at h
  | y :: ys, x, h => by
    simp only [List.mem_cons] at h
    simp only [maxRight]
    rcases h with rfl | h
    · omega
    · have := le_maxRight ys x h; omega

theorem maxRight_le : ∀ (S : List VCell) (W : Nat), (∀ x ∈ S, x.col + x.cols ≤ W) → maxRight S ≤ W
  | [], _, _ => by simp [maxRight]
  | y :: ys, W, h => by
    have h1 := h y (by simp)
    have h2 := maxRight_le ys W (fun x hx => h x (by simp [hx]))
    simp only [maxRight]; omega

/-- read a whole table back: an outputs cell, if any, is the right-most column -/
def rbRoot (S : List VCell) : Option (Bool × NF) :=
  match S.find? (fun x => x.kind == .outputs) with
  | some oc => (rbNF (3 * S.length) S 0 oc.col).map (true, ·)
  | none => (rbNF (3 * S.length) S 0 (maxRight S)).map (false, ·)

mutual
theorem NF.fuel_le : ∀ (n : NF) (r0 W : Nat) (B : Ctx), n.good = true →
    n.fuel + 2 ≤ 3 * (cellsOf n r0 W B).length
  | .leaf _ _, _, _, _, _ => by simp [NF.fuel, cellsOf]
  | .step o ins, r0, W, B, hg => by
    simp only [NF.good, Bool.and_eq_true, Bool.not_eq_true', List.isEmpty_eq_false_iff] at hg
    have := fuels_le ins r0 (widths ins) (own o B).bl (own o B).bt (own o B).bb hg.2
    have hl : 0 < ins.length := List.length_pos_iff.2 hg.1
    simp only [NF.fuel, cellsOf, List.length_append, List.length_cons, List.length_nil]
    omega
  | .titled e, r0, W, B, hg => by
    simp only [NF.good] at hg
    have := NF.fuel_le e (r0 + 1) W ⟨.subRecipe, .subRecipe, .normal, .subRecipe⟩ hg
    simp only [NF.fuel, cellsOf, List.length_cons]
    omega
theorem fuels_le : ∀ (ns : List NF) (r0 w : Nat) (bl bt bb : Border), goods ns = true →
    fuels ns + ns.length ≤ 3 * (stackCells ns r0 w bl bt bb).length + 1
  | [], _, _, _, _, _, _ => by simp [fuels, stackCells]
  | n :: ns, r0, w, bl, bt, bb, hg => by
    simp only [goods, Bool.and_eq_true] at hg
    have h1 := NF.fuel_le n r0 w ⟨bl, .normal, bt, if ns.isEmpty then bb else .normal⟩ hg.1
    have h2 := fuels_le ns (r0 + n.height) w bl .normal bb hg.2
    simp only [fuels, stackCells, List.length_append, List.length_cons]
    omega
end

/-- in a tiling no two cells have the same top edge and the same right edge -/
theorem RTiles.uniqTR {cs : List PCell} {R : Rect} (h : RTiles cs R) : UniqTR (cs.map PCell.vis) := by
  intro x hx y hy h1 h2
  obtain ⟨a, ha, rfl⟩ := List.mem_map.1 hx
  obtain ⟨b, hb, rfl⟩ := List.mem_map.1 hy
  simp only [PCell.vis] at h1 h2
  have oa := h.ok a ha
  have ob := h.ok b hb
  have h1' := h.one a.row (a.col + a.cols - 1) (by omega) (by omega) (by omega) (by omega)
  rw [cover, List.countP_eq_length_filter, List.length_eq_one_iff] at h1'
  obtain ⟨c, hc⟩ := h1'
  have ca : a ∈ cs.filter (covers · a.row (a.col + a.cols - 1)) :=
    List.mem_filter.2 ⟨ha, by rw [covers_iff]; omega⟩
  have cb : b ∈ cs.filter (covers · a.row (a.col + a.cols - 1)) :=
    List.mem_filter.2 ⟨hb, by rw [covers_iff]; omega⟩
  rw [hc, List.mem_singleton] at ca cb
  rw [ca, cb]

/-- reading back the cells of a layout, listed in any order, gives the normal form of the tree -/
theorem rbRoot_layout (t : Tree) (hw : wf t = true) (hs : singleRoot t = true) (S : List VCell)
    (hS : ∀ x, x ∈ S ↔ x ∈ (layout t).cells.map PCell.vis) (hlen : S.length = (layout t).cells.length) :
    rbRoot S = some (nfRoot t) := by
  have hu : UniqTR S := fun x hx y hy =>
    (layoutAt_good t [] true hw).uniqTR x ((hS x).1 hx) y ((hS y).1 hy)
  have hlen' : S.length = ((layout t).cells.map PCell.vis).length := by rw [List.length_map, hlen]
  rw [layout_vis t hw hs] at hS hlen'
  have hg := nfRoot_good t hw
  generalize nfRoot t = mn at hS hlen' hg
  obtain ⟨m, n⟩ := mn
  simp only at hS hlen' hg
  have hsub : ∀ x ∈ cellsOf n 0 n.width .bot, x ∈ S := fun x hx =>
    (hS x).2 (by simp only [rootCells, List.mem_append]; exact Or.inl hx)
  have hfu : n.fuel ≤ 3 * S.length := by
    have := NF.fuel_le n 0 n.width .bot hg
    simp only [rootCells, List.length_append] at hlen'
    omega
  have hrb := rbNF_cellsOf n (3 * S.length) S 0 n.width .bot hg (Nat.le_refl _) Ctx.bot_ok hu hsub hfu
  unfold rbRoot
  cases m with
  | false =>
    have hnone : S.find? (fun x => x.kind == .outputs) = none := by
      rw [List.find?_eq_none]
      intro x hx
      have := (hS x).1 hx
      simp only [rootCells, Bool.false_eq_true, if_false, List.append_nil] at this
      simpa using cellsOf_kind _ _ _ _ x this
    have hW : maxRight S = n.width := by
      apply Nat.le_antisymm
      · apply maxRight_le
        intro x hx
        have := (hS x).1 hx
        simp only [rootCells, Bool.false_eq_true, if_false, List.append_nil] at this
        exact (cellsOf_within n 0 n.width .bot hg (Nat.le_refl _) x this).2.2.2.2
      · have := le_maxRight S _ (hsub _ (tr_mem n 0 n.width .bot))
        rw [tr_right n 0 n.width .bot (Nat.le_refl _)] at this
        exact this
    simp only [hnone, hW, hrb, Option.map_some]
  | true =>
    have hout : outCell n.height n.width ∈ S := (hS _).2 (by simp [rootCells])
    cases hf : S.find? (fun x => x.kind == .outputs) with
    | none =>
      rw [List.find?_eq_none] at hf
      have := hf _ hout
      simp [outCell] at this
    | some oc =>
      have hoc := (hS oc).1 (List.mem_of_find?_eq_some hf)
      have hk := List.find?_some hf
      simp only [beq_iff_eq] at hk
      simp only [rootCells, if_true, List.mem_append, List.mem_singleton] at hoc
      rcases hoc with hoc | hoc
      · exact absurd hk (cellsOf_kind _ _ _ _ oc hoc)
      · have : oc.col = n.width := by rw [hoc]; rfl
        simp only [this, hrb, Option.map_some]

end RG
