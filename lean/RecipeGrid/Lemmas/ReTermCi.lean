import RecipeGrid.Lemmas.ReTermWords
/-! `preposition`, `remainder`, `known_unit`: case-insensitive words, runs of white space between them, `\b` after them. -/
namespace RG
namespace Rx
open Parser Peg

/-- `\b` as a continuation of the engine, in a match started at `base` -/
def kb (t : Array Char) (base : Nat) : Nat → Option Nat := fun j => if boundaryAt t base j then some j else none
/-- `wordBoundary` of the scanners -/
def wb (t : Array Char) : Nat → Option Nat := fun j => if wordBoundaryAt t j then some j else none

theorem kb_eq_wb {t : Array Char} {base j : Nat} (h : base < j) : kb t base j = wb t j := by
  simp only [kb, wb, boundaryAt_eq h]

theorem run_bound_some (t : Array Char) (base i : Nat) : run t base bound i some = kb t base i := by rw [run_bound]; rfl

theorem hsp_space : ∀ c, isHsp c = true → isReSpace c = true := fun _ h => isReSpace_of_isHsp h

/-! ## `(?i)of([ \t]+the)?\b` -/

theorem ends_preposition {t : Array Char} : Ends preposition t (fun i => (wordEnd t "of".toList i).bind fun j =>
    orE ((step t isHsp j (fun j1 => some (spanEnd isHsp t j1))).bind fun j2 => (wordEnd t "the".toList j2).bind (wb t)) (wb t j)) := by
  unfold preposition
  exact Ends.bind (ends_ciWord _) fun _ => Ends.orElse
    (Ends.bind (ends_skipMany1 isHsp) fun _ => Ends.bind (ends_ciWord _) fun _ => ends_wordBoundary) ends_wordBoundary

theorem scanIs_preposition :
    ScanIs preposition (seqs [ichr 'o', ichr 'f',
      opt (grp 1 (seqs [plus (cls false [.chr ' ', .chr '\t']), ichr 't', ichr 'h', ichr 'e'])), bound]) := by
  refine ScanIs.of_ends (fun t => ends_preposition) fun t i => ?_
  rw [matchEnd, show seqs [ichr 'o', ichr 'f', opt (grp 1 (seqs [plus (cls false [.chr ' ', .chr '\t']), ichr 't', ichr 'h', ichr 'e'])), bound]
    = seqs ("of".toList.map ichr ++ [opt (grp 1 (seqs [plus (cls false [.chr ' ', .chr '\t']), ichr 't', ichr 'h', ichr 'e'])), bound]) from rfl,
    run_word]
  refine wordEnd_bind_congr fun j hj => ?_
  have hij : i < j := by simp at hj; omega
  rw [run_seqs_cons, run_opt, run_grp,
    show seqs [plus (cls false [.chr ' ', .chr '\t']), ichr 't', ichr 'h', ichr 'e']
      = seqs (plus (cls false [.chr ' ', .chr '\t']) :: (('t' :: "he".toList).map ichr ++ [])) from rfl,
    run_seqs_cons, run_plus_cls, cls_hsp]
  simp only [run_word, run_seqs_cons, run_seqs_nil, run_bound_some]
  rw [kb_eq_wb hij, step_bind]
  congr 1
  refine step_congr ?_
  rw [tryDown_word hsp_space (by decide), Option.bind_some]
  have := spanEnd_ge isHsp t (j + 1)
  exact wordEnd_bind_congr fun j' hj' => (kb_eq_wb (by omega)).symm

/-! ## `(?i)(remaining|remainder|rest|left[ \t]*over)\b` -/

theorem run_alts_cons' {α} (t : Array Char) (base : Nat) (a b : Rx) (bs : List Rx) (i : Nat) (k : K α) :
    run t base (alts (a :: b :: bs)) i k = orE (run t base a i k) (run t base (alts (b :: bs)) i k) := by
  rw [run_alts_cons]; cases run t base a i k <;> rfl

theorem run_alts_one {α} (t : Array Char) (base : Nat) (a : Rx) (i : Nat) (k : K α) :
    run t base (alts [a]) i k = run t base a i k := rfl

theorem ends_remainder {t : Array Char} : Ends remainder t (fun i =>
    orE ((wordEnd t "remaining".toList i).bind (wb t))
      (orE ((wordEnd t "remainder".toList i).bind (wb t))
        (orE ((wordEnd t "rest".toList i).bind (wb t))
          ((wordEnd t "left".toList i).bind fun j => (some (spanEnd isHsp t j)).bind fun j2 =>
            (wordEnd t "over".toList j2).bind (wb t))))) := by
  unfold remainder
  exact Ends.orElse (Ends.bind (ends_ciWord _) fun _ => ends_wordBoundary)
    (Ends.orElse (Ends.bind (ends_ciWord _) fun _ => ends_wordBoundary)
      (Ends.orElse (Ends.bind (ends_ciWord _) fun _ => ends_wordBoundary)
        (Ends.bind (ends_ciWord _) fun _ => Ends.bind (ends_skipMany isHsp) fun _ =>
          Ends.bind (ends_ciWord _) fun _ => ends_wordBoundary)))

theorem wordEnd_kb {t : Array Char} {base i : Nat} (h : base ≤ i) {l : Char} {ls : Str} :
    (wordEnd t (l :: ls) i).bind (kb t base) = (wordEnd t (l :: ls) i).bind (wb t) :=
  wordEnd_bind_congr fun j hj => kb_eq_wb (by simp at hj; omega)

theorem scanIs_remainder :
    ScanIs remainder (seqs [grp 1 (alts [
      seqs [ichr 'r', ichr 'e', ichr 'm', ichr 'a', ichr 'i', ichr 'n', ichr 'i', ichr 'n', ichr 'g'],
      seqs [ichr 'r', ichr 'e', ichr 'm', ichr 'a', ichr 'i', ichr 'n', ichr 'd', ichr 'e', ichr 'r'],
      seqs [ichr 'r', ichr 'e', ichr 's', ichr 't'],
      seqs [ichr 'l', ichr 'e', ichr 'f', ichr 't', star (cls false [.chr ' ', .chr '\t']), ichr 'o', ichr 'v', ichr 'e', ichr 'r']]),
      bound]) := by
  refine ScanIs.of_ends (fun t => ends_remainder) fun t i => ?_
  rw [matchEnd, run_seqs_cons, run_grp]
  simp only [run_seqs_cons, run_seqs_nil, run_bound_some]
  rw [show (fun j => kb t i j) = kb t i from rfl, run_alts_cons', run_alts_cons', run_alts_cons', run_alts_one,
    show seqs [ichr 'r', ichr 'e', ichr 'm', ichr 'a', ichr 'i', ichr 'n', ichr 'i', ichr 'n', ichr 'g']
      = seqs (('r' :: "emaining".toList).map ichr) from rfl,
    show seqs [ichr 'r', ichr 'e', ichr 'm', ichr 'a', ichr 'i', ichr 'n', ichr 'd', ichr 'e', ichr 'r']
      = seqs (('r' :: "emainder".toList).map ichr) from rfl,
    show seqs [ichr 'r', ichr 'e', ichr 's', ichr 't'] = seqs (('r' :: "est".toList).map ichr) from rfl,
    show seqs [ichr 'l', ichr 'e', ichr 'f', ichr 't', star (cls false [.chr ' ', .chr '\t']), ichr 'o', ichr 'v', ichr 'e', ichr 'r']
      = seqs (('l' :: "eft".toList).map ichr ++ [star (cls false [.chr ' ', .chr '\t']), ichr 'o', ichr 'v', ichr 'e', ichr 'r']) from rfl,
    run_word_only, run_word_only, run_word_only, run_word,
    wordEnd_kb (Nat.le_refl i), wordEnd_kb (Nat.le_refl i), wordEnd_kb (Nat.le_refl i)]
  congr 1; congr 1; congr 1
  refine wordEnd_bind_congr fun j hj => ?_
  rw [show seqs [star (cls false [.chr ' ', .chr '\t']), ichr 'o', ichr 'v', ichr 'e', ichr 'r']
      = seqs (star (cls false [.chr ' ', .chr '\t']) :: (('o' :: "ver".toList).map ichr)) from rfl,
    run_seqs_cons, run_star_cls, cls_hsp]
  simp only [run_word_only]
  rw [tryDown_word hsp_space (by decide), Option.bind_some]
  have := spanEnd_ge isHsp t j
  have hij : i ≤ j := by simp at hj; omega
  exact (wordEnd_kb (base := i) (l := 'o') (ls := "ver".toList) (by omega)).symm

/-! ## `(?i)(@KNOWN_UNITS@)\b`: the alternation of the unit names, `\s+` between the words of a name -/

/-- the ops of one alternative: the letters of the words, `\s+` between words -/
def unitRx : List Str → List Rx
  | [] => []
  | [w] => w.map ichr
  | w :: ws => w.map ichr ++ plus (cls false [.space]) :: unitRx ws

/-- the regular expression of the unit names `tbl` (each a list of words) -/
def unitsRx (tbl : List (List Str)) : Rx := seqs [grp 1 (alts (tbl.map fun ws => seqs (unitRx ws))), bound]

/-- where `unitPattern ws` ends; `k`: what is done after the last word -/
def unitEnd (t : Array Char) (k : Nat → Option Nat) : List Str → Nat → Option Nat
  | [], i => k i
  | [w], i => (wordEnd t w i).bind k
  | w :: ws, i => (wordEnd t w i).bind fun j =>
      (step t isReSpace j (fun j1 => some (spanEnd isReSpace t j1))).bind (unitEnd t k ws)

theorem unitEnd_cons2 (t : Array Char) (k : Nat → Option Nat) (w w2 : Str) (ws : List Str) (i : Nat) :
    unitEnd t k (w :: w2 :: ws) i = (wordEnd t w i).bind fun j =>
      (step t isReSpace j (fun j1 => some (spanEnd isReSpace t j1))).bind (unitEnd t k (w2 :: ws)) := by
  rw [unitEnd]
  simp

theorem unitRx_cons2 (w w2 : Str) (ws : List Str) :
    unitRx (w :: w2 :: ws) = w.map ichr ++ plus (cls false [.space]) :: unitRx (w2 :: ws) := by
  rw [unitRx]
  simp

theorem ends_unitPattern {t : Array Char} : ∀ ws : List Str, Ends (unitPattern ws) t (unitEnd t (wb t) ws)
  | [] => ends_wordBoundary
  | [w] => Ends.bind (ends_ciWord w) fun _ => ends_wordBoundary
  | w :: w2 :: ws => by
    rw [unitPattern_cons2]
    refine Ends.congr (Ends.bind (ends_ciWord w) fun _ => Ends.bind (ends_skipMany1 isReSpace) fun _ =>
      ends_unitPattern (w2 :: ws)) fun i => ?_
    rw [unitEnd_cons2]

/-- the engine on the ops of one alternative -/
theorem run_unitRx (t : Array Char) (base : Nat) (k : Nat → Option Nat) : ∀ (ws : List Str), ws ≠ [] → IsUnitWords ws →
    ∀ i, run t base (seqs (unitRx ws)) i k = unitEnd t k ws i
  | [], h, _ => absurd rfl h
  | [w], _, _ => fun i => by rw [unitRx, run_word_only, unitEnd]
  | w :: w2 :: ws, _, hw => fun i => by
    have ih := run_unitRx t base k (w2 :: ws) (by simp) (fun x hx => hw x (by simp [hx]))
    obtain ⟨hne, hlow⟩ := hw w2 (by simp)
    obtain ⟨l, ls, rfl⟩ : ∃ l ls, w2 = l :: ls := by
      cases w2 with
      | nil => exact absurd rfl hne
      | cons l ls => exact ⟨l, ls, rfl⟩
    have hl : isLowerAscii l = true := hlow l (by simp)
    rw [unitRx_cons2, run_word, unitEnd_cons2]
    refine wordEnd_bind_congr fun j _ => ?_
    rw [run_seqs_cons, run_plus_cls, cls_space, step_bind]
    refine step_congr ?_
    rw [Option.bind_some]
    -- only the whole run of white space can be followed by the next word
    have hge := spanEnd_ge isReSpace t (j + 1)
    rw [tryDown_congr _ (unitEnd t k ((l :: ls) :: ws)) _ _ (fun m _ _ => ih m), tryDown_last]
    · rw [show j + 1 + (spanEnd isReSpace t (j + 1) - (j + 1)) = spanEnd isReSpace t (j + 1) by omega]
    · intro m h1 h2
      obtain ⟨c, hc, hs⟩ := spanEnd_all h1 (by omega : m < spanEnd isReSpace t (j + 1))
      cases ws with
      | nil => rw [unitEnd, wordEnd_none_of_space hl hc hs]; rfl
      | cons w3 ws => rw [unitEnd_cons2, wordEnd_none_of_space hl hc hs]; rfl

/-- after a unit name the position is beyond its start: `\b` sees the text before -/
theorem unitEnd_congr (t : Array Char) {k k' : Nat → Option Nat} : ∀ (ws : List Str), ws ≠ [] → IsUnitWords ws →
    ∀ i, (∀ j, i < j → k j = k' j) → unitEnd t k ws i = unitEnd t k' ws i
  | [], h, _ => absurd rfl h
  | [w], _, hw => fun i hk => by
    rw [unitEnd, unitEnd]
    refine wordEnd_bind_congr fun j hj => hk j ?_
    have : w.length ≠ 0 := fun h => (hw w (by simp)).1 (List.eq_nil_of_length_eq_zero h)
    omega
  | w :: w2 :: ws, _, hw => fun i hk => by
    rw [unitEnd_cons2, unitEnd_cons2]
    refine wordEnd_bind_congr fun j hj => ?_
    rw [step_bind, step_bind]
    refine step_congr ?_
    rw [Option.bind_some, Option.bind_some]
    have hge := spanEnd_ge isReSpace t (j + 1)
    exact unitEnd_congr t (w2 :: ws) (by simp) (fun x hx => hw x (by simp [hx])) _ fun j' hj' => hk j' (by omega)

theorem firstSome_cons {α} (x : Option α) (xs : List (Option α)) : firstSome (x :: xs) = orE x (firstSome xs) := by
  cases x <;> rfl

theorem ends_firstOf_map {t : Array Char} {β} (g : β → P Unit) (d : β → Nat → Option Nat) (h : ∀ b, Ends (g b) t (d b)) :
    ∀ bs : List β, Ends (firstOf (bs.map g)) t (fun i => firstSome (bs.map fun b => d b i))
  | [] => ends_fail
  | b :: bs => by
    refine Ends.congr (Ends.orElse (h b) (ends_firstOf_map g d h bs)) fun i => ?_
    rw [List.map_cons, firstSome_cons]

/-- **the scanner of a table of unit names is the `match` of the regular expression of the table** -/
theorem scanIs_units (tbl : List (List Str)) (hok : tbl.all unitWordsOk = true) :
    ScanIs (firstOf (tbl.map unitPattern)) (unitsRx tbl) := by
  refine ScanIs.of_ends (fun t => ends_firstOf_map unitPattern (unitEnd t (wb t)) (fun ws => ends_unitPattern ws) tbl) fun t i => ?_
  rw [matchEnd, unitsRx, run_seqs_cons, run_grp, run_alts]
  simp only [run_seqs_cons, run_seqs_nil, run_bound_some, List.map_map]
  congr 1
  refine List.map_congr_left fun ws hws => ?_
  obtain ⟨hne, hw⟩ := unitWordsOk_iff (List.all_eq_true.1 hok ws hws)
  simp only [Function.comp]
  rw [show (fun j => kb t i j) = kb t i from rfl, run_unitRx t i _ ws hne hw]
  exact (unitEnd_congr t ws hne hw i fun j hj => kb_eq_wb hj).symm

theorem scanIs_knownUnit : ScanIs knownUnit (unitsRx unitPatterns) :=
  scanIs_units unitPatterns unitPatterns_words_table

end Rx
end RG
