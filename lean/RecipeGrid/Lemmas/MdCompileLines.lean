import RecipeGrid.Lemmas.Text
import RecipeGrid.Model.Markdown
/-! The lines of a document (`str.splitlines()`) are the lines of the document as marko and
    `get_line_number_corrected_source` read it (`"\r\n"` → `"\n"`, then a remaining `"\r"` → `"\n"`). -/
namespace RG

theorem normaliseCrLf_crlf (rest : Str) : normaliseCrLf ('\r' :: '\n' :: rest) = '\n' :: normaliseCrLf rest := by
  rw [normaliseCrLf]

theorem normaliseCrLf_cons (c : Char) (rest : Str) (h : ∀ r, ¬ (c = '\r' ∧ rest = '\n' :: r)) :
    normaliseCrLf (c :: rest) = c :: normaliseCrLf rest := by
  rw [normaliseCrLf]
  intro r hc hr
  exact h r ⟨hc, hr⟩

theorem dropTerminator_break (c : Char) (cur : Str) (hc : isLineBreak c = true) (hcur : ∀ x ∈ cur, isLineBreak x = false) :
    dropTerminator ((c :: cur).reverse) = cur.reverse := by
  apply dropTerminator_of_shape
  refine ⟨by simpa using hcur, Or.inr (Or.inr ⟨c, hc, by simp⟩)⟩

theorem dropTerminator_crlf (cur : Str) (hcur : ∀ x ∈ cur, isLineBreak x = false) :
    dropTerminator (('\n' :: '\r' :: cur).reverse) = cur.reverse := by
  apply dropTerminator_of_shape
  refine ⟨by simpa using hcur, Or.inr (Or.inl (by simp))⟩

theorem splitLinesKeepAux_break (cur : Str) (c : Char) (rest : Str) (hc : isLineBreak c = true)
    (h : ∀ r, ¬ (c = '\r' ∧ rest = '\n' :: r)) :
    splitLinesKeepAux cur (c :: rest) = (c :: cur).reverse :: splitLinesKeepAux [] rest := by
  rw [splitLinesKeepAux.eq_3 _ _ _ (by intro r hc' hr; exact h r ⟨hc', hr⟩)]
  simp [hc]

theorem splitLinesKeepAux_plain (cur : Str) (c : Char) (rest : Str) (hc : isLineBreak c = false) :
    splitLinesKeepAux cur (c :: rest) = splitLinesKeepAux (c :: cur) rest := by
  rw [splitLinesKeepAux.eq_3 _ _ _ (by
    intro r hc' hr
    subst hc'
    simp [isLineBreak_cr] at hc)]
  simp [hc]

theorem splitLinesKeepAux_norm_aux (n : Nat) : ∀ (cur s : Str), s.length ≤ n → (∀ c ∈ cur, isLineBreak c = false) →
    (splitLinesKeepAux cur (crToLf (normaliseCrLf s))).map dropTerminator =
      (splitLinesKeepAux cur s).map dropTerminator := by
  induction n with
  | zero =>
    intro cur s hn _
    have : s = [] := List.length_eq_zero_iff.1 (by omega)
    subst this
    simp [normaliseCrLf, crToLf]
  | succ n ih =>
    intro cur s hn hcur
    match s, hn with
    | [], _ => simp [normaliseCrLf, crToLf]
    | '\r' :: '\n' :: rest, hn =>
      rw [normaliseCrLf_crlf, splitLinesKeepAux]
      simp only [crToLf, List.map_cons]
      rw [show (if '\n' = '\r' then '\n' else '\n') = '\n' from rfl, splitLinesKeepAux_lf]
      simp only [List.map_cons]
      rw [dropTerminator_break _ _ isLineBreak_lf hcur, dropTerminator_crlf _ hcur]
      congr 1
      exact ih [] rest (by simp at hn; omega) (by simp)
    | c :: rest, hn =>
      by_cases hpat : ∃ r, c = '\r' ∧ rest = '\n' :: r
      · obtain ⟨r, rfl, rfl⟩ := hpat
        rw [normaliseCrLf_crlf, splitLinesKeepAux]
        simp only [crToLf, List.map_cons]
        rw [show (if '\n' = '\r' then '\n' else '\n') = '\n' from rfl, splitLinesKeepAux_lf]
        simp only [List.map_cons]
        rw [dropTerminator_break _ _ isLineBreak_lf hcur, dropTerminator_crlf _ hcur]
        congr 1
        exact ih [] r (by simp at hn; omega) (by simp)
      · have hpat' : ∀ r, ¬ (c = '\r' ∧ rest = '\n' :: r) := fun r h => hpat ⟨r, h⟩
        rw [normaliseCrLf_cons c rest hpat']
        simp only [crToLf, List.map_cons]
        have ihr := fun cur' hcur' => ih cur' rest (by simp at hn; omega) hcur'
        simp only [crToLf] at ihr
        by_cases hcr : c = '\r'
        · subst hcr
          simp only [if_true]
          rw [splitLinesKeepAux_lf, splitLinesKeepAux_break cur '\r' rest isLineBreak_cr hpat']
          simp only [List.map_cons]
          rw [dropTerminator_break _ _ isLineBreak_lf hcur, dropTerminator_break _ _ isLineBreak_cr hcur]
          congr 1
          exact ihr [] (by simp)
        · simp only [hcr, if_false]
          by_cases hb : isLineBreak c = true
          · have hp2 : ∀ r, ¬ (c = '\r' ∧ List.map (fun c => if c = '\r' then '\n' else c) (normaliseCrLf rest) = '\n' :: r) :=
              fun r h => hcr h.1
            rw [splitLinesKeepAux_break cur c _ hb hp2, splitLinesKeepAux_break cur c rest hb hpat']
            simp only [List.map_cons]
            congr 1
            exact ihr [] (by simp)
          · have hb' : isLineBreak c = false := by simpa using hb
            rw [splitLinesKeepAux_plain cur c _ hb', splitLinesKeepAux_plain cur c rest hb']
            exact ihr (c :: cur) (by
              intro x hx
              rcases List.mem_cons.1 hx with rfl | hx
              · exact hb'
              · exact hcur x hx)

/-- **`"\r\n"` and a lone `"\r"` are line ends like `"\n"`**: the lines of the normalised document are the lines of the document -/
theorem splitLines_norm (s : Str) : splitLines (crToLf (normaliseCrLf s)) = splitLines s := by
  unfold splitLines splitLinesKeep
  exact splitLinesKeepAux_norm_aux s.length [] s (Nat.le_refl _) (by simp)

end RG
