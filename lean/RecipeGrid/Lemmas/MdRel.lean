import RecipeGrid.Lemmas.MdBlocks
/-! The lines of a block's captured text against the lines of the document: "the same line with a few leading
    spaces removed". -/
namespace RG

theorem mem_takeWhile_imp {α : Type} (p : α → Bool) (l : List α) (c : α) (h : c ∈ l.takeWhile p) : p c = true := by
  induction l with
  | nil => simp at h
  | cons x l ih =>
    simp only [List.takeWhile_cons] at h
    split at h
    · rcases List.mem_cons.1 h with rfl | h
      · assumption
      · exact ih h
    · simp at h

/-- `s` is `d` without `p ≤ n` leading spaces -/
def KRel (n : Nat) (s d : Str) : Prop := ∃ p, p ≤ n ∧ (∀ c ∈ d.take p, c = ' ') ∧ s = d.drop p

/-- every line of `S` is the line of `D` with the same index, less some leading spaces -/
def SubRel (n : Nat) (S D : List Str) : Prop := ∀ (j : Nat) (s : Str), S[j]? = some s → ∃ d, D[j]? = some d ∧ KRel n s d

theorem KRel.refl (n : Nat) (s : Str) : KRel n s s := ⟨0, by omega, by simp, by simp⟩

theorem forall2_KRel_refl (n : Nat) (l : List Str) : Forall2 (KRel n) l l := by
  induction l with
  | nil => exact .nil
  | cons x l ih => exact .cons (KRel.refl n x) ih

theorem SubRel.of_forall2 {n : Nat} {S D : List Str} (h : Forall2 (KRel n) S D) : SubRel n S D :=
  fun j s hs => h.get j s hs

theorem SubRel.nil (n : Nat) (D : List Str) : SubRel n [] D := by intro j s h; simp at h

theorem SubRel.append {n : Nat} {A B S D : List Str} (h : Forall2 (KRel n) A B) (h' : SubRel n S D) :
    SubRel n (A ++ S) (B ++ D) := by
  intro j s hs
  by_cases hj : j < A.length
  · rw [List.getElem?_append_left hj] at hs
    obtain ⟨d, hd, hr⟩ := h.get j s hs
    exact ⟨d, by rw [List.getElem?_append_left (by rw [← h.length_eq]; exact hj)]; exact hd, hr⟩
  · rw [List.getElem?_append_right (by omega)] at hs
    obtain ⟨d, hd, hr⟩ := h' _ s hs
    exact ⟨d, by rw [List.getElem?_append_right (by rw [← h.length_eq]; omega), ← h.length_eq]; exact hd, hr⟩

theorem SubRel.extend {n : Nat} {S D : List Str} (h : SubRel n S D) (E : List Str) : SubRel n S (D ++ E) := by
  intro j s hs
  obtain ⟨d, hd, hr⟩ := h j s hs
  have : j < D.length := (List.getElem?_eq_some_iff.mp hd).1
  exact ⟨d, by rw [List.getElem?_append_left this]; exact hd, hr⟩

/-! ## leading spaces -/

theorem leadSpaces_split (l : Str) (p : Nat) (h : p ≤ leadSpaces l) : l = List.replicate p ' ' ++ l.drop p := by
  induction l generalizing p with
  | nil => simp [leadSpaces] at h; subst h; rfl
  | cons c l ih =>
    cases p with
    | zero => rfl
    | succ p =>
      simp only [leadSpaces, List.takeWhile_cons] at h
      split at h
      · rename_i hc
        have hc' : c = ' ' := by simpa using hc
        simp only [List.length_cons] at h
        rw [List.replicate_succ, List.drop_succ_cons, List.cons_append, ← ih p (by simp only [leadSpaces]; omega), hc']
      · simp at h

theorem leadSpaces_le_of_nlEnded (b : Str) : leadSpaces (b ++ ['\n']) ≤ b.length := by
  induction b with
  | nil => decide
  | cons c b ih =>
    simp only [leadSpaces, List.cons_append, List.takeWhile_cons] at ih ⊢
    split
    · simp only [List.length_cons]; omega
    · simp

theorem nlEnded_drop (l : Str) (p : Nat) (h : NlEnded l) (hp : p ≤ leadSpaces l) : NlEnded (l.drop p) := by
  obtain ⟨b, rfl⟩ := h
  have := leadSpaces_le_of_nlEnded b
  exact ⟨b.drop p, by rw [List.drop_append_of_le_length (by omega)]⟩

theorem NlEnded.ne_nil {l : Str} (h : NlEnded l) : l ≠ [] := by
  obtain ⟨b, rfl⟩ := h; simp

/-! ## one line -/

theorem plines_crToLf_nlEnded_append (l r : Str) (h : NlEnded l) :
    plines (crToLf (l ++ r)) = plines (crToLf l) ++ plines (crToLf r) := by
  obtain ⟨b, rfl⟩ := h
  rw [List.append_assoc, crToLf_append, crToLf_append, crToLf_append, crToLf_nl]
  exact plines_append_break _ _ _ isLineBreak_lf

theorem klines_crToLf_nlEnded_append (l r : Str) (h : NlEnded l) :
    klines (crToLf (l ++ r)) = klines (crToLf l) ++ klines (crToLf r) := by
  obtain ⟨b, rfl⟩ := h
  rw [List.append_assoc, crToLf_append, crToLf_append, crToLf_append, crToLf_nl]
  exact klines_append_break _ _ _ isLineBreak_lf

theorem line_drop_rel (n p : Nat) (l : Str) (hp : p ≤ leadSpaces l) (hn : p ≤ n) :
    SubRel n (plines (crToLf (l.drop p))) (plines (crToLf l)) ∧
      (l.drop p ≠ [] → Forall2 (KRel n) (plines (crToLf (l.drop p))) (plines (crToLf l))) := by
  have hl : crToLf l = List.replicate p ' ' ++ crToLf (l.drop p) := by
    conv => lhs; rw [leadSpaces_split l p hp]
    rw [crToLf_append, crToLf_replicate_space]
  rw [hl, plines_spaces]
  generalize hm : plines (crToLf (l.drop p)) = m
  cases m with
  | nil =>
    refine ⟨SubRel.nil _ _, ?_⟩
    intro hne
    rw [plines_eq_nil, crToLf_eq_nil] at hm
    exact absurd hm hne
  | cons x xs =>
    have : Forall2 (KRel n) (x :: xs) (attachPre (List.replicate p ' ') (x :: xs)) := by
      simp only [attachPre]
      refine .cons ⟨p, hn, ?_, ?_⟩ (forall2_KRel_refl n xs)
      · intro c hc
        rw [List.take_left' (by simp)] at hc
        exact (List.mem_replicate.mp hc).2
      · rw [List.drop_left' (by simp)]
    exact ⟨SubRel.of_forall2 this, fun _ => this⟩

/-! ## many lines -/

/-- `ss` are the lines `ls` with at most `n` of their leading spaces removed -/
def Dropped (n : Nat) (s l : Str) : Prop := ∃ p, p ≤ n ∧ p ≤ leadSpaces l ∧ s = l.drop p

theorem lines_drop_rel (n : Nat) (ss ls : List Str) (h : Forall2 (Dropped n) ss ls) (hok : LinesOk ls) :
    SubRel n (plines (crToLf ss.flatten)) (plines (crToLf ls.flatten)) := by
  induction h with
  | nil => exact SubRel.nil _ _
  | @cons s l ss ls hsl hrest ih =>
    obtain ⟨p, hpn, hpl, rfl⟩ := hsl
    by_cases hls : ls = []
    · subst hls
      cases hrest
      simp only [List.flatten_cons, List.flatten_nil, List.append_nil]
      exact (line_drop_rel n p l hpl hpn).1
    · have hnl : NlEnded l := hok.2.1 hls
      have hnl' : NlEnded (l.drop p) := nlEnded_drop l p hnl hpl
      simp only [List.flatten_cons]
      rw [plines_crToLf_nlEnded_append _ _ hnl, plines_crToLf_nlEnded_append _ _ hnl']
      exact SubRel.append ((line_drop_rel n p l hpl hpn).2 hnl'.ne_nil) (ih hok.2.2)

/-! ## `rstrip("\n")` and the final newline of an indented block -/

theorem rstripNl_snoc_nl (s : Str) : rstripNl (s ++ ['\n']) = rstripNl s := by
  simp [rstripNl]

theorem rstripNl_spec (s : Str) : ∃ m, s = rstripNl s ++ List.replicate m '\n' := by
  refine ⟨(s.reverse.takeWhile (· == '\n')).length, ?_⟩
  have h := List.takeWhile_append_dropWhile (p := (· == '\n')) (l := s.reverse)
  have h2 : s.reverse.takeWhile (· == '\n') = List.replicate (s.reverse.takeWhile (· == '\n')).length '\n' := by
    rw [List.eq_replicate_iff]
    refine ⟨rfl, ?_⟩
    intro c hc
    have := mem_takeWhile_imp _ _ _ hc
    simpa using this
  have h3 : s = (s.reverse.dropWhile (· == '\n')).reverse ++ (s.reverse.takeWhile (· == '\n')).reverse := by
    rw [← List.reverse_append, h, List.reverse_reverse]
  conv => lhs; rw [h3]
  rw [rstripNl]
  congr 1
  rw [h2, List.reverse_replicate, List.length_replicate]

theorem plines_replicate_nl (k : Nat) (s : Str) : plines (List.replicate k '\n' ++ s) = List.replicate k [] ++ plines s := by
  induction k with
  | zero => simp
  | succ k ih => simp only [List.replicate_succ, List.cons_append, plines, isLineBreak_lf, if_true, ih]

/-- the lines of `T.rstrip("\n") + "\n"` are lines of `T`, except possibly an empty last one -/
theorem plines_code_tail (T : Str) (j : Nat) (s : Str)
    (h : (plines (crToLf (rstripNl T ++ ['\n'])))[j]? = some s) :
    (plines (crToLf T))[j]? = some s ∨
      (s = [] ∧ j + 1 = (plines (crToLf (rstripNl T ++ ['\n']))).length ∧ j = (plines (crToLf T)).length ∧
        T = rstripNl T) := by
  obtain ⟨m, hm⟩ := rstripNl_spec T
  rw [crToLf_append, crToLf_nl] at h ⊢
  cases m with
  | zero =>
    simp only [List.replicate_zero, List.append_nil] at hm
    rw [← hm] at h ⊢
    rw [plines_snoc_nl] at h ⊢
    by_cases he : endsBreak (crToLf T) = true
    · simp only [he, if_true] at h ⊢
      by_cases hj : j < (plines (crToLf T)).length
      · rw [List.getElem?_append_left hj] at h; exact Or.inl h
      · right
        rw [List.getElem?_append_right (by omega)] at h
        have hj' : j - (plines (crToLf T)).length = 0 := by
          by_cases h0 : j - (plines (crToLf T)).length = 0
          · exact h0
          · rw [List.getElem?_eq_none (by simp; omega)] at h; cases h
        rw [hj'] at h
        simp at h
        refine ⟨h, ?_, by omega, trivial⟩
        simp; omega
    · simp only [he] at h ⊢
      simp at h; exact Or.inl h
  | succ m =>
    left
    conv => lhs; rw [hm]
    rw [List.replicate_succ, crToLf_append]
    have : crToLf ('\n' :: List.replicate m '\n') = '\n' :: crToLf (List.replicate m '\n') := by simp [crToLf]
    rw [this, plines_append_break _ _ _ isLineBreak_lf]
    have hj : j < (plines (crToLf (rstripNl T) ++ ['\n'])).length := (List.getElem?_eq_some_iff.mp h).1
    rw [List.getElem?_append_left hj]
    exact h

/-- what `rstrip("\n")` returns does not end with a newline -/
theorem rstripNl_not_nlEnded (s : Str) : ¬ NlEnded (rstripNl s) := by
  rintro ⟨b, hb⟩
  have h1 : (rstripNl s).reverse = '\n' :: b.reverse := by rw [hb]; simp
  rw [rstripNl, List.reverse_reverse] at h1
  have h2 : ∀ (l : Str) (r : Str), l.dropWhile (· == '\n') = '\n' :: r → False := by
    intro l
    induction l with
    | nil => intro r h; simp at h
    | cons c l ih =>
      intro r h
      simp only [List.dropWhile_cons] at h
      split at h
      · exact ih r h
      · rename_i hc
        simp only [List.cons.injEq] at h
        rw [h.1] at hc
        simp at hc
  exact h2 _ _ h1

theorem nlEnded_append (a b : Str) (hb : NlEnded b) : NlEnded (a ++ b) := by
  obtain ⟨c, rfl⟩ := hb
  exact ⟨a ++ c, by simp⟩

theorem not_nlEnded_of_append (a b : Str) (_hb : b ≠ []) (h : ¬ NlEnded (a ++ b)) : ¬ NlEnded b :=
  fun hb' => h (nlEnded_append a b hb')

/-- all lines end with a newline: so does what is left of them -/
theorem flatten_nlEnded (n : Nat) (ss ls : List Str) (h : Forall2 (Dropped n) ss ls) (hnl : ∀ l ∈ ls, NlEnded l)
    (hne : ss ≠ []) : NlEnded ss.flatten := by
  induction h with
  | nil => contradiction
  | @cons s l ss ls hsl hrest ih =>
    obtain ⟨p, _, hpl, rfl⟩ := hsl
    have hs : NlEnded (l.drop p) := nlEnded_drop l p (hnl l (by simp)) hpl
    by_cases hss : ss = []
    · subst hss; simpa using hs
    · simp only [List.flatten_cons]
      exact nlEnded_append _ _ (ih (fun x hx => hnl x (List.mem_cons_of_mem _ hx)) hss)

/-- if what is left of the lines does not end with a newline, nothing was dropped entirely -/
theorem dropped_all_ne_nil (n : Nat) (ss ls : List Str) (h : Forall2 (Dropped n) ss ls) (hok : LinesOk ls)
    (hne : ss.flatten ≠ []) (hnn : ¬ NlEnded ss.flatten) : ∀ s ∈ ss, s ≠ [] := by
  induction h with
  | nil => simp
  | @cons s l ss ls hsl hrest ih =>
    obtain ⟨p, _, hpl, rfl⟩ := hsl
    by_cases hls : ls = []
    · subst hls
      cases hrest
      intro x hx
      simp only [List.mem_singleton] at hx
      subst hx
      simpa using hne
    · have hnl : NlEnded l := hok.2.1 hls
      have hs : NlEnded (l.drop p) := nlEnded_drop l p hnl hpl
      simp only [List.flatten_cons] at hne hnn
      have hss : ss.flatten ≠ [] := by
        intro e; rw [e, List.append_nil] at hnn; exact hnn hs
      intro x hx
      rcases List.mem_cons.1 hx with rfl | hx
      · exact hs.ne_nil
      · exact ih hok.2.2 hss (not_nlEnded_of_append _ _ hss hnn) x hx

/-- `lines_drop_rel` with equal numbers of lines, when no line is dropped entirely -/
theorem lines_drop_forall2 (n : Nat) (ss ls : List Str) (h : Forall2 (Dropped n) ss ls) (hok : LinesOk ls)
    (hne : ∀ s ∈ ss, s ≠ []) :
    Forall2 (KRel n) (plines (crToLf ss.flatten)) (plines (crToLf ls.flatten)) := by
  induction h with
  | nil => exact .nil
  | @cons s l ss ls hsl hrest ih =>
    obtain ⟨p, hpn, hpl, rfl⟩ := hsl
    have hs : l.drop p ≠ [] := hne _ (by simp)
    by_cases hls : ls = []
    · subst hls
      cases hrest
      simp only [List.flatten_cons, List.flatten_nil, List.append_nil]
      exact (line_drop_rel n p l hpl hpn).2 hs
    · have hnl : NlEnded l := hok.2.1 hls
      have hnl' : NlEnded (l.drop p) := nlEnded_drop l p hnl hpl
      simp only [List.flatten_cons]
      rw [plines_crToLf_nlEnded_append _ _ hnl, plines_crToLf_nlEnded_append _ _ hnl']
      exact ((line_drop_rel n p l hpl hpn).2 hs).append (ih hok.2.2 (fun x hx => hne x (List.mem_cons_of_mem _ hx)))

/-- an indented, non-blank line has something after its first four spaces -/
theorem drop4_ne_nil (l : Str) (h4 : 4 ≤ leadSpaces l) (hb : isBlankLine l = false) : l.drop 4 ≠ [] := by
  intro he
  have := leadSpaces_split l 4 h4
  rw [he, List.append_nil] at this
  rw [this] at hb
  revert hb
  decide

end RG
