import RecipeGrid.Model.Recipe
/-! Helper lemmas about `Num.mul`, `Svs.normalise/scale`, `Tree.beq`, `Tree.scale`, `checkBlocks`.
    Nothing here is a specification; the property statements live in `Props/C03.lean`, `Props/C08.lean`. -/
namespace RG

-- ---------------------------------------------------------------- numbers
theorem toDouble_one : toDouble 1 = 1 := by decide +kernel
theorem toDouble_third_ne : toDouble (1 / 3) ≠ 1 / 3 := by decide +kernel

theorem Num.mul_kind (n k : Num) :
    (n.mul k).kind = if n.kind = .flt ∨ k.kind = .flt then .flt
                     else if n.kind = .int ∧ k.kind = .int then .int else .frac := by
  cases n with | mk nv nk => cases k with | mk kv kk =>
  cases nk <;> cases kk <;> simp [Num.mul, Num.isFlt, Num.exactKind]

theorem Num.mul_one (n : Num) (h : n.kind = .flt → toDouble n.val = n.val) : n.mul ⟨1, .int⟩ = n := by
  cases n with | mk nv nk =>
  cases nk
  · simp [Num.mul, Num.isFlt, Num.exactKind, Rat.mul_one]
  · simp [Num.mul, Num.isFlt, Num.exactKind, Rat.mul_one]
  · have h' : toDouble nv = nv := h rfl
    simp [Num.mul, Num.isFlt, Num.toFlt, toDouble_one, Rat.mul_one, h']

theorem Num.mul_mul_exact (n a b : Num) (hn : n.kind ≠ .flt) (ha : a.kind ≠ .flt) (hb : b.kind ≠ .flt) :
    (n.mul a).mul b = n.mul (a.mul b) := by
  cases n with | mk nv nk => cases a with | mk av ak => cases b with | mk bv bk =>
  cases nk <;> cases ak <;> cases bk <;>
    simp_all [Num.mul, Num.isFlt, Num.exactKind, Rat.mul_assoc]

theorem Num.mul_mul_kind (n a b : Num) : ((n.mul a).mul b).kind = (n.mul (a.mul b)).kind := by
  cases n with | mk nv nk => cases a with | mk av ak => cases b with | mk bv bk =>
  cases nk <;> cases ak <;> cases bk <;> simp [Num.mul, Num.isFlt, Num.exactKind]

-- ---------------------------------------------------------------- reflexivity of the Python `==` model
instance : ReflBEq Num := ⟨fun {a} => by show Num.beq a a = true; simp [Num.beq]⟩
instance : ReflBEq Part := ⟨fun {a} => by
  show Part.beq a a = true
  cases a <;> simp [Part.beq]⟩
instance : ReflBEq Quantity := ⟨fun {a} => by show Quantity.beq a a = true; simp [Quantity.beq]⟩
instance : ReflBEq Amount := ⟨fun {a} => by
  show Amount.beq a a = true
  cases a <;> simp [Amount.beq]⟩

mutual
theorem Tree.beq_refl : ∀ t : Tree, Tree.beq t t = true
  | .ingredient d q => by simp [Tree.beq]
  | .step d i => by simp [Tree.beq, Tree.beqList_refl i]
  | .reference s n a => by simp [Tree.beq, Tree.beq_refl s]
  | .sub b ns sh => by simp [Tree.beq, Tree.beq_refl b]
theorem Tree.beqList_refl : ∀ ts : List Tree, Tree.beqList ts ts = true
  | [] => by simp [Tree.beqList]
  | t :: ts => by simp [Tree.beqList, Tree.beq_refl t, Tree.beqList_refl ts]
end

-- ---------------------------------------------------------------- SVS normal form
namespace Svs

def isText : Part → Bool
  | .text _ => true
  | .num _ => false

def startsText : List Part → Bool
  | p :: _ => isText p
  | [] => false

/-- recursive form of "no empty text part and no two adjacent text parts" -/
def Normal : List Part → Prop
  | [] => True
  | .num _ :: rest => Normal rest
  | .text a :: rest => a ≠ [] ∧ startsText rest = false ∧ Normal rest

/-- no two adjacent text parts -/
def NoAdj : List Part → Prop
  | [] => True
  | .num _ :: rest => NoAdj rest
  | .text _ :: rest => startsText rest = false ∧ NoAdj rest

def keep (p : Part) : Bool := match p with | .text [] => false | _ => true

theorem normalise_eq (ps : List Part) : normalise ps = (merge ps).filter keep := rfl

theorem merge_noAdj : ∀ ps : List Part, NoAdj (merge ps)
  | [] => by simp [merge, NoAdj]
  | .num n :: rest => by simp [merge, NoAdj, merge_noAdj rest]
  | .text a :: rest => by
    have ih := merge_noAdj rest
    simp only [merge]
    split
    · rename_i b rest' hm
      rw [hm] at ih
      exact ih
    · rename_i r hne
      refine ⟨?_, ih⟩
      cases hm : merge rest with
      | nil => rfl
      | cons p r' =>
        cases p with
        | num n => rfl
        | text b => exact absurd hm (hne b r')

theorem startsText_filter_keep : ∀ l : List Part, startsText l = false → startsText (l.filter keep) = false
  | [], _ => rfl
  | .num n :: rest, _ => by
    have : keep (.num n) = true := rfl
    simp [this, startsText, isText]
  | .text a :: rest, h => by simp [startsText, isText] at h

theorem filter_keep_normal : ∀ l : List Part, NoAdj l → Normal (l.filter keep)
  | [], _ => by simp [Normal]
  | .num n :: rest, h => by
    have : keep (.num n) = true := rfl
    simp only [List.filter_cons, this, if_true, Normal]
    exact filter_keep_normal rest h
  | .text a :: rest, h => by
    obtain ⟨h1, h2⟩ := h
    cases a with
    | nil =>
      have : keep (.text []) = false := rfl
      simp only [List.filter_cons, this]
      exact filter_keep_normal rest h2
    | cons c cs =>
      have : keep (.text (c :: cs)) = true := rfl
      simp only [List.filter_cons, this, if_true, Normal]
      exact ⟨by simp, startsText_filter_keep rest h1, filter_keep_normal rest h2⟩

theorem normalise_normal' (ps : List Part) : Normal (normalise ps) :=
  filter_keep_normal _ (merge_noAdj ps)

theorem merge_of_normal : ∀ s : List Part, Normal s → merge s = s
  | [], _ => rfl
  | .num n :: rest, h => by simp [merge, merge_of_normal rest h]
  | .text a :: rest, h => by
    obtain ⟨_, h2, h3⟩ := h
    have ih := merge_of_normal rest h3
    simp only [merge, ih]
    cases rest with
    | nil => rfl
    | cons p r =>
      cases p with
      | num n => rfl
      | text b => simp [startsText, isText] at h2

theorem filter_keep_of_normal : ∀ s : List Part, Normal s → s.filter keep = s
  | [], _ => rfl
  | .num n :: rest, h => by
    have : keep (.num n) = true := rfl
    simp [this, filter_keep_of_normal rest h]
  | .text a :: rest, h => by
    obtain ⟨h1, _, h3⟩ := h
    cases a with
    | nil => exact absurd rfl h1
    | cons c cs =>
      have : keep (.text (c :: cs)) = true := rfl
      simp [this, filter_keep_of_normal rest h3]

theorem normalise_of_normal (s : List Part) (h : Normal s) : normalise s = s := by
  rw [normalise_eq, merge_of_normal s h, filter_keep_of_normal s h]

/-- a map that keeps text parts and sends numbers to numbers -/
def ShapeKeeping (f : Part → Part) : Prop :=
  (∀ t, f (.text t) = .text t) ∧ (∀ n, ∃ m, f (.num n) = .num m)

theorem startsText_map (f : Part → Part) (hf : ShapeKeeping f) :
    ∀ s : List Part, startsText (s.map f) = startsText s
  | [] => rfl
  | .text t :: _ => by simp [startsText, hf.1, isText]
  | .num n :: _ => by
    obtain ⟨m, hm⟩ := hf.2 n
    simp [startsText, hm, isText]

theorem normal_map (f : Part → Part) (hf : ShapeKeeping f) :
    ∀ s : List Part, Normal s → Normal (s.map f)
  | [], _ => by simp [Normal]
  | .num n :: rest, h => by
    obtain ⟨m, hm⟩ := hf.2 n
    simp only [List.map_cons, hm, Normal]
    exact normal_map f hf rest h
  | .text t :: rest, h => by
    obtain ⟨h1, h2, h3⟩ := h
    simp only [List.map_cons, hf.1, Normal]
    exact ⟨h1, by rw [startsText_map f hf]; exact h2, normal_map f hf rest h3⟩

/-- the part-wise map performed by `Svs.scale` before re-normalising -/
def scalePart (k : Num) (p : Part) : Part :=
  match p with | .text t => .text t | .num n => .num (n.mul k)

theorem scalePart_shape (k : Num) : ShapeKeeping (scalePart k) :=
  ⟨fun _ => rfl, fun n => ⟨n.mul k, rfl⟩⟩

theorem scale_eq (k : Num) (s : SVS) : scale k s = normalise (s.map (scalePart k)) := rfl

theorem scale_of_normal (k : Num) (s : SVS) (h : Normal s) : scale k s = s.map (scalePart k) := by
  rw [scale_eq, normalise_of_normal _ (normal_map _ (scalePart_shape k) s h)]

theorem scale_normal (k : Num) (s : SVS) : Normal (scale k s) := normalise_normal' _

-- numbers are untouched by merge and filter
theorem filterMap_merge {α} (f : Part → Option α) (hf : ∀ t, f (.text t) = none) :
    ∀ ps : List Part, (merge ps).filterMap f = ps.filterMap f
  | [] => rfl
  | .num n :: rest => by
    simp only [merge, List.filterMap_cons, filterMap_merge f hf rest]
  | .text a :: rest => by
    have ih := filterMap_merge f hf rest
    simp only [merge]
    split
    · rename_i b rest' hm
      rw [hm] at ih
      simp only [List.filterMap_cons, hf] at ih ⊢
      exact ih
    · simp only [List.filterMap_cons, hf, ih]

theorem filterMap_filter_keep {α} (f : Part → Option α) (hf : ∀ t, f (.text t) = none) :
    ∀ ps : List Part, (ps.filter keep).filterMap f = ps.filterMap f
  | [] => rfl
  | .num n :: rest => by
    have : keep (.num n) = true := rfl
    simp only [List.filter_cons, this, if_true, List.filterMap_cons, filterMap_filter_keep f hf rest]
  | .text a :: rest => by
    cases hk : keep (.text a) <;>
      simp [hk, hf, filterMap_filter_keep f hf rest]

theorem filterMap_normalise {α} (f : Part → Option α) (hf : ∀ t, f (.text t) = none) (ps : List Part) :
    (normalise ps).filterMap f = ps.filterMap f := by
  rw [normalise_eq, filterMap_filter_keep f hf, filterMap_merge f hf]

/-- declarative reading of `Normal` -/
theorem normal_iff (s : List Part) :
    Normal s ↔ (∀ p ∈ s, p ≠ .text []) ∧ ∀ l a b r, s ≠ l ++ .text a :: .text b :: r := by
  induction s with
  | nil => simp [Normal]
  | cons p rest ih =>
    cases p with
    | num n =>
      simp only [Normal, ih]
      constructor
      · rintro ⟨h1, h2⟩
        refine ⟨?_, ?_⟩
        · intro p hp
          cases hp with
          | head => simp
          | tail _ hp => exact h1 p hp
        · intro l a b r heq
          cases l with
          | nil => simp at heq
          | cons x l =>
            simp only [List.cons_append, List.cons.injEq] at heq
            exact h2 l a b r heq.2
      · rintro ⟨h1, h2⟩
        refine ⟨fun p hp => h1 p (List.mem_cons_of_mem _ hp), ?_⟩
        intro l a b r heq
        exact h2 (.num n :: l) a b r (by simp [heq])
    | text t =>
      simp only [Normal, ih]
      constructor
      · rintro ⟨ht, hs, h1, h2⟩
        refine ⟨?_, ?_⟩
        · intro p hp
          cases hp with
          | head => intro h; injection h with h; exact ht h
          | tail _ hp => exact h1 p hp
        · intro l a b r heq
          cases l with
          | nil =>
            simp only [List.nil_append, List.cons.injEq] at heq
            rw [heq.2] at hs
            simp [startsText, isText] at hs
          | cons x l =>
            simp only [List.cons_append, List.cons.injEq] at heq
            exact h2 l a b r heq.2
      · rintro ⟨h1, h2⟩
        refine ⟨?_, ?_, fun p hp => h1 p (List.mem_cons_of_mem _ hp), ?_⟩
        · intro h
          exact h1 (.text t) (List.mem_cons_self) (by rw [h])
        · cases rest with
          | nil => rfl
          | cons q r =>
            cases q with
            | num n => rfl
            | text b => exact absurd rfl (h2 [] t b r)
        · intro l a b r heq
          exact h2 (.text t :: l) a b r (by simp [heq])

end Svs

-- ---------------------------------------------------------------- scale and the reference walk
theorem Tree.scaleList_eq_map (k : Num) : ∀ ts : List Tree, Tree.scaleList k ts = ts.map (Tree.scale k)
  | [] => rfl
  | t :: ts => by simp [Tree.scaleList, Tree.scaleList_eq_map k ts]

theorem Tree.isSub_scale (k : Num) (t : Tree) : (Tree.scale k t).isSub = t.isSub := by
  cases t <;> simp [Tree.scale, Tree.isSub]

mutual
theorem Tree.refTargets_scale (k : Num) : ∀ t : Tree,
    Tree.refTargets (Tree.scale k t) = (Tree.refTargets t).map (Tree.scale k)
  | .ingredient d q => by simp [Tree.scale, Tree.refTargets]
  | .step d i => by simp [Tree.scale, Tree.refTargets, Tree.refTargetsList_scale k i]
  | .reference s n a => by simp [Tree.scale, Tree.refTargets, Tree.refTargets_scale k s]
  | .sub b ns sh => by simp [Tree.scale, Tree.refTargets, Tree.refTargets_scale k b]
theorem Tree.refTargetsList_scale (k : Num) : ∀ ts : List Tree,
    Tree.refTargetsList (Tree.scaleList k ts) = (Tree.refTargetsList ts).map (Tree.scale k)
  | [] => by simp [Tree.scaleList, Tree.refTargetsList]
  | t :: ts => by
    simp [Tree.scaleList, Tree.refTargetsList, Tree.refTargets_scale k t, Tree.refTargetsList_scale k ts]
end

theorem Tree.filter_isSub_scaleList (k : Num) (b : List Tree) :
    (Tree.scaleList k b).filter Tree.isSub = (b.filter Tree.isSub).map (Tree.scale k) := by
  rw [Tree.scaleList_eq_map, List.filter_map]
  congr 1
  apply List.filter_congr
  intro t _
  simp [Function.comp, Tree.isSub_scale]

theorem Tree.canBeChild_iff (t : Tree) : t.canBeChild = true ↔ t.numOutputs ≤ 1 := by
  cases t <;> simp [Tree.canBeChild, Tree.numOutputs]

theorem Tree.mem_refTargetsList {s t : Tree} : ∀ {ts : List Tree}, t ∈ ts → s ∈ Tree.refTargets t →
    s ∈ Tree.refTargetsList ts
  | _ :: ts, ht, hs => by
    simp only [Tree.refTargetsList, List.mem_append]
    cases ht with
    | head => exact Or.inl hs
    | tail _ ht => exact Or.inr (Tree.mem_refTargetsList ht hs)

theorem Tree.of_mem_refTargetsList {s : Tree} : ∀ {ts : List Tree}, s ∈ Tree.refTargetsList ts →
    ∃ t ∈ ts, s ∈ Tree.refTargets t
  | t :: ts, h => by
    simp only [Tree.refTargetsList, List.mem_append] at h
    cases h with
    | inl h => exact ⟨t, List.mem_cons_self, h⟩
    | inr h =>
      obtain ⟨t', ht', hs⟩ := Tree.of_mem_refTargetsList h
      exact ⟨t', List.mem_cons_of_mem _ ht', hs⟩

-- ---------------------------------------------------------------- checkBlock(s) by positions
/-- `checkBlock` read by positions inside the block -/
theorem checkBlock_iff : ∀ (b : Block) (prev : List Tree),
    checkBlock prev b = true ↔
      ∀ (ti : Nat) (t : Tree), b[ti]? = some t → ∀ s ∈ Tree.refTargets t,
        (∃ r ∈ prev, Tree.beq s r = true) ∨
        ∃ (tj : Nat) (r : Tree), tj < ti ∧ b[tj]? = some r ∧ r.isSub = true ∧ Tree.beq s r = true
  | [], prev => by simp [checkBlock]
  | t :: ts, prev => by
    have ih := checkBlock_iff ts (if t.isSub then t :: prev else prev)
    simp only [checkBlock, Bool.and_eq_true, List.all_eq_true, List.any_eq_true, ih]
    constructor
    · rintro ⟨h0, hs⟩ ti t' hti s hs'
      cases ti with
      | zero =>
        simp only [List.getElem?_cons_zero, Option.some.injEq] at hti
        subst hti
        exact Or.inl (h0 s hs')
      | succ ti =>
        simp only [List.getElem?_cons_succ] at hti
        rcases hs ti t' hti s hs' with ⟨r, hr, hb⟩ | ⟨tj, r, hlt, hr, hsub, hb⟩
        · cases hsub : t.isSub with
          | false =>
            simp only [hsub] at hr
            exact Or.inl ⟨r, hr, hb⟩
          | true =>
            simp only [hsub, if_true, List.mem_cons] at hr
            rcases hr with rfl | hr
            · exact Or.inr ⟨0, r, Nat.succ_pos _, by simp, hsub, hb⟩
            · exact Or.inl ⟨r, hr, hb⟩
        · exact Or.inr ⟨tj + 1, r, Nat.succ_lt_succ hlt, by simpa using hr, hsub, hb⟩
    · intro h
      refine ⟨?_, ?_⟩
      · intro s hs
        rcases h 0 t (by simp) s hs with hl | ⟨tj, _, hlt, _⟩
        · exact hl
        · exact absurd hlt (Nat.not_lt_zero _)
      · intro ti t' hti s hs
        rcases h (ti + 1) t' (by simpa using hti) s hs with ⟨r, hr, hb⟩ | ⟨tj, r, hlt, hr, hsub, hb⟩
        · refine Or.inl ⟨r, ?_, hb⟩
          cases t.isSub <;> simp [hr]
        · cases tj with
          | zero =>
            simp only [List.getElem?_cons_zero, Option.some.injEq] at hr
            subst hr
            exact Or.inl ⟨t, by simp [hsub], hb⟩
          | succ tj =>
            simp only [List.getElem?_cons_succ] at hr
            exact Or.inr ⟨tj, r, Nat.lt_of_succ_lt_succ hlt, hr, hsub, hb⟩

/-- `checkBlocks` read by positions (block index, tree index) -/
theorem checkBlocks_iff : ∀ (bs : List Block) (prev : List Tree),
    checkBlocks prev bs = true ↔
      ∀ (bi ti : Nat) (t : Tree), bs[bi]?.bind (·[ti]?) = some t → ∀ s ∈ Tree.refTargets t,
        (∃ r ∈ prev, Tree.beq s r = true) ∨
        ∃ (bj tj : Nat) (r : Tree), (bj < bi ∨ (bj = bi ∧ tj < ti)) ∧ bs[bj]?.bind (·[tj]?) = some r ∧
          r.isSub = true ∧ Tree.beq s r = true
  | [], prev => by simp [checkBlocks]
  | b :: bs, prev => by
    have ih := checkBlocks_iff bs (prev ++ b.filter Tree.isSub)
    simp only [checkBlocks, Bool.and_eq_true, ih, checkBlock_iff]
    constructor
    · rintro ⟨h0, hs⟩ bi ti t hti s hs'
      cases bi with
      | zero =>
        simp only [List.getElem?_cons_zero, Option.bind_some] at hti
        rcases h0 ti t hti s hs' with hl | ⟨tj, r, hlt, hr, hsub, hb⟩
        · exact Or.inl hl
        · exact Or.inr ⟨0, tj, r, Or.inr ⟨rfl, hlt⟩, by simpa using hr, hsub, hb⟩
      | succ bi =>
        simp only [List.getElem?_cons_succ] at hti
        rcases hs bi ti t hti s hs' with ⟨r, hr, hb⟩ | ⟨bj, tj, r, hlt, hr, hsub, hb⟩
        · rcases List.mem_append.1 hr with hr | hr
          · exact Or.inl ⟨r, hr, hb⟩
          · obtain ⟨hrb, hsub⟩ := List.mem_filter.1 hr
            obtain ⟨tj, htj⟩ := List.mem_iff_getElem?.1 hrb
            exact Or.inr ⟨0, tj, r, Or.inl (Nat.succ_pos _), by simpa using htj, hsub, hb⟩
        · refine Or.inr ⟨bj + 1, tj, r, ?_, by simpa using hr, hsub, hb⟩
          rcases hlt with h | ⟨h1, h2⟩
          · exact Or.inl (Nat.succ_lt_succ h)
          · exact Or.inr ⟨by rw [h1], h2⟩
    · intro h
      refine ⟨?_, ?_⟩
      · intro ti t hti s hs
        rcases h 0 ti t (by simpa using hti) s hs with hl | ⟨bj, tj, r, hlt, hr, hsub, hb⟩
        · exact Or.inl hl
        · rcases hlt with h | ⟨h1, h2⟩
          · exact absurd h (Nat.not_lt_zero _)
          · subst h1
            exact Or.inr ⟨tj, r, h2, by simpa using hr, hsub, hb⟩
      · intro bi ti t hti s hs
        rcases h (bi + 1) ti t (by simpa using hti) s hs with ⟨r, hr, hb⟩ | ⟨bj, tj, r, hlt, hr, hsub, hb⟩
        · exact Or.inl ⟨r, List.mem_append_left _ hr, hb⟩
        · cases bj with
          | zero =>
            simp only [List.getElem?_cons_zero, Option.bind_some] at hr
            exact Or.inl ⟨r, List.mem_append_right _
              (List.mem_filter.2 ⟨List.mem_of_getElem? hr, hsub⟩), hb⟩
          | succ bj =>
            simp only [List.getElem?_cons_succ] at hr
            refine Or.inr ⟨bj, tj, r, ?_, hr, hsub, hb⟩
            rcases hlt with h | ⟨h1, h2⟩
            · exact Or.inl (Nat.lt_of_succ_lt_succ h)
            · exact Or.inr ⟨Nat.succ.inj h1, h2⟩

end RG
