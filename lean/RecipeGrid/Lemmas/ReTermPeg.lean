import RecipeGrid.Model.PegRegex
import RecipeGrid.Lemmas.ReTermCi
/-! The generic PEG recogniser depends on its table of terminals only through what each terminal of the grammar does: two
    tables that agree on the terminals occurring in the rules give the same run (for every grammar, text, fuel, rule). -/
namespace RG
namespace Peg
open Parser

theorem pegExpr_congr {call call' : String → Nat → PegRes} {terms terms' : String → Option (P Unit)} {t : Array Char}
    (hcall : ∀ n i, call n i = call' n i) : ∀ (e : PExpr),
    (∀ re ∈ e.terminals, ∀ i, pegExpr call terms t (.term re) i = pegExpr call' terms' t (.term re) i) →
    ∀ i, pegExpr call terms t e i = pegExpr call' terms' t e i
  | .empty, _, _ => rfl
  | .term re, h, i => h re (by simp [PExpr.terminals]) i
  | .rule name, _, i => hcall name i
  | .cat a b, h, i => by
    have ha := pegExpr_congr hcall a (fun re hre => h re (by simp [PExpr.terminals, hre]))
    have hb := pegExpr_congr hcall b (fun re hre => h re (by simp [PExpr.terminals, hre]))
    simp only [pegExpr, ha i]
    cases pegExpr call' terms' t a i <;> simp only [hb]
  | .alt a b, h, i => by
    have ha := pegExpr_congr hcall a (fun re hre => h re (by simp [PExpr.terminals, hre]))
    have hb := pegExpr_congr hcall b (fun re hre => h re (by simp [PExpr.terminals, hre]))
    simp only [pegExpr, ha i, hb i]
  | .star e, h, i => by
    have he : pegExpr call terms t e = pegExpr call' terms' t e :=
      funext (pegExpr_congr hcall e (fun re hre => h re (by simpa [PExpr.terminals] using hre)))
    simp only [pegExpr, he]
  | .plus e, h, i => by
    have he : pegExpr call terms t e = pegExpr call' terms' t e :=
      funext (pegExpr_congr hcall e (fun re hre => h re (by simpa [PExpr.terminals] using hre)))
    simp only [pegExpr, he]
  | .maybe e, h, i => by
    have he := pegExpr_congr hcall e (fun re hre => h re (by simpa [PExpr.terminals] using hre))
    simp only [pegExpr, he i]
  | .notp e, h, i => by
    have he := pegExpr_congr hcall e (fun re hre => h re (by simpa [PExpr.terminals] using hre))
    simp only [pegExpr, he i]
  | .andp e, h, i => by
    have he := pegExpr_congr hcall e (fun re hre => h re (by simpa [PExpr.terminals] using hre))
    simp only [pegExpr, he i]
  | .unsupported _, _, _ => rfl

theorem mem_of_lookup {α} {rules : List (String × α)} {name : String} {body : α} :
    rules.lookup name = some body → (name, body) ∈ rules := by
  induction rules with
  | nil => intro h; cases h
  | cons r rs ih =>
    obtain ⟨n, b⟩ := r
    intro h
    rw [List.lookup_cons] at h
    cases hn : name == n with
    | true =>
      rw [hn] at h
      simp only [Option.some.injEq] at h
      subst h
      rw [beq_iff_eq] at hn
      subst hn
      exact List.mem_cons_self
    | false =>
      rw [hn] at h
      exact List.mem_cons_of_mem _ (ih h)

/-- **the recogniser sees a table of terminals only through the terminals of the grammar** -/
theorem pegRun_congr (rules : List (String × PExpr)) {terms terms' : String → Option (P Unit)} (t : Array Char)
    (h : ∀ re ∈ rules.flatMap (fun r => r.2.terminals), ∀ i,
      pegExpr (fun _ _ => .fail) terms t (.term re) i = pegExpr (fun _ _ => .fail) terms' t (.term re) i) :
    ∀ fuel name i, pegRun rules terms t fuel name i = pegRun rules terms' t fuel name i
  | 0, _, _ => rfl
  | fuel + 1, name, i => by
    simp only [pegRun]
    cases hl : rules.lookup name with
    | none => rfl
    | some body =>
      refine pegExpr_congr (pegRun_congr rules t h fuel) body (fun re hre j => ?_) i
      have := h re (List.mem_flatMap.2 ⟨(name, body), mem_of_lookup hl, hre⟩) j
      simpa only [pegExpr] using this

/-- a scanner that is the `match` of `r` and the engine on `r` do the same as terminals -/
theorem term_eq_of_scanIs {call call' : String → Nat → PegRes} {terms terms' : String → Option (P Unit)} {re : String}
    {scan : P Unit} {r : Rx} (h1 : terms re = some scan) (h2 : terms' re = some (regexParser r)) (hs : Rx.ScanIs scan r)
    (t : Array Char) (i : Nat) : pegExpr call terms t (.term re) i = pegExpr call' terms' t (.term re) i := by
  simp only [pegExpr, h1, h2, hs t i false, regexParser]

end Peg
end RG
