import RecipeGrid.Lemmas.Parser
/-! Helpers for `Props/C06b.lean` (round trips of nested expressions, statements and blocks):
    decidable equality of the AST (for `decide +kernel` examples), and small facts about what
    follows a shorthand / an action name. -/
namespace RG

/-! ## decidable equality of `AExpr`, `AStmt`, `ParseResult` -/

mutual
def AExpr.decEq : (a b : AExpr) → Decidable (a = b)
  | .step n1 i1, .step n2 i2 =>
    if hn : n1 = n2 then
      match AExpr.decEqList i1 i2 with
      | isTrue hi => isTrue (by rw [hn, hi])
      | isFalse hi => isFalse (by intro e; cases e; exact hi rfl)
    else isFalse (by intro e; cases e; exact hn rfl)
  | .ref n1 a1, .ref n2 a2 =>
    if h : n1 = n2 ∧ a1 = a2 then isTrue (by rw [h.1, h.2])
    else isFalse (by intro e; cases e; exact h ⟨rfl, rfl⟩)
  | .step .., .ref .. => isFalse (by intro e; cases e)
  | .ref .., .step .. => isFalse (by intro e; cases e)
def AExpr.decEqList : (a b : List AExpr) → Decidable (a = b)
  | [], [] => isTrue rfl
  | a :: as, b :: bs =>
    match AExpr.decEq a b with
    | isTrue h1 =>
      match AExpr.decEqList as bs with
      | isTrue h2 => isTrue (by rw [h1, h2])
      | isFalse h2 => isFalse (by intro e; cases e; exact h2 rfl)
    | isFalse h1 => isFalse (by intro e; cases e; exact h1 rfl)
  | [], _ :: _ => isFalse (by intro e; cases e)
  | _ :: _, [] => isFalse (by intro e; cases e)
end

instance instDecidableEqAExprForParser : DecidableEq AExpr := AExpr.decEq

instance instDecidableEqAStmtForParser : DecidableEq AStmt := fun a b =>
  match a, b with
  | ⟨e1, o1, n1⟩, ⟨e2, o2, n2⟩ =>
    if h : e1 = e2 ∧ o1 = o2 ∧ n1 = n2 then isTrue (by rw [h.1, h.2.1, h.2.2])
    else isFalse (by intro e; cases e; exact h ⟨rfl, rfl, rfl⟩)

instance instDecidableEqParseResultForParser : DecidableEq ParseResult := fun a b =>
  match a, b with
  | .ok s1, .ok s2 => if h : s1 = s2 then isTrue (by rw [h]) else isFalse (by intro e; cases e; exact h rfl)
  | .syntaxError, .syntaxError => isTrue rfl
  | .zeroDivision, .zeroDivision => isTrue rfl
  | .ok _, .syntaxError => isFalse (by intro e; cases e)
  | .ok _, .zeroDivision => isFalse (by intro e; cases e)
  | .syntaxError, .ok _ => isFalse (by intro e; cases e)
  | .syntaxError, .zeroDivision => isFalse (by intro e; cases e)
  | .zeroDivision, .ok _ => isFalse (by intro e; cases e)
  | .zeroDivision, .syntaxError => isFalse (by intro e; cases e)

namespace Parser

/-! ## what follows -/

/-- white space and then a `)`: no further `, action` -/
theorem noComma_of_spaces_rparen {ws rest : Str} (hws : ∀ c ∈ ws, isReSpace c = true) :
    NoComma (ws ++ ')' :: rest) := by
  refine ⟨ws.takeWhile isHsp, ws.dropWhile isHsp ++ ')' :: rest, ?_, fun c hc => mem_takeWhile_imp hc, ?_⟩
  · rw [← List.append_assoc, List.takeWhile_append_dropWhile]
  · intro c hc
    cases hd : ws.dropWhile isHsp with
    | nil =>
      rw [hd] at hc
      simp only [List.nil_append, List.head?_cons, Option.some.injEq] at hc
      subst hc
      exact ⟨by decide, by decide⟩
    | cons x xs =>
      rw [hd] at hc
      simp only [List.cons_append, List.head?_cons, Option.some.injEq] at hc
      subst hc
      have h1 : isHsp x = false := by
        have := List.head?_dropWhile_not isHsp ws
        rw [hd] at this
        simpa using this
      refine ⟨h1, ?_⟩
      rintro rfl
      have : ',' ∈ ws := by
        have : ',' ∈ ws.dropWhile isHsp := by rw [hd]; simp
        exact (List.dropWhile_sublist isHsp).subset this
      exact absurd (hws _ this) (by decide)

/-- blanks and then a `(`: neither a comma nor an assignment sign -/
theorem noAssign_of_blanks_lparen {bl rest : Str} (hbl : ∀ c ∈ bl, isHsp c = true) :
    NoAssign (bl ++ '(' :: rest) := by
  refine ⟨bl, '(' :: rest, rfl, hbl, fun c hc => ?_, fun r' e => by cases e⟩
  simp only [List.head?_cons, Option.some.injEq] at hc
  subst hc
  exact ⟨by decide, by decide, by decide⟩

theorem ArgItemsOk.mono {d d' : Nat} (hd : d ≤ d') {rest : Str} : ∀ {as : List ArgItem},
    ArgItemsOk d rest as → ArgItemsOk d' rest as
  | [], _ => trivial
  | _ :: _, h => ⟨h.1, h.2.1, h.2.2.1.mono hd, ArgItemsOk.mono hd h.2.2.2⟩

end Parser
end RG
