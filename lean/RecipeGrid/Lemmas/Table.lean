import RecipeGrid.Model.Table
/-! Helper lemmas about the table layout (`Model/Table.lean`), used by `Props/C02.lean`. -/
namespace RG

-- ---------------------------------------------------------------- rectangles and coverage
structure Rect where
  top : Nat
  left : Nat
  bottom : Nat
  right : Nat
deriving DecidableEq, Repr

/-- the rectangle a cell occupies -/
def PCell.rect (x : PCell) : Rect := ⟨x.row, x.col, x.row + x.rows, x.col + x.cols⟩

def covers (x : PCell) (r c : Nat) : Bool :=
  x.row ≤ r && r < x.row + x.rows && x.col ≤ c && c < x.col + x.cols
def cover (cs : List PCell) (r c : Nat) : Nat := cs.countP (covers · r c)

/-- the cells `cs` tile the (non-empty) rectangle `R` -/
structure RTiles (cs : List PCell) (R : Rect) : Prop where
  ne : R.top < R.bottom ∧ R.left < R.right
  ok : ∀ x ∈ cs, 0 < x.rows ∧ 0 < x.cols ∧ R.top ≤ x.row ∧ x.row + x.rows ≤ R.bottom ∧
        R.left ≤ x.col ∧ x.col + x.cols ≤ R.right
  one : ∀ r c, R.top ≤ r → r < R.bottom → R.left ≤ c → c < R.right → cover cs r c = 1

theorem covers_iff (x : PCell) (r c : Nat) :
    covers x r c = true ↔ x.row ≤ r ∧ r < x.row + x.rows ∧ x.col ≤ c ∧ c < x.col + x.cols := by
  simp only [covers, Bool.and_eq_true, decide_eq_true_eq]; grind

theorem cover_append (a b : List PCell) (r c : Nat) : cover (a ++ b) r c = cover a r c + cover b r c := by
  simp [cover, List.countP_append]

theorem cover_eq_zero_of (cs : List PCell) (r c : Nat) (h : ∀ x ∈ cs, covers x r c = false) : cover cs r c = 0 := by
  simp only [cover, List.countP_eq_zero]
  intro x hx; simp [h x hx]

theorem cover_map_congr (f : PCell → PCell) (cs : List PCell) (r c r' c' : Nat)
    (h : ∀ x ∈ cs, covers (f x) r c = covers x r' c') : cover (cs.map f) r c = cover cs r' c' := by
  simp only [cover, List.countP_map, Function.comp_def]
  exact List.countP_congr (fun x hx => by simp [h x hx])

theorem cover_map_zero (f : PCell → PCell) (cs : List PCell) (r c : Nat)
    (h : ∀ x ∈ cs, covers (f x) r c = false) : cover (cs.map f) r c = 0 := by
  apply cover_eq_zero_of
  intro y hy
  obtain ⟨x, hx, rfl⟩ := List.mem_map.1 hy
  exact h x hx

theorem RTiles.zero_outside {cs : List PCell} {R : Rect} (h : RTiles cs R) (r c : Nat)
    (ho : r < R.top ∨ R.bottom ≤ r ∨ c < R.left ∨ R.right ≤ c) : cover cs r c = 0 := by
  apply cover_eq_zero_of
  intro x hx
  have := h.ok x hx
  rw [Bool.eq_false_iff]; intro hc; rw [covers_iff] at hc; omega

/-- a transformation that keeps the geometry keeps the tiling -/
theorem RTiles.map_geo {cs : List PCell} {R : Rect} (h : RTiles cs R) (f : PCell → PCell)
    (hf : ∀ x, (f x).row = x.row ∧ (f x).col = x.col ∧ (f x).rows = x.rows ∧ (f x).cols = x.cols) :
    RTiles (cs.map f) R := by
  refine ⟨h.ne, ?_, ?_⟩
  · intro y hy
    obtain ⟨x, hx, rfl⟩ := List.mem_map.1 hy
    have := h.ok x hx; have := hf x; omega
  · intro r c h1 h2 h3 h4
    rw [cover_map_congr f cs r c r c]
    · exact h.one r c h1 h2 h3 h4
    · intro x _; have := hf x; simp only [covers]; grind

theorem RTiles.shiftDown {cs : List PCell} {R : Rect} (h : RTiles cs R) (d : Nat) :
    RTiles (cs.map (shiftDown d)) ⟨R.top + d, R.left, R.bottom + d, R.right⟩ := by
  refine ⟨by have := h.ne; simp only; omega, ?_, ?_⟩
  · intro y hy
    obtain ⟨x, hx, rfl⟩ := List.mem_map.1 hy
    have := h.ok x hx; simp only [RG.shiftDown]; omega
  · intro r c h1 h2 h3 h4
    simp only at h1 h2 h3 h4
    rw [cover_map_congr (RG.shiftDown d) cs r c (r - d) c]
    · exact h.one _ _ (by omega) (by omega) h3 h4
    · intro x _
      rw [Bool.eq_iff_iff, covers_iff, covers_iff]; simp only [RG.shiftDown]; omega

theorem RTiles.shiftRight {cs : List PCell} {R : Rect} (h : RTiles cs R) (d : Nat) :
    RTiles (cs.map (shiftRight d)) ⟨R.top, R.left + d, R.bottom, R.right + d⟩ := by
  refine ⟨by have := h.ne; simp only; omega, ?_, ?_⟩
  · intro y hy
    obtain ⟨x, hx, rfl⟩ := List.mem_map.1 hy
    have := h.ok x hx; simp only [RG.shiftRight]; omega
  · intro r c h1 h2 h3 h4
    simp only at h1 h2 h3 h4
    rw [cover_map_congr (RG.shiftRight d) cs r c r (c - d)]
    · exact h.one _ _ h1 h2 (by omega) (by omega)
    · intro x _
      rw [Bool.eq_iff_iff, covers_iff, covers_iff]; simp only [RG.shiftRight]; omega

/-- the effect of `padCell` on a right edge -/
def padEdge (w0 w c : Nat) : Nat := if c = w0 then w else c

theorem padEdge_self (w c : Nat) : padEdge w w c = c := by
  unfold padEdge; split <;> simp_all

theorem padCell_geo' (w0 w : Nat) (x : PCell) :
    (padCell w0 w x).path = x.path ∧ (padCell w0 w x).kind = x.kind ∧ (padCell w0 w x).row = x.row ∧
    (padCell w0 w x).rows = x.rows ∧ (padCell w0 w x).col = x.col := by
  unfold padCell; split <;> simp

theorem padCell_geo (w0 w : Nat) (x : PCell) (h1 : 0 < x.cols) (_h2 : x.col + x.cols ≤ w0) (hw : w0 < w) :
    (padCell w0 w x).row = x.row ∧ (padCell w0 w x).rows = x.rows ∧ (padCell w0 w x).col = x.col ∧
    (padCell w0 w x).col + (padCell w0 w x).cols = padEdge w0 w (x.col + x.cols) ∧
    (padCell w0 w x).path = x.path ∧ (padCell w0 w x).kind = x.kind := by
  unfold padCell padEdge
  split <;> simp <;> omega

theorem RTiles.pad {cs : List PCell} {R : Rect} (h : RTiles cs R) (w0 w : Nat) (hR : R.right ≤ w0) (hw : w0 < w) :
    RTiles (cs.map (padCell w0 w)) ⟨R.top, R.left, R.bottom, padEdge w0 w R.right⟩ := by
  have hne := h.ne
  refine ⟨by simp only [padEdge]; split <;> omega, ?_, ?_⟩
  · intro y hy
    obtain ⟨x, hx, rfl⟩ := List.mem_map.1 hy
    have hx' := h.ok x hx
    have := padCell_geo w0 w x hx'.2.1 (by omega) hw
    simp only [padEdge] at this ⊢
    refine ⟨by omega, ?_, by omega, by omega, by omega, ?_⟩
    · split at this <;> omega
    · split at this <;> split <;> omega
  · intro r c h1 h2 h3 h4
    simp only at h1 h2 h3 h4
    rw [cover_map_congr (padCell w0 w) cs r c r (if c < w0 then c else w0 - 1)]
    · simp only [padEdge] at h4
      apply h.one _ _ h1 h2 <;> split <;> split at h4 <;> omega
    · intro x hx
      have hx' := h.ok x hx
      have := padCell_geo w0 w x hx'.2.1 (by omega) hw
      simp only [padEdge] at this h4
      rw [Bool.eq_iff_iff, covers_iff, covers_iff]
      split <;> split at this <;> split at h4 <;> omega

theorem RTiles.vappend {a b : List PCell} {Ra Rb R : Rect} (ha : RTiles a Ra) (hb : RTiles b Rb)
    (h1 : Ra.left = Rb.left) (h2 : Ra.right = Rb.right) (h3 : Ra.bottom = Rb.top)
    (hR : R = ⟨Ra.top, Ra.left, Rb.bottom, Ra.right⟩) : RTiles (a ++ b) R := by
  subst hR
  have hna := ha.ne; have hnb := hb.ne
  refine ⟨by simp only; omega, ?_, ?_⟩
  · intro x hx
    rcases List.mem_append.1 hx with hx | hx
    · have := ha.ok x hx; simp only; omega
    · have := hb.ok x hx; simp only; omega
  · intro r c h4 h5 h6 h7
    simp only at h4 h5 h6 h7
    rw [cover_append]
    by_cases hr : r < Ra.bottom
    · rw [ha.one r c h4 hr h6 h7, hb.zero_outside r c (by omega)]
    · rw [ha.zero_outside r c (by omega), hb.one r c (by omega) h5 (by omega) (by omega)]

theorem RTiles.happend {a b : List PCell} {Ra Rb R : Rect} (ha : RTiles a Ra) (hb : RTiles b Rb)
    (h1 : Ra.top = Rb.top) (h2 : Ra.bottom = Rb.bottom) (h3 : Ra.right = Rb.left)
    (hR : R = ⟨Ra.top, Ra.left, Ra.bottom, Rb.right⟩) : RTiles (a ++ b) R := by
  subst hR
  have hna := ha.ne; have hnb := hb.ne
  refine ⟨by simp only; omega, ?_, ?_⟩
  · intro x hx
    rcases List.mem_append.1 hx with hx | hx
    · have := ha.ok x hx; simp only; omega
    · have := hb.ok x hx; simp only; omega
  · intro r c h4 h5 h6 h7
    simp only at h4 h5 h6 h7
    rw [cover_append]
    by_cases hc : c < Ra.right
    · rw [ha.one r c h4 h5 h6 hc, hb.zero_outside r c (by omega)]
    · rw [ha.zero_outside r c (by omega), hb.one r c (by omega) (by omega) (by omega) h7]

theorem RTiles.single (x : PCell) (R : Rect) (h1 : 0 < x.rows) (h2 : 0 < x.cols)
    (hR : R = ⟨x.row, x.col, x.row + x.rows, x.col + x.cols⟩) : RTiles [x] R := by
  subst hR
  refine ⟨by simp only; omega, ?_, ?_⟩
  · intro y hy; simp only [List.mem_singleton] at hy; subst hy; simp only; omega
  · intro r c h3 h4 h5 h6
    simp only at h3 h4 h5 h6
    have : covers x r c = true := by rw [covers_iff]; omega
    simp [cover, this]

-- ---------------------------------------------------------------- tables
/-- the cells tile the whole (non-empty) table -/
def Good (t : Tbl) : Prop := RTiles t.cells ⟨0, 0, t.h, t.w⟩

theorem pad_h (t : Tbl) (w : Nat) : (pad t w).h = t.h := by
  unfold pad; split <;> rfl
theorem pad_w (t : Tbl) (w : Nat) : (pad t w).w = max t.w w := by
  unfold pad
  split
  · rename_i h; show t.w = max t.w w; omega
  · rename_i h; show w = max t.w w; omega

theorem Good.pad {t : Tbl} (h : Good t) (w : Nat) : Good (pad t w) := by
  unfold RG.pad
  split
  · exact h
  · rename_i hlt
    have := RTiles.pad h t.w w (Nat.le_refl _) (by omega)
    simpa [Good, padEdge] using this

theorem Good.vcat {a b : Tbl} (ha : Good a) (hb : Good b) (hw : a.w = b.w) : Good (vcat a b) := by
  have hb' := RTiles.shiftDown hb a.h
  exact RTiles.vappend ha hb' rfl (by simp [hw]) (by simp) (by simp [RG.vcat, Nat.add_comm])

theorem Good.hcat {a b : Tbl} (ha : Good a) (hb : Good b) (hh : a.h = b.h) : Good (hcat a b) := by
  have hb' := RTiles.shiftRight hb a.w
  exact RTiles.happend ha hb' rfl (by simp [hh]) (by simp) (by simp [RG.hcat, Nat.add_comm])

theorem Good.setBorder {t : Tbl} (h : Good t) (b : Border) : Good (setBorder t b) :=
  RTiles.map_geo h _ (fun _ => ⟨rfl, rfl, rfl, rfl⟩)

theorem Good.single (x : PCell) (h w : Nat) (hh : 0 < h) (hw : 0 < w)
    (hx : x.row = 0 ∧ x.col = 0 ∧ x.rows = h ∧ x.cols = w) : Good ⟨h, w, [x]⟩ :=
  RTiles.single x _ (by omega) (by omega) (by simp [hx])

theorem vstack_cons (t : Tbl) (ts : List Tbl) : vstack (t :: ts) = vcat t (vstack ts) := by
  cases ts with
  | nil => cases t; simp [vstack, vcat]
  | cons a as => rfl

theorem maxWidth_ge (ts : List Tbl) : ∀ t ∈ ts, t.w ≤ maxWidth ts := by
  induction ts with
  | nil => simp
  | cons a as ih =>
    intro t ht
    simp only [List.mem_cons] at ht
    rcases ht with rfl | ht
    · simp only [maxWidth]; omega
    · have := ih t ht; simp only [maxWidth]; omega

/-- stacking good tables padded to a common width -/
theorem good_vstack_pad (w : Nat) (ts : List Tbl) (hne : ts ≠ []) (hg : ∀ t ∈ ts, Good t)
    (hle : ∀ t ∈ ts, t.w ≤ w) :
    Good (vstack (ts.map (pad · w))) ∧ (vstack (ts.map (pad · w))).w = w := by
  induction ts with
  | nil => exact absurd rfl hne
  | cons a as ih =>
    have ha := hg a (by simp)
    have hla := hle a (by simp)
    have hpw : (RG.pad a w).w = w := by rw [pad_w]; omega
    simp only [List.map_cons, vstack_cons]
    by_cases has : as = []
    · subst has
      have : RG.vcat (RG.pad a w) (vstack (List.map (fun x => RG.pad x w) [])) = RG.pad a w := by
        rw [← vstack_cons]; rfl
      rw [this]
      exact ⟨ha.pad w, hpw⟩
    · obtain ⟨ih1, ih2⟩ := ih has (fun t ht => hg t (by simp [ht])) (fun t ht => hle t (by simp [ht]))
      exact ⟨Good.vcat (ha.pad w) ih1 (by rw [hpw, ih2]), by simp [RG.vcat, hpw]⟩

-- ---------------------------------------------------------------- well-formed trees, the main induction
mutual
def wf : Tree → Bool
  | .ingredient .. => true
  | .reference .. => true
  | .step _ inputs => !inputs.isEmpty && wfList inputs
  | .sub body _ _ => wf body
def wfList : List Tree → Bool
  | [] => true
  | t :: ts => wf t && wfList ts
end

theorem layoutInputs_ne (p : List Nat) (i : Nat) (ts : List Tree) (h : ts ≠ []) : layoutInputs p i ts ≠ [] := by
  cases ts with
  | nil => exact absurd rfl h
  | cons a as => simp [layoutInputs]

mutual
theorem layoutAt_good : ∀ (t : Tree) (p : List Nat) (root : Bool), wf t = true → Good (layoutAt p root t)
  | .ingredient .., p, root, _ => by
    simp only [layoutAt]
    have : Good ⟨1, 1, [{ row := 0, col := 0, rows := 1, cols := 1, path := p, kind := .ingredient }]⟩ :=
      Good.single _ 1 1 (by omega) (by omega) (by simp)
    split
    · exact this.setBorder _
    · exact this
  | .reference .., p, root, _ => by
    simp only [layoutAt]
    have : Good ⟨1, 1, [{ row := 0, col := 0, rows := 1, cols := 1, path := p, kind := .reference }]⟩ :=
      Good.single _ 1 1 (by omega) (by omega) (by simp)
    split
    · exact this.setBorder _
    · exact this
  | .step _ inputs, p, root, h => by
    simp only [wf, Bool.and_eq_true, Bool.not_eq_true', List.isEmpty_eq_false_iff] at h
    have hi := layoutInputs_good inputs p 0 h.2
    have hs := good_vstack_pad (maxWidth (layoutInputs p 0 inputs)) (layoutInputs p 0 inputs)
      (layoutInputs_ne p 0 inputs h.1) hi (maxWidth_ge _)
    simp only [layoutAt]
    have hh := hs.1.ne.1
    have : Good (hcat (vstack ((layoutInputs p 0 inputs).map (pad · (maxWidth (layoutInputs p 0 inputs)))))
        ⟨(vstack ((layoutInputs p 0 inputs).map (pad · (maxWidth (layoutInputs p 0 inputs))))).h, 1,
          [{ row := 0, col := 0,
             rows := (vstack ((layoutInputs p 0 inputs).map (pad · (maxWidth (layoutInputs p 0 inputs))))).h,
             cols := 1, path := p, kind := .step }]⟩) :=
      Good.hcat hs.1 (Good.single _ _ 1 hh (by omega) (by simp)) rfl
    split
    · exact this.setBorder _
    · exact this
  | .sub body names showNames, p, root, h => by
    simp only [wf] at h
    have hb := layoutAt_good body (p ++ [0]) false h
    simp only [layoutAt]
    split
    · split
      · exact (Good.vcat (Good.single _ 1 _ (by omega) hb.ne.2 (by simp)) hb rfl).setBorder _
      · exact hb.setBorder _
    · exact Good.hcat (hb.setBorder _) (Good.single _ _ 1 hb.ne.1 (by omega) (by simp)) rfl
theorem layoutInputs_good : ∀ (ts : List Tree) (p : List Nat) (i : Nat), wfList ts = true →
    ∀ t ∈ layoutInputs p i ts, Good t
  | [], _, _, _ => by simp [layoutInputs]
  | a :: as, p, i, h => by
    simp only [wfList, Bool.and_eq_true] at h
    intro t ht
    simp only [layoutInputs, List.mem_cons] at ht
    rcases ht with rfl | ht
    · exact layoutAt_good a (p ++ [i]) false h.1
    · exact layoutInputs_good as p (i + 1) h.2 t ht
end

-- ---------------------------------------------------------------- which nodes get a cell
mutual
def drawn (p : List Nat) : Tree → List (List Nat × CellKind)
  | .ingredient .. => [(p, .ingredient)]
  | .reference .. => [(p, .reference)]
  | .step _ inputs => drawnInputs p 0 inputs ++ [(p, .step)]
  | .sub body names showNames =>
    if names.length = 1 then (if showNames then [(p, .header)] else []) ++ drawn (p ++ [0]) body
    else drawn (p ++ [0]) body ++ [(p, .outputs)]
def drawnInputs (p : List Nat) (i : Nat) : List Tree → List (List Nat × CellKind)
  | [] => []
  | t :: ts => drawn (p ++ [i]) t ++ drawnInputs p (i + 1) ts
end

def pk (x : PCell) : List Nat × CellKind := (x.path, x.kind)

theorem map_pk_map (f : PCell → PCell) (cs : List PCell) (hf : ∀ x, pk (f x) = pk x) :
    (cs.map f).map pk = cs.map pk := by
  simp [List.map_map, Function.comp_def, hf]

theorem pk_padCell (w0 w : Nat) (x : PCell) : pk (padCell w0 w x) = pk x := by
  unfold padCell; split <;> rfl

theorem pad_pk (t : Tbl) (w : Nat) : (pad t w).cells.map pk = t.cells.map pk := by
  unfold pad; split
  · rfl
  · exact map_pk_map _ _ (pk_padCell _ _)

theorem setBorder_pk (t : Tbl) (b : Border) : (setBorder t b).cells.map pk = t.cells.map pk :=
  map_pk_map _ _ (fun _ => rfl)

theorem vcat_pk (a b : Tbl) : (vcat a b).cells.map pk = a.cells.map pk ++ b.cells.map pk := by
  simp only [vcat, List.map_append]; rw [map_pk_map (shiftDown a.h) _ (fun _ => rfl)]

theorem hcat_pk (a b : Tbl) : (hcat a b).cells.map pk = a.cells.map pk ++ b.cells.map pk := by
  simp only [hcat, List.map_append]; rw [map_pk_map (shiftRight a.w) _ (fun _ => rfl)]

mutual
theorem layoutAt_pk : ∀ (t : Tree) (p : List Nat) (root : Bool), (layoutAt p root t).cells.map pk = drawn p t
  | .ingredient .., p, root => by
    simp only [layoutAt, drawn]; split
    · rw [setBorder_pk]; rfl
    · rfl
  | .reference .., p, root => by
    simp only [layoutAt, drawn]; split
    · rw [setBorder_pk]; rfl
    · rfl
  | .step _ inputs, p, root => by
    have hi := layoutInputs_pk inputs p 0 (maxWidth (layoutInputs p 0 inputs))
    simp only [layoutAt, drawn]; split
    · rw [setBorder_pk, hcat_pk, hi]; rfl
    · rw [hcat_pk, hi]; rfl
  | .sub body names showNames, p, root => by
    have hb := layoutAt_pk body (p ++ [0]) false
    simp only [layoutAt, drawn]
    split
    · split
      · rw [setBorder_pk, vcat_pk, hb]; rfl
      · rw [setBorder_pk, hb]; rfl
    · rw [hcat_pk, setBorder_pk, hb]; rfl
theorem layoutInputs_pk : ∀ (ts : List Tree) (p : List Nat) (i w : Nat),
    (vstack ((layoutInputs p i ts).map (pad · w))).cells.map pk = drawnInputs p i ts
  | [], _, _, _ => by simp [layoutInputs, vstack, drawnInputs]
  | a :: as, p, i, w => by
    simp only [layoutInputs, List.map_cons, vstack_cons, drawnInputs]
    rw [vcat_pk, pad_pk, layoutAt_pk a (p ++ [i]) false, layoutInputs_pk as p (i + 1) w]
end

theorem prefix_snoc_ne {p q : List Nat} {j : Nat} (h : p ++ [j] <+: q) : q ≠ p := by
  intro e; subst e
  have := h.length_le; simp at this; omega

theorem prefix_snoc_inj {p q : List Nat} {i j : Nat} (h1 : p ++ [i] <+: q) (h2 : p ++ [j] <+: q) : i = j := by
  obtain ⟨s, rfl⟩ := h1
  obtain ⟨s', h⟩ := h2
  simp only [List.append_assoc, List.append_cancel_left_eq, List.cons_append, List.nil_append,
    List.cons.injEq] at h
  exact h.1.symm

theorem prefix_of_snoc {p q : List Nat} {j : Nat} (h : p ++ [j] <+: q) : p <+: q :=
  List.IsPrefix.trans (List.prefix_append p [j]) h

mutual
theorem drawn_prefix : ∀ (t : Tree) (p : List Nat), ∀ q ∈ (drawn p t).map (·.1), p <+: q
  | .ingredient .., p => by simp [drawn]
  | .reference .., p => by simp [drawn]
  | .step _ inputs, p => by
    intro q hq
    simp only [drawn, List.map_append, List.mem_append, List.map_cons, List.map_nil, List.mem_singleton] at hq
    rcases hq with hq | rfl
    · obtain ⟨j, _, hj⟩ := drawnInputs_prefix inputs p 0 q hq
      exact prefix_of_snoc hj
    · exact List.prefix_refl _
  | .sub body names showNames, p => by
    intro q hq
    have hb := drawn_prefix body (p ++ [0])
    simp only [drawn] at hq
    split at hq
    · simp only [List.map_append, List.mem_append] at hq
      rcases hq with hq | hq
      · split at hq
        · simp only [List.map_cons, List.map_nil, List.mem_singleton] at hq; subst hq; exact List.prefix_refl _
        · simp at hq
      · exact prefix_of_snoc (hb q hq)
    · simp only [List.map_append, List.mem_append, List.map_cons, List.map_nil, List.mem_singleton] at hq
      rcases hq with hq | rfl
      · exact prefix_of_snoc (hb q hq)
      · exact List.prefix_refl _
theorem drawnInputs_prefix : ∀ (ts : List Tree) (p : List Nat) (i : Nat),
    ∀ q ∈ (drawnInputs p i ts).map (·.1), ∃ j, i ≤ j ∧ p ++ [j] <+: q
  | [], _, _ => by simp [drawnInputs]
  | a :: as, p, i => by
    intro q hq
    simp only [drawnInputs, List.map_append, List.mem_append] at hq
    rcases hq with hq | hq
    · exact ⟨i, Nat.le_refl _, drawn_prefix a (p ++ [i]) q hq⟩
    · obtain ⟨j, h1, h2⟩ := drawnInputs_prefix as p (i + 1) q hq
      exact ⟨j, by omega, h2⟩
end

mutual
theorem drawn_nodup' : ∀ (t : Tree) (p : List Nat), ((drawn p t).map (·.1)).Nodup
  | .ingredient .., p => by simp [drawn]
  | .reference .., p => by simp [drawn]
  | .step _ inputs, p => by
    simp only [drawn, List.map_append, List.map_cons, List.map_nil]
    rw [List.nodup_append]
    refine ⟨drawnInputs_nodup inputs p 0, by simp, ?_⟩
    intro a ha b hb
    simp only [List.mem_singleton] at hb; rw [hb]
    obtain ⟨j, _, hj⟩ := drawnInputs_prefix inputs p 0 a ha
    exact prefix_snoc_ne hj
  | .sub body names showNames, p => by
    have hb := drawn_nodup' body (p ++ [0])
    have hp := drawn_prefix body (p ++ [0])
    simp only [drawn]
    split
    · split
      · simp only [List.map_append, List.map_cons, List.map_nil]
        rw [List.nodup_append]
        refine ⟨by simp, hb, ?_⟩
        intro a ha b hb'
        simp only [List.mem_singleton] at ha; rw [ha]
        exact (prefix_snoc_ne (hp b hb')).symm
      · simpa using hb
    · simp only [List.map_append, List.map_cons, List.map_nil]
      rw [List.nodup_append]
      refine ⟨hb, by simp, ?_⟩
      intro a ha b hb'
      simp only [List.mem_singleton] at hb'; rw [hb']
      exact prefix_snoc_ne (hp a ha)
theorem drawnInputs_nodup : ∀ (ts : List Tree) (p : List Nat) (i : Nat), ((drawnInputs p i ts).map (·.1)).Nodup
  | [], _, _ => by simp [drawnInputs]
  | a :: as, p, i => by
    simp only [drawnInputs, List.map_append]
    rw [List.nodup_append]
    refine ⟨drawn_nodup' a (p ++ [i]), drawnInputs_nodup as p (i + 1), ?_⟩
    intro x hx y hy e
    subst e
    have h1 := drawn_prefix a (p ++ [i]) x hx
    obtain ⟨j, h2, h3⟩ := drawnInputs_prefix as p (i + 1) x hy
    have := prefix_snoc_inj h1 h3
    omega
end

-- ---------------------------------------------------------------- regions: cells below a path, bounding boxes
/-- the cell belongs to the node at path `q` or to one of its descendants -/
def under (q : List Nat) (x : PCell) : Bool := q.isPrefixOf x.path

theorem under_iff {q : List Nat} {x : PCell} : under q x = true ↔ q <+: x.path :=
  List.isPrefixOf_iff_prefix

/-- bounding box of a list of cells -/
def bbox (cs : List PCell) : Rect :=
  ⟨(cs.map (·.row)).min?.getD 0, (cs.map (·.col)).min?.getD 0,
   (cs.map fun x => x.row + x.rows).max?.getD 0, (cs.map fun x => x.col + x.cols).max?.getD 0⟩

/-- the region of the node at `q`: the bounding box of the cells of its subtree -/
def reg (cs : List PCell) (q : List Nat) : Rect := bbox (cs.filter (under q))

theorem RTiles.exists_covering {cs : List PCell} {R : Rect} (h : RTiles cs R) (r c : Nat)
    (h1 : R.top ≤ r) (h2 : r < R.bottom) (h3 : R.left ≤ c) (h4 : c < R.right) :
    ∃ x ∈ cs, x.row ≤ r ∧ r < x.row + x.rows ∧ x.col ≤ c ∧ c < x.col + x.cols := by
  have := h.one r c h1 h2 h3 h4
  have hpos : 0 < cs.countP (covers · r c) := by simp only [cover] at this; omega
  obtain ⟨x, hx, hc⟩ := List.countP_pos_iff.1 hpos
  exact ⟨x, hx, (covers_iff x r c).1 hc⟩

/-- a tiled rectangle is the bounding box of its tiles -/
theorem RTiles.bbox_eq {cs : List PCell} {R : Rect} (h : RTiles cs R) : bbox cs = R := by
  have hne := h.ne
  have e1 : (cs.map (·.row)).min? = some R.top := by
    obtain ⟨x, hx, hc⟩ := h.exists_covering R.top R.left (by omega) (by omega) (by omega) (by omega)
    have := h.ok x hx
    rw [List.min?_eq_some_iff]
    refine ⟨List.mem_map.2 ⟨x, hx, by omega⟩, ?_⟩
    intro b hb; obtain ⟨y, hy, rfl⟩ := List.mem_map.1 hb
    have := h.ok y hy; omega
  have e2 : (cs.map (·.col)).min? = some R.left := by
    obtain ⟨x, hx, hc⟩ := h.exists_covering R.top R.left (by omega) (by omega) (by omega) (by omega)
    have := h.ok x hx
    rw [List.min?_eq_some_iff]
    refine ⟨List.mem_map.2 ⟨x, hx, by omega⟩, ?_⟩
    intro b hb; obtain ⟨y, hy, rfl⟩ := List.mem_map.1 hb
    have := h.ok y hy; omega
  have e3 : (cs.map fun x => x.row + x.rows).max? = some R.bottom := by
    obtain ⟨x, hx, hc⟩ := h.exists_covering (R.bottom - 1) R.left (by omega) (by omega) (by omega) (by omega)
    have := h.ok x hx
    rw [List.max?_eq_some_iff]
    refine ⟨List.mem_map.2 ⟨x, hx, by omega⟩, ?_⟩
    intro b hb; obtain ⟨y, hy, rfl⟩ := List.mem_map.1 hb
    have := h.ok y hy; omega
  have e4 : (cs.map fun x => x.col + x.cols).max? = some R.right := by
    obtain ⟨x, hx, hc⟩ := h.exists_covering R.top (R.right - 1) (by omega) (by omega) (by omega) (by omega)
    have := h.ok x hx
    rw [List.max?_eq_some_iff]
    refine ⟨List.mem_map.2 ⟨x, hx, by omega⟩, ?_⟩
    intro b hb; obtain ⟨y, hy, rfl⟩ := List.mem_map.1 hb
    have := h.ok y hy; omega
  simp [bbox, e1, e2, e3, e4]

theorem filter_under_of_prefix {q q' : List Nat} (h : q <+: q') (cs : List PCell) :
    (cs.filter (under q)).filter (under q') = cs.filter (under q') := by
  rw [List.filter_filter]
  apply List.filter_congr
  intro x _
  by_cases hx : under q' x = true
  · have : under q x = true := under_iff.2 (List.IsPrefix.trans h (under_iff.1 hx))
    simp [hx, this]
  · simp [hx]

theorem filter_under_eq_self {q : List Nat} {cs : List PCell} (h : ∀ x ∈ cs, q <+: x.path) :
    cs.filter (under q) = cs :=
  List.filter_eq_self.2 (fun x hx => under_iff.2 (h x hx))

theorem filter_under_eq_nil {q : List Nat} {cs : List PCell} (h : ∀ x ∈ cs, ¬ q <+: x.path) :
    cs.filter (under q) = [] :=
  List.filter_eq_nil_iff.2 (fun x hx hu => h x hx (under_iff.1 hu))

theorem filter_under_map (q : List Nat) (f : PCell → PCell) (cs : List PCell) (hf : ∀ x, (f x).path = x.path) :
    (cs.map f).filter (under q) = (cs.filter (under q)).map f := by
  rw [List.filter_map]
  congr 1
  apply List.filter_congr
  intro x _; simp [under, hf]

-- ---------------------------------------------------------------- equality up to borders
/-- forget the borders -/
def strip (x : PCell) : PCell := { x with bl := .normal, br := .normal, bt := .normal, bb := .normal }

/-- the same cells up to borders -/
def GEq (a b : List PCell) : Prop := a.map strip = b.map strip

theorem GEq.refl (a : List PCell) : GEq a a := rfl
theorem GEq.of_eq {a b : List PCell} (h : a = b) : GEq a b := h ▸ rfl
theorem GEq.symm {a b : List PCell} (h : GEq a b) : GEq b a := Eq.symm h
theorem GEq.trans {a b c : List PCell} (h1 : GEq a b) (h2 : GEq b c) : GEq a c := Eq.trans h1 h2
theorem GEq.append {a b a' b' : List PCell} (h1 : GEq a a') (h2 : GEq b b') : GEq (a ++ b) (a' ++ b') := by
  simp only [GEq, List.map_append] at *; rw [h1, h2]

theorem GEq.map_congr {a b : List PCell} (h : GEq a b) (f : PCell → PCell) (hf : ∀ x, strip (f x) = f (strip x)) :
    GEq (a.map f) (b.map f) := by
  simp only [GEq, List.map_map] at *
  have e : strip ∘ f = f ∘ strip := funext hf
  rw [e, ← List.map_map, ← List.map_map, h]

theorem GEq.filter_under {a b : List PCell} (h : GEq a b) (q : List Nat) :
    GEq (a.filter (under q)) (b.filter (under q)) := by
  simp only [GEq] at *
  rw [← filter_under_map q strip a (fun _ => rfl), ← filter_under_map q strip b (fun _ => rfl), h]

theorem GEq.map_border (cs : List PCell) (h w : Nat) (b : Border) : GEq (cs.map (borderCell h w b)) cs := by
  simp only [GEq, List.map_map]
  congr 1

theorem bbox_strip (a : List PCell) : bbox (a.map strip) = bbox a := by
  simp only [bbox, List.map_map]; rfl

theorem GEq.bbox_eq {a b : List PCell} (h : GEq a b) : bbox a = bbox b := by
  rw [← bbox_strip a, ← bbox_strip b, h]

theorem GEq.reg_eq {a b : List PCell} (h : GEq a b) (q : List Nat) : reg a q = reg b q :=
  (h.filter_under q).bbox_eq

theorem GEq.mem {a b : List PCell} (h : GEq a b) {x : PCell} (hx : x ∈ a) : ∃ y ∈ b, strip x = strip y := by
  have : strip x ∈ b.map strip := h ▸ List.mem_map.2 ⟨x, hx, rfl⟩
  obtain ⟨y, hy, e⟩ := List.mem_map.1 this
  exact ⟨y, hy, e.symm⟩

theorem cover_strip (a : List PCell) (r c : Nat) : cover (a.map strip) r c = cover a r c :=
  cover_map_congr strip a r c r c (fun _ _ => rfl)

theorem RTiles.stripped {a : List PCell} {R : Rect} (h : RTiles a R) : RTiles (a.map RG.strip) R :=
  h.map_geo RG.strip (fun _ => ⟨rfl, rfl, rfl, rfl⟩)

theorem RTiles.of_stripped {a : List PCell} {R : Rect} (h : RTiles (a.map strip) R) : RTiles a R := by
  refine ⟨h.ne, ?_, ?_⟩
  · intro x hx; exact h.ok (RG.strip x) (List.mem_map.2 ⟨x, hx, rfl⟩)
  · intro r c h1 h2 h3 h4; rw [← cover_strip]; exact h.one r c h1 h2 h3 h4

theorem RTiles.geq {a b : List PCell} {R : Rect} (h : RTiles a R) (e : GEq a b) : RTiles b R :=
  RTiles.of_stripped (e ▸ h.stripped)

-- ---------------------------------------------------------------- how a subtree's table sits in its ancestors' tables
/-- the only thing that ever happens to the cells of a subtree: widen the right-most cells, move down -/
def emb (d w0 w : Nat) (x : PCell) : PCell := shiftDown d (padCell w0 w x)
def embR (d w0 w : Nat) (R : Rect) : Rect := ⟨R.top + d, R.left, R.bottom + d, padEdge w0 w R.right⟩

theorem padCell_self (w : Nat) (x : PCell) : padCell w w x = x := by
  unfold padCell
  split
  · rename_i h
    have : w - x.col = x.cols := by omega
    rw [this]
  · rfl

theorem emb_path (d w0 w : Nat) (x : PCell) : (emb d w0 w x).path = x.path := by
  unfold emb shiftDown padCell; split <;> rfl
theorem emb_kind (d w0 w : Nat) (x : PCell) : (emb d w0 w x).kind = x.kind := by
  unfold emb shiftDown padCell; split <;> rfl
theorem emb_borders (d w0 w : Nat) (x : PCell) :
    (emb d w0 w x).bl = x.bl ∧ (emb d w0 w x).br = x.br ∧ (emb d w0 w x).bt = x.bt ∧ (emb d w0 w x).bb = x.bb := by
  unfold emb shiftDown padCell; split <;> exact ⟨rfl, rfl, rfl, rfl⟩
theorem strip_emb (d w0 w : Nat) (x : PCell) : strip (emb d w0 w x) = emb d w0 w (strip x) := by
  unfold emb shiftDown padCell strip; split <;> rfl
theorem strip_shiftDown (d : Nat) (x : PCell) : strip (shiftDown d x) = shiftDown d (strip x) := rfl
theorem emb_zero_self (w : Nat) (x : PCell) : emb 0 w w x = x := by
  unfold emb; rw [padCell_self]; rfl
theorem map_emb_zero_self (w : Nat) (cs : List PCell) : cs.map (emb 0 w w) = cs := by
  rw [show emb 0 w w = id from funext (emb_zero_self w)]; simp

theorem emb_geo (d w0 w : Nat) (x : PCell) (h1 : 0 < x.cols) (_h2 : x.col + x.cols ≤ w0) (hw : w0 ≤ w) :
    (emb d w0 w x).row = x.row + d ∧ (emb d w0 w x).rows = x.rows ∧ (emb d w0 w x).col = x.col ∧
    (emb d w0 w x).col + (emb d w0 w x).cols = padEdge w0 w (x.col + x.cols) := by
  unfold emb shiftDown padCell padEdge
  split <;> simp <;> omega

theorem shiftDown_emb (d' d w0 w : Nat) (x : PCell) : shiftDown d' (emb d w0 w x) = emb (d + d') w0 w x := by
  unfold emb shiftDown; simp [Nat.add_assoc]

theorem emb_emb (d d' w0 w w0' w' : Nat) (x : PCell) (h1 : 0 < x.cols) (h2 : x.col + x.cols ≤ w0)
    (hw : w0 ≤ w) (hw' : w ≤ w0') (hw'' : w0' ≤ w') :
    emb d' w0' w' (emb d w0 w x) = emb (d + d') w0 (padEdge w0' w' w) x := by
  cases x with
  | mk row col rows cols path kind bl br bt bb =>
    simp only at h1 h2
    simp only [emb, shiftDown, padCell, padEdge]
    by_cases e1 : col + cols = w0 <;> by_cases e2 : w = w0' <;> simp [e1, e2] <;>
      (try split) <;> (try simp) <;> omega

theorem RTiles.emb {cs : List PCell} {R : Rect} (h : RTiles cs R) (d w0 w : Nat) (hR : R.right ≤ w0) (hw : w0 ≤ w) :
    RTiles (cs.map (RG.emb d w0 w)) (embR d w0 w R) := by
  by_cases e : w0 = w
  · subst e
    have : RG.emb d w0 w0 = RG.shiftDown d := funext (fun x => by unfold RG.emb; rw [padCell_self])
    rw [this]
    have := h.shiftDown d
    simpa [embR, padEdge_self] using this
  · have h1 := (h.pad w0 w hR (by omega)).shiftDown d
    rw [List.map_map] at h1
    exact h1

theorem emb_rect (d w0 w : Nat) (x : PCell) (h1 : 0 < x.cols) (h2 : x.col + x.cols ≤ w0) (hw : w0 ≤ w) :
    (emb d w0 w x).rect = embR d w0 w x.rect := by
  have := emb_geo d w0 w x h1 h2 hw
  simp only [PCell.rect, embR, Rect.mk.injEq]
  omega

-- ---------------------------------------------------------------- the stack of inputs of a step
theorem layoutAt_under (t : Tree) (p : List Nat) (root : Bool) : ∀ x ∈ (layoutAt p root t).cells, p <+: x.path := by
  intro x hx
  apply drawn_prefix t p x.path
  rw [← layoutAt_pk t p root, List.map_map]
  exact List.mem_map.2 ⟨x, hx, rfl⟩

theorem stack_under (ts : List Tree) (p : List Nat) (i w : Nat) :
    ∀ x ∈ (vstack ((layoutInputs p i ts).map (pad · w))).cells, ∃ j, i ≤ j ∧ p ++ [j] <+: x.path := by
  intro x hx
  apply drawnInputs_prefix ts p i x.path
  rw [← layoutInputs_pk ts p i w, List.map_map]
  exact List.mem_map.2 ⟨x, hx, rfl⟩

theorem pad_cells (T : Tbl) (w : Nat) (h : T.w ≤ w) : (pad T w).cells = T.cells.map (padCell T.w w) := by
  unfold pad
  split
  · rename_i h'
    have : T.w = w := by omega
    rw [← this, show padCell T.w T.w = id from funext (padCell_self T.w)]; simp
  · rfl

/-- the row at which the `j`-th table of a stack starts -/
def offs (Ts : List Tbl) (j : Nat) : Nat := ((Ts.take j).map (·.h)).sum

theorem offs_zero (Ts : List Tbl) : offs Ts 0 = 0 := by simp [offs]
theorem offs_cons_succ (T : Tbl) (Ts : List Tbl) (j : Nat) : offs (T :: Ts) (j + 1) = T.h + offs Ts j := by
  simp [offs]
theorem offs_succ : ∀ (Ts : List Tbl) (j : Nat) (T : Tbl), Ts[j]? = some T → offs Ts (j + 1) = offs Ts j + T.h
  | [], _, _, h => by simp at h
  | A :: Ts, 0, T, h => by simp at h; subst h; simp [offs]
  | A :: Ts, j + 1, T, h => by
    simp only [List.getElem?_cons_succ] at h
    rw [offs_cons_succ, offs_cons_succ, offs_succ Ts j T h]; omega
theorem offs_le : ∀ (Ts : List Tbl) (j : Nat), offs Ts j ≤ offs Ts Ts.length
  | [], j => by simp [offs]
  | A :: Ts, 0 => by simp [offs]
  | A :: Ts, j + 1 => by
    have := offs_le Ts j
    simp only [List.length_cons, offs_cons_succ]; omega
theorem offs_succ_le (Ts : List Tbl) (j : Nat) (T : Tbl) (h : Ts[j]? = some T) :
    offs Ts j + T.h ≤ offs Ts Ts.length := by
  rw [← offs_succ Ts j T h]; exact offs_le Ts (j + 1)

theorem vstack_pad_h (w : Nat) : ∀ Ts : List Tbl, (vstack (Ts.map (pad · w))).h = offs Ts Ts.length
  | [] => by simp [vstack, offs]
  | A :: Ts => by
    simp only [List.map_cons, vstack_cons, vcat, pad_h, vstack_pad_h w Ts, List.length_cons, offs_cons_succ]

theorem layoutInputs_length : ∀ (ts : List Tree) (p : List Nat) (i : Nat), (layoutInputs p i ts).length = ts.length
  | [], _, _ => rfl
  | a :: as, p, i => by simp [layoutInputs, layoutInputs_length as p (i + 1)]

theorem layoutInputs_getElem? : ∀ (ts : List Tree) (p : List Nat) (i j : Nat),
    (layoutInputs p i ts)[j]? = ts[j]?.map (layoutAt (p ++ [i + j]) false)
  | [], _, _, _ => by simp [layoutInputs]
  | a :: as, p, i, 0 => by simp [layoutInputs]
  | a :: as, p, i, j + 1 => by
    simp only [layoutInputs, List.getElem?_cons_succ, layoutInputs_getElem? as p (i + 1) j]
    rw [show i + 1 + j = i + (j + 1) by omega]

theorem not_under_of_ne {p : List Nat} {i k : Nat} {x : PCell} (h : p ++ [k] <+: x.path) (hne : k ≠ i) :
    ¬ p ++ [i] <+: x.path := fun h' => hne (prefix_snoc_inj h h')

/-- the cells of the `j`-th input inside the stack -/
theorem stack_filter : ∀ (ts : List Tree) (p : List Nat) (i0 w : Nat), (∀ T ∈ layoutInputs p i0 ts, T.w ≤ w) →
    ∀ (j : Nat) (c : Tree), ts[j]? = some c →
    (vstack ((layoutInputs p i0 ts).map (pad · w))).cells.filter (under (p ++ [i0 + j])) =
      (layoutAt (p ++ [i0 + j]) false c).cells.map
        (emb (offs (layoutInputs p i0 ts) j) (layoutAt (p ++ [i0 + j]) false c).w w)
  | [], _, _, _, _, _, _, h => by simp at h
  | a :: as, p, i0, w, hw, 0, c, h => by
    simp only [List.getElem?_cons_zero, Option.some.injEq] at h; subst h
    have hwa : (layoutAt (p ++ [i0]) false a).w ≤ w := hw _ (by simp [layoutInputs])
    simp only [layoutInputs, List.map_cons, vstack_cons, vcat, Nat.add_zero, offs_zero, List.filter_append]
    rw [filter_under_eq_self, filter_under_eq_nil, List.append_nil, pad_cells _ _ hwa]
    · apply List.map_congr_left; intro x _; rfl
    · intro x hx
      obtain ⟨y, hy, rfl⟩ := List.mem_map.1 hx
      obtain ⟨k, hk1, hk2⟩ := stack_under as p (i0 + 1) w y hy
      exact not_under_of_ne (x := shiftDown _ y) hk2 (by omega)
    · intro x hx
      rw [pad_cells _ _ hwa] at hx
      obtain ⟨y, hy, rfl⟩ := List.mem_map.1 hx
      have := layoutAt_under a (p ++ [i0]) false y hy
      rw [(padCell_geo' _ _ y).1]; exact this
  | a :: as, p, i0, w, hw, j + 1, c, h => by
    simp only [List.getElem?_cons_succ] at h
    have hwa : (layoutAt (p ++ [i0]) false a).w ≤ w := hw _ (by simp [layoutInputs])
    have ih := stack_filter as p (i0 + 1) w (fun T hT => hw T (by simp [layoutInputs, hT])) j c h
    rw [show i0 + 1 + j = i0 + (j + 1) by omega] at ih
    simp only [layoutInputs, List.map_cons, vstack_cons, vcat, List.filter_append, offs_cons_succ, pad_h]
    rw [filter_under_eq_nil, List.nil_append, filter_under_map _ (shiftDown _) _ (fun _ => rfl), ih, List.map_map]
    · apply List.map_congr_left; intro x _
      simp only [Function.comp]; rw [shiftDown_emb, Nat.add_comm]
    · intro x hx
      rw [pad_cells _ _ hwa] at hx
      obtain ⟨y, hy, rfl⟩ := List.mem_map.1 hx
      have := layoutAt_under a (p ++ [i0]) false y hy
      rw [(padCell_geo' _ _ y).1]
      exact not_under_of_ne (x := y) this (by omega)

-- ---------------------------------------------------------------- the shape of each kind of table, up to borders
/-- the stack of a step's inputs -/
def stackOf (p : List Nat) (ins : List Tree) : Tbl :=
  vstack ((layoutInputs p 0 ins).map (pad · (maxWidth (layoutInputs p 0 ins))))
def stepCell (p : List Nat) (h w : Nat) : PCell :=
  { row := 0, col := w, rows := h, cols := 1, path := p, kind := .step }
def headerCell (p : List Nat) (w : Nat) : PCell :=
  { row := 0, col := 0, rows := 1, cols := w, path := p, kind := .header }
def outputsCell (p : List Nat) (h w : Nat) : PCell :=
  { row := 0, col := w, rows := h, cols := 1, path := p, kind := .outputs }

theorem GEq.setBorder (t : Tbl) (b : Border) : GEq (setBorder t b).cells t.cells :=
  GEq.map_border _ _ _ _

theorem step_shape (p : List Nat) (root : Bool) (d : SVS) (ins : List Tree) :
    GEq (layoutAt p root (.step d ins)).cells
      ((stackOf p ins).cells ++ [stepCell p (stackOf p ins).h (stackOf p ins).w]) ∧
    (layoutAt p root (.step d ins)).h = (stackOf p ins).h ∧
    (layoutAt p root (.step d ins)).w = (stackOf p ins).w + 1 := by
  simp only [layoutAt]
  split
  · refine ⟨(GEq.setBorder _ _).trans (GEq.of_eq ?_), rfl, rfl⟩
    simp [hcat, stackOf, stepCell, shiftRight]
  · refine ⟨GEq.of_eq ?_, rfl, rfl⟩
    simp [hcat, stackOf, stepCell, shiftRight]

theorem sub_shape (p : List Nat) (root : Bool) (body : Tree) (names : List SVS) (sh : Bool) :
    let bt := layoutAt (p ++ [0]) false body
    let T := layoutAt p root (.sub body names sh)
    (names.length = 1 → sh = true →
      GEq T.cells (headerCell p bt.w :: bt.cells.map (shiftDown 1)) ∧ T.h = 1 + bt.h ∧ T.w = bt.w) ∧
    (names.length = 1 → sh = false → GEq T.cells bt.cells ∧ T.h = bt.h ∧ T.w = bt.w) ∧
    (names.length ≠ 1 → GEq T.cells (bt.cells ++ [outputsCell p bt.h bt.w]) ∧ T.h = bt.h ∧ T.w = bt.w + 1) := by
  refine ⟨fun h1 h2 => ?_, fun h1 h2 => ?_, fun h1 => ?_⟩
  · simp only [layoutAt, h1, h2, if_true]
    exact ⟨GEq.setBorder _ _, rfl, rfl⟩
  · simp only [layoutAt, h1, h2, if_true]
    exact ⟨GEq.setBorder _ _, rfl, rfl⟩
  · simp only [layoutAt, h1, if_false]
    refine ⟨?_, rfl, rfl⟩
    simp only [hcat]
    apply GEq.append (GEq.setBorder _ _)
    simp [GEq, strip, shiftRight, outputsCell, setBorder]

/-- the root flag only changes borders -/
theorem layoutAt_root (t : Tree) (p : List Nat) (root : Bool) :
    GEq (layoutAt p root t).cells (layoutAt p false t).cells ∧
    (layoutAt p root t).h = (layoutAt p false t).h ∧ (layoutAt p root t).w = (layoutAt p false t).w := by
  cases t with
  | ingredient d q =>
    simp only [layoutAt]; split
    · exact ⟨GEq.setBorder _ _, rfl, rfl⟩
    · exact ⟨GEq.refl _, rfl, rfl⟩
  | reference s i a =>
    simp only [layoutAt]; split
    · exact ⟨GEq.setBorder _ _, rfl, rfl⟩
    · exact ⟨GEq.refl _, rfl, rfl⟩
  | step d ins =>
    have h1 := step_shape p root d ins
    have h2 := step_shape p false d ins
    exact ⟨h1.1.trans h2.1.symm, by omega, by omega⟩
  | sub body names sh =>
    refine ⟨GEq.of_eq ?_, ?_, ?_⟩ <;> simp only [layoutAt]

theorem vstack_pad_w (w : Nat) (Ts : List Tbl) (hne : Ts ≠ []) (hle : ∀ T ∈ Ts, T.w ≤ w) :
    (vstack (Ts.map (pad · w))).w = w := by
  cases Ts with
  | nil => exact absurd rfl hne
  | cons A Ts =>
    have := hle A (by simp)
    simp only [List.map_cons, vstack_cons, vcat, pad_w]; omega

theorem stackOf_w (p : List Nat) (ins : List Tree) (hne : ins ≠ []) :
    (stackOf p ins).w = maxWidth (layoutInputs p 0 ins) :=
  vstack_pad_w _ _ (layoutInputs_ne p 0 ins hne) (maxWidth_ge _)

theorem stackOf_h (p : List Nat) (ins : List Tree) :
    (stackOf p ins).h = offs (layoutInputs p 0 ins) ins.length := by
  rw [stackOf, vstack_pad_h, layoutInputs_length]

-- ---------------------------------------------------------------- embedding of a subtree's table
/-- the cells of `cs` (a table of size `H × W`) below `q` are, up to borders, those of table `N`
    moved down by `d` and widened to `w` -/
structure Emb (cs : List PCell) (H W : Nat) (q : List Nat) (N : Tbl) (d w : Nat) : Prop where
  w_ge : N.w ≤ w
  w_le : w ≤ W
  h_le : d + N.h ≤ H
  geq : GEq (cs.filter (under q)) (N.cells.map (emb d N.w w))

theorem Emb.comp {A : List PCell} {H W : Nat} {p1 p2 : List Nat} {Tc Tn : Tbl} {d1 w1 d2 w2 : Nat}
    (h1 : Emb A H W p1 Tc d1 w1) (h2 : Emb Tc.cells Tc.h Tc.w p2 Tn d2 w2) (hp : p1 <+: p2) (hn : Good Tn) :
    Emb A H W p2 Tn (d2 + d1) (padEdge Tc.w w1 w2) := by
  have a1 := h1.w_ge; have a2 := h1.w_le; have a3 := h1.h_le
  have b1 := h2.w_ge; have b2 := h2.w_le; have b3 := h2.h_le
  refine ⟨by unfold padEdge; split <;> omega, by unfold padEdge; split <;> omega, by omega, ?_⟩
  rw [← filter_under_of_prefix hp]
  refine (h1.geq.filter_under p2).trans ?_
  rw [filter_under_map _ _ _ (emb_path _ _ _)]
  refine (h2.geq.map_congr _ (strip_emb _ _ _)).trans (GEq.of_eq ?_)
  rw [List.map_map]
  apply List.map_congr_left
  intro x hx
  have := hn.ok x hx
  simp only [Function.comp]
  exact emb_emb _ _ _ _ _ _ x this.2.1 this.2.2.2.2.2 b1 b2 a1

theorem emb_step_input (p : List Nat) (root : Bool) (d : SVS) (ins : List Tree) (i : Nat) (c : Tree)
    (hi : ins[i]? = some c) :
    Emb (layoutAt p root (.step d ins)).cells (layoutAt p root (.step d ins)).h (layoutAt p root (.step d ins)).w
      (p ++ [i]) (layoutAt (p ++ [i]) false c) (offs (layoutInputs p 0 ins) i) (stackOf p ins).w := by
  obtain ⟨hs, hh, hw⟩ := step_shape p root d ins
  have hne : ins ≠ [] := by intro e; subst e; simp at hi
  have hsw := stackOf_w p ins hne
  have hget : (layoutInputs p 0 ins)[i]? = some (layoutAt (p ++ [i]) false c) := by
    rw [layoutInputs_getElem?, hi]; simp
  have hmem : layoutAt (p ++ [i]) false c ∈ layoutInputs p 0 ins := List.mem_of_getElem? hget
  have hf := stack_filter ins p 0 (maxWidth (layoutInputs p 0 ins)) (maxWidth_ge _) i c hi
  simp only [Nat.zero_add] at hf
  refine ⟨?_, by omega, ?_, ?_⟩
  · rw [hsw]; exact maxWidth_ge _ _ hmem
  · rw [hh, stackOf_h, ← layoutInputs_length ins p 0]
    exact offs_succ_le _ _ _ hget
  · refine (hs.filter_under _).trans (GEq.of_eq ?_)
    rw [List.filter_append, hsw]
    rw [filter_under_eq_nil (cs := [_])]
    · rw [List.append_nil]; exact hf
    · intro x hx
      simp only [List.mem_singleton] at hx; subst hx
      intro h'
      exact prefix_snoc_ne h' rfl

theorem emb_sub_body (p : List Nat) (root : Bool) (body : Tree) (names : List SVS) (sh : Bool) :
    Emb (layoutAt p root (.sub body names sh)).cells (layoutAt p root (.sub body names sh)).h
      (layoutAt p root (.sub body names sh)).w (p ++ [0]) (layoutAt (p ++ [0]) false body)
      (if names.length = 1 ∧ sh = true then 1 else 0) (layoutAt (p ++ [0]) false body).w := by
  obtain ⟨h1, h2, h3⟩ := sub_shape p root body names sh
  have hu := layoutAt_under body (p ++ [0]) false
  by_cases hn : names.length = 1
  · cases sh with
    | true =>
      obtain ⟨g, eh, ew⟩ := h1 hn rfl
      refine ⟨Nat.le_refl _, by omega, by simp [hn]; omega, ?_⟩
      refine (g.filter_under _).trans (GEq.of_eq ?_)
      rw [List.filter_cons]
      have : under (p ++ [0]) (headerCell p (layoutAt (p ++ [0]) false body).w) = false := by
        rw [Bool.eq_false_iff]; intro h'
        exact prefix_snoc_ne (under_iff.1 h') rfl
      simp only [this, Bool.false_eq_true, if_false]
      rw [filter_under_map _ (shiftDown 1) _ (fun _ => rfl), filter_under_eq_self hu]
      simp only [hn, true_and, if_true]
      apply List.map_congr_left; intro x _
      unfold emb; rw [padCell_self]
    | false =>
      obtain ⟨g, eh, ew⟩ := h2 hn rfl
      refine ⟨Nat.le_refl _, by omega, by simp; omega, ?_⟩
      refine (g.filter_under _).trans (GEq.of_eq ?_)
      rw [filter_under_eq_self hu]
      simp only [Bool.false_eq_true, and_false, if_false, map_emb_zero_self]
  · obtain ⟨g, eh, ew⟩ := h3 hn
    refine ⟨Nat.le_refl _, by omega, by simp [hn]; omega, ?_⟩
    refine (g.filter_under _).trans (GEq.of_eq ?_)
    rw [List.filter_append, filter_under_eq_self hu, filter_under_eq_nil (cs := [_])]
    · simp only [hn, false_and, if_false, map_emb_zero_self, List.append_nil]
    · intro x hx
      simp only [List.mem_singleton] at hx; subst hx
      intro h'
      exact prefix_snoc_ne h' rfl

theorem wfList_getElem? : ∀ (ts : List Tree) (i : Nat) (c : Tree), wfList ts = true → ts[i]? = some c → wf c = true
  | [], _, _, _, h => by simp at h
  | a :: as, 0, c, hw, h => by
    simp only [wfList, Bool.and_eq_true] at hw
    simp at h; subst h; exact hw.1
  | a :: as, i + 1, c, hw, h => by
    simp only [wfList, Bool.and_eq_true] at hw
    simp only [List.getElem?_cons_succ] at h
    exact wfList_getElem? as i c hw.2 h

/-- how `Tree.at?` unfolds on a non-empty path -/
theorem at?_cons (t : Tree) (i : Nat) (rest : List Nat) (n : Tree) (h : t.at? (i :: rest) = some n) :
    (∃ d ins c, t = .step d ins ∧ ins[i]? = some c ∧ c.at? rest = some n) ∨
    (∃ b ns sh, t = .sub b ns sh ∧ i = 0 ∧ b.at? rest = some n) := by
  cases t with
  | ingredient d q => simp [Tree.at?] at h
  | reference s j a => simp [Tree.at?] at h
  | step d ins =>
    left
    simp only [Tree.at?] at h
    cases hc : ins[i]? with
    | none => simp [hc] at h
    | some c => simp only [hc] at h; exact ⟨d, ins, c, rfl, hc, h⟩
  | sub b ns sh =>
    right
    cases i with
    | zero => simp only [Tree.at?] at h; exact ⟨b, ns, sh, rfl, rfl, h⟩
    | succ k => simp [Tree.at?] at h

theorem wf_at : ∀ (q : List Nat) (t n : Tree), wf t = true → t.at? q = some n → wf n = true
  | [], t, n, hw, h => by simp [Tree.at?] at h; subst h; exact hw
  | i :: rest, t, n, hw, h => by
    rcases at?_cons t i rest n h with ⟨d, ins, c, rfl, hc, hr⟩ | ⟨b, ns, sh, rfl, rfl, hr⟩
    · simp only [wf, Bool.and_eq_true] at hw
      exact wf_at rest c n (wfList_getElem? ins i c hw.2 hc) hr
    · simp only [wf] at hw
      exact wf_at rest b n hw hr

/-- every node's table sits inside the whole table moved down and widened -/
theorem layoutAt_emb : ∀ (q : List Nat) (t : Tree) (p : List Nat) (root : Bool) (n : Tree),
    wf t = true → t.at? q = some n →
    ∃ d w, Emb (layoutAt p root t).cells (layoutAt p root t).h (layoutAt p root t).w (p ++ q)
      (layoutAt (p ++ q) false n) d w
  | [], t, p, root, n, hw, h => by
    simp [Tree.at?] at h; subst h
    obtain ⟨g, eh, ew⟩ := layoutAt_root t p root
    refine ⟨0, (layoutAt p root t).w, ?_⟩
    rw [List.append_nil]
    refine ⟨by omega, Nat.le_refl _, by omega, ?_⟩
    rw [filter_under_eq_self (layoutAt_under t p root), ew, map_emb_zero_self]
    exact g
  | i :: rest, t, p, root, n, hw, h => by
    have hwn := wf_at _ _ _ hw h
    rcases at?_cons t i rest n h with ⟨d, ins, c, rfl, hc, hr⟩ | ⟨b, ns, sh, rfl, rfl, hr⟩
    · simp only [wf, Bool.and_eq_true] at hw
      have hwc := wfList_getElem? ins i c hw.2 hc
      obtain ⟨d2, w2, h2⟩ := layoutAt_emb rest c (p ++ [i]) false n hwc hr
      have h1 := emb_step_input p root d ins i c hc
      have e : p ++ [i] ++ rest = p ++ i :: rest := by simp
      rw [e] at h2
      exact ⟨_, _, h1.comp h2 (by simp) (layoutAt_good n _ false hwn)⟩
    · simp only [wf] at hw
      obtain ⟨d2, w2, h2⟩ := layoutAt_emb rest b (p ++ [0]) false n hw hr
      have h1 := emb_sub_body p root b ns sh
      have e : p ++ [0] ++ rest = p ++ 0 :: rest := by simp
      rw [e] at h2
      exact ⟨_, _, h1.comp h2 (by simp) (layoutAt_good n _ false hwn)⟩

-- ---------------------------------------------------------------- regions in closed form
theorem Emb.tiles {cs : List PCell} {H W : Nat} {q : List Nat} {N : Tbl} {d w : Nat}
    (h : Emb cs H W q N d w) (hn : Good N) : RTiles (cs.filter (under q)) ⟨d, 0, d + N.h, w⟩ := by
  have h1 := RTiles.emb hn d N.w w (Nat.le_refl _) h.w_ge
  have h2 := h1.geq h.geq.symm
  have e : embR d N.w w ⟨0, 0, N.h, N.w⟩ = ⟨d, 0, d + N.h, w⟩ := by
    simp [embR, padEdge, Nat.add_comm]
  rw [← e]; exact h2

theorem Emb.reg_eq {cs : List PCell} {H W : Nat} {q : List Nat} {N : Tbl} {d w : Nat}
    (h : Emb cs H W q N d w) (hn : Good N) : reg cs q = ⟨d, 0, d + N.h, w⟩ :=
  (h.tiles hn).bbox_eq

/-- the geometry, path and kind of a cell -/
def geo (x : PCell) : Nat × Nat × Nat × Nat × List Nat × CellKind := (x.row, x.col, x.rows, x.cols, x.path, x.kind)
theorem geo_of_strip {x y : PCell} (h : strip x = strip y) : geo x = geo y := by
  have e : ∀ z, geo z = geo (strip z) := fun _ => rfl
  rw [e x, e y, h]

theorem geo_emb_edge (d w0 w : Nat) (x : PCell) (h1 : 0 < x.cols) (h2 : x.col + x.cols = w0) (hw : w0 ≤ w) :
    geo (emb d w0 w x) = (x.row + d, x.col, x.rows, w - x.col, x.path, x.kind) := by
  have := emb_geo d w0 w x h1 (by omega) hw
  simp only [padEdge, h2, if_true] at this
  simp only [geo, emb_path, emb_kind, Prod.mk.injEq, and_true]
  omega

theorem geo_emb_inner (d w0 w : Nat) (x : PCell) (h1 : 0 < x.cols) (h2 : x.col + x.cols < w0) (hw : w0 ≤ w) :
    geo (emb d w0 w x) = (x.row + d, x.col, x.rows, x.cols, x.path, x.kind) := by
  have := emb_geo d w0 w x h1 (by omega) hw
  simp only [padEdge] at this
  rw [if_neg (by omega)] at this
  simp only [geo, emb_path, emb_kind, Prod.mk.injEq, and_true]
  omega

theorem Emb.own_cell {cs : List PCell} {H W : Nat} {q : List Nat} {N : Tbl} {d w : Nat}
    (h : Emb cs H W q N d w) {L : List PCell} (hL : GEq N.cells L) {x : PCell} (hx : x ∈ cs) (hp : q <+: x.path) :
    ∃ z ∈ L, geo x = geo (emb d N.w w z) := by
  have hx' : x ∈ cs.filter (under q) := List.mem_filter.2 ⟨hx, under_iff.2 hp⟩
  obtain ⟨y, hy, e⟩ := h.geq.mem hx'
  obtain ⟨z, hz, rfl⟩ := List.mem_map.1 hy
  obtain ⟨z', hz', e'⟩ := hL.mem hz
  refine ⟨z', hz', ?_⟩
  rw [geo_of_strip e]
  apply geo_of_strip
  rw [strip_emb, strip_emb, e']

theorem Emb.has_cell {cs : List PCell} {H W : Nat} {q : List Nat} {N : Tbl} {d w : Nat}
    (h : Emb cs H W q N d w) {L : List PCell} (hL : GEq N.cells L) {z : PCell} (hz : z ∈ L) :
    ∃ x ∈ cs, geo x = geo (emb d N.w w z) := by
  obtain ⟨z', hz', e'⟩ := hL.symm.mem hz
  have : emb d N.w w z' ∈ N.cells.map (emb d N.w w) := List.mem_map.2 ⟨z', hz', rfl⟩
  obtain ⟨x, hx, e⟩ := h.geq.symm.mem this
  refine ⟨x, (List.mem_filter.1 hx).1, ?_⟩
  rw [← geo_of_strip e]
  apply geo_of_strip
  rw [strip_emb, strip_emb, e']

theorem child_reg {cs : List PCell} {H W : Nat} {P P' : List Nat} {Tn Tc : Tbl} {D Wd dc wc : Nat}
    (hE : Emb cs H W P Tn D Wd) (hc : Emb Tn.cells Tn.h Tn.w P' Tc dc wc) (hp : P <+: P') (hg : Good Tc) :
    reg cs P' = ⟨dc + D, 0, dc + D + Tc.h, padEdge Tn.w Wd wc⟩ :=
  (hE.comp hc hp hg).reg_eq hg

/-- closed form of the geometry around a step node -/
theorem step_regions (t : Tree) (p : List Nat) (root : Bool) (q : List Nat) (d : SVS) (ins : List Tree)
    (hw : wf t = true) (hq : t.at? q = some (.step d ins)) :
    ∃ D Wd, (stackOf (p ++ q) ins).w < Wd ∧ Wd ≤ (layoutAt p root t).w ∧
      D + (stackOf (p ++ q) ins).h ≤ (layoutAt p root t).h ∧
      reg (layoutAt p root t).cells (p ++ q) = ⟨D, 0, D + (stackOf (p ++ q) ins).h, Wd⟩ ∧
      (∀ i c, ins[i]? = some c → reg (layoutAt p root t).cells (p ++ q ++ [i]) =
        ⟨D + offs (layoutInputs (p ++ q) 0 ins) i, 0, D + offs (layoutInputs (p ++ q) 0 ins) (i + 1),
          (stackOf (p ++ q) ins).w⟩) ∧
      (∀ x ∈ (layoutAt p root t).cells, x.path = p ++ q →
        geo x = (D, (stackOf (p ++ q) ins).w, (stackOf (p ++ q) ins).h, Wd - (stackOf (p ++ q) ins).w, p ++ q, .step)) ∧
      (∃ x ∈ (layoutAt p root t).cells, x.path = p ++ q) := by
  obtain ⟨D, Wd, hE⟩ := layoutAt_emb q t p root _ hw hq
  have hwn := wf_at _ _ _ hw hq
  have hgn := layoutAt_good _ (p ++ q) false hwn
  obtain ⟨hs, hh, hww⟩ := step_shape (p ++ q) false d ins
  have a1 := hE.w_ge; have a2 := hE.w_le; have a3 := hE.h_le
  simp only [wf, Bool.and_eq_true] at hwn
  have cellgeo : geo (emb D (layoutAt (p ++ q) false (.step d ins)).w Wd
      (stepCell (p ++ q) (stackOf (p ++ q) ins).h (stackOf (p ++ q) ins).w)) =
      (D, (stackOf (p ++ q) ins).w, (stackOf (p ++ q) ins).h, Wd - (stackOf (p ++ q) ins).w, p ++ q, .step) := by
    rw [geo_emb_edge _ _ _ _ (by simp [stepCell]) (by simp [stepCell, hww]) a1]
    simp [stepCell]
  refine ⟨D, Wd, by omega, a2, by omega, ?_, ?_, ?_, ?_⟩
  · rw [hE.reg_eq hgn, hh]
  · intro i c hc
    have hwc := wfList_getElem? ins i c hwn.2 hc
    have hget : (layoutInputs (p ++ q) 0 ins)[i]? = some (layoutAt (p ++ q ++ [i]) false c) := by
      rw [layoutInputs_getElem?, hc]; simp
    rw [child_reg hE (emb_step_input (p ++ q) false d ins i c hc) (by simp) (layoutAt_good c _ false hwc),
      offs_succ _ _ _ hget]
    simp only [padEdge, Rect.mk.injEq]
    refine ⟨by omega, trivial, by omega, ?_⟩
    split <;> omega
  · intro x hx hpx
    obtain ⟨z, hz, e⟩ := hE.own_cell hs hx (by rw [hpx]; exact List.prefix_refl _)
    rcases List.mem_append.1 hz with hz | hz
    · exfalso
      obtain ⟨j, _, hj⟩ := stack_under ins (p ++ q) 0 _ z hz
      have : x.path = z.path := by
        have := congrArg (fun g => g.2.2.2.2.1) e
        simpa [geo, emb_path] using this
      rw [← this, hpx] at hj
      exact prefix_snoc_ne hj rfl
    · simp only [List.mem_singleton] at hz; subst hz
      rw [e, cellgeo]
  · obtain ⟨x, hx, e⟩ := hE.has_cell hs (z := stepCell (p ++ q) (stackOf (p ++ q) ins).h (stackOf (p ++ q) ins).w)
      (by simp)
    refine ⟨x, hx, ?_⟩
    rw [cellgeo] at e
    exact congrArg (fun g => g.2.2.2.2.1) e

theorem geo_path {x y : PCell} (h : geo x = geo y) : x.path = y.path := congrArg (fun g => g.2.2.2.2.1) h

/-- closed form of the geometry around a titled sub recipe -/
theorem header_regions (t : Tree) (p : List Nat) (root : Bool) (q : List Nat) (b : Tree) (ns : List SVS)
    (hw : wf t = true) (hq : t.at? q = some (.sub b ns true)) (h1 : ns.length = 1) :
    ∃ D Wd, 0 < Wd ∧ Wd ≤ (layoutAt p root t).w ∧
      D + 1 + (layoutAt (p ++ q ++ [0]) false b).h ≤ (layoutAt p root t).h ∧
      reg (layoutAt p root t).cells (p ++ q) = ⟨D, 0, D + 1 + (layoutAt (p ++ q ++ [0]) false b).h, Wd⟩ ∧
      reg (layoutAt p root t).cells (p ++ q ++ [0]) =
        ⟨D + 1, 0, D + 1 + (layoutAt (p ++ q ++ [0]) false b).h, Wd⟩ ∧
      (∀ x ∈ (layoutAt p root t).cells, x.path = p ++ q → geo x = (D, 0, 1, Wd, p ++ q, .header)) ∧
      (∃ x ∈ (layoutAt p root t).cells, x.path = p ++ q) := by
  obtain ⟨D, Wd, hE⟩ := layoutAt_emb q t p root _ hw hq
  have hwn := wf_at _ _ _ hw hq
  have hgn := layoutAt_good _ (p ++ q) false hwn
  obtain ⟨hs, hh, hww⟩ := (sub_shape (p ++ q) false b ns true).1 h1 rfl
  have a1 := hE.w_ge; have a2 := hE.w_le; have a3 := hE.h_le
  simp only [wf] at hwn
  have hgb := layoutAt_good b (p ++ q ++ [0]) false hwn
  have hbw := hgb.ne.2
  simp only at hbw
  have cellgeo : geo (emb D (layoutAt (p ++ q) false (.sub b ns true)).w Wd
      (headerCell (p ++ q) (layoutAt (p ++ q ++ [0]) false b).w)) = (D, 0, 1, Wd, p ++ q, .header) := by
    rw [geo_emb_edge _ _ _ _ (by simpa [headerCell] using hbw) (by simp [headerCell, hww]) a1]
    simp [headerCell]
  refine ⟨D, Wd, by omega, a2, by omega, ?_, ?_, ?_, ?_⟩
  · rw [hE.reg_eq hgn, hh]; simp only [Rect.mk.injEq, true_and, and_true]; omega
  · rw [child_reg hE (emb_sub_body (p ++ q) false b ns true) (by simp) hgb]
    simp only [h1, and_self, if_true, padEdge, hww, Rect.mk.injEq, true_and, and_true]; omega
  · intro x hx hpx
    obtain ⟨z, hz, e⟩ := hE.own_cell hs hx (by rw [hpx]; exact List.prefix_refl _)
    rcases List.mem_cons.1 hz with hz | hz
    · subst hz; rw [e, cellgeo]
    · exfalso
      obtain ⟨y, hy, rfl⟩ := List.mem_map.1 hz
      have hu := layoutAt_under b (p ++ q ++ [0]) false y hy
      have : x.path = y.path := by rw [geo_path e, emb_path]; rfl
      rw [← this, hpx] at hu
      exact prefix_snoc_ne hu rfl
  · obtain ⟨x, hx, e⟩ := hE.has_cell hs (z := headerCell (p ++ q) (layoutAt (p ++ q ++ [0]) false b).w) (by simp)
    refine ⟨x, hx, ?_⟩
    rw [cellgeo] at e
    exact congrArg (fun g => g.2.2.2.2.1) e

/-- a single-output sub recipe without title has no cell of its own -/
theorem untitled_regions (t : Tree) (p : List Nat) (root : Bool) (q : List Nat) (b : Tree) (ns : List SVS)
    (hw : wf t = true) (hq : t.at? q = some (.sub b ns false)) (h1 : ns.length = 1) :
    reg (layoutAt p root t).cells (p ++ q ++ [0]) = reg (layoutAt p root t).cells (p ++ q) ∧
    (∀ x ∈ (layoutAt p root t).cells, x.path ≠ p ++ q) := by
  obtain ⟨D, Wd, hE⟩ := layoutAt_emb q t p root _ hw hq
  obtain ⟨hs, hh, hww⟩ := (sub_shape (p ++ q) false b ns false).2.1 h1 rfl
  have key : ∀ x ∈ (layoutAt p root t).cells, p ++ q <+: x.path → p ++ q ++ [0] <+: x.path := by
    intro x hx hpx
    obtain ⟨z, hz, e⟩ := hE.own_cell hs hx hpx
    have hu := layoutAt_under b (p ++ q ++ [0]) false z hz
    rw [geo_path e, emb_path]; exact hu
  constructor
  · simp only [reg]
    congr 1
    apply List.filter_congr
    intro x hx
    rw [Bool.eq_iff_iff, under_iff, under_iff]
    exact ⟨prefix_of_snoc, key x hx⟩
  · intro x hx hpx
    have := key x hx (by rw [hpx]; exact List.prefix_refl _)
    rw [hpx] at this
    exact prefix_snoc_ne this rfl

/-- closed form of the geometry around a sub recipe with an outputs column -/
theorem outputs_regions (t : Tree) (p : List Nat) (root : Bool) (q : List Nat) (b : Tree) (ns : List SVS) (sh : Bool)
    (hw : wf t = true) (hq : t.at? q = some (.sub b ns sh)) (h1 : ns.length ≠ 1) :
    ∃ D Wd, (layoutAt (p ++ q ++ [0]) false b).w < Wd ∧ Wd ≤ (layoutAt p root t).w ∧
      D + (layoutAt (p ++ q ++ [0]) false b).h ≤ (layoutAt p root t).h ∧
      reg (layoutAt p root t).cells (p ++ q) = ⟨D, 0, D + (layoutAt (p ++ q ++ [0]) false b).h, Wd⟩ ∧
      reg (layoutAt p root t).cells (p ++ q ++ [0]) =
        ⟨D, 0, D + (layoutAt (p ++ q ++ [0]) false b).h, (layoutAt (p ++ q ++ [0]) false b).w⟩ ∧
      (∀ x ∈ (layoutAt p root t).cells, x.path = p ++ q →
        geo x = (D, (layoutAt (p ++ q ++ [0]) false b).w, (layoutAt (p ++ q ++ [0]) false b).h,
          Wd - (layoutAt (p ++ q ++ [0]) false b).w, p ++ q, .outputs)) ∧
      (∃ x ∈ (layoutAt p root t).cells, x.path = p ++ q) := by
  obtain ⟨D, Wd, hE⟩ := layoutAt_emb q t p root _ hw hq
  have hwn := wf_at _ _ _ hw hq
  have hgn := layoutAt_good _ (p ++ q) false hwn
  obtain ⟨hs, hh, hww⟩ := (sub_shape (p ++ q) false b ns sh).2.2 h1
  have a1 := hE.w_ge; have a2 := hE.w_le; have a3 := hE.h_le
  simp only [wf] at hwn
  have hgb := layoutAt_good b (p ++ q ++ [0]) false hwn
  have cellgeo : geo (emb D (layoutAt (p ++ q) false (.sub b ns sh)).w Wd
      (outputsCell (p ++ q) (layoutAt (p ++ q ++ [0]) false b).h (layoutAt (p ++ q ++ [0]) false b).w)) =
      (D, (layoutAt (p ++ q ++ [0]) false b).w, (layoutAt (p ++ q ++ [0]) false b).h,
          Wd - (layoutAt (p ++ q ++ [0]) false b).w, p ++ q, .outputs) := by
    rw [geo_emb_edge _ _ _ _ (by simp [outputsCell]) (by simp [outputsCell, hww]) a1]
    simp [outputsCell]
  refine ⟨D, Wd, by omega, a2, by omega, ?_, ?_, ?_, ?_⟩
  · rw [hE.reg_eq hgn, hh]
  · rw [child_reg hE (emb_sub_body (p ++ q) false b ns sh) (by simp) hgb]
    simp only [h1, false_and, if_false, padEdge, hww, Rect.mk.injEq]
    refine ⟨by omega, trivial, by omega, ?_⟩
    split <;> omega
  · intro x hx hpx
    obtain ⟨z, hz, e⟩ := hE.own_cell hs hx (by rw [hpx]; exact List.prefix_refl _)
    rcases List.mem_append.1 hz with hz | hz
    · exfalso
      have hu := layoutAt_under b (p ++ q ++ [0]) false z hz
      have : x.path = z.path := by rw [geo_path e, emb_path]
      rw [← this, hpx] at hu
      exact prefix_snoc_ne hu rfl
    · simp only [List.mem_singleton] at hz; subst hz
      rw [e, cellgeo]
  · obtain ⟨x, hx, e⟩ := hE.has_cell hs
      (z := outputsCell (p ++ q) (layoutAt (p ++ q ++ [0]) false b).h (layoutAt (p ++ q ++ [0]) false b).w) (by simp)
    refine ⟨x, hx, ?_⟩
    rw [cellgeo] at e
    exact congrArg (fun g => g.2.2.2.2.1) e

-- ---------------------------------------------------------------- the statements used by Props/C02
theorem reg_root (t : Tree) (hw : wf t = true) :
    reg (layout t).cells [] = ⟨0, 0, (layout t).h, (layout t).w⟩ := by
  have hg := layoutAt_good t [] true hw
  simp only [reg, layout]
  rw [filter_under_eq_self (layoutAt_under t [] true)]
  exact hg.bbox_eq

theorem region_tiles' (t : Tree) (hw : wf t = true) (q : List Nat) (n : Tree) (hq : t.at? q = some n) :
    RTiles ((layout t).cells.filter (under q)) (reg (layout t).cells q) ∧
    (reg (layout t).cells q).bottom ≤ (layout t).h ∧ (reg (layout t).cells q).right ≤ (layout t).w := by
  obtain ⟨D, Wd, hE⟩ := layoutAt_emb q t [] true _ hw hq
  simp only [List.nil_append] at hE
  have hgn := layoutAt_good _ q false (wf_at _ _ _ hw hq)
  have h1 := hE.tiles hgn
  have h2 := hE.reg_eq hgn
  have a2 := hE.w_le; have a3 := hE.h_le
  simp only [layout]
  rw [h2]
  exact ⟨h1, a3, a2⟩

theorem step_geometry' (t : Tree) (hw : wf t = true) (q : List Nat) (d : SVS) (ins : List Tree)
    (hq : t.at? q = some (.step d ins)) :
    (∃ x ∈ (layout t).cells, x.path = q) ∧
    ∀ x ∈ (layout t).cells, x.path = q →
      x.kind = .step ∧
      x.row = (reg (layout t).cells q).top ∧ x.row + x.rows = (reg (layout t).cells q).bottom ∧
      x.col + x.cols = (reg (layout t).cells q).right ∧
      (∀ i, i < ins.length → (reg (layout t).cells (q ++ [i])).left = (reg (layout t).cells q).left ∧
        (reg (layout t).cells (q ++ [i])).right = x.col) ∧
      (reg (layout t).cells (q ++ [0])).top = (reg (layout t).cells q).top ∧
      (∀ i, i + 1 < ins.length →
        (reg (layout t).cells (q ++ [i + 1])).top = (reg (layout t).cells (q ++ [i])).bottom) ∧
      (reg (layout t).cells (q ++ [ins.length - 1])).bottom = (reg (layout t).cells q).bottom ∧
      (q = [] → x.cols = 1) := by
  have hwn := wf_at _ _ _ hw hq
  simp only [wf, Bool.and_eq_true, Bool.not_eq_true', List.isEmpty_eq_false_iff] at hwn
  have hlen : 0 < ins.length := List.length_pos_iff.2 hwn.1
  have H := step_regions t [] true q d ins hw hq
  simp only [List.nil_append] at H
  obtain ⟨D, Wd, h1, h2, h3, hR, hC, hX, hEx⟩ := H
  have hR' : reg (layout t).cells q = _ := hR
  have hC' : ∀ i, i < ins.length → reg (layout t).cells (q ++ [i]) = _ := fun i hi =>
    hC i ins[i] (List.getElem?_eq_getElem hi)
  refine ⟨hEx, ?_⟩
  intro x hx hpx
  have hg := hX x hx hpx
  simp only [geo, Prod.mk.injEq] at hg
  obtain ⟨g1, g2, g3, g4, g5, g6⟩ := hg
  have hS := stackOf_h q ins
  have h0 := offs_zero (layoutInputs q 0 ins)
  rw [hR']
  refine ⟨g6, g1, by simp only; omega, by simp only; omega, ?_, ?_, ?_, ?_, ?_⟩
  · intro i hi; rw [hC' i hi]; exact ⟨rfl, g2.symm⟩
  · rw [hC' 0 hlen]; simp only; omega
  · intro i hi; rw [hC' (i + 1) hi, hC' i (by omega)]
  · rw [hC' (ins.length - 1) (by omega)]
    simp only
    rw [show ins.length - 1 + 1 = ins.length by omega, hS]
  · intro hq0; subst hq0
    have := reg_root t hw
    rw [hR'] at this
    simp only [Rect.mk.injEq] at this
    simp only [Tree.at?, Option.some.injEq] at hq; subst hq
    have hsh := (step_shape [] true d ins).2.2
    simp only [layout] at this
    omega

theorem header_geometry' (t : Tree) (hw : wf t = true) (q : List Nat) (b : Tree) (ns : List SVS)
    (hq : t.at? q = some (.sub b ns true)) (h1 : ns.length = 1) :
    (∃ x ∈ (layout t).cells, x.path = q) ∧
    ∀ x ∈ (layout t).cells, x.path = q →
      x.kind = .header ∧
      x.row = (reg (layout t).cells q).top ∧ x.rows = 1 ∧
      x.col = (reg (layout t).cells q).left ∧ x.col + x.cols = (reg (layout t).cells q).right ∧
      reg (layout t).cells (q ++ [0]) =
        ⟨(reg (layout t).cells q).top + 1, (reg (layout t).cells q).left,
         (reg (layout t).cells q).bottom, (reg (layout t).cells q).right⟩ := by
  have H := header_regions t [] true q b ns hw hq h1
  simp only [List.nil_append] at H
  obtain ⟨D, Wd, a1, a2, a3, hR, hC, hX, hEx⟩ := H
  have hR' : reg (layout t).cells q = _ := hR
  have hC' : reg (layout t).cells (q ++ [0]) = _ := hC
  refine ⟨hEx, ?_⟩
  intro x hx hpx
  have hg := hX x hx hpx
  simp only [geo, Prod.mk.injEq] at hg
  obtain ⟨g1, g2, g3, g4, g5, g6⟩ := hg
  rw [hR', hC']
  exact ⟨g6, g1, g3, g2, by simp only; omega, rfl⟩

theorem untitled_geometry' (t : Tree) (hw : wf t = true) (q : List Nat) (b : Tree) (ns : List SVS)
    (hq : t.at? q = some (.sub b ns false)) (h1 : ns.length = 1) :
    reg (layout t).cells (q ++ [0]) = reg (layout t).cells q ∧ ∀ x ∈ (layout t).cells, x.path ≠ q := by
  have H := untitled_regions t [] true q b ns hw hq h1
  simp only [List.nil_append] at H
  exact H

theorem outputs_geometry' (t : Tree) (hw : wf t = true) (q : List Nat) (b : Tree) (ns : List SVS) (sh : Bool)
    (hq : t.at? q = some (.sub b ns sh)) (h1 : ns.length ≠ 1) :
    (∃ x ∈ (layout t).cells, x.path = q) ∧
    ∀ x ∈ (layout t).cells, x.path = q →
      x.kind = .outputs ∧
      x.row = (reg (layout t).cells q).top ∧ x.row + x.rows = (reg (layout t).cells q).bottom ∧
      x.col + x.cols = (reg (layout t).cells q).right ∧
      reg (layout t).cells (q ++ [0]) =
        ⟨(reg (layout t).cells q).top, (reg (layout t).cells q).left, (reg (layout t).cells q).bottom, x.col⟩ ∧
      (q = [] → x.cols = 1) := by
  have H := outputs_regions t [] true q b ns sh hw hq h1
  simp only [List.nil_append] at H
  obtain ⟨D, Wd, a1, a2, a3, hR, hC, hX, hEx⟩ := H
  have hR' : reg (layout t).cells q = _ := hR
  have hC' : reg (layout t).cells (q ++ [0]) = _ := hC
  refine ⟨hEx, ?_⟩
  intro x hx hpx
  have hg := hX x hx hpx
  simp only [geo, Prod.mk.injEq] at hg
  obtain ⟨g1, g2, g3, g4, g5, g6⟩ := hg
  rw [hR', hC']
  refine ⟨g6, g1, by simp only; omega, by simp only; omega, by rw [g2], ?_⟩
  intro hq0; subst hq0
  have := reg_root t hw
  rw [hR'] at this
  simp only [Rect.mk.injEq] at this
  simp only [Tree.at?, Option.some.injEq] at hq; subst hq
  have hsh := ((sub_shape [] true b ns sh).2.2 h1).2.2
  simp only [layout, List.nil_append] at this hsh g4 a1
  omega

-- ---------------------------------------------------------------- borders
inductive Side | left | right | top | bottom
deriving DecidableEq, Repr

def PCell.border (x : PCell) : Side → Border
  | .left => x.bl | .right => x.br | .top => x.bt | .bottom => x.bb
def PCell.edge (x : PCell) : Side → Nat
  | .left => x.col | .right => x.col + x.cols | .top => x.row | .bottom => x.row + x.rows
def Rect.edge (R : Rect) : Side → Nat
  | .left => R.left | .right => R.right | .top => R.top | .bottom => R.bottom
/-- the border a cell is created with -/
def initBorder (k : CellKind) (s : Side) : Border := if k = .outputs ∧ s ≠ .left then .none else .normal

/-- side `s` of `x` lies on side `s` of the region of some node of `O` above `x` -/
def Al (cs : List PCell) (O : List Nat → Prop) (x : PCell) (s : Side) : Prop :=
  ∃ q, O q ∧ q <+: x.path ∧ x.edge s = (reg cs q).edge s

/-- the borders of `cs` are right when `O` is the set of outlined nodes -/
structure BOK (cs : List PCell) (O : List Nat → Prop) : Prop where
  til : ∀ q, O q → RTiles (cs.filter (under q)) (reg cs q)
  sub : ∀ x ∈ cs, ∀ s, Al cs O x s → x.border s = .subRecipe
  ini : ∀ x ∈ cs, ∀ s, ¬ Al cs O x s → x.border s = initBorder x.kind s

theorem BOK.congr {cs : List PCell} {O O' : List Nat → Prop} (h : BOK cs O) (e : ∀ q, O q ↔ O' q) : BOK cs O' := by
  have : O = O' := funext fun q => propext (e q)
  rw [← this]; exact h

theorem BOK.map_geo {cs : List PCell} {O : List Nat → Prop} (h : BOK cs O) (f : PCell → PCell) (g : Rect → Rect)
    (hp : ∀ x, (f x).path = x.path) (hk : ∀ x, (f x).kind = x.kind) (hb : ∀ x s, (f x).border s = x.border s)
    (ht : ∀ q, O q → RTiles ((cs.filter (under q)).map f) (g (reg cs q)))
    (he : ∀ x ∈ cs, ∀ q, O q → q <+: x.path → ∀ s,
      ((f x).edge s = (g (reg cs q)).edge s ↔ x.edge s = (reg cs q).edge s)) :
    BOK (cs.map f) O := by
  have hreg : ∀ q, O q → reg (cs.map f) q = g (reg cs q) := by
    intro q hq
    simp only [reg]; rw [filter_under_map _ f _ hp]; exact (ht q hq).bbox_eq
  have hal : ∀ x ∈ cs, ∀ s, Al (cs.map f) O (f x) s ↔ Al cs O x s := by
    intro x hx s
    constructor
    · rintro ⟨q, hq, hpre, hed⟩
      rw [hp] at hpre
      rw [hreg q hq] at hed
      exact ⟨q, hq, hpre, (he x hx q hq hpre s).1 hed⟩
    · rintro ⟨q, hq, hpre, hed⟩
      refine ⟨q, hq, by rw [hp]; exact hpre, ?_⟩
      rw [hreg q hq]; exact (he x hx q hq hpre s).2 hed
  refine ⟨?_, ?_, ?_⟩
  · intro q hq
    rw [hreg q hq, filter_under_map _ f _ hp]; exact ht q hq
  · intro y hy s ha
    obtain ⟨x, hx, rfl⟩ := List.mem_map.1 hy
    rw [hb]; exact h.sub x hx s ((hal x hx s).1 ha)
  · intro y hy s ha
    obtain ⟨x, hx, rfl⟩ := List.mem_map.1 hy
    rw [hb, hk]; exact h.ini x hx s (fun ha' => ha ((hal x hx s).2 ha'))

theorem BOK.shiftDown {cs : List PCell} {O : List Nat → Prop} (h : BOK cs O) (d : Nat) :
    BOK (cs.map (RG.shiftDown d)) O := by
  apply h.map_geo (RG.shiftDown d) (fun R => ⟨R.top + d, R.left, R.bottom + d, R.right⟩)
    (fun _ => rfl) (fun _ => rfl) (fun x s => by cases s <;> rfl)
  · intro q hq; exact (h.til q hq).shiftDown d
  · intro x _ q _ _ s
    cases s <;> simp only [PCell.edge, Rect.edge, RG.shiftDown] <;> omega

theorem RTiles.right_le {cs : List PCell} {R : Rect} (h : RTiles cs R) (w0 : Nat)
    (hc : ∀ x ∈ cs, x.col + x.cols ≤ w0) : R.right ≤ w0 := by
  have hne := h.ne
  obtain ⟨x, hx, hcv⟩ := h.exists_covering R.top (R.right - 1) (by omega) (by omega) (by omega) (by omega)
  have := hc x hx
  omega

theorem padEdge_inj (w0 w a b : Nat) (ha : a ≤ w0) (hb : b ≤ w0) (hw : w0 ≤ w) :
    padEdge w0 w a = padEdge w0 w b ↔ a = b := by
  unfold padEdge; split <;> split <;> omega

theorem BOK.padCell {cs : List PCell} {O : List Nat → Prop} (h : BOK cs O) (w0 w : Nat) (hw : w0 < w)
    (hc : ∀ x ∈ cs, 0 < x.cols ∧ x.col + x.cols ≤ w0) : BOK (cs.map (RG.padCell w0 w)) O := by
  have hR : ∀ q, O q → (reg cs q).right ≤ w0 := fun q hq =>
    (h.til q hq).right_le w0 (fun x hx => (hc x (List.mem_filter.1 hx).1).2)
  apply h.map_geo (RG.padCell w0 w) (fun R => ⟨R.top, R.left, R.bottom, padEdge w0 w R.right⟩)
    (fun x => (padCell_geo' w0 w x).1) (fun x => (padCell_geo' w0 w x).2.1)
  · intro x s; unfold RG.padCell; split <;> cases s <;> rfl
  · intro q hq; exact (h.til q hq).pad w0 w (hR q hq) hw
  · intro x hx q hq _ s
    have g := padCell_geo w0 w x (hc x hx).1 (hc x hx).2 hw
    have := padEdge_inj w0 w (x.col + x.cols) (reg cs q).right (hc x hx).2 (hR q hq) (by omega)
    cases s <;> simp only [PCell.edge, Rect.edge] <;> omega

theorem BOK.pad {T : Tbl} {O : List Nat → Prop} (h : BOK T.cells O) (hg : Good T) (w : Nat) :
    BOK (RG.pad T w).cells O := by
  unfold RG.pad
  split
  · exact h
  · exact h.padCell T.w w (by omega) (fun x hx => by have := hg.ok x hx; simp only at this; omega)

theorem reg_append_left {a b : List PCell} {q : List Nat} (h : ∀ y ∈ b, ¬ q <+: y.path) :
    reg (a ++ b) q = reg a q := by
  simp only [reg, List.filter_append, filter_under_eq_nil h, List.append_nil]
theorem reg_append_right {a b : List PCell} {q : List Nat} (h : ∀ y ∈ a, ¬ q <+: y.path) :
    reg (a ++ b) q = reg b q := by
  simp only [reg, List.filter_append, filter_under_eq_nil h, List.nil_append]

theorem BOK.append {a b : List PCell} {Oa Ob : List Nat → Prop} (ha : BOK a Oa) (hb : BOK b Ob)
    (h1 : ∀ q, Oa q → ∀ y ∈ b, ¬ q <+: y.path) (h2 : ∀ q, Ob q → ∀ x ∈ a, ¬ q <+: x.path) :
    BOK (a ++ b) (fun q => Oa q ∨ Ob q) := by
  have hala : ∀ x ∈ a, ∀ s, Al (a ++ b) (fun q => Oa q ∨ Ob q) x s ↔ Al a Oa x s := by
    intro x hx s
    constructor
    · rintro ⟨q, hq | hq, hpre, hed⟩
      · rw [reg_append_left (h1 q hq)] at hed; exact ⟨q, hq, hpre, hed⟩
      · exact absurd hpre (h2 q hq x hx)
    · rintro ⟨q, hq, hpre, hed⟩
      exact ⟨q, Or.inl hq, hpre, by rw [reg_append_left (h1 q hq)]; exact hed⟩
  have halb : ∀ x ∈ b, ∀ s, Al (a ++ b) (fun q => Oa q ∨ Ob q) x s ↔ Al b Ob x s := by
    intro x hx s
    constructor
    · rintro ⟨q, hq | hq, hpre, hed⟩
      · exact absurd hpre (h1 q hq x hx)
      · rw [reg_append_right (h2 q hq)] at hed; exact ⟨q, hq, hpre, hed⟩
    · rintro ⟨q, hq, hpre, hed⟩
      exact ⟨q, Or.inr hq, hpre, by rw [reg_append_right (h2 q hq)]; exact hed⟩
  refine ⟨?_, ?_, ?_⟩
  · rintro q (hq | hq)
    · rw [reg_append_left (h1 q hq), List.filter_append, filter_under_eq_nil (h1 q hq), List.append_nil]
      exact ha.til q hq
    · rw [reg_append_right (h2 q hq), List.filter_append, filter_under_eq_nil (h2 q hq), List.nil_append]
      exact hb.til q hq
  · intro x hx s hal
    rcases List.mem_append.1 hx with hx | hx
    · exact ha.sub x hx s ((hala x hx s).1 hal)
    · exact hb.sub x hx s ((halb x hx s).1 hal)
  · intro x hx s hal
    rcases List.mem_append.1 hx with hx | hx
    · exact ha.ini x hx s (fun h' => hal ((hala x hx s).2 h'))
    · exact hb.ini x hx s (fun h' => hal ((halb x hx s).2 h'))

theorem borderCell_border (h w : Nat) (x : PCell) (s : Side) :
    (borderCell h w .subRecipe x).border s =
      if x.edge s = (Rect.mk 0 0 h w).edge s then .subRecipe else x.border s := by
  cases s <;> rfl

/-- drawing the outline of the node at `P`, whose table is `cs` -/
theorem BOK.setBorder {cs : List PCell} {O : List Nat → Prop} (hb : BOK cs O) (h w : Nat) (P : List Nat)
    (hg : RTiles cs ⟨0, 0, h, w⟩) (hu : ∀ x ∈ cs, P <+: x.path) :
    BOK (cs.map (borderCell h w .subRecipe)) (fun q => q = P ∨ O q) := by
  have hreg : ∀ q, reg (cs.map (borderCell h w .subRecipe)) q = reg cs q :=
    fun q => (GEq.map_border cs h w .subRecipe).reg_eq q
  have hP : reg cs P = ⟨0, 0, h, w⟩ := by
    simp only [reg]; rw [filter_under_eq_self hu]; exact hg.bbox_eq
  have hal : ∀ x ∈ cs, ∀ s, Al (cs.map (borderCell h w .subRecipe)) (fun q => q = P ∨ O q)
      (borderCell h w .subRecipe x) s ↔ (x.edge s = (Rect.mk 0 0 h w).edge s ∨ Al cs O x s) := by
    intro x hx s
    have he : (borderCell h w .subRecipe x).edge s = x.edge s := by cases s <;> rfl
    constructor
    · rintro ⟨q, hq | hq, hpre, hed⟩
      · subst hq; rw [hreg, hP, he] at hed; exact Or.inl hed
      · rw [hreg, he] at hed; exact Or.inr ⟨q, hq, hpre, hed⟩
    · rintro (hed | ⟨q, hq, hpre, hed⟩)
      · exact ⟨P, Or.inl rfl, hu x hx, by rw [hreg, hP, he]; exact hed⟩
      · exact ⟨q, Or.inr hq, hpre, by rw [hreg, he]; exact hed⟩
  refine ⟨?_, ?_, ?_⟩
  · rintro q hq
    rw [hreg, filter_under_map _ (borderCell h w .subRecipe) _ (fun _ => rfl)]
    refine RTiles.map_geo ?_ (borderCell h w .subRecipe) (fun _ => ⟨rfl, rfl, rfl, rfl⟩)
    rcases hq with hq | hq
    · subst hq; rw [hP, filter_under_eq_self hu]; exact hg
    · exact hb.til q hq
  · intro y hy s ha
    obtain ⟨x, hx, rfl⟩ := List.mem_map.1 hy
    rw [borderCell_border]
    rcases (hal x hx s).1 ha with h' | h'
    · rw [if_pos h']
    · split
      · rfl
      · exact hb.sub x hx s h'
  · intro y hy s ha
    obtain ⟨x, hx, rfl⟩ := List.mem_map.1 hy
    have hn := fun h' => ha ((hal x hx s).2 h')
    rw [borderCell_border, if_neg (fun h' => hn (Or.inl h'))]
    exact hb.ini x hx s (fun h' => hn (Or.inr h'))

theorem BOK.single (x : PCell) (hx : ∀ s, x.border s = initBorder x.kind s) : BOK [x] (fun _ => False) := by
  refine ⟨fun q hq => hq.elim, ?_, ?_⟩
  · rintro y _ s ⟨q, hq, _⟩; exact hq.elim
  · intro y hy s _
    simp only [List.mem_singleton] at hy; subst hy; exact hx s

mutual
/-- the paths around which `layoutAt p root t` draws an outline (mirrors the recursion of `layoutAt`) -/
def outlSet (p : List Nat) (root : Bool) : Tree → List Nat → Prop
  | .ingredient .., Q => root = true ∧ Q = p
  | .reference .., Q => root = true ∧ Q = p
  | .step _ ins, Q => (root = true ∧ Q = p) ∨ outlSetL p 0 ins Q
  | .sub b ns _, Q =>
    if ns.length = 1 then Q = p ∨ outlSet (p ++ [0]) false b Q
    else Q = p ++ [0] ∨ outlSet (p ++ [0]) false b Q
def outlSetL (p : List Nat) (i : Nat) : List Tree → List Nat → Prop
  | [], _ => False
  | t :: ts, Q => outlSet (p ++ [i]) false t Q ∨ outlSetL p (i + 1) ts Q
end

mutual
theorem outlSet_prefix : ∀ (t : Tree) (p : List Nat) (root : Bool) (Q : List Nat), outlSet p root t Q → p <+: Q
  | .ingredient .., p, root, Q, h => by simp only [outlSet] at h; rw [h.2]; exact List.prefix_refl _
  | .reference .., p, root, Q, h => by simp only [outlSet] at h; rw [h.2]; exact List.prefix_refl _
  | .step _ ins, p, root, Q, h => by
    simp only [outlSet] at h
    rcases h with h | h
    · rw [h.2]; exact List.prefix_refl _
    · obtain ⟨j, _, hj⟩ := outlSetL_prefix ins p 0 Q h
      exact prefix_of_snoc hj
  | .sub b ns sh, p, root, Q, h => by
    simp only [outlSet] at h
    split at h
    · rcases h with h | h
      · rw [h]; exact List.prefix_refl _
      · exact prefix_of_snoc (outlSet_prefix b _ _ Q h)
    · rcases h with h | h
      · rw [h]; exact List.prefix_append _ _
      · exact prefix_of_snoc (outlSet_prefix b _ _ Q h)
theorem outlSetL_prefix : ∀ (ts : List Tree) (p : List Nat) (i : Nat) (Q : List Nat), outlSetL p i ts Q →
    ∃ j, i ≤ j ∧ p ++ [j] <+: Q
  | [], _, _, _, h => by simp [outlSetL] at h
  | a :: as, p, i, Q, h => by
    simp only [outlSetL] at h
    rcases h with h | h
    · exact ⟨i, Nat.le_refl _, outlSet_prefix a _ _ Q h⟩
    · obtain ⟨j, h1, h2⟩ := outlSetL_prefix as p (i + 1) Q h
      exact ⟨j, by omega, h2⟩
end

theorem pad_under {T : Tbl} {P : List Nat} (h : ∀ x ∈ T.cells, P <+: x.path) (w : Nat) :
    ∀ x ∈ (pad T w).cells, P <+: x.path := by
  unfold pad
  split
  · exact h
  · intro y hy
    obtain ⟨x, hx, rfl⟩ := List.mem_map.1 hy
    rw [(padCell_geo' _ _ x).1]; exact h x hx

theorem BOK.nil : BOK [] (fun _ => False) :=
  ⟨fun _ hq => hq.elim, fun _ hx => by simp at hx, fun _ hx => by simp at hx⟩

theorem not_prefix_of_snoc_ne {p Q y : List Nat} {i k : Nat} (h1 : p ++ [i] <+: Q) (h2 : p ++ [k] <+: y)
    (hne : i ≠ k) : ¬ Q <+: y := fun h => hne (prefix_snoc_inj (List.IsPrefix.trans h1 h) h2)

mutual
theorem layoutAt_bok : ∀ (t : Tree) (p : List Nat) (root : Bool), wf t = true →
    BOK (layoutAt p root t).cells (outlSet p root t)
  | .ingredient .., p, root, _ => by
    have h0 : BOK [({ row := 0, col := 0, rows := 1, cols := 1, path := p, kind := .ingredient } : PCell)]
        (fun _ => False) := BOK.single _ (by intro s; cases s <;> rfl)
    cases root
    · simp only [layoutAt, Bool.false_eq_true, if_false]
      exact h0.congr (by simp [outlSet])
    · simp only [layoutAt, if_true]
      exact (h0.setBorder 1 1 p (Good.single _ 1 1 (by omega) (by omega) (by simp))
        (by simp)).congr (by simp [outlSet])
  | .reference .., p, root, _ => by
    have h0 : BOK [({ row := 0, col := 0, rows := 1, cols := 1, path := p, kind := .reference } : PCell)]
        (fun _ => False) := BOK.single _ (by intro s; cases s <;> rfl)
    cases root
    · simp only [layoutAt, Bool.false_eq_true, if_false]
      exact h0.congr (by simp [outlSet])
    · simp only [layoutAt, if_true]
      exact (h0.setBorder 1 1 p (Good.single _ 1 1 (by omega) (by omega) (by simp))
        (by simp)).congr (by simp [outlSet])
  | .step d ins, p, root, hw => by
    have hg := layoutAt_good (.step d ins) p false hw
    have hu := layoutAt_under (.step d ins) p false
    simp only [wf, Bool.and_eq_true] at hw
    have hs := stack_bok ins p 0 (maxWidth (layoutInputs p 0 ins)) hw.2
    have hc : BOK [shiftRight (vstack ((layoutInputs p 0 ins).map (pad · (maxWidth (layoutInputs p 0 ins))))).w
        ({ row := 0, col := 0, rows := (vstack ((layoutInputs p 0 ins).map (pad · (maxWidth (layoutInputs p 0 ins))))).h, cols := 1, path := p, kind := .step } : PCell)] (fun _ => False) :=
      BOK.single _ (by intro s; cases s <;> rfl)
    have hall := hs.append hc
      (by
        intro Q hQ y hy
        simp only [List.mem_singleton] at hy; subst hy
        obtain ⟨j, _, hj⟩ := outlSetL_prefix ins p 0 Q hQ
        intro h'
        exact prefix_snoc_ne (List.IsPrefix.trans hj h') rfl)
      (by intro Q hQ; exact hQ.elim)
    simp only [layoutAt, Bool.false_eq_true, if_false] at hg hu
    cases root
    · simp only [layoutAt, Bool.false_eq_true, if_false]
      exact hall.congr (by simp [outlSet])
    · simp only [layoutAt, if_true]
      exact (hall.setBorder _ _ p hg hu).congr (by intro Q; simp only [outlSet, or_false, true_and])
  | .sub b ns sh, p, root, hw => by
    simp only [wf] at hw
    have hb := layoutAt_bok b (p ++ [0]) false hw
    have hgb := layoutAt_good b (p ++ [0]) false hw
    have hub := layoutAt_under b (p ++ [0]) false
    simp only [layoutAt]
    split
    · rename_i hn
      split
      · -- titled
        have hb' := hb.shiftDown 1
        have hc : BOK [({ row := 0, col := 0, rows := 1, cols := (layoutAt (p ++ [0]) false b).w, kind := .header, path := p } : PCell)] (fun _ => False) := BOK.single _ (by intro s; cases s <;> rfl)
        have hall := hc.append hb' (by intro Q hQ; exact hQ.elim)
          (by
            intro Q hQ y hy
            simp only [List.mem_singleton] at hy; subst hy
            intro h'
            exact prefix_snoc_ne (List.IsPrefix.trans (outlSet_prefix b _ _ Q hQ) h') rfl)
        have hg : Good (vcat ⟨1, (layoutAt (p ++ [0]) false b).w,
            [{ row := 0, col := 0, rows := 1, cols := (layoutAt (p ++ [0]) false b).w, kind := .header, path := p }]⟩ (layoutAt (p ++ [0]) false b)) :=
          Good.vcat (Good.single _ 1 _ (by omega) hgb.ne.2 (by simp)) hgb rfl
        refine (hall.setBorder _ _ p hg ?_).congr (by intro Q; simp only [outlSet, hn, if_true, false_or])
        intro x hx
        rcases List.mem_append.1 hx with hx | hx
        · simp only [List.mem_singleton] at hx; subst hx; exact List.prefix_refl _
        · obtain ⟨y, hy, rfl⟩ := List.mem_map.1 hx
          exact prefix_of_snoc (hub y hy)
      · -- untitled
        exact (hb.setBorder _ _ p hgb (fun x hx => prefix_of_snoc (hub x hx))).congr
          (by intro Q; simp only [outlSet, hn, if_true])
    · rename_i hn
      have hb' := hb.setBorder _ _ (p ++ [0]) hgb hub
      have hc : BOK [shiftRight (setBorder (layoutAt (p ++ [0]) false b) .subRecipe).w
          ({ row := 0, col := 0, rows := (layoutAt (p ++ [0]) false b).h, cols := 1, path := p, kind := .outputs, bt := .none, br := .none, bb := .none } : PCell)] (fun _ => False) :=
        BOK.single _ (by intro s; cases s <;> rfl)
      refine (hb'.append hc ?_ (by intro Q hQ; exact hQ.elim)).congr
        (by intro Q; simp only [outlSet, hn, if_false, or_false])
      intro Q hQ y hy
      simp only [List.mem_singleton] at hy; subst hy
      intro h'
      have : p ++ [0] <+: Q := by
        rcases hQ with hQ | hQ
        · rw [hQ]; exact List.prefix_refl _
        · exact outlSet_prefix b _ _ Q hQ
      exact prefix_snoc_ne (List.IsPrefix.trans this h') rfl
theorem stack_bok : ∀ (ts : List Tree) (p : List Nat) (i0 w : Nat), wfList ts = true →
    BOK (vstack ((layoutInputs p i0 ts).map (pad · w))).cells (outlSetL p i0 ts)
  | [], _, _, _, _ => by
    simp only [layoutInputs, List.map_nil, vstack]
    exact BOK.nil.congr (by simp [outlSetL])
  | a :: as, p, i0, w, hw => by
    simp only [wfList, Bool.and_eq_true] at hw
    have ha := (layoutAt_bok a (p ++ [i0]) false hw.1).pad (layoutAt_good a (p ++ [i0]) false hw.1) w
    have hs := (stack_bok as p (i0 + 1) w hw.2).shiftDown (pad (layoutAt (p ++ [i0]) false a) w).h
    have hua := pad_under (layoutAt_under a (p ++ [i0]) false) w
    have hus := stack_under as p (i0 + 1) w
    simp only [layoutInputs, List.map_cons, vstack_cons, vcat]
    refine (ha.append hs ?_ ?_).congr (by intro Q; simp only [outlSetL])
    · intro Q hQ y hy
      obtain ⟨z, hz, rfl⟩ := List.mem_map.1 hy
      obtain ⟨k, hk1, hk2⟩ := hus z hz
      exact not_prefix_of_snoc_ne (outlSet_prefix a _ _ Q hQ) (y := (shiftDown _ z).path) hk2 (by omega)
    · intro Q hQ x hx
      obtain ⟨k, hk1, hk2⟩ := outlSetL_prefix as p (i0 + 1) Q hQ
      exact not_prefix_of_snoc_ne hk2 (hua x hx) (by omega)
end

-- ---------------------------------------------------------------- outlined nodes, in terms of `Tree.at?`
/-- the outlined nodes of `layoutAt _ root t`, as paths relative to `t` -/
def outl (root : Bool) (t : Tree) (q : List Nat) : Prop :=
  (q = [] ∧ root = true ∧ ∀ b ns sh, t = .sub b ns sh → ns.length = 1) ∨
  (∃ b ns sh, t.at? q = some (.sub b ns sh) ∧ ns.length = 1) ∨
  (∃ q' b ns sh, q = q' ++ [0] ∧ t.at? q' = some (.sub b ns sh) ∧ ns.length ≠ 1)

theorem at?_nil (t : Tree) : t.at? [] = some t := by cases t <;> rfl
theorem at?_step_cons (d : SVS) (ins : List Tree) (i : Nat) (r : List Nat) (c : Tree) (h : ins[i]? = some c) :
    (Tree.step d ins).at? (i :: r) = c.at? r := by simp [Tree.at?, h]
theorem at?_sub_zero (b : Tree) (ns : List SVS) (sh : Bool) (r : List Nat) :
    (Tree.sub b ns sh).at? (0 :: r) = b.at? r := by simp [Tree.at?]

theorem snoc_eq_cons {q' : List Nat} {i : Nat} {r : List Nat} (h : i :: r = q' ++ [0]) :
    (q' = [] ∧ i = 0 ∧ r = []) ∨ (∃ r', q' = i :: r' ∧ r = r' ++ [0]) := by
  cases q' with
  | nil => simp at h; exact Or.inl ⟨rfl, h.1, h.2⟩
  | cons a q'' => simp at h; exact Or.inr ⟨q'', by rw [h.1], h.2⟩

theorem outl_nil (root : Bool) (t : Tree) :
    outl root t [] ↔ (root = true ∧ ∀ b ns sh, t = .sub b ns sh → ns.length = 1) ∨
      (∃ b ns sh, t = .sub b ns sh ∧ ns.length = 1) := by
  simp only [outl, at?_nil, Option.some.injEq, true_and]
  constructor
  · rintro (h | h | ⟨q', _, _, _, h, _⟩)
    · exact Or.inl h
    · exact Or.inr h
    · simp at h
  · rintro (h | h)
    · exact Or.inl h
    · exact Or.inr (Or.inl h)

theorem outl_cons_step (root : Bool) (d : SVS) (ins : List Tree) (i : Nat) (r : List Nat) :
    outl root (.step d ins) (i :: r) ↔ ∃ c, ins[i]? = some c ∧ outl false c r := by
  constructor
  · rintro (h | ⟨b, ns, sh, h, hn⟩ | ⟨q', b, ns, sh, hq, h, hn⟩)
    · simp at h
    · rcases at?_cons _ i r _ h with ⟨d', ins', c, e, hc, hr⟩ | ⟨_, _, _, e, _⟩
      · cases e; exact ⟨c, hc, Or.inr (Or.inl ⟨b, ns, sh, hr, hn⟩)⟩
      · cases e
    · rcases snoc_eq_cons hq with ⟨rfl, _, _⟩ | ⟨r', rfl, rfl⟩
      · rw [at?_nil] at h; cases h
      · rcases at?_cons _ i r' _ h with ⟨d', ins', c, e, hc, hr⟩ | ⟨_, _, _, e, _⟩
        · cases e; exact ⟨c, hc, Or.inr (Or.inr ⟨r', b, ns, sh, rfl, hr, hn⟩)⟩
        · cases e
  · rintro ⟨c, hc, h | ⟨b, ns, sh, h, hn⟩ | ⟨q', b, ns, sh, hq, h, hn⟩⟩
    · simp at h
    · exact Or.inr (Or.inl ⟨b, ns, sh, by rw [at?_step_cons d ins i r c hc]; exact h, hn⟩)
    · subst hq
      exact Or.inr (Or.inr ⟨i :: q', b, ns, sh, rfl, by rw [at?_step_cons d ins i q' c hc]; exact h, hn⟩)

theorem outl_cons_sub (root : Bool) (b : Tree) (ns : List SVS) (sh : Bool) (i : Nat) (r : List Nat) :
    outl root (.sub b ns sh) (i :: r) ↔ i = 0 ∧ ((r = [] ∧ ns.length ≠ 1) ∨ outl false b r) := by
  constructor
  · rintro (h | ⟨b', ns', sh', h, hn⟩ | ⟨q', b', ns', sh', hq, h, hn⟩)
    · simp at h
    · rcases at?_cons _ i r _ h with ⟨_, _, _, e, _⟩ | ⟨b2, ns2, sh2, e, hi, hr⟩
      · cases e
      · cases e; exact ⟨hi, Or.inr (Or.inr (Or.inl ⟨b', ns', sh', hr, hn⟩))⟩
    · rcases snoc_eq_cons hq with ⟨rfl, hi, hr⟩ | ⟨r', rfl, rfl⟩
      · rw [at?_nil] at h; cases h; exact ⟨hi, Or.inl ⟨hr, hn⟩⟩
      · rcases at?_cons _ i r' _ h with ⟨_, _, _, e, _⟩ | ⟨b2, ns2, sh2, e, hi, hr⟩
        · cases e
        · cases e; exact ⟨hi, Or.inr (Or.inr (Or.inr ⟨r', b', ns', sh', rfl, hr, hn⟩))⟩
  · rintro ⟨rfl, ⟨rfl, hn⟩ | h | ⟨b', ns', sh', h, hn⟩ | ⟨q', b', ns', sh', hq, h, hn⟩⟩
    · exact Or.inr (Or.inr ⟨[], b, ns, sh, rfl, at?_nil _, hn⟩)
    · simp at h
    · exact Or.inr (Or.inl ⟨b', ns', sh', by rw [at?_sub_zero]; exact h, hn⟩)
    · subst hq
      exact Or.inr (Or.inr ⟨0 :: q', b', ns', sh', rfl, by rw [at?_sub_zero]; exact h, hn⟩)

theorem outl_cons_leaf (root : Bool) (t : Tree) (i : Nat) (r : List Nat)
    (ht : ∀ d ins, t ≠ .step d ins) (ht' : ∀ b ns sh, t ≠ .sub b ns sh) : ¬ outl root t (i :: r) := by
  rintro (h | ⟨b, ns, sh, h, hn⟩ | ⟨q', b, ns, sh, hq, h, hn⟩)
  · simp at h
  · rcases at?_cons _ i r _ h with ⟨d, ins, _, e, _⟩ | ⟨b2, ns2, sh2, e, _⟩
    · exact ht d ins e
    · exact ht' _ _ _ e
  · rcases snoc_eq_cons hq with ⟨rfl, _, _⟩ | ⟨r', rfl, rfl⟩
    · rw [at?_nil] at h; cases h; exact ht' _ _ _ rfl
    · rcases at?_cons _ i r' _ h with ⟨d, ins, _, e, _⟩ | ⟨b2, ns2, sh2, e, _⟩
      · exact ht d ins e
      · exact ht' _ _ _ e

theorem outl_nil_leaf (root : Bool) (t : Tree) (ht' : ∀ b ns sh, t ≠ .sub b ns sh) :
    outl root t [] ↔ root = true := by
  rw [outl_nil]
  constructor
  · rintro (h | ⟨b, ns, sh, e, _⟩)
    · exact h.1
    · exact absurd e (ht' _ _ _)
  · intro h; exact Or.inl ⟨h, fun b ns sh e => absurd e (ht' _ _ _)⟩

mutual
theorem outlSet_iff : ∀ (t : Tree) (p : List Nat) (root : Bool) (Q : List Nat),
    outlSet p root t Q ↔ ∃ q, Q = p ++ q ∧ outl root t q
  | .ingredient d q0, p, root, Q => by
    simp only [outlSet]
    have hl := outl_nil_leaf root (.ingredient d q0) (by intro _ _ _ e; cases e)
    constructor
    · rintro ⟨hr, rfl⟩; exact ⟨[], by simp, hl.2 hr⟩
    · rintro ⟨q, rfl, h⟩
      cases q with
      | nil => exact ⟨hl.1 h, by simp⟩
      | cons i r =>
        exact absurd h (outl_cons_leaf _ _ i r (by intro _ _ e; cases e) (by intro _ _ _ e; cases e))
  | .reference s0 i0 a0, p, root, Q => by
    simp only [outlSet]
    have hl := outl_nil_leaf root (.reference s0 i0 a0) (by intro _ _ _ e; cases e)
    constructor
    · rintro ⟨hr, rfl⟩; exact ⟨[], by simp, hl.2 hr⟩
    · rintro ⟨q, rfl, h⟩
      cases q with
      | nil => exact ⟨hl.1 h, by simp⟩
      | cons i r =>
        exact absurd h (outl_cons_leaf _ _ i r (by intro _ _ e; cases e) (by intro _ _ _ e; cases e))
  | .step d ins, p, root, Q => by
    simp only [outlSet, outlSetL_iff ins p 0 Q]
    have hl := outl_nil_leaf root (.step d ins) (by intro _ _ _ e; cases e)
    constructor
    · rintro (⟨hr, rfl⟩ | ⟨j, c, r, hc, rfl, h⟩)
      · exact ⟨[], by simp, hl.2 hr⟩
      · exact ⟨(0 + j) :: r, rfl, (outl_cons_step _ _ _ _ _).2 ⟨c, by simpa using hc, h⟩⟩
    · rintro ⟨q, rfl, h⟩
      cases q with
      | nil => exact Or.inl ⟨hl.1 h, by simp⟩
      | cons i r =>
        obtain ⟨c, hc, h'⟩ := (outl_cons_step _ _ _ _ _).1 h
        exact Or.inr ⟨i, c, r, hc, by simp, h'⟩
  | .sub b ns sh, p, root, Q => by
    simp only [outlSet, outlSet_iff b (p ++ [0]) false Q]
    split
    · rename_i hn
      constructor
      · rintro (rfl | ⟨r, rfl, h⟩)
        · exact ⟨[], by simp, (outl_nil _ _).2 (Or.inr ⟨b, ns, sh, rfl, hn⟩)⟩
        · exact ⟨0 :: r, by simp, (outl_cons_sub _ _ _ _ _ _).2 ⟨rfl, Or.inr h⟩⟩
      · rintro ⟨q, rfl, h⟩
        cases q with
        | nil => left; simp
        | cons i r =>
          right
          obtain ⟨rfl, h' | h'⟩ := (outl_cons_sub _ _ _ _ _ _).1 h
          · exact absurd hn h'.2
          · exact ⟨r, by simp, h'⟩
    · rename_i hn
      constructor
      · rintro (rfl | ⟨r, rfl, h⟩)
        · exact ⟨[0], rfl, (outl_cons_sub _ _ _ _ _ _).2 ⟨rfl, Or.inl ⟨rfl, hn⟩⟩⟩
        · exact ⟨0 :: r, by simp, (outl_cons_sub _ _ _ _ _ _).2 ⟨rfl, Or.inr h⟩⟩
      · rintro ⟨q, rfl, h⟩
        cases q with
        | nil =>
          exfalso
          rcases (outl_nil _ _).1 h with h | ⟨b', ns', sh', e, hn'⟩
          · exact hn (h.2 b ns sh rfl)
          · cases e; exact hn hn'
        | cons i r =>
          obtain ⟨rfl, h' | h'⟩ := (outl_cons_sub _ _ _ _ _ _).1 h
          · left; rw [h'.1]
          · right; exact ⟨r, by simp, h'⟩
theorem outlSetL_iff : ∀ (ts : List Tree) (p : List Nat) (i : Nat) (Q : List Nat),
    outlSetL p i ts Q ↔ ∃ j c r, ts[j]? = some c ∧ Q = p ++ (i + j) :: r ∧ outl false c r
  | [], _, _, _ => by simp [outlSetL]
  | a :: as, p, i, Q => by
    simp only [outlSetL, outlSet_iff a (p ++ [i]) false Q, outlSetL_iff as p (i + 1) Q]
    constructor
    · rintro (⟨r, rfl, h⟩ | ⟨j, c, r, hc, rfl, h⟩)
      · exact ⟨0, a, r, rfl, by simp, h⟩
      · exact ⟨j + 1, c, r, by simpa using hc, by rw [show i + 1 + j = i + (j + 1) by omega], h⟩
    · rintro ⟨j, c, r, hc, rfl, h⟩
      cases j with
      | zero =>
        simp only [List.getElem?_cons_zero, Option.some.injEq] at hc; subst hc
        exact Or.inl ⟨r, by simp, h⟩
      | succ j =>
        exact Or.inr ⟨j, c, r, by simpa using hc, by rw [show i + 1 + j = i + (j + 1) by omega], h⟩
end

/-- the borders of the whole layout -/
theorem layout_borders' (t : Tree) (hw : wf t = true) : BOK (layout t).cells (outl true t) :=
  (layoutAt_bok t [] true hw).congr (fun Q => by
    rw [outlSet_iff]
    constructor
    · rintro ⟨q, rfl, h⟩; simpa using h
    · intro h; exact ⟨Q, by simp, h⟩)

mutual
/-- only sub recipes with an outputs column get an `outputs` cell -/
theorem drawn_outputs : ∀ (t : Tree) (p P : List Nat), (P, CellKind.outputs) ∈ drawn p t →
    ∃ q b ns sh, P = p ++ q ∧ t.at? q = some (.sub b ns sh) ∧ ns.length ≠ 1
  | .ingredient .., p, P, h => by simp [drawn] at h
  | .reference .., p, P, h => by simp [drawn] at h
  | .step d ins, p, P, h => by
    simp only [drawn, List.mem_append, List.mem_singleton, Prod.mk.injEq, reduceCtorEq, and_false, or_false] at h
    obtain ⟨j, c, q, b, ns, sh, hc, rfl, hq, hn⟩ := drawnInputs_outputs ins p 0 P h
    exact ⟨(0 + j) :: q, b, ns, sh, rfl, by rw [at?_step_cons d ins _ q c (by simpa using hc)]; exact hq, hn⟩
  | .sub b ns sh, p, P, h => by
    simp only [drawn] at h
    split at h
    · rename_i hn
      have h' : (P, CellKind.outputs) ∈ drawn (p ++ [0]) b := by
        rcases List.mem_append.1 h with h | h
        · split at h <;> simp at h
        · exact h
      obtain ⟨q, b', ns', sh', rfl, hq, hn'⟩ := drawn_outputs b (p ++ [0]) P h'
      exact ⟨0 :: q, b', ns', sh', by simp, by rw [at?_sub_zero]; exact hq, hn'⟩
    · rename_i hn
      rcases List.mem_append.1 h with h | h
      · obtain ⟨q, b', ns', sh', rfl, hq, hn'⟩ := drawn_outputs b (p ++ [0]) P h
        exact ⟨0 :: q, b', ns', sh', by simp, by rw [at?_sub_zero]; exact hq, hn'⟩
      · simp only [List.mem_singleton, Prod.mk.injEq, and_true] at h
        exact ⟨[], b, ns, sh, by simp [h], at?_nil _, hn⟩
theorem drawnInputs_outputs : ∀ (ts : List Tree) (p : List Nat) (i : Nat) (P : List Nat),
    (P, CellKind.outputs) ∈ drawnInputs p i ts →
    ∃ j c q b ns sh, ts[j]? = some c ∧ P = p ++ (i + j) :: q ∧ c.at? q = some (.sub b ns sh) ∧ ns.length ≠ 1
  | [], _, _, _, h => by simp [drawnInputs] at h
  | a :: as, p, i, P, h => by
    simp only [drawnInputs, List.mem_append] at h
    rcases h with h | h
    · obtain ⟨q, b, ns, sh, rfl, hq, hn⟩ := drawn_outputs a (p ++ [i]) P h
      exact ⟨0, a, q, b, ns, sh, rfl, by simp, hq, hn⟩
    · obtain ⟨j, c, q, b, ns, sh, hc, rfl, hq, hn⟩ := drawnInputs_outputs as p (i + 1) P h
      exact ⟨j + 1, c, q, b, ns, sh, by simpa using hc, by rw [show i + 1 + j = i + (j + 1) by omega], hq, hn⟩
end

theorem outputs_cell_at (t : Tree) (x : PCell) (hx : x ∈ (layout t).cells) (hk : x.kind = .outputs) :
    ∃ b ns sh, t.at? x.path = some (.sub b ns sh) ∧ ns.length ≠ 1 := by
  have : (x.path, CellKind.outputs) ∈ drawn [] t := by
    rw [← layoutAt_pk t [] true, ← hk]
    exact List.mem_map.2 ⟨x, hx, rfl⟩
  obtain ⟨q, b, ns, sh, e, hq, hn⟩ := drawn_outputs t [] x.path this
  simp only [List.nil_append] at e
  exact ⟨b, ns, sh, e ▸ hq, hn⟩

end RG
