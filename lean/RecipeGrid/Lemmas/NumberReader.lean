import RecipeGrid.Model.NumberReader
import RecipeGrid.Props.C06
/-! Helper lemmas about `Model/NumberReader.lean` (`number_parser.number`) used by `Props/C11c.lean`:
    what the reader returns on each of the four spellings `C06.NumLit` of the recipe grammar's `number` rule. -/
namespace RG
open NumberReader C06

deriving instance DecidableEq for ReaderResult

/-! ## runs of a character class at the head of a list -/

theorem takeWhile_nil_of_next {p : Char → Bool} {rest : Str} (hr : NextNot p rest) : rest.takeWhile p = [] := by
  cases rest with
  | nil => rfl
  | cons c cs => simp [hr c (by simp)]

theorem dropWhile_self_of_next {p : Char → Bool} {rest : Str} (hr : NextNot p rest) : rest.dropWhile p = rest := by
  cases rest with
  | nil => rfl
  | cons c cs => simp [hr c (by simp)]

theorem takeWhile_run {p : Char → Bool} {xs rest : Str} (hx : ∀ x ∈ xs, p x = true) (hr : NextNot p rest) :
    (xs ++ rest).takeWhile p = xs := by
  rw [List.takeWhile_append_of_pos hx, takeWhile_nil_of_next hr, List.append_nil]

theorem dropWhile_run {p : Char → Bool} {xs rest : Str} (hx : ∀ x ∈ xs, p x = true) (hr : NextNot p rest) :
    (xs ++ rest).dropWhile p = rest := by
  rw [List.dropWhile_append_of_pos hx, dropWhile_self_of_next hr]

theorem nextNot_nil (p : Char → Bool) : NextNot p [] := by intro c hc; cases hc

theorem nextNot_cons {p : Char → Bool} {c : Char} (cs : Str) (h : p c = false) : NextNot p (c :: cs) := by
  intro d hd; simp at hd; subst hd; exact h

theorem nextNot_append {p : Char → Bool} {xs : Str} (rest : Str) (hne : xs ≠ []) (hx : ∀ x ∈ xs, p x = false) :
    NextNot p (xs ++ rest) := by
  cases xs with
  | nil => exact absurd rfl hne
  | cons x xs => exact nextNot_cons _ (hx x (by simp))

theorem isDigit_false_of_isHsp {c : Char} (h : isHsp c = true) : isDigit c = false := Parser.isDigit_of_isHsp h
theorem isHsp_false_of_isDigit {c : Char} (h : isDigit c = true) : isHsp c = false := Parser.isHsp_of_isDigit h

theorem nextNot_hsp_of_digits {ds : Str} (h : IsDigits ds) (rest : Str) : NextNot isHsp (ds ++ rest) :=
  nextNot_append rest h.1 (fun x hx => isHsp_false_of_isDigit (h.2 x hx))

/-! ## `inL` -/

theorem isLChar_of_isDigit {c : Char} (h : isDigit c = true) : isLChar c = true := by simp [isLChar, h]
theorem isLChar_of_isHsp {c : Char} (h : isHsp c = true) : isLChar c = true := by simp [isLChar, h]

theorem inL_iff {s : Str} : inL s = true ↔ s.length ≤ maxLen ∧ ∀ c ∈ s, isLChar c = true := by
  simp [inL]

/-! ## `stripHsp` -/

theorem stripHsp_of_edges {s : Str} (h1 : NextNot isHsp s) (h2 : NextNot isHsp s.reverse) : stripHsp s = s := by
  rw [stripHsp, dropWhile_self_of_next h1, dropWhile_self_of_next h2, List.reverse_reverse]

theorem nextNot_reverse_of_getLast {p : Char → Bool} {s : Str} (h : ∀ c, s.getLast? = some c → p c = false) :
    NextNot p s.reverse := by
  intro c hc; rw [List.head?_reverse] at hc; exact h c hc

/-! ## the fraction pattern -/

/-- `[0-9]+[ \t]*/[ \t]*[0-9]+` on a text of that shape -/
theorem matchFrac2_of {p s1 s2 q : Str} (hp : IsDigits p) (hs1 : IsBlanks s1) (hs2 : IsBlanks s2) (hq : IsDigits q) :
    matchFrac2 (p ++ s1 ++ '/' :: s2 ++ q) = some (p, q) := by
  have e : p ++ s1 ++ '/' :: s2 ++ q = p ++ (s1 ++ '/' :: (s2 ++ q)) := by simp
  have hn1 : NextNot isDigit (s1 ++ '/' :: (s2 ++ q)) := by
    cases s1 with
    | nil => exact nextNot_cons _ (by decide)
    | cons x xs => exact nextNot_cons _ (isDigit_false_of_isHsp (hs1 x (by simp)))
  have hn2 : NextNot isHsp ('/' :: (s2 ++ q)) := nextNot_cons _ (by decide)
  have hqall : q.all isDigit = true := List.all_eq_true.mpr hq.2
  have hpe : p.isEmpty = false := by simpa using hp.1
  have hqe : q.isEmpty = false := by simpa using hq.1
  have hd2 : (s2 ++ q).dropWhile isHsp = q := by
    have := dropWhile_run hs2 (nextNot_hsp_of_digits hq [])
    simpa using this
  simp only [matchFrac2, e, takeWhile_run hp.2 hn1, dropWhile_run hp.2 hn1, dropWhile_run hs1 hn2, hd2, hqall, hpe, hqe]
  simp

/-- the pattern needs its slash directly after the first digit run and the blanks that follow it -/
theorem matchFrac2_none_of_next {ds rest : Str} (hd : ∀ x ∈ ds, isDigit x = true)
    (hr : ∀ c, rest.head? = some c → isDigit c = false ∧ isHsp c = false ∧ c ≠ '/') :
    matchFrac2 (ds ++ rest) = none := by
  have hn1 : NextNot isDigit rest := fun c hc => (hr c hc).1
  have hn2 : NextNot isHsp rest := fun c hc => (hr c hc).2.1
  simp only [matchFrac2, dropWhile_run hd hn1, dropWhile_self_of_next hn2]
  cases rest with
  | nil => rfl
  | cons c cs =>
    have := (hr c (by simp)).2.2
    split
    · rename_i r heq; cases heq; exact absurd rfl this
    · rfl

theorem matchFrac2_none_of_slash_first (r : Str) : matchFrac2 ('/' :: r) = none := by
  simp [matchFrac2, isDigit, isHsp]

/-- the three-part pattern needs a blank directly after the first digit run -/
theorem matchFrac3_none_of_next {ds rest : Str} (hd : ∀ x ∈ ds, isDigit x = true)
    (hr : ∀ c, rest.head? = some c → isDigit c = false ∧ isHsp c = false) :
    matchFrac3 (ds ++ rest) = none := by
  have hn1 : NextNot isDigit rest := fun c hc => (hr c hc).1
  have hn2 : NextNot isHsp rest := fun c hc => (hr c hc).2
  simp [matchFrac3, dropWhile_run hd hn1, takeWhile_nil_of_next hn2]

/-- `p blanks / …` is not matched by the three-part pattern -/
theorem matchFrac3_none_of_two {p s1 : Str} (r : Str) (hp : ∀ x ∈ p, isDigit x = true) (hs1 : IsBlanks s1) :
    matchFrac3 (p ++ s1 ++ '/' :: r) = none := by
  have e : p ++ s1 ++ '/' :: r = p ++ (s1 ++ '/' :: r) := by simp
  have hn1 : NextNot isDigit (s1 ++ '/' :: r) := by
    cases s1 with
    | nil => exact nextNot_cons _ (by decide)
    | cons x xs => exact nextNot_cons _ (isDigit_false_of_isHsp (hs1 x (by simp)))
  have hn2 : NextNot isHsp ('/' :: r) := nextNot_cons _ (by decide)
  simp only [matchFrac3, e, dropWhile_run hp hn1, dropWhile_run hs1 hn2, matchFrac2_none_of_slash_first]
  split <;> rfl

theorem matchFrac3_of {w s0 p s1 s2 q : Str} (hw : IsDigits w) (hs0ne : s0 ≠ []) (hs0 : IsBlanks s0)
    (hp : IsDigits p) (hs1 : IsBlanks s1) (hs2 : IsBlanks s2) (hq : IsDigits q) :
    matchFrac3 (w ++ s0 ++ p ++ s1 ++ '/' :: s2 ++ q) = some (w, p, q) := by
  have e : w ++ s0 ++ p ++ s1 ++ '/' :: s2 ++ q = w ++ (s0 ++ (p ++ s1 ++ '/' :: s2 ++ q)) := by simp
  have hn1 : NextNot isDigit (s0 ++ (p ++ s1 ++ '/' :: s2 ++ q)) :=
    nextNot_append _ hs0ne (fun x hx => isDigit_false_of_isHsp (hs0 x hx))
  have hn2 : NextNot isHsp (p ++ s1 ++ '/' :: s2 ++ q) := by
    have := nextNot_hsp_of_digits hp (s1 ++ '/' :: s2 ++ q)
    simpa using this
  have hwe : w.isEmpty = false := by simpa using hw.1
  have hs0e : s0.isEmpty = false := by simpa using hs0ne
  simp only [matchFrac3, e, takeWhile_run hw.2 hn1, dropWhile_run hw.2 hn1, takeWhile_run hs0 hn2,
    dropWhile_run hs0 hn2, matchFrac2_of hp hs1 hs2 hq, hwe, hs0e]
  simp

/-! ## the four spellings -/

theorem readNat_eq_digitsValue (ds : Str) : readNat ds = digitsValue ds := rfl

theorem getLast?_append_cons_digits {a : Str} {c : Char} {b : Str} (hc : isHsp c = false)
    (hb : ∀ x ∈ b, isDigit x = true) : ∀ d, (a ++ c :: b).getLast? = some d → isHsp d = false := by
  intro d hd
  have e : a ++ c :: b = (a ++ [c]) ++ b := by simp
  rw [e, List.getLast?_append] at hd
  cases hb' : b.getLast? with
  | none => simp [hb'] at hd; subst hd; exact hc
  | some x =>
    simp [hb'] at hd; subst hd
    exact isHsp_false_of_isDigit (hb _ (List.mem_of_getLast? hb'))

theorem stripHsp_digits {ds : Str} (hd : IsDigits ds) : stripHsp ds = ds := by
  apply stripHsp_of_edges
  · have := nextNot_hsp_of_digits hd []; simpa using this
  · apply nextNot_reverse_of_getLast
    intro c hc
    exact isHsp_false_of_isDigit (hd.2 c (List.mem_of_getLast? hc))

/-- `int(text)` on a digit run -/
theorem readPlain_digits {ds : Str} (hd : IsDigits ds) :
    readPlain ds = .value ⟨((digitsValue ds : Nat) : Rat), .int⟩ := by
  have h1 : ds.isEmpty = false := by simpa using hd.1
  have h2 : ds.all isDigit = true := List.all_eq_true.mpr hd.2
  simp [readPlain, stripHsp_digits hd, h1, h2, readNat_eq_digitsValue]

/-- `float(text)` on `whole "." frac` -/
theorem readPlain_dec {whole fr : Str} (hw : IsDigits whole) (hf : ∀ x ∈ fr, isDigit x = true) :
    readPlain (whole ++ '.' :: fr) =
      .value ⟨toDouble (mkRat (digitsValue (whole ++ fr) : Nat) (10 ^ fr.length)), .flt⟩ := by
  have hstrip : stripHsp (whole ++ '.' :: fr) = whole ++ '.' :: fr := by
    apply stripHsp_of_edges
    · exact nextNot_hsp_of_digits hw _
    · exact nextNot_reverse_of_getLast (getLast?_append_cons_digits (by decide) hf)
  have hnd : (whole ++ '.' :: fr).all isDigit = false := by
    rw [List.all_eq_false]; exact ⟨'.', by simp, by decide⟩
  have hn : NextNot isDigit ('.' :: fr) := nextNot_cons _ (by decide)
  have hfa : fr.all isDigit = true := List.all_eq_true.mpr hf
  have hwe : whole.isEmpty = false := by simpa using hw.1
  simp only [readPlain, hstrip, hnd, takeWhile_run hw.2 hn, dropWhile_run hw.2 hn, hfa, hwe]
  simp [readNat_eq_digitsValue]

theorem inL_of_parts {s : Str} (hlen : s.length ≤ maxLen) (h : ∀ c ∈ s, isLChar c = true) : (!inL s) = false := by
  simp [inL_iff.mpr ⟨hlen, h⟩]

/-- **the reader on the grammar's spellings**: every permitted spelling of at most `maxLen`
    characters is read by `number_parser.number` as the number it means -/
theorem numberReader_of_wf (l : NumLit) (h : l.WF) (hlen : l.print.length ≤ maxLen) :
    numberReader l.print = .value l.value := by
  cases l with
  | int ds =>
    have hL : (!inL ds) = false := inL_of_parts hlen (fun c hc => isLChar_of_isDigit (h.2 c hc))
    have h3 := matchFrac3_none_of_next (ds := ds) (rest := []) h.2 (by simp)
    have h2 := matchFrac2_none_of_next (ds := ds) (rest := []) h.2 (by simp)
    simp only [List.append_nil] at h3 h2
    simp only [numberReader, NumLit.print, hL, h3, h2, readPlain_digits h, NumLit.value]
    rfl
  | dec whole fr =>
    obtain ⟨hw, hf⟩ := h
    have hL : (!inL (whole ++ '.' :: fr)) = false := by
      apply inL_of_parts hlen
      intro c hc
      simp only [NumLit.print, List.mem_append, List.mem_cons] at hc
      rcases hc with hc | rfl | hc
      · exact isLChar_of_isDigit (hw.2 c hc)
      · decide
      · exact isLChar_of_isDigit (hf c hc)
    have h3 := matchFrac3_none_of_next (ds := whole) (rest := '.' :: fr) hw.2 (by simp [isDigit, isHsp])
    have h2 := matchFrac2_none_of_next (ds := whole) (rest := '.' :: fr) hw.2 (by simp [isDigit, isHsp])
    simp only [numberReader, NumLit.print, hL, h3, h2, readPlain_dec hw hf, NumLit.value]
    rfl
  | frac p s2 q =>
    obtain ⟨hp, hs2, hq, hq0⟩ := h
    have hL : (!inL (p ++ '/' :: s2 ++ q)) = false := by
      apply inL_of_parts hlen
      intro c hc
      simp only [NumLit.print, List.mem_append, List.mem_cons] at hc
      rcases hc with (hc | rfl | hc) | hc
      · exact isLChar_of_isDigit (hp.2 c hc)
      · decide
      · exact isLChar_of_isHsp (hs2 c hc)
      · exact isLChar_of_isDigit (hq.2 c hc)
    have h3 := matchFrac3_none_of_two (p := p) (s1 := []) (s2 ++ q) hp.2 (by intro c hc; cases hc)
    have h2 := matchFrac2_of (s1 := []) hp (by intro c hc; cases hc) hs2 hq
    simp only [List.append_nil] at h3 h2
    have e : p ++ '/' :: s2 ++ q = p ++ '/' :: (s2 ++ q) := by simp
    rw [← e] at h3
    have hq0' : ¬ readNat q = 0 := hq0
    simp only [numberReader, NumLit.print, hL, h3, h2, fractionValue, hq0', NumLit.value]
    simp [readNat, digitsValue, Rat.zero_add]
  | mixed w s0 p s1 s2 q =>
    obtain ⟨hw, hs0ne, hs0, hp, hs1, hs2, hq, hq0⟩ := h
    have hL : (!inL (w ++ s0 ++ p ++ s1 ++ '/' :: s2 ++ q)) = false := by
      apply inL_of_parts hlen
      intro c hc
      simp only [NumLit.print, List.mem_append, List.mem_cons] at hc
      rcases hc with ((((hc | hc) | hc) | hc) | (rfl | hc)) | hc
      · exact isLChar_of_isDigit (hw.2 c hc)
      · exact isLChar_of_isHsp (hs0 c hc)
      · exact isLChar_of_isDigit (hp.2 c hc)
      · exact isLChar_of_isHsp (hs1 c hc)
      · decide
      · exact isLChar_of_isHsp (hs2 c hc)
      · exact isLChar_of_isDigit (hq.2 c hc)
    have h3 := matchFrac3_of hw hs0ne hs0 hp hs1 hs2 hq
    have hq0' : ¬ readNat q = 0 := hq0
    simp only [numberReader, NumLit.print, hL, h3, fractionValue, hq0', NumLit.value]
    rfl

end RG
