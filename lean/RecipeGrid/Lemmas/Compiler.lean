import RecipeGrid.Model.Compiler
import RecipeGrid.Lemmas.Recipe
/-! Helper lemmas about the elaboration part of `Model/Compiler.lean` (`compileExpr`, `registerOutputs`,
    `compileStmt(s)`, `compileBlocks`).  Nothing here is a specification; the by-name meaning and the refinement
    theorems live in `Props/C01.lean`. -/
namespace RG

-- ---------------------------------------------------------------- `==` on names is an equivalence
theorem Num.beq_symm (a b : Num) : (a == b) = (b == a) := by
  show Num.beq a b = Num.beq b a
  simp only [Num.beq]
  exact Bool.eq_iff_iff.mpr ⟨fun h => by simpa using (by simpa using h : a.val = b.val).symm,
    fun h => by simpa using (by simpa using h : b.val = a.val).symm⟩

theorem Num.beq_trans {a b c : Num} (h1 : (a == b) = true) (h2 : (b == c) = true) : (a == c) = true := by
  have h1' : Num.beq a b = true := h1
  have h2' : Num.beq b c = true := h2
  show Num.beq a c = true
  simp only [Num.beq, beq_iff_eq] at *
  exact h1'.trans h2'

theorem Part.beq_symm (a b : Part) : (a == b) = (b == a) := by
  show Part.beq a b = Part.beq b a
  cases a <;> cases b <;> simp only [Part.beq]
  · exact Bool.eq_iff_iff.mpr ⟨fun h => by simpa using (by simpa using h : _ = _).symm,
      fun h => by simpa using (by simpa using h : _ = _).symm⟩
  · exact Num.beq_symm _ _

theorem Part.beq_trans {a b c : Part} (h1 : (a == b) = true) (h2 : (b == c) = true) : (a == c) = true := by
  have h1' : Part.beq a b = true := h1
  have h2' : Part.beq b c = true := h2
  show Part.beq a c = true
  cases a <;> cases b <;> cases c <;> simp only [Part.beq] at * <;> try contradiction
  · simp only [beq_iff_eq] at *; exact h1'.trans h2'
  · exact Num.beq_trans h1' h2'

/-- the documented "same name" relation (`==` of normalised names) is symmetric … -/
theorem Svs.beq_symm : ∀ a b : SVS, (a == b) = (b == a)
  | [], [] => rfl
  | [], _ :: _ => rfl
  | _ :: _, [] => rfl
  | x :: xs, y :: ys => by
    show (x == y && xs == ys) = (y == x && ys == xs)
    rw [Part.beq_symm x y, Svs.beq_symm xs ys]

/-- … and transitive -/
theorem Svs.beq_trans : ∀ {a b c : SVS}, (a == b) = true → (b == c) = true → (a == c) = true
  | [], [], [], _, _ => rfl
  | [], [], _ :: _, _, h => by cases h
  | [], _ :: _, _, h, _ => by cases h
  | _ :: _, [], _, h, _ => by cases h
  | _ :: _, _ :: _, [], _, h => by cases h
  | x :: xs, y :: ys, z :: zs, h1, h2 => by
    have h1' : (x == y && xs == ys) = true := h1
    have h2' : (y == z && ys == zs) = true := h2
    show (x == z && xs == zs) = true
    simp only [Bool.and_eq_true] at *
    exact ⟨Part.beq_trans h1'.1 h2'.1, Svs.beq_trans h1'.2 h2'.2⟩

-- ---------------------------------------------------------------- errors
/-- how `compileBlocks` reports a statement error of block `i` -/
def liftErr (i : Nat) : StmtErr → CompileResult
  | .redefined off => .redefined i off
  | .proportion off => .proportion i off
  | .internal why => .internal why

theorem compileBlocks_cons (i : Nat) (st : CState) (b : List AStmt) (bs : List (List AStmt)) :
    compileBlocks i st (b :: bs) =
      match compileStmts i st b with
      | .error e => .error (liftErr i e)
      | .ok (trees, st1) =>
        match compileBlocks (i + 1) st1 bs with
        | .error e => .error e
        | .ok (rest, st2) => .ok (trees :: rest, st2) := by
  rw [compileBlocks]
  cases h : compileStmts i st b with
  | error e => cases e <;> rfl
  | ok p =>
    obtain ⟨trees, st1⟩ := p
    simp only []
    cases h2 : compileBlocks (i + 1) st1 bs with
    | error e => rfl
    | ok q => rfl

-- ---------------------------------------------------------------- generic list facts
theorem find?_of_map_eq {α β γ : Type} (f : α → γ) (g : β → γ) (q : γ → Bool) (l1 : List α) (l2 : List β)
    (h : l1.map f = l2.map g) :
    (l1.find? (fun a => q (f a))).map f = (l2.find? (fun b => q (g b))).map g := by
  have h1 := List.find?_map (p := q) (f := f) (l := l1)
  have h2 := List.find?_map (p := q) (f := g) (l := l2)
  rw [h] at h1
  rw [h2] at h1
  exact h1.symm

theorem any_of_map_eq {α β γ : Type} (f : α → γ) (g : β → γ) (q : γ → Bool) (l1 : List α) (l2 : List β)
    (h : l1.map f = l2.map g) :
    l1.any (fun a => q (f a)) = l2.any (fun b => q (g b)) := by
  have h1 : (l1.map f).any q = l1.any (fun a => q (f a)) := by simp [List.any_map, Function.comp_def]
  have h2 : (l2.map g).any q = l2.any (fun b => q (g b)) := by simp [List.any_map, Function.comp_def]
  rw [← h1, ← h2, h]

-- ---------------------------------------------------------------- the table
theorem CState.find?_isSome (st : CState) (key : SVS) :
    (st.find? key).isSome = st.outputs.any (fun o => o.key == key) := by
  unfold CState.find?
  induction st.outputs with
  | nil => rfl
  | cons o os ih =>
    simp only [List.find?_cons, List.any_cons]
    cases o.key == key <;> simp [ih]

/-- registering one fresh name appends one entry -/
theorem registerOutputs_fresh (block : Nat) (sub : Tree) (unwrap : Bool) (asts : Option (List AString))
    (st : CState) (i : Nat) (n : SVS) (ns : List SVS) (h : (st.find? (normaliseName n)).isSome = false) :
    registerOutputs block sub unwrap asts st i (n :: ns) =
      registerOutputs block sub unwrap asts
        { st with outputs := st.outputs ++ [{ key := normaliseName n, name := n, defBlock := block, sub := sub, idx := i,
                                              refs := [], unwrap := unwrap }] } (i + 1) ns := by
  simp [registerOutputs, h]

/-- registering an already defined written name is the `NameRedefinedError` at that name -/
theorem registerOutputs_dup (block : Nat) (sub : Tree) (unwrap : Bool) (l : List AString) (a : AString)
    (st : CState) (i : Nat) (n : SVS) (ns : List SVS) (h : (st.find? (normaliseName n)).isSome = true)
    (ha : l[i]? = some a) :
    registerOutputs block sub unwrap (some l) st i (n :: ns) = .error (.redefined a.offset) := by
  simp [registerOutputs, h, ha]


-- ---------------------------------------------------------------- `compileStmt` without the `do`
theorem Except.ok_bind {ε α β : Type} (a : α) (f : α → Except ε β) : (Except.ok a >>= f) = f a := rfl
theorem Except.error_bind {ε α β : Type} (e : ε) (f : α → Except ε β) : (Except.error e >>= f) = .error e := rfl

/-- after the expression: name the statement and register the names -/
def nameStmt (block : Nat) (s : AStmt) (tree : Tree) (st1 : CState) : Except StmtErr (Tree × CState) :=
  match s.outputs with
  | some (o :: os) =>
    (registerOutputs block (.sub tree ((o :: os).map compileString) true) (!s.named) s.outputs st1 0
        ((o :: os).map compileString)) >>= fun st2 => .ok (.sub tree ((o :: os).map compileString) true, st2)
  | _ =>
    match inferOutputName tree with
    | some n =>
      (registerOutputs block (.sub tree [n] false) (!s.named) s.outputs st1 0 [n]) >>= fun st2 =>
        .ok (.sub tree [n] false, st2)
    | none => .ok (tree, st1)

theorem compileStmt_eq (block : Nat) (st : CState) (s : AStmt) :
    compileStmt block st s = (compileExpr block st s.expr >>= fun p => nameStmt block s p.1 p.2) := by
  unfold compileStmt nameStmt
  cases compileExpr block st s.expr with
  | error e => rfl
  | ok p =>
    obtain ⟨tree, st1⟩ := p
    simp only [Except.ok_bind]
    cases s.outputs with
    | none =>
      simp only []
      cases inferOutputName tree <;> rfl
    | some l =>
      cases l with
      | nil =>
        simp only []
        cases inferOutputName tree <;> rfl
      | cons o os => rfl


-- ---------------------------------------------------------------- deciding `=` (for kernel-checked examples)
deriving instance DecidableEq for Num
deriving instance DecidableEq for Part
deriving instance DecidableEq for Quantity
deriving instance DecidableEq for Amount

mutual
/-- structural equality of trees (unlike `Tree.beq`, numbers are compared with their kind) -/
def Tree.eqb : Tree → Tree → Bool
  | .ingredient d q, .ingredient d' q' => decide (d = d') && decide (q = q')
  | .step d i, .step d' i' => decide (d = d') && Tree.eqbList i i'
  | .reference s n a, .reference s' n' a' => Tree.eqb s s' && decide (n = n') && decide (a = a')
  | .sub b ns sh, .sub b' ns' sh' => Tree.eqb b b' && decide (ns = ns') && decide (sh = sh')
  | _, _ => false
def Tree.eqbList : List Tree → List Tree → Bool
  | [], [] => true
  | a :: as, b :: bs => Tree.eqb a b && Tree.eqbList as bs
  | _, _ => false
end

mutual
theorem Tree.eqb_sound : ∀ a b : Tree, Tree.eqb a b = true → a = b
  | .ingredient d q, .ingredient d' q', h => by simp [Tree.eqb] at h; rw [h.1, h.2]
  | .step d i, .step d' i', h => by
    simp [Tree.eqb] at h; rw [h.1, Tree.eqbList_sound i i' h.2]
  | .reference s n a, .reference s' n' a', h => by
    simp [Tree.eqb] at h; rw [Tree.eqb_sound s s' h.1.1, h.1.2, h.2]
  | .sub b ns sh, .sub b' ns' sh', h => by
    simp [Tree.eqb] at h; rw [Tree.eqb_sound b b' h.1.1, h.1.2, h.2]
  | .ingredient .., .step .., h | .ingredient .., .reference .., h | .ingredient .., .sub .., h
  | .step .., .ingredient .., h | .step .., .reference .., h | .step .., .sub .., h
  | .reference .., .ingredient .., h | .reference .., .step .., h | .reference .., .sub .., h
  | .sub .., .ingredient .., h | .sub .., .step .., h | .sub .., .reference .., h => by simp [Tree.eqb] at h
theorem Tree.eqbList_sound : ∀ a b : List Tree, Tree.eqbList a b = true → a = b
  | [], [], _ => rfl
  | [], _ :: _, h | _ :: _, [], h => by simp [Tree.eqbList] at h
  | a :: as, b :: bs, h => by
    simp [Tree.eqbList] at h; rw [Tree.eqb_sound a b h.1, Tree.eqbList_sound as bs h.2]
end

mutual
theorem Tree.eqb_refl : ∀ a : Tree, Tree.eqb a a = true
  | .ingredient .. => by simp [Tree.eqb]
  | .step d i => by simp [Tree.eqb, Tree.eqbList_refl i]
  | .reference s n a => by simp [Tree.eqb, Tree.eqb_refl s]
  | .sub b ns sh => by simp [Tree.eqb, Tree.eqb_refl b]
theorem Tree.eqbList_refl : ∀ a : List Tree, Tree.eqbList a a = true
  | [] => rfl
  | a :: as => by simp [Tree.eqbList, Tree.eqb_refl a, Tree.eqbList_refl as]
end

instance : DecidableEq Tree := fun a b =>
  if h : Tree.eqb a b = true then isTrue (Tree.eqb_sound a b h)
  else isFalse (fun e => h (e ▸ Tree.eqb_refl a))

deriving instance DecidableEq for CompileResult

instance {ε α : Type} [DecidableEq ε] [DecidableEq α] : DecidableEq (Except ε α)
  | .ok a, .ok b => if h : a = b then isTrue (by rw [h]) else isFalse (fun e => by cases e; exact h rfl)
  | .error a, .error b => if h : a = b then isTrue (by rw [h]) else isFalse (fun e => by cases e; exact h rfl)
  | .ok _, .error _ => isFalse (fun e => by cases e)
  | .error _, .ok _ => isFalse (fun e => by cases e)

end RG
