import RecipeGrid.Lemmas.Parser
import RecipeGrid.Lemmas.Shift
import RecipeGrid.Lemmas.Fold
import RecipeGrid.Lemmas.Readback
import RecipeGrid.Lemmas.Html
/-! Helper lemmas for the end-to-end statements of `Props/C02c.lean` and `Props/C04c.lean`.

    1. (`Parser.Post` of `Lemmas/Shift.lean`: what every value returned by a parser satisfies) `parse_stepsNonempty`: every step of every
       statement `parse` returns has at least one input (the grammar's `step` rule has one mandatory argument, the
       left-to-right shorthand `x, action` makes a one-input step).
    2. `compileBlocks_wf`: elaboration keeps that (`RG.wf`, the Boolean of `Lemmas/Table.lean`).
    3. `foldAll_wfT`: so does the inlining pass; `compile_ok_wf`: so every tree `compile` returns is well-formed.
    4. `singleRoot_of_wfB`: a tree the constructors accept has multi-output sub recipes only at the root. -/
namespace RG

-- ================================================================ 1. the parser
mutual
/-- every step of the expression has at least one input -/
def AExpr.stepsNonempty : AExpr → Bool
  | .step _ inputs => !inputs.isEmpty && AExpr.stepsNonemptyList inputs
  | .ref .. => true
def AExpr.stepsNonemptyList : List AExpr → Bool
  | [] => true
  | e :: es => e.stepsNonempty && AExpr.stepsNonemptyList es
end

theorem AExpr.stepsNonemptyList_iff : ∀ es : List AExpr,
    AExpr.stepsNonemptyList es = true ↔ ∀ e ∈ es, e.stepsNonempty = true
  | [] => by simp [AExpr.stepsNonemptyList]
  | e :: es => by simp [AExpr.stepsNonemptyList, AExpr.stepsNonemptyList_iff es]

namespace Parser

/-- the predicate carried through the expression grammar -/
abbrev StepsOk (e : AExpr) : Prop := e.stepsNonempty = true

theorem post_step {e : P AExpr} (he : Post e StepsOk) : Post (step e) StepsOk := by
  rw [step_eq]
  refine Post.bind' fun name => Post.bind' fun _ => Post.bind' fun _ => Post.bind' fun _ => ?_
  refine Post.bind he fun first hfirst => ?_
  refine Post.bind (Post.many (Post.bind' fun _ => Post.bind' fun _ => Post.bind' fun _ => he)) fun rest hrest => ?_
  refine Post.bind' fun _ => Post.bind' fun _ => Post.bind' fun _ => Post.pure ?_
  show AExpr.stepsNonempty (.step name (first :: rest)) = true
  simp only [AExpr.stepsNonempty, AExpr.stepsNonemptyList, List.isEmpty_cons, Bool.not_false, Bool.true_and,
    Bool.and_eq_true]
  exact ⟨hfirst, (AExpr.stepsNonemptyList_iff rest).2 hrest⟩

theorem stepsOk_foldl : ∀ (actions : List AString) (first : AExpr), StepsOk first →
    StepsOk (actions.foldl (fun e action => .step action [e]) first)
  | [], _, h => h
  | a :: as, first, h => by
    rw [List.foldl_cons]
    apply stepsOk_foldl as
    show AExpr.stepsNonempty (.step a [first]) = true
    simp only [AExpr.stepsNonempty, AExpr.stepsNonemptyList, List.isEmpty_cons, Bool.not_false, Bool.true_and,
      Bool.and_true]
    exact h

theorem post_ltrShorthand {e : P AExpr} (he : Post e StepsOk) : Post (ltrShorthand e) StepsOk := by
  rw [ltrShorthand_eq]
  exact Post.bind he fun first hfirst => Post.bind' fun actions => Post.pure (stepsOk_foldl actions first hfirst)

theorem post_reference : Post reference StepsOk := by
  rw [reference_eq]
  exact Post.bind' fun amount => Post.bind' fun name => Post.pure rfl

theorem post_expr : ∀ fuel, Post (expr fuel) StepsOk := by
  intro fuel
  induction fuel with
  | zero => exact Post.fail
  | succ f ih =>
    rw [expr_succ]
    refine Post.orElse (post_step ih) (Post.orElse post_reference ?_)
    refine Post.bind' fun _ => Post.bind' fun _ => Post.bind (post_ltrShorthand ih) fun e he => ?_
    exact Post.bind' fun _ => Post.bind' fun _ => Post.pure he

theorem post_stmt : Post stmt (fun s => StepsOk s.expr) := by
  rw [stmt_eq]
  refine Post.bind' fun target => Post.bind' fun n => Post.bind (post_ltrShorthand (post_expr (n + 1))) fun e he => ?_
  exact Post.bind' fun _ => Post.pure he

theorem post_recipe : Post recipe (fun ss => ∀ s ∈ ss, StepsOk s.expr) := by
  rw [recipe_eq]
  refine Post.bind' fun _ => Post.bind post_stmt fun first hfirst => Post.bind (Post.many post_stmt) fun rest hrest => ?_
  refine Post.bind' fun _ => Post.pure ?_
  intro x hx
  simp only [List.mem_cons] at hx
  rcases hx with rfl | hx
  · exact hfirst
  · exact hrest x hx

end Parser

/-- **the grammar**: in everything `parse` returns, every step has at least one input -/
theorem parse_stepsNonempty (src : Str) (stmts : List AStmt) (h : parse src = .ok stmts) :
    ∀ s ∈ stmts, s.expr.stepsNonempty = true := by
  unfold parse at h
  cases hr : Parser.recipe src.toArray ⟨0, false⟩ with
  | none => rw [hr] at h; cases h
  | some r =>
    obtain ⟨ss, s'⟩ := r
    rw [hr] at h
    cases h
    exact Parser.post_recipe _ _ _ _ hr

theorem parseAll_stepsNonempty : ∀ (srcs : List Str) (i : Nat) (asts : List (List AStmt)),
    parseAll i srcs = .ok asts → ∀ b ∈ asts, ∀ s ∈ b, s.expr.stepsNonempty = true
  | [], _, asts, h => by cases h; simp
  | s :: ss, i, asts, h => by
    rw [parseAll_cons] at h
    cases hp : parse s with
    | syntaxError => rw [hp] at h; cases h
    | zeroDivision => rw [hp] at h; cases h
    | ok stmts =>
      rw [hp] at h
      cases hr : parseAll (i + 1) ss with
      | error e => rw [hr] at h; cases h
      | ok rest =>
        rw [hr] at h
        cases h
        intro b hb
        simp only [List.mem_cons] at hb
        rcases hb with rfl | hb
        · exact parse_stepsNonempty s _ hp
        · exact parseAll_stepsNonempty ss (i + 1) rest hr b hb

-- ================================================================ 2. elaboration
/-- every value an `Except` computation can return satisfies `Q` -/
def EPost {ε α} (m : Except ε α) (Q : α → Prop) : Prop := ∀ a, m = .ok a → Q a

theorem epost_ok {ε α} {Q : α → Prop} {a : α} (h : Q a) : EPost (.ok a : Except ε α) Q := by
  intro b e; cases e; exact h

theorem epost_pure {ε α} {Q : α → Prop} {a : α} (h : Q a) : EPost (pure a : Except ε α) Q := epost_ok h

theorem epost_error {ε α} {Q : α → Prop} {e : ε} : EPost (.error e : Except ε α) Q := by
  intro b h; cases h

theorem epost_bind {ε α β} {m : Except ε α} {f : α → Except ε β} {R : α → Prop} {Q : β → Prop} (hm : EPost m R)
    (hf : ∀ a, R a → EPost (f a) Q) : EPost (m >>= f) Q := by
  intro b e
  cases m with
  | error x => cases e
  | ok a => exact hf a (hm a rfl) b e

mutual
theorem compileExpr_wf (block : Nat) : ∀ (e : AExpr) (st : CState), e.stepsNonempty = true →
    EPost (compileExpr block st e) (fun p => wf p.1 = true)
  | .step name inputs, st, he => by
    simp only [AExpr.stepsNonempty, Bool.and_eq_true] at he
    rw [compileExpr]
    refine epost_bind (compileExprs_wf block inputs st he.2) ?_
    rintro ⟨ts, st'⟩ ⟨h1, h2⟩
    refine epost_pure ?_
    show wf (.step (compileString name) ts) = true
    simp only [wf, Bool.and_eq_true]
    refine ⟨?_, h1⟩
    cases ts with
    | nil => cases inputs with
      | nil => simp at he
      | cons a as => simp at h2
    | cons a as => rfl
  | .ref name amount, st, _ => by
    simp only [compileExpr]
    split
    · exact epost_ok rfl
    · split
      · exact epost_error
      · exact epost_ok rfl
      · exact epost_ok rfl
theorem compileExprs_wf (block : Nat) : ∀ (es : List AExpr) (st : CState), AExpr.stepsNonemptyList es = true →
    EPost (compileExprs block st es) (fun p => wfList p.1 = true ∧ p.1.length = es.length)
  | [], st, _ => by rw [compileExprs]; exact epost_ok ⟨rfl, rfl⟩
  | e :: es, st, he => by
    simp only [AExpr.stepsNonemptyList, Bool.and_eq_true] at he
    rw [compileExprs]
    refine epost_bind (compileExpr_wf block e st he.1) ?_
    rintro ⟨t, st1⟩ h1
    refine epost_bind (compileExprs_wf block es st1 he.2) ?_
    rintro ⟨ts, st2⟩ ⟨h2, h3⟩
    refine epost_pure ⟨?_, ?_⟩
    · show wfList (t :: ts) = true
      simp only [wfList, Bool.and_eq_true]; exact ⟨h1, h2⟩
    · show (t :: ts).length = (e :: es).length
      simp only [List.length_cons, h3]
end

theorem nameStmt_wf (block : Nat) (s : AStmt) (tree : Tree) (st1 : CState) (h : wf tree = true) :
    EPost (nameStmt block s tree st1) (fun p => wf p.1 = true) := by
  unfold nameStmt
  split
  · exact epost_bind (R := fun _ => True) (fun _ _ => trivial) fun st2 _ => epost_ok (by simpa only [wf] using h)
  · split
    · exact epost_bind (R := fun _ => True) (fun _ _ => trivial) fun st2 _ => epost_ok (by simpa only [wf] using h)
    · exact epost_ok h

theorem compileStmt_wf (block : Nat) (st : CState) (s : AStmt) (hs : s.expr.stepsNonempty = true) :
    EPost (compileStmt block st s) (fun p => wf p.1 = true) := by
  rw [compileStmt_eq]
  exact epost_bind (compileExpr_wf block s.expr st hs) fun p hp => nameStmt_wf block s p.1 p.2 hp

theorem compileStmts_wf (block : Nat) : ∀ (ss : List AStmt) (st : CState), (∀ s ∈ ss, s.expr.stepsNonempty = true) →
    EPost (compileStmts block st ss) (fun p => ∀ t ∈ p.1, wf t = true)
  | [], st, _ => by rw [compileStmts]; exact epost_ok (by simp)
  | s :: ss, st, h => by
    rw [compileStmts]
    refine epost_bind (compileStmt_wf block st s (h s (List.mem_cons_self ..))) ?_
    rintro ⟨t, st1⟩ h1
    refine epost_bind (compileStmts_wf block ss st1 fun x hx => h x (List.mem_cons_of_mem _ hx)) ?_
    rintro ⟨ts, st2⟩ h2
    refine epost_pure ?_
    intro x hx
    have hx' : x ∈ t :: ts := hx
    simp only [List.mem_cons] at hx'
    rcases hx' with rfl | hx'
    · exact h1
    · exact h2 x hx'

/-- elaboration keeps "every step has an input" -/
theorem compileBlocks_wf : ∀ (asts : List (List AStmt)) (i : Nat) (st : CState),
    (∀ b ∈ asts, ∀ s ∈ b, s.expr.stepsNonempty = true) →
    EPost (compileBlocks i st asts) (fun p => ∀ T ∈ p.1.flatten, wf T = true)
  | [], i, st, _ => by rw [compileBlocks]; exact epost_ok (by simp)
  | b :: bs, i, st, h => by
    rw [compileBlocks_cons]
    have h1 := compileStmts_wf i b st (h b (List.mem_cons_self ..))
    cases hc : compileStmts i st b with
    | error e => exact epost_error
    | ok p =>
      obtain ⟨trees, st1⟩ := p
      have h1' := h1 _ hc
      have h2 := compileBlocks_wf bs (i + 1) st1 fun b' hb' => h b' (List.mem_cons_of_mem _ hb')
      simp only
      cases hr : compileBlocks (i + 1) st1 bs with
      | error e => exact epost_error
      | ok q =>
        obtain ⟨rest, st2⟩ := q
        have h2' := h2 _ hr
        refine epost_ok ?_
        intro T hT
        simp only [List.flatten_cons, List.mem_append] at hT
        rcases hT with hT | hT
        · exact h1' T hT
        · exact h2' T hT

-- ================================================================ 3. the inlining pass
mutual
theorem wf_subst (old new : Tree) (hn : wf new = true) : ∀ t : Tree, wf t = true → wf (Tree.subst old new t) = true
  | .ingredient d q, h => by simp only [Tree.subst]; split; exact hn; exact h
  | .step d i, h => by
    simp only [Tree.subst]
    split
    · exact hn
    · simp only [wf, Bool.and_eq_true] at h ⊢
      refine ⟨?_, wfList_subst old new hn i h.2⟩
      cases i with
      | nil => simp at h
      | cons a as => rfl
  | .reference s n a, h => by simp only [Tree.subst]; split; exact hn; rfl
  | .sub b ns sh, h => by
    simp only [Tree.subst]
    split
    · exact hn
    · simp only [wf] at h ⊢; exact wf_subst old new hn b h
theorem wfList_subst (old new : Tree) (hn : wf new = true) : ∀ ts : List Tree, wfList ts = true →
    wfList (Tree.substList old new ts) = true
  | [], _ => rfl
  | t :: ts, h => by
    simp only [Tree.substList, wfList, Bool.and_eq_true] at h ⊢
    exact ⟨wf_subst old new hn t h.1, wfList_subst old new hn ts h.2⟩
end

/-- every root has steps with at least one input -/
def WFT (blocks : List Block) : Prop := ∀ T ∈ blocks.flatten, wf T = true

theorem FoldData.Ok.wfT {d : FoldData} {i : Nat} {blocks : List Block} {outs : List NamedOutput}
    (hd : d.Ok i blocks outs) (hw : WFT blocks) : WFT (d.blocks' blocks) := by
  intro T' hT'
  rw [hd.flatNew] at hT'
  obtain ⟨T, hT, rfl⟩ := List.mem_map.mp hT'
  have hsub := hw _ hd.sub_mem_flat
  apply wf_subst d.ref d.new
  · unfold FoldData.new; split
    · rw [hd.hs] at hsub; simpa only [wf] using hsub
    · exact hsub
  · exact hw T (hd.mem_flat hT)

theorem foldAll_wfT (asts : List (List AStmt)) (bs : List Block) (st : CState)
    (h : compileBlocks 0 {} asts = .ok (bs, st)) (hw : WFT bs) (n : Nat) (b' : List Block) (o' : List NamedOutput)
    (hf : foldAll n 0 bs st.outputs = .ok (b', o')) : WFT b' :=
  foldAll_preserves (fun b _ => WFT b) (fun _ _ _ _ hd _ _ hp => hd.wfT hp) n 0 bs st.outputs
    (foldInv_init asts bs st h) (refCount_init asts bs st h) hw b' o' hf

/-- **every tree `compile` returns is well-formed**: every step has at least one input -/
theorem compile_ok_wf (srcs : List Str) (bs : List Block) (h : compile srcs = .ok bs) :
    ∀ b ∈ bs, ∀ t ∈ b, wf t = true := by
  obtain ⟨asts, bs0, st, outs', hp, hc, _, hf⟩ := compile_ok_phases h
  have h0 : WFT bs0 := compileBlocks_wf asts 0 {} (parseAll_stepsNonempty srcs 0 asts hp) _ hc
  intro b hb t ht
  exact foldAll_wfT asts bs0 st hc h0 _ bs outs' hf t (List.mem_flatten.mpr ⟨b, hb, ht⟩)

-- ================================================================ 4. multi-output sub recipes only at the root
mutual
theorem single_of_wfB : ∀ t : Tree, t.wfB = true → t.canBeChild = true → single t = true
  | .ingredient .., _, _ => rfl
  | .reference .., _, _ => rfl
  | .step d i, h, _ => by simp only [Tree.wfB] at h; simp only [single]; exact singles_of_wfBList i h
  | .sub b ns sh, h, hc => by
    simp only [Tree.wfB, Bool.and_eq_true] at h
    simp only [Tree.canBeChild, decide_eq_true_eq] at hc
    simp only [single, Bool.and_eq_true, decide_eq_true_eq]
    refine ⟨?_, single_of_wfB b h.2 h.1.1⟩
    cases ns with
    | nil => simp at h
    | cons a as => simp only [List.length_cons] at hc ⊢; omega
theorem singles_of_wfBList : ∀ ts : List Tree, Tree.wfBList ts = true → singles ts = true
  | [], _ => rfl
  | t :: ts, h => by
    simp only [Tree.wfBList, Bool.and_eq_true] at h
    simp only [singles, Bool.and_eq_true]
    exact ⟨single_of_wfB t h.1.2 h.1.1, singles_of_wfBList ts h.2⟩
end

/-- a tree the constructors accept has sub recipes with several outputs only at the root -/
theorem singleRoot_of_wfB (t : Tree) (h : t.wfB = true) : singleRoot t = true := by
  cases t with
  | ingredient d q => rfl
  | reference s i a => rfl
  | step d i => simp only [Tree.wfB] at h; simp only [singleRoot, single]; exact singles_of_wfBList i h
  | sub b ns sh =>
    simp only [Tree.wfB, Bool.and_eq_true] at h
    exact single_of_wfB b h.2 h.1.1

theorem compile_ok_singleRoot (srcs : List Str) (bs : List Block) (h : compile srcs = .ok bs) :
    ∀ b ∈ bs, ∀ t ∈ b, singleRoot t = true := by
  obtain ⟨asts, bs0, st, outs', _, hc, _, hf⟩ := compile_ok_phases h
  intro b hb t ht
  exact singleRoot_of_wfB t (foldAll_wfAll asts bs0 st hc _ bs outs' hf t (List.mem_flatten.mpr ⟨b, hb, ht⟩))

end RG
