import RecipeGrid.Model.DataUrl
/-! Helper lemmas for `Props/C16c.lean`: the digits of the base64 alphabet, the steps of CPython's decoder on
    an encoded group, list splitting. -/
namespace RG

/-! ## digits -/

theorem b64val_b64char : ∀ n, n < 64 → b64val (b64char n) = some n := by decide

theorem b64char_ne_pad_lt : ∀ n, n < 64 → b64char n ≠ '=' := by decide

theorem b64char_ge (n : Nat) (h : 64 ≤ n) : b64char n = '/' := by
  unfold b64char
  have h1 : ¬ n < 26 := by omega
  have h2 : ¬ n < 52 := by omega
  have h3 : ¬ n < 62 := by omega
  have h4 : ¬ n = 62 := by omega
  simp only [h1, h2, h3, h4, if_false]

theorem b64char_ne_pad (n : Nat) : b64char n ≠ '=' := by
  by_cases h : n < 64
  · exact b64char_ne_pad_lt n h
  · rw [b64char_ge n (by omega)]; decide

/-- a character of the output alphabet: `A-Z a-z 0-9 + /` or the padding `=` -/
def isB64Out (c : Char) : Bool :=
  let n := c.toNat
  (65 ≤ n && n ≤ 90) || (97 ≤ n && n ≤ 122) || (48 ≤ n && n ≤ 57) || c == '+' || c == '/' || c == '='

theorem isB64Out_b64char_lt : ∀ n, n < 64 → isB64Out (b64char n) = true := by decide

theorem isB64Out_b64char (n : Nat) : isB64Out (b64char n) = true := by
  by_cases h : n < 64
  · exact isB64Out_b64char_lt n h
  · rw [b64char_ge n (by omega)]; decide

theorem b64char_ofNat_table : ∀ v, v < 64 →
    (v < 26 → b64char v = Char.ofNat (v + 65)) ∧
    (26 ≤ v → v < 52 → b64char v = Char.ofNat (v + 71)) ∧
    (52 ≤ v → v < 62 → b64char v = Char.ofNat (v - 4)) ∧
    (v = 62 → b64char v = Char.ofNat 43) ∧ (v = 63 → b64char v = Char.ofNat 47) := by decide

/-- the digit table is injective: a character with value `v` IS the digit `v` -/
theorem b64val_eq_some {c : Char} {v : Nat} (h : b64val c = some v) : v < 64 ∧ c = b64char v := by
  have hc : c = Char.ofNat c.toNat := (Char.ofNat_toNat c).symm
  unfold b64val at h
  simp only at h
  split at h
  · rename_i h1
    have hv : v = c.toNat - 65 := by simpa using h.symm
    have hlt : v < 64 := by omega
    refine ⟨hlt, ?_⟩
    rw [(b64char_ofNat_table v hlt).1 (by omega)]
    have : v + 65 = c.toNat := by omega
    rw [this]; exact hc
  · split at h
    · rename_i h1 h2
      have hv : v = c.toNat - 71 := by simpa using h.symm
      have hlt : v < 64 := by omega
      refine ⟨hlt, ?_⟩
      rw [(b64char_ofNat_table v hlt).2.1 (by omega) (by omega)]
      have : v + 71 = c.toNat := by omega
      rw [this]; exact hc
    · split at h
      · rename_i h1 h2 h3
        have hv : v = c.toNat + 4 := by simpa using h.symm
        have hlt : v < 64 := by omega
        refine ⟨hlt, ?_⟩
        rw [(b64char_ofNat_table v hlt).2.2.1 (by omega) (by omega)]
        have : v - 4 = c.toNat := by omega
        rw [this]; exact hc
      · split at h
        · rename_i h4
          have hv : v = 62 := by simpa using h.symm
          subst hv
          refine ⟨by omega, ?_⟩
          rw [(b64char_ofNat_table 62 (by omega)).2.2.2.1 rfl, ← h4]; exact hc
        · split at h
          · rename_i h4
            have hv : v = 63 := by simpa using h.symm
            subst hv
            refine ⟨by omega, ?_⟩
            rw [(b64char_ofNat_table 63 (by omega)).2.2.2.2 rfl, ← h4]; exact hc
          · simp at h

theorem b64val_pad : b64val '=' = none := by decide

/-! ## bytes -/

theorem isBytes_cons {a : Nat} {bs : List Nat} : isBytes (a :: bs) = true ↔ a < 256 ∧ isBytes bs = true := by
  simp [isBytes]

theorem isBytes_nil : isBytes [] = true := rfl

/-! ## the steps of CPython's decoder over digits -/

theorem go_digit0 (l v : Nat) (hv : v < 64) (rest : List Char) :
    b64decodeGo 0 l (b64char v :: rest) = b64decodeGo 1 v rest := by
  simp only [b64decodeGo, b64char_ne_pad v, if_false, b64val_b64char v hv]

theorem go_digit1 (l v : Nat) (hv : v < 64) (rest : List Char) :
    b64decodeGo 1 l (b64char v :: rest) = (b64decodeGo 2 (v % 16) rest).map ((l * 4 + v / 16) :: ·) := by
  simp only [b64decodeGo, b64char_ne_pad v, if_false, b64val_b64char v hv]

theorem go_digit2 (l v : Nat) (hv : v < 64) (rest : List Char) :
    b64decodeGo 2 l (b64char v :: rest) = (b64decodeGo 3 (v % 4) rest).map ((l * 16 + v / 4) :: ·) := by
  simp only [b64decodeGo, b64char_ne_pad v, if_false, b64val_b64char v hv]

theorem go_digit3 (l v : Nat) (hv : v < 64) (rest : List Char) :
    b64decodeGo 3 l (b64char v :: rest) = (b64decodeGo 0 0 rest).map ((l * 64 + v) :: ·) := by
  simp only [b64decodeGo, b64char_ne_pad v, if_false, b64val_b64char v hv]

theorem go_pad2 (l : Nat) : b64decodeGo 2 l ['=', '='] = some [] := by
  simp [b64decodeGo]

theorem go_pad3 (l : Nat) : b64decodeGo 3 l ['='] = some [] := by
  simp [b64decodeGo]

/-! ## splitting -/

theorem stripPrefix?_append (p s : List Char) : stripPrefix? p (p ++ s) = some s := by
  induction p with
  | nil => cases s <;> rfl
  | cons a p ih => simp [stripPrefix?, ih]

theorem stripSuffix?_append (suf m : List Char) : stripSuffix? suf (m ++ suf) = some m := by
  simp [stripSuffix?, List.reverse_append, stripPrefix?_append]

theorem splitComma_append (a b : List Char) (h : ',' ∉ a) : splitComma (a ++ ',' :: b) = some (a, b) := by
  induction a with
  | nil => simp [splitComma]
  | cons c a ih =>
    have hc : c ≠ ',' := fun e => h (by simp [e])
    have ha : ',' ∉ a := fun e => h (by simp [e])
    simp [splitComma, hc, ih ha]

theorem stripPrefix?_eq_some : ∀ (p s r : List Char), stripPrefix? p s = some r → s = p ++ r := by
  intro p
  induction p with
  | nil => intro s r h; cases s <;> simp [stripPrefix?] at h <;> simp [h]
  | cons a p ih =>
    intro s r h
    cases s with
    | nil => simp [stripPrefix?] at h
    | cons b s =>
      simp only [stripPrefix?] at h
      split at h
      · rename_i hab
        rw [hab, ih s r h]; rfl
      · cases h

theorem stripSuffix?_eq_some (suf s m : List Char) (h : stripSuffix? suf s = some m) : s = m ++ suf := by
  unfold stripSuffix? at h
  cases hp : stripPrefix? suf.reverse s.reverse with
  | none => rw [hp] at h; cases h
  | some r =>
    rw [hp] at h
    simp only [Option.map_some, Option.some.injEq] at h
    have := stripPrefix?_eq_some _ _ _ hp
    have h2 : s = (suf.reverse ++ r).reverse := by rw [← this, List.reverse_reverse]
    rw [h2, List.reverse_append, List.reverse_reverse, h]

theorem splitComma_eq_some : ∀ (s a b : List Char), splitComma s = some (a, b) → s = a ++ ',' :: b ∧ ',' ∉ a := by
  intro s
  induction s with
  | nil => intro a b h; simp [splitComma] at h
  | cons c rest ih =>
    intro a b h
    simp only [splitComma] at h
    split at h
    · rename_i hc
      simp only [Option.some.injEq, Prod.mk.injEq] at h
      obtain ⟨rfl, rfl⟩ := h
      subst hc
      simp
    · rename_i hc
      cases hr : splitComma rest with
      | none => rw [hr] at h; cases h
      | some ab =>
        obtain ⟨a', b'⟩ := ab
        rw [hr] at h
        simp only [Option.map_some, Option.some.injEq, Prod.mk.injEq] at h
        obtain ⟨rfl, rfl⟩ := h
        obtain ⟨e, hn⟩ := ih a' b' hr
        refine ⟨by rw [e]; rfl, ?_⟩
        intro hm
        rcases List.mem_cons.mp hm with h1 | h1
        · exact hc h1.symm
        · exact hn h1

end RG
