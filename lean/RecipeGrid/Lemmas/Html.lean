import RecipeGrid.Model.Html
import RecipeGrid.Lemmas.Fmt
import RecipeGrid.Lemmas.Table
/-! Helper lemmas about `Model/Html.lean` used by `Props/C04.lean`, `Props/C09.lean`, `Props/C10.lean`. -/
namespace RG

/-! ## character references -/

/-- the decoder of the eight character references the renderer can emit (copy of `C10.unescape`, which is the
    specification; `Props/C10.lean` proves the two equal) -/
def decodeRefs : Str → Str
  | '&' :: 'a' :: 'm' :: 'p' :: ';' :: rest => '&' :: decodeRefs rest
  | '&' :: 'l' :: 't' :: ';' :: rest => '<' :: decodeRefs rest
  | '&' :: 'g' :: 't' :: ';' :: rest => '>' :: decodeRefs rest
  | '&' :: 'q' :: 'u' :: 'o' :: 't' :: ';' :: rest => '"' :: decodeRefs rest
  | '&' :: '#' :: 'x' :: '2' :: '7' :: ';' :: rest => '\'' :: decodeRefs rest
  | '&' :: '#' :: '1' :: '0' :: ';' :: rest => '\n' :: decodeRefs rest
  | '&' :: '#' :: '1' :: '3' :: ';' :: rest => '\r' :: decodeRefs rest
  | '&' :: '#' :: '9' :: ';' :: rest => '\t' :: decodeRefs rest
  | c :: rest => c :: decodeRefs rest
  | [] => []

theorem decodeRefs_other (c : Char) (h : c ≠ '&') (rest : Str) : decodeRefs (c :: rest) = c :: decodeRefs rest := by
  conv => lhs; unfold decodeRefs
  split <;> simp_all

/-- `enc` encodes every character so that the decoder gives it back -/
def Decodes (enc : Char → Str) : Prop := ∀ c rest, decodeRefs (enc c ++ rest) = c :: decodeRefs rest

theorem decodeRefs_flatMap {enc : Char → Str} (h : Decodes enc) (s : Str) : decodeRefs (s.flatMap enc) = s := by
  induction s with
  | nil => simp [decodeRefs]
  | cons c s ih => rw [List.flatMap_cons, h, ih]

theorem escapeChar_other {c : Char} (h1 : c ≠ '&') (h2 : c ≠ '<') (h3 : c ≠ '>') (h4 : c ≠ '"') (h5 : c ≠ '\'') :
    escapeChar c = [c] := by
  unfold escapeChar; split <;> simp_all

theorem quoteattrChar_other {c : Char} (h1 : c ≠ '&') (h2 : c ≠ '>') (h3 : c ≠ '<') (h4 : c ≠ '\n') (h5 : c ≠ '\r')
    (h6 : c ≠ '\t') : quoteattrChar c = [c] := by
  unfold quoteattrChar; split <;> simp_all

theorem decodes_escapeChar : Decodes escapeChar := by
  intro c rest
  by_cases h1 : c = '&'; · subst h1; simp [escapeChar, S, decodeRefs]
  by_cases h2 : c = '<'; · subst h2; simp [escapeChar, S, decodeRefs]
  by_cases h3 : c = '>'; · subst h3; simp [escapeChar, S, decodeRefs]
  by_cases h4 : c = '"'; · subst h4; simp [escapeChar, S, decodeRefs]
  by_cases h5 : c = '\''; · subst h5; simp [escapeChar, S, decodeRefs]
  rw [escapeChar_other h1 h2 h3 h4 h5]; exact decodeRefs_other c h1 rest

theorem decodeRefs_htmlEscape (s : Str) : decodeRefs (htmlEscape s) = s :=
  decodeRefs_flatMap decodes_escapeChar s

theorem decodes_quoteattrChar : Decodes quoteattrChar := by
  intro c rest
  by_cases h1 : c = '&'; · subst h1; simp [quoteattrChar, S, decodeRefs]
  by_cases h2 : c = '>'; · subst h2; simp [quoteattrChar, S, decodeRefs]
  by_cases h3 : c = '<'; · subst h3; simp [quoteattrChar, S, decodeRefs]
  by_cases h4 : c = '\n'; · subst h4; simp [quoteattrChar, S, decodeRefs]
  by_cases h5 : c = '\r'; · subst h5; simp [quoteattrChar, S, decodeRefs]
  by_cases h6 : c = '\t'; · subst h6; simp [quoteattrChar, S, decodeRefs]
  rw [quoteattrChar_other h1 h2 h3 h4 h5 h6]; exact decodeRefs_other c h1 rest

/-- the second pass of `quoteattr` when the value contains both kinds of quote -/
def quotEsc (c : Char) : Str := if c == '"' then S "&quot;" else [c]

theorem decodes_quoteattr_both : Decodes fun c => (quoteattrChar c).flatMap quotEsc := by
  intro c rest
  by_cases h1 : c = '&'; · subst h1; simp [quoteattrChar, S, decodeRefs, quotEsc]
  by_cases h2 : c = '>'; · subst h2; simp [quoteattrChar, S, decodeRefs, quotEsc]
  by_cases h3 : c = '<'; · subst h3; simp [quoteattrChar, S, decodeRefs, quotEsc]
  by_cases h4 : c = '\n'; · subst h4; simp [quoteattrChar, S, decodeRefs, quotEsc]
  by_cases h5 : c = '\r'; · subst h5; simp [quoteattrChar, S, decodeRefs, quotEsc]
  by_cases h6 : c = '\t'; · subst h6; simp [quoteattrChar, S, decodeRefs, quotEsc]
  show decodeRefs ((quoteattrChar c).flatMap quotEsc ++ rest) = _
  rw [quoteattrChar_other h1 h2 h3 h4 h5 h6]
  by_cases h7 : c = '"'
  · subst h7; simp [S, decodeRefs, quotEsc]
  · simp only [List.flatMap_cons, List.flatMap_nil, List.append_nil, quotEsc, beq_iff_eq, h7, if_false]
    exact decodeRefs_other c h1 rest

/-! ## no markup characters -/

theorem escapeChar_no_markup (c : Char) : ∀ d ∈ escapeChar c, d ≠ '<' ∧ d ≠ '>' ∧ d ≠ '"' ∧ d ≠ '\'' := by
  by_cases h1 : c = '&'; · subst h1; decide
  by_cases h2 : c = '<'; · subst h2; decide
  by_cases h3 : c = '>'; · subst h3; decide
  by_cases h4 : c = '"'; · subst h4; decide
  by_cases h5 : c = '\''; · subst h5; decide
  rw [escapeChar_other h1 h2 h3 h4 h5]
  intro d hd
  simp only [List.mem_singleton] at hd
  subst hd; exact ⟨h2, h3, h4, h5⟩

theorem quoteattrChar_no_lt (c : Char) : '<' ∉ quoteattrChar c := by
  by_cases h1 : c = '&'; · subst h1; decide
  by_cases h2 : c = '>'; · subst h2; decide
  by_cases h3 : c = '<'; · subst h3; decide
  by_cases h4 : c = '\n'; · subst h4; decide
  by_cases h5 : c = '\r'; · subst h5; decide
  by_cases h6 : c = '\t'; · subst h6; decide
  rw [quoteattrChar_other h1 h2 h3 h4 h5 h6]
  simpa using Ne.symm h3

theorem quotEsc_no_quot_lt (c : Char) (h : c ≠ '<') : '"' ∉ quotEsc c ∧ '<' ∉ quotEsc c := by
  by_cases h7 : c = '"'
  · subst h7; decide
  · simp only [quotEsc, beq_iff_eq, h7, if_false, List.mem_singleton]
    exact ⟨Ne.symm h7, Ne.symm h⟩

/-! ## every `&` of escaped text starts a reference -/

def escapeRefs : List String := ["amp;", "lt;", "gt;", "quot;", "#x27;"]

/-- every `&` in `l` is followed by one of the five reference bodies -/
def AmpOK (l : Str) : Prop := ∀ pre post, l = pre ++ '&' :: post → ∃ r ∈ escapeRefs, r.toList <+: post

theorem AmpOK.nil : AmpOK [] := by
  intro pre post h; simp at h

theorem AmpOK.cons_other {l : Str} (h : AmpOK l) {c : Char} (hc : c ≠ '&') : AmpOK (c :: l) := by
  intro pre post e
  cases pre with
  | nil => simp at e; exact absurd e.1 hc
  | cons x pre =>
    simp only [List.cons_append, List.cons.injEq] at e
    exact h pre post e.2

theorem AmpOK.cons_amp {l : Str} (h : AmpOK l) (hr : ∃ r ∈ escapeRefs, r.toList <+: l) : AmpOK ('&' :: l) := by
  intro pre post e
  cases pre with
  | nil => simp at e; subst e; exact hr
  | cons x pre =>
    simp only [List.cons_append, List.cons.injEq] at e
    exact h pre post e.2

theorem AmpOK.escapeChar {l : Str} (h : AmpOK l) (c : Char) : AmpOK (escapeChar c ++ l) := by
  have ne : ∀ {a b : Char}, (a == b) = false → a ≠ b := fun h => by simpa using h
  by_cases h1 : c = '&'
  · subst h1
    exact ((((h.cons_other (c := ';') (by decide)).cons_other (c := 'p') (by decide)).cons_other (c := 'm')
      (by decide)).cons_other (c := 'a') (by decide)).cons_amp ⟨"amp;", by decide, by simp [List.prefix_iff_eq_append]⟩
  by_cases h2 : c = '<'
  · subst h2
    exact (((h.cons_other (c := ';') (by decide)).cons_other (c := 't') (by decide)).cons_other (c := 'l')
      (by decide)).cons_amp ⟨"lt;", by decide, by simp [List.prefix_iff_eq_append]⟩
  by_cases h3 : c = '>'
  · subst h3
    exact (((h.cons_other (c := ';') (by decide)).cons_other (c := 't') (by decide)).cons_other (c := 'g')
      (by decide)).cons_amp ⟨"gt;", by decide, by simp [List.prefix_iff_eq_append]⟩
  by_cases h4 : c = '"'
  · subst h4
    exact (((((h.cons_other (c := ';') (by decide)).cons_other (c := 't') (by decide)).cons_other (c := 'o')
      (by decide)).cons_other (c := 'u') (by decide)).cons_other (c := 'q') (by decide)).cons_amp
      ⟨"quot;", by decide, by simp [List.prefix_iff_eq_append]⟩
  by_cases h5 : c = '\''
  · subst h5
    exact (((((h.cons_other (c := ';') (by decide)).cons_other (c := '7') (by decide)).cons_other (c := '2')
      (by decide)).cons_other (c := 'x') (by decide)).cons_other (c := '#') (by decide)).cons_amp
      ⟨"#x27;", by decide, by simp [List.prefix_iff_eq_append]⟩
  rw [escapeChar_other h1 h2 h3 h4 h5]
  exact h.cons_other h1

theorem ampOK_htmlEscape (s : Str) : AmpOK (htmlEscape s) := by
  induction s with
  | nil => exact AmpOK.nil
  | cons c s ih => exact ih.escapeChar c

/-! ## `quoteattr` -/

theorem quoteattr_wf (s : Str) :
    ∃ q body, (q = '"' ∨ q = '\'') ∧ quoteattr s = q :: body ++ [q] ∧ q ∉ body ∧ '<' ∉ body ∧ decodeRefs body = s := by
  have hlt : '<' ∉ s.flatMap quoteattrChar := by
    intro h
    obtain ⟨c, _, hc⟩ := List.mem_flatMap.1 h
    exact quoteattrChar_no_lt c hc
  have hdec : decodeRefs (s.flatMap quoteattrChar) = s := decodeRefs_flatMap decodes_quoteattrChar s
  by_cases h1 : (s.flatMap quoteattrChar).contains '"' = true
  · by_cases h2 : (s.flatMap quoteattrChar).contains '\'' = true
    · refine ⟨'"', (s.flatMap quoteattrChar).flatMap quotEsc, Or.inl rfl, ?_, ?_, ?_, ?_⟩
      · simp only [quoteattr, h1, h2, if_true]; rfl
      · intro h
        obtain ⟨c, hc, hq⟩ := List.mem_flatMap.1 h
        exact (quotEsc_no_quot_lt c (fun e => hlt (e ▸ hc))).1 hq
      · intro h
        obtain ⟨c, hc, hq⟩ := List.mem_flatMap.1 h
        exact (quotEsc_no_quot_lt c (fun e => hlt (e ▸ hc))).2 hq
      · rw [List.flatMap_assoc]; exact decodeRefs_flatMap decodes_quoteattr_both s
    · refine ⟨'\'', s.flatMap quoteattrChar, Or.inr rfl, ?_, ?_, hlt, hdec⟩
      · simp only [quoteattr, h1, h2, if_true]; rfl
      · simpa using h2
  · refine ⟨'"', s.flatMap quoteattrChar, Or.inl rfl, ?_, ?_, hlt, hdec⟩
    · simp only [quoteattr, h1]; rfl
    · simpa using h1

/-! ## anchor ids -/

theorem isIdChar_dash : isIdChar '-' = true := by decide

theorem dropWhile_eq_self_of_head {α} (p : α → Bool) (l : List α) (h : ∀ a, l.head? = some a → p a = false) :
    l.dropWhile p = l := by
  cases l with
  | nil => rfl
  | cons a l => simp [h a rfl]

theorem stripDashes_mem (s : Str) : ∀ c ∈ stripDashes s, c ∈ s := by
  intro c hc
  simp only [stripDashes, List.mem_reverse] at hc
  have h1 := (List.dropWhile_sublist (· == '-') (l := (s.dropWhile (· == '-')).reverse)).mem hc
  simp only [List.mem_reverse] at h1
  exact (List.dropWhile_sublist _).mem h1

theorem stripDashes_getLast? (s : Str) : (stripDashes s).getLast? ≠ some '-' := by
  simp only [stripDashes, List.getLast?_reverse]
  intro h
  have := List.head?_dropWhile_not (· == '-') (s.dropWhile (· == '-')).reverse
  rw [h] at this
  simp at this

theorem stripDashes_head? (s : Str) : (stripDashes s).head? ≠ some '-' := by
  have hp : stripDashes s <+: s.dropWhile (· == '-') := by
    have := List.dropWhile_suffix (· == '-') (l := (s.dropWhile (· == '-')).reverse)
    have := List.reverse_prefix.2 this
    simpa [stripDashes] using this
  obtain ⟨t, ht⟩ := hp
  intro h
  have h2 := List.head?_dropWhile_not (· == '-') s
  cases hs : stripDashes s with
  | nil => rw [hs] at h; simp at h
  | cons a l =>
    rw [hs] at h ht
    simp only [List.head?_cons, Option.some.injEq] at h
    rw [← ht] at h2
    simp [h] at h2

theorem stripDashes_eq_self (s : Str) (h1 : s.head? ≠ some '-') (h2 : s.getLast? ≠ some '-') : stripDashes s = s := by
  have e1 : s.dropWhile (· == '-') = s :=
    dropWhile_eq_self_of_head _ _ fun a ha => by
      simp only [beq_eq_false_iff_ne, ne_eq]; rintro rfl; exact h1 ha
  have e2 : s.reverse.dropWhile (· == '-') = s.reverse :=
    dropWhile_eq_self_of_head _ _ fun a ha => by
      simp only [beq_eq_false_iff_ne, ne_eq]; rintro rfl
      rw [List.head?_reverse] at ha; exact h2 ha
  simp [stripDashes, e1, e2]

/-- the part of an anchor id after the prefix -/
def anchorTail (name : SVS) : Str := stripDashes ((Svs.render name).map fun c => if isIdChar c then c else '-')

theorem anchorId_eq (pre : Str) (name : SVS) : anchorId pre name = pre ++ anchorTail name := rfl

theorem anchorTail_idChars (name : SVS) : ∀ c ∈ anchorTail name, isIdChar c = true := by
  intro c hc
  have := stripDashes_mem _ c hc
  obtain ⟨d, _, rfl⟩ := List.mem_map.1 this
  by_cases h : isIdChar d = true
  · simp [h]
  · simp [h, isIdChar_dash]

theorem map_idChars_self (s : Str) (h : ∀ c ∈ s, isIdChar c = true) :
    (s.map fun c => if isIdChar c then c else '-') = s := by
  induction s with
  | nil => rfl
  | cons a s ih =>
    simp only [List.map_cons, h a (List.mem_cons_self ..), if_true]
    rw [ih fun c hc => h c (List.mem_cons_of_mem _ hc)]

theorem anchorTail_text_of_clean (s : Str) (h : ∀ c ∈ s, isIdChar c = true) (h1 : s.head? ≠ some '-')
    (h2 : s.getLast? ≠ some '-') : anchorTail [.text s] = s := by
  simp only [anchorTail, Svs.render, List.flatMap_cons, List.flatMap_nil, List.append_nil]
  rw [map_idChars_self s h, stripDashes_eq_self s h1 h2]

/-! ## recipe id prefixes -/

theorem natDigits_inj {i j : Nat} (h : natDigits i = natDigits j) : i = j := by
  rw [← digitsVal_natDigits i, ← digitsVal_natDigits j, h]

theorem dash_not_digit : ('-' : Char).isDigit = false := by decide

/-- a digit string followed by `-` determines the digit string -/
theorem digits_dash_inj {a b s t : Str} (ha : ∀ c ∈ a, c.isDigit = true) (hb : ∀ c ∈ b, c.isDigit = true)
    (h : a ++ '-' :: s = b ++ '-' :: t) : a = b := by
  induction a generalizing b with
  | nil =>
    cases b with
    | nil => rfl
    | cons y b =>
      simp only [List.nil_append, List.cons_append, List.cons.injEq] at h
      have := hb y (List.mem_cons_self ..)
      rw [← h.1] at this; simp [dash_not_digit] at this
  | cons x a ih =>
    cases b with
    | nil =>
      simp only [List.nil_append, List.cons_append, List.cons.injEq] at h
      have := ha x (List.mem_cons_self ..)
      rw [h.1] at this; simp [dash_not_digit] at this
    | cons y b =>
      simp only [List.cons_append, List.cons.injEq] at h
      rw [h.1, ih (fun c hc => ha c (List.mem_cons_of_mem _ hc)) (fun c hc => hb c (List.mem_cons_of_mem _ hc)) h.2]

/-! ## raster order -/

theorem insertSorted_perm {α} (le : α → α → Bool) (x : α) (l : List α) : (insertSorted le x l).Perm (x :: l) := by
  induction l with
  | nil => exact List.Perm.refl _
  | cons y ys ih =>
    simp only [insertSorted]
    split
    · exact List.Perm.refl _
    · exact (List.Perm.cons y ih).trans (List.Perm.swap x y ys)

theorem insertionSort_perm {α} (le : α → α → Bool) (l : List α) : (insertionSort le l).Perm l := by
  induction l with
  | nil => exact List.Perm.refl _
  | cons x xs ih => exact (insertSorted_perm le x _).trans (List.Perm.cons x ih)

theorem insertSorted_pairwise {α} (le : α → α → Bool) (htot : ∀ a b, le a b = true ∨ le b a = true)
    (htr : ∀ a b c, le a b = true → le b c = true → le a c = true) (x : α) (l : List α)
    (h : l.Pairwise (fun a b => le a b = true)) : (insertSorted le x l).Pairwise (fun a b => le a b = true) := by
  induction l with
  | nil => simp [insertSorted]
  | cons y ys ih =>
    rw [List.pairwise_cons] at h
    simp only [insertSorted]
    split
    · rename_i hle
      refine List.pairwise_cons.2 ⟨fun a ha => ?_, List.pairwise_cons.2 h⟩
      rcases List.mem_cons.1 ha with rfl | ha
      · exact hle
      · exact htr _ _ _ hle (h.1 a ha)
    · rename_i hle
      refine List.pairwise_cons.2 ⟨fun a ha => ?_, ih h.2⟩
      rcases List.mem_cons.1 ((insertSorted_perm le x ys).mem_iff.1 ha) with rfl | ha
      · rcases htot a y with h' | h'
        · exact absurd h' hle
        · exact h'
      · exact h.1 a ha

theorem insertionSort_pairwise {α} (le : α → α → Bool) (htot : ∀ a b, le a b = true ∨ le b a = true)
    (htr : ∀ a b c, le a b = true → le b c = true → le a c = true) (l : List α) :
    (insertionSort le l).Pairwise (fun a b => le a b = true) := by
  induction l with
  | nil => simp [insertionSort]
  | cons x xs ih => exact insertSorted_pairwise le htot htr x _ ih

theorem rasterSort_perm (cs : List PCell) : (rasterSort cs).Perm cs := insertionSort_perm _ cs

theorem rasterSort_sorted (cs : List PCell) : (rasterSort cs).Pairwise (fun a b => rasterLt b a = false) := by
  have := insertionSort_pairwise (fun a b : PCell => !rasterLt b a)
    (fun a b => by
      simp only [rasterLt, Bool.not_eq_true', Bool.or_eq_false_iff, Bool.and_eq_false_iff, decide_eq_false_iff_not,
        beq_eq_false_iff_ne]
      omega)
    (fun a b c => by
      simp only [rasterLt, Bool.not_eq_true', Bool.or_eq_false_iff, Bool.and_eq_false_iff, decide_eq_false_iff_not,
        beq_eq_false_iff_ne]
      omega) cs
  exact this.imp (fun h => by simpa using h)

/-! ## splitting a row-sorted list into rows -/

/-- sorted by row (weaker than raster order) -/
def RowSorted (S : List PCell) : Prop := S.Pairwise (fun a b => a.row ≤ b.row)

theorem rowSorted_of_raster {S : List PCell} (h : S.Pairwise (fun a b => rasterLt b a = false)) : RowSorted S :=
  h.imp (fun {a b} h => by
    simp only [rasterLt, Bool.or_eq_false_iff, decide_eq_false_iff_not] at h
    omega)

theorem RowSorted.split {S : List PCell} (h : RowSorted S) (n : Nat) :
    S = S.filter (fun x => decide (x.row < n)) ++ S.filter (fun x => decide (n ≤ x.row)) := by
  induction S with
  | nil => rfl
  | cons a S ih =>
    have h' := List.pairwise_cons.1 h
    by_cases ha : a.row < n
    · have hn : ¬ n ≤ a.row := by omega
      simp only [List.filter_cons, ha, hn, decide_true, decide_false, if_true, List.cons_append]
      simp only [Bool.false_eq_true, if_false]
      rw [← ih h'.2]
    · have hn : n ≤ a.row := by omega
      have e1 : S.filter (fun x => decide (x.row < n)) = [] := by
        rw [List.filter_eq_nil_iff]
        intro x hx; have := h'.1 x hx; simp only [decide_eq_true_eq]; omega
      have e2 : S.filter (fun x => decide (n ≤ x.row)) = S := by
        rw [List.filter_eq_self]
        intro x hx; have := h'.1 x hx; simp only [decide_eq_true_eq]; omega
      simp only [List.filter_cons, ha, hn, decide_true, decide_false, if_true, e1, e2]
      simp

theorem RowSorted.filter_succ {S : List PCell} (h : RowSorted S) (n : Nat) :
    S.filter (fun x => decide (x.row < n + 1)) =
      S.filter (fun x => decide (x.row < n)) ++ S.filter (fun x => x.row == n) := by
  have hs : RowSorted (S.filter (fun x => decide (x.row < n + 1))) := List.Pairwise.filter _ h
  have := hs.split n
  rw [List.filter_filter, List.filter_filter] at this
  rw [this]
  congr 1
  · apply List.filter_congr
    intro x _
    by_cases h1 : x.row < n <;> by_cases h2 : x.row < n + 1 <;> simp [h1, h2] <;> omega
  · apply List.filter_congr
    intro x _
    by_cases h1 : n ≤ x.row <;> by_cases h2 : x.row < n + 1 <;> simp [h1, h2] <;> omega

theorem RowSorted.flatten_rows {S : List PCell} (h : RowSorted S) (n : Nat) :
    ((List.range n).map fun r => S.filter (fun x => x.row == r)).flatten = S.filter (fun x => decide (x.row < n)) := by
  induction n with
  | zero => simp
  | succ n ih => rw [List.range_succ, List.map_append, List.flatten_append, ih, h.filter_succ]; simp

theorem filter_row_lt_self {S : List PCell} {n : Nat} (h : ∀ x ∈ S, x.row < n) :
    S.filter (fun x => decide (x.row < n)) = S := by
  rw [List.filter_eq_self]; intro x hx; simpa using h x hx

/-! ## the HTML table model (copy of the specification in `Props/C04.lean`, which proves the two equal) -/

namespace Place

/-- a placed cell `(row, col, rows, cols)` occupies the slot `(r, c)` -/
def occupies (p : Nat × Nat × Nat × Nat) (r c : Nat) : Bool :=
  p.1 ≤ r && r < p.1 + p.2.2.1 && p.2.1 ≤ c && c < p.2.1 + p.2.2.2
def occupied (ps : List (Nat × Nat × Nat × Nat)) (r c : Nat) : Bool := ps.any (occupies · r c)
def width (ps : List (Nat × Nat × Nat × Nat)) : Nat := ps.foldr (fun p w => max (p.2.1 + p.2.2.2) w) 0
def skip (ps : List (Nat × Nat × Nat × Nat)) (r : Nat) : Nat → Nat → Nat
  | 0, c => c
  | n + 1, c => if occupied ps r c then skip ps r n (c + 1) else c
def placeRow (r : Nat) : List (Nat × Nat) → Nat → List (Nat × Nat × Nat × Nat) → List (Nat × Nat × Nat × Nat)
  | [], _, ps => ps
  | (rs, cs) :: rest, cur, ps =>
    let c := skip ps r (width ps - cur) cur
    placeRow r rest (c + cs) (ps ++ [(r, c, rs, cs)])
def placeRows : Nat → List (List (Nat × Nat)) → List (Nat × Nat × Nat × Nat) → List (Nat × Nat × Nat × Nat)
  | _, [], ps => ps
  | r, row :: rows, ps => placeRows (r + 1) rows (placeRow r row 0 ps)
def place (rows : List (List (Nat × Nat))) : List (Nat × Nat × Nat × Nat) := placeRows 0 rows []

def geom (c : PCell) : Nat × Nat × Nat × Nat := (c.row, c.col, c.rows, c.cols)
def spans (c : PCell) : Nat × Nat := (c.rows, c.cols)

theorem occupied_lt_width (ps : List (Nat × Nat × Nat × Nat)) (r c : Nat) (h : occupied ps r c = true) : c < width ps := by
  induction ps with
  | nil => simp [occupied] at h
  | cons p ps ih =>
    simp only [occupied, List.any_cons, Bool.or_eq_true] at h
    simp only [width, List.foldr_cons]
    rcases h with h | h
    · simp only [occupies, Bool.and_eq_true, decide_eq_true_eq] at h
      omega
    · have := ih h; simp only [width] at this; omega

theorem skip_spec (ps : List (Nat × Nat × Nat × Nat)) (r target : Nat) :
    ∀ (n cur : Nat), width ps ≤ n + cur → cur ≤ target →
      (∀ c, cur ≤ c → c < target → occupied ps r c = true) → occupied ps r target = false →
      skip ps r n cur = target := by
  intro n
  induction n with
  | zero =>
    intro cur hw hle hocc hfree
    simp only [skip]
    by_cases h : cur < target
    · have := occupied_lt_width ps r cur (hocc cur (Nat.le_refl _) h); omega
    · omega
  | succ n ih =>
    intro cur hw hle hocc hfree
    simp only [skip]
    by_cases h : cur < target
    · rw [if_pos (hocc cur (Nat.le_refl _) h)]
      exact ih (cur + 1) (by omega) h (fun c h1 h2 => hocc c (by omega) h2) hfree
    · have : cur = target := by omega
      subst this
      simp [hfree]

theorem occupied_geom (P : List PCell) (r c : Nat) :
    occupied (P.map geom) r c = true ↔ ∃ y ∈ P, covers y r c = true := by
  simp only [occupied, List.any_map, List.any_eq_true]
  exact Iff.rfl

/-- the cells in raster order, tiling the `h × w` rectangle -/
structure RasterTiled (S : List PCell) (h w : Nat) : Prop where
  sorted : S.Pairwise (fun a b => rasterLt b a = false)
  pos : ∀ x ∈ S, 0 < x.rows ∧ 0 < x.cols ∧ x.row + x.rows ≤ h ∧ x.col + x.cols ≤ w
  one : ∀ r c, r < h → c < w → cover S r c = 1

theorem cover_zero_iff (P : List PCell) (r c : Nat) : cover P r c = 0 ↔ ∀ y ∈ P, covers y r c = false := by
  simp [cover, List.countP_eq_zero]

theorem placeRow_spec {S : List PCell} {h w : Nat} (hS : RasterTiled S h w) (r : Nat) :
    ∀ (R P Q : List PCell) (cur : Nat), S = P ++ R ++ Q → (∀ x ∈ R, x.row = r) →
      (∀ c, c < cur → occupied (P.map geom) r c = true) →
      placeRow r (R.map spans) cur (P.map geom) = (P ++ R).map geom := by
  intro R
  induction R with
  | nil => intro P Q cur _ _ _; simp [placeRow]
  | cons x R ih =>
    intro P Q cur hSeq hrow hcur
    have hxr : x.row = r := hrow x (List.mem_cons_self ..)
    have hxS : x ∈ S := by rw [hSeq]; simp
    obtain ⟨p1, p2, p3, p4⟩ := hS.pos x hxS
    have hcx : ∀ c, x.col ≤ c → c < x.col + x.cols → covers x r c = true := by
      intro c h1 h2
      simp only [covers, Bool.and_eq_true, decide_eq_true_eq]; omega
    -- the corner of `x` is free
    have hfree : occupied (P.map geom) r x.col = false := by
      have h1 := hS.one r x.col (by omega) (by omega)
      rw [hSeq, List.append_assoc, cover_append, List.cons_append, ← List.singleton_append, cover_append] at h1
      have h2 : cover [x] r x.col = 1 := by simp [cover, hcx x.col (Nat.le_refl _) (by omega)]
      have h3 : cover P r x.col = 0 := by omega
      rw [cover_zero_iff] at h3
      cases ho : occupied (P.map geom) r x.col with
      | false => rfl
      | true =>
        obtain ⟨y, hy, hc⟩ := (occupied_geom P r x.col).1 ho
        rw [h3 y hy] at hc; exact absurd hc (by simp)
    -- everything to its left in this row is taken
    have hleft : ∀ c, c < x.col → occupied (P.map geom) r c = true := by
      intro c hc
      have h1 := hS.one r c (by omega) (by omega)
      have h2 : ∃ y ∈ S, covers y r c = true := by
        have : 0 < cover S r c := by omega
        simpa [cover, List.countP_pos_iff] using this
      obtain ⟨y, hy, hyc⟩ := h2
      rw [occupied_geom]
      rw [hSeq, List.append_assoc, List.mem_append, List.cons_append, List.mem_cons] at hy
      have hyc' := hyc
      simp only [covers, Bool.and_eq_true, decide_eq_true_eq] at hyc'
      rcases hy with hy | rfl | hy
      · exact ⟨y, hy, hyc⟩
      · omega
      · exfalso
        have hsorted := hS.sorted
        rw [hSeq, List.append_assoc, List.pairwise_append] at hsorted
        have := (List.pairwise_cons.1 hsorted.2.1).1 y hy
        simp only [rasterLt, Bool.or_eq_false_iff, Bool.and_eq_false_iff, decide_eq_false_iff_not,
          beq_eq_false_iff_ne] at this
        omega
    have hle : cur ≤ x.col := by
      apply Nat.le_of_not_lt
      intro hlt
      rw [hcur x.col hlt] at hfree; exact absurd hfree (by simp)
    have hskip : skip (P.map geom) r (width (P.map geom) - cur) cur = x.col :=
      skip_spec _ r x.col _ cur (by omega) hle (fun c _ h2 => hleft c h2) hfree
    simp only [List.map_cons, spans, placeRow, hskip]
    have e : P.map geom ++ [(r, x.col, x.rows, x.cols)] = (P ++ [x]).map geom := by
      simp [geom, hxr]
    rw [e, ih (P ++ [x]) Q (x.col + x.cols) (by rw [hSeq]; simp)
      (fun y hy => hrow y (List.mem_cons_of_mem _ hy)) ?_]
    · simp
    · intro c hc
      rw [occupied_geom]
      by_cases h1 : c < x.col
      · obtain ⟨y, hy, hyc⟩ := (occupied_geom P r c).1 (hleft c h1)
        exact ⟨y, by simp [hy], hyc⟩
      · exact ⟨x, by simp, hcx c (by omega) hc⟩

theorem placeRows_spec {S : List PCell} {h w : Nat} (hS : RasterTiled S h w) :
    ∀ (n r : Nat),
      placeRows r ((List.range' r n).map fun k => (S.filter (fun x => x.row == k)).map spans)
        ((S.filter (fun x => decide (x.row < r))).map geom) = (S.filter (fun x => decide (x.row < r + n))).map geom := by
  have hrs : RowSorted S := rowSorted_of_raster hS.sorted
  intro n
  induction n with
  | zero => intro r; simp [placeRows]
  | succ n ih =>
    intro r
    have hsplit : S = S.filter (fun x => decide (x.row < r)) ++ S.filter (fun x => x.row == r) ++
        S.filter (fun x => decide (r + 1 ≤ x.row)) := by
      rw [← hrs.filter_succ]; exact hrs.split (r + 1)
    have := placeRow_spec hS r (S.filter (fun x => x.row == r)) (S.filter (fun x => decide (x.row < r)))
      (S.filter (fun x => decide (r + 1 ≤ x.row))) 0 hsplit
      (fun x hx => by simpa using (List.mem_filter.1 hx).2) (fun c hc => by omega)
    have e : r + 1 + n = r + (n + 1) := by omega
    rw [List.range'_succ, List.map_cons, placeRows, this, ← hrs.filter_succ, ih (r + 1), e]

/-- placing the rows of a raster-sorted tiling puts every cell back where it is -/
theorem place_rows_eq {S : List PCell} {h w : Nat} (hS : RasterTiled S h w) :
    place (((List.range h).map fun r => S.filter (fun x => x.row == r)).map (·.map spans)) = S.map geom := by
  have h1 := placeRows_spec hS h 0
  have hlt : ∀ x ∈ S, x.row < h := fun x hx => by have := hS.pos x hx; omega
  have e0 : S.filter (fun x => decide (x.row < 0)) = [] := by simp
  rw [Nat.zero_add, filter_row_lt_self hlt, e0] at h1
  rw [place, List.range_eq_range', List.map_map]
  exact h1

/-- the rows, concatenated, are the raster-sorted cells -/
theorem flatten_rows_eq {S : List PCell} {h w : Nat} (hS : RasterTiled S h w) :
    ((List.range h).map fun r => S.filter (fun x => x.row == r)).flatten = S := by
  have hlt : ∀ x ∈ S, x.row < h := fun x hx => by have := hS.pos x hx; omega
  rw [(rowSorted_of_raster hS.sorted).flatten_rows, filter_row_lt_self hlt]

end Place

/-! ## every row starts a cell -/

def RowStarts (t : Tbl) : Prop := ∀ r, r < t.h → ∃ x ∈ t.cells, x.row = r

theorem RowStarts.pad {t : Tbl} (h : RowStarts t) (w : Nat) : RowStarts (pad t w) := by
  unfold RG.pad
  split
  · exact h
  · intro r hr
    obtain ⟨x, hx, hxr⟩ := h r hr
    refine ⟨padCell t.w w x, List.mem_map_of_mem hx, ?_⟩
    unfold padCell; split <;> exact hxr

theorem RowStarts.setBorder {t : Tbl} (h : RowStarts t) (b : Border) : RowStarts (setBorder t b) := by
  intro r hr
  obtain ⟨x, hx, hxr⟩ := h r hr
  exact ⟨borderCell t.h t.w b x, List.mem_map_of_mem hx, hxr⟩

theorem RowStarts.vcat {a b : Tbl} (ha : RowStarts a) (hb : RowStarts b) : RowStarts (vcat a b) := by
  intro r hr
  simp only [RG.vcat] at hr ⊢
  by_cases h : r < a.h
  · obtain ⟨x, hx, hxr⟩ := ha r h
    exact ⟨x, List.mem_append_left _ hx, hxr⟩
  · obtain ⟨x, hx, hxr⟩ := hb (r - a.h) (by omega)
    refine ⟨shiftDown a.h x, List.mem_append_right _ (List.mem_map_of_mem hx), ?_⟩
    simp only [shiftDown]; omega

theorem RowStarts.hcat {a : Tbl} (ha : RowStarts a) (b : Tbl) : RowStarts (hcat a b) := by
  intro r hr
  obtain ⟨x, hx, hxr⟩ := ha r hr
  exact ⟨x, List.mem_append_left _ hx, hxr⟩

theorem RowStarts.vstack (ts : List Tbl) (h : ∀ t ∈ ts, RowStarts t) : RowStarts (vstack ts) := by
  induction ts with
  | nil => intro r hr; simp [RG.vstack] at hr
  | cons a as ih =>
    rw [vstack_cons]
    exact RowStarts.vcat (h a (List.mem_cons_self ..)) (ih fun t ht => h t (List.mem_cons_of_mem _ ht))

theorem RowStarts.single (x : PCell) (w : Nat) (hx : x.row = 0) : RowStarts ⟨1, w, [x]⟩ := by
  intro r hr
  exact ⟨x, List.mem_singleton.2 rfl, by simp only at hr; omega⟩

mutual
theorem layoutAt_rowStarts : ∀ (t : Tree) (p : List Nat) (root : Bool), RowStarts (layoutAt p root t)
  | .ingredient .., p, root => by
    simp only [layoutAt]
    split
    · exact (RowStarts.single _ 1 rfl).setBorder _
    · exact RowStarts.single _ 1 rfl
  | .reference .., p, root => by
    simp only [layoutAt]
    split
    · exact (RowStarts.single _ 1 rfl).setBorder _
    · exact RowStarts.single _ 1 rfl
  | .step _ inputs, p, root => by
    have hi := layoutInputs_rowStarts inputs p 0
    have hs : RowStarts (vstack ((layoutInputs p 0 inputs).map (pad · (maxWidth (layoutInputs p 0 inputs))))) :=
      RowStarts.vstack _ fun t ht => by
        obtain ⟨t', ht', rfl⟩ := List.mem_map.1 ht
        exact (hi t' ht').pad _
    simp only [layoutAt]
    split
    · exact (hs.hcat _).setBorder _
    · exact hs.hcat _
  | .sub body names showNames, p, root => by
    have hb := layoutAt_rowStarts body (p ++ [0]) false
    simp only [layoutAt]
    split
    · split
      · exact (RowStarts.vcat (RowStarts.single _ _ rfl) hb).setBorder _
      · exact hb.setBorder _
    · exact (hb.setBorder _).hcat _
theorem layoutInputs_rowStarts : ∀ (ts : List Tree) (p : List Nat) (i : Nat), ∀ t ∈ layoutInputs p i ts, RowStarts t
  | [], _, _ => by simp [layoutInputs]
  | a :: as, p, i => by
    intro t ht
    simp only [layoutInputs, List.mem_cons] at ht
    rcases ht with rfl | ht
    · exact layoutAt_rowStarts a (p ++ [i]) false
    · exact layoutInputs_rowStarts as p (i + 1) t ht
end

end RG
