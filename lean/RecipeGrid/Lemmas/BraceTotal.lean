import RecipeGrid.Lemmas.BracePrint
/-! Every `Fraction(…)` that `ScaledValueExpression.__init__` builds has a non-zero denominator. -/
namespace RG.Brace
open Re Parser

theorem matchesF_mem : ∀ (fuel : Nat) (s : Str) (c : Caps), c ∈ matchesF fuel s →
    ∃ s0 s', partAt s0 = some (s', c)
  | 0, _, _, h => by simp [matchesF] at h
  | _ + 1, [], _, h => by simp [matchesF] at h
  | fuel + 1, ch :: rest, c, h => by
    simp only [matchesF] at h
    cases hp : partAt (ch :: rest) with
    | none =>
      rw [hp] at h
      exact matchesF_mem fuel rest c h
    | some r =>
      obtain ⟨s', c'⟩ := r
      rw [hp] at h
      simp only [List.mem_cons] at h
      rcases h with rfl | h
      · exact ⟨_, _, hp⟩
      · exact matchesF_mem fuel s' c h

/-- a digit run with a non-zero digit is not zero -/
theorem digitsVal_pos_of_nonZero (d : Str) (hd : ∀ ch ∈ d, isDigit ch = true) (h : hasNonZero d = true) :
    digitsVal d ≠ 0 := by
  obtain ⟨z, nz, e, rfl, _, hnz, _⟩ := hasNonZero_split d hd h
  rw [digitsVal_append, digitsVal_cons]
  have : 1 ≤ nz.toNat - 48 := by
    simp only [isNonZeroDigit, Bool.and_eq_true, decide_eq_true_eq] at hnz
    omega
  have hp : 0 < 10 ^ e.length := Nat.pow_pos (by decide)
  have : 0 < (nz.toNat - 48) * 10 ^ e.length := Nat.mul_pos (by omega) hp
  omega

theorem lexFracTail_denominator {s n d r : Str} (h : lexFracTail s = some (n, d, r)) : natOfDigits d ≠ 0 := by
  obtain ⟨h2, h3, _, _, _, _, _, hd, hnz, _⟩ := lexFracTail_some h
  exact digitsVal_pos_of_nonZero d hd hnz

/-- in the groups of one match of `any_part_pattern`: with a numerator there is a denominator, and it is not zero -/
theorem lexCaps_denominator {s s' : Str} {c : Caps} (h : lexCaps s = some (s', c)) (numer : Str)
    (hn : c.get gNumerator = some numer) : ∃ d, c.get gDenominator = some d ∧ natOfDigits d ≠ 0 := by
  cases s with
  | nil => cases h
  | cons ch rest =>
    cases hd : isDigit ch with
    | true =>
      simp only [lexCaps, hd, if_true] at h
      cases hm : lexMixed (ch :: rest) with
      | some t =>
        obtain ⟨i, n, d, r⟩ := t
        rw [hm] at h
        simp only [Option.some.injEq, Prod.mk.injEq] at h
        obtain ⟨_, rfl⟩ := h
        refine ⟨d, by simp [Caps.get, gDenominator], ?_⟩
        unfold lexMixed at hm
        cases hi : lexFracInt (ch :: rest) with
        | none => rw [hi] at hm; cases hm
        | some t =>
          obtain ⟨i', rr⟩ := t
          rw [hi] at hm
          simp only at hm
          cases ht : lexFracTail rr with
          | none => rw [ht] at hm; cases hm
          | some t =>
            obtain ⟨n', d', r'⟩ := t
            rw [ht] at hm
            simp only [Option.some.injEq, Prod.mk.injEq] at hm
            obtain ⟨_, _, rfl, _⟩ := hm
            exact lexFracTail_denominator ht
      | none =>
        rw [hm] at h
        simp only at h
        cases ht : lexFracTail (ch :: rest) with
        | some t =>
          obtain ⟨n, d, r⟩ := t
          rw [ht] at h
          simp only [Option.some.injEq, Prod.mk.injEq] at h
          obtain ⟨_, rfl⟩ := h
          exact ⟨d, by simp [Caps.get, gDenominator], lexFracTail_denominator ht⟩
        | none =>
          rw [ht] at h
          simp only at h
          exfalso
          cases hdw : (ch :: rest).dropWhile isDigit with
          | nil =>
            rw [hdw] at h
            simp only [Option.some.injEq, Prod.mk.injEq] at h
            obtain ⟨_, rfl⟩ := h
            simp [Caps.get, gNumerator, gDecimal] at hn
          | cons x r =>
            rw [hdw] at h
            simp only at h
            split at h <;>
              (simp only [Option.some.injEq, Prod.mk.injEq] at h
               obtain ⟨_, rfl⟩ := h
               simp [Caps.get, gNumerator, gDecimal, gAnon2] at hn)
    | false =>
      exfalso
      simp only [lexCaps, hd] at h
      by_cases hbs : ch = '\\'
      · subst hbs
        cases rest with
        | nil =>
          simp at h
          obtain ⟨_, rfl⟩ := h
          simp [Caps.get, gNumerator, gChar] at hn
        | cons e rest' =>
          by_cases he : e = '\n'
          · simp [he] at h
            obtain ⟨_, rfl⟩ := h
            simp [Caps.get, gNumerator, gChar] at hn
          · simp [he] at h
            obtain ⟨_, rfl⟩ := h
            simp [Caps.get, gNumerator, gEscaped] at hn
      · by_cases hb : ch = '{' ∨ ch = '}'
        · simp [hbs, hb] at h
        · simp [hbs, hb] at h
          obtain ⟨_, rfl⟩ := h
          simp [Caps.get, gNumerator, gChar] at hn

theorem matches_denominator (src : Str) (c : Caps) (hc : c ∈ Brace.matches src) (numer : Str)
    (hn : c.get gNumerator = some numer) : ∃ d, c.get gDenominator = some d ∧ natOfDigits d ≠ 0 := by
  obtain ⟨s0, s', hp⟩ := matchesF_mem _ _ _ hc
  rw [partAt_eq_lexCaps] at hp
  exact lexCaps_denominator hp numer hn


/-! ## `int(text)` is given at most as many digits as the source has characters -/

/-- a match consumes at least one character, and what is left is a suffix -/
theorem partAt_rest {s s' : Str} {c : Caps} (h : partAt s = some (s', c)) : ∃ x, x ≠ [] ∧ s = x ++ s' := by
  unfold partAt at h
  obtain ⟨x, s2, c2, hs, hx, hk⟩ := run_sound _ _ _ _ _ h
  simp only [Option.some.injEq, Prod.mk.injEq] at hk
  obtain ⟨rfl, _⟩ := hk
  refine ⟨x, ?_, hs⟩
  intro hnil
  subst hnil
  have := nullable_of_matches_nil _ hx
  rw [nullable_anyPartRe] at this
  cases this

theorem matchesF_mem_len : ∀ (fuel : Nat) (s : Str) (c : Caps), c ∈ matchesF fuel s →
    ∃ s0 s', s0.length ≤ s.length ∧ partAt s0 = some (s', c)
  | 0, _, _, h => by simp [matchesF] at h
  | _ + 1, [], _, h => by simp [matchesF] at h
  | fuel + 1, ch :: rest, c, h => by
    simp only [matchesF] at h
    cases hp : partAt (ch :: rest) with
    | none =>
      rw [hp] at h
      obtain ⟨s0, s', hl, hq⟩ := matchesF_mem_len fuel rest c h
      exact ⟨s0, s', by simp; omega, hq⟩
    | some r =>
      obtain ⟨s', c'⟩ := r
      rw [hp] at h
      simp only [List.mem_cons] at h
      rcases h with rfl | h
      · exact ⟨_, _, Nat.le_refl _, hp⟩
      · obtain ⟨s0, s'', hl, hq⟩ := matchesF_mem_len fuel s' c h
        obtain ⟨x, _, hs⟩ := partAt_rest hp
        refine ⟨s0, s'', ?_, hq⟩
        rw [hs]
        simp only [List.length_append]
        omega

/-- every group of the match is at most `m` characters long -/
def CapsBounded (m : Nat) (c : Caps) : Prop := ∀ id w, c.get id = some w → w.length ≤ m

theorem capsBounded_cons {m : Nat} {id : Nat} {w : Str} {c : Caps} (hw : w.length ≤ m) (hc : CapsBounded m c) :
    CapsBounded m ((id, w) :: c) := by
  intro id' w' h
  simp only [Caps.get] at h
  split at h
  · cases h; exact hw
  · exact hc id' w' h

theorem capsBounded_nil (m : Nat) : CapsBounded m [] := by
  intro id w h
  cases h

theorem lexFracTail_lengths {s n d r : Str} (h : lexFracTail s = some (n, d, r)) :
    n.length ≤ s.length ∧ d.length ≤ s.length := by
  obtain ⟨h2, h3, rfl, _⟩ := lexFracTail_some h
  simp only [List.length_append, List.length_cons]
  omega

theorem takeWhile_length_le (p : Char → Bool) (l : Str) : (l.takeWhile p).length ≤ l.length := by
  have := congrArg List.length (List.takeWhile_append_dropWhile (p := p) (l := l))
  simp only [List.length_append] at this
  omega

theorem lexCaps_bounded {s s' : Str} {c : Caps} (h : lexCaps s = some (s', c)) : CapsBounded s.length c := by
  cases s with
  | nil => cases h
  | cons ch rest =>
    have htw : ((ch :: rest).takeWhile isDigit).length ≤ (ch :: rest).length := takeWhile_length_le _ _
    cases hd : isDigit ch with
    | true =>
      simp only [lexCaps, hd, if_true] at h
      cases hm : lexMixed (ch :: rest) with
      | some t =>
        obtain ⟨i, n, d, r⟩ := t
        rw [hm] at h
        simp only [Option.some.injEq, Prod.mk.injEq] at h
        obtain ⟨_, rfl⟩ := h
        unfold lexMixed at hm
        cases hi : lexFracInt (ch :: rest) with
        | none => rw [hi] at hm; cases hm
        | some t =>
          obtain ⟨i', rr⟩ := t
          rw [hi] at hm
          simp only at hm
          cases ht : lexFracTail rr with
          | none => rw [ht] at hm; cases hm
          | some t =>
            obtain ⟨n', d', r'⟩ := t
            rw [ht] at hm
            simp only [Option.some.injEq, Prod.mk.injEq] at hm
            obtain ⟨rfl, rfl, rfl, rfl⟩ := hm
            obtain ⟨h1, hh1, hs, _⟩ := lexFracInt_some hi
            have hl := lexFracTail_lengths ht
            have hlen : (ch :: rest).length = i'.length + (h1.length + rr.length) := by
              conv => lhs; rw [hs]
              simp
            rw [← hh1]
            refine capsBounded_cons (by omega) (capsBounded_cons (by omega) (capsBounded_cons ?_
              (capsBounded_cons (by omega) (capsBounded_nil _))))
            simp only [List.length_append]
            omega
      | none =>
        rw [hm] at h
        simp only at h
        cases ht : lexFracTail (ch :: rest) with
        | some t =>
          obtain ⟨n, d, r⟩ := t
          rw [ht] at h
          simp only [Option.some.injEq, Prod.mk.injEq] at h
          obtain ⟨_, rfl⟩ := h
          have hl := lexFracTail_lengths ht
          exact capsBounded_cons hl.2 (capsBounded_cons hl.1 (capsBounded_nil _))
        | none =>
          rw [ht] at h
          simp only at h
          have hsplit : (ch :: rest).length =
              ((ch :: rest).takeWhile isDigit).length + ((ch :: rest).dropWhile isDigit).length := by
            have := congrArg List.length (List.takeWhile_append_dropWhile (p := isDigit) (l := ch :: rest))
            simp only [List.length_append] at this
            omega
          cases hdw : (ch :: rest).dropWhile isDigit with
          | nil =>
            rw [hdw] at h
            simp only [Option.some.injEq, Prod.mk.injEq] at h
            obtain ⟨_, rfl⟩ := h
            exact capsBounded_cons htw (capsBounded_nil _)
          | cons x r =>
            rw [hdw] at h hsplit
            have hr : (r.takeWhile isDigit).length ≤ r.length := takeWhile_length_le _ _
            simp only [List.length_cons] at hsplit
            simp only at h
            split at h
            · simp only [Option.some.injEq, Prod.mk.injEq] at h
              obtain ⟨_, rfl⟩ := h
              refine capsBounded_cons ?_ (capsBounded_cons ?_ (capsBounded_nil _))
              · simp only [List.length_append, List.length_cons]; omega
              · simp only [List.length_cons]; omega
            · simp only [Option.some.injEq, Prod.mk.injEq] at h
              obtain ⟨_, rfl⟩ := h
              exact capsBounded_cons htw (capsBounded_nil _)
    | false =>
      simp only [lexCaps, hd] at h
      by_cases hbs : ch = '\\'
      · subst hbs
        cases rest with
        | nil =>
          simp at h
          obtain ⟨_, rfl⟩ := h
          exact capsBounded_cons (by simp) (capsBounded_nil _)
        | cons e rest' =>
          by_cases he : e = '\n'
          · simp [he] at h
            obtain ⟨_, rfl⟩ := h
            exact capsBounded_cons (by simp) (capsBounded_nil _)
          · simp [he] at h
            obtain ⟨_, rfl⟩ := h
            exact capsBounded_cons (by simp) (capsBounded_nil _)
      · by_cases hb : ch = '{' ∨ ch = '}'
        · simp [hbs, hb] at h
        · simp [hbs, hb] at h
          obtain ⟨_, rfl⟩ := h
          exact capsBounded_cons (by simp) (capsBounded_nil _)

theorem capsIntTooLong_of_bounded {c : Caps} (h : CapsBounded intMaxStrDigits c) : capsIntTooLong c = false := by
  unfold capsIntTooLong
  cases hn : c.get gNumerator with
  | some numer =>
    simp only
    have h1 := h _ _ hn
    have h3 : decide (intMaxStrDigits < ((c.get gDenominator).getD []).length) = false := by
      cases hd : c.get gDenominator with
      | none => simp
      | some d => have := h _ _ hd; simp only [Option.getD_some, decide_eq_false_iff_not]; omega
    have h4 : decide (intMaxStrDigits < numer.length) = false := by
      simp only [decide_eq_false_iff_not]; omega
    rw [h3, h4]
    cases hi : c.get gInteger with
    | none => rfl
    | some ds =>
      have := h _ _ hi
      simp only [Bool.or_false, decide_eq_false_iff_not]
      omega
  | none =>
    simp only
    cases hd : c.get gDecimal with
    | none => rfl
    | some text =>
      have := h _ _ hd
      simp only [Bool.and_eq_false_iff, decide_eq_false_iff_not]
      right
      omega

/-- the `ValueError` of `int(text)` needs a source of more than 4300 characters -/
theorem matches_no_intTooLong (src : Str) (h : src.length ≤ intMaxStrDigits) :
    (Brace.matches src).any capsIntTooLong = false := by
  rw [List.any_eq_false]
  intro c hc
  obtain ⟨s0, s', hl, hp⟩ := matchesF_mem_len _ _ _ hc
  rw [partAt_eq_lexCaps] at hp
  have hb := lexCaps_bounded hp
  have : CapsBounded intMaxStrDigits c := fun id w hw => Nat.le_trans (hb id w hw) (Nat.le_trans hl h)
  simp [capsIntTooLong_of_bounded this]

end RG.Brace
