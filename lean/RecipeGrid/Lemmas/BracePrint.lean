import RecipeGrid.Lemmas.BraceRound
import RecipeGrid.Model.BracePrint
import RecipeGrid.Lemmas.Fmt
import RecipeGrid.Lemmas.Recipe
/-! Writing a scaled value string in the `{…}` syntax (`printBrace`) and reading it back. -/
namespace RG.Brace
open Re Parser

/-- numbers that the syntax can express: not negative; an `int` is whole; a `float` is a double -/
def NumOK (n : Num) : Prop :=
  0 ≤ n.val ∧ (n.kind = .int → n.val.den = 1) ∧
  (n.kind = .flt → toDouble n.val = n.val ∧ ∃ e, n.val.den = 2 ^ e)

/-- what may follow a written number -/
def NumFollow (n : Num) (rest : Str) : Prop :=
  match n.kind with
  | .int => IntFollow rest
  | _ => ∀ ch, rest.head? = some ch → isDigit ch = false

/-- every number is expressible and is followed by something that does not continue it -/
def Printable : SVS → Prop
  | [] => True
  | .text _ :: rest => Printable rest
  | .num n :: rest => NumOK n ∧ NumFollow n (printBrace rest) ∧ Printable rest

/-- the parts one character at a time: what `finditer` delivers before `ScaledValueString` merges text -/
def explode (s : SVS) : List Part :=
  s.flatMap fun p => match p with
    | .text t => t.map fun c => .text [c]
    | .num n => [.num n]

/-! ## text -/

theorem lexTok_printChar (c : Char) (rest : Str) : lexTok (printChar c ++ rest) = some (.text [c], rest) := by
  unfold printChar
  by_cases h : needsEscape c = true
  · have hnl : c ≠ '\n' := by
      intro hc; subst hc; revert h; decide
    simp [h, lexTok, hnl, show isDigit '\\' = false by decide]
  · simp only [Bool.not_eq_true] at h
    simp only [needsEscape, Bool.or_eq_false_iff, beq_eq_false_iff_ne, ne_eq] at h
    obtain ⟨⟨⟨h1, h2⟩, h3⟩, h4⟩ := h
    simp [needsEscape, h1, h2, h3, h4, lexTok]

theorem printChar_ne_nil (c : Char) : printChar c ≠ [] := by
  unfold printChar; split <;> simp

theorem lexTokensF_step {fuel : Nat} {s s' : Str} {p : Part} (h : lexTok s = some (p, s')) :
    lexTokensF (fuel + 1) s = p :: lexTokensF fuel s' := by
  cases s with
  | nil => simp [lexTok] at h
  | cons ch rest => simp [lexTokensF, h]

theorem length_printChar_pos (c : Char) : 0 < (printChar c).length := by
  unfold printChar; split <;> simp

theorem lexTokensF_printText : ∀ (t rest : Str) (fuel : Nat), (printText t ++ rest).length ≤ fuel →
    lexTokensF fuel (printText t ++ rest) = t.map (fun c => Part.text [c]) ++ lexTokensF (fuel - t.length) rest
  | [], rest, fuel, _ => by simp [printText]
  | c :: t, rest, fuel, hf => by
    have hpos := length_printChar_pos c
    simp only [printText, List.flatMap_cons, List.append_assoc, List.length_append] at hf ⊢
    cases fuel with
    | zero => omega
    | succ f =>
      rw [lexTokensF_step (lexTok_printChar c _)]
      have := lexTokensF_printText t rest f (by simp only [printText, List.length_append]; omega)
      simp only [printText] at this
      rw [this]
      simp only [List.map_cons, List.cons_append, List.length_cons]
      congr 3
      omega

/-! ## numbers -/

theorem natDigits_digits (n : Nat) : ∀ ch ∈ natDigits n, isDigit ch = true := natDigits_all_digit n

theorem digitsVal_cons (c : Char) (d : Str) : digitsVal (c :: d) = (c.toNat - 48) * 10 ^ d.length + digitsVal d := by
  have := digitsVal_append [c] d
  simpa [digitsVal] using this

/-- a digit run without a non-zero digit has the value zero -/
theorem digitsVal_of_no_nonZero : ∀ (d : Str), (∀ ch ∈ d, isDigit ch = true) → hasNonZero d = false →
    digitsVal d = 0
  | [], _, _ => rfl
  | c :: d, hd, h => by
    simp only [hasNonZero, List.any_cons, Bool.or_eq_false_iff] at h
    have hc := hd c (List.mem_cons_self ..)
    have : c.toNat = 48 := by
      have h1 := h.1
      simp only [isNonZeroDigit, isDigit, Bool.and_eq_true, Bool.and_eq_false_iff, decide_eq_true_eq,
        decide_eq_false_iff_not] at h1 hc
      omega
    rw [digitsVal_cons, this, digitsVal_of_no_nonZero d (fun ch hch => hd ch (List.mem_cons_of_mem _ hch)) h.2]
    simp

theorem hasNonZero_natDigits (n : Nat) (h : n ≠ 0) : hasNonZero (natDigits n) = true := by
  cases hz : hasNonZero (natDigits n) with
  | true => rfl
  | false =>
    have := digitsVal_of_no_nonZero _ (natDigits_digits n) hz
    rw [digitsVal_natDigits] at this
    exact absurd this h

theorem num_toNat_cast {q : Rat} (h : 0 ≤ q) : ((q.num.toNat : Nat) : Int) = q.num :=
  Int.toNat_of_nonneg (Rat.num_nonneg.2 h)

theorem fracValue_simple (q : Rat) (h : 0 ≤ q) :
    fracValue none (natDigits q.num.toNat) (natDigits q.den) = ⟨q, .frac⟩ := by
  unfold fracValue
  simp only [natOfDigits_natDigits]
  congr 1
  rw [num_toNat_cast h, Rat.mkRat_self]
  show (0 : Rat) + q = q
  exact Rat.zero_add q

theorem fracValue_mixed (q : Rat) (h : 0 ≤ q) :
    fracValue (some (natDigits (q.num.toNat / q.den))) (natDigits (q.num.toNat % q.den)) (natDigits q.den)
      = ⟨q, .frac⟩ := by
  unfold fracValue
  simp only [natOfDigits_natDigits]
  congr 1
  have hd : q.den ≠ 0 := q.den_nz
  rw [← Rat.intCast_natCast, ← Rat.mkRat_one, Rat.mkRat_add_mkRat _ _ (by decide) hd]
  have e : ((q.num.toNat / q.den : Nat) : Int) * (q.den : Int) + ((q.num.toNat % q.den : Nat) : Int) * ((1 : Nat) : Int)
      = q.num := by
    rw [← num_toNat_cast h]
    have := Nat.div_add_mod q.num.toNat q.den
    rw [Nat.mul_comm] at this
    simp only [Int.toNat_natCast]
    exact_mod_cast congrArg (fun x : Nat => (x : Int)) (by simpa using this)
  rw [e, Nat.one_mul, Rat.mkRat_self]

theorem intValue_natDigits (q : Rat) (h : 0 ≤ q) (hden : q.den = 1) : intValue (natDigits q.num.toNat) = ⟨q, .int⟩ := by
  unfold intValue
  rw [natOfDigits_natDigits]
  congr 1
  apply Rat.ext
  · rw [Rat.num_natCast, num_toNat_cast h]
  · rw [Rat.den_natCast, hden]


theorem padLeftZeros_digits (w : Nat) (s : Str) (h : ∀ ch ∈ s, isDigit ch = true) :
    ∀ ch ∈ padLeftZeros w s, isDigit ch = true := by
  intro ch hch
  simp only [padLeftZeros, List.mem_append, List.mem_replicate] at hch
  rcases hch with ⟨_, rfl⟩ | hch
  · decide
  · exact h ch hch

theorem floatPlaces_pos (q : Rat) : 0 < floatPlaces q := by
  unfold floatPlaces; omega

theorem den_dvd_pow (q : Rat) (h : ∃ e, q.den = 2 ^ e) : q.den ∣ 10 ^ floatPlaces q := by
  obtain ⟨e, he⟩ := h
  unfold floatPlaces
  rw [he, Nat.log2_two_pow]
  have : (10 : Nat) ^ max 1 e = 2 ^ max 1 e * 5 ^ max 1 e := by
    rw [← Nat.mul_pow]
  rw [this]
  exact Nat.dvd_trans (Nat.pow_dvd_pow 2 (by omega)) (Nat.dvd_mul_right _ _)

theorem floatValue_print (q : Rat) (h : 0 ≤ q) (hdbl : toDouble q = q) (hden : ∃ e, q.den = 2 ^ e) :
    floatValue (natDigits (q.num.toNat * 10 ^ floatPlaces q / q.den / 10 ^ floatPlaces q))
      (padLeftZeros (floatPlaces q) (natDigits (q.num.toNat * 10 ^ floatPlaces q / q.den % 10 ^ floatPlaces q)))
      = ⟨q, .flt⟩ := by
  have hpos := floatPlaces_pos q
  generalize hk : floatPlaces q = k at *
  generalize hsc : q.num.toNat * 10 ^ k / q.den = sc
  have hp10 : 0 < 10 ^ k := Nat.pow_pos (by decide)
  have hlen : (padLeftZeros k (natDigits (sc % 10 ^ k))).length = k :=
    padLeftZeros_length (natDigits_length_le hpos (Nat.mod_lt _ hp10))
  unfold floatValue
  rw [hlen, natOfDigits_eq, digitsVal_append, hlen, digitsVal_padLeftZeros, digitsVal_natDigits, digitsVal_natDigits,
    Nat.div_add_mod']
  congr 1
  rw [← hdbl]
  congr 1
  have hdvd : q.den ∣ q.num.toNat * 10 ^ k := by
    have := den_dvd_pow q hden
    rw [hk] at this
    exact Nat.dvd_trans this (Nat.dvd_mul_left _ _)
  have hmul : sc * q.den = q.num.toNat * 10 ^ k := by
    rw [← hsc]; exact Nat.div_mul_cancel hdvd
  conv => rhs; rw [← Rat.mkRat_self q]
  rw [Rat.mkRat_eq_iff (Nat.ne_of_gt hp10) q.den_nz, ← num_toNat_cast h]
  exact_mod_cast congrArg (fun x : Nat => (x : Int)) hmul

/-- the writer's spelling of a number is read back as that number -/
theorem lexNumber_printNum (n : Num) (rest : Str) (hn : NumOK n) (hf : NumFollow n rest) :
    lexNumber (printNum n ++ rest) = (n, rest) := by
  obtain ⟨hpos, hint, hflt⟩ := hn
  obtain ⟨q, kind⟩ := n
  unfold NumFollow at hf
  unfold printNum
  cases kind with
  | int =>
    simp only at hf hint ⊢
    rw [lexNumber_int _ rest (natDigits_ne_nil _) (natDigits_digits _) hf, intValue_natDigits q hpos (hint trivial)]
  | frac =>
    simp only at hf ⊢
    have hdnz : hasNonZero (natDigits q.den) = true := hasNonZero_natDigits _ q.den_nz
    unfold printFrac
    split
    · have e : (natDigits (q.num.toNat / q.den) ++ ' ' :: (natDigits (q.num.toNat % q.den) ++ '/' :: natDigits q.den)) ++ rest
          = natDigits (q.num.toNat / q.den) ++ ([' '] ++ (natDigits (q.num.toNat % q.den) ++
              ([] ++ '/' :: ([] ++ (natDigits q.den ++ rest))))) := by simp
      rw [e, lexNumber_mixed _ [' '] _ [] [] _ rest (natDigits_ne_nil _) (natDigits_digits _) (by simp)
        (by intro ch hch; simp at hch; subst hch; decide) (natDigits_ne_nil _) (natDigits_digits _) (by simp) (by simp)
        (natDigits_ne_nil _) (natDigits_digits _) hdnz hf, fracValue_mixed q hpos]
    · have e : (natDigits q.num.toNat ++ '/' :: natDigits q.den) ++ rest
          = natDigits q.num.toNat ++ ([] ++ '/' :: ([] ++ (natDigits q.den ++ rest))) := by simp
      rw [e, lexNumber_frac _ [] [] _ rest (natDigits_ne_nil _) (natDigits_digits _) (by simp) (by simp)
        (natDigits_ne_nil _) (natDigits_digits _) hdnz hf, fracValue_simple q hpos]
  | flt =>
    simp only at hf hflt ⊢
    unfold printFloat
    simp only [List.append_assoc, List.cons_append]
    rw [lexNumber_float _ _ rest (natDigits_ne_nil _) (natDigits_digits _)
      (padLeftZeros_digits _ _ (natDigits_digits _)) hf, floatValue_print q hpos (hflt trivial).1 (hflt trivial).2]

theorem printNum_head_digit (n : Num) (rest : Str) :
    ∃ ch s, printNum n ++ rest = ch :: s ∧ isDigit ch = true := by
  have key : ∀ (m : Nat) (tail : Str), ∃ ch s, natDigits m ++ tail = ch :: s ∧ isDigit ch = true := by
    intro m tail
    cases hm : natDigits m with
    | nil => exact absurd hm (natDigits_ne_nil m)
    | cons c cs => exact ⟨c, cs ++ tail, rfl, natDigits_digits m c (by rw [hm]; exact List.mem_cons_self ..)⟩
  unfold printNum
  cases n.kind with
  | int => exact key _ _
  | frac =>
    simp only
    unfold printFrac
    split <;> (simp only [List.append_assoc]; exact key _ _)
  | flt =>
    simp only
    unfold printFloat
    simp only [List.append_assoc]
    exact key _ _

theorem lexTok_printNum (n : Num) (rest : Str) (hn : NumOK n) (hf : NumFollow n rest) :
    lexTok (printNum n ++ rest) = some (.num n, rest) := by
  obtain ⟨ch, s, hs, hd⟩ := printNum_head_digit n rest
  have := lexNumber_printNum n rest hn hf
  rw [hs] at this ⊢
  simp [lexTok, hd, this]

/-! ## the whole string -/

theorem printNum_length_pos (n : Num) : 0 < (printNum n).length := by
  obtain ⟨ch, s, hs, _⟩ := printNum_head_digit n []
  have : (printNum n ++ []).length = (ch :: s).length := by rw [hs]
  simp at this
  omega

theorem lexTokensF_printBrace : ∀ (s : SVS) (fuel : Nat), Printable s → (printBrace s).length ≤ fuel →
    lexTokensF fuel (printBrace s) = explode s
  | [], fuel, _, _ => by
    cases fuel <;> rfl
  | .text t :: rest, fuel, hp, hf => by
    simp only [printBrace, List.flatMap_cons, printPart] at hf ⊢
    rw [lexTokensF_printText t _ fuel hf]
    simp only [explode, List.flatMap_cons]
    congr 1
    apply lexTokensF_printBrace rest _ hp
    have : t.length ≤ (printText t).length := by
      clear hf hp
      induction t with
      | nil => simp
      | cons c t ih =>
        have := length_printChar_pos c
        simp only [printText, List.flatMap_cons, List.length_append, List.length_cons] at ih ⊢
        omega
    simp only [List.length_append, printBrace] at hf ⊢
    omega
  | .num n :: rest, fuel, hp, hf => by
    obtain ⟨hok, hfol, hrest⟩ := hp
    simp only [printBrace, List.flatMap_cons, printPart] at hf ⊢
    have hpos := printNum_length_pos n
    cases fuel with
    | zero => simp only [List.length_append] at hf; omega
    | succ f =>
      show lexTokensF (f + 1) (printNum n ++ printBrace rest) = _
      rw [lexTokensF_step (lexTok_printNum n _ hok hfol)]
      simp only [explode, List.flatMap_cons, List.singleton_append]
      congr 1
      apply lexTokensF_printBrace rest f hrest
      simp only [List.length_append, printBrace] at hf ⊢
      omega

theorem lexTokens_printBrace (s : SVS) (h : Printable s) : lexTokens (printBrace s) = explode s :=
  lexTokensF_printBrace s _ h (Nat.le_refl _)


/-! ## `ScaledValueString` puts the characters back together -/

theorem merge_chars (tail : List Part) (htail : Svs.startsText (Svs.merge tail) = false) :
    ∀ (a : Str), a ≠ [] → Svs.merge (a.map (fun c => Part.text [c]) ++ tail) = .text a :: Svs.merge tail
  | [], h => absurd rfl h
  | [c], _ => by
    simp only [List.map_cons, List.map_nil, List.cons_append, List.nil_append, Svs.merge]
    cases hm : Svs.merge tail with
    | nil => rfl
    | cons p r =>
      cases p with
      | num n => rfl
      | text b => rw [hm] at htail; simp [Svs.startsText, Svs.isText] at htail
  | c :: c' :: a, _ => by
    have ih := merge_chars tail htail (c' :: a) (by simp)
    simp only [List.map_cons, List.cons_append] at ih ⊢
    simp only [Svs.merge] at ih ⊢
    rw [ih]
    rfl

theorem merge_explode : ∀ (s : SVS), Svs.Normal s → Svs.merge (explode s) = s
  | [], _ => rfl
  | .num n :: rest, h => by
    simp only [explode, List.flatMap_cons, List.singleton_append, Svs.merge]
    congr 1
    exact merge_explode rest h
  | .text a :: rest, h => by
    obtain ⟨h1, h2, h3⟩ := h
    have ih := merge_explode rest h3
    simp only [explode, List.flatMap_cons] at ih ⊢
    rw [merge_chars _ (by rw [ih]; exact h2) a h1, ih]

theorem normalise_explode (s : SVS) (h : Svs.Normal s) : Svs.normalise (explode s) = s := by
  rw [Svs.normalise_eq, merge_explode s h, Svs.filter_keep_of_normal s h]

/-- **reading back what was written** -/
theorem braceParts_printBrace (s : SVS) (hn : Svs.Normal s) (hp : Printable s) : braceParts (printBrace s) = s := by
  unfold braceParts
  rw [braceTokens_eq_lexTokens, lexTokens_printBrace s hp, normalise_explode s hn]

/-! ## where the written expression closes -/

theorem closeAt_printChar (c : Char) (tail r : Str) (h : closeAt tail = some r) : closeAt (printChar c ++ tail) = some r := by
  unfold printChar
  by_cases he : needsEscape c = true
  · have hnl : c ≠ '\n' := by
      intro hc; subst hc; revert he; decide
    simp only [he, if_true, List.cons_append, List.nil_append]
    rw [closeAt_backslash c tail hnl, h]
  · simp only [Bool.not_eq_true] at he
    rw [he]
    simp only [Bool.false_eq_true, if_false, List.cons_append, List.nil_append]
    simp only [needsEscape, Bool.or_eq_false_iff, beq_eq_false_iff_ne, ne_eq] at he
    obtain ⟨⟨⟨_, h2⟩, h3⟩, h4⟩ := he
    rw [closeAt_plain_cons c tail (by simp [isPlain, h2, h3, h4])]
    exact h

theorem closeAt_printText (tail r : Str) (h : closeAt tail = some r) : ∀ (t : Str), closeAt (printText t ++ tail) = some r
  | [] => h
  | c :: t => by
    simp only [printText, List.flatMap_cons, List.append_assoc]
    exact closeAt_printChar c _ r (closeAt_printText tail r h t)

theorem isPlain_of_digit {ch : Char} (h : isDigit ch = true) : isPlain ch = true := by
  simp only [isDigit, Bool.and_eq_true, decide_eq_true_eq] at h
  simp only [isPlain, Bool.and_eq_true, bne_iff_ne, ne_eq]
  refine ⟨⟨?_, ?_⟩, ?_⟩ <;> (intro hc; subst hc; revert h; decide)

theorem printNum_plain (n : Num) : ∀ ch ∈ printNum n, isPlain ch = true := by
  have hd : ∀ m, ∀ ch ∈ natDigits m, isPlain ch = true := fun m ch hch => isPlain_of_digit (natDigits_digits m ch hch)
  intro ch hch
  unfold printNum at hch
  cases hk : n.kind with
  | int => rw [hk] at hch; exact hd _ ch hch
  | frac =>
    rw [hk] at hch
    simp only [printFrac] at hch
    split at hch
    · simp only [List.mem_append, List.mem_cons] at hch
      rcases hch with h | rfl | h | rfl | h
      · exact hd _ _ h
      · decide
      · exact hd _ _ h
      · decide
      · exact hd _ _ h
    · simp only [List.mem_append, List.mem_cons] at hch
      rcases hch with h | rfl | h
      · exact hd _ _ h
      · decide
      · exact hd _ _ h
  | flt =>
    rw [hk] at hch
    simp only [printFloat, List.mem_append, List.mem_cons] at hch
    rcases hch with h | rfl | h
    · exact hd _ _ h
    · decide
    · exact isPlain_of_digit (padLeftZeros_digits _ _ (natDigits_digits _) ch h)

theorem closeAt_printBrace (rest : Str) : ∀ (s : SVS), closeAt (printBrace s ++ '}' :: rest) = some rest
  | [] => closeAt_close rest
  | .text t :: s => by
    simp only [printBrace, List.flatMap_cons, printPart, List.append_assoc]
    exact closeAt_printText _ _ (closeAt_printBrace rest s) t
  | .num n :: s => by
    simp only [printBrace, List.flatMap_cons, printPart, List.append_assoc]
    rw [closeAt_plain_append _ _ (printNum_plain n)]
    exact closeAt_printBrace rest s

end RG.Brace

namespace RG
open Brace

/-- **the written expression is matched as a whole** -/
theorem braceMatch_printBrace (s : SVS) (rest : Str) :
    braceMatch ('{' :: (printBrace s ++ '}' :: rest)) = some (printBrace s, rest) := by
  rw [braceMatch_eq_closeAt, closeAt_printBrace rest s]
  simp

end RG
