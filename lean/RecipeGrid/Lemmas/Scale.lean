import RecipeGrid.Lemmas.Lint
import RecipeGrid.Lemmas.Compiler
/-! Helper lemmas for `Props/C03b.lean`: scaling the numbers of a description (on the parser AST) and compiling
    gives the scaled compiled recipe.  Nothing here is a specification. -/
namespace RG

-- ================================================================ scaling the AST
def scaleSubStr (k : Num) : SubStr → SubStr
  | .sub o s => .sub o s
  | .num o n => .num o (n.mul k)

/-- the numbers of `{…}` expressions in a string are multiplied -/
def scaleAString (k : Num) (s : AString) : AString := s.map (scaleSubStr k)

/-- a quantity is multiplied (its unit is left alone); proportions, percentages and remainders are left alone -/
def scaleAAmount (k : Num) : AAmount → AAmount
  | .qty o v u sp p => .qty o (v.mul k) u sp p
  | a => a

mutual
def scaleAExpr (k : Num) : AExpr → AExpr
  | .step name inputs => .step (scaleAString k name) (scaleAExprs k inputs)
  | .ref name amount => .ref (scaleAString k name) (amount.map (scaleAAmount k))
def scaleAExprs (k : Num) : List AExpr → List AExpr
  | [] => []
  | e :: es => scaleAExpr k e :: scaleAExprs k es
end

def scaleAStmt (k : Num) (s : AStmt) : AStmt :=
  { expr := scaleAExpr k s.expr, outputs := s.outputs.map (·.map (scaleAString k)), named := s.named }

/-- `scaleAst k`: every literal quantity and every number of a `{…}` expression multiplied by `k` -/
def scaleAst (k : Num) (asts : List (List AStmt)) : List (List AStmt) := asts.map (·.map (scaleAStmt k))

-- ================================================================ strings
namespace Svs

theorem merge_map_scalePart (k : Num) : ∀ a : List Part,
    merge (a.map (scalePart k)) = (merge a).map (scalePart k)
  | [] => rfl
  | .num n :: rest => by simp [merge, scalePart, merge_map_scalePart k rest]
  | .text x :: rest => by
    have ih := merge_map_scalePart k rest
    simp only [List.map_cons, scalePart, merge, ih]
    cases hm : merge rest with
    | nil => rfl
    | cons p r => cases p <;> rfl

theorem keep_scalePart (k : Num) (p : Part) : keep (scalePart k p) = keep p := by
  cases p with
  | text t => cases t <;> rfl
  | num n => rfl

theorem normalise_map_scalePart (k : Num) (a : List Part) :
    normalise (a.map (scalePart k)) = (normalise a).map (scalePart k) := by
  rw [normalise_eq, normalise_eq, merge_map_scalePart, List.filter_map]
  congr 1
  apply List.filter_congr
  intro p _
  exact keep_scalePart k p

/-- scaling a constructor-made string is just the map -/
theorem scale_normalise (k : Num) (a : List Part) : scale k (normalise a) = normalise (a.map (scalePart k)) := by
  rw [scale_of_normal k _ (normalise_normal' a), normalise_map_scalePart]

theorem mapLast_map (f g : Part → Part) (h : ∀ p, f (g p) = g (f p)) : ∀ a : List Part,
    mapLast f (a.map g) = (mapLast f a).map g
  | [] => rfl
  | [p] => by simp [mapLast, h]
  | p :: q :: r => by
    have := mapLast_map f g h (q :: r)
    simp only [mapLast, List.map_cons] at this ⊢
    rw [this]

theorem lstrip_scale (k : Num) (s : SVS) (hs : Normal s) : lstrip (scale k s) = scale k (lstrip s) := by
  rw [scale_of_normal k s hs]
  unfold lstrip
  rw [scale_normalise]
  congr 1
  cases s with
  | nil => rfl
  | cons p r => cases p <;> rfl

theorem rstrip_scale (k : Num) (s : SVS) (hs : Normal s) : rstrip (scale k s) = scale k (rstrip s) := by
  rw [scale_of_normal k s hs]
  unfold rstrip
  rw [scale_normalise, mapLast_map]
  intro p; cases p <;> rfl

theorem lower_scale (k : Num) (s : SVS) (hs : Normal s) : lower (scale k s) = scale k (lower s) := by
  rw [scale_of_normal k s hs]
  unfold lower
  rw [scale_normalise, List.map_map, List.map_map]
  congr 1
  apply List.map_congr_left
  intro p _; cases p <;> rfl

theorem lstrip_normal (s : SVS) : Normal (lstrip s) := normalise_normal' _
theorem rstrip_normal (s : SVS) : Normal (rstrip s) := normalise_normal' _
theorem lower_normal (s : SVS) : Normal (lower s) := normalise_normal' _

end Svs

theorem normaliseName_scale (k : Num) (s : SVS) (hs : Svs.Normal s) :
    normaliseName (Svs.scale k s) = Svs.scale k (normaliseName s) := by
  unfold normaliseName Svs.strip
  rw [Svs.lstrip_scale k s hs, Svs.rstrip_scale k _ (Svs.lstrip_normal s), Svs.lower_scale k _ (Svs.rstrip_normal _)]

theorem normaliseName_normal (s : SVS) : Svs.Normal (normaliseName s) := Svs.lower_normal _

def subStrPart : SubStr → Part
  | .sub _ t => .text t
  | .num _ n => .num n

theorem compileString_eq (s : AString) : compileString s = Svs.normalise (s.map subStrPart) := by
  unfold compileString
  congr 1

theorem compileString_normal (s : AString) : Svs.Normal (compileString s) := Svs.normalise_normal' _

theorem compileString_scale (k : Num) (s : AString) :
    compileString (scaleAString k s) = Svs.scale k (compileString s) := by
  rw [compileString_eq, compileString_eq, Svs.scale_normalise, scaleAString, List.map_map, List.map_map]
  congr 1
  apply List.map_congr_left
  intro p _; cases p <;> rfl

theorem AString.offset_scale (k : Num) (s : AString) : AString.offset (scaleAString k s) = AString.offset s := by
  cases s with
  | nil => rfl
  | cons p r => cases p <;> rfl


-- ================================================================ relating two runs in `Except`
/-- both fail with the same error, or both succeed with related values -/
def ExRel {ε α β : Type} (R : α → β → Prop) : Except ε α → Except ε β → Prop
  | .ok a, .ok b => R a b
  | .error e, .error e' => e = e'
  | _, _ => False

theorem ExRel.bind {ε α β α' β' : Type} {R : α → β → Prop} {S : α' → β' → Prop}
    {x : Except ε α} {y : Except ε β} {f : α → Except ε α'} {g : β → Except ε β'}
    (h : ExRel R x y) (hf : ∀ a b, R a b → ExRel S (f a) (g b)) : ExRel S (x >>= f) (y >>= g) := by
  cases x with
  | error e =>
    cases y with
    | error e' => exact h
    | ok b => exact h.elim
  | ok a =>
    cases y with
    | error e' => exact h.elim
    | ok b => exact hf a b h

theorem ExRel.mono {ε α β : Type} {R S : α → β → Prop} {x : Except ε α} {y : Except ε β}
    (h : ExRel R x y) (hRS : ∀ a b, R a b → S a b) : ExRel S x y := by
  cases x <;> cases y <;> first | exact hRS _ _ h | exact h

-- ================================================================ good trees whose quantities come from a pool
/-- an exact quantity of the pool `P` -/
def QOk (P : Quantity → Prop) (q : Quantity) : Prop := q.value.kind ≠ .flt ∧ P q

mutual
/-- `Tree.Good`, and every quantity (of an ingredient or of a reference) is in the pool -/
def Tree.GoodP (P : Quantity → Prop) : Tree → Prop
  | .ingredient d q => SvsGood d ∧ ∀ x, q = some x → QOk P x
  | .step d i => SvsGood d ∧ Tree.GoodPList P i
  | .reference s _ a => Tree.GoodP P s ∧ ∀ x, a = .quantity x → QOk P x
  | .sub b ns _ => Tree.GoodP P b ∧ ∀ n ∈ ns, SvsGood n
def Tree.GoodPList (P : Quantity → Prop) : List Tree → Prop
  | [] => True
  | t :: ts => Tree.GoodP P t ∧ Tree.GoodPList P ts
end

mutual
theorem Tree.GoodP.good {P : Quantity → Prop} : ∀ t : Tree, t.GoodP P → t.Good
  | .ingredient d q, h => ⟨h.1, fun x hx => (h.2 x hx).1⟩
  | .step d i, h => ⟨h.1, Tree.GoodPList.good i h.2⟩
  | .reference s n a, h => by
    refine ⟨Tree.GoodP.good s h.1, ?_⟩
    cases a with
    | quantity q => exact (h.2 q rfl).1
    | proportion v p w pr => trivial
  | .sub b ns sh, h => ⟨Tree.GoodP.good b h.1, h.2⟩
theorem Tree.GoodPList.good {P : Quantity → Prop} : ∀ ts : List Tree, Tree.GoodPList P ts → Tree.GoodList ts
  | [], _ => trivial
  | t :: ts, h => ⟨Tree.GoodP.good t h.1, Tree.GoodPList.good ts h.2⟩
end

theorem Tree.goodPList_iff {P : Quantity → Prop} : ∀ ts : List Tree, Tree.GoodPList P ts ↔ ∀ t ∈ ts, Tree.GoodP P t
  | [] => by simp [Tree.GoodPList]
  | t :: ts => by simp [Tree.GoodPList, Tree.goodPList_iff ts]

-- ---------------------------------------------------------------- numbers of strings made by the constructor
namespace Svs
def numOf : Part → Option Num
  | .num n => some n
  | .text _ => none

theorem num_mem_iff (n : Num) (ps : List Part) : Part.num n ∈ ps ↔ n ∈ ps.filterMap numOf := by
  simp only [List.mem_filterMap]
  constructor
  · intro h; exact ⟨_, h, rfl⟩
  · rintro ⟨p, hp, hn⟩
    cases p with
    | text t => cases hn
    | num m => cases hn; exact hp

theorem num_mem_normalise {n : Num} {ps : List Part} (h : Part.num n ∈ normalise ps) : Part.num n ∈ ps := by
  rw [num_mem_iff] at h ⊢
  rwa [filterMap_normalise numOf (fun _ => rfl)] at h

theorem num_mem_mapLast {f : Part → Part} (hf : ∀ p, numOf (f p) = numOf p) {n : Num} :
    ∀ {ps : List Part}, Part.num n ∈ mapLast f ps → Part.num n ∈ ps
  | [], h => h
  | [p], h => by
    simp only [mapLast, List.mem_singleton] at h ⊢
    have := hf p
    rw [← h] at this
    cases p with
    | text t => cases this
    | num m => cases this; rfl
  | p :: q :: r, h => by
    simp only [mapLast, List.mem_cons] at h
    rcases h with h | h
    · exact h ▸ List.mem_cons_self
    · exact List.mem_cons_of_mem _ (num_mem_mapLast hf (ps := q :: r) (by simpa [mapLast] using h))
end Svs

theorem svsGood_normalise {ps : List Part} (h : ∀ p ∈ ps, Part.Exact p) : SvsGood (Svs.normalise ps) := by
  refine ⟨Svs.normalise_normal' ps, ?_⟩
  intro p hp
  cases p with
  | text t => trivial
  | num n => exact h _ (Svs.num_mem_normalise hp)

theorem svsGood_normaliseName {s : SVS} (h : SvsGood s) : SvsGood (normaliseName s) := by
  refine ⟨normaliseName_normal s, ?_⟩
  intro p hp
  cases p with
  | text t => trivial
  | num n =>
    apply h.2
    unfold normaliseName Svs.lower Svs.strip Svs.rstrip Svs.lstrip at hp
    have h1 := Svs.num_mem_normalise hp
    obtain ⟨p1, hp1, he1⟩ := List.mem_map.1 h1
    have : p1 = .num n := by cases p1 <;> simp_all
    subst this
    have h2 := Svs.num_mem_mapLast (f := fun p => match p with | .text t => .text (rstripStr t) | p => p)
      (by intro p; cases p <;> rfl) (Svs.num_mem_normalise hp1)
    have h3 := Svs.num_mem_normalise h2
    cases s with
    | nil => exact h3
    | cons a r =>
      cases a with
      | num m => exact h3
      | text t =>
        simp only [List.mem_cons, reduceCtorEq, false_or] at h3
        exact List.mem_cons_of_mem _ h3

def AString.Exact (s : AString) : Prop := ∀ o n, SubStr.num o n ∈ s → n.kind ≠ .flt

theorem svsGood_compileString {s : AString} (h : AString.Exact s) : SvsGood (compileString s) := by
  rw [compileString_eq]
  apply svsGood_normalise
  intro p hp
  obtain ⟨a, ha, rfl⟩ := List.mem_map.1 hp
  cases a with
  | sub o t => trivial
  | num o n => exact h o n ha

theorem Num.mul_kind_exact {n k : Num} (hn : n.kind ≠ .flt) (hk : k.kind ≠ .flt) : (n.mul k).kind ≠ .flt := by
  rw [Num.mul_kind]
  revert hn hk
  cases n.kind <;> cases k.kind <;> simp

theorem svsGood_scale {k : Num} (hk : k.kind ≠ .flt) {s : SVS} (h : SvsGood s) : SvsGood (Svs.scale k s) := by
  refine ⟨Svs.scale_normal k s, ?_⟩
  rw [Svs.scale_of_normal k s h.1]
  intro p hp
  obtain ⟨a, ha, rfl⟩ := List.mem_map.1 hp
  cases a with
  | text t => trivial
  | num n =>
    have hn : n.kind ≠ .flt := h.2 _ ha
    show (n.mul k).kind ≠ .flt
    exact Num.mul_kind_exact hn hk


-- ================================================================ the table of named outputs
def scaleOut (k : Num) (o : NamedOutput) : NamedOutput :=
  { key := Svs.scale k o.key, name := Svs.scale k o.name, defBlock := o.defBlock, sub := o.sub.scale k,
    idx := o.idx, refs := o.refs.map (fun r => (r.1.scale k, r.2)), unwrap := o.unwrap }

def scaleSt (k : Num) (st : CState) : CState := { outputs := st.outputs.map (scaleOut k) }

def OutGood (P : Quantity → Prop) (o : NamedOutput) : Prop :=
  SvsGood o.key ∧ o.sub.GoodP P ∧ ∀ r ∈ o.refs, r.1.GoodP P

def OutsGood (P : Quantity → Prop) (outs : List NamedOutput) : Prop := ∀ o ∈ outs, OutGood P o

def StGood (P : Quantity → Prop) (st : CState) : Prop := OutsGood P st.outputs

theorem List.find?_congr'' {α : Type} {p q : α → Bool} : ∀ {l : List α}, (∀ a ∈ l, p a = q a) → l.find? p = l.find? q
  | [], _ => rfl
  | a :: l, h => by
    simp only [List.find?_cons, h a List.mem_cons_self]
    rw [List.find?_congr'' (l := l) (fun x hx => h x (List.mem_cons_of_mem _ hx))]

theorem find?_scaleSt {k : Num} (hk : k.kind ≠ .flt) (hk0 : k.val ≠ 0) {P : Quantity → Prop} {st : CState}
    (hst : StGood P st) {key : SVS} (hkey : SvsGood key) :
    (scaleSt k st).find? (Svs.scale k key) = (st.find? key).map (scaleOut k) := by
  unfold CState.find? scaleSt
  simp only [List.find?_map]
  congr 1
  apply List.find?_congr''
  intro o ho
  exact Svs.beq_scale hk hk0 (hst o ho).1 hkey

-- ================================================================ amounts
def AAmount.Ok (P : Quantity → Prop) : AAmount → Prop
  | .qty _ v u sp p => QOk P (compileQuantity v u sp p)
  | _ => True

theorem compileQuantity_scale (k v : Num) (u : Option AString) (sp p : Str) :
    compileQuantity (v.mul k) u sp p = (compileQuantity v u sp p).scale k := rfl

theorem compileAmount_scale (k : Num) (a : Option AAmount) :
    compileAmount (a.map (scaleAAmount k)) = (compileAmount a).scale k := by
  cases a with
  | none => rfl
  | some a => cases a <;> rfl

theorem compileAmount_ok {P : Quantity → Prop} {a : Option AAmount} (h : ∀ x, a = some x → x.Ok P) :
    ∀ q, compileAmount a = .quantity q → QOk P q := by
  intro q hq
  cases a with
  | none => cases hq
  | some a =>
    cases a with
    | qty o v u sp p =>
      have := h _ rfl
      simp only [compileAmount, Amount.quantity.injEq] at hq
      exact hq ▸ this
    | prop o v pc w p => cases hq

-- ================================================================ expressions
mutual
def AExpr.Ok (P : Quantity → Prop) : AExpr → Prop
  | .step name inputs => AString.Exact name ∧ AExpr.OkList P inputs
  | .ref name amount => AString.Exact name ∧ ∀ a, amount = some a → a.Ok P
def AExpr.OkList (P : Quantity → Prop) : List AExpr → Prop
  | [] => True
  | e :: es => AExpr.Ok P e ∧ AExpr.OkList P es
end

/-- the scaled run returns the scaled tree and the scaled table; the plain run's results are good -/
def RelT (k : Num) (P : Quantity → Prop) (p' p : Tree × CState) : Prop :=
  p'.1 = p.1.scale k ∧ p'.2 = scaleSt k p.2 ∧ p.1.GoodP P ∧ StGood P p.2

def RelTs (k : Num) (P : Quantity → Prop) (p' p : List Tree × CState) : Prop :=
  p'.1 = Tree.scaleList k p.1 ∧ p'.2 = scaleSt k p.2 ∧ Tree.GoodPList P p.1 ∧ StGood P p.2

theorem leaf_scale {k : Num} (hk : k.kind ≠ .flt) (hk0 : k.val ≠ 0) {P : Quantity → Prop} (block : Nat)
    (name : AString) (amount : Option AAmount) (st : CState) (hst : StGood P st)
    (he : AExpr.Ok P (.ref name amount)) :
    ExRel (RelT k P) (compileExpr block (scaleSt k st) (scaleAExpr k (.ref name amount)))
      (compileExpr block st (.ref name amount)) := by
  simp only [AExpr.Ok] at he
  obtain ⟨hname, ham⟩ := he
  have hn := svsGood_compileString hname
  have hkey := svsGood_normaliseName hn
  have hf := find?_scaleSt hk hk0 hst hkey (k := k)
  simp only [scaleAExpr, compileExpr, compileString_scale, normaliseName_scale k _ hn.1, hf]
  cases ho : st.find? (normaliseName (compileString name)) with
  | none =>
    simp only [Option.map_none]
    cases amount with
    | none => exact ⟨rfl, rfl, ⟨hn, fun x hx => by cases hx⟩, hst⟩
    | some am =>
      cases am with
      | qty o v u sp p =>
        refine ⟨rfl, rfl, ⟨hn, fun x hx => ?_⟩, hst⟩
        cases hx
        exact ham _ rfl
      | prop off v pc w p => exact rfl
  | some out =>
    have hout : out ∈ st.outputs := List.mem_of_find?_eq_some ho
    have hog := hst out hout
    have hr : (Tree.reference out.sub out.idx (compileAmount amount)).GoodP P :=
      ⟨hog.2.1, compileAmount_ok ham⟩
    simp only [Option.map_some, compileAmount_scale]
    refine ⟨rfl, ?_, hr, ?_⟩
    · simp only [scaleSt, List.map_map, CState.mk.injEq]
      apply List.map_congr_left
      intro o ho'
      have hb : ((scaleOut k o).key == Svs.scale k (normaliseName (compileString name)))
          = (o.key == normaliseName (compileString name)) := Svs.beq_scale hk hk0 (hst o ho').1 hkey
      simp only [Function.comp_def, hb]
      split <;> simp [scaleOut, Tree.scale]
    · intro o ho'
      simp only [List.mem_map] at ho'
      obtain ⟨o', ho'', rfl⟩ := ho'
      have hg := hst o' ho''
      split
      · refine ⟨hg.1, hg.2.1, ?_⟩
        intro r hr'
        simp only [List.mem_append, List.mem_singleton] at hr'
        rcases hr' with hr' | hr'
        · exact hg.2.2 r hr'
        · subst hr'; exact hr
      · exact hg

mutual
theorem compileExpr_scale {k : Num} (hk : k.kind ≠ .flt) (hk0 : k.val ≠ 0) {P : Quantity → Prop} (block : Nat) :
    ∀ (e : AExpr) (st : CState), StGood P st → AExpr.Ok P e →
      ExRel (RelT k P) (compileExpr block (scaleSt k st) (scaleAExpr k e)) (compileExpr block st e)
  | .ref name amount, st, hst, he => leaf_scale hk hk0 block name amount st hst he
  | .step name inputs, st, hst, he => by
    simp only [AExpr.Ok] at he
    rw [scaleAExpr, compileExpr, compileExpr]
    refine ExRel.bind (compileExprs_scale hk hk0 block inputs st hst he.2) ?_
    rintro ⟨ts', st'⟩ ⟨ts, st1⟩ ⟨h1, h2, h3, h4⟩
    simp only at h1 h2
    subst h1 h2
    exact ⟨by simp [Tree.scale, compileString_scale], rfl, ⟨svsGood_compileString he.1, h3⟩, h4⟩
theorem compileExprs_scale {k : Num} (hk : k.kind ≠ .flt) (hk0 : k.val ≠ 0) {P : Quantity → Prop} (block : Nat) :
    ∀ (es : List AExpr) (st : CState), StGood P st → AExpr.OkList P es →
      ExRel (RelTs k P) (compileExprs block (scaleSt k st) (scaleAExprs k es)) (compileExprs block st es)
  | [], st, hst, _ => by
    rw [scaleAExprs, compileExprs, compileExprs]
    exact ⟨rfl, rfl, trivial, hst⟩
  | e :: es, st, hst, he => by
    simp only [AExpr.OkList] at he
    rw [scaleAExprs, compileExprs, compileExprs]
    refine ExRel.bind (compileExpr_scale hk hk0 block e st hst he.1) ?_
    rintro ⟨t', st'⟩ ⟨t, st1⟩ ⟨h1, h2, h3, h4⟩
    simp only at h1 h2
    subst h1 h2
    refine ExRel.bind (compileExprs_scale hk hk0 block es st1 h4 he.2) ?_
    rintro ⟨ts', st''⟩ ⟨ts, st2⟩ ⟨h5, h6, h7, h8⟩
    simp only at h5 h6
    subst h5 h6
    exact ⟨rfl, rfl, ⟨h3, h7⟩, h8⟩
end


-- ================================================================ statements
theorem inferOutputName_scale (k : Num) : ∀ t : Tree,
    inferOutputName (Tree.scale k t) = (inferOutputName t).map (Svs.scale k)
  | .ingredient d q => by simp [Tree.scale, inferOutputName]
  | .step d [] => by simp [Tree.scale, Tree.scaleList, inferOutputName]
  | .step d [i] => by
    simp only [Tree.scale, Tree.scaleList, inferOutputName]
    exact inferOutputName_scale k i
  | .step d (_ :: _ :: _) => by simp [Tree.scale, Tree.scaleList, inferOutputName]
  | .reference s n a => by simp [Tree.scale, inferOutputName]
  | .sub b ns sh => by simp [Tree.scale, inferOutputName]

theorem inferOutputName_good {P : Quantity → Prop} : ∀ (t : Tree) (n : SVS), t.GoodP P → inferOutputName t = some n →
    SvsGood n
  | .ingredient d q, n, h, hn => by
    simp only [inferOutputName, Option.some.injEq] at hn
    exact hn ▸ h.1
  | .step d [], n, _, hn => by simp [inferOutputName] at hn
  | .step d [i], n, h, hn => by
    simp only [inferOutputName] at hn
    simp only [Tree.GoodP, Tree.GoodPList] at h
    exact inferOutputName_good i n h.2.1 hn
  | .step d (_ :: _ :: _), n, _, hn => by simp [inferOutputName] at hn
  | .reference s m a, n, _, hn => by simp [inferOutputName] at hn
  | .sub b ns sh, n, _, hn => by simp [inferOutputName] at hn

theorem outsGood_append {P : Quantity → Prop} {outs : List NamedOutput} {o : NamedOutput}
    (h : OutsGood P outs) (ho : OutGood P o) : OutsGood P (outs ++ [o]) := by
  intro x hx
  simp only [List.mem_append, List.mem_singleton] at hx
  rcases hx with hx | hx
  · exact h x hx
  · exact hx ▸ ho

theorem registerOutputs_scale {k : Num} (hk : k.kind ≠ .flt) (hk0 : k.val ≠ 0) {P : Quantity → Prop}
    (block : Nat) (sub : Tree) (unwrap : Bool) (asts : Option (List AString)) (hsub : sub.GoodP P) :
    ∀ (ns : List SVS) (st : CState) (i : Nat), StGood P st → (∀ n ∈ ns, SvsGood n) →
      ExRel (fun st' st2 => st' = scaleSt k st2 ∧ StGood P st2)
        (registerOutputs block (sub.scale k) unwrap (asts.map (·.map (scaleAString k))) (scaleSt k st) i
          (ns.map (Svs.scale k)))
        (registerOutputs block sub unwrap asts st i ns)
  | [], st, i, hst, _ => by
    simp only [List.map_nil, registerOutputs]
    exact ⟨rfl, hst⟩
  | n :: ns, st, i, hst, hns => by
    have hn := hns n List.mem_cons_self
    have hkey := svsGood_normaliseName hn
    have hf := find?_scaleSt hk hk0 hst hkey (k := k)
    simp only [List.map_cons, registerOutputs, normaliseName_scale k n hn.1, hf, Option.isSome_map]
    cases hfs : (st.find? (normaliseName n)).isSome with
    | true =>
      simp only [if_true]
      cases asts with
      | none => exact rfl
      | some l =>
        simp only [Option.map_some, List.getElem?_map]
        cases l[i]? with
        | none => exact rfl
        | some a =>
          simp only [Option.map_some, AString.offset_scale]
          exact rfl
    | false =>
      simp only [Bool.false_eq_true, if_false]
      have hst' : StGood P ⟨st.outputs ++ [⟨normaliseName n, n, block, sub, i, [], unwrap⟩]⟩ :=
        outsGood_append hst ⟨hkey, hsub, by simp⟩
      have := registerOutputs_scale hk hk0 block sub unwrap asts hsub ns _ (i + 1) hst'
        (fun m hm => hns m (List.mem_cons_of_mem _ hm))
      simpa [scaleSt, scaleOut] using this

def AStmt.Ok (P : Quantity → Prop) (s : AStmt) : Prop :=
  s.expr.Ok P ∧ ∀ l, s.outputs = some l → ∀ n ∈ l, AString.Exact n

theorem nameStmt_scale {k : Num} (hk : k.kind ≠ .flt) (hk0 : k.val ≠ 0) {P : Quantity → Prop} (block : Nat)
    (s : AStmt) (hs : AStmt.Ok P s) (tree : Tree) (st : CState) (ht : tree.GoodP P) (hst : StGood P st) :
    ExRel (RelT k P) (nameStmt block (scaleAStmt k s) (tree.scale k) (scaleSt k st)) (nameStmt block s tree st) := by
  obtain ⟨_, hout⟩ := hs
  unfold nameStmt
  have hinf : ExRel (RelT k P)
      (match inferOutputName (tree.scale k) with
        | some n =>
          (registerOutputs block (.sub (tree.scale k) [n] false) (!s.named) (s.outputs.map (·.map (scaleAString k)))
            (scaleSt k st) 0 [n]) >>= fun st2 => .ok (.sub (tree.scale k) [n] false, st2)
        | none => .ok (tree.scale k, scaleSt k st))
      (match inferOutputName tree with
        | some n =>
          (registerOutputs block (.sub tree [n] false) (!s.named) s.outputs st 0 [n]) >>= fun st2 =>
            .ok (.sub tree [n] false, st2)
        | none => .ok (tree, st)) := by
    rw [inferOutputName_scale]
    cases hi : inferOutputName tree with
    | none => exact ⟨rfl, rfl, ht, hst⟩
    | some n =>
      have hn := inferOutputName_good tree n ht hi
      have hsub : (Tree.sub tree [n] false).GoodP P := ⟨ht, by simpa using hn⟩
      simp only [Option.map_some]
      have := registerOutputs_scale hk hk0 block (.sub tree [n] false) (!s.named) s.outputs hsub [n] st 0 hst
        (by simpa using hn)
      refine ExRel.bind this ?_
      rintro st' st2 ⟨h1, h2⟩
      subst h1
      exact ⟨by simp [Tree.scale], rfl, hsub, h2⟩
  cases ho : s.outputs with
  | none =>
    simp only [scaleAStmt, ho, Option.map_none]
    rw [ho] at hinf
    exact hinf
  | some l =>
    cases l with
    | nil =>
      simp only [scaleAStmt, ho, Option.map_some, List.map_nil]
      rw [ho] at hinf
      exact hinf
    | cons o os =>
      have hnames : ∀ n ∈ (o :: os).map compileString, SvsGood n := by
        intro n hn
        obtain ⟨a, ha, rfl⟩ := List.mem_map.1 hn
        exact svsGood_compileString (hout _ ho a ha)
      have hsub : (Tree.sub tree ((o :: os).map compileString) true).GoodP P := ⟨ht, hnames⟩
      have hmap : ((o :: os).map (scaleAString k)).map compileString
          = ((o :: os).map compileString).map (Svs.scale k) := by
        simp only [List.map_map]
        apply List.map_congr_left
        intro a _
        exact compileString_scale k a
      have := registerOutputs_scale hk hk0 block _ (!s.named) (some (o :: os)) hsub _ st 0 hst hnames
      simp only [scaleAStmt, ho, Option.map_some]
      have e1 : (List.map (scaleAString k) (o :: os)) = scaleAString k o :: List.map (scaleAString k) os := rfl
      simp only [e1] at hmap ⊢
      rw [hmap]
      refine ExRel.bind this ?_
      rintro st' st2 ⟨h1, h2⟩
      subst h1
      exact ⟨by simp [Tree.scale], rfl, hsub, h2⟩

theorem compileStmt_scale {k : Num} (hk : k.kind ≠ .flt) (hk0 : k.val ≠ 0) {P : Quantity → Prop} (block : Nat)
    (s : AStmt) (hs : AStmt.Ok P s) (st : CState) (hst : StGood P st) :
    ExRel (RelT k P) (compileStmt block (scaleSt k st) (scaleAStmt k s)) (compileStmt block st s) := by
  rw [compileStmt_eq, compileStmt_eq]
  refine ExRel.bind (compileExpr_scale hk hk0 block s.expr st hst hs.1) ?_
  rintro ⟨t', st'⟩ ⟨t, st1⟩ ⟨h1, h2, h3, h4⟩
  simp only at h1 h2
  subst h1 h2
  exact nameStmt_scale hk hk0 block s hs t st1 h3 h4

theorem compileStmts_scale {k : Num} (hk : k.kind ≠ .flt) (hk0 : k.val ≠ 0) {P : Quantity → Prop} (block : Nat) :
    ∀ (ss : List AStmt) (st : CState), StGood P st → (∀ s ∈ ss, AStmt.Ok P s) →
      ExRel (RelTs k P) (compileStmts block (scaleSt k st) (ss.map (scaleAStmt k))) (compileStmts block st ss)
  | [], st, hst, _ => ⟨rfl, rfl, trivial, hst⟩
  | s :: ss, st, hst, hss => by
    simp only [List.map_cons, compileStmts]
    refine ExRel.bind (compileStmt_scale hk hk0 block s (hss s List.mem_cons_self) st hst) ?_
    rintro ⟨t', st'⟩ ⟨t, st1⟩ ⟨h1, h2, h3, h4⟩
    simp only at h1 h2
    subst h1 h2
    refine ExRel.bind (compileStmts_scale hk hk0 block ss st1 h4 (fun x hx => hss x (List.mem_cons_of_mem _ hx))) ?_
    rintro ⟨ts', st''⟩ ⟨ts, st2⟩ ⟨h5, h6, h7, h8⟩
    simp only at h5 h6
    subst h5 h6
    exact ⟨rfl, rfl, ⟨h3, h7⟩, h8⟩

def AstOk (P : Quantity → Prop) (asts : List (List AStmt)) : Prop := ∀ b ∈ asts, ∀ s ∈ b, AStmt.Ok P s

def RelB (k : Num) (P : Quantity → Prop) (p' p : List Block × CState) : Prop :=
  p'.1 = scaleBlocks k p.1 ∧ p'.2 = scaleSt k p.2 ∧ (∀ b ∈ p.1, Tree.GoodPList P b) ∧ StGood P p.2

theorem compileBlocks_scale {k : Num} (hk : k.kind ≠ .flt) (hk0 : k.val ≠ 0) {P : Quantity → Prop} :
    ∀ (asts : List (List AStmt)) (i : Nat) (st : CState), StGood P st → AstOk P asts →
      ExRel (RelB k P) (compileBlocks i (scaleSt k st) (scaleAst k asts)) (compileBlocks i st asts)
  | [], i, st, hst, _ => ⟨rfl, rfl, by simp, hst⟩
  | b :: bs, i, st, hst, ha => by
    simp only [scaleAst, List.map_cons]
    rw [compileBlocks_cons, compileBlocks_cons]
    have h1 := compileStmts_scale hk hk0 i b st hst (ha b List.mem_cons_self)
    cases hx : compileStmts i (scaleSt k st) (b.map (scaleAStmt k)) with
    | error e' =>
      cases hy : compileStmts i st b with
      | error e =>
        rw [hx, hy] at h1
        have : e' = e := h1
        subst this
        exact rfl
      | ok p => rw [hx, hy] at h1; exact h1.elim
    | ok p' =>
      cases hy : compileStmts i st b with
      | error e => rw [hx, hy] at h1; exact h1.elim
      | ok p =>
        rw [hx, hy] at h1
        obtain ⟨ts', st'⟩ := p'
        obtain ⟨ts, st1⟩ := p
        obtain ⟨e1, e2, h3, h4⟩ := h1
        simp only at e1 e2
        subst e1 e2
        have h2 := compileBlocks_scale hk hk0 bs (i + 1) st1 h4 (fun x hx => ha x (List.mem_cons_of_mem _ hx))
        simp only [scaleAst] at h2
        simp only []
        cases hx2 : compileBlocks (i + 1) (scaleSt k st1) (bs.map (·.map (scaleAStmt k))) with
        | error e' =>
          cases hy2 : compileBlocks (i + 1) st1 bs with
          | error e =>
            rw [hx2, hy2] at h2
            have : e' = e := h2
            subst this
            exact rfl
          | ok p => rw [hx2, hy2] at h2; exact h2.elim
        | ok q' =>
          cases hy2 : compileBlocks (i + 1) st1 bs with
          | error e => rw [hx2, hy2] at h2; exact h2.elim
          | ok q =>
            rw [hx2, hy2] at h2
            obtain ⟨rest', st''⟩ := q'
            obtain ⟨rest, st2⟩ := q
            obtain ⟨e1, e2, h5, h6⟩ := h2
            simp only at e1 e2
            subst e1 e2
            refine ⟨rfl, rfl, ?_, h6⟩
            intro x hx
            simp only [List.mem_cons] at hx
            rcases hx with hx | hx
            · exact hx ▸ h3
            · exact h5 x hx


-- ================================================================ the in-lining pass
theorem inferQuantity_scale (k : Num) : ∀ t : Tree,
    inferQuantity (Tree.scale k t) = (inferQuantity t).map (Quantity.scale k)
  | .ingredient d q => by simp [Tree.scale, inferQuantity]
  | .step d [] => by simp [Tree.scale, Tree.scaleList, inferQuantity]
  | .step d [i] => by
    simp only [Tree.scale, Tree.scaleList, inferQuantity]
    exact inferQuantity_scale k i
  | .step d (_ :: _ :: _) => by simp [Tree.scale, Tree.scaleList, inferQuantity]
  | .reference s n a => by simp [Tree.scale, inferQuantity]
  | .sub b [] sh => by simp [Tree.scale, inferQuantity]
  | .sub b [_] sh => by
    simp only [Tree.scale, List.map_cons, List.map_nil, inferQuantity]
    exact inferQuantity_scale k b
  | .sub b (_ :: _ :: _) sh => by simp [Tree.scale, inferQuantity]

theorem inferQuantity_ok {P : Quantity → Prop} : ∀ (t : Tree) (q : Quantity), t.GoodP P → inferQuantity t = some q →
    QOk P q
  | .ingredient d q', q, h, hq => by
    simp only [inferQuantity] at hq
    exact h.2 q hq
  | .step d [], q, _, hq => by simp [inferQuantity] at hq
  | .step d [i], q, h, hq => by
    simp only [inferQuantity] at hq
    simp only [Tree.GoodP, Tree.GoodPList] at h
    exact inferQuantity_ok i q h.2.1 hq
  | .step d (_ :: _ :: _), q, _, hq => by simp [inferQuantity] at hq
  | .reference s m a, q, _, hq => by simp [inferQuantity] at hq
  | .sub b [] sh, q, _, hq => by simp [inferQuantity] at hq
  | .sub b [_] sh, q, h, hq => by
    simp only [inferQuantity] at hq
    exact inferQuantity_ok b q h.1 hq
  | .sub b (_ :: _ :: _) sh, q, _, hq => by simp [inferQuantity] at hq

/-- the test of `can_be_inlined` on quantities gives the same answer after scaling, for quantities of the pool -/
def HevStable (k : Num) (P : Quantity → Prop) : Prop :=
  ∀ q iq, QOk P q → QOk P iq → (q.scale k).hasEqualValueTo (iq.scale k) = q.hasEqualValueTo iq

theorem Tree.numOutputs_scale (k : Num) (t : Tree) : (t.scale k).numOutputs = t.numOutputs := by
  cases t <;> simp [Tree.scale, Tree.numOutputs]

theorem canBeInlined_scale {k : Num} {P : Quantity → Prop} (hstab : HevStable k P) (o : NamedOutput)
    (ho : OutGood P o) : (scaleOut k o).canBeInlined = o.canBeInlined := by
  unfold NamedOutput.canBeInlined
  simp only [scaleOut, Tree.numOutputs_scale]
  congr 1
  cases hr : o.refs with
  | nil => rfl
  | cons r rest =>
    obtain ⟨t, rb⟩ := r
    cases rest with
    | cons r2 rest2 => cases t <;> rfl
    | nil =>
      have htg : t.GoodP P := ho.2.2 (t, rb) (by rw [hr]; exact List.mem_cons_self)
      cases t with
      | ingredient d q => rfl
      | step d i => rfl
      | sub b ns sh => rfl
      | reference s n a =>
        simp only [List.map_cons, List.map_nil, Tree.scale]
        congr 1
        cases a with
        | proportion v pc w pr => cases v <;> rfl
        | quantity q =>
          simp only [Amount.scale, inferQuantity_scale]
          cases hiq : inferQuantity o.sub with
          | none => rfl
          | some iq =>
            simp only [Option.map_some]
            exact hstab q iq (htg.2 q rfl) (inferQuantity_ok o.sub iq ho.2.1 hiq)

theorem removeFirst_scale {k : Num} (hk : k.kind ≠ .flt) (hk0 : k.val ≠ 0) (x : Tree) (hx : x.Good) :
    ∀ ts : List Tree, Tree.GoodList ts →
      removeFirst (x.scale k) (Tree.scaleList k ts) = (removeFirst x ts).map (Tree.scaleList k)
  | [], _ => rfl
  | t :: ts, h => by
    simp only [Tree.scaleList, removeFirst, Tree.beq_scale hk hk0 t x h.1 hx]
    split
    · rfl
    · rw [removeFirst_scale hk hk0 x hx ts h.2]
      cases removeFirst x ts <;> simp [Tree.scaleList]

theorem removeFirst_mem (x : Tree) : ∀ (ts ts' : List Tree), removeFirst x ts = some ts' → ∀ t ∈ ts', t ∈ ts
  | [], _, h => by simp [removeFirst] at h
  | a :: ts, ts', h => by
    simp only [removeFirst] at h
    split at h
    · cases h
      intro t ht
      exact List.mem_cons_of_mem _ ht
    · cases hr : removeFirst x ts with
      | none => simp [hr] at h
      | some r =>
        simp only [hr, Option.map_some, Option.some.injEq] at h
        subst h
        intro t ht
        simp only [List.mem_cons] at ht ⊢
        rcases ht with ht | ht
        · exact Or.inl ht
        · exact Or.inr (removeFirst_mem x ts r hr t ht)

mutual
theorem Tree.subst_scale {k : Num} (hk : k.kind ≠ .flt) (hk0 : k.val ≠ 0) (old new : Tree) (hold : old.Good) :
    ∀ t : Tree, t.Good → Tree.subst (old.scale k) (new.scale k) (t.scale k) = (Tree.subst old new t).scale k
  | .ingredient d q, ht => by
    have hb := Tree.beq_scale hk hk0 (.ingredient d q) old ht hold
    simp only [Tree.scale] at hb
    simp only [Tree.scale, Tree.subst, hb]
    split <;> simp [Tree.scale]
  | .step d i, ht => by
    have hb := Tree.beq_scale hk hk0 (.step d i) old ht hold
    simp only [Tree.scale] at hb
    simp only [Tree.scale, Tree.subst, hb]
    split
    · rfl
    · simp only [Tree.Good] at ht
      simp [Tree.scale, Tree.substList_scale hk hk0 old new hold i ht.2]
  | .reference s n a, ht => by
    have hb := Tree.beq_scale hk hk0 (.reference s n a) old ht hold
    simp only [Tree.scale] at hb
    simp only [Tree.scale, Tree.subst, hb]
    split
    · rfl
    · simp only [Tree.Good] at ht
      simp [Tree.scale, Tree.subst_scale hk hk0 old new hold s ht.1]
  | .sub b ns sh, ht => by
    have hb := Tree.beq_scale hk hk0 (.sub b ns sh) old ht hold
    simp only [Tree.scale] at hb
    simp only [Tree.scale, Tree.subst, hb]
    split
    · rfl
    · simp only [Tree.Good] at ht
      simp [Tree.scale, Tree.subst_scale hk hk0 old new hold b ht.1]
theorem Tree.substList_scale {k : Num} (hk : k.kind ≠ .flt) (hk0 : k.val ≠ 0) (old new : Tree) (hold : old.Good) :
    ∀ ts : List Tree, Tree.GoodList ts →
      Tree.substList (old.scale k) (new.scale k) (Tree.scaleList k ts) = Tree.scaleList k (Tree.substList old new ts)
  | [], _ => rfl
  | t :: ts, h => by
    simp only [Tree.scaleList, Tree.substList, Tree.subst_scale hk hk0 old new hold t h.1,
      Tree.substList_scale hk hk0 old new hold ts h.2]
end

mutual
theorem Tree.subst_goodP {P : Quantity → Prop} (old new : Tree) (hnew : new.GoodP P) :
    ∀ t : Tree, t.GoodP P → (Tree.subst old new t).GoodP P
  | .ingredient d q, ht => by
    simp only [Tree.subst]
    split
    · exact hnew
    · exact ht
  | .step d i, ht => by
    simp only [Tree.subst]
    split
    · exact hnew
    · exact ⟨ht.1, Tree.substList_goodP old new hnew i ht.2⟩
  | .reference s n a, ht => by
    simp only [Tree.subst]
    split
    · exact hnew
    · exact ⟨Tree.subst_goodP old new hnew s ht.1, ht.2⟩
  | .sub b ns sh, ht => by
    simp only [Tree.subst]
    split
    · exact hnew
    · exact ⟨Tree.subst_goodP old new hnew b ht.1, ht.2⟩
theorem Tree.substList_goodP {P : Quantity → Prop} (old new : Tree) (hnew : new.GoodP P) :
    ∀ ts : List Tree, Tree.GoodPList P ts → Tree.GoodPList P (Tree.substList old new ts)
  | [], _ => trivial
  | t :: ts, h => ⟨Tree.subst_goodP old new hnew t h.1, Tree.substList_goodP old new hnew ts h.2⟩
end

theorem substitute_scale {k : Num} (hk : k.kind ≠ .flt) (hk0 : k.val ≠ 0) {P : Quantity → Prop} (old new : Tree)
    (hold : old.Good) (o : NamedOutput) (ho : OutGood P o) :
    (scaleOut k o).substitute (old.scale k) (new.scale k) = scaleOut k (o.substitute old new) := by
  unfold NamedOutput.substitute
  simp only [scaleOut, Tree.subst_scale hk hk0 old new hold o.sub ho.2.1.good, List.map_map, NamedOutput.mk.injEq,
    true_and, and_true]
  apply List.map_congr_left
  intro r hr
  have hrg := (ho.2.2 r hr).good
  simp only [Function.comp_def, Tree.beq_scale hk hk0 old r.1 hold hrg, Prod.mk.injEq, and_true]
  split
  · exact Tree.subst_scale hk hk0 old new hold r.1 hrg
  · rfl

theorem substitute_good {P : Quantity → Prop} (old new : Tree) (hnew : new.GoodP P) (o : NamedOutput)
    (ho : OutGood P o) : OutGood P (o.substitute old new) := by
  refine ⟨ho.1, Tree.subst_goodP old new hnew _ ho.2.1, ?_⟩
  intro r hr
  simp only [NamedOutput.substitute, List.mem_map] at hr
  obtain ⟨r0, hr0, rfl⟩ := hr
  simp only []
  split
  · exact Tree.subst_goodP old new hnew _ (ho.2.2 r0 hr0)
  · exact ho.2.2 r0 hr0

def BlocksGood (P : Quantity → Prop) (bs : List Block) : Prop := ∀ b ∈ bs, Tree.GoodPList P b

def RelF (k : Num) (P : Quantity → Prop) (p' p : List Block × List NamedOutput) : Prop :=
  p'.1 = scaleBlocks k p.1 ∧ p'.2 = p.2.map (scaleOut k) ∧ BlocksGood P p.1 ∧ OutsGood P p.2

theorem foldStep_scale {k : Num} (hk : k.kind ≠ .flt) (hk0 : k.val ≠ 0) {P : Quantity → Prop} (hstab : HevStable k P)
    (i : Nat) (blocks : List Block) (outs : List NamedOutput) (hb : BlocksGood P blocks) (hout : OutsGood P outs) :
    ExRel (RelF k P) (foldStep i (scaleBlocks k blocks) (outs.map (scaleOut k))) (foldStep i blocks outs) := by
  unfold foldStep
  simp only [List.getElem?_map]
  cases hi : outs[i]? with
  | none => exact ⟨rfl, rfl, hb, hout⟩
  | some o =>
    have hom : o ∈ outs := List.mem_of_getElem? hi
    have hog := hout o hom
    simp only [Option.map_some, canBeInlined_scale hstab o hog]
    cases hc : o.canBeInlined with
    | false => exact ⟨rfl, rfl, hb, hout⟩
    | true =>
      simp only [Bool.not_true, Bool.false_eq_true, if_false]
      cases hs : o.sub with
      | ingredient d q => simp only [scaleOut, hs, Tree.scale]; exact rfl
      | step d inp => simp only [scaleOut, hs, Tree.scale]; exact rfl
      | reference s n a => simp only [scaleOut, hs, Tree.scale]; exact rfl
      | sub body ns sh =>
        cases hr : o.refs with
        | nil => simp only [scaleOut, hs, hr, Tree.scale, List.map_nil]; exact rfl
        | cons r rest =>
          obtain ⟨ref, rb⟩ := r
          have hsubg : (Tree.sub body ns sh).GoodP P := hs ▸ hog.2.1
          have hrefg : ref.GoodP P := hog.2.2 (ref, rb) (by rw [hr]; exact List.mem_cons_self)
          simp only [scaleOut, hs, hr, Tree.scale, List.map_cons, scaleBlocks, List.getElem?_map]
          cases hd : blocks[o.defBlock]? with
          | none => exact rfl
          | some trees =>
            have htg : Tree.GoodPList P trees := hb trees (List.mem_of_getElem? hd)
            have hrm := removeFirst_scale hk hk0 (.sub body ns sh) hsubg.good trees htg.good
            simp only [Tree.scale] at hrm
            simp only [Option.map_some, hrm]
            cases hrf : removeFirst (.sub body ns sh) trees with
            | none => exact rfl
            | some trees' =>
              simp only [Option.map_some]
              have hnewg : (if o.unwrap then body else Tree.sub body ns sh).GoodP P := by
                split
                · exact hsubg.1
                · exact hsubg
              have hnew : (if o.unwrap then Tree.scale k body else Tree.sub (Tree.scale k body) (ns.map (Svs.scale k)) sh)
                  = Tree.scale k (if o.unwrap then body else Tree.sub body ns sh) := by
                split <;> simp [Tree.scale]
              have hset : BlocksGood P (blocks.set o.defBlock trees') := by
                intro b hbm
                rcases List.mem_or_eq_of_mem_set hbm with h | h
                · exact hb b h
                · subst h
                  rw [Tree.goodPList_iff] at htg ⊢
                  intro t ht
                  exact htg t (removeFirst_mem _ _ _ hrf t ht)
              rw [hnew]
              refine ⟨?_, ?_, ?_, ?_⟩
              · simp only [scaleBlocks, ← List.map_set, List.map_map]
                apply List.map_congr_left
                intro b hbm
                exact Tree.substList_scale hk hk0 ref _ hrefg.good b (hset b hbm).good
              · simp only [List.map_map]
                apply List.map_congr_left
                intro o' ho'
                exact substitute_scale hk hk0 ref _ hrefg.good o' (hout o' ho')
              · intro b hbm
                obtain ⟨b0, hb0, rfl⟩ := List.mem_map.1 hbm
                exact Tree.substList_goodP ref _ hnewg b0 (hset b0 hb0)
              · intro o' ho'
                obtain ⟨o0, ho0, rfl⟩ := List.mem_map.1 ho'
                exact substitute_good ref _ hnewg o0 (hout o0 ho0)

theorem foldAll_scale {k : Num} (hk : k.kind ≠ .flt) (hk0 : k.val ≠ 0) {P : Quantity → Prop} (hstab : HevStable k P) :
    ∀ (n i : Nat) (blocks : List Block) (outs : List NamedOutput), BlocksGood P blocks → OutsGood P outs →
      ExRel (RelF k P) (foldAll n i (scaleBlocks k blocks) (outs.map (scaleOut k))) (foldAll n i blocks outs)
  | 0, i, blocks, outs, hb, hout => ⟨rfl, rfl, hb, hout⟩
  | n + 1, i, blocks, outs, hb, hout => by
    simp only [foldAll]
    refine ExRel.bind (foldStep_scale hk hk0 hstab i blocks outs hb hout) ?_
    rintro ⟨b', o'⟩ ⟨b, o⟩ ⟨h1, h2, h3, h4⟩
    simp only at h1 h2
    subst h1 h2
    exact foldAll_scale hk hk0 hstab n (i + 1) b o h3 h4


theorem compileBlocks_error_not_ok : ∀ (asts : List (List AStmt)) (i : Nat) (st : CState) (bs : List Block),
    compileBlocks i st asts ≠ .error (.ok bs)
  | [], i, st, bs => by simp [compileBlocks]
  | b :: rest, i, st, bs => by
    rw [compileBlocks_cons]
    cases compileStmts i st b with
    | error e => cases e <;> simp [liftErr]
    | ok p =>
      obtain ⟨trees, st1⟩ := p
      simp only []
      have ih := compileBlocks_error_not_ok rest (i + 1) st1 bs
      cases h2 : compileBlocks (i + 1) st1 rest with
      | error e =>
        intro h
        simp only [Except.error.injEq] at h
        exact ih (h2.trans (by rw [h]))
      | ok q => simp

-- ================================================================ the validity check
mutual
theorem Tree.good_refTargets : ∀ t : Tree, t.Good → ∀ s ∈ Tree.refTargets t, s.Good
  | .ingredient d q, _ => by simp [Tree.refTargets]
  | .step d i, h => by
    simp only [Tree.Good] at h
    simpa [Tree.refTargets] using Tree.good_refTargetsList i h.2
  | .reference s n a, h => by
    simp only [Tree.Good] at h
    intro x hx
    simp only [Tree.refTargets, List.mem_cons] at hx
    rcases hx with hx | hx
    · exact hx ▸ h.1
    · exact Tree.good_refTargets s h.1 x hx
  | .sub b ns sh, h => by
    simp only [Tree.Good] at h
    simpa [Tree.refTargets] using Tree.good_refTargets b h.1
theorem Tree.good_refTargetsList : ∀ ts : List Tree, Tree.GoodList ts → ∀ s ∈ Tree.refTargetsList ts, s.Good
  | [], _ => by simp [Tree.refTargetsList]
  | t :: ts, h => by
    simp only [Tree.GoodList] at h
    intro s hs
    simp only [Tree.refTargetsList, List.mem_append] at hs
    rcases hs with hs | hs
    · exact Tree.good_refTargets t h.1 s hs
    · exact Tree.good_refTargetsList ts h.2 s hs
end

theorem List.all_congr'' {α : Type} {p q : α → Bool} : ∀ {l : List α}, (∀ a ∈ l, p a = q a) → l.all p = l.all q
  | [], _ => rfl
  | a :: l, h => by
    simp only [List.all_cons, h a List.mem_cons_self]
    rw [List.all_congr'' (l := l) (fun x hx => h x (List.mem_cons_of_mem _ hx))]

theorem checkBlock_scale {k : Num} (hk : k.kind ≠ .flt) (hk0 : k.val ≠ 0) : ∀ (b : Block) (prev : List Tree),
    Tree.GoodList b → (∀ p ∈ prev, p.Good) →
    checkBlock (prev.map (Tree.scale k)) (Tree.scaleList k b) = checkBlock prev b
  | [], _, _, _ => rfl
  | t :: ts, prev, hb, hp => by
    simp only [Tree.GoodList] at hb
    simp only [Tree.scaleList, checkBlock, Tree.refTargets_scale, List.all_map, List.any_map, Tree.isSub_scale]
    congr 1
    · apply List.all_congr''
      intro s hs
      apply List.any_congr'
      intro x hx
      exact Tree.beq_scale hk hk0 s x (Tree.good_refTargets t hb.1 s hs) (hp x hx)
    · cases hsub : t.isSub with
      | false => simpa using checkBlock_scale hk hk0 ts prev hb.2 hp
      | true =>
        have := checkBlock_scale hk hk0 ts (t :: prev) hb.2 (by
          intro p hp'
          simp only [List.mem_cons] at hp'
          rcases hp' with h | h
          · exact h ▸ hb.1
          · exact hp p h)
        simpa using this

theorem checkBlocks_scale {k : Num} (hk : k.kind ≠ .flt) (hk0 : k.val ≠ 0) : ∀ (bs : List Block) (prev : List Tree),
    (∀ b ∈ bs, Tree.GoodList b) → (∀ p ∈ prev, p.Good) →
    checkBlocks (prev.map (Tree.scale k)) (scaleBlocks k bs) = checkBlocks prev bs
  | [], _, _, _ => rfl
  | b :: bs, prev, hb, hp => by
    have hbg := hb b List.mem_cons_self
    simp only [scaleBlocks, List.map_cons, checkBlocks, checkBlock_scale hk hk0 b prev hbg hp,
      Tree.filter_isSub_scaleList, ← List.map_append]
    congr 1
    apply checkBlocks_scale hk hk0 bs _ (fun x hx => hb x (List.mem_cons_of_mem _ hx))
    intro p hp'
    simp only [List.mem_append, List.mem_filter] at hp'
    rcases hp' with h | h
    · exact hp p h
    · exact (Tree.goodList_iff b).1 hbg p h.1

-- ================================================================ exact descriptions and their pool of quantities
def AAmount.qtys : Option AAmount → List Quantity
  | some (.qty _ v u sp p) => [compileQuantity v u sp p]
  | _ => []

mutual
/-- the quantities written in an expression, compiled -/
def AExpr.qtys : AExpr → List Quantity
  | .step _ inputs => AExpr.qtysList inputs
  | .ref _ a => AAmount.qtys a
def AExpr.qtysList : List AExpr → List Quantity
  | [] => []
  | e :: es => AExpr.qtys e ++ AExpr.qtysList es
end

/-- every quantity written in the description, compiled -/
def astQuantities (asts : List (List AStmt)) : List Quantity := asts.flatMap (·.flatMap (·.expr.qtys))

mutual
/-- no float among the scalable numbers: those of `{…}` expressions and of quantities -/
def AExpr.Exact : AExpr → Prop
  | .step name inputs => AString.Exact name ∧ AExpr.ExactList inputs
  | .ref name a => AString.Exact name ∧ ∀ q ∈ AAmount.qtys a, q.value.kind ≠ .flt
def AExpr.ExactList : List AExpr → Prop
  | [] => True
  | e :: es => AExpr.Exact e ∧ AExpr.ExactList es
end

def AStmt.Exact (s : AStmt) : Prop := s.expr.Exact ∧ ∀ l, s.outputs = some l → ∀ n ∈ l, AString.Exact n

def AstExact (asts : List (List AStmt)) : Prop := ∀ b ∈ asts, ∀ s ∈ b, AStmt.Exact s

mutual
theorem AExpr.ok_of_exact {P : Quantity → Prop} : ∀ e : AExpr, e.Exact → (∀ q ∈ e.qtys, P q) → e.Ok P
  | .step name inputs, he, hq => ⟨he.1, AExpr.okList_of_exact inputs he.2 (by simpa [AExpr.qtys] using hq)⟩
  | .ref name a, he, hq => by
    refine ⟨he.1, ?_⟩
    intro x hx
    subst hx
    cases x with
    | prop o v pc w p => trivial
    | qty o v u sp p =>
      exact ⟨he.2 _ (by simp [AAmount.qtys]), hq _ (by simp [AExpr.qtys, AAmount.qtys])⟩
theorem AExpr.okList_of_exact {P : Quantity → Prop} : ∀ es : List AExpr, AExpr.ExactList es →
    (∀ q ∈ AExpr.qtysList es, P q) → AExpr.OkList P es
  | [], _, _ => trivial
  | e :: es, he, hq => by
    simp only [AExpr.qtysList, List.mem_append] at hq
    exact ⟨AExpr.ok_of_exact e he.1 (fun q h => hq q (Or.inl h)),
      AExpr.okList_of_exact es he.2 (fun q h => hq q (Or.inr h))⟩
end

theorem astOk_of_exact {asts : List (List AStmt)} (h : AstExact asts) : AstOk (· ∈ astQuantities asts) asts := by
  intro b hb s hs
  refine ⟨AExpr.ok_of_exact s.expr (h b hb s hs).1 ?_, (h b hb s hs).2⟩
  intro q hq
  simp only [astQuantities, List.mem_flatMap]
  exact ⟨b, hb, s, hs, hq⟩

-- ================================================================ `has_equal_value_to` on equal values
theorem isclose_self (a r : Rat) : isclose a a r = true := by simp [isclose]

/-- two exact quantities with the same value, and units between which the conversion factor (if the units are known)
    is an exact 1: `has_equal_value_to` says yes, before and after scaling by an exact factor -/
theorem hasEqualValueTo_scale_of_eq {k : Num} (hk : k.kind ≠ .flt) {q iq : Quantity}
    (hq : q.value.kind ≠ .flt) (hiq : iq.value.kind ≠ .flt) (hv : q.value.val = iq.value.val)
    (hu : (q.unit = none ∧ iq.unit = none) ∨ ∃ su ou, q.unit = some su ∧ iq.unit = some ou ∧
      (∀ sc, convertBetween false (lowerStr ou) (lowerStr su) = some sc → sc.kind ≠ .flt ∧ sc.val = 1) ∧
      (convertBetween false (lowerStr ou) (lowerStr su) = none → lowerStr su = lowerStr ou)) :
    (q.scale k).hasEqualValueTo (iq.scale k) = true ∧ q.hasEqualValueTo iq = true := by
  have go : ∀ (sc : Num), sc.kind ≠ .flt → sc.val = 1 → ∀ (a b : Num), a.kind ≠ .flt → b.kind ≠ .flt → a.val = b.val →
      isclose a.toFlt (b.mul sc).toFlt relTolDefault = true := by
    intro sc hsc hsc1 a b ha hb hab
    have h1 : (b.mul sc).val = b.val := by rw [Num.mul_val_exact hb hsc, hsc1, Rat.mul_one]
    have h2 : (b.mul sc).kind ≠ .flt := Num.mul_kind_exact hb hsc
    have ha' : a.isFlt = false := by simp [Num.isFlt, ha]
    have hb' : (b.mul sc).isFlt = false := by simp [Num.isFlt, h2]
    simp only [Num.toFlt, ha', hb', h1, hab]
    exact isclose_self _ _
  have hqk : (q.value.mul k).kind ≠ .flt := Num.mul_kind_exact hq hk
  have hiqk : (iq.value.mul k).kind ≠ .flt := Num.mul_kind_exact hiq hk
  have hvk : (q.value.mul k).val = (iq.value.mul k).val := by
    rw [Num.mul_val_exact hq hk, Num.mul_val_exact hiq hk, hv]
  have one : (⟨1, .int⟩ : Num).kind ≠ .flt := by simp
  rcases hu with ⟨h1, h2⟩ | ⟨su, ou, h1, h2, h3, h4⟩
  · simp only [Quantity.hasEqualValueTo, Quantity.scale, h1, h2]
    exact ⟨go _ one rfl _ _ hqk hiqk hvk, go _ one rfl _ _ hq hiq hv⟩
  · simp only [Quantity.hasEqualValueTo, Quantity.scale, h1, h2]
    cases hc : convertBetween false (lowerStr ou) (lowerStr su) with
    | some sc =>
      obtain ⟨hs1, hs2⟩ := h3 sc hc
      exact ⟨go _ hs1 hs2 _ _ hqk hiqk hvk, go _ hs1 hs2 _ _ hq hiq hv⟩
    | none =>
      simp only [h4 hc, beq_self_eq_true, if_true]
      exact ⟨go _ one rfl _ _ hqk hiqk hvk, go _ one rfl _ _ hq hiq hv⟩


-- ================================================================ the hypotheses as executable checks
def AString.exactB (s : AString) : Bool :=
  s.all fun p => match p with | .num _ n => decide (n.kind ≠ .flt) | .sub .. => true

mutual
def AExpr.exactB : AExpr → Bool
  | .step name inputs => AString.exactB name && AExpr.exactListB inputs
  | .ref name a => AString.exactB name && (AAmount.qtys a).all (fun q => decide (q.value.kind ≠ .flt))
def AExpr.exactListB : List AExpr → Bool
  | [] => true
  | e :: es => AExpr.exactB e && AExpr.exactListB es
end

def AStmt.exactB (s : AStmt) : Bool :=
  s.expr.exactB && (match s.outputs with | some l => l.all AString.exactB | none => true)

def astExactB (asts : List (List AStmt)) : Bool := asts.all (·.all AStmt.exactB)

theorem AString.exact_of_B {s : AString} (h : AString.exactB s = true) : AString.Exact s := by
  intro o n hn
  have := List.all_eq_true.1 h _ hn
  simpa using this

mutual
theorem AExpr.exact_of_B : ∀ e : AExpr, e.exactB = true → e.Exact
  | .step name inputs, h => by
    simp only [AExpr.exactB, Bool.and_eq_true] at h
    exact ⟨AString.exact_of_B h.1, AExpr.exactList_of_B inputs h.2⟩
  | .ref name a, h => by
    simp only [AExpr.exactB, Bool.and_eq_true, List.all_eq_true, decide_eq_true_eq] at h
    exact ⟨AString.exact_of_B h.1, h.2⟩
theorem AExpr.exactList_of_B : ∀ es : List AExpr, AExpr.exactListB es = true → AExpr.ExactList es
  | [], _ => trivial
  | e :: es, h => by
    simp only [AExpr.exactListB, Bool.and_eq_true] at h
    exact ⟨AExpr.exact_of_B e h.1, AExpr.exactList_of_B es h.2⟩
end

theorem astExact_of_B {asts : List (List AStmt)} (h : astExactB asts = true) : AstExact asts := by
  intro b hb s hs
  have h1 := List.all_eq_true.1 (List.all_eq_true.1 h b hb) s hs
  simp only [AStmt.exactB, Bool.and_eq_true] at h1
  refine ⟨AExpr.exact_of_B _ h1.1, ?_⟩
  intro l hl n hn
  rw [hl] at h1
  exact AString.exact_of_B (List.all_eq_true.1 h1.2 n hn)

def inlineTestsStableB (k : Num) (asts : List (List AStmt)) : Bool :=
  (astQuantities asts).all fun q => (astQuantities asts).all fun iq =>
    (q.scale k).hasEqualValueTo (iq.scale k) == q.hasEqualValueTo iq

theorem inlineTestsStable_of_B {k : Num} {asts : List (List AStmt)} (h : inlineTestsStableB k asts = true) :
    ∀ q ∈ astQuantities asts, ∀ iq ∈ astQuantities asts,
      (q.scale k).hasEqualValueTo (iq.scale k) = q.hasEqualValueTo iq := by
  intro q hq iq hiq
  have := List.all_eq_true.1 (List.all_eq_true.1 h q hq) iq hiq
  simpa using this

end RG
