import RecipeGrid.Model.BraceExpr
import RecipeGrid.Lemmas.ReTerm
/-! The engine of `Model/ReExt.lean` extends the engine of `Model/BraceExpr.lean` (`RG.Re`, compared with CPython's `re` on the
    patterns of `ScaledValueExpression` over millions of inputs): a regular expression without `\b`, read in the old syntax,
    gives the same answers in the old engine (whatever its capture groups hold). -/
namespace RG
namespace Rx

/-- the expression in the syntax of the old engine (`\b` has no counterpart there) -/
def toRe : Rx → Re
  | eps => .eps
  | chr c => .cls (· == c)
  | ichr c => .cls (ciMatches · c)
  | any => .cls (fun _ => true)
  | cls neg items => .cls (clsTest neg items)
  | seq a b => .seq (toRe a) (toRe b)
  | alt a b => .alt (toRe a) (toRe b)
  | star a => .star (toRe a)
  | plus a => Re.plus (toRe a)
  | opt a => Re.opt (toRe a)
  | grp n a => .grp n (toRe a)
  | bound => .eps

def hasBound : Rx → Bool
  | bound => true
  | seq a b | alt a b => hasBound a || hasBound b
  | star a | plus a | opt a | grp _ a => hasBound a
  | _ => false

variable {α : Type}

/-- the continuations of the two engines do the same: on the rest of the text from `j` / at the position `j` -/
def KRel (t : Array Char) (k : K α) (k' : Re.Cont α) : Prop := ∀ j c, j ≤ t.size → k' (t.toList.drop j) c = k j

theorem drop_eq_cons {t : Array Char} {i : Nat} {c : Char} (h : t[i]? = some c) :
    t.toList.drop i = c :: t.toList.drop (i + 1) := by
  have hlt : i < t.size := by
    rcases Nat.lt_or_ge i t.size with h' | h'
    · exact h'
    · simp [Array.getElem?_eq_none h'] at h
  rw [Array.getElem?_eq_getElem hlt] at h
  cases h
  rw [List.drop_eq_getElem_cons (by simpa using hlt)]
  simp

theorem drop_eq_nil {t : Array Char} {i : Nat} (h : t[i]? = none) : t.toList.drop i = [] := by
  rw [Array.getElem?_eq_none_iff] at h
  exact List.drop_eq_nil_of_le (by simpa using h)

theorem cls_agree (t : Array Char) (p : Char → Bool) (i : Nat) (c : Re.Caps) {k : K α} {k' : Re.Cont α} (hk : KRel t k k') :
    step t p i k = Re.run (.cls p) (t.toList.drop i) c k' := by
  rw [step]
  cases hc : t[i]? with
  | none => rw [drop_eq_nil hc]; rfl
  | some ch =>
    rw [drop_eq_cons hc]
    have hlt : i + 1 ≤ t.size := by
      rcases Nat.lt_or_ge i t.size with h' | h'
      · exact h'
      · simp [Array.getElem?_eq_none h'] at hc
    simp only [Re.run]
    cases p ch with
    | false => rfl
    | true => simp only [if_true]; exact (hk (i + 1) c hlt).symm

theorem starK_agree {t : Array Char} {ma : Nat → K α → Option α} {ma' : Str → Re.Caps → Re.Cont α → Option α}
    (h : ∀ i c k k', i ≤ t.size → KRel t k k' → ma i k = ma' (t.toList.drop i) c k') :
    ∀ fuel i c (k : K α) (k' : Re.Cont α), i ≤ t.size → KRel t k k' →
      starK ma fuel i k = Re.starK ma' fuel (t.toList.drop i) c k'
  | 0, i, c, k, k', hi, hk => (hk i c hi).symm
  | fuel + 1, i, c, k, k', hi, hk => by
    rw [starK, Re.starK]
    rw [h i c _ (fun s' c' => Re.starK ma' fuel s' c' k') hi (fun j c' hj => (starK_agree h fuel j c' k k' hj hk).symm)]
    cases ma' (t.toList.drop i) c (fun s' c' => Re.starK ma' fuel s' c' k') with
    | some a => rfl
    | none => exact (hk i c hi).symm

theorem run_agree (t : Array Char) (base : Nat) : ∀ (r : Rx), hasBound r = false → ∀ (i : Nat) (c : Re.Caps) (k : K α)
    (k' : Re.Cont α), i ≤ t.size → KRel t k k' → run t base r i k = Re.run (toRe r) (t.toList.drop i) c k'
  | eps, _, i, c, k, k', hi, hk => by simp only [run, toRe, Re.run]; exact (hk i c hi).symm
  | chr ch, _, i, c, k, k', _, hk => by simp only [run, toRe]; exact cls_agree t _ i c hk
  | ichr ch, _, i, c, k, k', _, hk => by simp only [run, toRe]; exact cls_agree t _ i c hk
  | any, _, i, c, k, k', _, hk => by simp only [run, toRe]; exact cls_agree t _ i c hk
  | cls neg items, _, i, c, k, k', _, hk => by simp only [run, toRe]; exact cls_agree t _ i c hk
  | seq x y, hb, i, c, k, k', hi, hk => by
    simp only [hasBound, Bool.or_eq_false_iff] at hb
    simp only [run, toRe, Re.run]
    exact run_agree t base x hb.1 i c _ _ hi fun j c' hj => (run_agree t base y hb.2 j c' k k' hj hk).symm
  | alt x y, hb, i, c, k, k', hi, hk => by
    simp only [hasBound, Bool.or_eq_false_iff] at hb
    simp only [run, toRe, Re.run]
    rw [run_agree t base x hb.1 i c k k' hi hk, run_agree t base y hb.2 i c k k' hi hk]
    cases Re.run (toRe x) (t.toList.drop i) c k' <;> rfl
  | star x, hb, i, c, k, k', hi, hk => by
    simp only [hasBound] at hb
    simp only [run, toRe, Re.run]
    rw [show (t.toList.drop i).length = t.size - i by simp]
    exact starK_agree (fun i c k k' hi hk => run_agree t base x hb i c k k' hi hk) _ i c k k' hi hk
  | plus x, hb, i, c, k, k', hi, hk => by
    simp only [hasBound] at hb
    simp only [run, toRe, Re.plus, Re.run]
    refine run_agree t base x hb i c _ _ hi fun j c' hj => ?_
    rw [show (t.toList.drop j).length = t.size - j by simp]
    exact (starK_agree (fun i c k k' hi hk => run_agree t base x hb i c k k' hi hk) _ j c' k k' hj hk).symm
  | opt x, hb, i, c, k, k', hi, hk => by
    simp only [hasBound] at hb
    simp only [run, toRe, Re.opt, Re.run]
    rw [run_agree t base x hb i c k k' hi hk, hk i c hi]
    cases Re.run (toRe x) (t.toList.drop i) c k' <;> rfl
  | grp n x, hb, i, c, k, k', hi, hk => by
    simp only [hasBound] at hb
    simp only [run, toRe, Re.run]
    exact run_agree t base x hb i c k _ hi fun j c' hj => hk j _ hj
  | bound, hb, _, _, _, _, _, _ => by simp [hasBound] at hb

/-- **`match` in the two engines**: an expression without `\b` ends in the new engine where the old engine, on the rest of
    the text, leaves off -/
theorem matchEnd_eq_old (r : Rx) (hb : hasBound r = false) (t : Array Char) (i : Nat) (hi : i ≤ t.size) :
    r.matchEnd t i = Re.run (toRe r) (t.toList.drop i) [] (fun rest _ => some (t.size - rest.length)) := by
  refine run_agree t i r hb i [] some _ hi fun j c hj => ?_
  simp only [List.length_drop, Array.length_toList]
  congr 1; omega

end Rx
end RG
