import RecipeGrid.Lemmas.ParserErrPrefix
/-! Prefix stability (`LE`, `Lemmas/ParserErrPrefix.lean`) of every rule of the instrumented parser, and the theorem it is
    for: if `a` ends in a line break and is accepted on its own, a syntax error of `a ++ b` is not reported inside `a`. -/
namespace RG
namespace ParserE
open Parser (P PState Mono Adv)

section
variable {a b : Str}

/-- a successful run of a good rule started inside `a` does not move backwards (on `a`) -/
theorem Good.le_at {α : Type} {m : PE α} (hg : Good m) {s s1 : PState} {x : α} (hlt : s.pos < a.length)
    (hr : (m a.toArray s).1 = some (x, s1)) : s.pos ≤ s1.pos :=
  ((hg a.toArray s (by rw [size_a]; omega)).1 x s1 hr).1

theorem AdvE.lt_at {α : Type} {m : PE α} (ha : AdvE m) {s s1 : PState} {x : α} (hlt : s.pos < a.length)
    (hr : (m a.toArray s).1 = some (x, s1)) : s.pos < s1.pos :=
  ha a.toArray s x s1 (by rw [size_a]; omega) hr

/-! ## terminals -/

theorem LE.lit (c : Char) {s : PState} : LE a b (lit c) (lit c) s := LE.term (Good.lit c) fun h => Lp.lit c h
theorem LE.sat (q : Char → Bool) {s : PState} : LE a b (ParserE.term (Parser.sat q)) (ParserE.term (Parser.sat q)) s :=
  LE.term (Good.sat q) fun h => Lp.sat q h
theorem LE.fail {α : Type} {s : PState} : LE a b (fail : PE α) fail s := LE.term Good.fail fun _ => Lp.fail
theorem LE.ohsp {s : PState} : LE a b ohsp ohsp s := LE.skipManyOpt _
theorem LE.osp {s : PState} : LE a b osp osp s := LE.skipManyOpt _
theorem LE.eof {s : PState} : LE a b eof eof s := LE.term Good.eof fun h => Lp.eof h

variable (hcut : Cut a)
include hcut

theorem LE.hsp {s : PState} : LE a b hsp hsp s := LE.term Good.hsp fun h => Lp.of_ex (Ex.hsp hcut) h
theorem LE.digits {s : PState} : LE a b digits digits s := LE.term Good.digits fun h => Lp.of_ex (Ex.digits hcut) h
theorem LE.decimal {s : PState} : LE a b decimal decimal s := LE.term Good.decimal fun h => Lp.of_ex (Ex.decimal hcut) h
theorem LE.denominator {s : PState} : LE a b (ParserE.term denominator) (ParserE.term denominator) s :=
  LE.term (Good.term mono_denominator fun _ => denominator_bd) fun h => Lp.of_ex (Ex.denominator hcut) h
theorem LE.nakedString {s : PState} : LE a b nakedString nakedString s :=
  LE.term Good.nakedString fun h => Lp.of_ex (Ex.nakedString hcut) h
theorem LE.preposition {s : PState} : LE a b preposition preposition s :=
  LE.term Good.preposition fun h => Lp.of_ex (Ex.preposition hcut) h
theorem LE.remainder {s : PState} : LE a b remainder remainder s :=
  LE.term Good.remainder fun h => Lp.of_ex (Ex.remainder hcut) h
theorem LE.knownUnit {s : PState} : LE a b knownUnit knownUnit s := LE.term Good.knownUnit fun h => Lp.knownUnit hcut h
theorem LE.assign {s : PState} : LE a b assign assign s := LE.term Good.assign fun h => Lp.of_ex (Ex.assign hcut) h
theorem LE.eolBreak {s : PState} : LE a b (ParserE.term eolBreak) (ParserE.term eolBreak) s :=
  LE.term (Good.term mono_eolBreak fun _ => eolBreak_bd) fun h => Lp.eolBreak hcut h

/-! ## numbers and strings -/

theorem LE.fraction {s : PState} : LE a b fraction fraction s := by
  unfold ParserE.fraction
  refine LE.bind (by good) (fun _ => by good) LE.getPos fun start _ _ _ => ?_
  refine LE.bind (by good) (fun _ => by good) (LE.opt (by good) (LE.bind (by good) (fun _ => by good) (LE.digits hcut)
    fun ds _ _ _ => LE.bind (by good) (fun _ => by good) (LE.hsp hcut) fun _ _ _ _ => LE.pure _)) fun integer _ _ _ => ?_
  refine LE.bind (by good) (fun _ => by good) LE.getPos fun numerStart _ _ _ => ?_
  refine LE.bind (by good) (fun _ => by good) (LE.digits hcut) fun numer _ _ _ => ?_
  refine LE.bind (by good) (fun _ => by good) LE.ohsp fun _ _ _ _ => ?_
  refine LE.bind (by good) (fun _ => by good) (LE.lit _) fun _ _ _ _ => ?_
  refine LE.bind (by good) (fun _ => by good) LE.ohsp fun _ _ _ _ => ?_
  exact LE.bind (by good) (fun _ => by good) (LE.denominator hcut) fun _ _ _ _ => LE.pure _

theorem LE.number {s : PState} : LE a b number number s := LE.orElse (LE.fraction hcut) (LE.decimal hcut)

omit hcut in
theorem LE.escaped {s : PState} : LE a b escaped escaped s :=
  LE.bind (by good) (fun _ => by good) (LE.lit _) fun _ _ _ _ =>
    LE.bind (by good) (fun _ => by good) (LE.sat _) fun _ _ _ _ => LE.pure _

omit hcut in
theorem AdvE.lit (c : Char) : AdvE (lit c) := AdvE.of_sim (Sim.lit c) (Parser.adv_lit c)

omit hcut in
theorem AdvE.quotedItem (q : Char) : AdvE (escaped <|> ParserE.term (Parser.sat fun c => c != q && !isNewline c)) :=
  AdvE.of_sim (Sim.orElse Sim.escaped (Sim.term _)) (Parser.adv_orElse Parser.adv_escaped (Parser.adv_sat _))

omit hcut in
theorem LE.quotedString (q : Char) {s : PState} : LE a b (quotedString q) (quotedString q) s := by
  unfold ParserE.quotedString
  refine LE.bind (by good) (fun _ => by good) LE.getPos fun off _ _ _ => ?_
  refine LE.bind (by good) (fun _ => by good) (LE.lit _) fun _ _ _ _ => ?_
  refine LE.bind (by good) (fun _ => by good) (LE.many (by good) (by good) (AdvE.quotedItem q)
    fun _ _ => LE.orElse LE.escaped (LE.sat _)) fun body _ _ _ => ?_
  exact LE.bind (by good) (fun _ => by good) (LE.lit _) fun _ _ _ _ => LE.pure _

theorem LE.bracketedItem {s : PState} : LE a b bracketedItem bracketedItem s := by
  unfold ParserE.bracketedItem
  refine LE.orElse ?_ (LE.orElse ?_ ?_)
  · refine LE.bind (by good) (fun _ => by good) (LE.number hcut) fun x _ _ _ => ?_
    obtain ⟨off, n⟩ := x
    exact LE.pure _
  · exact LE.bind (by good) (fun _ => by good) LE.getPos fun off _ _ _ =>
      LE.bind (by good) (fun _ => by good) LE.escaped fun c _ _ _ => LE.pure _
  · exact LE.bind (by good) (fun _ => by good) LE.getPos fun off _ _ _ =>
      LE.bind (by good) (fun _ => by good) (LE.sat _) fun c _ _ _ => LE.pure _

omit hcut in
theorem AdvE.bracketedItem : AdvE bracketedItem := AdvE.of_sim Sim.bracketedItem Parser.adv_bracketedItem

theorem LE.bracketedString {s : PState} : LE a b bracketedString bracketedString s := by
  unfold ParserE.bracketedString
  refine LE.bind (by good) (fun _ => by good) LE.getPos fun off _ _ _ => ?_
  refine LE.bind (by good) (fun _ => by good) (LE.lit _) fun _ _ _ _ => ?_
  refine LE.bind (by good) (fun _ => by good) (LE.many (by good) (by good) AdvE.bracketedItem
    fun _ _ => LE.bracketedItem hcut) fun body _ _ _ => ?_
  exact LE.bind (by good) (fun _ => by good) (LE.lit _) fun _ _ _ _ => LE.pure _

omit hcut in
/-- the first part of `string` consumes something -/
theorem AdvE.atom (static : Bool) : AdvE (ParserE.atom static) := by
  refine AdvE.of_sim (p := Parser.atom static) ?_ (Parser.adv_atom static)
  unfold ParserE.atom
  refine Sim.orElse Sim.nakedString (Sim.orElse (Sim.quotedString _) (Sim.orElse (Sim.quotedString _) ?_))
  cases static
  · exact Sim.bracketedString
  · exact Sim.fail

theorem LE.atom (static : Bool) {s : PState} : LE a b (ParserE.atom static) (ParserE.atom static) s := by
  unfold ParserE.atom
  refine LE.orElse (LE.nakedString hcut) (LE.orElse (LE.quotedString _) (LE.orElse (LE.quotedString _) ?_))
  cases static
  · exact LE.bracketedString hcut
  · exact LE.fail

theorem LE.stringF (static : Bool) : ∀ (k k' : Nat) {s : PState},
    (s.pos < a.length → a.length - s.pos < k ∧ a.length - s.pos < k') →
    LE a b (stringF static k') (stringF static k) s
  | 0, k', s, h => LE.of_ge (Good.stringF static k') (by
      apply Classical.byContradiction
      intro hn
      have := (h (by omega)).1
      omega)
  | k + 1, k', s, h => by
    by_cases hge : a.length ≤ s.pos
    · exact LE.of_ge (Good.stringF static k') hge
    have hlt : s.pos < a.length := by omega
    cases k' with
    | zero => have := (h hlt).2; omega
    | succ k' =>
      unfold ParserE.stringF
      refine LE.bind (m' := ParserE.atom static) (m := ParserE.atom static) (by good) (fun _ => by good)
        (LE.atom hcut static) fun first s1 _ hr1 => ?_
      have h1 : s.pos < s1.pos := (AdvE.atom static).lt_at hlt hr1
      refine LE.bind (by good) (fun _ => by good) (LE.opt (by good) ?_) fun rest _ _ _ => LE.pure _
      refine LE.bind (by good) (fun _ => by good) LE.getPos fun off s2 hlt2 hr2 => ?_
      have h2 : s1.pos ≤ s2.pos := Good.getPos.le_at hlt2 hr2
      refine LE.bind (by good) (fun _ => by good) (LE.textOf Good.ohsp Good.ohsp LE.ohsp) fun space s3 hlt3 hr3 => ?_
      have h3 : s2.pos ≤ s3.pos := (Good.textOf Good.ohsp).le_at hlt3 hr3
      refine LE.bind (by good) (fun _ => by good) ?_ fun _ _ _ _ => LE.pure _
      exact LE.stringF static k k' (fun _ => by have := h hlt; omega)

theorem LE.string (static : Bool) {s : PState} : LE a b (string static) (string static) s := by
  unfold ParserE.string
  refine LE.bind_remaining ?_
  exact LE.stringF hcut static _ _ (fun _ => by rw [size_cut, size_a]; omega)

omit hcut in
theorem AdvE.string (static : Bool) : AdvE (string static) := AdvE.of_sim (Sim.string static) (Parser.adv_string static)

/-! ## amounts -/

theorem LE.hspPreposition {s : PState} : LE a b hspPreposition hspPreposition s := by
  unfold ParserE.hspPreposition
  refine LE.orElse (LE.textOf (by good) (by good) ?_) (LE.pure _)
  exact LE.bind (by good) (fun _ => by good) (LE.hsp hcut) fun _ _ _ _ => LE.preposition hcut

theorem LE.proportion {s : PState} : LE a b proportion proportion s := by
  unfold ParserE.proportion
  refine LE.orElse ?_ ?_
  · refine LE.bind (by good) (fun _ => by good) LE.getPos fun off _ _ _ => ?_
    refine LE.bind (by good) (fun _ => by good) (LE.textOf (by good) (by good) (LE.remainder hcut)) fun wording _ _ _ => ?_
    exact LE.bind (by good) (fun _ => by good) (LE.hspPreposition hcut) fun prep _ _ _ => LE.pure _
  · refine LE.bind (by good) (fun _ => by good) (LE.number hcut) fun x _ _ _ => ?_
    obtain ⟨off, v⟩ := x
    refine LE.orElse ?_ (LE.orElse ?_ ?_)
    · refine LE.bind (by good) (fun _ => by good) (LE.textOf (by good) (by good) ?_) fun prep _ _ _ => LE.pure _
      exact LE.bind (by good) (fun _ => by good) (LE.hsp hcut) fun _ _ _ _ => LE.preposition hcut
    · refine LE.bind (by good) (fun _ => by good) (LE.textOf (by good) (by good) ?_) fun prep _ _ _ => LE.pure _
      refine LE.bind (by good) (fun _ => by good) LE.ohsp fun _ _ _ _ => ?_
      refine LE.bind (by good) (fun _ => by good) (LE.lit _) fun _ _ _ _ => ?_
      exact LE.bind (by good) (fun _ => by good) (LE.hspPreposition hcut) fun _ _ _ _ => LE.pure _
    · refine LE.bind (by good) (fun _ => by good) (LE.textOf (by good) (by good) ?_) fun prep _ _ _ => LE.pure _
      exact LE.bind (by good) (fun _ => by good) LE.ohsp fun _ _ _ _ => LE.lit _

theorem LE.explicitQuantity {s : PState} : LE a b explicitQuantity explicitQuantity s := by
  unfold ParserE.explicitQuantity
  refine LE.bind (by good) (fun _ => by good) LE.getPos fun off _ _ _ => ?_
  refine LE.bind (by good) (fun _ => by good) (LE.lit _) fun _ _ _ _ => ?_
  refine LE.bind (by good) (fun _ => by good) LE.ohsp fun _ _ _ _ => ?_
  refine LE.bind (by good) (fun _ => by good) (LE.number hcut) fun x _ _ _ => ?_
  obtain ⟨o, v⟩ := x
  refine LE.bind (by good) (fun _ => by good) (LE.opt (by good) ?_) fun unit _ _ _ => ?_
  · refine LE.bind (by good) (fun _ => by good) (LE.textOf Good.ohsp Good.ohsp LE.ohsp) fun spacing _ _ _ => ?_
    exact LE.bind (by good) (fun _ => by good) (LE.string hcut true) fun u _ _ _ => LE.pure _
  refine LE.bind (by good) (fun _ => by good) LE.ohsp fun _ _ _ _ => ?_
  refine LE.bind (by good) (fun _ => by good) (LE.lit _) fun _ _ _ _ => ?_
  exact LE.bind (by good) (fun _ => by good) (LE.hspPreposition hcut) fun prep _ _ _ => LE.pure _

theorem LE.implicitQuantity {s : PState} : LE a b implicitQuantity implicitQuantity s := by
  unfold ParserE.implicitQuantity
  refine LE.bind (by good) (fun _ => by good) (LE.number hcut) fun x _ _ _ => ?_
  obtain ⟨off, v⟩ := x
  refine LE.bind (by good) (fun _ => by good) (LE.opt (by good) ?_) fun unit _ _ _ => ?_
  · refine LE.bind (by good) (fun _ => by good) (LE.textOf Good.ohsp Good.ohsp LE.ohsp) fun spacing _ _ _ => ?_
    refine LE.bind (by good) (fun _ => by good) LE.getPos fun unitOff _ _ _ => ?_
    refine LE.bind (by good) (fun _ => by good) (LE.textOf (by good) (by good) (LE.knownUnit hcut)) fun name _ _ _ => ?_
    exact LE.bind (by good) (fun _ => by good) (LE.hspPreposition hcut) fun prep _ _ _ => LE.pure _
  · cases unit with
    | none => exact LE.pure _
    | some u => obtain ⟨spacing, u, prep⟩ := u; exact LE.pure _

/-! ## expressions -/

theorem LE.reference {s : PState} : LE a b reference reference s := by
  unfold ParserE.reference
  refine LE.bind (by good) (fun _ => by good) (LE.opt (by good) ?_) fun amount _ _ _ => ?_
  · refine LE.bind (by good) (fun _ => by good)
      (LE.orElse (LE.proportion hcut) (LE.orElse (LE.explicitQuantity hcut) (LE.implicitQuantity hcut))) fun x _ _ _ => ?_
    exact LE.bind (by good) (fun _ => by good) LE.ohsp fun _ _ _ _ => LE.pure _
  · exact LE.bind (by good) (fun _ => by good) (LE.string hcut false) fun name _ _ _ => LE.pure _

theorem LE.step {e' e : PE AExpr} (hge' : Good e') (hge : Good e) {s : PState}
    (he : ∀ s1 : PState, s.pos < s1.pos → LE a b e' e s1) : LE a b (step e') (step e) s := by
  unfold ParserE.step
  refine LE.bind (by good) (fun _ => by good) (LE.string hcut false) fun name s1 hlt0 hr1 => ?_
  have h1 : s.pos < s1.pos := (AdvE.string false).lt_at hlt0 hr1
  refine LE.bind (by good) (fun _ => by good) LE.ohsp fun _ s2 hlt1 hr2 => ?_
  have h2 : s1.pos ≤ s2.pos := Good.ohsp.le_at hlt1 hr2
  refine LE.bind (by good) (fun _ => by good) (LE.lit _) fun _ s3 hlt2 hr3 => ?_
  have h3 : s2.pos ≤ s3.pos := (Good.lit _).le_at hlt2 hr3
  refine LE.bind (by good) (fun _ => by good) LE.osp fun _ s4 hlt3 hr4 => ?_
  have h4 : s3.pos ≤ s4.pos := Good.osp.le_at hlt3 hr4
  refine LE.bind hge' (fun _ => by good) (he s4 (by omega)) fun first s5 hlt4 hr5 => ?_
  have h5 : s4.pos ≤ s5.pos := hge.le_at hlt4 hr5
  refine LE.bind (by good) (fun _ => by good) (LE.many (by good) (by good) ?_ fun s6 h6 => ?_) fun rest _ _ _ => ?_
  · exact AdvE.bind_right Good.osp fun _ => AdvE.bind_left (AdvE.lit _) (Good.lit _) (fun _ => by good)
  · refine LE.bind (by good) (fun _ => by good) LE.osp fun _ s7 hlt6 hr7 => ?_
    have h7 : s6.pos ≤ s7.pos := Good.osp.le_at hlt6 hr7
    refine LE.bind (by good) (fun _ => by good) (LE.lit _) fun _ s8 hlt7 hr8 => ?_
    have h8 : s7.pos ≤ s8.pos := (Good.lit _).le_at hlt7 hr8
    refine LE.bind (by good) (fun _ => by good) LE.osp fun _ s9 hlt8 hr9 => ?_
    have h9 : s8.pos ≤ s9.pos := Good.osp.le_at hlt8 hr9
    exact he s9 (by omega)
  refine LE.bind (by good) (fun _ => by good) (LE.opt (by good) ?_) fun _ _ _ _ => ?_
  · exact LE.bind (by good) (fun _ => by good) LE.osp fun _ _ _ _ => LE.lit _
  refine LE.bind (by good) (fun _ => by good) LE.osp fun _ _ _ _ => ?_
  exact LE.bind (by good) (fun _ => by good) (LE.lit _) fun _ _ _ _ => LE.pure _

omit hcut in
theorem AdvE.commaString : AdvE ParserE.commaString :=
  AdvE.bind_right Good.ohsp fun _ => AdvE.bind_left (AdvE.lit _) (Good.lit _) (fun _ => by good)

theorem LE.commaString {s : PState} : LE a b ParserE.commaString ParserE.commaString s :=
  LE.bind (by good) (fun _ => by good) LE.ohsp fun _ _ _ _ =>
    LE.bind (by good) (fun _ => by good) (LE.lit _) fun _ _ _ _ =>
      LE.bind (by good) (fun _ => by good) LE.ohsp fun _ _ _ _ => LE.string hcut false

theorem LE.ltrShorthand {e' e : PE AExpr} (hge' : Good e') {s : PState} (he : LE a b e' e s) :
    LE a b (ltrShorthand e') (ltrShorthand e) s := by
  unfold ParserE.ltrShorthand
  refine LE.bind hge' (fun _ => by good) he fun first _ _ _ => ?_
  refine LE.bind (by good) (fun _ => by good) (LE.many (p' := ParserE.commaString) (p := ParserE.commaString)
    (by good) (by good) AdvE.commaString fun _ _ => LE.commaString hcut) fun actions _ _ _ => ?_
  exact LE.pure _

theorem LE.expr : ∀ (k k' : Nat) {s : PState},
    (s.pos < a.length → a.length - s.pos < k ∧ a.length - s.pos < k') → LE a b (ParserE.expr k') (ParserE.expr k) s
  | 0, k', s, h => LE.of_ge (Good.expr k') (by
      apply Classical.byContradiction
      intro hn
      have := (h (by omega)).1
      omega)
  | k + 1, k', s, h => by
    by_cases hge : a.length ≤ s.pos
    · exact LE.of_ge (Good.expr k') hge
    have hlt : s.pos < a.length := by omega
    cases k' with
    | zero => have := (h hlt).2; omega
    | succ k' =>
      have he : ∀ s1 : PState, s.pos < s1.pos → LE a b (ParserE.expr k') (ParserE.expr k) s1 :=
        fun s1 h1 => LE.expr k k' (s := s1) (fun _ => by have := h hlt; omega)
      unfold ParserE.expr
      refine LE.orElse (LE.step hcut (Good.expr _) (Good.expr _) he) (LE.orElse (LE.reference hcut) ?_)
      refine LE.bind (by good) (fun _ => by good) (LE.lit _) fun _ s1 _ hr1 => ?_
      have h1 : s.pos < s1.pos := (AdvE.lit _).lt_at hlt hr1
      refine LE.bind (by good) (fun _ => by good) LE.osp fun _ s2 hlt1 hr2 => ?_
      have h2 : s1.pos ≤ s2.pos := Good.osp.le_at hlt1 hr2
      refine LE.bind (by good) (fun _ => by good) (LE.ltrShorthand hcut (Good.expr _) (he s2 (by omega))) fun e0 _ _ _ => ?_
      refine LE.bind (by good) (fun _ => by good) LE.osp fun _ _ _ _ => ?_
      exact LE.bind (by good) (fun _ => by good) (LE.lit _) fun _ _ _ _ => LE.pure _

/-! ## statements -/

theorem LE.eol {s : PState} : LE a b eol eol s :=
  LE.orElse (LE.eolBreak hcut) (LE.bind (by good) (fun _ => by good) LE.liftOhsp fun _ _ _ _ => LE.eof)

theorem LE.outputList {s : PState} : LE a b outputList outputList s := by
  unfold ParserE.outputList
  refine LE.bind (by good) (fun _ => by good) (LE.string hcut false) fun first _ _ _ => ?_
  refine LE.bind (by good) (fun _ => by good) (LE.many (p' := ParserE.commaString) (p := ParserE.commaString)
    (by good) (by good) AdvE.commaString fun _ _ => LE.commaString hcut) fun rest _ _ _ => ?_
  exact LE.pure _

theorem LE.stmt {s : PState} : LE a b stmt stmt s := by
  unfold ParserE.stmt
  refine LE.bind (by good) (fun _ => by good) (LE.opt (by good) ?_) fun target s1 _ _ => ?_
  · refine LE.bind (by good) (fun _ => by good) (LE.outputList hcut) fun outputs _ _ _ => ?_
    refine LE.bind (by good) (fun _ => by good) LE.ohsp fun _ _ _ _ => ?_
    refine LE.bind (by good) (fun _ => by good) (LE.assign hcut) fun named _ _ _ => ?_
    exact LE.bind (by good) (fun _ => by good) LE.ohsp fun _ _ _ _ => LE.pure _
  refine LE.bind_remaining ?_
  refine LE.bind (by good) (fun _ => by good) (LE.ltrShorthand hcut (Good.expr _)
    (LE.expr hcut _ _ (fun _ => by rw [size_cut, size_a]; omega))) fun e0 _ _ _ => ?_
  exact LE.bind (by good) (fun _ => by good) (LE.eol hcut) fun _ _ _ _ => LE.pure _

omit hcut in
theorem AdvE.expr : ∀ k, AdvE (expr k)
  | 0 => AdvE.fail
  | k + 1 => by
    unfold ParserE.expr
    refine AdvE.orElse ?_ (AdvE.orElse ?_ ?_)
    · unfold ParserE.step
      exact AdvE.bind_left (AdvE.string false) (Good.string false) (fun _ => by good)
    · unfold ParserE.reference
      exact AdvE.bind_right (by good) fun _ => AdvE.bind_left (AdvE.string false) (Good.string false) (fun _ => Good.pure _)
    · exact AdvE.bind_left (AdvE.lit _) (Good.lit _) (fun _ => by good)

omit hcut in
theorem AdvE.stmt : AdvE stmt := by
  unfold ParserE.stmt
  refine AdvE.bind_right (by good) fun target => AdvE.bind_right Good.remaining fun r => ?_
  refine AdvE.bind_left ?_ (Good.ltrShorthand (Good.expr _)) (fun _ => by good)
  unfold ParserE.ltrShorthand
  exact AdvE.bind_left (AdvE.expr _) (Good.expr _) (fun _ => by good)

/-- **prefix stability of the whole grammar** -/
theorem LE.recipe {s : PState} : LE a b recipe recipe s := by
  unfold ParserE.recipe
  refine LE.bind (by good) (fun _ => by good) LE.osp fun _ _ _ _ => ?_
  refine LE.bind (by good) (fun _ => by good) (LE.stmt hcut) fun first _ _ _ => ?_
  refine LE.bind (by good) (fun _ => by good) (LE.many Good.stmt Good.stmt AdvE.stmt fun _ _ => LE.stmt hcut)
    fun rest _ _ _ => ?_
  exact LE.bind (by good) (fun _ => by good) LE.eof fun _ _ _ _ => LE.pure _

end
end ParserE

/-- **a text that is accepted and ends in a line break is never blamed for what follows it**: if `a` ends in a line
    break and the grammar accepts `a`, and `a ++ b` is rejected, then the reported offset is not inside `a` -/
theorem prefix_syntaxError_offset (a b : Str) (hcut : ParserE.Cut a) (stmts : List AStmt) (ha : parseE a = .ok stmts)
    (off : Nat) (hab : parseE (a ++ b) = .syntaxError off) : a.length ≤ off := by
  unfold parseE at ha hab
  rcases ParserE.LE.recipe (b := b) hcut (s := ⟨0, false⟩) (Nat.zero_le _) with e | ⟨f, hf, hle⟩ | ⟨x, s1, e, _⟩
  · rw [e, ha] at hab
    cases hab
  · cases hr : ParserE.recipe (a ++ b).toArray ⟨0, false⟩ with
    | mk r far =>
      rw [hr] at hab hf
      cases r with
      | some y => cases hab
      | none =>
        simp only at hf hab
        subst hf
        simp only [Option.getD_some, ParseResultE.syntaxError.injEq] at hab
        omega
  · cases hr : ParserE.recipe (a ++ b).toArray ⟨0, false⟩ with
    | mk r far =>
      rw [hr] at hab e
      simp only at e
      subst e
      cases hab

end RG
