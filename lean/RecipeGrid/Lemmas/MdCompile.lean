import RecipeGrid.Model.MdCompile
import RecipeGrid.Props.C13e
import RecipeGrid.Props.C19c
import RecipeGrid.Lemmas.MdCompileLines
/-! Helper lemmas about `Model/MdCompile.lean` (`mdCompile`): the loop over the independent recipes, the classification of
    what `compile` raises, the empty recipe block, and the line just beyond the document. -/
namespace RG

/-! ## the loop of `render_document` -/

theorem mdRun_nil (doc : Str) (n : Nat) : mdRun doc [] n = .ok n := rfl

theorem mdRun_cons (doc : Str) (g : List MdBlock) (gs : List (List MdBlock)) (n : Nat) :
    mdRun doc (g :: gs) n =
      match compileOutcome (mdGroupSources doc g) with
      | some e => e
      | none => mdRun doc gs (n + 1) := rfl

/-- while the groups compile the loop goes on -/
theorem mdRun_append_of_none (doc : Str) (pre gs : List (List MdBlock)) (n : Nat)
    (h : ∀ g ∈ pre, compileOutcome (mdGroupSources doc g) = none) :
    mdRun doc (pre ++ gs) n = mdRun doc gs (n + pre.length) := by
  induction pre generalizing n with
  | nil => simp
  | cons g pre ih =>
    rw [List.cons_append, mdRun_cons, h g (by simp)]
    simp only []
    rw [ih (n + 1) (fun g' hg' => h g' (List.mem_cons_of_mem _ hg'))]
    simp only [List.length_cons]
    congr 1; omega

/-- the two ways the loop ends: every group compiled, or a first group did not -/
theorem mdRun_cases (doc : Str) (gs : List (List MdBlock)) (n : Nat) :
    ((∀ g ∈ gs, compileOutcome (mdGroupSources doc g) = none) ∧ mdRun doc gs n = .ok (n + gs.length)) ∨
    (∃ pre g post e, gs = pre ++ g :: post ∧ (∀ g' ∈ pre, compileOutcome (mdGroupSources doc g') = none) ∧
      compileOutcome (mdGroupSources doc g) = some e ∧ mdRun doc gs n = e) := by
  induction gs generalizing n with
  | nil => exact Or.inl ⟨by simp, rfl⟩
  | cons g gs ih =>
    cases hg : compileOutcome (mdGroupSources doc g) with
    | some e =>
      exact Or.inr ⟨[], g, gs, e, rfl, by simp, hg, by rw [mdRun_cons, hg]⟩
    | none =>
      rcases ih (n + 1) with ⟨hall, hok⟩ | ⟨pre, g', post, e, hgs, hpre, hg', hrun⟩
      · left
        refine ⟨?_, ?_⟩
        · intro x hx
          rcases List.mem_cons.1 hx with rfl | hx
          · exact hg
          · exact hall x hx
        · rw [mdRun_cons, hg]
          simp only [List.length_cons]
          rw [hok]; congr 1; omega
      · right
        refine ⟨g :: pre, g', post, e, by rw [hgs]; rfl, ?_, hg', by rw [mdRun_cons, hg]; exact hrun⟩
        intro x hx
        rcases List.mem_cons.1 hx with rfl | hx
        · exact hg
        · exact hpre x hx

/-! ## what `compile` raises, as the caller sees it -/

theorem compileOutcome_none_iff (srcs : List Str) : compileOutcome srcs = none ↔ ∃ bs, compile srcs = .ok bs := by
  unfold compileOutcome
  cases hc : compile srcs with
  | ok bs => simp
  | syntaxError b =>
    simp only []
    constructor
    · intro h
      cases hp : parseE (srcs[b]?.getD []) with
      | ok l => rw [hp] at h; cases h
      | syntaxError off =>
        rw [hp] at h
        simp only [] at h
        cases hq : syntaxErrorSnippet (srcs[b]?.getD []) off <;> rw [hq] at h <;> cases h
    · rintro ⟨bs, h⟩; cases h
  | redefined b off =>
    simp only []
    constructor
    · intro h
      cases hq : extractLine (srcs[b]?.getD []) (offsetToLineCol (srcs[b]?.getD []) off).1 <;> rw [hq] at h <;> cases h
    · rintro ⟨bs, h⟩; cases h
  | proportion b off =>
    simp only []
    constructor
    · intro h
      cases hq : extractLine (srcs[b]?.getD []) (offsetToLineCol (srcs[b]?.getD []) off).1 <;> rw [hq] at h <;> cases h
    · rintro ⟨bs, h⟩; cases h
  | zeroDivision b => simp
  | internal why => simp

/-- the classification of a failing group: exactly one of the three documented exceptions, with the line, the column and
    the quoted line computed from the source of the block `compile` names -/
theorem compileOutcome_some (srcs : List Str) (e : MdOutcome) (h : compileOutcome srcs = some e) :
    (∃ b s off q, compile srcs = .syntaxError b ∧ srcs[b]? = some s ∧ parseE s = .syntaxError off ∧
        syntaxErrorSnippet s off = some q ∧
        e = .syntaxError (syntaxErrorLineCol s off).1 (syntaxErrorLineCol s off).2 q) ∨
    (∃ b s off q, compile srcs = .redefined b off ∧ srcs[b]? = some s ∧
        extractLine s (offsetToLineCol s off).1 = some q ∧
        e = .redefined (offsetToLineCol s off).1 (offsetToLineCol s off).2 q) ∨
    (∃ b s off q, compile srcs = .proportion b off ∧ srcs[b]? = some s ∧
        extractLine s (offsetToLineCol s off).1 = some q ∧
        e = .proportion (offsetToLineCol s off).1 (offsetToLineCol s off).2 q) := by
  unfold compileOutcome at h
  cases hc : compile srcs with
  | ok bs => rw [hc] at h; cases h
  | zeroDivision b => exact absurd hc ((C07.compile_never_undocumented srcs).1 b)
  | internal why => exact absurd hc ((C07.compile_never_undocumented srcs).2 why)
  | syntaxError b =>
    rw [hc] at h
    simp only [] at h
    obtain ⟨s, off, hs, hp, _, _, _, _, _, hq⟩ := C07.compile_syntax_error_located srcs b hc
    rw [hs, Option.getD_some, hp] at h
    simp only [] at h
    obtain ⟨q, hq'⟩ := Option.isSome_iff_exists.1 hq
    rw [hq'] at h
    simp only [Option.some.injEq] at h
    exact Or.inl ⟨b, s, off, q, rfl, hs, hp, hq', h.symm⟩
  | redefined b off =>
    rw [hc] at h
    simp only [] at h
    obtain ⟨s, hs, _⟩ := (C07.compile_error_in_source srcs).2.1 b off hc
    rw [hs, Option.getD_some] at h
    obtain ⟨q, hq⟩ := Option.isSome_iff_exists.1 (C07.extractLine_total s off)
    rw [hq] at h
    simp only [Option.some.injEq] at h
    exact Or.inr (Or.inl ⟨b, s, off, q, rfl, hs, hq, h.symm⟩)
  | proportion b off =>
    rw [hc] at h
    simp only [] at h
    obtain ⟨s, hs, _⟩ := (C07.compile_error_in_source srcs).2.2 b off hc
    rw [hs, Option.getD_some] at h
    obtain ⟨q, hq⟩ := Option.isSome_iff_exists.1 (C07.extractLine_total s off)
    rw [hq] at h
    simp only [Option.some.injEq] at h
    exact Or.inr (Or.inr ⟨b, s, off, q, rfl, hs, hq, h.symm⟩)

/-! ## the groups are the groups of `Props/C13e.lean` -/

theorem mdGroups_eq (doc : Str) : mdGroups doc = (groupBlocks (C13.docKinds2 doc)).map (C13.groupOf2 doc) := rfl

theorem mdGroups_mem (doc : Str) (g : List MdBlock) (hg : g ∈ mdGroups doc) : ∀ b ∈ g, b ∈ scanBlocks2 doc := by
  rw [mdGroups_eq] at hg
  obtain ⟨ix, _, rfl⟩ := List.mem_map.1 hg
  exact C13.groupOf2_mem doc ix

theorem mdGroupSources_eq (doc : Str) (g : List MdBlock) :
    mdGroupSources doc g = C19.mdSources doc (g.map fun b => (b.pos, b.kind.isFenced, b.source)) := by
  simp only [mdGroupSources, C19.mdSources, List.map_map]
  rfl

theorem mdGroupSources_getElem? (doc : Str) (g : List MdBlock) (i : Nat) :
    (mdGroupSources doc g)[i]? = g[i]?.map fun b => paddedSource doc b.pos b.kind.isFenced b.source := by
  simp only [mdGroupSources, List.getElem?_map]

/-! ## the text of a block -/

theorem codeSource_ne_nil (ls : List TLine) : codeSource ls ≠ [] := by simp [codeSource]

/-- an indented block is never empty -/
theorem scan2_indented_source_ne_nil (doc : Str) (b : MdBlock) (hb : b ∈ scanBlocks2 doc) (hk : b.kind.isFenced = false) :
    b.source ≠ [] := by
  obtain ⟨pre, t, rest, _, h⟩ := C19.scan2_origin doc b hb
  rcases h with ⟨f, _, rfl⟩ | ⟨_, rfl⟩
  · simp [CodeBlockKind.isFenced] at hk
  · exact codeSource_ne_nil _

/-! ## the empty text -/

theorem parseE_nil : parseE [] = .syntaxError 0 := by
  have h : C07.errOffset (parseE []) = some 0 := by decide +kernel
  cases hp : parseE [] with
  | ok l => rw [hp] at h; cases h
  | syntaxError off => rw [hp] at h; simp only [C07.errOffset, Option.some.injEq] at h; rw [h]

theorem splitLinesKeep_replicate_nl (k : Nat) : splitLinesKeep (List.replicate k '\n') = List.replicate k ['\n'] := by
  have := C19.splitLinesKeep_pad k []
  simpa [C19.pad, splitLinesKeep, splitLinesKeepAux] using this

theorem offsetToLineColAux_replicate_end (k : Nat) (x : Str) (rem n last : Nat)
    (hrem : k * x.length ≤ rem) (hk : 0 < k) :
    offsetToLineColAux (List.replicate k x) rem n last = (n + k, x.length + 1) := by
  induction k generalizing rem n last with
  | zero => omega
  | succ k ih =>
    rw [List.replicate_succ, offsetToLineColAux]
    have h1 : ¬ rem < x.length := by
      have : x.length ≤ (k + 1) * x.length := Nat.le_mul_of_pos_left _ (by omega)
      omega
    rw [if_neg h1]
    by_cases hk0 : k = 0
    · subst hk0
      simp [offsetToLineColAux]
    · rw [ih (rem - x.length) (n + 1) x.length (by
        have : (k + 1) * x.length = k * x.length + x.length := Nat.succ_mul _ _
        omega) (by omega)]
      congr 1; omega

/-- the end of `k ≥ 1` newlines is reported on the last of them, at column 2, quoting the empty line -/
theorem offsetToLineCol_replicate_nl (k : Nat) (hk : 0 < k) : offsetToLineCol (List.replicate k '\n') k = (k, 2) := by
  unfold offsetToLineCol
  rw [splitLinesKeep_replicate_nl]
  cases k with
  | zero => omega
  | succ k =>
    have := offsetToLineColAux_replicate_end (k + 1) ['\n'] (k + 1) 0 0 (by simp) (by omega)
    simp only [List.replicate_succ] at this ⊢
    simpa using this

theorem extractLine_replicate_nl (k : Nat) (hk : 0 < k) : extractLine (List.replicate k '\n') k = some [] := by
  unfold extractLine splitLines
  rw [splitLinesKeep_replicate_nl]
  have hne : (List.replicate k '\n').isEmpty = false := by
    cases k with
    | zero => omega
    | succ k => simp [List.replicate_succ]
  rw [hne]
  simp only [Bool.false_eq_true, if_false]
  rw [if_neg (by omega)]
  simp only [List.map_replicate]
  rw [List.getElem?_replicate, if_pos (by omega)]
  rfl

/-! ## the column -/

/-- the column marker is under a character of the quoted line, or just behind it (at the line's terminator, or — at the
    end of a text that ends in a line break — one further) -/
theorem col_le_of_no_cr (X : Str) (hr : '\r' ∉ X) (off : Nat) (q : Str)
    (hq : extractLine X (offsetToLineCol X off).1 = some q) : (offsetToLineCol X off).2 ≤ q.length + 2 := by
  by_cases hX : X = []
  · subst hX
    simp [offsetToLineCol, splitLinesKeep, splitLinesKeepAux]
  · rw [C07.extractLine_is_line X off hX] at hq
    obtain ⟨_, _, _, h4⟩ := C07.offset_located X off
    cases hl : (splitLinesKeep X)[(offsetToLineCol X off).1 - 1]? with
    | none => rw [hl] at hq; cases hq
    | some line =>
      rw [hl] at hq h4
      simp only [Option.map_some, Option.some.injEq, Option.getD_some] at hq h4
      have hmem : line ∈ splitLinesKeep X := List.mem_of_getElem? hl
      obtain ⟨body, hshape⟩ := splitLinesKeep_shape X line hmem
      rw [dropTerminator_of_shape line body hshape] at hq
      subst hq
      obtain ⟨_, h | h | ⟨c, _, h⟩⟩ := hshape
      · rw [h] at h4; omega
      · exfalso
        apply hr
        rw [← splitLinesKeep_flatten X]
        exact List.mem_flatten.2 ⟨line, hmem, by rw [h]; simp⟩
      · rw [h] at h4; simp at h4; omega

theorem not_cr_mem_paddedSource (doc : Str) (pos : Nat) (fenced : Bool) (src : Str) :
    '\r' ∉ paddedSource doc pos fenced src := by
  unfold paddedSource
  intro h
  rcases List.mem_append.1 h with h | h
  · have := (List.mem_replicate.mp h).2; cases this
  · exact not_cr_mem_crToLf _ h

/-! ## which fault wins inside one call of `compile` -/

/-- `compile` parses the blocks in order: the first block the grammar rejects is the one reported -/
theorem parseAll_error_first : ∀ (srcs : List Str) (i : Nat) (e : CompileResult), parseAll i srcs = .error e →
    ∃ b s, e = .syntaxError (i + b) ∧ srcs[b]? = some s ∧ parse s = .syntaxError ∧
      ∀ j, j < b → ∀ s', srcs[j]? = some s' → ∃ stmts, parse s' = .ok stmts
  | [], i, e, h => by rw [parseAll_nil] at h; cases h
  | s :: ss, i, e, h => by
    rw [parseAll_cons] at h
    cases hp : parse s with
    | syntaxError =>
      rw [hp] at h; cases h
      exact ⟨0, s, rfl, rfl, hp, fun j hj => absurd hj (Nat.not_lt_zero j)⟩
    | zeroDivision => exact absurd hp (C07.parse_never_zeroDivision s)
    | ok stmts =>
      rw [hp] at h
      simp only [] at h
      cases hr : parseAll (i + 1) ss with
      | error e' =>
        rw [hr] at h
        cases h
        obtain ⟨b, s', hb, hs', hps, hfirst⟩ := parseAll_error_first ss (i + 1) _ hr
        refine ⟨b + 1, s', by rw [hb]; congr 1; omega, by simpa using hs', hps, ?_⟩
        intro j hj s'' hs''
        cases j with
        | zero => simp at hs''; subst hs''; exact ⟨stmts, hp⟩
        | succ j => exact hfirst j (by omega) s'' (by simpa using hs'')
      | ok rest => rw [hr] at h; cases h

/-- a syntax error is reported for the FIRST block (in the order given) that the grammar rejects; the blocks before it
    parse — whatever compile errors they may hold -/
theorem compile_syntaxError_first (srcs : List Str) (b : Nat) (h : compile srcs = .syntaxError b) :
    (∃ s, srcs[b]? = some s ∧ parse s = .syntaxError) ∧
      ∀ j, j < b → ∀ s', srcs[j]? = some s' → ∃ stmts, parse s' = .ok stmts := by
  rcases C07.compile_cases srcs with ⟨e, hp, hc⟩ | ⟨asts, e, hp, hb, hc⟩ | ⟨asts, bs, st, bs', _, _, hc⟩
  · obtain ⟨b', s, he, hs, hps, hfirst⟩ := parseAll_error_first srcs 0 e hp
    rw [hc, he] at h
    simp only [Nat.zero_add, CompileResult.syntaxError.injEq] at h
    subst h
    exact ⟨⟨s, hs, hps⟩, hfirst⟩
  · rw [hc] at h
    rcases compileBlocks_error asts 0 {} e hb with ⟨b', off', hx | hx, _⟩ | ⟨why, hx⟩ <;> rw [hx] at h <;> cases h
  · rw [hc] at h; cases h

/-- a redefinition / a proportion of an unknown name is reported only when EVERY block parses: all the blocks are parsed
    before any is compiled -/
theorem compile_located_all_parse (srcs : List Str) (b off : Nat)
    (h : compile srcs = .redefined b off ∨ compile srcs = .proportion b off) :
    ∀ s ∈ srcs, ∃ stmts, parse s = .ok stmts := by
  rcases C07.compile_cases srcs with ⟨e, hp, hc⟩ | ⟨asts, e, hp, _, _⟩ | ⟨asts, bs, st, bs', hp, _, _⟩
  · obtain ⟨b', he, _⟩ := parseAll_error_syntax srcs 0 e hp
    rw [hc, he] at h
    rcases h with h | h <;> cases h
  all_goals
    obtain ⟨_, hk⟩ := parseAll_ok srcs 0 asts hp
    intro s hs
    obtain ⟨k, hk', hks⟩ := List.mem_iff_getElem.1 hs
    obtain ⟨a, _, ha⟩ := hk k s (by rw [List.getElem?_eq_getElem hk', hks])
    exact ⟨a, ha⟩

/-! ## small facts used by `Props/C19f.lean` -/

theorem isFenced_false_iff (k : CodeBlockKind) : k.isFenced = false ↔ k = .indented := by
  cases k <;> simp [CodeBlockKind.isFenced]

theorem filter_zipIdx_fst {α : Type} (f : α → Bool) (l : List α) (m : Nat) :
    ((l.zipIdx m).filter (fun x => f x.1)).map (·.1) = l.filter f := by
  induction l generalizing m with
  | nil => simp
  | cons a l ih =>
    simp only [List.zipIdx_cons, List.filter_cons]
    by_cases h : f a = true
    · simp [h, ih]
    · simp [h, ih]

theorem recipeIndices_filterMap_aux (l pre : List MdBlock) :
    ((((l.map (·.kind)).zipIdx pre.length).filter (fun x => x.1.isRecipe)).map (·.2)).filterMap
        (fun i => (pre ++ l)[i]?) = l.filter (·.kind.isRecipe) := by
  induction l generalizing pre with
  | nil => simp
  | cons a l ih =>
    have ih' := ih (pre ++ [a])
    simp only [List.length_append, List.length_cons, List.length_nil, Nat.zero_add, List.append_assoc,
      List.cons_append, List.nil_append] at ih'
    simp only [List.map_cons, List.zipIdx_cons, List.filter_cons]
    by_cases h : a.kind.isRecipe = true
    · simp only [h, if_true, List.map_cons, List.filterMap_cons]
      rw [List.getElem?_append_right (Nat.le_refl _)]
      simp only [Nat.sub_self, List.getElem?_cons_zero]
      rw [ih']
    · simp only [h, Bool.false_eq_true, if_false]
      exact ih'

end RG
