import RecipeGrid.Lemmas.Markdown
/-! Helper lemmas for `Props/C18b.lean`: the complete characterisation of how the title and the serving count are
    read from the first heading (`searchServings`, `headingInfo`).

    * `str.strip()` and the regex `\s` use the same table (decided on the regenerated tables), stripping of
      whitespace runs;
    * tokens at the end of a text are unique (`last_token_unique`);
    * `(?i)` matching of a lower-case pattern letter determines the letter (`ciMatches_inj`);
    * a pointwise "same up to ASCII letter case" relation on texts (`CaseRel`) that the matcher cannot observe. -/
namespace RG

/-! ## whitespace tables and `strip` -/

/-- `str.isspace` (used by `str.strip`) and the regex class `\s` are the same set; decided on the regenerated tables -/
theorem spaceTables_eq : Gen.reSpaceRanges = Gen.stripSpaceRanges := by decide

theorem isStripSpace_eq_isReSpace (c : Char) : isStripSpace c = isReSpace c := by
  simp [isStripSpace, isReSpace, inRanges, inTable, spaceTables_eq]

/-- a possibly empty run of `\s` characters -/
def WsRun (s : Str) : Prop := ∀ c ∈ s, isReSpace c = true

instance (s : Str) : Decidable (WsRun s) := inferInstanceAs (Decidable (∀ c ∈ s, _))

theorem SpaceRun.wsRun {s : Str} (h : SpaceRun s) : WsRun s := h.2

theorem WsRun.append {a b : Str} (ha : WsRun a) (hb : WsRun b) : WsRun (a ++ b) := by
  intro c hc
  rcases List.mem_append.mp hc with h | h
  · exact ha c h
  · exact hb c h

theorem WsRun.strip {w : Str} (hw : WsRun w) : ∀ c ∈ w, isStripSpace c = true := by
  intro c hc; rw [isStripSpace_eq_isReSpace]; exact hw c hc

theorem rstripStr_append_ws (s w : Str) (hw : WsRun w) : rstripStr (s ++ w) = rstripStr s := by
  simp only [rstripStr, List.reverse_append]
  rw [List.dropWhile_append_of_pos]
  intro c hc
  exact hw.strip c (List.mem_reverse.mp hc)

theorem stripStr_ws_append (w s : Str) (hw : WsRun w) : stripStr (w ++ s) = stripStr s := by
  simp only [stripStr, lstripStr]
  rw [List.dropWhile_append_of_pos hw.strip]

theorem stripStr_append_ws (s w : Str) (hw : WsRun w) : stripStr (s ++ w) = stripStr s := by
  induction s with
  | nil =>
    have : stripStr ([] ++ w ++ []) = stripStr [] := stripStr_ws_append w [] hw
    simpa using this
  | cons c s ih =>
    by_cases hc : isStripSpace c = true
    · simpa [stripStr, lstripStr, hc] using ih
    · simp only [stripStr, lstripStr, List.cons_append, List.dropWhile_cons, hc]
      exact rstripStr_append_ws (c :: s) w hw

theorem stripStr_ws (w : Str) (hw : WsRun w) : stripStr w = [] := by
  have : stripStr ([] ++ w) = stripStr [] := stripStr_append_ws [] w hw
  simpa [stripStr, lstripStr, rstripStr] using this

/-! ## the tokens at the end of a text -/

/-- `x` is empty or ends in a `\s` character -/
def EndsWs (x : Str) : Prop := ∀ c, x.getLast? = some c → isReSpace c = true
/-- no `\s` character occurs in `t` -/
def NoWs (t : Str) : Prop := ∀ c ∈ t, isReSpace c = false

instance (x : Str) : Decidable (EndsWs x) :=
  match h : x.getLast? with
  | none => isTrue (by intro c hc; rw [h] at hc; cases hc)
  | some d => if hd : isReSpace d = true then isTrue (by intro c hc; rw [h] at hc; cases hc; exact hd)
              else isFalse (fun hx => hd (hx d h))
instance (t : Str) : Decidable (NoWs t) := inferInstanceAs (Decidable (∀ c ∈ t, _))

theorem getLast?_append_ne {α} (l : List α) {l' : List α} (h : l' ≠ []) : (l ++ l').getLast? = l'.getLast? := by
  rw [List.getLast?_append]
  cases hl : l'.getLast? with
  | none => exact absurd (List.getLast?_eq_none_iff.mp hl) h
  | some a => rfl

theorem head?_append_ne {α} {l : List α} (l' : List α) (h : l ≠ []) : (l ++ l').head? = l.head? := by
  cases l with
  | nil => exact absurd rfl h
  | cons a t => rfl

theorem EndsWs.nil : EndsWs [] := by intro c hc; cases hc

theorem EndsWs.append_spaceRun (x : Str) {w : Str} (hw : SpaceRun w) : EndsWs (x ++ w) := by
  intro c hc
  rw [getLast?_append_ne _ hw.1] at hc
  exact hw.2 c (List.mem_of_getLast? hc)

theorem EndsWs.append_of_endsWs_ne_nil (x : Str) {w : Str} (hw : EndsWs w) (hne : w ≠ []) : EndsWs (x ++ w) := by
  intro c hc
  rw [getLast?_append_ne _ hne] at hc
  exact hw c hc

/-- cutting a text after its longest prefix satisfying `p` -/
theorem prefix_split_unique {α} (p : α → Bool) {a r a' r' : List α} (h : a ++ r = a' ++ r')
    (ha : ∀ c ∈ a, p c = true) (ha' : ∀ c ∈ a', p c = true)
    (hr : ∀ c, r.head? = some c → p c = false) (hr' : ∀ c, r'.head? = some c → p c = false) : a = a' ∧ r = r' := by
  have h1 := takeWhile_append_of_all p a r ha hr
  have h2 := takeWhile_append_of_all p a' r' ha' hr'
  rw [h] at h1
  exact ⟨h1.1.symm.trans h2.1, h1.2.symm.trans h2.2⟩

/-- the last token of a text (and the space run after it) is determined by the text -/
theorem last_token_unique {x d s x' d' s' : Str} (h : x ++ d ++ s = x' ++ d' ++ s')
    (hx : EndsWs x) (hx' : EndsWs x') (hd : NoWs d) (hd' : NoWs d') (hne : d ≠ []) (hne' : d' ≠ [])
    (hs : WsRun s) (hs' : WsRun s') : x = x' ∧ d = d' ∧ s = s' := by
  have hr := congrArg List.reverse h
  simp only [List.reverse_append, List.append_assoc] at hr
  have hhead : ∀ {d x : Str}, NoWs d → d ≠ [] → ∀ c, (d.reverse ++ x.reverse).head? = some c → isReSpace c = false := by
    intro d x hd hne c hc
    have hne' : d.reverse ≠ [] := by simpa using hne
    rw [head?_append_ne _ hne'] at hc
    exact hd c (List.mem_reverse.mp (List.mem_of_head? hc))
  obtain ⟨e1, e2⟩ := prefix_split_unique isReSpace hr
    (fun c hc => hs c (List.mem_reverse.mp hc)) (fun c hc => hs' c (List.mem_reverse.mp hc))
    (hhead hd hne) (hhead hd' hne')
  obtain ⟨e3, e4⟩ := prefix_split_unique (fun c => !isReSpace c) e2
    (fun c hc => by simp [hd c (List.mem_reverse.mp hc)]) (fun c hc => by simp [hd' c (List.mem_reverse.mp hc)])
    (fun c hc => by rw [List.head?_reverse] at hc; simp [hx c hc])
    (fun c hc => by rw [List.head?_reverse] at hc; simp [hx' c hc])
  exact ⟨List.reverse_inj.mp e4, List.reverse_inj.mp e3, List.reverse_inj.mp e1⟩

theorem digits_noWs {ds : Str} (h : ∀ c ∈ ds, isDigit c = true) : NoWs ds :=
  fun c hc => isDigit_not_space (h c hc)

theorem CiWord_noWs {w : List Char} {a : Str} (hw : ∀ l ∈ w, IsLower l) (h : CiWord w a) : NoWs a :=
  fun c hc => letterLike_not_space (CiWord_letterLike hw h c hc)

/-! ## `(?i)`: a character matches at most one lower-case pattern letter -/

theorem ciPartners_lower_self : ∀ q ∈ Gen.ciPartners, 97 ≤ q.1 → q.1 ≤ 122 → q.1 = q.2 := by decide
theorem ciPartners_functional : ∀ q ∈ Gen.ciPartners, ∀ q' ∈ Gen.ciPartners, q.1 = q'.1 → q.2 = q'.2 := by decide

theorem ciMatches_inj {c l l' : Char} (hl : IsLower l) (hl' : IsLower l')
    (h : ciMatches c l = true) (h' : ciMatches c l' = true) : l = l' := by
  simp only [ciMatches, Bool.or_eq_true, beq_iff_eq] at h h'
  rcases h with rfl | h <;> rcases h' with rfl | h'
  · rfl
  · exact Char.toNat_inj.mp (ciPartners_lower_self _ (List.contains_iff_mem.mp h') hl.1 hl.2)
  · exact (Char.toNat_inj.mp (ciPartners_lower_self _ (List.contains_iff_mem.mp h) hl'.1 hl'.2)).symm
  · exact Char.toNat_inj.mp
      (ciPartners_functional _ (List.contains_iff_mem.mp h) _ (List.contains_iff_mem.mp h') rfl)

theorem CiWord_inj {w w' : List Char} {a : Str} (hw : ∀ l ∈ w, IsLower l) (hw' : ∀ l ∈ w', IsLower l)
    (h : CiWord w a) (h' : CiWord w' a) : w = w' := by
  induction w generalizing w' a with
  | nil =>
    cases a with
    | nil => cases w' with
      | nil => rfl
      | cons _ _ => exact absurd h' (by simp [CiWord])
    | cons _ _ => exact absurd h (by simp [CiWord])
  | cons l ls ih =>
    cases a with
    | nil => exact absurd h (by simp [CiWord])
    | cons c a =>
      cases w' with
      | nil => exact absurd h' (by simp [CiWord])
      | cons l' ls' =>
        obtain ⟨h1, h2⟩ := h
        obtain ⟨h1', h2'⟩ := h'
        rw [ciMatches_inj (hw l (by simp)) (hw' l' (by simp)) h1 h1',
          ih (fun x hx => hw x (by simp [hx])) (fun x hx => hw' x (by simp [hx])) h2 h2']

theorem CiWord_length {w : List Char} {a : Str} (h : CiWord w a) : a.length = w.length := by
  induction w generalizing a with
  | nil => cases a with
    | nil => rfl
    | cons _ _ => exact absurd h (by simp [CiWord])
  | cons l ls ih => cases a with
    | nil => exact absurd h (by simp [CiWord])
    | cons c a => simp [ih h.2]

/-- a match of `u ++ w` splits into a match of `u` and a match of `w` -/
theorem CiWord_append_right {u w : List Char} {x a : Str} (hlen : x.length = u.length) (h : CiWord (u ++ w) (x ++ a)) :
    CiWord w a := by
  induction u generalizing x with
  | nil => cases x with
    | nil => exact h
    | cons _ _ => cases hlen
  | cons l ls ih => cases x with
    | nil => cases hlen
    | cons c x => exact ih (by simpa using hlen) h.2

/-! ## texts that differ only in the case of ASCII letters -/

/-- ASCII lower-casing of a code point -/
def asciiLowerNat (n : Nat) : Nat := if 65 ≤ n ∧ n ≤ 90 then n + 32 else n
def isAsciiLetterNat (n : Nat) : Bool := (65 ≤ n && n ≤ 90) || (97 ≤ n && n ≤ 122)

/-- the same character, or the same ASCII letter in the other case -/
def CaseEqChar (c c' : Char) : Prop := asciiLowerNat c.toNat = asciiLowerNat c'.toNat
instance (c c' : Char) : Decidable (CaseEqChar c c') := inferInstanceAs (Decidable (_ = _))

theorem CaseEqChar.refl (c : Char) : CaseEqChar c c := rfl
theorem CaseEqChar.symm {c c' : Char} (h : CaseEqChar c c') : CaseEqChar c' c := Eq.symm h

theorem CaseEqChar.cases {c c' : Char} (h : CaseEqChar c c') :
    c = c' ∨ (isAsciiLetterNat c.toNat = true ∧ isAsciiLetterNat c'.toNat = true) := by
  simp only [CaseEqChar, asciiLowerNat] at h
  by_cases e : c.toNat = c'.toNat
  · exact Or.inl (Char.toNat_inj.mp e)
  · right
    simp only [isAsciiLetterNat, Bool.or_eq_true, Bool.and_eq_true, decide_eq_true_eq]
    split at h <;> split at h <;> omega

theorem isAsciiLetterNat_letterLike {n : Nat} (h : isAsciiLetterNat n = true) : letterLike n = true := by
  simp only [isAsciiLetterNat, Bool.or_eq_true, Bool.and_eq_true, decide_eq_true_eq] at h
  simp only [letterLike, Bool.or_eq_true, Bool.and_eq_true, decide_eq_true_eq, beq_iff_eq]
  omega

theorem CaseEqChar.isReSpace_eq {c c' : Char} (h : CaseEqChar c c') : isReSpace c = isReSpace c' := by
  rcases h.cases with rfl | ⟨h1, h2⟩
  · rfl
  · rw [letterLike_not_space (isAsciiLetterNat_letterLike h1), letterLike_not_space (isAsciiLetterNat_letterLike h2)]

theorem CaseEqChar.eq_of_isDigit {c c' : Char} (h : CaseEqChar c c') (hd : isDigit c = true) : c = c' := by
  rcases h.cases with rfl | ⟨h1, _⟩
  · rfl
  · rw [letterLike_not_digit (isAsciiLetterNat_letterLike h1)] at hd; cases hd

theorem ciPartners_asciiLower : ∀ q ∈ Gen.ciPartners, isAsciiLetterNat q.1 = true → asciiLowerNat q.1 = q.2 := by decide
theorem ciPartners_upper : ∀ n, n < 91 → 65 ≤ n → (n, n + 32) ∈ Gen.ciPartners := by decide

/-- an ASCII letter matches exactly its lower-case form -/
theorem ciMatches_asciiLetter {c l : Char} (hc : isAsciiLetterNat c.toNat = true) (hl : IsLower l) :
    ciMatches c l = true ↔ asciiLowerNat c.toNat = l.toNat := by
  simp only [ciMatches, Bool.or_eq_true, beq_iff_eq]
  constructor
  · rintro (rfl | h)
    · have := hl.1; have := hl.2
      simp only [asciiLowerNat]; split <;> omega
    · exact ciPartners_asciiLower _ (List.contains_iff_mem.mp h) hc
  · intro h
    simp only [asciiLowerNat] at h
    split at h
    · rename_i hu
      right
      rw [← h]
      exact List.contains_iff_mem.mpr (ciPartners_upper _ (by omega) hu.1)
    · exact Or.inl (Char.toNat_inj.mp h)

theorem CaseEqChar.ciMatches_eq {c c' l : Char} (h : CaseEqChar c c') (hl : IsLower l) : ciMatches c l = ciMatches c' l := by
  rcases h.cases with rfl | ⟨h1, h2⟩
  · rfl
  · have e1 := ciMatches_asciiLetter h1 hl
    have e2 := ciMatches_asciiLetter h2 hl
    rw [show asciiLowerNat c.toNat = asciiLowerNat c'.toNat from h] at e1
    exact Bool.eq_iff_iff.mpr (e1.trans e2.symm)

/-- pointwise `CaseEqChar` -/
def CaseRel : Str → Str → Prop
  | [], [] => True
  | c :: s, c' :: s' => CaseEqChar c c' ∧ CaseRel s s'
  | _, _ => False

instance CaseRel.dec : (s s' : Str) → Decidable (CaseRel s s')
  | [], [] => isTrue trivial
  | _ :: s, _ :: s' => @instDecidableAnd _ _ _ (CaseRel.dec s s')
  | [], _ :: _ => isFalse (by simp [CaseRel])
  | _ :: _, [] => isFalse (by simp [CaseRel])

theorem CaseRel.refl : (s : Str) → CaseRel s s
  | [] => trivial
  | c :: s => ⟨CaseEqChar.refl c, CaseRel.refl s⟩

theorem CaseRel.symm : {s s' : Str} → CaseRel s s' → CaseRel s' s
  | [], [], _ => trivial
  | _ :: _, _ :: _, h => ⟨h.1.symm, CaseRel.symm h.2⟩
  | [], _ :: _, h => by simp [CaseRel] at h
  | _ :: _, [], h => by simp [CaseRel] at h

theorem CaseRel.length_eq : {s s' : Str} → CaseRel s s' → s.length = s'.length
  | [], [], _ => rfl
  | _ :: _, _ :: _, h => by simp [CaseRel.length_eq h.2]
  | [], _ :: _, h => by simp [CaseRel] at h
  | _ :: _, [], h => by simp [CaseRel] at h

theorem CaseRel.append : {a a' : Str} → {b b' : Str} → CaseRel a a' → CaseRel b b' → CaseRel (a ++ b) (a' ++ b')
  | [], [], _, _, _, hb => hb
  | _ :: _, _ :: _, _, _, ha, hb => ⟨ha.1, CaseRel.append ha.2 hb⟩
  | [], _ :: _, _, _, h, _ => by simp [CaseRel] at h
  | _ :: _, [], _, _, h, _ => by simp [CaseRel] at h

/-- a relative of `a ++ b` is a relative of `a` followed by a relative of `b` -/
theorem CaseRel.split_append : {a b t : Str} → CaseRel (a ++ b) t → ∃ a' b', t = a' ++ b' ∧ CaseRel a a' ∧ CaseRel b b'
  | [], b, t, h => ⟨[], t, rfl, trivial, h⟩
  | c :: a, b, [], h => by simp [CaseRel] at h
  | c :: a, b, c' :: t, h => by
    obtain ⟨a', b', rfl, ha, hb⟩ := CaseRel.split_append (a := a) h.2
    exact ⟨c' :: a', b', rfl, ⟨h.1, ha⟩, hb⟩

theorem CaseRel.wsRun {s s' : Str} (h : CaseRel s s') (hs : WsRun s) : WsRun s' := by
  induction s generalizing s' with
  | nil => cases s' with
    | nil => exact hs
    | cons _ _ => simp [CaseRel] at h
  | cons c s ih => cases s' with
    | nil => simp [CaseRel] at h
    | cons c' s' =>
      intro d hd
      rcases List.mem_cons.mp hd with rfl | hd
      · rw [← h.1.isReSpace_eq]; exact hs c (by simp)
      · exact ih h.2 (fun x hx => hs x (by simp [hx])) d hd

theorem CaseRel.spaceRun {s s' : Str} (h : CaseRel s s') (hs : SpaceRun s) : SpaceRun s' := by
  refine ⟨?_, h.wsRun hs.2⟩
  intro e
  subst e
  have := h.length_eq
  exact hs.1 (List.eq_nil_of_length_eq_zero (by simpa using this))

theorem CaseRel.eq_of_digits {s s' : Str} (h : CaseRel s s') (hs : ∀ c ∈ s, isDigit c = true) : s = s' := by
  induction s generalizing s' with
  | nil => cases s' with
    | nil => rfl
    | cons _ _ => simp [CaseRel] at h
  | cons c s ih => cases s' with
    | nil => simp [CaseRel] at h
    | cons c' s' =>
      rw [h.1.eq_of_isDigit (hs c (by simp)), ih h.2 (fun x hx => hs x (by simp [hx]))]

theorem CaseRel.ciWord {w : List Char} {a a' : Str} (hw : ∀ l ∈ w, IsLower l) (h : CaseRel a a') (ha : CiWord w a) :
    CiWord w a' := by
  induction w generalizing a a' with
  | nil => cases a with
    | nil => cases a' with
      | nil => trivial
      | cons _ _ => simp [CaseRel] at h
    | cons _ _ => exact absurd ha (by simp [CiWord])
  | cons l ls ih => cases a with
    | nil => exact absurd ha (by simp [CiWord])
    | cons c a => cases a' with
      | nil => simp [CaseRel] at h
      | cons c' a' =>
        refine ⟨?_, ih (fun x hx => hw x (by simp [hx])) h.2 ha.2⟩
        rw [← h.1.ciMatches_eq (hw l (by simp))]; exact ha.1

theorem CaseRel.phraseText {p : List String} (hp : WfPhrase p) {s s' : Str} (h : CaseRel s s') (hs : PhraseText p s) :
    PhraseText p s' := by
  induction p generalizing s s' with
  | nil => exact absurd hs (by simp [PhraseText])
  | cons w ws ih =>
    have hw := (hp w (by simp)).2
    cases ws with
    | nil => exact CaseRel.ciWord hw h hs
    | cons w' ws' =>
      obtain ⟨a, sp, r, rfl, ha, hsp, hr⟩ := hs
      rw [List.append_assoc] at h
      obtain ⟨a', t, rfl, haa, ht⟩ := h.split_append
      obtain ⟨sp', r', rfl, hspp, hrr⟩ := ht.split_append
      exact ⟨a', sp', r', by simp, CaseRel.ciWord hw haa ha, hspp.spaceRun hsp,
        ih (fun x hx => hp x (by simp [hx])) hrr hr⟩

/-! ## the last word of a phrase text -/

theorem PhraseText_last {p : List String} {ph : Str} (h : PhraseText p ph) :
    ∃ w, p.getLast? = some w ∧ ∃ y wd, ph = y ++ wd ∧ CiWord w.toList wd ∧ EndsWs y := by
  induction p generalizing ph with
  | nil => exact absurd h (by simp [PhraseText])
  | cons w ws ih =>
    cases ws with
    | nil => exact ⟨w, rfl, [], ph, rfl, h, EndsWs.nil⟩
    | cons w' ws' =>
      obtain ⟨a, sp, r, rfl, _, hsp, hr⟩ := h
      obtain ⟨v, hv, y, wd, rfl, hwd, hy⟩ := ih hr
      refine ⟨v, by simpa using hv, a ++ sp ++ y, wd, by simp, hwd, ?_⟩
      cases y with
      | nil => simpa using EndsWs.append_spaceRun a hsp
      | cons c y => exact EndsWs.append_of_endsWs_ne_nil _ hy (by simp)

end RG
