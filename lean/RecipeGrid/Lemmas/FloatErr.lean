import RecipeGrid.Model.Num
import RecipeGrid.Lemmas.Fmt
/-! Rounding-error facts about `toDouble` (`Model/Num.lean`): nearest binary64 with an unbounded exponent.
    Nothing here is a specification; the property statements live in `Props/C20b.lean` and `Props/C03c.lean`. -/
namespace RG

-- ================================================================ powers of two
theorem pow2_eq_zpow (e : Int) : pow2 e = (2 : Rat) ^ e := by
  unfold pow2
  split
  · rename_i h
    obtain ⟨n, rfl⟩ := Int.eq_ofNat_of_zero_le h
    simp [Rat.zpow_natCast, Rat.natCast_pow]
  · rename_i h
    have h' : 0 ≤ -e := by omega
    obtain ⟨n, hn⟩ := Int.eq_ofNat_of_zero_le h'
    have he : e = -(n : Int) := by omega
    subst he
    simp [Rat.zpow_neg, Rat.zpow_natCast, Rat.natCast_pow, Rat.div_def]

theorem pow2_pos (e : Int) : 0 < pow2 e := by
  rw [pow2_eq_zpow]; exact Rat.zpow_pos (by decide)

theorem pow2_ne_zero (e : Int) : pow2 e ≠ 0 := Rat.ne_of_gt (pow2_pos e)

theorem pow2_add (a b : Int) : pow2 (a + b) = pow2 a * pow2 b := by
  simp only [pow2_eq_zpow]; exact Rat.zpow_add (by decide) a b

theorem pow2_zero : pow2 0 = 1 := by decide
theorem pow2_one : pow2 1 = 2 := by decide

theorem pow2_succ (e : Int) : pow2 (e + 1) = 2 * pow2 e := by
  rw [pow2_add, pow2_one, Rat.mul_comm]

theorem pow2_natCast (n : Nat) : pow2 (n : Int) = ((2 ^ n : Nat) : Rat) := by
  simp [pow2]

theorem one_le_pow2_natCast (n : Nat) : 1 ≤ pow2 (n : Int) := by
  rw [pow2_natCast]
  have : 1 ≤ 2 ^ n := Nat.one_le_two_pow
  exact_mod_cast this

theorem pow2_le_pow2 {a b : Int} (h : a ≤ b) : pow2 a ≤ pow2 b := by
  obtain ⟨n, hn⟩ := Int.eq_ofNat_of_zero_le (show 0 ≤ b - a by omega)
  have hb : b = a + (n : Int) := by omega
  rw [hb, pow2_add]
  have h1 := one_le_pow2_natCast n
  have h2 := pow2_pos a
  have := Rat.mul_le_mul_of_nonneg_left h1 (Rat.le_of_lt h2)
  simpa using this

theorem two_pow2_le_pow2 {a b : Int} (h : a < b) : 2 * pow2 a ≤ pow2 b := by
  rw [← pow2_succ]; exact pow2_le_pow2 (by omega)

-- ================================================================ `roundHalfEven`
theorem roundHalfEven_intCast (n : Int) : roundHalfEven (n : Rat) = n := by
  simp only [roundHalfEven, Rat.floor_intCast]
  have : (n : Rat) - (n : Rat) = 0 := by grind
  rw [this]
  simp +decide

theorem floor_le_roundHalfEven (q : Rat) : q.floor ≤ roundHalfEven q := by
  simp only [roundHalfEven]
  split
  · omega
  · split <;> omega

theorem roundHalfEven_le_floor_add_one (q : Rat) : roundHalfEven q ≤ q.floor + 1 := by
  simp only [roundHalfEven]
  split
  · omega
  · split <;> omega

theorem roundHalfEven_mono {p q : Rat} (h : p ≤ q) : roundHalfEven p ≤ roundHalfEven q := by
  have hf := Rat.floor_monotone h
  by_cases heq : p.floor = q.floor
  · simp only [roundHalfEven, heq]
    split
    · split
      · omega
      · split
        · omega
        · grind
    · split
      · split
        · omega
        · split
          · omega
          · grind
      · split
        · omega
        · split <;> omega
  · have h1 := roundHalfEven_le_floor_add_one p
    have h2 := floor_le_roundHalfEven q
    omega

theorem le_roundHalfEven_of_le {q : Rat} {n : Int} (h : (n : Rat) ≤ q) : n ≤ roundHalfEven q := by
  have := roundHalfEven_mono h
  rwa [roundHalfEven_intCast] at this

-- ================================================================ division by a power of two
theorem div_pow2_lt_iff {a c : Rat} (e : Int) : a / pow2 e < c ↔ a < c * pow2 e := Rat.div_lt_iff (pow2_pos e)
theorem lt_div_pow2_iff {a c : Rat} (e : Int) : c < a / pow2 e ↔ c * pow2 e < a := Rat.lt_div_iff (pow2_pos e)
theorem div_pow2_le_iff {a c : Rat} (e : Int) : a / pow2 e ≤ c ↔ a ≤ c * pow2 e := by
  rw [← Rat.not_lt, lt_div_pow2_iff, Rat.not_lt]
theorem le_div_pow2_iff {a c : Rat} (e : Int) : c ≤ a / pow2 e ↔ c * pow2 e ≤ a := by
  rw [← Rat.not_lt, div_pow2_lt_iff, Rat.not_lt]

theorem div_pow2_mul (a : Rat) (e : Int) : a / pow2 e * pow2 e = a := Rat.div_mul_cancel (pow2_ne_zero e)

-- ================================================================ the exponent `toDouble` picks
theorem rat_mul_den (a : Rat) : a * ((a.den : Nat) : Rat) = (a.num : Rat) := by
  have h := Rat.num_divInt_den a
  rw [Rat.divInt_eq_div, Rat.intCast_natCast] at h
  have hd : ((a.den : Nat) : Rat) ≠ 0 := by
    have : (0 : Rat) < ((a.den : Nat) : Rat) := Rat.natCast_pos.2 a.den_pos
    exact Rat.ne_of_gt this
  calc a * ((a.den : Nat) : Rat) = (a.num : Rat) / ((a.den : Nat) : Rat) * ((a.den : Nat) : Rat) := by rw [h]
    _ = (a.num : Rat) := Rat.div_mul_cancel hd

theorem log2_bounds {a : Rat} (ha : 0 < a) :
    pow2 ((Nat.log2 a.num.natAbs : Int) - (Nat.log2 a.den : Int) - 1) < a ∧
    a < pow2 ((Nat.log2 a.num.natAbs : Int) - (Nat.log2 a.den : Int) + 1) := by
  have hnum : 0 < a.num := by
    have h1 : 0 ≤ a.num := Rat.num_nonneg.2 (Rat.le_of_lt ha)
    have h2 : a.num ≠ 0 := fun h => Rat.ne_of_gt ha (Rat.num_eq_zero.1 h)
    omega
  have hN : a.num.natAbs ≠ 0 := by omega
  have hNc : ((a.num.natAbs : Nat) : Rat) = (a.num : Rat) := by
    rw [← Rat.intCast_natCast, Int.natAbs_of_nonneg (by omega)]
  have hD : a.den ≠ 0 := a.den_nz
  have n1 : ((2 ^ Nat.log2 a.num.natAbs : Nat) : Rat) ≤ ((a.num.natAbs : Nat) : Rat) :=
    Rat.natCast_le_natCast.2 (Nat.log2_self_le hN)
  have n2 : ((a.num.natAbs : Nat) : Rat) < ((2 ^ (Nat.log2 a.num.natAbs + 1) : Nat) : Rat) :=
    Rat.natCast_lt_natCast.2 Nat.lt_log2_self
  have d1 : ((2 ^ Nat.log2 a.den : Nat) : Rat) ≤ ((a.den : Nat) : Rat) :=
    Rat.natCast_le_natCast.2 (Nat.log2_self_le hD)
  have d2 : ((a.den : Nat) : Rat) < ((2 ^ (Nat.log2 a.den + 1) : Nat) : Rat) :=
    Rat.natCast_lt_natCast.2 Nat.lt_log2_self
  rw [← pow2_natCast] at n1 n2 d1 d2
  rw [hNc, ← rat_mul_den a] at n1 n2
  have hDpos : (0 : Rat) < ((a.den : Nat) : Rat) := Rat.natCast_pos.2 a.den_pos
  generalize (Nat.log2 a.num.natAbs) = ln at *
  generalize (Nat.log2 a.den) = ld at *
  generalize ((a.den : Nat) : Rat) = D at *
  constructor
  · -- pow2 (ln - ld - 1) * D < pow2 (ln - ld - 1) * pow2 (ld + 1) = pow2 ln ≤ a * D
    apply Rat.lt_of_mul_lt_mul_right _ (Rat.le_of_lt hDpos)
    have h1 := Rat.mul_lt_mul_of_pos_left d2 (pow2_pos ((ln : Int) - (ld : Int) - 1))
    rw [← pow2_add] at h1
    have : (ln : Int) - (ld : Int) - 1 + ((ld + 1 : Nat) : Int) = (ln : Int) := by omega
    rw [this] at h1
    exact Std.lt_of_lt_of_le h1 n1
  · apply Rat.lt_of_mul_lt_mul_right _ (Rat.le_of_lt hDpos)
    have h1 := Rat.mul_le_mul_of_nonneg_left d1 (Rat.le_of_lt (pow2_pos ((ln : Int) - (ld : Int) + 1)))
    rw [← pow2_add] at h1
    have : (ln : Int) - (ld : Int) + 1 + (ld : Int) = ((ln + 1 : Nat) : Int) := by omega
    rw [this] at h1
    exact Std.lt_of_lt_of_le n2 h1

theorem pow2_51 : pow2 51 = 2251799813685248 := by decide +kernel
theorem pow2_52 : pow2 52 = 4503599627370496 := by decide +kernel
theorem pow2_53 : pow2 53 = 9007199254740992 := by decide +kernel

/-- for a positive argument `toDouble` scales into `[2^52, 2^53)`, rounds to an integer, and scales back -/
theorem toDouble_pos_spec {a : Rat} (ha : 0 < a) : ∃ e : Int,
    4503599627370496 * pow2 e ≤ a ∧ a < 9007199254740992 * pow2 e ∧
    toDouble a = ((roundHalfEven (a / pow2 e) : Int) : Rat) * pow2 e := by
  have hne : (a == 0) = false := by simpa using Rat.ne_of_gt ha
  have hnl : ¬ a < 0 := by grind
  obtain ⟨lo, hi⟩ := log2_bounds ha
  simp only [toDouble, hne, hnl, if_false, Bool.false_eq_true]
  generalize he0 : (Nat.log2 a.num.natAbs : Int) - (Nat.log2 a.den : Int) - 52 = e0
  have lo' : 2251799813685248 * pow2 e0 < a := by
    rw [← pow2_51, ← pow2_add]
    have : (51 : Int) + e0 = (Nat.log2 a.num.natAbs : Int) - (Nat.log2 a.den : Int) - 1 := by omega
    rw [this]; exact lo
  have hi' : a < 9007199254740992 * pow2 e0 := by
    rw [← pow2_53, ← pow2_add]
    have : (53 : Int) + e0 = (Nat.log2 a.num.natAbs : Int) - (Nat.log2 a.den : Int) + 1 := by omega
    rw [this]; exact hi
  have hp := pow2_pos e0
  by_cases h1 : a / pow2 e0 ≥ (9007199254740992 : Rat)
  · exfalso
    have := (le_div_pow2_iff e0).1 h1
    grind
  · by_cases h2 : a / pow2 e0 < (4503599627370496 : Rat)
    · simp only [h1, h2, if_false, if_true]
      refine ⟨e0 - 1, ?_, ?_, rfl⟩
      · have : pow2 e0 = 2 * pow2 (e0 - 1) := by rw [← pow2_succ]; congr 1; omega
        grind
      · have h2' := (div_pow2_lt_iff e0).1 h2
        have : pow2 e0 = 2 * pow2 (e0 - 1) := by rw [← pow2_succ]; congr 1; omega
        grind
    · simp only [h1, h2, if_false]
      refine ⟨e0, ?_, hi', rfl⟩
      exact (le_div_pow2_iff e0).1 (Rat.not_lt.1 h2)

theorem exp_le_of_bounds {a : Rat} {e e' : Int}
    (h1 : 4503599627370496 * pow2 e ≤ a) (h2' : a < 9007199254740992 * pow2 e') : e ≤ e' := by
  apply Classical.byContradiction
  intro hlt
  have := two_pow2_le_pow2 (show e' < e by omega)
  grind

theorem exp_unique {a : Rat} {e e' : Int}
    (h1 : 4503599627370496 * pow2 e ≤ a) (h2 : a < 9007199254740992 * pow2 e)
    (h1' : 4503599627370496 * pow2 e' ≤ a) (h2' : a < 9007199254740992 * pow2 e') : e = e' := by
  have := exp_le_of_bounds h1 h2'
  have := exp_le_of_bounds h1' h2
  omega

theorem toDouble_of_exp {a : Rat} {e : Int}
    (h1 : 4503599627370496 * pow2 e ≤ a) (h2 : a < 9007199254740992 * pow2 e) :
    toDouble a = ((roundHalfEven (a / pow2 e) : Int) : Rat) * pow2 e := by
  have ha : 0 < a := by have := pow2_pos e; grind
  obtain ⟨e', g1, g2, g3⟩ := toDouble_pos_spec ha
  rw [exp_unique h1 h2 g1 g2]; exact g3

-- ================================================================ sign
theorem toDouble_zero : toDouble 0 = 0 := by decide

theorem toDouble_neg (x : Rat) : toDouble (-x) = -toDouble x := by
  by_cases h0 : x = 0
  · subst h0; decide
  · have hx : (x == 0) = false := by simpa using h0
    have hnx : (-x == 0) = false := by simp; grind
    simp only [toDouble, hx, hnx, Bool.false_eq_true, if_false]
    by_cases hneg : x < 0
    · have : ¬ (-x < 0) := by grind
      simp only [hneg, this, if_true, if_false, Rat.neg_neg]
    · have : -x < 0 := by grind
      simp only [hneg, this, if_true, if_false, Rat.neg_neg]

theorem toDouble_pos {a : Rat} (ha : 0 < a) : 0 < toDouble a := by
  obtain ⟨e, h1, h2, h3⟩ := toDouble_pos_spec ha
  rw [h3]
  have hm : ((4503599627370496 : Int) : Rat) ≤ a / pow2 e := by
    rw [le_div_pow2_iff]; simpa using h1
  have hk := le_roundHalfEven_of_le hm
  have : (0 : Rat) < ((roundHalfEven (a / pow2 e) : Int) : Rat) := by
    have : (0 : Int) < roundHalfEven (a / pow2 e) := by omega
    exact_mod_cast this
  exact Rat.mul_pos this (pow2_pos e)

theorem toDouble_nonneg {a : Rat} (ha : 0 ≤ a) : 0 ≤ toDouble a := by
  by_cases h : a = 0
  · subst h; decide
  · exact Rat.le_of_lt (toDouble_pos (by grind))

theorem toDouble_nonpos {a : Rat} (ha : a ≤ 0) : toDouble a ≤ 0 := by
  have := toDouble_nonneg (a := -a) (by grind)
  rw [toDouble_neg] at this
  grind

-- ================================================================ the rounding error
/-- half an ulp, against both the argument and the result -/
theorem toDouble_err_pos {a : Rat} (ha : 0 < a) :
    (9007199254740992 * (toDouble a - a) ≤ a ∧ 9007199254740992 * (a - toDouble a) ≤ a) ∧
    (9007199254740992 * (toDouble a - a) ≤ toDouble a ∧ 9007199254740992 * (a - toDouble a) ≤ toDouble a) := by
  obtain ⟨e, h1, h2, h3⟩ := toDouble_pos_spec ha
  have hp := pow2_pos e
  have hb := roundHalfEven_bounds (a / pow2 e)
  have hm : ((4503599627370496 : Int) : Rat) ≤ a / pow2 e := by
    rw [le_div_pow2_iff]; simpa using h1
  have hk : ((4503599627370496 : Int) : Rat) ≤ ((roundHalfEven (a / pow2 e) : Int) : Rat) :=
    Rat.intCast_le_intCast.2 (le_roundHalfEven_of_le hm)
  have hk' := Rat.mul_le_mul_of_nonneg_right hk (Rat.le_of_lt hp)
  have ham := div_pow2_mul a e
  have b1 := Rat.mul_le_mul_of_nonneg_right hb.1 (Rat.le_of_lt hp)
  have b2 := Rat.mul_le_mul_of_nonneg_right hb.2 (Rat.le_of_lt hp)
  rw [h3]
  generalize ((roundHalfEven (a / pow2 e) : Int) : Rat) = k at *
  generalize a / pow2 e = m at *
  generalize pow2 e = p at *
  subst ham
  have e1 : 2 * (k - m) * p = 2 * (k * p - m * p) := by grind
  have e2 : 2 * (m - k) * p = 2 * (m * p - k * p) := by grind
  have e3 : ((4503599627370496 : Int) : Rat) = 4503599627370496 := by simp
  rw [e1] at b1; rw [e2] at b2; rw [e3] at hk'
  grind

theorem abs_le_iff {x y : Rat} : x.abs ≤ y ↔ -y ≤ x ∧ x ≤ y := by
  simp only [Rat.abs]; split <;> grind

theorem abs_mul_of_nonneg {c x : Rat} (hc : 0 ≤ c) : (c * x).abs = c * x.abs := by
  by_cases hx : 0 ≤ x
  · rw [Rat.abs_of_nonneg hx, Rat.abs_of_nonneg (Rat.mul_nonneg hc hx)]
  · have hx' : x ≤ 0 := by grind
    have : c * x ≤ 0 := by
      have := Rat.mul_nonneg hc (show 0 ≤ -x by grind)
      grind
    rw [Rat.abs_of_nonpos hx', Rat.abs_of_nonpos this]; grind

/-- relative error at most one unit roundoff `2^-53` (no range condition: the model's exponent is unbounded) -/
theorem toDouble_err_mul (x : Rat) : 9007199254740992 * (toDouble x - x).abs ≤ x.abs := by
  rw [← abs_mul_of_nonneg (by decide), abs_le_iff]
  by_cases h0 : x = 0
  · subst h0; rw [toDouble_zero, Rat.abs_zero]; grind
  · by_cases hp : 0 < x
    · have := (toDouble_err_pos hp).1
      have hx : x.abs = x := Rat.abs_of_nonneg (Rat.le_of_lt hp)
      rw [hx]; grind
    · have hn : 0 < -x := by grind
      have := (toDouble_err_pos hn).1
      rw [toDouble_neg] at this
      have hx : x.abs = -x := Rat.abs_of_nonpos (by grind)
      rw [hx]; grind

theorem toDouble_err (x : Rat) : (toDouble x - x).abs ≤ x.abs / 9007199254740992 := by
  have := toDouble_err_mul x
  rw [Rat.div_def]
  grind

/-- the same bound against the rounded value -/
theorem toDouble_err_mul' (x : Rat) : 9007199254740992 * (toDouble x - x).abs ≤ (toDouble x).abs := by
  rw [← abs_mul_of_nonneg (by decide), abs_le_iff]
  by_cases h0 : x = 0
  · subst h0; rw [toDouble_zero, Rat.abs_zero]; grind
  · by_cases hp : 0 < x
    · have := (toDouble_err_pos hp).2
      have hx : (toDouble x).abs = toDouble x := Rat.abs_of_nonneg (toDouble_nonneg (Rat.le_of_lt hp))
      rw [hx]; grind
    · have hn : 0 < -x := by grind
      have := (toDouble_err_pos hn).2
      rw [toDouble_neg] at this
      have hx : (toDouble x).abs = -toDouble x := Rat.abs_of_nonpos (toDouble_nonpos (by grind))
      rw [hx]; grind

-- ================================================================ monotonicity
theorem div_pow2_le_div_pow2 {x y : Rat} (h : x ≤ y) (e : Int) : x / pow2 e ≤ y / pow2 e := by
  rw [le_div_pow2_iff, div_pow2_mul]; exact h

theorem toDouble_mono_pos {x y : Rat} (hx : 0 < x) (hxy : x ≤ y) : toDouble x ≤ toDouble y := by
  have hy : 0 < y := by grind
  obtain ⟨ex, x1, x2, x3⟩ := toDouble_pos_spec hx
  obtain ⟨ey, y1, y2, y3⟩ := toDouble_pos_spec hy
  have hle : ex ≤ ey := exp_le_of_bounds x1 (by grind)
  rw [x3, y3]
  by_cases heq : ex = ey
  · subst heq
    exact Rat.mul_le_mul_of_nonneg_right
      (Rat.intCast_le_intCast.2 (roundHalfEven_mono (div_pow2_le_div_pow2 hxy ex))) (Rat.le_of_lt (pow2_pos ex))
  · have hp := two_pow2_le_pow2 (show ex < ey by omega)
    have kx : roundHalfEven (x / pow2 ex) ≤ 9007199254740992 :=
      roundHalfEven_le_of_lt (by rw [div_pow2_lt_iff]; simpa using x2)
    have ky : (4503599627370496 : Int) ≤ roundHalfEven (y / pow2 ey) :=
      le_roundHalfEven_of_le (by rw [le_div_pow2_iff]; simpa using y1)
    have kx' := Rat.mul_le_mul_of_nonneg_right (Rat.intCast_le_intCast.2 kx) (Rat.le_of_lt (pow2_pos ex))
    have ky' := Rat.mul_le_mul_of_nonneg_right (Rat.intCast_le_intCast.2 ky) (Rat.le_of_lt (pow2_pos ey))
    have e1 : ((9007199254740992 : Int) : Rat) = 9007199254740992 := by simp
    have e2 : ((4503599627370496 : Int) : Rat) = 4503599627370496 := by simp
    rw [e1] at kx'; rw [e2] at ky'
    grind

/-- rounding to nearest is monotone -/
theorem toDouble_mono {x y : Rat} (h : x ≤ y) : toDouble x ≤ toDouble y := by
  by_cases hx : 0 < x
  · exact toDouble_mono_pos hx h
  · by_cases hy : 0 ≤ y
    · exact Rat.le_trans (toDouble_nonpos (by grind)) (toDouble_nonneg hy)
    · have := toDouble_mono_pos (x := -y) (y := -x) (by grind) (by grind)
      rw [toDouble_neg, toDouble_neg] at this
      grind

-- ================================================================ representable values
theorem toDouble_two53_mul_pow2 (e : Int) :
    toDouble (9007199254740992 * pow2 e) = 9007199254740992 * pow2 e := by
  have hs : (9007199254740992 : Rat) * pow2 e = 4503599627370496 * pow2 (e + 1) := by rw [pow2_succ]; grind
  have hp := pow2_pos (e + 1)
  rw [hs, toDouble_of_exp (e := e + 1) (Rat.le_refl) (by grind), Rat.mul_div_cancel (pow2_ne_zero _)]
  have : (4503599627370496 : Rat) = ((4503599627370496 : Int) : Rat) := by simp
  rw [this, roundHalfEven_intCast]

/-- an integer of at most 53 bits times a power of two is a double -/
theorem toDouble_int_mul_pow2_pos {k : Int} (hk : 0 < k) (hk2 : k ≤ 9007199254740992) (e : Int) :
    toDouble ((k : Rat) * pow2 e) = (k : Rat) * pow2 e := by
  by_cases h53 : k = 9007199254740992
  · subst h53
    have : ((9007199254740992 : Int) : Rat) = 9007199254740992 := by simp
    rw [this]; exact toDouble_two53_mul_pow2 e
  · have hkq : (0 : Rat) < (k : Rat) := by exact_mod_cast hk
    have hk3 : (k : Rat) ≤ 9007199254740991 := by
      have : k ≤ 9007199254740991 := by omega
      have := Rat.intCast_le_intCast.2 this
      rwa [show ((9007199254740991 : Int) : Rat) = 9007199254740991 from rfl] at this
    have hp := pow2_pos e
    have ha : 0 < (k : Rat) * pow2 e := Rat.mul_pos hkq hp
    obtain ⟨e', h1, h2, h3⟩ := toDouble_pos_spec ha
    have hle : e' ≤ e := by
      apply Classical.byContradiction
      intro hlt
      have := two_pow2_le_pow2 (show e < e' by omega)
      have := Rat.mul_le_mul_of_nonneg_right hk3 (Rat.le_of_lt hp)
      grind
    obtain ⟨j, hj⟩ := Int.eq_ofNat_of_zero_le (show 0 ≤ e - e' by omega)
    have he : e = (j : Int) + e' := by omega
    have hpe : pow2 e = ((2 ^ j : Nat) : Rat) * pow2 e' := by rw [he, pow2_add, pow2_natCast]
    have hm : (k : Rat) * pow2 e / pow2 e' = ((k * ((2 ^ j : Nat) : Int) : Int) : Rat) := by
      rw [hpe, ← Rat.mul_assoc, Rat.mul_div_cancel (pow2_ne_zero _)]
      simp [Rat.intCast_mul]
    rw [h3, hm, roundHalfEven_intCast, hpe]
    simp [Rat.intCast_mul, Rat.mul_assoc]

theorem toDouble_int_mul_pow2 {k : Int} (hk1 : -9007199254740992 ≤ k) (hk2 : k ≤ 9007199254740992) (e : Int) :
    toDouble ((k : Rat) * pow2 e) = (k : Rat) * pow2 e := by
  by_cases h0 : k = 0
  · subst h0; simp [toDouble_zero]
  · by_cases hp : 0 < k
    · exact toDouble_int_mul_pow2_pos hp hk2 e
    · have := toDouble_int_mul_pow2_pos (k := -k) (by omega) (by omega) e
      have hc : ((-k : Int) : Rat) * pow2 e = -((k : Rat) * pow2 e) := by simp [Rat.intCast_neg, Rat.neg_mul]
      rw [hc, toDouble_neg] at this
      grind

/-- integers up to `2^53` in magnitude are doubles -/
theorem toDouble_exact_int (n : Int) (h : n.natAbs ≤ 9007199254740992) : toDouble (n : Rat) = (n : Rat) := by
  have := toDouble_int_mul_pow2 (k := n) (by omega) (by omega) 0
  simpa [pow2_zero] using this

/-- every result of `toDouble` is a fixed point -/
theorem toDouble_idem (x : Rat) : toDouble (toDouble x) = toDouble x := by
  suffices h : ∀ a : Rat, 0 < a → toDouble (toDouble a) = toDouble a by
    by_cases h0 : x = 0
    · subst h0; decide
    · by_cases hp : 0 < x
      · exact h x hp
      · have := h (-x) (by grind)
        rw [toDouble_neg, toDouble_neg] at this
        grind
  intro a ha
  obtain ⟨e, h1, h2, h3⟩ := toDouble_pos_spec ha
  have kx : roundHalfEven (a / pow2 e) ≤ 9007199254740992 :=
    roundHalfEven_le_of_lt (by rw [div_pow2_lt_iff]; simpa using h2)
  have ky : (4503599627370496 : Int) ≤ roundHalfEven (a / pow2 e) :=
    le_roundHalfEven_of_le (by rw [le_div_pow2_iff]; simpa using h1)
  rw [h3]
  exact toDouble_int_mul_pow2_pos (by omega) kx e

-- ================================================================ chains of roundings of non-negative numbers
/-- `1 + 2^-53` -/
def rndW : Rat := 9007199254740993 / 9007199254740992

theorem mul_le_mul' {a b c d : Rat} (h1 : a ≤ b) (h2 : c ≤ d) (ha : 0 ≤ a) (hc : 0 ≤ c) : a * c ≤ b * d := by
  have := Rat.mul_le_mul_of_nonneg_left h2 ha
  have := Rat.mul_le_mul_of_nonneg_right h1 (show 0 ≤ d by grind)
  grind

theorem rndW_pow_ge_one (k : Nat) : 1 ≤ rndW ^ k := by
  induction k with
  | zero => simp
  | succ k ih =>
    rw [Rat.pow_succ]
    have : (1 : Rat) ≤ rndW := by decide +kernel
    have := mul_le_mul' ih this (by decide) (by decide)
    simpa using this

theorem rndW_pow_mono {j k : Nat} (h : j ≤ k) : rndW ^ j ≤ rndW ^ k := by
  obtain ⟨d, rfl⟩ := Nat.exists_eq_add_of_le h
  have h1 := rndW_pow_ge_one j
  have h2 := rndW_pow_ge_one d
  have := Rat.mul_le_mul_of_nonneg_left h2 (show 0 ≤ rndW ^ j by grind)
  have e : rndW ^ (j + d) = rndW ^ j * rndW ^ d := by grind
  grind

/-- for up to `2^52` roundings the compound factor is at most `1 + k·2^-52` -/
theorem rndW_pow_le_linear (k : Nat) (hk : k ≤ 4503599627370496) :
    rndW ^ k ≤ 1 + (k : Rat) / 4503599627370496 := by
  induction k with
  | zero => decide +kernel
  | succ k ih =>
    have ih := ih (by omega)
    have hkq : ((k : Nat) : Rat) ≤ 4503599627370496 := by
      have : k ≤ 4503599627370496 := by omega
      have := Rat.natCast_le_natCast.2 this
      rwa [show ((4503599627370496 : Nat) : Rat) = 4503599627370496 from rfl] at this
    have hk0 : (0 : Rat) ≤ (k : Rat) := by exact_mod_cast Nat.zero_le k
    rw [Rat.pow_succ]
    have hW : (0 : Rat) ≤ rndW := by decide +kernel
    have h1 := Rat.mul_le_mul_of_nonneg_right ih hW
    have hc : ((k + 1 : Nat) : Rat) = (k : Rat) + 1 := by simp [Rat.natCast_add]
    rw [hc]
    simp only [rndW, Rat.div_def] at *
    grind

/-- `a` and `b` are non-negative and within a factor `(1 + 2^-53)^k` of each other -/
def Near (k : Nat) (a b : Rat) : Prop := 0 ≤ a ∧ 0 ≤ b ∧ a ≤ rndW ^ k * b ∧ b ≤ rndW ^ k * a

theorem Near.refl {a : Rat} (ha : 0 ≤ a) : Near 0 a a := ⟨ha, ha, by simp, by simp⟩

theorem Near.symm {k : Nat} {a b : Rat} (h : Near k a b) : Near k b a := ⟨h.2.1, h.1, h.2.2.2, h.2.2.1⟩

theorem Near.weaken {j k : Nat} {a b : Rat} (h : Near j a b) (hjk : j ≤ k) : Near k a b := by
  obtain ⟨h1, h2, h3, h4⟩ := h
  have hm := rndW_pow_mono hjk
  refine ⟨h1, h2, ?_, ?_⟩
  · exact Rat.le_trans h3 (Rat.mul_le_mul_of_nonneg_right hm h2)
  · exact Rat.le_trans h4 (Rat.mul_le_mul_of_nonneg_right hm h1)

theorem Near.trans {j k : Nat} {a b c : Rat} (h : Near j a b) (h' : Near k b c) : Near (j + k) a c := by
  obtain ⟨h1, h2, h3, h4⟩ := h
  obtain ⟨_, g2, g3, g4⟩ := h'
  have e : rndW ^ (j + k) = rndW ^ j * rndW ^ k := by grind
  have pj : 0 ≤ rndW ^ j := by have := rndW_pow_ge_one j; grind
  have pk : 0 ≤ rndW ^ k := by have := rndW_pow_ge_one k; grind
  refine ⟨h1, g2, ?_, ?_⟩
  · have := Rat.mul_le_mul_of_nonneg_left g3 pj
    rw [e]; grind
  · have := Rat.mul_le_mul_of_nonneg_left h4 pk
    rw [e]; grind

theorem Near.mul {j k : Nat} {a b c d : Rat} (h : Near j a b) (h' : Near k c d) : Near (j + k) (a * c) (b * d) := by
  obtain ⟨h1, h2, h3, h4⟩ := h
  obtain ⟨g1, g2, g3, g4⟩ := h'
  have e : rndW ^ (j + k) = rndW ^ j * rndW ^ k := by grind
  refine ⟨Rat.mul_nonneg h1 g1, Rat.mul_nonneg h2 g2, ?_, ?_⟩
  · have := mul_le_mul' h3 g3 h1 g1
    rw [e]; grind
  · have := mul_le_mul' h4 g4 h2 g2
    rw [e]; grind

theorem Near.add {k : Nat} {a b c d : Rat} (h : Near k a b) (h' : Near k c d) : Near k (a + c) (b + d) := by
  obtain ⟨h1, h2, h3, h4⟩ := h
  obtain ⟨g1, g2, g3, g4⟩ := h'
  refine ⟨by grind, by grind, ?_, ?_⟩ <;> grind

theorem Near.inv {k : Nat} {c d : Rat} (h : Near k c d) (hc : 0 < c) (hd : 0 < d) : Near k c⁻¹ d⁻¹ := by
  obtain ⟨_, _, h3, h4⟩ := h
  have ic := Rat.inv_pos.2 hc
  have id := Rat.inv_pos.2 hd
  have e1 := Rat.mul_inv_cancel c (Rat.ne_of_gt hc)
  have e2 := Rat.mul_inv_cancel d (Rat.ne_of_gt hd)
  have hcd : 0 ≤ c⁻¹ * d⁻¹ := Rat.le_of_lt (Rat.mul_pos ic id)
  have m3 := Rat.mul_le_mul_of_nonneg_right h3 hcd
  have m4 := Rat.mul_le_mul_of_nonneg_right h4 hcd
  have r1 : c * (c⁻¹ * d⁻¹) = d⁻¹ := by rw [← Rat.mul_assoc, e1, Rat.one_mul]
  have r2 : rndW ^ k * d * (c⁻¹ * d⁻¹) = rndW ^ k * c⁻¹ * (d * d⁻¹) := by grind
  have r3 : d * (c⁻¹ * d⁻¹) = c⁻¹ * (d * d⁻¹) := by grind
  have r4 : rndW ^ k * c * (c⁻¹ * d⁻¹) = rndW ^ k * d⁻¹ * (c * c⁻¹) := by grind
  rw [r1, r2, e2, Rat.mul_one] at m3
  rw [r3, e2, Rat.mul_one, r4, e1, Rat.mul_one] at m4
  exact ⟨Rat.le_of_lt ic, Rat.le_of_lt id, m4, m3⟩

theorem Near.div {j k : Nat} {a b c d : Rat} (h : Near j a b) (h' : Near k c d) (hc : 0 < c) (hd : 0 < d) :
    Near (j + k) (a / c) (b / d) := by
  rw [Rat.div_def, Rat.div_def]; exact h.mul (h'.inv hc hd)

theorem Near.zero (k : Nat) : Near k 0 0 := ⟨Rat.le_refl, Rat.le_refl, by simp, by simp⟩

/-- one rounding of a non-negative number -/
theorem Near.of_toDouble {x : Rat} (hx : 0 ≤ x) : Near 1 (RG.toDouble x) x := by
  by_cases h0 : x = 0
  · subst h0; rw [toDouble_zero]; exact Near.zero 1
  · have hp : 0 < x := by grind
    obtain ⟨⟨h1, _⟩, ⟨_, h4⟩⟩ := toDouble_err_pos hp
    refine ⟨toDouble_nonneg hx, hx, ?_, ?_⟩ <;> simp only [Rat.pow_one, rndW, Rat.div_def] <;> grind

theorem Near.round {k : Nat} {a b : Rat} (h : Near k a b) : Near (k + 1) (RG.toDouble a) b := by
  have := (Near.of_toDouble h.1).trans h
  rwa [Nat.add_comm] at this

/-- absolute error from the relative one -/
theorem Near.err {k : Nat} {a b : Rat} (h : Near k a b) :
    a - b ≤ (rndW ^ k - 1) * b ∧ b - a ≤ (rndW ^ k - 1) * b := by
  obtain ⟨h1, h2, h3, h4⟩ := h
  have hw := rndW_pow_ge_one k
  generalize rndW ^ k = w at *
  constructor
  · grind
  · by_cases hba : b - a ≤ 0
    · have := Rat.mul_nonneg (show 0 ≤ w - 1 by grind) h2
      grind
    · have := Rat.mul_le_mul_of_nonneg_right hw (show 0 ≤ b - a by grind)
      grind

-- ================================================================ absolute values
theorem abs_mul (x y : Rat) : (x * y).abs = x.abs * y.abs := by
  by_cases hx : 0 ≤ x
  · rw [Rat.abs_of_nonneg hx, abs_mul_of_nonneg hx]
  · have hx' : 0 ≤ -x := by grind
    have h1 := abs_mul_of_nonneg (x := y) hx'
    have h2 : -x * y = -(x * y) := by grind
    rw [h2, Rat.abs_neg] at h1
    have h3 : x.abs = -x := Rat.abs_of_nonpos (by grind)
    rw [h1, h3]

theorem self_le_abs (x : Rat) : -x.abs ≤ x ∧ x ≤ x.abs := abs_le_iff.1 Rat.le_refl

/-- one rounding after an approximation: if `x` is within `c·|P|` of `P`, then `toDouble x` is within
    `(c + 2^-53·(1 + c))·|P|` -/
theorem round_after {x P c : Rat} (h : (x - P).abs ≤ c * P.abs) :
    (toDouble x - P).abs ≤ (c + (1 + c) / 9007199254740992) * P.abs := by
  have h1 := toDouble_err_mul x
  have h3 := self_le_abs P
  have h4 := self_le_abs (toDouble x - x)
  rw [abs_le_iff] at h
  have h2 : x.abs ≤ P.abs + c * P.abs := by rw [abs_le_iff]; grind
  rw [abs_le_iff]
  simp only [Rat.div_def] at *
  generalize (toDouble x - x).abs = d at *
  generalize x.abs = ax at *
  have e : (c + (1 + c) * 9007199254740992⁻¹) * P.abs
      = c * P.abs + P.abs * 9007199254740992⁻¹ + c * P.abs * 9007199254740992⁻¹ := by grind
  rw [e]
  generalize hcp : c * P.abs = cp at *
  generalize P.abs = p at *
  constructor <;> grind
