import RecipeGrid.Lemmas.Html
import RecipeGrid.Lemmas.Fold
import RecipeGrid.Props.C04
import RecipeGrid.Model.Markdown
/-! Helper definitions and lemmas for `Props/C09b.lean`: which ids and hrefs `renderRecipeTree` writes, seen on the
    level of the recipe trees (`cellNodes`, `cellIds`, `cellHrefs`, `rootId`, `idsOfTree`, `hrefsOfTree`), the link
    between these and the cells of the rendered table, and list lemmas (positions, `Nodup`, grouping by a key). -/
namespace RG

-- ================================================================ list lemmas
theorem nodup_map_inj {α β} (f : α → β) (hf : ∀ a b, f a = f b → a = b) (l : List α) :
    (l.map f).Nodup ↔ l.Nodup := by
  simp only [List.Nodup, List.pairwise_map]
  constructor
  · intro h; exact h.imp fun {a b} hab e => hab (congrArg f e)
  · intro h; exact h.imp fun {a b} hab e => hab (hf a b e)

/-- in a duplicate-free list an element has one position -/
theorem nodup_getElem?_inj {α} {l : List α} (h : l.Nodup) {i j : Nat} {a : α} (hi : l[i]? = some a)
    (hj : l[j]? = some a) : i = j := by
  induction l generalizing i j with
  | nil => simp at hi
  | cons x xs ih =>
    rw [List.nodup_cons] at h
    cases i with
    | zero =>
      cases j with
      | zero => rfl
      | succ j =>
        simp only [List.getElem?_cons_zero, Option.some.injEq, List.getElem?_cons_succ] at hi hj
        subst hi
        exact absurd (List.mem_of_getElem? hj) h.1
    | succ i =>
      cases j with
      | zero =>
        simp only [List.getElem?_cons_zero, Option.some.injEq, List.getElem?_cons_succ] at hi hj
        subst hj
        exact absurd (List.mem_of_getElem? hi) h.1
      | succ j =>
        simp only [List.getElem?_cons_succ] at hi hj
        rw [ih h.2 hi hj]

/-- a list has a duplicate iff two different positions hold the same element -/
theorem not_nodup_iff {α} (l : List α) : ¬ l.Nodup ↔ ∃ (i j : Nat) (a : α), i ≠ j ∧ l[i]? = some a ∧ l[j]? = some a := by
  constructor
  · intro h
    induction l with
    | nil => exact absurd List.nodup_nil h
    | cons x xs ih =>
      rw [List.nodup_cons] at h
      by_cases hx : x ∈ xs
      · obtain ⟨j, hj⟩ := List.getElem?_of_mem hx
        exact ⟨0, j + 1, x, by omega, rfl, by simpa using hj⟩
      · have : ¬ xs.Nodup := fun hn => h ⟨hx, hn⟩
        obtain ⟨i, j, a, hne, hi, hj⟩ := ih this
        exact ⟨i + 1, j + 1, a, by omega, by simpa using hi, by simpa using hj⟩
  · rintro ⟨i, j, a, hne, hi, hj⟩ h
    exact hne (nodup_getElem?_inj h hi hj)

theorem getElem?_flatMap_offset {α β} (f : α → List β) (l : List α) (k : Nat) (x : α) (hk : l[k]? = some x) (i : Nat) (b : β)
    (hi : (f x)[i]? = some b) : (l.flatMap f)[((l.take k).flatMap f).length + i]? = some b := by
  induction l generalizing k with
  | nil => simp at hk
  | cons y ys ih =>
    cases k with
    | zero =>
      simp only [List.getElem?_cons_zero, Option.some.injEq] at hk
      subst hk
      have hlt : i < (f y).length := by
        rcases Nat.lt_or_ge i (f y).length with h | h
        · exact h
        · rw [List.getElem?_eq_none h] at hi; cases hi
      simp only [List.take_zero, List.flatMap_nil, List.length_nil, Nat.zero_add, List.flatMap_cons]
      rw [List.getElem?_append_left hlt]; exact hi
    | succ k =>
      simp only [List.getElem?_cons_succ] at hk
      simp only [List.take_succ_cons, List.flatMap_cons, List.length_append]
      rw [Nat.add_assoc, List.getElem?_append_right (by omega), Nat.add_sub_cancel_left]
      exact ih k hk

/-- grouping by a key: if equal values force equal keys, the values are duplicate-free iff they are so within
    every key -/
theorem nodup_groups {α} (L : List (Nat × α)) (hd : ∀ a ∈ L, ∀ b ∈ L, a.2 = b.2 → a.1 = b.1) :
    (L.map (·.2)).Nodup ↔ ∀ i, ((L.filter (·.1 == i)).map (·.2)).Nodup := by
  constructor
  · intro h i
    exact h.sublist ((List.filter_sublist (l := L)).map _)
  · intro h
    induction L with
    | nil => exact List.nodup_nil
    | cons x xs ih =>
      rw [List.map_cons, List.nodup_cons]
      constructor
      · intro hx
        obtain ⟨y, hy, hyx⟩ := List.mem_map.1 hx
        have hk : y.1 = x.1 := hd y (List.mem_cons_of_mem _ hy) x (List.mem_cons_self ..) hyx
        have := h x.1
        simp only [List.filter_cons, beq_self_eq_true, if_true, List.map_cons, List.nodup_cons] at this
        apply this.1
        exact List.mem_map.2 ⟨y, List.mem_filter.2 ⟨hy, by simp [hk]⟩, hyx⟩
      · apply ih (fun a ha b hb => hd a (List.mem_cons_of_mem _ ha) b (List.mem_cons_of_mem _ hb))
        intro i
        have := h i
        simp only [List.filter_cons] at this
        split at this
        · exact (List.nodup_cons.1 this).2
        · exact this

-- ================================================================ sanitised names
/-- the sanitised output name: every character outside `[A-Za-z0-9._-]` of the rendered name replaced by `-`, then
    leading and trailing `-` removed (`Lemmas/Html.lean`: `anchorTail`) -/
def sanitise (name : SVS) : Str := anchorTail name

theorem anchorId_sanitise (pre : Str) (name : SVS) : anchorId pre name = pre ++ sanitise name := rfl

/-- two ids under one prefix are equal iff the sanitised names are -/
theorem anchorId_eq_iff (pre : Str) (a b : SVS) : anchorId pre a = anchorId pre b ↔ sanitise a = sanitise b := by
  rw [anchorId_sanitise, anchorId_sanitise]
  exact ⟨List.append_cancel_left, fun h => by rw [h]⟩

theorem nodup_anchorIds_iff (pre : Str) (names : List SVS) :
    (names.map (anchorId pre)).Nodup ↔ (names.map sanitise).Nodup := by
  have : names.map (anchorId pre) = (names.map sanitise).map (pre ++ ·) := by
    simp [List.map_map, Function.comp_def, anchorId_sanitise]
  rw [this]
  exact nodup_map_inj _ (fun a b h => List.append_cancel_left h) _

-- ================================================================ the nodes that get a cell
mutual
/-- the nodes of a tree that get a table cell (outside embedded copies), in the order of `drawn` -/
def cellNodes : Tree → List Tree
  | .ingredient d q => [.ingredient d q]
  | .reference s i a => [.reference s i a]
  | .step d inputs => cellNodesList inputs ++ [.step d inputs]
  | .sub body names sh =>
    if names.length = 1 then (if sh then [.sub body names sh] else []) ++ cellNodes body
    else cellNodes body ++ [.sub body names sh]
def cellNodesList : List Tree → List Tree
  | [] => []
  | t :: ts => cellNodes t ++ cellNodesList ts
end

theorem at?_append : ∀ (p q : List Nat) (root t : Tree), root.at? p = some t → root.at? (p ++ q) = t.at? q
  | [], q, root, t, h => by simp only [Tree.at?, Option.some.injEq] at h; subst h; rfl
  | i :: p, q, root, t, h => by
    rcases at?_cons root i p t h with ⟨d, ins, c, rfl, hc, hr⟩ | ⟨b, ns, sh, rfl, rfl, hr⟩
    · simp only [List.cons_append, Tree.at?, hc]
      exact at?_append p q c t hr
    · simp only [List.cons_append, Tree.at?]
      exact at?_append p q b t hr

/-- the node a cell shows -/
def nodeAt (root : Tree) (path : List Nat) : Tree := (root.at? path).getD root

mutual
theorem drawn_nodes (root : Tree) : ∀ (t : Tree) (p : List Nat), root.at? p = some t →
    (drawn p t).map (fun x => nodeAt root x.1) = cellNodes t
  | .ingredient d q, p, h => by simp [drawn, cellNodes, nodeAt, h]
  | .reference s i a, p, h => by simp [drawn, cellNodes, nodeAt, h]
  | .step d inputs, p, h => by
    simp only [drawn, cellNodes, List.map_append, List.map_cons, List.map_nil, nodeAt, h, Option.getD_some]
    rw [← drawnInputs_nodes root inputs p 0 (fun j c hc => by
      rw [at?_append p [0 + j] root _ h]; simp [Tree.at?, hc])]
    rfl
  | .sub body names sh, p, h => by
    have hb := drawn_nodes root body (p ++ [0]) (by rw [at?_append p [0] root _ h]; simp [Tree.at?])
    have hn : nodeAt root p = .sub body names sh := by simp [nodeAt, h]
    simp only [drawn, cellNodes]
    split
    · split <;> simp only [List.map_append, List.map_cons, List.map_nil, hb, hn, List.nil_append]
    · simp only [List.map_append, List.map_cons, List.map_nil, hb, hn]
theorem drawnInputs_nodes (root : Tree) : ∀ (ts : List Tree) (p : List Nat) (i : Nat),
    (∀ j c, ts[j]? = some c → root.at? (p ++ [i + j]) = some c) →
    (drawnInputs p i ts).map (fun x => nodeAt root x.1) = cellNodesList ts
  | [], _, _, _ => by simp [drawnInputs, cellNodesList]
  | t :: ts, p, i, h => by
    simp only [drawnInputs, cellNodesList, List.map_append]
    rw [drawn_nodes root t (p ++ [i]) (by simpa using h 0 t rfl),
      drawnInputs_nodes root ts p (i + 1) (fun j c hc => by
        have := h (j + 1) c (by simpa using hc)
        rwa [show i + (j + 1) = i + 1 + j by omega] at this)]
end

/-- the cells of the layout, in the order the layout builds them, show exactly the nodes `cellNodes` -/
theorem layout_cells_nodes (t : Tree) : (layout t).cells.map (fun c => nodeAt t c.path) = cellNodes t := by
  have h1 := layoutAt_pk t [] true
  have h2 := drawn_nodes t t [] rfl
  rw [← h2, ← h1, List.map_map]
  rfl

/-- the nodes shown by the cells in the order they are written into the page (row by row) -/
def writtenNodes (t : Tree) : List Tree := (emitRows (layout t)).flatten.map fun c => nodeAt t c.path

/-- for a well-formed tree (every step has an input) the page shows every `cellNodes` node once -/
theorem writtenNodes_perm (t : Tree) (h : C02.wf t = true) : (writtenNodes t).Perm (cellNodes t) := by
  rw [← layout_cells_nodes]
  exact (C04.emitRows_perm _ (C02.layout_tiles t h)).map _

-- ================================================================ ids and hrefs of one cell, of one table
/-- the `id` attributes inside the body of the cell showing `node`: one per `<li>` of an output list -/
def cellIds (pre : Str) : Tree → List Str
  | .sub _ names _ => if names.length = 1 then [] else names.map (anchorId pre)
  | _ => []
/-- the `href` attribute inside the body of the cell showing `node`: the `<a>` of a reference -/
def cellHrefs (pre : Str) : Tree → List Str
  | .reference sub idx _ => ['#' :: anchorId pre ((subNames sub)[idx]?.getD [])]
  | _ => []
/-- the `id` attribute of the `<table>` -/
def rootId (pre : Str) : Tree → Option Str
  | .sub _ [n] _ => some (anchorId pre n)
  | _ => none

theorem renderRecipeTree_eq (pre : Str) (t : Tree) :
    renderRecipeTree pre t = renderTable pre t (layout t) (rootId pre t) := by
  cases t with
  | sub b ns sh =>
    match ns with
    | [] => rfl
    | [n] => rfl
    | _ :: _ :: _ => rfl
  | _ => rfl

/-- the text of a table, cell by cell -/
theorem renderTable_eq (pre : Str) (tree : Tree) (t : Tbl) (id : Option Str) :
    renderTable pre tree t id =
      tagBody "table" (("class", S "rg-table") :: id.toList.map fun i => ("id", i))
        (joinNl ((emitRows t).map fun row => tagBody "tr" []
          (joinNl (row.map fun c => tagBody "td" (cellAttrs c) (renderCellBody pre (nodeAt tree c.path)))))) := by
  cases id <;> rfl

/-- the ids a rendered tree carries, structurally: the table id, then the list item ids of the cells -/
def idsOfTree (pre : Str) (t : Tree) : List Str := (rootId pre t).toList ++ (cellNodes t).flatMap (cellIds pre)
/-- the hrefs a rendered tree carries, structurally -/
def hrefsOfTree (pre : Str) (t : Tree) : List Str := (cellNodes t).flatMap (cellHrefs pre)
/-- the same in the order of the page: the table id, then cell by cell as written -/
def writtenIds (pre : Str) (t : Tree) : List Str := (rootId pre t).toList ++ (writtenNodes t).flatMap (cellIds pre)
def writtenHrefs (pre : Str) (t : Tree) : List Str := (writtenNodes t).flatMap (cellHrefs pre)

theorem writtenIds_perm (pre : Str) (t : Tree) (h : C02.wf t = true) : (writtenIds pre t).Perm (idsOfTree pre t) :=
  List.Perm.append_left _ ((writtenNodes_perm t h).flatMap_right _)
theorem writtenHrefs_perm (pre : Str) (t : Tree) (h : C02.wf t = true) : (writtenHrefs pre t).Perm (hrefsOfTree pre t) :=
  (writtenNodes_perm t h).flatMap_right _

-- ---------------------------------------------------------------- the names behind the ids
def cellIdNames : Tree → List SVS
  | .sub _ names _ => if names.length = 1 then [] else names
  | _ => []
def rootName : Tree → List SVS
  | .sub _ [n] _ => [n]
  | _ => []
/-- the output names for which the rendered tree carries an id -/
def idNames (t : Tree) : List SVS := rootName t ++ (cellNodes t).flatMap cellIdNames

theorem cellIds_eq (pre : Str) (t : Tree) : cellIds pre t = (cellIdNames t).map (anchorId pre) := by
  cases t <;> simp only [cellIds, cellIdNames, List.map_nil]
  split <;> simp

theorem rootId_eq (pre : Str) (t : Tree) : (rootId pre t).toList = (rootName t).map (anchorId pre) := by
  unfold rootId rootName
  split <;> simp

theorem idsOfTree_eq (pre : Str) (t : Tree) : idsOfTree pre t = (idNames t).map (anchorId pre) := by
  have : cellIds pre = fun a => (cellIdNames a).map (anchorId pre) := funext (cellIds_eq pre)
  simp only [idsOfTree, idNames, List.map_append, rootId_eq, List.map_flatMap, this]

theorem rootName_of_length {b : Tree} {ns : List SVS} {sh : Bool} (h : ns.length ≠ 1) : rootName (.sub b ns sh) = [] := by
  match ns, h with
  | [], _ => rfl
  | [_], h => simp at h
  | _ :: _ :: _, _ => rfl

mutual
/-- every sub recipe node (outside embedded copies) has exactly one output -/
def Tree.singleOut : Tree → Bool
  | .ingredient .. => true
  | .reference .. => true
  | .step _ i => Tree.singleOutList i
  | .sub b ns _ => ns.length == 1 && Tree.singleOut b
def Tree.singleOutList : List Tree → Bool
  | [] => true
  | t :: ts => Tree.singleOut t && Tree.singleOutList ts
end
/-- Python's invariant: only a root can be a sub recipe with several outputs -/
def Tree.multiAtRootOnly : Tree → Bool
  | .sub b _ _ => Tree.singleOut b
  | t => Tree.singleOut t

mutual
theorem cellIdNames_singleOut : ∀ t : Tree, t.singleOut = true → (cellNodes t).flatMap cellIdNames = []
  | .ingredient .., _ => by simp [cellNodes, cellIdNames]
  | .reference .., _ => by simp [cellNodes, cellIdNames]
  | .step d i, h => by
    simp only [Tree.singleOut] at h
    simp [cellNodes, cellIdNames, cellIdNames_singleOutList i h]
  | .sub b ns sh, h => by
    simp only [Tree.singleOut, Bool.and_eq_true, beq_iff_eq] at h
    have := cellIdNames_singleOut b h.2
    simp only [cellNodes, h.1, if_true, List.flatMap_append, this, List.append_nil]
    cases sh <;> simp [cellIdNames, h.1]
theorem cellIdNames_singleOutList : ∀ ts : List Tree, Tree.singleOutList ts = true →
    (cellNodesList ts).flatMap cellIdNames = []
  | [], _ => rfl
  | t :: ts, h => by
    simp only [Tree.singleOutList, Bool.and_eq_true] at h
    simp [cellNodesList, cellIdNames_singleOut t h.1, cellIdNames_singleOutList ts h.2]
end

/-- under Python's invariant the names with an id are the output names of the root -/
theorem idNames_of_multiAtRootOnly (t : Tree) (h : t.multiAtRootOnly = true) : idNames t = subNames t := by
  cases t with
  | ingredient d q => simp [idNames, rootName, cellNodes, cellIdNames, subNames]
  | reference s i a => simp [idNames, rootName, cellNodes, cellIdNames, subNames]
  | step d i =>
    have := cellIdNames_singleOut (.step d i) h
    simp [idNames, rootName, this, subNames]
  | sub b ns sh =>
    have hb := cellIdNames_singleOut b h
    by_cases h1 : ns.length = 1
    · match ns, h1 with
      | [n], _ =>
        simp only [idNames, rootName, cellNodes, List.length_singleton, if_true, List.flatMap_append, hb, subNames]
        cases sh <;> simp [cellIdNames]
    · simp [idNames, rootName_of_length h1, cellNodes, h1, hb, cellIdNames, subNames]

theorem idsOfTree_of_multiAtRootOnly (pre : Str) (t : Tree) (h : t.multiAtRootOnly = true) :
    idsOfTree pre t = (subNames t).map (anchorId pre) := by
  rw [idsOfTree_eq, idNames_of_multiAtRootOnly t h]

/-- in general the output names of a root are among the names with an id -/
theorem subNames_sub_idNames (t : Tree) : ∀ n ∈ subNames t, n ∈ idNames t := by
  intro n hn
  cases t with
  | sub b ns sh =>
    simp only [subNames] at hn
    by_cases h1 : ns.length = 1
    · match ns, h1 with
      | [m], _ => simp only [List.mem_singleton] at hn; subst hn; simp [idNames, rootName]
    · simp only [idNames, cellNodes, h1, if_false, List.flatMap_append, List.mem_append]
      right; right
      simp [cellIdNames, h1, hn]
  | _ => simp [subNames] at hn

-- ---------------------------------------------------------------- a whole recipe: the root trees of its blocks
/-- the ids the renderer emits for the root trees of one recipe under a prefix -/
def idsOf (ts : List Tree) (pre : Str) : List Str := ts.flatMap (idsOfTree pre)
/-- the hrefs of its reference cells -/
def hrefsOf (ts : List Tree) (pre : Str) : List Str := ts.flatMap (hrefsOfTree pre)

theorem idsOf_eq (ts : List Tree) (pre : Str) : idsOf ts pre = (ts.flatMap idNames).map (anchorId pre) := by
  have : idsOfTree pre = fun a => (idNames a).map (anchorId pre) := funext (idsOfTree_eq pre)
  simp only [idsOf, List.map_flatMap, this]

theorem flatMap_congr_mem {α β} {f g : α → List β} {l : List α} (h : ∀ x ∈ l, f x = g x) : l.flatMap f = l.flatMap g := by
  induction l with
  | nil => rfl
  | cons x xs ih =>
    simp only [List.flatMap_cons, h x (List.mem_cons_self ..), ih fun y hy => h y (List.mem_cons_of_mem _ hy)]

theorem idNames_flat_of_multiAtRootOnly (ts : List Tree) (h : ∀ t ∈ ts, t.multiAtRootOnly = true) :
    ts.flatMap idNames = ts.flatMap subNames :=
  flatMap_congr_mem fun t ht => idNames_of_multiAtRootOnly t (h t ht)

-- ================================================================ reference cells and their targets
mutual
theorem cellNodes_ref_target : ∀ (t s : Tree) (i : Nat) (a : Amount), Tree.reference s i a ∈ cellNodes t → s ∈ t.refTargets
  | .ingredient .., s, i, a, h => by simp [cellNodes] at h
  | .reference s' i' a', s, i, a, h => by
    simp only [cellNodes, List.mem_singleton, Tree.reference.injEq] at h
    simp [Tree.refTargets, h.1]
  | .step d ins, s, i, a, h => by
    simp only [cellNodes, List.mem_append, List.mem_singleton, reduceCtorEq, or_false] at h
    simp only [Tree.refTargets]
    exact cellNodesList_ref_target ins s i a h
  | .sub b ns sh, s, i, a, h => by
    simp only [Tree.refTargets]
    apply cellNodes_ref_target b s i a
    simp only [cellNodes] at h
    split at h
    · simp only [List.mem_append] at h
      rcases h with h | h
      · split at h <;> simp at h
      · exact h
    · simpa using h
theorem cellNodesList_ref_target : ∀ (ts : List Tree) (s : Tree) (i : Nat) (a : Amount),
    Tree.reference s i a ∈ cellNodesList ts → s ∈ Tree.refTargetsList ts
  | [], s, i, a, h => by simp [cellNodesList] at h
  | t :: ts, s, i, a, h => by
    simp only [cellNodesList, List.mem_append] at h
    simp only [Tree.refTargetsList, List.mem_append]
    rcases h with h | h
    · exact Or.inl (cellNodes_ref_target t s i a h)
    · exact Or.inr (cellNodesList_ref_target ts s i a h)
end

theorem validS_flatten : ∀ (bs : List Block) (prev : List Tree), C03.ValidS prev bs → C03.ValidBlockS prev bs.flatten
  | [], _, _ => trivial
  | b :: bs, prev, h => by
    rw [List.flatten_cons, validBlockS_append]
    refine ⟨h.1, validBlockS_mono _ _ _ ?_ (validS_flatten bs _ h.2)⟩
    intro x hx
    simp only [List.mem_append, List.mem_reverse] at hx ⊢
    exact hx.symm

theorem validBlockS_pos : ∀ (b : Block) (prev : List Tree), C03.ValidBlockS prev b →
    ∀ (p : Nat) (T : Tree), b[p]? = some T → ∀ s ∈ T.refTargets,
      s ∈ prev ∨ ∃ k, k < p ∧ b[k]? = some s ∧ s.isSub = true
  | [], _, _, p, T, hp, _, _ => by simp at hp
  | t :: ts, prev, h, p, T, hp, s, hs => by
    cases p with
    | zero =>
      simp only [List.getElem?_cons_zero, Option.some.injEq] at hp
      subst hp
      exact Or.inl (h.1 s hs)
    | succ p =>
      simp only [List.getElem?_cons_succ] at hp
      rcases validBlockS_pos ts _ h.2 p T hp s hs with h' | ⟨k, hk, hks, hsub⟩
      · cases ht : t.isSub with
        | false => simp only [ht, Bool.false_eq_true, if_false] at h'; exact Or.inl h'
        | true =>
          simp only [ht, if_true, List.mem_cons] at h'
          rcases h' with rfl | h'
          · exact Or.inr ⟨0, by omega, rfl, ht⟩
          · exact Or.inl h'
      · exact Or.inr ⟨k + 1, by omega, by simpa using hks, hsub⟩

/-- in a structurally valid recipe the sub recipe held by a reference cell IS an earlier root tree -/
theorem ref_cell_resolves (bs : List Block) (hv : C03.ValidS [] bs) (p : Nat) (T : Tree) (hp : bs.flatten[p]? = some T)
    (s : Tree) (i : Nat) (a : Amount) (hc : Tree.reference s i a ∈ cellNodes T) :
    ∃ k, k < p ∧ bs.flatten[k]? = some s ∧ s.isSub = true := by
  rcases validBlockS_pos _ _ (validS_flatten bs [] hv) p T hp s (cellNodes_ref_target T s i a hc) with h | h
  · simp at h
  · exact h

/-- every reference cell selects an existing output -/
def RefsInRange (t : Tree) : Prop := ∀ s i a, Tree.reference s i a ∈ cellNodes t → i < (subNames s).length

-- ================================================================ scaling
theorem subNames_scale (k : Num) (t : Tree) : subNames (t.scale k) = (subNames t).map (Svs.scale k) := by
  cases t <;> simp [Tree.scale, subNames]

mutual
theorem cellNodes_scale (k : Num) : ∀ t : Tree, cellNodes (t.scale k) = (cellNodes t).map (Tree.scale k)
  | .ingredient .. => by simp [Tree.scale, cellNodes]
  | .reference .. => by simp [Tree.scale, cellNodes]
  | .step d i => by simp [Tree.scale, cellNodes, cellNodesList_scale k i]
  | .sub b ns sh => by
    simp only [Tree.scale, cellNodes, List.length_map, cellNodes_scale k b]
    split
    · split <;> simp [Tree.scale]
    · simp [Tree.scale]
theorem cellNodesList_scale (k : Num) : ∀ ts : List Tree,
    cellNodesList (Tree.scaleList k ts) = (cellNodesList ts).map (Tree.scale k)
  | [] => rfl
  | t :: ts => by simp [Tree.scaleList, cellNodesList, cellNodes_scale k t, cellNodesList_scale k ts]
end

theorem scaleList_eq_map (k : Num) : ∀ ts : List Tree, Tree.scaleList k ts = ts.map (Tree.scale k)
  | [] => rfl
  | t :: ts => by simp [Tree.scaleList, scaleList_eq_map k ts]

theorem scaleBlocks_flatten (k : Num) (bs : List Block) : (scaleBlocks k bs).flatten = bs.flatten.map (Tree.scale k) := by
  induction bs with
  | nil => rfl
  | cons b bs ih =>
    simp only [scaleBlocks, List.map_cons, List.flatten_cons, List.map_append, scaleList_eq_map] at ih ⊢
    rw [ih]

theorem cellIdNames_scale (k : Num) (t : Tree) : cellIdNames (t.scale k) = (cellIdNames t).map (Svs.scale k) := by
  cases t <;> simp only [Tree.scale, cellIdNames, List.map_nil, List.length_map]
  split <;> simp

theorem rootName_scale (k : Num) (t : Tree) : rootName (t.scale k) = (rootName t).map (Svs.scale k) := by
  cases t with
  | sub b ns sh =>
    match ns with
    | [] => rfl
    | [n] => rfl
    | _ :: _ :: _ => rfl
  | _ => rfl

/-- the names with an id on the scaled tree are the scaled names -/
theorem idNames_scale (k : Num) (t : Tree) : idNames (t.scale k) = (idNames t).map (Svs.scale k) := by
  simp only [idNames, rootName_scale, cellNodes_scale, List.map_append, List.flatMap_map, List.map_flatMap,
    cellIdNames_scale]

theorem RefsInRange.scale {t : Tree} (h : RefsInRange t) (k : Num) : RefsInRange (t.scale k) := by
  intro s i a hc
  rw [cellNodes_scale] at hc
  obtain ⟨n, hn, e⟩ := List.mem_map.1 hc
  cases n <;> simp only [Tree.scale, reduceCtorEq, Tree.reference.injEq] at e
  rename_i s' i' a'
  obtain ⟨rfl, rfl, rfl⟩ := e
  rw [subNames_scale, List.length_map]
  exact h s' i' a' hn

-- ================================================================ a whole page (`Model/Markdown.lean`)
/-- the recipe number `renderRecipesAux` gives each recipe block: it goes up at every block that starts a new
    independent recipe; the blocks of one recipe share the number -/
def blockIndices : Nat → List (Str × Bool × Block) → List (Nat × Block)
  | _, [] => []
  | i, (_, isNew, trees) :: rest =>
    (if isNew then i + 1 else i, trees) :: blockIndices (if isNew then i + 1 else i) rest

/-- what `renderRecipesAux` substitutes for a placeholder -/
def blockHtml (k : Num) (x : Nat × Block) : Str :=
  tagBody "div" [("class", "rg-recipe-block".toList)]
    (joinNl ((Tree.scaleList k x.2).map (renderRecipeTree (idPrefix x.1))))

/-- `renderRecipesAux` renders block number `j` of the page with the prefix `idPrefix` of its recipe number -/
theorem renderRecipesAux_eq (k : Num) : ∀ (rs : List (Str × Bool × Block)) (i : Nat) (html : Str),
    renderRecipesAux k i rs html =
      ((rs.map (·.1)).zip (blockIndices i rs)).foldl (fun h x => replaceAll x.1 (blockHtml k x.2) h) html
  | [], _, _ => rfl
  | (ph, isNew, trees) :: rest, i, html => by
    simp only [renderRecipesAux, blockIndices, List.map_cons, List.zip_cons_cons, List.foldl_cons]
    rw [renderRecipesAux_eq k rest]
    rfl

theorem blockIndices_ge : ∀ (rs : List (Str × Bool × Block)) (i : Nat), ∀ x ∈ blockIndices i rs, i ≤ x.1
  | [], _, x, h => by simp [blockIndices] at h
  | (ph, isNew, trees) :: rest, i, x, h => by
    simp only [blockIndices, List.mem_cons] at h
    rcases h with rfl | h
    · simp only; split <;> omega
    · have := blockIndices_ge rest _ x h
      split at this <;> omega

/-- the first block of a document always starts a recipe (`follows is None`), so the numbers start at 1 -/
theorem blockIndices_pos (ph : Str) (trees : Block) (rest : List (Str × Bool × Block)) :
    ∀ x ∈ blockIndices 0 ((ph, true, trees) :: rest), 1 ≤ x.1 := by
  intro x h
  simp only [blockIndices, if_true, List.mem_cons] at h
  rcases h with rfl | h
  · simp
  · exact blockIndices_ge rest _ x h

/-- all ids of a page: block by block, each under the prefix of its recipe -/
def pageIds (ibs : List (Nat × Block)) : List Str := ibs.flatMap fun x => idsOf x.2 (idPrefix x.1)
/-- all hrefs of a page -/
def pageHrefs (ibs : List (Nat × Block)) : List Str := ibs.flatMap fun x => hrefsOf x.2 (idPrefix x.1)
/-- the root trees of recipe number `i`: those of all its blocks -/
def recipeTrees (ibs : List (Nat × Block)) (i : Nat) : List Tree := (ibs.filter (·.1 == i)).flatMap (·.2)

/-- the ids of a page, each with the number of its recipe -/
def pageIdsTagged (ibs : List (Nat × Block)) : List (Nat × Str) :=
  ibs.flatMap fun x => (idsOf x.2 (idPrefix x.1)).map fun s => (x.1, s)

theorem pageIdsTagged_snd (ibs : List (Nat × Block)) : (pageIdsTagged ibs).map (·.2) = pageIds ibs := by
  simp [pageIdsTagged, pageIds, List.map_flatMap, List.map_map, Function.comp_def]

theorem idsOf_append (a b : List Tree) (pre : Str) : idsOf (a ++ b) pre = idsOf a pre ++ idsOf b pre := by
  simp [idsOf]

theorem pageIdsTagged_filter (ibs : List (Nat × Block)) (i : Nat) :
    ((pageIdsTagged ibs).filter (·.1 == i)).map (·.2) = idsOf (recipeTrees ibs i) (idPrefix i) := by
  induction ibs with
  | nil => rfl
  | cons x xs ih =>
    simp only [pageIdsTagged, List.flatMap_cons, List.filter_append, List.map_append] at ih ⊢
    rw [ih]
    by_cases h : x.1 = i
    · have e : recipeTrees (x :: xs) i = x.2 ++ recipeTrees xs i := by simp [recipeTrees, h]
      rw [e, idsOf_append]
      congr 1
      rw [List.filter_eq_self.2 (by intro a ha; obtain ⟨s, _, rfl⟩ := List.mem_map.1 ha; simp [h])]
      simp [List.map_map, Function.comp_def, h]
    · have e : recipeTrees (x :: xs) i = recipeTrees xs i := by simp [recipeTrees, h]
      rw [e, List.filter_eq_nil_iff.2 (by intro a ha; obtain ⟨s, _, rfl⟩ := List.mem_map.1 ha; simp [h])]
      simp

theorem mem_pageIdsTagged {ibs : List (Nat × Block)} {a : Nat × Str} (h : a ∈ pageIdsTagged ibs) :
    (∃ b, (a.1, b) ∈ ibs) ∧ ∃ tail, a.2 = idPrefix a.1 ++ tail := by
  simp only [pageIdsTagged, List.mem_flatMap, List.mem_map] at h
  obtain ⟨x, hx, s, hs, rfl⟩ := h
  refine ⟨⟨x.2, hx⟩, ?_⟩
  rw [idsOf_eq] at hs
  obtain ⟨n, _, rfl⟩ := List.mem_map.1 hs
  exact ⟨sanitise n, rfl⟩

-- ================================================================ trees the constructors accept (`Tree.wfB`)
mutual
theorem singleOut_of_wfB : ∀ t : Tree, t.wfB = true → t.canBeChild = true → t.singleOut = true
  | .ingredient .., _, _ => rfl
  | .reference .., _, _ => rfl
  | .step d i, h, _ => by
    simp only [Tree.wfB] at h
    simp only [Tree.singleOut]
    exact singleOutList_of_wfB i h
  | .sub b ns sh, h, hc => by
    simp only [Tree.wfB, Bool.and_eq_true, Bool.not_eq_true', List.isEmpty_eq_false_iff] at h
    simp only [Tree.canBeChild, decide_eq_true_eq] at hc
    simp only [Tree.singleOut, Bool.and_eq_true, beq_iff_eq]
    refine ⟨?_, singleOut_of_wfB b h.2 h.1.1⟩
    have : ns.length ≠ 0 := fun e => h.1.2 (List.eq_nil_of_length_eq_zero e)
    omega
theorem singleOutList_of_wfB : ∀ ts : List Tree, Tree.wfBList ts = true → Tree.singleOutList ts = true
  | [], _ => rfl
  | t :: ts, h => by
    simp only [Tree.wfBList, Bool.and_eq_true] at h
    simp only [Tree.singleOutList, Bool.and_eq_true]
    exact ⟨singleOut_of_wfB t h.1.2 h.1.1, singleOutList_of_wfB ts h.2⟩
end

/-- a tree the constructors accept has sub recipes with several outputs only at the root -/
theorem multiAtRootOnly_of_wfB (t : Tree) (h : t.wfB = true) : t.multiAtRootOnly = true := by
  cases t with
  | ingredient d q => rfl
  | reference s i a => rfl
  | step d i => simp only [Tree.wfB] at h; exact singleOutList_of_wfB i h
  | sub b ns sh =>
    simp only [Tree.wfB, Bool.and_eq_true] at h
    exact singleOut_of_wfB b h.2 h.1.1

mutual
theorem wfB_cellNodes : ∀ t : Tree, t.wfB = true → ∀ n ∈ cellNodes t, n.wfB = true
  | .ingredient .., h, n, hn => by simp only [cellNodes, List.mem_singleton] at hn; subst hn; exact h
  | .reference .., h, n, hn => by simp only [cellNodes, List.mem_singleton] at hn; subst hn; exact h
  | .step d i, h, n, hn => by
    simp only [cellNodes, List.mem_append, List.mem_singleton] at hn
    rcases hn with hn | rfl
    · simp only [Tree.wfB] at h; exact wfB_cellNodesList i h n hn
    · exact h
  | .sub b ns sh, h, n, hn => by
    have hb : b.wfB = true := by simp only [Tree.wfB, Bool.and_eq_true] at h; exact h.2
    simp only [cellNodes] at hn
    split at hn
    · simp only [List.mem_append] at hn
      rcases hn with hn | hn
      · split at hn
        · simp only [List.mem_singleton] at hn; subst hn; exact h
        · simp at hn
      · exact wfB_cellNodes b hb n hn
    · simp only [List.mem_append, List.mem_singleton] at hn
      rcases hn with hn | rfl
      · exact wfB_cellNodes b hb n hn
      · exact h
theorem wfB_cellNodesList : ∀ ts : List Tree, Tree.wfBList ts = true → ∀ n ∈ cellNodesList ts, n.wfB = true
  | [], _, n, hn => by simp [cellNodesList] at hn
  | t :: ts, h, n, hn => by
    simp only [Tree.wfBList, Bool.and_eq_true] at h
    simp only [cellNodesList, List.mem_append] at hn
    rcases hn with hn | hn
    · exact wfB_cellNodes t h.1.2 n hn
    · exact wfB_cellNodesList ts h.2 n hn
end

theorem numOutputs_eq_subNames (t : Tree) : t.numOutputs = (subNames t).length := by
  cases t <;> rfl

/-- in a tree the constructors accept every reference cell selects an existing output -/
theorem refsInRange_of_wfB (t : Tree) (h : t.wfB = true) : RefsInRange t := by
  intro s i a hc
  have := wfB_cellNodes t h _ hc
  simp only [Tree.wfB, Bool.and_eq_true, decide_eq_true_eq] at this
  rw [← numOutputs_eq_subNames]
  exact this.1

-- ================================================================ ids in the order of the page
/-- reordering does not change a concatenation whose non-empty pieces are all the same -/
theorem perm_flatMap_eq {α β} {l₁ l₂ : List α} (h : l₁.Perm l₂) (f : α → List β) (A : List β)
    (hA : ∀ x ∈ l₁, f x = [] ∨ f x = A) : l₁.flatMap f = l₂.flatMap f := by
  induction h with
  | nil => rfl
  | cons x _ ih =>
    simp only [List.flatMap_cons]
    rw [ih fun y hy => hA y (List.mem_cons_of_mem _ hy)]
  | swap x y l =>
    simp only [List.flatMap_cons]
    rcases hA x (by simp) with hx | hx <;> rcases hA y (by simp) with hy | hy <;> simp [hx, hy]
  | trans h₁ _ ih₁ ih₂ =>
    rw [ih₁ hA, ih₂ fun x hx => hA x (h₁.mem_iff.2 hx)]

theorem cellIds_nil_of_singleOut (pre : Str) (t : Tree) (h : t.singleOut = true) : ∀ n ∈ cellNodes t, cellIds pre n = [] := by
  intro n hn
  have := cellIdNames_singleOut t h
  rw [List.flatMap_eq_nil_iff] at this
  rw [cellIds_eq, this n hn]; rfl

/-- under Python's invariant (and for a well-formed tree) `idsOfTree` is the list of ids in the order of the page -/
theorem writtenIds_eq (pre : Str) (t : Tree) (hw : C02.wf t = true) (hm : t.multiAtRootOnly = true) :
    writtenIds pre t = idsOfTree pre t := by
  simp only [writtenIds, idsOfTree]
  congr 1
  apply perm_flatMap_eq (writtenNodes_perm t hw) (cellIds pre) (cellIds pre t)
  intro n hn
  have hn' := (writtenNodes_perm t hw).mem_iff.1 hn
  cases t with
  | ingredient d q => exact Or.inl (cellIds_nil_of_singleOut pre _ hm n hn')
  | reference s i a => exact Or.inl (cellIds_nil_of_singleOut pre _ hm n hn')
  | step d i => exact Or.inl (cellIds_nil_of_singleOut pre _ hm n hn')
  | sub b ns sh =>
    have hb := cellIds_nil_of_singleOut pre b hm
    simp only [cellNodes] at hn'
    split at hn'
    · simp only [List.mem_append] at hn'
      rcases hn' with hn' | hn'
      · split at hn'
        · simp only [List.mem_singleton] at hn'; exact Or.inr (by rw [hn'])
        · simp at hn'
      · exact Or.inl (hb n hn')
    · simp only [List.mem_append, List.mem_singleton] at hn'
      rcases hn' with hn' | hn'
      · exact Or.inl (hb n hn')
      · exact Or.inr (by rw [hn'])

end RG
