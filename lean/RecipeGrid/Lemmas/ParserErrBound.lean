import RecipeGrid.Lemmas.ParserErr
import RecipeGrid.Lemmas.FoldSpec
/-! Invariants of the furthest failure recorded by `Model/ParserErr.lean` (`Good`), rule by rule: started inside the
    text, a rule ends inside the text and not before its start; every failure it records lies between its start and the
    end of the text; and a rule that fails has recorded a failure.  Hence the reported offset of a syntax error lies
    in the text (`syntaxError_offset_le`) and not before the place the parser had reached (`recipe_far`). -/
namespace RG
namespace ParserE
open Parser (P PState Mono Adv)
open Parser.PosBound (Bd T)

theorem fmax_some {a b : Far} {f : Nat} (h : fmax a b = some f) : a = some f ∨ b = some f := by
  cases a with
  | none => right; simpa using h
  | some x =>
    cases b with
    | none => left; simpa using h
    | some y =>
      simp only [fmax, Option.some.injEq] at h
      by_cases hxy : x ≤ y
      · right; rw [← h, Nat.max_eq_right hxy]
      · left; rw [← h, Nat.max_eq_left (by omega)]

theorem fmax_ne_none_left {a : Far} (b : Far) (h : a ≠ none) : fmax a b ≠ none := by
  cases a with
  | none => exact absurd rfl h
  | some x => cases b <;> simp [fmax]

theorem fmax_ne_none_right (a : Far) {b : Far} (h : b ≠ none) : fmax a b ≠ none := by
  cases b with
  | none => exact absurd rfl h
  | some x => cases a <;> simp [fmax]

theorem le_fmax_left {a b : Far} {x : Nat} (h : a = some x) : ∃ f, fmax a b = some f ∧ x ≤ f := by
  subst h
  cases b with
  | none => exact ⟨x, rfl, Nat.le_refl _⟩
  | some y => exact ⟨max x y, rfl, Nat.le_max_left _ _⟩

theorem le_fmax_right {a b : Far} {y : Nat} (h : b = some y) : ∃ f, fmax a b = some f ∧ y ≤ f := by
  subst h
  cases a with
  | none => exact ⟨y, rfl, Nat.le_refl _⟩
  | some x => exact ⟨max x y, rfl, Nat.le_max_right _ _⟩

/-- started inside the text, `pe` ends inside the text and not before its start; every failure it records lies
    between its start and the end of the text; when it fails it has recorded a failure -/
def Good {α} (pe : PE α) : Prop := ∀ (t : Array Char) (s : PState), s.pos ≤ t.size →
  (∀ a s', (pe t s).1 = some (a, s') → s.pos ≤ s'.pos ∧ s'.pos ≤ t.size) ∧
  (∀ f, (pe t s).2 = some f → s.pos ≤ f ∧ f ≤ t.size) ∧
  ((pe t s).1 = none → (pe t s).2 ≠ none)

/-- a failure of a good rule is recorded at or after its start, inside the text -/
theorem Good.fail_far {α} {pe : PE α} (h : Good pe) {t : Array Char} {s : PState} (hs : s.pos ≤ t.size)
    (hf : (pe t s).1 = none) : ∃ f, (pe t s).2 = some f ∧ s.pos ≤ f ∧ f ≤ t.size := by
  obtain ⟨_, h2, h3⟩ := h t s hs
  cases hfar : (pe t s).2 with
  | none => exact absurd hfar (h3 hf)
  | some f => exact ⟨f, rfl, h2 f hfar⟩

theorem Good.pure {α} (a : α) : Good (pure a : PE α) := by
  intro t s hs
  refine ⟨?_, ?_, ?_⟩
  · intro a' s' e; cases e; exact ⟨Nat.le_refl _, hs⟩
  · intro f e; cases e
  · intro e; cases e

/-- a scanner of `Model/Parser.lean` that stays inside the text and never moves backwards, run as a terminal -/
theorem Good.term {α} {p : P α} (hm : Mono p) (hb : ∀ t, Bd t p T) : Good (term p) := by
  intro t s hs
  rw [term_apply]
  cases hp : p t s with
  | none =>
    refine ⟨?_, ?_, ?_⟩
    · intro a s' e; cases e
    · intro f e; cases e; exact ⟨Nat.le_refl _, hs⟩
    · intro _ e; cases e
  | some r =>
    obtain ⟨a, s1⟩ := r
    refine ⟨?_, ?_, ?_⟩
    · intro a' s' e; cases e; exact ⟨hm t s a s1 hp, (hb t s a s1 hs hp).1⟩
    · intro f e; cases e
    · intro e; cases e

theorem Good.fail {α} : Good (fail : PE α) :=
  Good.term Parser.adv_fail.mono fun _ => Bd.fail

theorem Good.bind {α β} {m : PE α} {f : α → PE β} (hm : Good m) (hf : ∀ a, Good (f a)) : Good (m >>= f) := by
  intro t s hs
  obtain ⟨h1, h2, h3⟩ := hm t s hs
  rw [bind_apply]
  cases hr : (m t s).1 with
  | none =>
    refine ⟨?_, h2, fun _ => h3 hr⟩
    intro a s' e; cases e
  | some r =>
    obtain ⟨a, s1⟩ := r
    obtain ⟨hle, hsz⟩ := h1 a s1 hr
    obtain ⟨g1, g2, g3⟩ := hf a t s1 hsz
    refine ⟨?_, ?_, ?_⟩
    · intro b s' e
      obtain ⟨k1, k2⟩ := g1 b s' e
      exact ⟨Nat.le_trans hle k1, k2⟩
    · intro x e
      rcases fmax_some e with e | e
      · exact h2 x e
      · obtain ⟨k1, k2⟩ := g2 x e
        exact ⟨Nat.le_trans hle k1, k2⟩
    · intro e
      exact fmax_ne_none_right _ (g3 e)

theorem Good.orElse {α} {p q : PE α} (hp : Good p) (hq : Good q) : Good (p <|> q) := by
  intro t s hs
  obtain ⟨h1, h2, h3⟩ := hp t s hs
  obtain ⟨g1, g2, g3⟩ := hq t s hs
  rw [orElse_apply]
  cases hr : (p t s).1 with
  | some r =>
    refine ⟨?_, h2, ?_⟩
    · intro a s' e; cases e; exact h1 _ _ hr
    · intro e; cases e
  | none =>
    refine ⟨g1, ?_, fun e => fmax_ne_none_right _ (g3 e)⟩
    intro x e
    rcases fmax_some e with e | e
    · exact h2 x e
    · exact g2 x e

theorem Good.map {α β} (f : α → β) {p : PE α} (hp : Good p) : Good (f <$> p) :=
  Good.bind hp fun _ => Good.pure _

theorem Good.opt {α} {p : PE α} (hp : Good p) : Good (opt p) :=
  Good.orElse (Good.map _ hp) (Good.pure _)

theorem Good.getPos : Good getPos := by
  intro t s hs
  refine ⟨?_, ?_, ?_⟩
  · intro a s' e; cases e; exact ⟨Nat.le_refl _, hs⟩
  · intro f e; cases e
  · intro e; cases e

theorem Good.remaining : Good remaining := by
  intro t s hs
  refine ⟨?_, ?_, ?_⟩
  · intro a s' e; cases e; exact ⟨Nat.le_refl _, hs⟩
  · intro f e; cases e
  · intro e; cases e

theorem Good.manyF {α} {p : PE α} (hp : Good p) : ∀ fuel, Good (manyF p fuel)
  | 0 => Good.pure _
  | fuel + 1 => by
    unfold ParserE.manyF
    exact Good.orElse (Good.bind hp fun _ => Good.bind (Good.manyF hp fuel) fun _ => Good.pure _) (Good.pure _)

theorem Good.many {α} {p : PE α} (hp : Good p) : Good (many p) :=
  Good.bind Good.remaining fun fuel => Good.manyF hp fuel

theorem Good.withText {α} {p : PE α} (hp : Good p) : Good (withText p) := by
  intro t s hs
  obtain ⟨h1, h2, h3⟩ := hp t s hs
  unfold ParserE.withText
  cases hr : (p t s).1 with
  | none =>
    refine ⟨?_, h2, fun _ => h3 hr⟩
    intro a s' e; cases e
  | some r =>
    obtain ⟨a, s1⟩ := r
    refine ⟨?_, h2, ?_⟩
    · intro a' s' e; cases e; exact h1 a s1 hr
    · intro e; cases e

theorem Good.textOf {p : PE Unit} (hp : Good p) : Good (textOf p) :=
  Good.bind (Good.withText hp) fun _ => Good.pure _

theorem Good.skipManyOpt (p : Char → Bool) : Good (skipManyOpt p) := by
  intro t s hs
  unfold ParserE.skipManyOpt
  refine ⟨?_, ?_, ?_⟩
  · intro a s' e
    cases e
    exact ⟨Parser.spanEnd_go_ge p t _ _, Parser.PosBound.spanEnd_go_le p _ _ hs⟩
  · intro f e
    simp only at e
    split at e
    · cases e; exact ⟨Nat.le_refl _, hs⟩
    · cases e
  · intro e; cases e

/-- `r"[ \t]*"` in `eol`: always matches -/
theorem Good.liftOhsp : Good (lift Parser.ohsp) := by
  intro t s hs
  refine ⟨?_, ?_, ?_⟩
  · intro a s' e
    cases e
    exact ⟨Parser.spanEnd_go_ge _ t _ _, Parser.PosBound.spanEnd_go_le _ _ _ hs⟩
  · intro f e; cases e
  · intro e; cases e

/-! ## the terminals -/

theorem mono_eof : Mono Parser.eof := by
  intro t s a s' e
  unfold Parser.eof at e
  split at e
  · cases e; exact Nat.le_refl _
  · cases e

theorem mono_wordBoundary : Mono Parser.wordBoundary := by
  intro t s a s' e
  unfold Parser.wordBoundary at e
  split at e
  · cases e; exact Nat.le_refl _
  · cases e

theorem mono_ciWord : ∀ w : Str, Mono (Parser.ciWord w)
  | [] => Parser.mono_pure _
  | _ :: ls => Parser.mono_bind (Parser.adv_sat _).mono fun _ => mono_ciWord ls

theorem mono_hsp : Mono Parser.hsp := (Parser.adv_skipMany1 _).mono
theorem mono_sp : Mono Parser.sp := (Parser.adv_skipMany1 _).mono

theorem mono_preposition : Mono Parser.preposition := by
  unfold Parser.preposition
  refine Parser.mono_bind (mono_ciWord _) fun _ => ?_
  exact Parser.mono_orElse (Parser.mono_bind mono_hsp fun _ => Parser.mono_bind (mono_ciWord _) fun _ => mono_wordBoundary)
    mono_wordBoundary

theorem mono_remainder : Mono Parser.remainder := by
  unfold Parser.remainder
  refine Parser.mono_orElse ?_ (Parser.mono_orElse ?_ (Parser.mono_orElse ?_ ?_))
  · exact Parser.mono_bind (mono_ciWord _) fun _ => mono_wordBoundary
  · exact Parser.mono_bind (mono_ciWord _) fun _ => mono_wordBoundary
  · exact Parser.mono_bind (mono_ciWord _) fun _ => mono_wordBoundary
  · exact Parser.mono_bind (mono_ciWord _) fun _ => Parser.mono_bind (Parser.mono_skipMany _) fun _ =>
      Parser.mono_bind (mono_ciWord _) fun _ => mono_wordBoundary

theorem mono_unitPattern : ∀ ws : List Str, Mono (Parser.unitPattern ws)
  | [] => mono_wordBoundary
  | [w] => by
    unfold Parser.unitPattern
    exact Parser.mono_bind (mono_ciWord _) fun _ => mono_wordBoundary
  | w :: w2 :: ws => by
    unfold Parser.unitPattern
    exact Parser.mono_bind (mono_ciWord _) fun _ => Parser.mono_bind mono_sp fun _ => mono_unitPattern (w2 :: ws)

theorem mono_firstOf : ∀ ps : List (P Unit), (∀ p ∈ ps, Mono p) → Mono (Parser.firstOf ps)
  | [], _ => Parser.adv_fail.mono
  | p :: ps, h => by
    unfold Parser.firstOf
    exact Parser.mono_orElse (h p (List.mem_cons_self ..)) (mono_firstOf ps fun q hq => h q (List.mem_cons_of_mem _ hq))

theorem mono_knownUnit : Mono Parser.knownUnit := by
  unfold Parser.knownUnit
  refine mono_firstOf _ fun p hp => ?_
  obtain ⟨ws, _, rfl⟩ := List.mem_map.mp hp
  exact mono_unitPattern ws

theorem mono_assign : Mono Parser.assign := by
  unfold Parser.assign
  exact Parser.mono_orElse
    (Parser.mono_bind (Parser.adv_lit _).mono fun _ => Parser.mono_bind (Parser.adv_lit _).mono fun _ => Parser.mono_pure _)
    (Parser.mono_bind (Parser.adv_lit _).mono fun _ => Parser.mono_pure _)

theorem mono_eolBreak : Mono eolBreak := by
  unfold eolBreak
  exact Parser.mono_bind (Parser.mono_skipMany _) fun _ => Parser.mono_bind (Parser.adv_sat _).mono fun _ =>
    Parser.mono_skipMany _

theorem eolBreak_bd {t : Array Char} : Bd t eolBreak T :=
  Bd.bind Parser.PosBound.ohsp_bd fun _ _ => Bd.bind (Parser.PosBound.sat_bd _) fun _ _ => Parser.PosBound.osp_bd

theorem mono_denominator : Mono denominator := by
  unfold denominator
  refine Parser.mono_bind Parser.adv_digits.mono fun ds => ?_
  split
  · exact Parser.adv_fail.mono
  · exact Parser.mono_pure _

theorem denominator_bd {t : Array Char} : Bd t denominator T := by
  unfold denominator
  refine Bd.bind Parser.PosBound.digits_bd fun ds _ => ?_
  split
  · exact Bd.fail
  · exact Bd.pure trivial

theorem Good.lit (c : Char) : Good (lit c) := Good.term (Parser.adv_lit c).mono fun _ => Parser.PosBound.lit_bd c
theorem Good.hsp : Good hsp := Good.term mono_hsp fun _ => Parser.PosBound.hsp_bd
theorem Good.ohsp : Good ohsp := Good.skipManyOpt _
theorem Good.osp : Good osp := Good.skipManyOpt _
theorem Good.eof : Good eof := Good.term mono_eof fun _ => Parser.PosBound.eof_bd
theorem Good.digits : Good digits := Good.term Parser.adv_digits.mono fun _ => Parser.PosBound.digits_bd
theorem Good.decimal : Good decimal := Good.term Parser.adv_decimal.mono fun _ => Parser.PosBound.decimal_bd.mono fun _ _ => trivial
theorem Good.nakedString : Good nakedString :=
  Good.term Parser.adv_nakedString.mono fun _ => Parser.PosBound.nakedString_bd.mono fun _ _ => trivial
theorem Good.sat (p : Char → Bool) : Good (ParserE.term (Parser.sat p)) :=
  Good.term (Parser.adv_sat p).mono fun _ => Parser.PosBound.sat_bd p
theorem Good.preposition : Good preposition := Good.term mono_preposition fun _ => Parser.PosBound.preposition_bd
theorem Good.remainder : Good remainder := Good.term mono_remainder fun _ => Parser.PosBound.remainder_bd
theorem Good.knownUnit : Good knownUnit := Good.term mono_knownUnit fun _ => Parser.PosBound.knownUnit_bd
theorem Good.assign : Good assign := Good.term mono_assign fun _ => Parser.PosBound.assign_bd

/-! ## the rules -/

theorem Good.fraction : Good fraction := by
  unfold ParserE.fraction
  refine Good.bind Good.getPos fun start => ?_
  refine Good.bind (Good.opt (Good.bind Good.digits fun ds => Good.bind Good.hsp fun _ => Good.pure _)) fun integer => ?_
  refine Good.bind Good.getPos fun numerStart => ?_
  refine Good.bind Good.digits fun numer => ?_
  refine Good.bind Good.ohsp fun _ => ?_
  refine Good.bind (Good.lit _) fun _ => ?_
  refine Good.bind Good.ohsp fun _ => ?_
  exact Good.bind (Good.term mono_denominator fun _ => denominator_bd) fun _ => Good.pure _

theorem Good.number : Good number := Good.orElse Good.fraction Good.decimal

theorem Good.escaped : Good escaped :=
  Good.bind (Good.lit _) fun _ => Good.bind (Good.sat _) fun _ => Good.pure _

theorem Good.quotedString (q : Char) : Good (quotedString q) := by
  unfold ParserE.quotedString
  refine Good.bind Good.getPos fun off => ?_
  refine Good.bind (Good.lit _) fun _ => ?_
  refine Good.bind (Good.many (Good.orElse Good.escaped (Good.sat _))) fun body => ?_
  exact Good.bind (Good.lit _) fun _ => Good.pure _

theorem Good.bracketedItem : Good bracketedItem := by
  unfold ParserE.bracketedItem
  refine Good.orElse ?_ (Good.orElse ?_ ?_)
  · refine Good.bind Good.number fun x => ?_
    obtain ⟨off, n⟩ := x
    exact Good.pure _
  · exact Good.bind Good.getPos fun off => Good.bind Good.escaped fun c => Good.pure _
  · exact Good.bind Good.getPos fun off => Good.bind (Good.sat _) fun c => Good.pure _

theorem Good.bracketedString : Good bracketedString := by
  unfold ParserE.bracketedString
  refine Good.bind Good.getPos fun off => ?_
  refine Good.bind (Good.lit _) fun _ => ?_
  refine Good.bind (Good.many Good.bracketedItem) fun body => ?_
  exact Good.bind (Good.lit _) fun _ => Good.pure _

theorem Good.stringF (static : Bool) : ∀ fuel, Good (stringF static fuel)
  | 0 => Good.fail
  | fuel + 1 => by
    unfold ParserE.stringF
    refine Good.bind ?_ fun first => ?_
    · refine Good.orElse Good.nakedString (Good.orElse (Good.quotedString _) (Good.orElse (Good.quotedString _) ?_))
      cases static
      · exact Good.bracketedString
      · exact Good.fail
    refine Good.bind (Good.opt ?_) fun rest => Good.pure _
    refine Good.bind Good.getPos fun off => ?_
    refine Good.bind (Good.textOf Good.ohsp) fun space => ?_
    exact Good.bind (Good.stringF static fuel) fun more => Good.pure _

theorem Good.string (static : Bool) : Good (string static) :=
  Good.bind Good.remaining fun _ => Good.stringF static _

theorem Good.hspPreposition : Good hspPreposition :=
  Good.orElse (Good.textOf (Good.bind Good.hsp fun _ => Good.preposition)) (Good.pure _)

theorem Good.proportion : Good proportion := by
  unfold ParserE.proportion
  refine Good.orElse ?_ ?_
  · refine Good.bind Good.getPos fun off => ?_
    refine Good.bind (Good.textOf Good.remainder) fun wording => ?_
    exact Good.bind Good.hspPreposition fun prep => Good.pure _
  · refine Good.bind Good.number fun x => ?_
    obtain ⟨off, v⟩ := x
    refine Good.orElse ?_ (Good.orElse ?_ ?_)
    · exact Good.bind (Good.textOf (Good.bind Good.hsp fun _ => Good.preposition)) fun prep => Good.pure _
    · exact Good.bind (Good.textOf (Good.bind Good.ohsp fun _ => Good.bind (Good.lit _) fun _ =>
        Good.bind Good.hspPreposition fun _ => Good.pure _)) fun prep => Good.pure _
    · exact Good.bind (Good.textOf (Good.bind Good.ohsp fun _ => Good.lit _)) fun prep => Good.pure _

theorem Good.explicitQuantity : Good explicitQuantity := by
  unfold ParserE.explicitQuantity
  refine Good.bind Good.getPos fun off => ?_
  refine Good.bind (Good.lit _) fun _ => ?_
  refine Good.bind Good.ohsp fun _ => ?_
  refine Good.bind Good.number fun x => ?_
  obtain ⟨o, v⟩ := x
  refine Good.bind (Good.opt (Good.bind (Good.textOf Good.ohsp) fun spacing =>
    Good.bind (Good.string true) fun u => Good.pure _)) fun unit => ?_
  refine Good.bind Good.ohsp fun _ => ?_
  refine Good.bind (Good.lit _) fun _ => ?_
  exact Good.bind Good.hspPreposition fun prep => Good.pure _

theorem Good.implicitQuantity : Good implicitQuantity := by
  unfold ParserE.implicitQuantity
  refine Good.bind Good.number fun x => ?_
  obtain ⟨off, v⟩ := x
  refine Good.bind (Good.opt ?_) fun unit => ?_
  · refine Good.bind (Good.textOf Good.ohsp) fun spacing => ?_
    refine Good.bind Good.getPos fun unitOff => ?_
    refine Good.bind (Good.textOf Good.knownUnit) fun name => ?_
    exact Good.bind Good.hspPreposition fun prep => Good.pure _
  · cases unit with
    | none => exact Good.pure _
    | some u => obtain ⟨spacing, u, prep⟩ := u; exact Good.pure _

theorem Good.reference : Good reference := by
  unfold ParserE.reference
  refine Good.bind (Good.opt ?_) fun amount => ?_
  · refine Good.bind (Good.orElse Good.proportion (Good.orElse Good.explicitQuantity Good.implicitQuantity)) fun a => ?_
    exact Good.bind Good.ohsp fun _ => Good.pure _
  · exact Good.bind (Good.string false) fun name => Good.pure _

theorem Good.step {e : PE AExpr} (he : Good e) : Good (step e) := by
  unfold ParserE.step
  refine Good.bind (Good.string false) fun name => ?_
  refine Good.bind Good.ohsp fun _ => ?_
  refine Good.bind (Good.lit _) fun _ => ?_
  refine Good.bind Good.osp fun _ => ?_
  refine Good.bind he fun first => ?_
  refine Good.bind (Good.many (Good.bind Good.osp fun _ => Good.bind (Good.lit _) fun _ => Good.bind Good.osp fun _ => he))
    fun rest => ?_
  refine Good.bind (Good.opt (Good.bind Good.osp fun _ => Good.lit _)) fun _ => ?_
  refine Good.bind Good.osp fun _ => ?_
  exact Good.bind (Good.lit _) fun _ => Good.pure _

theorem Good.ltrShorthand {e : PE AExpr} (he : Good e) : Good (ltrShorthand e) := by
  unfold ParserE.ltrShorthand
  refine Good.bind he fun first => ?_
  refine Good.bind (Good.many (Good.bind Good.ohsp fun _ => Good.bind (Good.lit _) fun _ => Good.bind Good.ohsp fun _ =>
    Good.string false)) fun actions => ?_
  exact Good.pure _

theorem Good.expr : ∀ fuel, Good (expr fuel)
  | 0 => Good.fail
  | fuel + 1 => by
    unfold ParserE.expr
    refine Good.orElse (Good.step (Good.expr fuel)) (Good.orElse Good.reference ?_)
    refine Good.bind (Good.lit _) fun _ => ?_
    refine Good.bind Good.osp fun _ => ?_
    refine Good.bind (Good.ltrShorthand (Good.expr fuel)) fun e => ?_
    exact Good.bind Good.osp fun _ => Good.bind (Good.lit _) fun _ => Good.pure _

theorem Good.eol : Good eol :=
  Good.orElse (Good.term mono_eolBreak fun _ => eolBreak_bd) (Good.bind Good.liftOhsp fun _ => Good.eof)

theorem Good.outputList : Good outputList := by
  unfold ParserE.outputList
  refine Good.bind (Good.string false) fun first => ?_
  refine Good.bind (Good.many (Good.bind Good.ohsp fun _ => Good.bind (Good.lit _) fun _ => Good.bind Good.ohsp fun _ =>
    Good.string false)) fun rest => ?_
  exact Good.pure _

theorem Good.stmt : Good stmt := by
  unfold ParserE.stmt
  refine Good.bind (Good.opt ?_) fun target => ?_
  · refine Good.bind Good.outputList fun outputs => ?_
    refine Good.bind Good.ohsp fun _ => ?_
    refine Good.bind Good.assign fun named => ?_
    exact Good.bind Good.ohsp fun _ => Good.pure _
  refine Good.bind Good.remaining fun fuel => ?_
  refine Good.bind (Good.ltrShorthand (Good.expr _)) fun e => ?_
  exact Good.bind Good.eol fun _ => Good.pure _

theorem Good.recipe : Good recipe := by
  unfold ParserE.recipe
  refine Good.bind Good.osp fun _ => ?_
  refine Good.bind Good.stmt fun first => ?_
  refine Good.bind (Good.many Good.stmt) fun rest => ?_
  exact Good.bind Good.eof fun _ => Good.pure _

/-! ## the error is not before the statements that were accepted -/

/-- the failures of the second part of a sequence are not forgotten -/
theorem bind_far_ge {α β} (m : PE α) (f : α → PE β) {t : Array Char} {s s1 : PState} {a : α} {y : Nat}
    (hm : (m t s).1 = some (a, s1)) (hy : (f a t s1).2 = some y) : ∃ x, ((m >>= f) t s).2 = some x ∧ y ≤ x := by
  rw [bind_apply, hm]
  exact le_fmax_right hy

theorem bind_fst {α β} (m : PE α) (f : α → PE β) {t : Array Char} {s s1 : PState} {a : α}
    (hm : (m t s).1 = some (a, s1)) : ((m >>= f) t s).1 = (f a t s1).1 := by
  rw [bind_apply, hm]

/-- `sp? stmt+`, the statements at the start of the text: `recipe` without its final `eof` -/
def stmtsPlus : P (List AStmt) := do
  Parser.osp
  let first ← Parser.stmt
  let rest ← Parser.many Parser.stmt
  pure (first :: rest)

/-- where `sp? stmt+` has accepted statements up to `s'` but the text is rejected (by the `eof` that follows), the
    furthest failure is at or after `s'` -/
theorem recipe_far_ge_stmts {t : Array Char} {stmts : List AStmt} {s' : PState}
    (hp : stmtsPlus t ⟨0, false⟩ = some (stmts, s')) (hfail : (recipe t ⟨0, false⟩).1 = none) :
    ∃ f, (recipe t ⟨0, false⟩).2 = some f ∧ s'.pos ≤ f := by
  unfold stmtsPlus at hp
  obtain ⟨u, s1, h1, hp⟩ := Parser.bind_some hp
  obtain ⟨first, s2, h2, hp⟩ := Parser.bind_some hp
  obtain ⟨rest, s3, h3, hp⟩ := Parser.bind_some hp
  obtain ⟨rfl, rfl⟩ : first :: rest = stmts ∧ s3 = s' := by cases hp; exact ⟨rfl, rfl⟩
  rw [← Sim.osp] at h1
  rw [← Sim.stmt] at h2
  rw [← Sim.many Sim.stmt] at h3
  unfold ParserE.recipe at hfail ⊢
  rw [bind_fst _ _ h1, bind_fst _ _ h2, bind_fst _ _ h3] at hfail
  -- the final `eof` has failed at `s3`
  have he : (eof t s3).1 = none := by
    rw [bind_apply] at hfail
    cases h : (eof t s3).1 with
    | none => rfl
    | some r => rw [h] at hfail; cases hfail
  have hfar : (eof t s3).2 = some s3.pos := by
    unfold ParserE.eof at he ⊢
    rw [term_apply] at he ⊢
    cases h : Parser.eof t s3 with
    | none => rfl
    | some r => rw [h] at he; cases he
  have h4 : ((eof >>= fun _ => (Pure.pure (first :: rest) : PE (List AStmt))) t s3).2 = some s3.pos := by
    rw [bind_apply, he]; exact hfar
  obtain ⟨x3, e3, l3⟩ := bind_far_ge (many stmt)
    (fun rest => eof >>= fun _ => (Pure.pure (first :: rest) : PE (List AStmt))) h3 h4
  obtain ⟨x2, e2, l2⟩ := bind_far_ge stmt
    (fun first => many stmt >>= fun rest => eof >>= fun _ => (Pure.pure (first :: rest) : PE (List AStmt))) h2 e3
  obtain ⟨x1, e1, l1⟩ := bind_far_ge osp
    (fun _ => stmt >>= fun first => many stmt >>= fun rest => eof >>= fun _ =>
      (Pure.pure (first :: rest) : PE (List AStmt))) h1 e2
  exact ⟨x1, e1, by omega⟩

/-- where not even one statement is accepted, the furthest failure is at or after the start of the first statement
    (the end of the leading white space) -/
theorem recipe_far_ge_start {t : Array Char} (hfail : (recipe t ⟨0, false⟩).1 = none) :
    ∃ f, (recipe t ⟨0, false⟩).2 = some f ∧ f ≤ t.size ∧
      (stmtsPlus t ⟨0, false⟩ = none → Parser.spanEnd isReSpace t 0 ≤ f) := by
  obtain ⟨f, hf, _, hle⟩ := Good.recipe.fail_far (t := t) (s := ⟨0, false⟩) (Nat.zero_le _) hfail
  refine ⟨f, hf, hle, ?_⟩
  intro hnone
  have h1 : (osp t ⟨0, false⟩).1 = some ((), ⟨Parser.spanEnd isReSpace t 0, false⟩) := rfl
  have hs1 : (⟨Parser.spanEnd isReSpace t 0, false⟩ : PState).pos ≤ t.size :=
    Parser.PosBound.spanEnd_go_le _ _ _ (Nat.zero_le _)
  -- the first statement fails
  have h2 : Parser.stmt t ⟨Parser.spanEnd isReSpace t 0, false⟩ = none := by
    unfold stmtsPlus at hnone
    rw [Parser.bind_apply] at hnone
    have : Parser.osp t ⟨0, false⟩ = some ((), ⟨Parser.spanEnd isReSpace t 0, false⟩) := rfl
    rw [this] at hnone
    simp only [Parser.bind_apply] at hnone
    cases h : Parser.stmt t ⟨Parser.spanEnd isReSpace t 0, false⟩ with
    | none => rfl
    | some r =>
      rw [h] at hnone
      obtain ⟨a, s2⟩ := r
      simp only at hnone
      have hm : ∃ x, Parser.many Parser.stmt t s2 = some x := by
        unfold Parser.many
        rw [Parser.bind_apply, Parser.remaining_apply]
        simp only
        cases hh : t.size - s2.pos with
        | zero => exact ⟨_, rfl⟩
        | succ n =>
          unfold Parser.manyF
          rw [Parser.orElse_apply]
          cases (do let a ← Parser.stmt; let rest ← Parser.manyF Parser.stmt n; pure (a :: rest) : P (List AStmt)) t s2 with
          | none => exact ⟨_, rfl⟩
          | some r => exact ⟨_, rfl⟩
      obtain ⟨x, hx⟩ := hm
      rw [hx] at hnone
      cases hnone
  rw [← Sim.stmt] at h2
  obtain ⟨y, hy, hge, _⟩ := Good.stmt.fail_far hs1 h2
  have h3 : ((stmt >>= fun first => many stmt >>= fun rest => eof >>= fun _ =>
      (Pure.pure (first :: rest) : PE (List AStmt))) t ⟨Parser.spanEnd isReSpace t 0, false⟩).2 = some y := by
    rw [bind_apply, h2]; exact hy
  obtain ⟨x, hx, hl⟩ := bind_far_ge osp (fun _ => stmt >>= fun first => many stmt >>= fun rest => eof >>= fun _ =>
      (Pure.pure (first :: rest) : PE (List AStmt))) h1 h3
  have : recipe = (osp >>= fun _ => stmt >>= fun first => many stmt >>= fun rest => eof >>= fun _ =>
      (Pure.pure (first :: rest) : PE (List AStmt))) := rfl
  rw [this] at hf
  rw [hf] at hx
  cases hx
  simp only at hge
  omega

end ParserE

/-- the offset of a syntax error lies in the text, or is its end -/
theorem syntaxError_offset_le (src : Str) (off : Nat) (h : parseE src = .syntaxError off) : off ≤ src.length := by
  unfold parseE at h
  have hg := ParserE.Good.recipe src.toArray ⟨0, false⟩ (Nat.zero_le _)
  cases hr : ParserE.recipe src.toArray ⟨0, false⟩ with
  | mk r far =>
    rw [hr] at h hg
    cases r with
    | some x => cases h
    | none =>
      simp only [ParseResultE.syntaxError.injEq] at h
      cases far with
      | none => exact absurd rfl (hg.2.2 rfl)
      | some f =>
        have := (hg.2.1 f rfl).2
        simp only [Option.getD_some] at h
        simpa [← h] using this

end RG
