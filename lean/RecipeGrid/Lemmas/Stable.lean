import RecipeGrid.Lemmas.Scale
import RecipeGrid.Lemmas.FloatErr
/-! When does `Quantity.has_equal_value_to` (binary64, `math.isclose` with relative tolerance `1e-9`) answer what the
    exact rational comparison answers?  Whenever the exact relative difference is not within `2⁻²¹·10⁻⁹` of `10⁻⁹`.
    The definitions `tolQ`, `edgeEps`, `relDiff`, `Quantity.hevFactor` are specification-level (used by `Props/C03d.lean`);
    the rest are the error-analysis lemmas. -/
namespace RG

-- ================================================================ the constants
/-- the relative tolerance as written in `units.py`: `10⁻⁹` (the program uses the double nearest to it) -/
def tolQ : Rat := 1 / 1000000000

/-- the guard band around the tolerance, relative to it: `2⁻²¹` (≈ 4.8·10⁻⁷).  What the analysis needs is a little more
    than `4·2⁻⁵³/10⁻⁹ ≈ 4.45·10⁻⁷`: the two compared doubles carry up to `2⁻⁵³` and `3·2⁻⁵³` of relative error, which
    is that much *relative to the tolerance*. -/
def edgeEps : Rat := 1 / 2097152

/-- `1e-9` as a double: `4835703278458517 · 2⁻⁸²` -/
theorem relTolDefault_eq : relTolDefault = 4835703278458517 / 4835703278458516698824704 := by decide +kernel

-- ================================================================ absolute values
theorem abs_tri3 (a b c d : Rat) : (a - d).abs ≤ (a - b).abs + (b - c).abs + (c - d).abs := by
  have h1 := self_le_abs (a - b)
  have h2 := self_le_abs (b - c)
  have h3 := self_le_abs (c - d)
  rw [abs_le_iff]
  constructor <;> grind

theorem abs_le_abs_add (a b : Rat) : a.abs ≤ b.abs + (a - b).abs := by
  have h1 := self_le_abs b
  have h2 := self_le_abs (a - b)
  rw [abs_le_iff]
  constructor <;> grind

theorem abs_le_abs_add' (a b : Rat) : a.abs ≤ b.abs + (b - a).abs := by
  rw [Rat.abs_sub_comm]; exact abs_le_abs_add a b

theorem abs_eq_ite (x : Rat) : (if x < 0 then -x else x) = x.abs := by
  simp only [Rat.abs]; split <;> split <;> grind

-- ================================================================ `isclose` without its shortcut
/-- the `a == b` shortcut of `isclose` is subsumed by the comparison (non-negative tolerance) -/
theorem isclose_eq (x y r : Rat) (hr : 0 ≤ r) : isclose x y r =
    (decide ((toDouble (y - x)).abs ≤ toDouble (r * y.abs)) || decide ((toDouble (y - x)).abs ≤ toDouble (r * x.abs))) := by
  unfold isclose
  by_cases h : x = y
  · subst h
    have h0 : x - x = 0 := by grind
    have : 0 ≤ toDouble (r * x.abs) := toDouble_nonneg (Rat.mul_nonneg hr Rat.abs_nonneg)
    simp [h0, toDouble_zero, this]
  · have hne : (x == y) = false := by simpa using h
    simp only [hne, Bool.false_eq_true, if_false, abs_eq_ite]

-- ================================================================ the two sides of the edge
/-- facts about one evaluation of `isclose x y 1e-9`, all linear in the absolute values involved -/
theorem isclose_facts (x y : Rat) :
    ∃ d e1 Ry Rx eRy eRx : Rat,
      isclose x y relTolDefault = (decide (d ≤ Ry) || decide (d ≤ Rx)) ∧
      d ≤ (y - x).abs + e1 ∧ (y - x).abs ≤ d + e1 ∧ 9007199254740992 * e1 ≤ (y - x).abs ∧
      Ry ≤ relTolDefault * y.abs + eRy ∧ relTolDefault * y.abs ≤ Ry + eRy ∧
        9007199254740992 * eRy ≤ relTolDefault * y.abs ∧
      Rx ≤ relTolDefault * x.abs + eRx ∧ relTolDefault * x.abs ≤ Rx + eRx ∧
        9007199254740992 * eRx ≤ relTolDefault * x.abs := by
  have hr : 0 ≤ relTolDefault := by rw [relTolDefault_eq]; decide +kernel
  refine ⟨(toDouble (y - x)).abs, (toDouble (y - x) - (y - x)).abs, toDouble (relTolDefault * y.abs),
    toDouble (relTolDefault * x.abs), (toDouble (relTolDefault * y.abs) - relTolDefault * y.abs).abs,
    (toDouble (relTolDefault * x.abs) - relTolDefault * x.abs).abs, isclose_eq x y _ hr, ?_, ?_, ?_, ?_, ?_, ?_, ?_, ?_, ?_⟩
  · exact abs_le_abs_add _ _
  · exact abs_le_abs_add' _ _
  · exact toDouble_err_mul _
  · have := self_le_abs (toDouble (relTolDefault * y.abs) - relTolDefault * y.abs); grind
  · have := self_le_abs (toDouble (relTolDefault * y.abs) - relTolDefault * y.abs); grind
  · have := toDouble_err_mul (relTolDefault * y.abs)
    rwa [Rat.abs_of_nonneg (Rat.mul_nonneg hr Rat.abs_nonneg)] at this
  · have := self_le_abs (toDouble (relTolDefault * x.abs) - relTolDefault * x.abs); grind
  · have := self_le_abs (toDouble (relTolDefault * x.abs) - relTolDefault * x.abs); grind
  · have := toDouble_err_mul (relTolDefault * x.abs)
    rwa [Rat.abs_of_nonneg (Rat.mul_nonneg hr Rat.abs_nonneg)] at this

/-- **inside**: `x`, `y` approximate `P`, `Q` to `2⁻⁵³`, `3·2⁻⁵³`; `|P − Q| ≤ 10⁻⁹(1 − 2⁻²¹)·max(|P|,|Q|)`; then
    `isclose(x, y, rel_tol=1e-9)` is `True` -/
theorem isclose_true_of_close {x y P Q : Rat}
    (hx : 9007199254740992 * (x - P).abs ≤ P.abs) (hy : 9007199254740992 * (y - Q).abs ≤ 3 * Q.abs)
    (h : (P - Q).abs ≤ tolQ * (1 - edgeEps) * P.abs ∨ (P - Q).abs ≤ tolQ * (1 - edgeEps) * Q.abs) :
    isclose x y relTolDefault = true := by
  obtain ⟨d, e1, Ry, Rx, eRy, eRx, he, f1, f2, f3, g1, g2, g3, k1, k2, k3⟩ := isclose_facts x y
  rw [he]
  have t1 := abs_tri3 y Q P x
  have t2 : (Q - P).abs = (P - Q).abs := Rat.abs_sub_comm
  have t3 : (P - x).abs = (x - P).abs := Rat.abs_sub_comm
  rw [t2, t3] at t1
  have a1 := abs_le_abs_add' P x
  have a2 := abs_le_abs_add' Q y
  have a3 := abs_le_abs_add P Q
  have a4 := abs_le_abs_add' Q P
  have n1 : 0 ≤ P.abs := Rat.abs_nonneg
  have n2 : 0 ≤ Q.abs := Rat.abs_nonneg
  rw [relTolDefault_eq] at g1 g2 g3 k1 k2 k3
  simp only [tolQ, edgeEps] at h
  generalize (y - x).abs = dxy at *
  generalize (P - Q).abs = D at *
  generalize (x - P).abs = ex at *
  generalize (y - Q).abs = ey at *
  generalize P.abs = p at *
  generalize Q.abs = q at *
  generalize x.abs = ax at *
  generalize y.abs = ay at *
  rcases h with h | h
  · have : d ≤ Rx := by grind
    simp [this]
  · have : d ≤ Ry := by grind
    simp [this]

/-- **outside**: `|P − Q| ≥ 10⁻⁹(1 + 2⁻²¹)·max(|P|,|Q|)` and `P ≠ Q`; then `isclose(x, y, rel_tol=1e-9)` is `False` -/
theorem isclose_false_of_far {x y P Q : Rat}
    (hx : 9007199254740992 * (x - P).abs ≤ P.abs) (hy : 9007199254740992 * (y - Q).abs ≤ 3 * Q.abs)
    (h0 : 0 < (P - Q).abs)
    (h1 : tolQ * (1 + edgeEps) * P.abs ≤ (P - Q).abs) (h2 : tolQ * (1 + edgeEps) * Q.abs ≤ (P - Q).abs) :
    isclose x y relTolDefault = false := by
  obtain ⟨d, e1, Ry, Rx, eRy, eRx, he, f1, f2, f3, g1, g2, g3, k1, k2, k3⟩ := isclose_facts x y
  rw [he]
  have t1 := abs_tri3 P x y Q
  have t2 : (x - y).abs = (y - x).abs := Rat.abs_sub_comm
  have t3 : (P - x).abs = (x - P).abs := Rat.abs_sub_comm
  rw [t2, t3] at t1
  have a1 := abs_le_abs_add x P
  have a2 := abs_le_abs_add y Q
  have n1 : 0 ≤ P.abs := Rat.abs_nonneg
  have n2 : 0 ≤ Q.abs := Rat.abs_nonneg
  rw [relTolDefault_eq] at g1 g2 g3 k1 k2 k3
  simp only [tolQ, edgeEps] at h1 h2
  generalize (y - x).abs = dxy at *
  generalize (P - Q).abs = D at *
  generalize (x - P).abs = ex at *
  generalize (y - Q).abs = ey at *
  generalize P.abs = p at *
  generalize Q.abs = q at *
  generalize x.abs = ax at *
  generalize y.abs = ay at *
  have c1 : ¬ d ≤ Rx := by grind
  have c2 : ¬ d ≤ Ry := by grind
  simp [c1, c2]

-- ================================================================ the doubles `has_equal_value_to` compares
/-- `float(a)` of an exact number: one rounding -/
theorem toFlt_err {a : Num} (ha : a.kind ≠ .flt) : 9007199254740992 * (a.toFlt - a.val).abs ≤ a.val.abs := by
  have : a.isFlt = false := by simp [Num.isFlt, ha]
  simp only [Num.toFlt, this, Bool.false_eq_true, if_false]
  exact toDouble_err_mul _

/-- `float(b * scale)` for an exact `b`: one rounding when the factor is exact (`int`/`Fraction` product, then `float`),
    two when it is a float (`float(b) * scale`), against the rational product -/
theorem mul_toFlt_err {b : Num} (hb : b.kind ≠ .flt) (sc : Num) :
    9007199254740992 * ((b.mul sc).toFlt - b.val * sc.val).abs ≤ 3 * (b.val * sc.val).abs := by
  have hbf : b.isFlt = false := by simp [Num.isFlt, hb]
  by_cases hs : sc.isFlt = true
  · have hk : sc.kind = .flt := by simpa [Num.isFlt] using hs
    have e : (b.mul sc).toFlt = toDouble (toDouble b.val * sc.val) := by
      simp [Num.mul, Num.toFlt, Num.isFlt, hk, hb]
    rw [e]
    have h1 : (toDouble b.val * sc.val - b.val * sc.val).abs ≤ (1 / 9007199254740992) * (b.val * sc.val).abs := by
      have e2 : toDouble b.val * sc.val - b.val * sc.val = (toDouble b.val - b.val) * sc.val := by grind
      rw [e2, abs_mul, abs_mul]
      have := Rat.mul_le_mul_of_nonneg_right (toDouble_err_mul b.val) (Rat.abs_nonneg (x := sc.val))
      grind
    have h2 := round_after h1
    have n : 0 ≤ (b.val * sc.val).abs := Rat.abs_nonneg
    generalize (toDouble (toDouble b.val * sc.val) - b.val * sc.val).abs = e at *
    generalize (b.val * sc.val).abs = m at *
    simp only [Rat.div_def] at h2
    grind
  · have hs' : sc.isFlt = false := by simpa using hs
    have hk : sc.kind ≠ .flt := by simpa [Num.isFlt] using hs'
    have hv : (b.mul sc).val = b.val * sc.val := Num.mul_val_exact hb hk
    have hm : (b.mul sc).kind ≠ .flt := Num.mul_kind_exact hb hk
    have := toFlt_err hm
    rw [hv] at this
    have n : 0 ≤ (b.val * sc.val).abs := Rat.abs_nonneg
    grind

-- ================================================================ the exact relative difference
/-- `ρ(a, b) = |a − b| / max(|a|, |b|)`; `0` when `a = b = 0` (Lean's `x / 0 = 0`), which is the right reading here:
    `isclose(0, 0)` is `True` -/
def relDiff (a b : Rat) : Rat := (a - b).abs / max a.abs b.abs

theorem max_abs_cases (a b : Rat) : (max a.abs b.abs = a.abs ∧ b.abs ≤ a.abs) ∨ (max a.abs b.abs = b.abs ∧ a.abs ≤ b.abs) := by
  rw [Rat.max_def]; split <;> grind

theorem div_le_iff' {a b c : Rat} (hb : 0 < b) : a / b ≤ c ↔ a ≤ c * b := by
  rw [← Rat.not_lt, Rat.lt_div_iff hb, Rat.not_lt]
theorem le_div_iff' {a b c : Rat} (hb : 0 < b) : c ≤ a / b ↔ c * b ≤ a := by
  rw [← Rat.not_lt, Rat.div_lt_iff hb, Rat.not_lt]

/-- `ρ ≤ c` unfolded (the form the error analysis uses) -/
theorem close_of_relDiff {a b c : Rat} (hc : 0 ≤ c) (h : relDiff a b ≤ c) :
    (a - b).abs ≤ c * a.abs ∨ (a - b).abs ≤ c * b.abs := by
  have na : 0 ≤ a.abs := Rat.abs_nonneg
  have nb : 0 ≤ b.abs := Rat.abs_nonneg
  by_cases hm : 0 < max a.abs b.abs
  · unfold relDiff at h
    rw [div_le_iff' hm] at h
    rcases max_abs_cases a b with ⟨e, _⟩ | ⟨e, _⟩ <;> rw [e] at h
    · exact Or.inl h
    · exact Or.inr h
  · have h0 : a.abs = 0 ∧ b.abs = 0 := by
      rcases max_abs_cases a b with ⟨e, _⟩ | ⟨e, _⟩ <;> rw [e] at hm <;> grind
    have := abs_le_abs_add' (a - b) a
    have e : a - (a - b) = b := by grind
    rw [e] at this
    have := Rat.mul_nonneg hc na
    have n : 0 ≤ (a - b).abs := Rat.abs_nonneg
    left; grind

/-- `c ≤ ρ`, `c > 0`, unfolded -/
theorem far_of_relDiff {a b c : Rat} (hc : 0 < c) (h : c ≤ relDiff a b) :
    0 < (a - b).abs ∧ c * a.abs ≤ (a - b).abs ∧ c * b.abs ≤ (a - b).abs := by
  have na : 0 ≤ a.abs := Rat.abs_nonneg
  have nb : 0 ≤ b.abs := Rat.abs_nonneg
  by_cases hm : 0 < max a.abs b.abs
  · unfold relDiff at h
    rw [le_div_iff' hm] at h
    have hp := Rat.mul_pos hc hm
    rcases max_abs_cases a b with ⟨e, h'⟩ | ⟨e, h'⟩ <;> rw [e] at h hp
    · have := Rat.mul_le_mul_of_nonneg_left h' (Rat.le_of_lt hc)
      exact ⟨by grind, h, by grind⟩
    · have := Rat.mul_le_mul_of_nonneg_left h' (Rat.le_of_lt hc)
      exact ⟨by grind, by grind, h⟩
  · exfalso
    have h0 : max a.abs b.abs = 0 := by
      rcases max_abs_cases a b with ⟨e, _⟩ | ⟨e, _⟩ <;> rw [e] at hm ⊢ <;> grind
    unfold relDiff at h
    rw [h0, Rat.div_def, Rat.inv_zero, Rat.mul_zero] at h
    grind

/-- **`ρ` does not depend on the scale**: multiplying both numbers by `k ≠ 0` leaves it unchanged -/
theorem rho_scale (a b : Rat) {k : Rat} (hk : k ≠ 0) : relDiff (a * k) (b * k) = relDiff a b := by
  unfold relDiff
  have e1 : a * k - b * k = (a - b) * k := by grind
  have hk' : 0 < k.abs := by
    have := Rat.abs_nonneg (x := k)
    have h2 : k.abs ≠ 0 := by
      simp only [Rat.abs]; split <;> grind
    grind
  have e2 : max (a * k).abs (b * k).abs = max a.abs b.abs * k.abs := by
    rw [abs_mul, abs_mul, Rat.max_def, Rat.max_def]
    by_cases h : a.abs ≤ b.abs
    · have := Rat.mul_le_mul_of_nonneg_right h (Rat.le_of_lt hk')
      simp [h, this]
    · have h' : b.abs < a.abs := by grind
      have := Rat.mul_lt_mul_of_pos_right h' hk'
      have n : ¬ a.abs * k.abs ≤ b.abs * k.abs := by grind
      simp [h, n]
  rw [e1, e2, abs_mul]
  have := Rat.mul_div_mul_right' (a - b).abs 1 (max a.abs b.abs) k.abs (Rat.ne_of_gt hk')
  simpa using this

-- ================================================================ the conversion factor the test uses
/-- the factor by which `Quantity.has_equal_value_to` multiplies the other quantity: `1` without units, the unit
    system's factor (Python arithmetic: exact or float) between known units, `1` between equal unknown units;
    `none`: the quantities are not comparable and the test says no -/
def Quantity.hevFactor (self other : Quantity) : Option Num :=
  match self.unit, other.unit with
  | none, none => some ⟨1, .int⟩
  | none, some _ => none
  | some _, none => none
  | some su, some ou =>
    match convertBetween false (lowerStr ou) (lowerStr su) with
    | some sc => some sc
    | none => if lowerStr su == lowerStr ou then some ⟨1, .int⟩ else none

theorem hasEqualValueTo_eq (q iq : Quantity) : q.hasEqualValueTo iq =
    match q.hevFactor iq with
    | none => false
    | some sc => isclose q.value.toFlt (iq.value.mul sc).toFlt relTolDefault := by
  unfold Quantity.hasEqualValueTo Quantity.hevFactor
  cases q.unit <;> cases iq.unit <;> simp only []
  rename_i su ou
  cases hc : convertBetween false (lowerStr ou) (lowerStr su) with
  | some sc => rfl
  | none => simp only []; split <;> rfl

theorem hevFactor_scale (k : Num) (q iq : Quantity) : (q.scale k).hevFactor (iq.scale k) = q.hevFactor iq := rfl

/-- `has_equal_value_to` on exact quantities, off the edge -/
theorem hev_off_edge {q iq : Quantity} (hq : q.value.kind ≠ .flt) (hiq : iq.value.kind ≠ .flt) {sc : Num}
    (hf : q.hevFactor iq = some sc) :
    (relDiff q.value.val (iq.value.val * sc.val) ≤ tolQ * (1 - edgeEps) → q.hasEqualValueTo iq = true) ∧
    (tolQ * (1 + edgeEps) ≤ relDiff q.value.val (iq.value.val * sc.val) → q.hasEqualValueTo iq = false) := by
  rw [hasEqualValueTo_eq, hf]
  simp only []
  constructor
  · intro h
    exact isclose_true_of_close (toFlt_err hq) (mul_toFlt_err hiq sc) (close_of_relDiff (by decide +kernel) h)
  · intro h
    obtain ⟨h0, h1, h2⟩ := far_of_relDiff (by decide +kernel) h
    exact isclose_false_of_far (toFlt_err hq) (mul_toFlt_err hiq sc) h0 h1 h2

theorem hev_none {q iq : Quantity} (hf : q.hevFactor iq = none) : q.hasEqualValueTo iq = false := by
  rw [hasEqualValueTo_eq, hf]

-- ================================================================ the quantities of an exact description are exact
mutual
theorem AExpr.qtys_exact : ∀ e : AExpr, e.Exact → ∀ q ∈ e.qtys, q.value.kind ≠ .flt
  | .step _ inputs, he, q, hq => by
    simp only [AExpr.qtys] at hq
    exact AExpr.qtysList_exact inputs he.2 q hq
  | .ref _ a, he, q, hq => by
    simp only [AExpr.qtys] at hq
    exact he.2 q hq
theorem AExpr.qtysList_exact : ∀ es : List AExpr, AExpr.ExactList es → ∀ q ∈ AExpr.qtysList es, q.value.kind ≠ .flt
  | [], _, q, hq => by simp [AExpr.qtysList] at hq
  | e :: es, he, q, hq => by
    simp only [AExpr.qtysList, List.mem_append] at hq
    rcases hq with hq | hq
    · exact AExpr.qtys_exact e he.1 q hq
    · exact AExpr.qtysList_exact es he.2 q hq
end

theorem astQuantities_exact {asts : List (List AStmt)} (h : AstExact asts) :
    ∀ q ∈ astQuantities asts, q.value.kind ≠ .flt := by
  intro q hq
  simp only [astQuantities, List.mem_flatMap] at hq
  obtain ⟨b, hb, s, hs, hq⟩ := hq
  exact AExpr.qtys_exact s.expr (h b hb s hs).1 q hq

end RG
