import RecipeGrid.Lemmas.BraceDecl
import RecipeGrid.Lemmas.FloatErr
/-! The constructor `ScaledValueExpression(match)` raises nothing on a source of at most 300 characters. -/
set_option exponentiation.threshold 1100

namespace RG.Brace
open Re Parser

/-! ## sizes -/

theorem digitsVal_lt (d : Str) (hd : ∀ ch ∈ d, isDigit ch = true) : digitsVal d < 10 ^ d.length := by
  induction d with
  | nil => simp [digitsVal]
  | cons c d ih =>
    rw [digitsVal_cons]
    have hc := hd c (List.mem_cons_self ..)
    have hd' := ih (fun ch hch => hd ch (List.mem_cons_of_mem _ hch))
    simp only [isDigit, Bool.and_eq_true, decide_eq_true_eq] at hc
    have h9 : c.toNat - 48 ≤ 9 := by omega
    have hmul : (c.toNat - 48) * 10 ^ d.length ≤ 9 * 10 ^ d.length := Nat.mul_le_mul_right _ h9
    simp only [List.length_cons, Nat.pow_succ]
    omega

theorem pow_le_of_le {a b : Nat} (h : a ≤ b) : 10 ^ a ≤ 10 ^ b := Nat.pow_le_pow_right (by decide) h

theorem two_pow_lt_threshold : 2 * 10 ^ 300 < floatInfThreshold := by decide +kernel

theorem mkRat_nat_le (n d : Nat) (hd : d ≠ 0) : mkRat (n : Int) d ≤ (n : Rat) ∧ 0 ≤ mkRat (n : Int) d := by
  rw [Rat.mkRat_eq_div, Rat.intCast_natCast]
  have hdpos : (0 : Rat) < (d : Rat) := Rat.natCast_pos.2 (Nat.pos_of_ne_zero hd)
  have hd1 : (1 : Rat) ≤ (d : Rat) := by
    have : ((1 : Nat) : Rat) ≤ (d : Rat) := Rat.natCast_le_natCast.2 (Nat.pos_of_ne_zero hd)
    simpa using this
  have hn : (0 : Rat) ≤ (n : Rat) := Rat.natCast_nonneg
  have hmul : (n : Rat) / (d : Rat) * (d : Rat) = (n : Rat) := Rat.div_mul_cancel (Rat.ne_of_gt hdpos)
  have hx0 : 0 ≤ (n : Rat) / (d : Rat) := by
    rw [Rat.div_def]
    exact Rat.mul_nonneg hn (Rat.le_of_lt (Rat.inv_pos.2 hdpos))
  refine ⟨?_, hx0⟩
  have := Rat.mul_le_mul_of_nonneg_left hd1 hx0
  rw [Rat.mul_one, hmul] at this
  exact this

/-- the whole part of a non-negative rational below a natural number -/
theorem floor_nat_bound (q : Rat) (h0 : 0 ≤ q) (S : Nat) (h : q ≤ (S : Rat)) : q.num.natAbs / q.den ≤ S := by
  have hf : (q.floor : Rat) ≤ ((S : Int) : Rat) := by
    rw [Rat.intCast_natCast]
    exact Rat.le_trans (Rat.floor_le q) h
  have hfi : q.floor ≤ (S : Int) := Rat.intCast_le_intCast.1 hf
  rw [Rat.floor_def] at hfi
  have hnum : (q.num.natAbs : Int) = q.num := Int.natAbs_of_nonneg (Rat.num_nonneg.2 h0)
  rw [← hnum, ← Int.natCast_ediv] at hfi
  exact Int.ofNat_le.1 hfi

theorem natDigits_len_300 (x : Nat) (h : x < 10 ^ 300) : ¬ intMaxStrDigits < (natDigits x).length := by
  have := natDigits_length_le (k := 300) (by decide) h
  simp only [intMaxStrDigits]
  omega

/-! ## rendering a number of moderate size raises nothing -/

theorem renderNumErr_int (w : Str) (hw : ∀ ch ∈ w, isDigit ch = true) (hl : w.length ≤ 300) :
    renderNumErr (intValue w) = none := by
  have hlt : natOfDigits w < 10 ^ 300 := Nat.lt_of_lt_of_le (digitsVal_lt w hw) (pow_le_of_le hl)
  have hv : (intValue w).val.num.natAbs = natOfDigits w := by
    simp [intValue, Rat.num_natCast]
  unfold renderNumErr
  have hk : (intValue w).kind = .int := rfl
  rw [hk]
  simp only
  split
  · rename_i h
    rw [hv] at h
    exact absurd h (natDigits_len_300 _ hlt)
  · rfl

theorem renderNumErr_float (w f : Str) (hw : ∀ ch ∈ w, isDigit ch = true) (hf : ∀ ch ∈ f, isDigit ch = true)
    (hl : w.length + f.length ≤ 300) : renderNumErr (floatValue w f) = none := by
  have hM : natOfDigits (w ++ f) < 10 ^ 300 := by
    have := digitsVal_lt (w ++ f) (by
      intro ch hch
      rcases List.mem_append.1 hch with h | h
      · exact hw ch h
      · exact hf ch h)
    exact Nat.lt_of_lt_of_le this (pow_le_of_le (by simpa using hl))
  have hD : 10 ^ f.length ≠ 0 := Nat.ne_of_gt (Nat.pow_pos (by decide))
  obtain ⟨hxM, hx0⟩ := mkRat_nat_le (natOfDigits (w ++ f)) (10 ^ f.length) hD
  generalize hx : mkRat ((natOfDigits (w ++ f) : Nat) : Int) (10 ^ f.length) = x at hxM hx0
  have herr := toDouble_err x
  rw [Rat.abs_of_nonneg hx0] at herr
  have hup := (abs_le_iff.1 herr).2
  have hMr : ((natOfDigits (w ++ f) : Nat) : Rat) < ((10 ^ 300 : Nat) : Rat) := Rat.natCast_lt_natCast.2 hM
  have hT : ((2 * 10 ^ 300 : Nat) : Rat) < ((floatInfThreshold : Nat) : Rat) :=
    Rat.natCast_lt_natCast.2 two_pow_lt_threshold
  have hT' : (2 : Rat) * ((10 ^ 300 : Nat) : Rat) < ((floatInfThreshold : Nat) : Rat) := by
    have : ((2 * 10 ^ 300 : Nat) : Rat) = (2 : Rat) * ((10 ^ 300 : Nat) : Rat) := by
      rw [Rat.natCast_mul]; rfl
    rw [← this]; exact hT
  have hlt : toDouble x < ((floatInfThreshold : Nat) : Rat) := by grind
  simp only [renderNumErr, floatValue, hx]
  rw [if_neg (Rat.not_le.2 hlt)]

theorem renderNumErr_frac (q : Rat) (h0 : 0 ≤ q) (S : Nat) (hq : q ≤ (S : Rat)) (hS : S < 10 ^ 300) :
    renderNumErr ⟨q, .frac⟩ = none := by
  have hfl := floor_nat_bound q h0 S hq
  have hT : (S : Rat) < ((floatInfThreshold : Nat) : Rat) :=
    Rat.natCast_lt_natCast.2 (by have := two_pow_lt_threshold; omega)
  have hqT : ¬ ((floatInfThreshold : Nat) : Rat) ≤ q := Rat.not_le.2 (by grind)
  unfold renderNumErr
  simp only
  split
  · rename_i hden
    simp only [beq_iff_eq] at hden
    rw [hden, Nat.div_one] at hfl
    split
    · rename_i h
      exact absurd h (natDigits_len_300 _ (by omega))
    · rfl
  · split
    · first
      | rfl
      | (split
         · rename_i h
           exact absurd h hqT
         · rfl)
    · split
      · split
        · rename_i h
          exact absurd h (natDigits_len_300 _ (by omega))
        · rfl
      · rfl

theorem renderNumErr_fracValue (i : Option Str) (n d : Str)
    (hi : ∀ ds, i = some ds → (∀ ch ∈ ds, isDigit ch = true) ∧ ds.length ≤ 298)
    (hn : ∀ ch ∈ n, isDigit ch = true) (hnl : n.length ≤ 298) (hd : natOfDigits d ≠ 0) :
    renderNumErr (fracValue i n d) = none := by
  have hnv : natOfDigits n < 10 ^ 298 := Nat.lt_of_lt_of_le (digitsVal_lt n hn) (pow_le_of_le hnl)
  obtain ⟨hle, h0⟩ := mkRat_nat_le (natOfDigits n) (natOfDigits d) hd
  have key : ∀ iv : Nat, iv < 10 ^ 298 →
      renderNumErr ⟨(iv : Rat) + mkRat ((natOfDigits n : Nat) : Int) (natOfDigits d), .frac⟩ = none := by
    intro iv hiv
    apply renderNumErr_frac _ _ (iv + natOfDigits n)
    · rw [Rat.natCast_add]
      exact Rat.add_le_add_left.2 hle
    · have : (10 : Nat) ^ 300 = 100 * 10 ^ 298 := by
        rw [show (300 : Nat) = 2 + 298 from rfl, Nat.pow_add]
      omega
    · exact Rat.add_nonneg Rat.natCast_nonneg h0
  unfold fracValue
  cases i with
  | none => exact key 0 (Nat.pow_pos (by decide))
  | some ds =>
    obtain ⟨hds, hdl⟩ := hi ds rfl
    exact key (natOfDigits ds) (Nat.lt_of_lt_of_le (digitsVal_lt ds hds) (pow_le_of_le hdl))


/-! ## the numbers of a short source -/

theorem lexMixed_some {s i n d r : Str} (h : lexMixed s = some (i, n, d, r)) :
    ∃ rr, lexFracInt s = some (i, rr) ∧ lexFracTail rr = some (n, d, r) := by
  unfold lexMixed at h
  cases hi : lexFracInt s with
  | none => rw [hi] at h; cases h
  | some t =>
    obtain ⟨i', rr⟩ := t
    rw [hi] at h
    simp only at h
    cases ht : lexFracTail rr with
    | none => rw [ht] at h; cases h
    | some t =>
      obtain ⟨n', d', r'⟩ := t
      rw [ht] at h
      simp only [Option.some.injEq, Prod.mk.injEq] at h
      obtain ⟨rfl, rfl, rfl, rfl⟩ := h
      exact ⟨rr, rfl, ht⟩

theorem renderNumErr_lexNumber (s : Str) (hl : s.length ≤ 300) : renderNumErr (lexNumber s).1 = none := by
  unfold lexNumber
  cases hm : lexMixed s with
  | some t =>
    obtain ⟨i, n, d, r⟩ := t
    simp only
    obtain ⟨rr, hi, ht⟩ := lexMixed_some hm
    obtain ⟨h1, _, hs, _, hid, h1ne, _, _⟩ := lexFracInt_some hi
    obtain ⟨h2, h3, hrr, _, hn, _, _, hd, hnz, _⟩ := lexFracTail_some ht
    have h1pos : 0 < h1.length := List.length_pos_iff.2 h1ne
    have hlen : s.length = i.length + (h1.length + (n.length + (h2.length + (1 + (h3.length + (d.length + r.length)))))) := by
      conv => lhs; rw [hs, hrr]
      simp only [List.length_append, List.length_cons]
      omega
    apply renderNumErr_fracValue
    · intro ds hds
      cases hds
      exact ⟨hid, by omega⟩
    · exact hn
    · omega
    · exact digitsVal_pos_of_nonZero d hd hnz
  | none =>
    simp only
    cases ht : lexFracTail s with
    | some t =>
      obtain ⟨n, d, r⟩ := t
      simp only
      obtain ⟨h2, h3, hs, _, hn, _, _, hd, hnz, _⟩ := lexFracTail_some ht
      have hdpos : 0 < d.length := by
        cases d with
        | nil => simp [hasNonZero] at hnz
        | cons _ _ => simp
      have hlen : s.length = n.length + (h2.length + (1 + (h3.length + (d.length + r.length)))) := by
        conv => lhs; rw [hs]
        simp only [List.length_append, List.length_cons]
        omega
      apply renderNumErr_fracValue
      · intro ds hds; cases hds
      · exact hn
      · omega
      · exact digitsVal_pos_of_nonZero d hd hnz
    | none =>
      simp only
      unfold lexDecimal
      have hw : ∀ ch ∈ s.takeWhile isDigit, isDigit ch = true := fun ch hch => mem_takeWhile_imp hch
      have hsplit := congrArg List.length (List.takeWhile_append_dropWhile (p := isDigit) (l := s))
      simp only [List.length_append] at hsplit
      cases hdw : s.dropWhile isDigit with
      | nil =>
        simp only
        exact renderNumErr_int _ hw (by omega)
      | cons x r =>
        simp only
        rw [hdw] at hsplit
        simp only [List.length_cons] at hsplit
        split
        · simp only
          have := takeWhile_length_le isDigit r
          exact renderNumErr_float _ _ hw (fun ch hch => mem_takeWhile_imp hch) (by omega)
        · simp only
          exact renderNumErr_int _ hw (by omega)

theorem lexTok_rest {s s' : Str} {p : Part} (h : lexTok s = some (p, s')) : s'.length < s.length := by
  rw [← partAt_eq_lexTok] at h
  cases hp : partAt s with
  | none => rw [hp] at h; cases h
  | some t =>
    obtain ⟨s'', c⟩ := t
    rw [hp] at h
    simp only [Option.map_some, Option.some.injEq, Prod.mk.injEq] at h
    obtain ⟨_, rfl⟩ := h
    obtain ⟨x, hx, hs⟩ := partAt_rest hp
    have := List.length_pos_iff.2 hx
    rw [hs, List.length_append]
    omega

theorem lexTokensF_num_mem : ∀ (fuel : Nat) (s : Str) (n : Num), Part.num n ∈ lexTokensF fuel s →
    ∃ s0 s', s0.length ≤ s.length ∧ lexTok s0 = some (.num n, s')
  | 0, _, _, h => by simp [lexTokensF] at h
  | _ + 1, [], _, h => by simp [lexTokensF] at h
  | fuel + 1, ch :: rest, n, h => by
    simp only [lexTokensF] at h
    cases hp : lexTok (ch :: rest) with
    | none =>
      rw [hp] at h
      obtain ⟨s0, s', hl, hq⟩ := lexTokensF_num_mem fuel rest n h
      exact ⟨s0, s', by simp; omega, hq⟩
    | some t =>
      obtain ⟨p, s'⟩ := t
      rw [hp] at h
      simp only [List.mem_cons] at h
      rcases h with h | h
      · exact ⟨_, _, Nat.le_refl _, by rw [hp, h]⟩
      · obtain ⟨s0, s'', hl, hq⟩ := lexTokensF_num_mem fuel s' n h
        have := lexTok_rest hp
        exact ⟨s0, s'', by omega, hq⟩

theorem lexTok_num {s s' : Str} {n : Num} (h : lexTok s = some (.num n, s')) : n = (lexNumber s).1 := by
  cases s with
  | nil => cases h
  | cons ch rest =>
    simp only [lexTok] at h
    split at h
    · simp only [Option.some.injEq, Prod.mk.injEq, Part.num.injEq] at h
      exact h.1.symm
    · split at h
      · split at h
        · split at h <;> simp at h
        · simp at h
      · split at h <;> simp at h

theorem renderSvsErr_none : ∀ (s : SVS), (∀ n, Part.num n ∈ s → renderNumErr n = none) → renderSvsErr s = none
  | [], _ => rfl
  | .text _ :: rest, h => by
    simp only [renderSvsErr]
    exact renderSvsErr_none rest (fun n hn => h n (List.mem_cons_of_mem _ hn))
  | .num n :: rest, h => by
    simp only [renderSvsErr, h n (List.mem_cons_self ..)]
    exact renderSvsErr_none rest (fun n hn => h n (List.mem_cons_of_mem _ hn))

theorem num_mem_normalise {ps : List Part} {n : Num} (h : Part.num n ∈ Svs.normalise ps) : Part.num n ∈ ps := by
  have hf := Svs.filterMap_normalise (fun p => match p with | .num m => some m | .text _ => none) (fun _ => rfl) ps
  have : n ∈ (Svs.normalise ps).filterMap (fun p => match p with | .num m => some m | .text _ => none) :=
    List.mem_filterMap.2 ⟨_, h, rfl⟩
  rw [hf] at this
  obtain ⟨p, hp, hpn⟩ := List.mem_filterMap.1 this
  cases p with
  | text t => cases hpn
  | num m =>
    simp only [Option.some.injEq] at hpn
    subst hpn
    exact hp

/-- **C07 for prose**: on a source of at most 300 characters the constructor raises nothing -/
theorem braceExpr_ok_of_short (src : Str) (h : src.length ≤ 300) : braceExpr src = .ok (braceParts src) := by
  have h1 : (Brace.matches src).any capsIntTooLong = false :=
    matches_no_intTooLong src (by simp only [intMaxStrDigits]; omega)
  have h2 : renderSvsErr (braceParts src) = none := by
    apply renderSvsErr_none
    intro n hn
    unfold braceParts at hn
    have hn' := num_mem_normalise hn
    rw [braceTokens_eq_lexTokens] at hn'
    obtain ⟨s0, s', hl, hq⟩ := lexTokensF_num_mem _ _ n hn'
    rw [lexTok_num hq]
    exact renderNumErr_lexNumber s0 (by omega)
  unfold braceExpr
  rw [h1, h2]
  rfl

end RG.Brace
