import RecipeGrid.Lemmas.FmtSpelling
/-! Showing again what was read back gives the same text: the double nearest to a shown decimal (what both readers return
    when a point is shown) is displayed by `format_float` exactly like the number it came from.  Used by `Props/C11c.lean`. -/
namespace RG
open NumberReader C06 C11

/-- a rational within less than a half of an integer rounds to it -/
theorem roundHalfEven_near {q : Rat} {n : Int} (h1 : 2 * (q - (n : Rat)) < 1) (h2 : 2 * ((n : Rat) - q) < 1) :
    roundHalfEven q = n := by
  by_cases hge : (n : Rat) ≤ q
  · have hfl : q.floor = n := by
      have a : n ≤ q.floor := Rat.le_floor_iff.mpr hge
      have b : q.floor < n + 1 := Rat.floor_lt_iff.mpr (by rw [Rat.intCast_add]; simp only [Rat.intCast_one]; grind)
      omega
    rw [roundHalfEven_of_lt_half (by rw [hfl]; exact h1), hfl]
  · have hfl : q.floor = n - 1 := by
      have a : n - 1 ≤ q.floor := Rat.le_floor_iff.mpr (by rw [Rat.intCast_sub]; simp only [Rat.intCast_one]; grind)
      have b : q.floor < n := Rat.floor_lt_iff.mpr (by grind)
      omega
    rw [roundHalfEven_of_gt_half (by rw [hfl, Rat.intCast_sub]; simp only [Rat.intCast_one]; grind), hfl]
    omega

theorem rstripZeros_zeros (n : Nat) : rstripZeros (List.replicate n '0') = [] := by
  simp [rstripZeros]

theorem dot_not_mem_intStr_roundHalfEven {y : Rat} (hy : 0 ≤ y) : '.' ∉ intStr (roundHalfEven y) := by
  rw [intStr_of_nonneg (roundHalfEven_nonneg hy)]
  exact dot_not_mem_natDigits _

/-- the decimals of `format_float`, from the rounded fractional part -/
def fracText (d : Nat) (fd : Nat) : Str :=
  let s := if fd ≥ 10 ^ d then [] else rstripZeros (padLeftZeros d (natDigits fd))
  if d == 0 then [] else s

theorem formatFloatSig_eq (sig : Nat) (x : Rat) :
    formatFloatSig sig x =
      (if (fracText (fracDigits sig x)
            (roundHalfEven ((x - (x.floor.toNat : Rat)) * ((10 ^ fracDigits sig x : Nat) : Rat))).toNat).isEmpty
       then intStr (roundHalfEven x)
       else natDigits x.floor.toNat ++ '.' ::
          fracText (fracDigits sig x)
            (roundHalfEven ((x - (x.floor.toNat : Rat)) * ((10 ^ fracDigits sig x : Nat) : Rat))).toNat) := rfl

theorem fracText_nonempty {d fd : Nat} (h : (fracText d fd).isEmpty = false) : 0 < d ∧ 0 < fd ∧ fd < 10 ^ d := by
  simp only [fracText] at h
  by_cases hd : d = 0
  · simp [hd] at h
  · have hdb : (d == 0) = false := by simpa using hd
    simp only [hdb, Bool.false_eq_true, if_false] at h
    by_cases hge : fd ≥ 10 ^ d
    · simp [hge] at h
    · simp only [hge, if_false] at h
      refine ⟨Nat.pos_of_ne_zero hd, Nat.pos_of_ne_zero ?_, by omega⟩
      rintro rfl
      have : padLeftZeros d (natDigits 0) = List.replicate d '0' := by
        have h0 : natDigits 0 = ['0'] := by decide
        rw [h0, padLeftZeros]
        have : d = (d - 1) + 1 := by omega
        simp only [List.length_cons, List.length_nil]
        rw [← List.replicate_succ', ← this]
      rw [this, rstripZeros_zeros] at h
      simp at h

/-- **display ∘ read ∘ display = display** for decimals: when a point is shown, the double nearest to the shown decimal
    (what both readers return) is shown as the same text -/
theorem formatFloat_redisplay (y : Rat) (hy : 0 ≤ y) (hd : '.' ∈ formatFloat y) :
    formatFloat (toDouble (roundedDecimal y)) = formatFloat y := by
  have hsig : Gen.significantFigures = 3 := rfl
  -- the decimals of y
  have hne : (fracText (fracDigits Gen.significantFigures y)
      (roundHalfEven ((y - (y.floor.toNat : Rat)) * ((10 ^ fracDigits Gen.significantFigures y : Nat) : Rat))).toNat).isEmpty = false := by
    cases he : (fracText (fracDigits Gen.significantFigures y)
      (roundHalfEven ((y - (y.floor.toNat : Rat)) * ((10 ^ fracDigits Gen.significantFigures y : Nat) : Rat))).toNat).isEmpty with
    | false => rfl
    | true =>
      have : formatFloat y = intStr (roundHalfEven y) := by
        show formatFloatSig Gen.significantFigures y = _
        rw [formatFloatSig_eq, he]; rfl
      rw [this] at hd
      exact absurd hd (dot_not_mem_intStr_roundHalfEven hy)
  obtain ⟨hdpos, hfd0, hfdlt⟩ := fracText_nonempty hne
  have hP := pow10_cast_pos (fracDigits Gen.significantFigures y)
  have hsplit := roundHalfEven_split y hdpos
  have hR0 := round_frac_nonneg hy (fracDigits Gen.significantFigures y)
  have hD0 := roundedDecimal_nonneg hy
  have hRle := scaled_le_of_fracDigits_pos hy hdpos
  have hdle := fracDigits_le Gen.significantFigures y
  -- the scaled double is within 1000/2^53 of the scaled decimal
  have herr := toDouble_err_mul (roundedDecimal y)
  rw [Rat.abs_of_nonneg hD0, ← abs_mul_of_nonneg (by decide), abs_le_iff] at herr
  have hPD : ((10 ^ fracDigits Gen.significantFigures y : Nat) : Rat) * roundedDecimal y
      = ((roundHalfEven (y * ((10 ^ fracDigits Gen.significantFigures y : Nat) : Rat)) : Int) : Rat) := by
    rw [roundedDecimal, Rat.mul_comm, Rat.div_mul_cancel (Rat.ne_of_gt hP)]
  have hRle' : ((roundHalfEven (y * ((10 ^ fracDigits Gen.significantFigures y : Nat) : Rat)) : Int) : Rat) ≤ 1000 := by
    have h1 := Rat.intCast_le_intCast.mpr hRle
    rw [Rat.intCast_natCast] at h1
    have : ((10 ^ Gen.significantFigures : Nat) : Rat) = 1000 := by decide +kernel
    rw [this] at h1; exact h1
  have e1 := Rat.mul_le_mul_of_nonneg_left herr.1 (Rat.le_of_lt hP)
  have e2 := Rat.mul_le_mul_of_nonneg_left herr.2 (Rat.le_of_lt hP)
  -- name the pieces
  generalize hfdef : roundHalfEven ((y - (y.floor.toNat : Rat)) * ((10 ^ fracDigits Gen.significantFigures y : Nat) : Rat)) = fd at *
  have hfd1 : (1 : Int) ≤ fd := by omega
  have hfd2 : fd + 1 ≤ ((10 ^ fracDigits Gen.significantFigures y : Nat) : Int) := by omega
  have hfd1' : (1 : Rat) ≤ (fd : Rat) := by
    have := Rat.intCast_le_intCast.mpr hfd1; simpa using this
  have hfd2' : (fd : Rat) + 1 ≤ ((10 ^ fracDigits Gen.significantFigures y : Nat) : Rat) := by
    have := Rat.intCast_le_intCast.mpr hfd2
    rw [Rat.intCast_add, Rat.intCast_natCast] at this
    simpa using this
  have hsplit' : ((roundHalfEven (y * ((10 ^ fracDigits Gen.significantFigures y : Nat) : Rat)) : Int) : Rat)
      = (fd : Rat) + ((y.floor.toNat : Nat) : Rat) * ((10 ^ fracDigits Gen.significantFigures y : Nat) : Rat) := by
    rw [hsplit, Rat.intCast_add, Rat.intCast_natCast, Rat.natCast_mul]
  -- bounds on the scaled double
  have key : ∀ P D v R I F : Rat, 0 < P → P * D = R → R ≤ 1000 → R = F + I * P →
      P * -D ≤ P * (9007199254740992 * (v - D)) → P * (9007199254740992 * (v - D)) ≤ P * D →
      1 ≤ F → F + 1 ≤ P →
      (I ≤ v ∧ v < I + 1) ∧ 2 * ((v - I) * P - F) < 1 ∧ 2 * (F - (v - I) * P) < 1 := by
    intro P D v R I F hP h1 h2 h3 h4 h5 h6 h7
    have a1 : P * v - R ≤ 1000 / 9007199254740992 := by grind
    have a2 : R - P * v ≤ 1000 / 9007199254740992 := by grind
    have a3 : (1000 : Rat) / 9007199254740992 < 1 / 2 := by decide +kernel
    have b1 : I * P ≤ v * P := by grind
    have b2 : v * P < (I + 1) * P := by grind
    refine ⟨⟨?_, ?_⟩, by grind, by grind⟩
    · exact Rat.le_of_mul_le_mul_right b1 hP
    · exact (Rat.mul_lt_mul_right hP).mp b2
  obtain ⟨⟨hlo, hhi⟩, hn1, hn2⟩ := key _ _ (toDouble (roundedDecimal y)) _ ((y.floor.toNat : Nat) : Rat) (fd : Rat)
    hP hPD hRle' hsplit' e1 e2 hfd1' hfd2'
  -- same integer part, same number of decimals, same rounded fraction
  have hfloor : (toDouble (roundedDecimal y)).floor.toNat = y.floor.toNat := by
    have a : ((y.floor.toNat : Nat) : Int) ≤ (toDouble (roundedDecimal y)).floor :=
      Rat.le_floor_iff.mpr (by rw [Rat.intCast_natCast]; exact hlo)
    have b : (toDouble (roundedDecimal y)).floor < ((y.floor.toNat : Nat) : Int) + 1 :=
      Rat.floor_lt_iff.mpr (by rw [Rat.intCast_add, Rat.intCast_natCast]; simpa using hhi)
    omega
  have hfrac : fracDigits Gen.significantFigures (toDouble (roundedDecimal y)) = fracDigits Gen.significantFigures y := by
    simp only [fracDigits, hfloor]
  have hround : roundHalfEven ((toDouble (roundedDecimal y) - (y.floor.toNat : Rat))
      * ((10 ^ fracDigits Gen.significantFigures y : Nat) : Rat)) = fd :=
    roundHalfEven_near hn1 hn2
  show formatFloatSig Gen.significantFigures (toDouble (roundedDecimal y)) = formatFloatSig Gen.significantFigures y
  rw [formatFloatSig_eq, formatFloatSig_eq, hfloor, hfrac, hround, hfdef, hne]
  rfl

/-- when a point is shown, the rounded fractional part `fd` (in units of the last decimal) is strictly between 0 and
    `10^d`, and the shown decimal is `⌊y⌋ + fd / 10^d` -/
theorem point_shown_parts (y : Rat) (hy : 0 ≤ y) (hd : '.' ∈ formatFloat y) :
    ∃ fd : Nat, 0 < fd ∧ fd < 10 ^ fracDigits Gen.significantFigures y ∧
      roundHalfEven (y * ((10 ^ fracDigits Gen.significantFigures y : Nat) : Rat))
        = ((fd + y.floor.toNat * 10 ^ fracDigits Gen.significantFigures y : Nat) : Int) := by
  have hne : (fracText (fracDigits Gen.significantFigures y)
      (roundHalfEven ((y - (y.floor.toNat : Rat)) * ((10 ^ fracDigits Gen.significantFigures y : Nat) : Rat))).toNat).isEmpty = false := by
    cases he : (fracText (fracDigits Gen.significantFigures y)
      (roundHalfEven ((y - (y.floor.toNat : Rat)) * ((10 ^ fracDigits Gen.significantFigures y : Nat) : Rat))).toNat).isEmpty with
    | false => rfl
    | true =>
      have : formatFloat y = intStr (roundHalfEven y) := by
        show formatFloatSig Gen.significantFigures y = _
        rw [formatFloatSig_eq, he]; rfl
      rw [this] at hd
      exact absurd hd (dot_not_mem_intStr_roundHalfEven hy)
  obtain ⟨hdpos, hfd0, hfdlt⟩ := fracText_nonempty hne
  have hsplit := roundHalfEven_split y hdpos
  have hR0 := round_frac_nonneg hy (fracDigits Gen.significantFigures y)
  refine ⟨_, hfd0, hfdlt, ?_⟩
  rw [hsplit]
  omega

/-- a point is shown exactly when the shown decimal is not a whole number -/
theorem point_shown_iff (y : Rat) (hy : 0 ≤ y) : '.' ∈ formatFloat y ↔ (roundedDecimal y).den ≠ 1 := by
  constructor
  · intro hd hden
    obtain ⟨fd, hfd0, hfdlt, hR⟩ := point_shown_parts y hy hd
    have hP := pow10_cast_pos (fracDigits Gen.significantFigures y)
    have hPD : ((10 ^ fracDigits Gen.significantFigures y : Nat) : Rat) * roundedDecimal y
        = ((roundHalfEven (y * ((10 ^ fracDigits Gen.significantFigures y : Nat) : Rat)) : Int) : Rat) := by
      rw [roundedDecimal, Rat.mul_comm, Rat.div_mul_cancel (Rat.ne_of_gt hP)]
    have hv : (((roundedDecimal y).num : Int) : Rat) = roundedDecimal y := by
      have := Rat.mkRat_self (roundedDecimal y)
      rw [hden, Rat.mkRat_eq_div, Rat.div_def] at this
      have h1 : ((1 : Nat) : Rat)⁻¹ = 1 := by decide +kernel
      rw [h1, Rat.mul_one] at this
      exact this
    have hnn : 0 ≤ (roundedDecimal y).num := Rat.num_nonneg.mpr (roundedDecimal_nonneg hy)
    rw [← hv, hR, ← Rat.intCast_natCast, ← Rat.intCast_mul] at hPD
    have hint := Rat.intCast_inj.mp hPD
    -- 10^d * m = fd + i * 10^d with 0 < fd < 10^d: impossible
    generalize (10 ^ fracDigits Gen.significantFigures y : Nat) = P at *
    generalize y.floor.toNat = i at *
    obtain ⟨m, hm⟩ : ∃ m : Nat, (roundedDecimal y).num = (m : Int) := ⟨_, (Int.toNat_of_nonneg hnn).symm⟩
    rw [hm] at hint
    have hnat : P * m = fd + i * P := by exact_mod_cast hint
    have hdvd : P ∣ fd := by
      have h1 : P ∣ fd + i * P := ⟨m, hnat.symm⟩
      exact (Nat.dvd_add_left (Nat.dvd_mul_left P i)).mp h1
    have := Nat.le_of_dvd hfd0 hdvd
    omega
  · intro hden
    cases Decidable.em ('.' ∈ formatFloat y) with
    | inl h => exact h
    | inr h =>
      obtain ⟨l, -, hp, -, ⟨n, rfl, hn⟩ | ⟨s, rfl, -, -, -⟩⟩ := formatFloat_spelling y hy
      · rw [hn] at hden
        exact absurd (Rat.den_natCast n) hden
      · exact absurd (by rw [hp]; simp [NumLit.print]) h

/-- the kind that is read back, by value: `int` exactly when the shown decimal is a whole number -/
theorem decimalNum_kind (y : Rat) (hy : 0 ≤ y) :
    (decimalNum y).kind = (if (roundedDecimal y).den = 1 then .int else .flt) := by
  by_cases hd : '.' ∈ formatFloat y
  · have := (point_shown_iff y hy).mp hd
    simp [decimalNum, hd, this]
  · have : ¬ (roundedDecimal y).den ≠ 1 := fun h => hd ((point_shown_iff y hy).mpr h)
    have : (roundedDecimal y).den = 1 := by omega
    simp [decimalNum, hd, this]

end RG
