import RecipeGrid.Lemmas.ReTerm
import RecipeGrid.Gen.Regexes
/-! Where the scanners of `Model/Parser.lean` end, as functions of the start position (`Ends`), one combinator lemma per
    construct of the parser monad; and the closed forms of the simple scanners. -/
namespace RG
namespace Rx
open Parser Peg

/-- first answer -/
def orE {α} (a b : Option α) : Option α :=
  match a with
  | some r => some r
  | none => b

@[simp] theorem orE_some {α} (r : α) (b : Option α) : orE (some r) b = some r := rfl
@[simp] theorem orE_none {α} (b : Option α) : orE none b = b := rfl

theorem run_alt {α} (t : Array Char) (base : Nat) (a b : Rx) (i : Nat) (k : K α) :
    run t base (alt a b) i k = orE (run t base a i k) (run t base b i k) := by
  rw [run]; cases run t base a i k <;> rfl

theorem run_opt {α} (t : Array Char) (base : Nat) (a : Rx) (i : Nat) (k : K α) :
    run t base (opt a) i k = orE (run t base a i k) (k i) := by
  rw [run]; cases run t base a i k <;> rfl

theorem run_grp {α} (t : Array Char) (base : Nat) (n : Nat) (a : Rx) (i : Nat) (k : K α) :
    run t base (grp n a) i k = run t base a i k := by rw [run]

theorem run_bound {α} (t : Array Char) (base : Nat) (i : Nat) (k : K α) :
    run t base bound i k = if boundaryAt t base i then k i else none := by rw [run]

theorem run_chr {α} (t : Array Char) (base : Nat) (c : Char) (i : Nat) (k : K α) :
    run t base (chr c) i k = step t (· == c) i k := by rw [run]

theorem run_ichr {α} (t : Array Char) (base : Nat) (c : Char) (i : Nat) (k : K α) :
    run t base (ichr c) i k = step t (ciMatches · c) i k := by rw [run]

theorem run_any {α} (t : Array Char) (base : Nat) (i : Nat) (k : K α) :
    run t base any i k = step t (fun _ => true) i k := by rw [run]

theorem run_cls {α} (t : Array Char) (base : Nat) (neg : Bool) (items : List ClsItem) (i : Nat) (k : K α) :
    run t base (cls neg items) i k = step t (clsTest neg items) i k := by rw [run]

theorem run_seq {α} (t : Array Char) (base : Nat) (a b : Rx) (i : Nat) (k : K α) :
    run t base (seq a b) i k = run t base a i (fun j => run t base b j k) := by rw [run]

/-! ## where a parser ends -/

/-- from every position `i` and with either flag, `scan` fails iff `f i = none`, and otherwise ends at `f i` and hands the flag on -/
def Ends {α} (scan : P α) (t : Array Char) (f : Nat → Option Nat) : Prop :=
  ∀ i z, (scan t ⟨i, z⟩).map (fun r => r.2) = (f i).map fun j => (⟨j, z⟩ : PState)

section
variable {t : Array Char}

theorem Ends.unit {scan : P Unit} {f : Nat → Option Nat} (h : Ends scan t f) (i : Nat) (z : Bool) :
    scan t ⟨i, z⟩ = (f i).map fun j => ((), (⟨j, z⟩ : PState)) := by
  have := h i z
  cases hs : scan t ⟨i, z⟩ with
  | none => rw [hs] at this; cases hf : f i with
    | none => rfl
    | some j => rw [hf] at this; cases this
  | some r =>
    rw [hs] at this
    cases hf : f i with
    | none => rw [hf] at this; cases this
    | some j =>
      rw [hf] at this
      simp only [Option.map_some, Option.some.injEq] at this
      obtain ⟨u, s⟩ := r
      simp only at this
      subst this
      rfl

theorem Ends.congr {α} {scan : P α} {f g : Nat → Option Nat} (h : Ends scan t f) (hfg : ∀ i, f i = g i) : Ends scan t g := by
  intro i z; rw [← hfg]; exact h i z

theorem ends_pure {α} (a : α) : Ends (pure a : P α) t some := fun _ _ => rfl

theorem ends_fail {α} : Ends (fail : P α) t (fun _ => none) := fun _ _ => rfl

theorem ends_getPos : Ends getPos t some := fun _ _ => rfl

theorem Ends.bind {α β} {m : P α} {f : α → P β} {fm g : Nat → Option Nat} (hm : Ends m t fm) (hf : ∀ a, Ends (f a) t g) :
    Ends (m >>= f) t (fun i => (fm i).bind g) := by
  intro i z
  have h := hm i z
  simp only [bind_apply]
  cases hs : m t ⟨i, z⟩ with
  | none =>
    rw [hs] at h
    cases hfm : fm i with
    | none => rfl
    | some j => rw [hfm] at h; cases h
  | some r =>
    obtain ⟨a, s⟩ := r
    rw [hs] at h
    cases hfm : fm i with
    | none => rw [hfm] at h; cases h
    | some j =>
      rw [hfm] at h
      simp only [Option.map_some, Option.some.injEq] at h
      subst h
      exact hf a j z

theorem Ends.map {α β} {g : α → β} {p : P α} {f : Nat → Option Nat} (h : Ends p t f) : Ends (g <$> p) t f := by
  have := Ends.bind h (fun a => ends_pure (t := t) (g a))
  refine Ends.congr (scan := g <$> p) ?_ (fun i => by cases f i <;> rfl) (f := fun i => (f i).bind some)
  exact this

theorem Ends.orElse {α} {p q : P α} {f g : Nat → Option Nat} (hp : Ends p t f) (hq : Ends q t g) :
    Ends (p <|> q) t (fun i => orE (f i) (g i)) := by
  intro i z
  have h := hp i z
  simp only [orElse_apply]
  cases hs : p t ⟨i, z⟩ with
  | none =>
    rw [hs] at h
    cases hf : f i with
    | none => exact hq i z
    | some j => rw [hf] at h; cases h
  | some r =>
    rw [hs] at h
    cases hf : f i with
    | none => rw [hf] at h; cases h
    | some j => rw [hf] at h; exact h

theorem Ends.opt {α} {p : P α} {f : Nat → Option Nat} (hp : Ends p t f) :
    Ends (Parser.opt p) t (fun i => orE (f i) (some i)) :=
  Ends.orElse (Ends.map hp) (ends_pure _)

theorem Ends.void {α} {p : P α} {f : Nat → Option Nat} (hp : Ends p t f) : Ends (Peg.void p) t f := by
  refine Ends.congr (Ends.bind hp fun _ => ends_pure ()) (fun i => by cases f i <;> rfl)

theorem ends_sat (p : Char → Bool) : Ends (sat p) t (fun i => step t p i some) := by
  intro i z
  simp only [sat, step]
  cases t[i]? with
  | none => rfl
  | some c => cases p c <;> simp

theorem ends_lit (c : Char) : Ends (lit c) t (fun i => step t (· == c) i some) := by
  refine Ends.congr (Ends.bind (ends_sat _) fun _ => ends_pure ()) (fun i => ?_)
  cases step t (fun x => x == c) i some <;> rfl

theorem ends_skipMany (p : Char → Bool) : Ends (skipMany p) t (fun i => some (spanEnd p t i)) := fun _ _ => rfl

theorem ends_skipMany1 (p : Char → Bool) : Ends (skipMany1 p) t (fun i => step t p i (fun j => some (spanEnd p t j))) := by
  refine Ends.congr (Ends.bind (ends_sat p) fun _ => ends_skipMany p) (fun i => ?_)
  simp only [step]
  cases t[i]? with
  | none => rfl
  | some c => cases hp : p c <;> simp [hp]

theorem Ends.withText {α} {p : P α} {f : Nat → Option Nat} (hp : Ends p t f) : Ends (Parser.withText p) t f := by
  intro i z
  have h := hp i z
  simp only [Parser.withText]
  cases hs : p t ⟨i, z⟩ with
  | none => rw [hs] at h; exact h
  | some r => rw [hs] at h; exact h

theorem Ends.textOf {p : P Unit} {f : Nat → Option Nat} (hp : Ends p t f) : Ends (Parser.textOf p) t f := by
  refine Ends.congr (Ends.bind (Ends.withText hp) fun _ => ends_pure _) (fun i => by cases f i <;> rfl)

theorem ends_wordBoundary : Ends wordBoundary t (fun i => if wordBoundaryAt t i then some i else none) := by
  intro i z
  simp only [wordBoundary]
  cases wordBoundaryAt t i <;> rfl

end
end Rx
end RG
