import RecipeGrid.Props.C01
import RecipeGrid.Props.C03
/-! Helper definitions and lemmas about the inlining pass of `Model/Compiler.lean` (`foldStep`, `foldAll`).
    Nothing here is a specification; the property statements live in `Props/C05.lean` and `Props/C08b.lean`. -/
namespace RG

-- ---------------------------------------------------------------- size
mutual
def Tree.size : Tree → Nat
  | .ingredient .. => 1
  | .step _ i => 1 + Tree.sizeList i
  | .reference s _ _ => 1 + Tree.size s
  | .sub b _ _ => 1 + Tree.size b
def Tree.sizeList : List Tree → Nat
  | [] => 0
  | t :: ts => Tree.size t + Tree.sizeList ts
end

mutual
/-- every reference node met when walking a tree, including inside embedded copies -/
def Tree.refNodes : Tree → List Tree
  | .ingredient .. => []
  | .step _ i => Tree.refNodesList i
  | .reference s n a => .reference s n a :: Tree.refNodes s
  | .sub b _ _ => Tree.refNodes b
def Tree.refNodesList : List Tree → List Tree
  | [] => []
  | t :: ts => Tree.refNodes t ++ Tree.refNodesList ts
end

/-- the output names of a sub recipe -/
def Tree.subNames : Tree → List SVS
  | .sub _ ns _ => ns
  | _ => []

def Tree.isRef : Tree → Bool
  | .reference .. => true
  | _ => false

-- ---------------------------------------------------------------- `beq` keeps size and names
mutual
theorem Tree.beq_size : ∀ a b : Tree, Tree.beq a b = true → a.size = b.size
  | .ingredient .., .ingredient .., _ => rfl
  | .step d i, .step d' i', h => by
    simp only [Tree.beq, Bool.and_eq_true] at h
    simp only [Tree.size, Tree.beqList_size i i' h.2]
  | .reference s n a, .reference s' n' a', h => by
    simp only [Tree.beq, Bool.and_eq_true] at h
    simp only [Tree.size, Tree.beq_size s s' h.1.1]
  | .sub b ns sh, .sub b' ns' sh', h => by
    simp only [Tree.beq, Bool.and_eq_true] at h
    simp only [Tree.size, Tree.beq_size b b' h.1.1]
  | .ingredient .., .step .., h | .ingredient .., .reference .., h | .ingredient .., .sub .., h
  | .step .., .ingredient .., h | .step .., .reference .., h | .step .., .sub .., h
  | .reference .., .ingredient .., h | .reference .., .step .., h | .reference .., .sub .., h
  | .sub .., .ingredient .., h | .sub .., .step .., h | .sub .., .reference .., h => by simp [Tree.beq] at h
theorem Tree.beqList_size : ∀ a b : List Tree, Tree.beqList a b = true → Tree.sizeList a = Tree.sizeList b
  | [], [], _ => rfl
  | [], _ :: _, h | _ :: _, [], h => by simp [Tree.beqList] at h
  | a :: as, b :: bs, h => by
    simp only [Tree.beqList, Bool.and_eq_true] at h
    simp only [Tree.sizeList, Tree.beq_size a b h.1, Tree.beqList_size as bs h.2]
end

theorem Tree.size_pos (t : Tree) : 0 < t.size := by
  cases t <;> simp only [Tree.size] <;> omega

theorem Tree.beq_subNames {a b : Tree} (h : Tree.beq a b = true) : (a.subNames == b.subNames) = true := by
  cases a <;> cases b <;> simp only [Tree.beq, Bool.and_eq_true] at h <;> first | rfl | exact h.1.2 | cases h

theorem Tree.beq_isSub {a b : Tree} (h : Tree.beq a b = true) : a.isSub = b.isSub := by
  cases a <;> cases b <;> simp only [Tree.beq] at h <;> first | rfl | cases h

theorem Tree.beq_sub_ref (b : Tree) (ns : List SVS) (sh : Bool) {r : Tree} (hr : r.isRef = true) :
    Tree.beq (.sub b ns sh) r = false := by
  cases r <;> simp [Tree.isRef] at hr; simp [Tree.beq]

-- ---------------------------------------------------------------- substitution leaves small trees alone
mutual
theorem Tree.subst_small (old new : Tree) : ∀ t : Tree, t.size < old.size → Tree.subst old new t = t
  | .ingredient d q, h => by
    have : Tree.beq (.ingredient d q) old = false := by
      cases hb : Tree.beq (.ingredient d q) old with
      | false => rfl
      | true => have := Tree.beq_size _ _ hb; omega
    simp only [Tree.subst, this]; rfl
  | .step d i, h => by
    have : Tree.beq (.step d i) old = false := by
      cases hb : Tree.beq (.step d i) old with
      | false => rfl
      | true => have := Tree.beq_size _ _ hb; omega
    simp only [Tree.subst, this]
    have hi : Tree.sizeList i < old.size := by simp only [Tree.size] at h; omega
    simp [Tree.substList_small old new i hi]
  | .reference s n a, h => by
    have : Tree.beq (.reference s n a) old = false := by
      cases hb : Tree.beq (.reference s n a) old with
      | false => rfl
      | true => have := Tree.beq_size _ _ hb; omega
    simp only [Tree.subst, this]
    have hi : s.size < old.size := by simp only [Tree.size] at h; omega
    simp [Tree.subst_small old new s hi]
  | .sub b ns sh, h => by
    have : Tree.beq (.sub b ns sh) old = false := by
      cases hb : Tree.beq (.sub b ns sh) old with
      | false => rfl
      | true => have := Tree.beq_size _ _ hb; omega
    simp only [Tree.subst, this]
    have hi : b.size < old.size := by simp only [Tree.size] at h; omega
    simp [Tree.subst_small old new b hi]
theorem Tree.substList_small (old new : Tree) : ∀ ts : List Tree, Tree.sizeList ts < old.size →
    Tree.substList old new ts = ts
  | [], _ => rfl
  | t :: ts, h => by
    simp only [Tree.sizeList] at h
    have := Tree.size_pos t
    simp only [Tree.substList, Tree.subst_small old new t (by omega), Tree.substList_small old new ts (by omega)]
end

theorem Tree.substList_eq_map (old new : Tree) : ∀ ts : List Tree, Tree.substList old new ts = ts.map (Tree.subst old new)
  | [] => rfl
  | t :: ts => by simp [Tree.substList, Tree.substList_eq_map old new ts]

/-- substituting a reference never removes a sub recipe wrapper -/
theorem Tree.subst_sub (old new b : Tree) (ns : List SVS) (sh : Bool) (hr : old.isRef = true) :
    Tree.subst old new (.sub b ns sh) = .sub (Tree.subst old new b) ns sh := by
  simp [Tree.subst, Tree.beq_sub_ref b ns sh hr]

theorem Tree.isSub_subst (old new t : Tree) (hr : old.isRef = true) (h : t.isSub = true) :
    (Tree.subst old new t).isSub = true := by
  cases t <;> simp [Tree.isSub] at h
  rw [Tree.subst_sub _ _ _ _ _ hr]; rfl

theorem Tree.subNames_subst (old new t : Tree) (hr : old.isRef = true) (h : t.isSub = true) :
    (Tree.subst old new t).subNames = t.subNames := by
  cases t <;> simp [Tree.isSub] at h
  rw [Tree.subst_sub _ _ _ _ _ hr]; rfl

theorem Tree.numOutputs_eq (t : Tree) : t.numOutputs = t.subNames.length := by
  cases t <;> rfl

-- ---------------------------------------------------------------- reference nodes
mutual
theorem Tree.refNodes_isRef : ∀ (t n : Tree), n ∈ t.refNodes → ∃ s i a, n = .reference s i a
  | .ingredient .., n, h => by simp [Tree.refNodes] at h
  | .step d i, n, h => by simp only [Tree.refNodes] at h; exact Tree.refNodesList_isRef i n h
  | .reference s i a, n, h => by
    simp only [Tree.refNodes, List.mem_cons] at h
    rcases h with rfl | h
    · exact ⟨s, i, a, rfl⟩
    · exact Tree.refNodes_isRef s n h
  | .sub b ns sh, n, h => by simp only [Tree.refNodes] at h; exact Tree.refNodes_isRef b n h
theorem Tree.refNodesList_isRef : ∀ (ts : List Tree) (n : Tree), n ∈ Tree.refNodesList ts → ∃ s i a, n = .reference s i a
  | [], n, h => by simp [Tree.refNodesList] at h
  | t :: ts, n, h => by
    simp only [Tree.refNodesList, List.mem_append] at h
    rcases h with h | h
    · exact Tree.refNodes_isRef t n h
    · exact Tree.refNodesList_isRef ts n h
end

mutual
theorem Tree.refNodes_size : ∀ (t n : Tree), n ∈ t.refNodes → n.size ≤ t.size
  | .ingredient .., n, h => by simp [Tree.refNodes] at h
  | .step d i, n, h => by
    simp only [Tree.refNodes] at h
    have := Tree.refNodesList_size i n h
    simp only [Tree.size]; omega
  | .reference s i a, n, h => by
    simp only [Tree.refNodes, List.mem_cons] at h
    rcases h with rfl | h
    · exact Nat.le_refl _
    · have := Tree.refNodes_size s n h
      simp only [Tree.size]; omega
  | .sub b ns sh, n, h => by
    simp only [Tree.refNodes] at h
    have := Tree.refNodes_size b n h
    simp only [Tree.size]; omega
theorem Tree.refNodesList_size : ∀ (ts : List Tree) (n : Tree), n ∈ Tree.refNodesList ts → n.size ≤ Tree.sizeList ts
  | [], n, h => by simp [Tree.refNodesList] at h
  | t :: ts, n, h => by
    simp only [Tree.refNodesList, List.mem_append] at h
    simp only [Tree.sizeList]
    rcases h with h | h
    · have := Tree.refNodes_size t n h; omega
    · have := Tree.refNodesList_size ts n h; omega
end

/-- the reference nodes of a substituted tree: images of the old ones, or nodes of the inserted tree (and then the
    replaced node did occur) -/
def SubstNode (old new t n' : Tree) : Prop :=
  (∃ s i a, Tree.reference s i a ∈ t.refNodes ∧ Tree.beq (.reference s i a) old = false ∧
      n' = .reference (Tree.subst old new s) i a) ∨
  (n' ∈ new.refNodes ∧ ∃ m ∈ t.refNodes, Tree.beq m old = true)

mutual
theorem Tree.refNodes_subst (old new : Tree) (hr : old.isRef = true) : ∀ (t n' : Tree),
    n' ∈ (Tree.subst old new t).refNodes → SubstNode old new t n'
  | .ingredient d q, n', h => by
    have : Tree.beq (.ingredient d q) old = false := by cases old <;> simp [Tree.isRef] at hr; simp [Tree.beq]
    simp [Tree.subst, this, Tree.refNodes] at h
  | .step d i, n', h => by
    have : Tree.beq (.step d i) old = false := by cases old <;> simp [Tree.isRef] at hr; simp [Tree.beq]
    simp only [Tree.subst, this, Bool.false_eq_true, if_false, Tree.refNodes] at h
    rcases Tree.refNodesList_subst old new hr i n' h with ⟨s, j, a, h1, h2, h3⟩ | ⟨h1, m, h2, h3⟩
    · exact Or.inl ⟨s, j, a, by simpa [Tree.refNodes] using h1, h2, h3⟩
    · exact Or.inr ⟨h1, m, by simpa [Tree.refNodes] using h2, h3⟩
  | .reference s j a, n', h => by
    simp only [Tree.subst] at h
    cases hb : Tree.beq (.reference s j a) old with
    | true =>
      simp only [hb, if_true] at h
      exact Or.inr ⟨h, _, by simp [Tree.refNodes], hb⟩
    | false =>
      simp only [hb, Bool.false_eq_true, if_false, Tree.refNodes, List.mem_cons] at h
      rcases h with rfl | h
      · exact Or.inl ⟨s, j, a, by simp [Tree.refNodes], hb, rfl⟩
      · rcases Tree.refNodes_subst old new hr s n' h with ⟨s', j', a', h1, h2, h3⟩ | ⟨h1, m, h2, h3⟩
        · exact Or.inl ⟨s', j', a', by simp [Tree.refNodes, h1], h2, h3⟩
        · exact Or.inr ⟨h1, m, by simp [Tree.refNodes, h2], h3⟩
  | .sub b ns sh, n', h => by
    rw [Tree.subst_sub _ _ _ _ _ hr] at h
    simp only [Tree.refNodes] at h
    rcases Tree.refNodes_subst old new hr b n' h with ⟨s', j', a', h1, h2, h3⟩ | ⟨h1, m, h2, h3⟩
    · exact Or.inl ⟨s', j', a', by simpa [Tree.refNodes] using h1, h2, h3⟩
    · exact Or.inr ⟨h1, m, by simpa [Tree.refNodes] using h2, h3⟩
theorem Tree.refNodesList_subst (old new : Tree) (hr : old.isRef = true) : ∀ (ts : List Tree) (n' : Tree),
    n' ∈ Tree.refNodesList (Tree.substList old new ts) →
    (∃ s i a, Tree.reference s i a ∈ Tree.refNodesList ts ∧ Tree.beq (.reference s i a) old = false ∧
      n' = .reference (Tree.subst old new s) i a) ∨
    (n' ∈ new.refNodes ∧ ∃ m ∈ Tree.refNodesList ts, Tree.beq m old = true)
  | [], n', h => by simp [Tree.substList, Tree.refNodesList] at h
  | t :: ts, n', h => by
    simp only [Tree.substList, Tree.refNodesList, List.mem_append] at h
    rcases h with h | h
    · rcases Tree.refNodes_subst old new hr t n' h with ⟨s', j', a', h1, h2, h3⟩ | ⟨h1, m, h2, h3⟩
      · exact Or.inl ⟨s', j', a', by simp [Tree.refNodesList, h1], h2, h3⟩
      · exact Or.inr ⟨h1, m, by simp [Tree.refNodesList, h2], h3⟩
    · rcases Tree.refNodesList_subst old new hr ts n' h with ⟨s', j', a', h1, h2, h3⟩ | ⟨h1, m, h2, h3⟩
      · exact Or.inl ⟨s', j', a', by simp [Tree.refNodesList, h1], h2, h3⟩
      · exact Or.inr ⟨h1, m, by simp [Tree.refNodesList, h2], h3⟩
end

mutual
theorem Tree.refTargets_refNodes : ∀ (t s : Tree), s ∈ t.refTargets → ∃ i a, Tree.reference s i a ∈ t.refNodes
  | .ingredient .., s, h => by simp [Tree.refTargets] at h
  | .step d i, s, h => by
    simp only [Tree.refTargets] at h
    simpa [Tree.refNodes] using Tree.refTargetsList_refNodes i s h
  | .reference s' i a, s, h => by
    simp only [Tree.refTargets, List.mem_cons] at h
    rcases h with rfl | h
    · exact ⟨i, a, by simp [Tree.refNodes]⟩
    · obtain ⟨i', a', h'⟩ := Tree.refTargets_refNodes s' s h
      exact ⟨i', a', by simp [Tree.refNodes, h']⟩
  | .sub b ns sh, s, h => by
    simp only [Tree.refTargets] at h
    simpa [Tree.refNodes] using Tree.refTargets_refNodes b s h
theorem Tree.refTargetsList_refNodes : ∀ (ts : List Tree) (s : Tree), s ∈ Tree.refTargetsList ts →
    ∃ i a, Tree.reference s i a ∈ Tree.refNodesList ts
  | [], s, h => by simp [Tree.refTargetsList] at h
  | t :: ts, s, h => by
    simp only [Tree.refTargetsList, List.mem_append] at h
    rcases h with h | h
    · obtain ⟨i, a, h'⟩ := Tree.refTargets_refNodes t s h
      exact ⟨i, a, by simp [Tree.refNodesList, h']⟩
    · obtain ⟨i, a, h'⟩ := Tree.refTargetsList_refNodes ts s h
      exact ⟨i, a, by simp [Tree.refNodesList, h']⟩
end

-- ---------------------------------------------------------------- the validity check on the flattened blocks
theorem checkBlock_mono : ∀ (b : Block) (prev prev' : List Tree), (∀ x ∈ prev, x ∈ prev') →
    checkBlock prev b = true → checkBlock prev' b = true
  | [], _, _, _, _ => rfl
  | t :: ts, prev, prev', hsub, h => by
    simp only [checkBlock, Bool.and_eq_true, List.all_eq_true, List.any_eq_true] at h ⊢
    refine ⟨fun s hs => ?_, ?_⟩
    · obtain ⟨r, hr, hb⟩ := h.1 s hs
      exact ⟨r, hsub r hr, hb⟩
    · refine checkBlock_mono ts _ _ ?_ h.2
      intro x hx
      cases ht : t.isSub with
      | false => simp only [ht, Bool.false_eq_true, if_false] at hx ⊢; exact hsub x hx
      | true =>
        simp only [ht, if_true, List.mem_cons] at hx ⊢
        exact hx.imp id (hsub x)

theorem checkBlock_append : ∀ (b c : Block) (prev : List Tree),
    checkBlock prev (b ++ c) = (checkBlock prev b && checkBlock ((b.filter Tree.isSub).reverse ++ prev) c)
  | [], c, prev => by simp [checkBlock]
  | t :: b, c, prev => by
    simp only [List.cons_append, checkBlock, checkBlock_append b c, Bool.and_assoc]
    congr 2
    cases ht : t.isSub <;> simp [ht]

theorem checkBlocks_of_flatten : ∀ (bs : List Block) (prev : List Tree),
    checkBlock prev bs.flatten = true → checkBlocks prev bs = true
  | [], _, _ => rfl
  | b :: bs, prev, h => by
    rw [List.flatten_cons, checkBlock_append, Bool.and_eq_true] at h
    simp only [checkBlocks, Bool.and_eq_true]
    refine ⟨h.1, checkBlocks_of_flatten bs _ (checkBlock_mono _ _ _ ?_ h.2)⟩
    intro x hx
    simp only [List.mem_append, List.mem_reverse] at hx ⊢
    exact hx.symm

/-- `Scoped flat`: every embedded copy IS (structurally) a sub recipe root at an earlier position -/
def Scoped (flat : List Tree) : Prop :=
  ∀ (p : Nat) (T : Tree), flat[p]? = some T → ∀ s i a, Tree.reference s i a ∈ T.refNodes →
    ∃ k, k < p ∧ flat[k]? = some s ∧ s.isSub = true

theorem checkBlocks_of_scoped (bs : List Block) (h : Scoped bs.flatten) : checkBlocks [] bs = true := by
  apply checkBlocks_of_flatten
  rw [checkBlock_iff]
  intro ti t hti s hs
  obtain ⟨i, a, hn⟩ := Tree.refTargets_refNodes t s hs
  obtain ⟨k, hk, hr, hsub⟩ := h ti t hti s i a hn
  exact Or.inr ⟨k, s, hk, hr, hsub, Tree.beq_refl s⟩

-- ---------------------------------------------------------------- sub recipe nodes outside embedded copies
mutual
/-- the sub recipe nodes of a tree outside embedded copies (the tree itself included) -/
def Tree.innerSubs : Tree → List Tree
  | .ingredient .. => []
  | .step _ i => Tree.innerSubsList i
  | .reference .. => []
  | .sub b ns sh => .sub b ns sh :: Tree.innerSubs b
def Tree.innerSubsList : List Tree → List Tree
  | [] => []
  | t :: ts => Tree.innerSubs t ++ Tree.innerSubsList ts
end

/-- the body of a sub recipe, any other tree itself -/
def Tree.bodyOrSelf : Tree → Tree
  | .sub b _ _ => b
  | t => t

theorem Tree.innerSubs_bodyOrSelf (t x : Tree) (h : x ∈ t.bodyOrSelf.innerSubs) : x ∈ t.innerSubs := by
  cases t <;> simp only [Tree.bodyOrSelf] at h <;> try exact h
  simp [Tree.innerSubs, h]

mutual
theorem Tree.innerSubs_subst (old new : Tree) (hr : old.isRef = true) : ∀ (t x' : Tree),
    x' ∈ (Tree.subst old new t).innerSubs → (∃ x ∈ t.innerSubs, x'.subNames = x.subNames) ∨ x' ∈ new.innerSubs
  | .ingredient d q, x', h => by
    have : Tree.beq (.ingredient d q) old = false := by cases old <;> simp [Tree.isRef] at hr; simp [Tree.beq]
    simp [Tree.subst, this, Tree.innerSubs] at h
  | .step d i, x', h => by
    have : Tree.beq (.step d i) old = false := by cases old <;> simp [Tree.isRef] at hr; simp [Tree.beq]
    simp only [Tree.subst, this, Bool.false_eq_true, if_false, Tree.innerSubs] at h
    simpa [Tree.innerSubs] using Tree.innerSubsList_subst old new hr i x' h
  | .reference s j a, x', h => by
    simp only [Tree.subst] at h
    cases hb : Tree.beq (.reference s j a) old with
    | true => simp only [hb, if_true] at h; exact Or.inr h
    | false => simp [hb, Tree.innerSubs] at h
  | .sub b ns sh, x', h => by
    rw [Tree.subst_sub _ _ _ _ _ hr] at h
    simp only [Tree.innerSubs, List.mem_cons] at h
    rcases h with rfl | h
    · exact Or.inl ⟨.sub b ns sh, by simp [Tree.innerSubs], rfl⟩
    · rcases Tree.innerSubs_subst old new hr b x' h with ⟨x, hx, he⟩ | h
      · exact Or.inl ⟨x, by simp [Tree.innerSubs, hx], he⟩
      · exact Or.inr h
theorem Tree.innerSubsList_subst (old new : Tree) (hr : old.isRef = true) : ∀ (ts : List Tree) (x' : Tree),
    x' ∈ Tree.innerSubsList (Tree.substList old new ts) →
    (∃ x ∈ Tree.innerSubsList ts, x'.subNames = x.subNames) ∨ x' ∈ new.innerSubs
  | [], x', h => by simp [Tree.substList, Tree.innerSubsList] at h
  | t :: ts, x', h => by
    simp only [Tree.substList, Tree.innerSubsList, List.mem_append] at h
    rcases h with h | h
    · rcases Tree.innerSubs_subst old new hr t x' h with ⟨x, hx, he⟩ | h
      · exact Or.inl ⟨x, by simp [Tree.innerSubsList, hx], he⟩
      · exact Or.inr h
    · rcases Tree.innerSubsList_subst old new hr ts x' h with ⟨x, hx, he⟩ | h
      · exact Or.inl ⟨x, by simp [Tree.innerSubsList, hx], he⟩
      · exact Or.inr h
end

theorem Tree.isSub_mem_innerSubs (t : Tree) (h : t.isSub = true) : t ∈ t.innerSubs := by
  cases t <;> simp [Tree.isSub] at h
  simp [Tree.innerSubs]

-- ---------------------------------------------------------------- list plumbing
theorem removeFirst_split (x : Tree) : ∀ (ts ts' : List Tree), removeFirst x ts = some ts' →
    ∃ t1 a t2, ts = t1 ++ a :: t2 ∧ ts' = t1 ++ t2 ∧ Tree.beq a x = true
  | [], _, h => by simp [removeFirst] at h
  | t :: ts, ts', h => by
    simp only [removeFirst] at h
    split at h
    · rename_i hb
      cases h
      exact ⟨[], t, ts, rfl, rfl, hb⟩
    · cases hr : removeFirst x ts with
      | none => simp [hr] at h
      | some r =>
        simp only [hr, Option.map_some, Option.some.injEq] at h
        subst h
        obtain ⟨t1, a, t2, e1, e2, hb⟩ := removeFirst_split x ts r hr
        exact ⟨t :: t1, a, t2, by simp [e1], by simp [e2], hb⟩

theorem removeFirst_isSome (x : Tree) : ∀ (ts : List Tree), (∃ y ∈ ts, Tree.beq y x = true) →
    ∃ ts', removeFirst x ts = some ts'
  | [], h => by simp at h
  | t :: ts, h => by
    simp only [removeFirst]
    split
    · exact ⟨ts, rfl⟩
    · rename_i hb
      obtain ⟨y, hy, hyb⟩ := h
      simp only [List.mem_cons] at hy
      rcases hy with rfl | hy
      · exact absurd hyb hb
      · obtain ⟨r, hr⟩ := removeFirst_isSome x ts ⟨y, hy, hyb⟩
        exact ⟨t :: r, by simp [hr]⟩

theorem getElem?_erase_mid {α : Type} (l1 l2 : List α) (a : α) (p' : Nat) (T : α)
    (h : (l1 ++ l2)[p']? = some T) :
    (l1 ++ a :: l2)[if p' < l1.length then p' else p' + 1]? = some T := by
  by_cases hp : p' < l1.length
  · simp only [hp, if_true]
    rw [List.getElem?_append_left hp] at h ⊢
    exact h
  · simp only [hp, if_false]
    rw [List.getElem?_append_right (by omega)] at h
    rw [List.getElem?_append_right (by omega)]
    have : p' + 1 - l1.length = (p' - l1.length) + 1 := by omega
    rw [this, List.getElem?_cons_succ]
    exact h

theorem getElem?_erase_mid' {α : Type} (l1 l2 : List α) (a : α) (k : Nat) (r : α)
    (h : (l1 ++ a :: l2)[k]? = some r) (hk : k ≠ l1.length) :
    (l1 ++ l2)[if k < l1.length then k else k - 1]? = some r := by
  by_cases hp : k < l1.length
  · simp only [hp, if_true]
    rw [List.getElem?_append_left hp] at h ⊢
    exact h
  · simp only [hp, if_false]
    rw [List.getElem?_append_right (by omega)] at h
    rw [List.getElem?_append_right (by omega)]
    have : k - l1.length = (k - 1 - l1.length) + 1 := by omega
    rw [this, List.getElem?_cons_succ] at h
    exact h

theorem getElem?_split {α : Type} (l : List α) (d : Nat) (x : α) (h : l[d]? = some x) :
    l = l.take d ++ x :: l.drop (d + 1) ∧ (l.take d).length = d := by
  obtain ⟨hlt, he⟩ := List.getElem?_eq_some_iff.mp h
  refine ⟨?_, by simp; omega⟩
  rw [← he]
  exact (List.take_append_drop d l).symm.trans (by rw [List.drop_eq_getElem_cons hlt])

-- ---------------------------------------------------------------- the invariant of the inlining loop
/-- the state of the inlining loop before visiting table entry `i` -/
structure FoldInv (i : Nat) (blocks : List Block) (outs : List NamedOutput) : Prop where
  /-- every entry holds a sub recipe -/
  shape : ∀ o ∈ outs, o.sub.isSub = true
  /-- a single-output entry shares its names with no other entry -/
  distinct : ∀ (j k : Nat) (oj ok : NamedOutput), outs[j]? = some oj → outs[k]? = some ok → j ≠ k → oj.sub.numOutputs = 1 →
    (oj.sub.subNames == ok.sub.subNames) = false ∧ (ok.sub.subNames == oj.sub.subNames) = false
  /-- a recorded reference embeds the entry's current sub recipe -/
  refsShape : ∀ o ∈ outs, ∀ p ∈ o.refs, ∃ a, p.1 = Tree.reference o.sub o.idx a
  /-- every reference node of the recipe (at any depth) is a recorded reference -/
  nodes : ∀ T ∈ blocks.flatten, ∀ n ∈ T.refNodes, ∃ o ∈ outs, ∃ p ∈ o.refs, p.1 = n
  /-- every embedded copy is an earlier root -/
  wf : Scoped blocks.flatten
  /-- the names of a not yet visited entry are the names of at most one root -/
  uniq : ∀ (k : Nat) (o : NamedOutput), i ≤ k → outs[k]? = some o → ∀ (p q : Nat) (r r' : Tree), blocks.flatten[p]? = some r → blocks.flatten[q]? = some r' →
    r.isSub = true → r'.isSub = true → (r.subNames == o.sub.subNames) = true → (r'.subNames == o.sub.subNames) = true →
    p = q
  /-- … and of no sub recipe below a root (outside copies) -/
  inner : ∀ (k : Nat) (o : NamedOutput), i ≤ k → outs[k]? = some o → ∀ T ∈ blocks.flatten, ∀ x ∈ T.bodyOrSelf.innerSubs,
    (x.subNames == o.sub.subNames) = false
  /-- the sub recipe of a not yet visited entry is a root of its block -/
  rooted : ∀ (k : Nat) (o : NamedOutput), i ≤ k → outs[k]? = some o → ∃ trees, blocks[o.defBlock]? = some trees ∧ o.sub ∈ trees

theorem FoldInv.next {i blocks outs} (h : FoldInv i blocks outs) : FoldInv (i + 1) blocks outs :=
  { h with
    uniq := fun k o hk => h.uniq k o (by omega)
    inner := fun k o hk => h.inner k o (by omega)
    rooted := fun k o hk => h.rooted k o (by omega) }

theorem canBeInlined_facts (o : NamedOutput) (h : o.canBeInlined = true) :
    o.sub.numOutputs = 1 ∧ ∃ s i a rb, o.refs = [(Tree.reference s i a, rb)] := by
  unfold NamedOutput.canBeInlined at h
  simp only [Bool.and_eq_true, beq_iff_eq] at h
  refine ⟨h.1, ?_⟩
  have h2 := h.2
  split at h2
  · rename_i s i a rb heq
    exact ⟨_, _, _, _, heq⟩
  · cases h2

theorem foldStep_skip (i : Nat) (blocks : List Block) (outs : List NamedOutput)
    (h : ∀ o, outs[i]? = some o → o.canBeInlined = false) : foldStep i blocks outs = .ok (blocks, outs) := by
  unfold foldStep
  cases ho : outs[i]? with
  | none => rfl
  | some o => simp [h o ho]

/-- what one successful iteration does -/
theorem foldStep_fold (i : Nat) (blocks : List Block) (outs : List NamedOutput) (o : NamedOutput) (body : Tree)
    (ns : List SVS) (sh : Bool) (ref : Tree) (rb : Nat) (rest : List (Tree × Nat)) (trees trees' : List Tree)
    (ho : outs[i]? = some o) (hc : o.canBeInlined = true) (hs : o.sub = .sub body ns sh) (hr : o.refs = (ref, rb) :: rest)
    (hb : blocks[o.defBlock]? = some trees) (hrm : removeFirst o.sub trees = some trees') :
    foldStep i blocks outs =
      .ok ((blocks.set o.defBlock trees').map (Tree.substList ref (if o.unwrap then body else o.sub)),
           outs.map (NamedOutput.substitute ref (if o.unwrap then body else o.sub))) := by
  unfold foldStep
  simp only [ho, hc, Bool.not_true, Bool.false_eq_true, if_false]
  rw [hs] at hrm ⊢
  simp only [hr, hb, hrm]

theorem Tree.bodyOrSelf_of_not_sub (t : Tree) (h : t.isSub = false) : t.bodyOrSelf = t := by
  cases t <;> simp [Tree.isSub] at h <;> rfl

theorem Tree.beq_ref_target {s s' : Tree} {i i' : Nat} {a a' : Amount}
    (h : Tree.beq (.reference s i a) (.reference s' i' a') = true) : Tree.beq s s' = true := by
  simp only [Tree.beq, Bool.and_eq_true] at h
  exact h.1.1

/-- removing one root from block `d` removes it from the flattened list -/
theorem set_flatten_erase (blocks : List Block) (d : Nat) (t1 t2 : List Tree) (a : Tree)
    (hb : blocks[d]? = some (t1 ++ a :: t2)) :
    ∃ l1 l2, blocks.flatten = l1 ++ a :: l2 ∧ (blocks.set d (t1 ++ t2)).flatten = l1 ++ l2 := by
  obtain ⟨he, hl⟩ := getElem?_split blocks d _ hb
  refine ⟨(blocks.take d).flatten ++ t1, t2 ++ (blocks.drop (d + 1)).flatten, ?_, ?_⟩
  · conv => lhs; rw [he]
    simp [List.flatten_append]
  · conv => lhs; rw [he]
    rw [List.set_append_right _ _ (by omega)]
    simp [hl, List.flatten_append]

-- ---------------------------------------------------------------- one iteration
/-- the data of one successful inlining: the entry, its sub recipe `.sub body ns sh`, the amount of its only
    reference, and where the definition stands (in its block and in the flattened recipe) -/
structure FoldData where
  o : NamedOutput
  body : Tree
  ns : List SVS
  sh : Bool
  am : Amount
  rb : Nat
  t1 : List Tree
  t2 : List Tree
  l1 : List Tree
  l2 : List Tree

/-- the replaced reference -/
def FoldData.ref (d : FoldData) : Tree := .reference d.o.sub d.o.idx d.am
/-- what it is replaced by -/
def FoldData.new (d : FoldData) : Tree := if d.o.unwrap then d.body else d.o.sub
def FoldData.blocks' (d : FoldData) (blocks : List Block) : List Block :=
  (blocks.set d.o.defBlock (d.t1 ++ d.t2)).map (Tree.substList d.ref d.new)
def FoldData.outs' (d : FoldData) (outs : List NamedOutput) : List NamedOutput :=
  outs.map (NamedOutput.substitute d.ref d.new)

structure FoldData.Ok (d : FoldData) (i : Nat) (blocks : List Block) (outs : List NamedOutput) : Prop where
  ho : outs[i]? = some d.o
  hc : d.o.canBeInlined = true
  hnum : d.o.sub.numOutputs = 1
  hs : d.o.sub = .sub d.body d.ns d.sh
  hrefs : d.o.refs = [(d.ref, d.rb)]
  hb : blocks[d.o.defBlock]? = some (d.t1 ++ d.o.sub :: d.t2)
  hflat : blocks.flatten = d.l1 ++ d.o.sub :: d.l2
  hflat' : (blocks.set d.o.defBlock (d.t1 ++ d.t2)).flatten = d.l1 ++ d.l2
  hstep : foldStep i blocks outs = .ok (d.blocks' blocks, d.outs' outs)

/-- an iteration either changes nothing or inlines one definition -/
theorem foldStep_shape {i : Nat} {blocks : List Block} {outs : List NamedOutput} (h : FoldInv i blocks outs) :
    foldStep i blocks outs = .ok (blocks, outs) ∨ ∃ d : FoldData, d.Ok i blocks outs := by
  by_cases hskip : ∀ o, outs[i]? = some o → o.canBeInlined = false
  · exact Or.inl (foldStep_skip i blocks outs hskip)
  · have : ∃ o, outs[i]? = some o ∧ o.canBeInlined = true := by
      apply Classical.byContradiction
      intro hne
      apply hskip
      intro o ho
      cases hc : o.canBeInlined with
      | false => rfl
      | true => exact absurd ⟨o, ho, hc⟩ hne
    obtain ⟨o, ho, hc⟩ := this
    have hom : o ∈ outs := List.mem_of_getElem? ho
    obtain ⟨hnum, s0, i0, am, rb, hrefs⟩ := canBeInlined_facts o hc
    -- the sub recipe and the reference
    have hshape := h.shape o hom
    obtain ⟨body, ns, sh, hs⟩ : ∃ body ns sh, o.sub = Tree.sub body ns sh := by
      cases hsub : o.sub with
      | sub b n s => exact ⟨b, n, s, rfl⟩
      | _ => rw [hsub] at hshape; simp [Tree.isSub] at hshape
    obtain ⟨am', hrefEq⟩ := h.refsShape o hom (Tree.reference s0 i0 am, rb) (by rw [hrefs]; simp)
    simp only at hrefEq
    -- the block
    obtain ⟨trees, hb, hmem⟩ := h.rooted i o (Nat.le_refl _) ho
    obtain ⟨trees', hrm⟩ := removeFirst_isSome o.sub trees ⟨o.sub, hmem, Tree.beq_refl _⟩
    obtain ⟨t1, a, t2, htrees, htrees', hab⟩ := removeFirst_split o.sub trees trees' hrm
    subst htrees htrees'
    obtain ⟨l1, l2, hflat, hflat'⟩ := set_flatten_erase blocks o.defBlock t1 t2 a hb
    -- the removed root is the recorded sub recipe
    have haq : blocks.flatten[l1.length]? = some a := by rw [hflat]; simp
    have ha : a = o.sub := by
      have : o.sub ∈ blocks.flatten := List.mem_flatten.mpr ⟨_, List.mem_of_getElem? hb, hmem⟩
      obtain ⟨q2, hq2⟩ := List.mem_iff_getElem?.mp this
      have := h.uniq i o (Nat.le_refl _) ho l1.length q2 a o.sub haq hq2 (by rw [Tree.beq_isSub hab]; exact hshape)
        hshape (Tree.beq_subNames hab) (by simp)
      rw [← this, haq] at hq2
      exact Option.some.inj hq2
    subst ha
    clear hab
    have hrefs' : o.refs = [(Tree.reference o.sub o.idx am', rb)] := by rw [hrefs, hrefEq]
    right
    refine ⟨⟨o, body, ns, sh, am', rb, t1, t2, l1, l2⟩, ⟨ho, hc, hnum, hs, hrefs', hb, hflat, hflat', ?_⟩⟩
    exact foldStep_fold i blocks outs o body ns sh _ rb [] _ _ ho hc hs hrefs' hb hrm

theorem FoldData.Ok.inv {d : FoldData} {i : Nat} {blocks : List Block} {outs : List NamedOutput}
    (hd : d.Ok i blocks outs) (h : FoldInv i blocks outs) : FoldInv (i + 1) (d.blocks' blocks) (d.outs' outs) := by
    obtain ⟨o, body, ns, sh, am', rb, t1, t2, l1, l2⟩ := d
    obtain ⟨ho, hc, hnum, hs, hrefs', hb, hflat, hflat', _⟩ := hd
    simp only [FoldData.ref, FoldData.new, FoldData.blocks', FoldData.outs'] at *
    have hom : o ∈ outs := List.mem_of_getElem? ho
    have hshape := h.shape o hom
    have hq : blocks.flatten[l1.length]? = some o.sub := by rw [hflat]; simp
    generalize hrefdef : Tree.reference o.sub o.idx am' = ref at hrefs'
    generalize hnewdef : (if o.unwrap then body else o.sub) = new
    have hrefR : ref.isRef = true := by rw [← hrefdef]; rfl
    have hsz : o.sub.size < ref.size := by rw [← hrefdef]; simp only [Tree.size]; omega
    have hnewsz : new.size ≤ o.sub.size := by
      rw [← hnewdef]; split
      · rw [hs]; simp only [Tree.size]; omega
      · exact Nat.le_refl _
    have hnewNodes : ∀ n ∈ new.refNodes, n ∈ o.sub.refNodes := by
      rw [← hnewdef]; split
      · rw [hs]; simp only [Tree.refNodes]; exact fun n hn => hn
      · exact fun n hn => hn
    have hnewInner : ∀ x ∈ new.innerSubs, x = o.sub ∨ x ∈ o.sub.bodyOrSelf.innerSubs := by
      rw [← hnewdef]; split
      · rw [hs]; exact fun x hx => Or.inr hx
      · rw [hs]; intro x hx
        simp only [Tree.innerSubs, List.mem_cons] at hx
        exact hx
    have hflatNew : (List.map (Tree.substList ref new) (blocks.set o.defBlock (t1 ++ t2))).flatten =
        (l1 ++ l2).map (Tree.subst ref new) := by
      rw [← hflat', List.map_flatten]
      congr 1
      apply List.map_congr_left
      intro b _
      exact Tree.substList_eq_map ref new b
    -- a recorded reference `==` to the replaced one is the replaced one
    have key : ∀ (k : Nat) (ok : NamedOutput), outs[k]? = some ok → ∀ p ∈ ok.refs,
        (Tree.beq ref p.1 = true ∨ Tree.beq p.1 ref = true) → k = i ∧ p.1 = ref := by
      intro k ok hk p hp hbeq
      obtain ⟨a', hpe⟩ := h.refsShape ok (List.mem_of_getElem? hk) p hp
      by_cases hki : k = i
      · subst hki
        rw [ho] at hk; cases hk
        rw [hrefs'] at hp
        simp only [List.mem_singleton] at hp
        rw [hp]; exact ⟨rfl, rfl⟩
      · exfalso
        have hd := h.distinct i k o ok ho hk (Ne.symm hki) hnum
        rw [hpe, ← hrefdef] at hbeq
        rcases hbeq with hb' | hb'
        · have := Tree.beq_subNames (Tree.beq_ref_target hb')
          rw [hd.1] at this; cases this
        · have := Tree.beq_subNames (Tree.beq_ref_target hb')
          rw [hd.2] at this; cases this
    -- an entry with the same sub recipe is the folded entry
    have sameSub : ∀ (k : Nat) (ok : NamedOutput), outs[k]? = some ok → ok.sub = o.sub → k = i := by
      intro k ok hk he
      apply Classical.byContradiction
      intro hki
      have hd := h.distinct i k o ok ho hk (Ne.symm hki) hnum
      rw [he] at hd
      simp at hd
    have getOut : ∀ (k : Nat) (ok' : NamedOutput), (outs.map (NamedOutput.substitute ref new))[k]? = some ok' →
        ∃ ok, outs[k]? = some ok ∧ ok' = NamedOutput.substitute ref new ok := by
      intro k ok' hk
      rw [List.getElem?_map] at hk
      cases hok : outs[k]? with
      | none => rw [hok] at hk; cases hk
      | some ok => rw [hok] at hk; exact ⟨ok, rfl, by cases hk; rfl⟩
    have subNamesOut : ∀ ok ∈ outs, (NamedOutput.substitute ref new ok).sub.subNames = ok.sub.subNames :=
      fun ok hok => Tree.subNames_subst ref new ok.sub hrefR (h.shape ok hok)
    -- the names of the inserted tree are not names of a later entry
    have hnew : ∀ x ∈ new.innerSubs, ∀ (k : Nat) (ok : NamedOutput), i + 1 ≤ k → outs[k]? = some ok →
        (x.subNames == ok.sub.subNames) = false := by
      intro x hx k ok hk hok
      rcases hnewInner x hx with rfl | hx
      · exact (h.distinct i k o ok ho hok (by omega) hnum).1
      · exact h.inner k ok (by omega) hok o.sub (List.mem_of_getElem? hq) x hx
    refine { shape := ?_, distinct := ?_, refsShape := ?_, nodes := ?_, wf := ?_, uniq := ?_, inner := ?_, rooted := ?_ }
    · -- shape
      intro o' ho'
      obtain ⟨ok, hok, rfl⟩ := List.mem_map.mp ho'
      exact Tree.isSub_subst ref new ok.sub hrefR (h.shape ok hok)
    · -- distinct
      intro j k oj' ok' hj hk hjk hn
      obtain ⟨oj, hoj, rfl⟩ := getOut j oj' hj
      obtain ⟨ok, hok, rfl⟩ := getOut k ok' hk
      rw [Tree.numOutputs_eq, subNamesOut oj (List.mem_of_getElem? hoj), ← Tree.numOutputs_eq] at hn
      rw [subNamesOut oj (List.mem_of_getElem? hoj), subNamesOut ok (List.mem_of_getElem? hok)]
      exact h.distinct j k oj ok hoj hok hjk hn
    · -- refsShape
      intro o' ho' p' hp'
      obtain ⟨ok, hok, rfl⟩ := List.mem_map.mp ho'
      obtain ⟨k, hk⟩ := List.mem_iff_getElem?.mp hok
      simp only [NamedOutput.substitute, List.mem_map] at hp' ⊢
      obtain ⟨p, hp, rfl⟩ := hp'
      obtain ⟨a', hpe⟩ := h.refsShape ok hok p hp
      cases hbr : Tree.beq ref p.1 with
      | true =>
        obtain ⟨hki, _⟩ := key k ok hk p hp (Or.inl hbr)
        subst hki
        rw [ho] at hk; cases hk
        simp only [Bool.not_true, Bool.false_eq_true, if_false]
        rw [Tree.subst_small ref new o.sub hsz]
        exact ⟨a', hpe⟩
      | false =>
        have hbr' : Tree.beq p.1 ref = false := by
          cases hb' : Tree.beq p.1 ref with
          | false => rfl
          | true =>
            have := (key k ok hk p hp (Or.inr hb')).2
            rw [this, Tree.beq_refl] at hbr; cases hbr
        simp only [Bool.not_false, if_true]
        refine ⟨a', ?_⟩
        rw [hpe] at hbr' ⊢
        simp [Tree.subst, hbr']
    · -- nodes
      intro T' hT' n' hn'
      rw [hflatNew] at hT'
      obtain ⟨T, hT, rfl⟩ := List.mem_map.mp hT'
      have hTflat : T ∈ blocks.flatten := by
        rw [hflat]; simp only [List.mem_append, List.mem_cons] at hT ⊢
        rcases hT with hT | hT
        · exact Or.inl hT
        · exact Or.inr (Or.inr hT)
      rcases Tree.refNodes_subst ref new hrefR T n' hn' with ⟨s, j, a, hn, hnb, rfl⟩ | ⟨hn, _⟩
      · obtain ⟨ok, hok, p, hp, hpe⟩ := h.nodes T hTflat _ hn
        obtain ⟨k, hk⟩ := List.mem_iff_getElem?.mp hok
        refine ⟨_, List.mem_map_of_mem hok, ?_⟩
        simp only [NamedOutput.substitute, List.mem_map]
        refine ⟨_, ⟨p, hp, rfl⟩, ?_⟩
        have hbr : Tree.beq ref p.1 = false := by
          cases hb' : Tree.beq ref p.1 with
          | false => rfl
          | true =>
            have := (key k ok hk p hp (Or.inl hb')).2
            rw [← hpe, this, Tree.beq_refl] at hnb; cases hnb
        simp only [hbr, Bool.not_false, if_true]
        rw [hpe]
        simp [Tree.subst, hnb]
      · obtain ⟨ok, hok, p, hp, hpe⟩ := h.nodes o.sub (List.mem_of_getElem? hq) n' (hnewNodes n' hn)
        refine ⟨_, List.mem_map_of_mem hok, ?_⟩
        simp only [NamedOutput.substitute, List.mem_map]
        refine ⟨_, ⟨p, hp, rfl⟩, ?_⟩
        have hsmall : Tree.subst ref new p.1 = p.1 := by
          apply Tree.subst_small
          rw [hpe]
          have := Tree.refNodes_size o.sub n' (hnewNodes n' hn)
          omega
        simp only [hsmall, ite_self]
        exact hpe
    · -- wf
      intro p' T' hT' s' j a hn'
      rw [hflatNew, List.getElem?_map] at hT'
      cases hT : (l1 ++ l2)[p']? with
      | none => rw [hT] at hT'; cases hT'
      | some T =>
      rw [hT] at hT'
      simp only [Option.map_some, Option.some.injEq] at hT'
      subst hT'
      have hTp := getElem?_erase_mid l1 l2 o.sub p' T hT
      rw [← hflat] at hTp
      rcases Tree.refNodes_subst ref new hrefR T _ hn' with ⟨s, j', a', hn, hnb, he⟩ | ⟨hn, m, hm, hmb⟩
      · cases he
        obtain ⟨k, hkp, hks, hsub⟩ := h.wf _ T hTp s j a hn
        have hkq : k ≠ l1.length := by
          intro hkq
          rw [hkq, hq] at hks
          cases hks
          obtain ⟨ok, hok, p, hp, hpe⟩ := h.nodes T (List.mem_of_getElem? hTp) _ hn
          obtain ⟨k', hk'⟩ := List.mem_iff_getElem?.mp hok
          obtain ⟨a'', hpe'⟩ := h.refsShape ok hok p hp
          rw [hpe] at hpe'
          have hse : ok.sub = o.sub := by injection hpe' with h1 _ _; exact h1.symm
          have := sameSub k' ok hk' hse
          subst this
          rw [ho] at hk'; cases hk'
          rw [hrefs'] at hp
          simp only [List.mem_singleton] at hp
          rw [hp] at hpe
          simp only at hpe
          rw [← hpe, Tree.beq_refl] at hnb
          cases hnb
        have hks' := getElem?_erase_mid' l1 l2 o.sub k s (by rw [← hflat]; exact hks) hkq
        refine ⟨if k < l1.length then k else k - 1, ?_, ?_, Tree.isSub_subst ref new s hrefR hsub⟩
        · split at hkp <;> split <;> omega
        · rw [hflatNew, List.getElem?_map, hks']; rfl
      · -- a node of the inserted tree: its target is a root before the removed definition
        have hn2 := hnewNodes _ hn
        obtain ⟨k, hkq, hks, hsub⟩ := h.wf _ o.sub hq s' j a hn2
        have hsmall : Tree.subst ref new s' = s' := by
          apply Tree.subst_small
          have := Tree.refNodes_size o.sub _ hn2
          simp only [Tree.size] at this
          omega
        -- the removed definition comes before the tree holding the replaced reference
        have hqp : l1.length < (if p' < l1.length then p' else p' + 1) := by
          obtain ⟨sm, jm, am2, rfl⟩ := Tree.refNodes_isRef T m hm
          obtain ⟨km, hkmp, hkms, hsubm⟩ := h.wf _ T hTp sm jm am2 hm
          rw [← hrefdef] at hmb
          have hb2 := Tree.beq_ref_target hmb
          have := h.uniq i o (Nat.le_refl _) ho km l1.length sm o.sub hkms hq hsubm hshape
            (Tree.beq_subNames hb2) (by simp)
          omega
        refine ⟨k, ?_, ?_, hsub⟩
        · split at hqp <;> omega
        · rw [hflatNew, List.getElem?_map]
          have : (l1 ++ l2)[k]? = some s' := by
            rw [hflat, List.getElem?_append_left hkq] at hks
            rw [List.getElem?_append_left hkq]; exact hks
          rw [this]; simp [hsmall]
    · -- uniq
      intro k ok' hk hok' p1 p2 r1' r2' hp1 hp2 hs1 hs2 hn1 hn2
      obtain ⟨ok, hok, rfl⟩ := getOut k ok' hok'
      rw [subNamesOut ok (List.mem_of_getElem? hok)] at hn1 hn2
      -- a root of the new recipe that is a sub recipe with these names was one before
      have back : ∀ (p' : Nat) (r' : Tree),
          (List.map (Tree.substList ref new) (blocks.set o.defBlock (t1 ++ t2))).flatten[p']? = some r' →
          r'.isSub = true → (r'.subNames == ok.sub.subNames) = true →
          ∃ r, blocks.flatten[if p' < l1.length then p' else p' + 1]? = some r ∧ r.isSub = true ∧
            (r.subNames == ok.sub.subNames) = true := by
        intro p' r' hp' hs' hn'
        rw [hflatNew, List.getElem?_map] at hp'
        cases hT : (l1 ++ l2)[p']? with
        | none => rw [hT] at hp'; cases hp'
        | some r =>
          rw [hT] at hp'
          simp only [Option.map_some, Option.some.injEq] at hp'
          subst hp'
          have hrp := getElem?_erase_mid l1 l2 o.sub p' r hT
          rw [← hflat] at hrp
          cases hrs : r.isSub with
          | true =>
            rw [Tree.subNames_subst ref new r hrefR hrs] at hn'
            exact ⟨r, hrp, hrs, hn'⟩
          | false =>
            exfalso
            rcases Tree.innerSubs_subst ref new hrefR r _ (Tree.isSub_mem_innerSubs _ hs') with ⟨x, hx, he⟩ | hx
            · have := h.inner k ok (by omega) hok r (List.mem_of_getElem? hrp) x
                (by rw [Tree.bodyOrSelf_of_not_sub r hrs]; exact hx)
              rw [he, this] at hn'; cases hn'
            · rw [hnew _ hx k ok hk hok] at hn'; cases hn'
      obtain ⟨r1, hr1, hr1s, hr1n⟩ := back p1 r1' hp1 hs1 hn1
      obtain ⟨r2, hr2, hr2s, hr2n⟩ := back p2 r2' hp2 hs2 hn2
      have := h.uniq k ok (by omega) hok _ _ r1 r2 hr1 hr2 hr1s hr2s hr1n hr2n
      split at this <;> split at this <;> omega
    · -- inner
      intro k ok' hk hok' T' hT' x' hx'
      obtain ⟨ok, hok, rfl⟩ := getOut k ok' hok'
      rw [subNamesOut ok (List.mem_of_getElem? hok)]
      rw [hflatNew] at hT'
      obtain ⟨T, hT, rfl⟩ := List.mem_map.mp hT'
      have hTflat : T ∈ blocks.flatten := by
        rw [hflat]; simp only [List.mem_append, List.mem_cons] at hT ⊢
        rcases hT with hT | hT
        · exact Or.inl hT
        · exact Or.inr (Or.inr hT)
      have fin : ∀ t : Tree, (∀ x ∈ t.innerSubs, x ∈ T.bodyOrSelf.innerSubs) → x' ∈ (Tree.subst ref new t).innerSubs →
          (x'.subNames == ok.sub.subNames) = false := by
        intro t ht hx
        rcases Tree.innerSubs_subst ref new hrefR t x' hx with ⟨x, hx, he⟩ | hx
        · rw [he]; exact h.inner k ok (by omega) hok T hTflat x (ht x hx)
        · exact hnew _ hx k ok hk hok
      cases hTs : T.isSub with
      | true =>
        cases T <;> simp [Tree.isSub] at hTs
        rename_i b ns' sh'
        rw [Tree.subst_sub _ _ _ _ _ hrefR] at hx'
        exact fin b (fun x hx => hx) hx'
      | false =>
        rw [Tree.bodyOrSelf_of_not_sub T hTs] at fin
        exact fin T (fun x hx => hx) (Tree.innerSubs_bodyOrSelf _ _ hx')
    · -- rooted
      intro k ok' hk hok'
      obtain ⟨ok, hok, rfl⟩ := getOut k ok' hok'
      obtain ⟨treesk, hbk, hmemk⟩ := h.rooted k ok (by omega) hok
      show ∃ trees, _[ok.defBlock]? = some trees ∧ Tree.subst ref new ok.sub ∈ trees
      rw [List.getElem?_map, List.getElem?_set]
      by_cases hd : o.defBlock = ok.defBlock
      · have hlt : o.defBlock < blocks.length := (List.getElem?_eq_some_iff.mp hb).1
        simp only [hd, if_true]
        rw [← hd]
        simp only [hlt, if_true, Option.map_some]
        refine ⟨_, rfl, ?_⟩
        rw [Tree.substList_eq_map]
        apply List.mem_map_of_mem
        rw [← hd, hb] at hbk
        cases hbk
        simp only [List.mem_append, List.mem_cons] at hmemk ⊢
        rcases hmemk with hm | hm | hm
        · exact Or.inl hm
        · exfalso
          have := sameSub k ok hok hm
          omega
        · exact Or.inr hm
      · simp only [hd, if_false, hbk, Option.map_some]
        refine ⟨_, rfl, ?_⟩
        rw [Tree.substList_eq_map]
        exact List.mem_map_of_mem hmemk


theorem foldStep_inv {i : Nat} {blocks : List Block} {outs : List NamedOutput} (h : FoldInv i blocks outs) :
    ∃ blocks' outs', foldStep i blocks outs = .ok (blocks', outs') ∧ FoldInv (i + 1) blocks' outs' ∧
      outs'.length = outs.length ∧ blocks'.length = blocks.length := by
  rcases foldStep_shape h with hs | ⟨d, hd⟩
  · exact ⟨blocks, outs, hs, h.next, rfl, rfl⟩
  · exact ⟨_, _, hd.hstep, hd.inv h, by simp [FoldData.outs'], by simp [FoldData.blocks']⟩


theorem foldAll_inv : ∀ (n i : Nat) (blocks : List Block) (outs : List NamedOutput), FoldInv i blocks outs →
    ∃ blocks' outs', foldAll n i blocks outs = .ok (blocks', outs') ∧ FoldInv (i + n) blocks' outs' ∧
      outs'.length = outs.length ∧ blocks'.length = blocks.length
  | 0, i, blocks, outs, h => ⟨blocks, outs, rfl, h, rfl, rfl⟩
  | n + 1, i, blocks, outs, h => by
    obtain ⟨b1, o1, hs, h1, hl1, hl1'⟩ := foldStep_inv h
    obtain ⟨b2, o2, hs2, h2, hl2, hl2'⟩ := foldAll_inv n (i + 1) b1 o1 h1
    refine ⟨b2, o2, ?_, ?_, by omega, by omega⟩
    · simp only [foldAll, hs]
      exact hs2
    · have : i + (n + 1) = i + 1 + n := by omega
      rw [this]; exact h2


-- ---------------------------------------------------------------- `normaliseName` respects `==`
/-- forget the kind of the numbers -/
def Part.canon : Part → Part
  | .text t => .text t
  | .num n => .num ⟨n.val, .int⟩

theorem Part.beq_iff_canon (p q : Part) : (p == q) = true ↔ p.canon = q.canon := by
  show Part.beq p q = true ↔ _
  cases p <;> cases q <;> simp only [Part.beq, Part.canon, beq_iff_eq, Part.text.injEq, Part.num.injEq, reduceCtorEq]
  rename_i a b
  show Num.beq a b = true ↔ _
  simp [Num.beq]

theorem Svs.beq_iff_canon : ∀ a b : List Part, (a == b) = true ↔ a.map Part.canon = b.map Part.canon
  | [], [] => by simp
  | [], _ :: _ => by simp
  | _ :: _, [] => by simp
  | x :: xs, y :: ys => by
    have : (x :: xs == y :: ys) = (x == y && xs == ys) := rfl
    rw [this, Bool.and_eq_true, Part.beq_iff_canon, Svs.beq_iff_canon xs ys]
    simp

theorem Svs.merge_canon : ∀ a : List Part, (Svs.merge a).map Part.canon = Svs.merge (a.map Part.canon)
  | [] => rfl
  | .num n :: rest => by simp [Svs.merge, Part.canon, Svs.merge_canon rest]
  | .text x :: rest => by
    have ih := Svs.merge_canon rest
    simp only [List.map_cons, Part.canon, Svs.merge, ← ih]
    cases hm : Svs.merge rest with
    | nil => rfl
    | cons p r => cases p <;> rfl

theorem Svs.normalise_canon (a : List Part) : (Svs.normalise a).map Part.canon = Svs.normalise (a.map Part.canon) := by
  rw [Svs.normalise_eq, Svs.normalise_eq, ← Svs.merge_canon, List.filter_map]
  congr 1
  apply List.filter_congr
  intro p _
  cases p with
  | text t => cases t <;> rfl
  | num n => rfl

theorem Svs.mapLast_canon (f : Part → Part) (hf : ∀ p, (f p).canon = f p.canon) : ∀ a : List Part,
    (Svs.mapLast f a).map Part.canon = Svs.mapLast f (a.map Part.canon)
  | [] => rfl
  | [p] => by simp [Svs.mapLast, hf]
  | p :: q :: r => by
    have := Svs.mapLast_canon f hf (q :: r)
    simp only [Svs.mapLast, List.map_cons] at this ⊢
    rw [this]

theorem normaliseName_canon (a : SVS) : (normaliseName a).map Part.canon = normaliseName (a.map Part.canon) := by
  have hl : ∀ s : SVS, (Svs.lstrip s).map Part.canon = Svs.lstrip (s.map Part.canon) := by
    intro s
    unfold Svs.lstrip
    rw [Svs.normalise_canon]
    congr 1
    cases s with
    | nil => rfl
    | cons p r => cases p <;> rfl
  have hr : ∀ s : SVS, (Svs.rstrip s).map Part.canon = Svs.rstrip (s.map Part.canon) := by
    intro s
    unfold Svs.rstrip
    rw [Svs.normalise_canon, Svs.mapLast_canon]
    intro p; cases p <;> rfl
  have hlo : ∀ s : SVS, (Svs.lower s).map Part.canon = Svs.lower (s.map Part.canon) := by
    intro s
    unfold Svs.lower
    rw [Svs.normalise_canon, List.map_map, List.map_map]
    congr 1
    apply List.map_congr_left
    intro p _; cases p <;> rfl
  unfold normaliseName Svs.strip
  rw [hlo, hr, hl]

/-- the same name up to `==` normalises to the same key up to `==` -/
theorem normaliseName_congr {a b : SVS} (h : (a == b) = true) : (normaliseName a == normaliseName b) = true := by
  rw [Svs.beq_iff_canon] at h ⊢
  rw [normaliseName_canon, normaliseName_canon, h]


open C01

-- ---------------------------------------------------------------- the elaborated program, statement by statement
mutual
/-- a reference points to a defined name -/
theorem refs_defined {done : List NStmt} {block : Nat} : ∀ (e : AExpr) (nt : NTree),
    Spec.expr done block e = .ok nt → ∀ r ∈ nt.refs, ∃ key, (key, r.1, r.2.1) ∈ definedNames done
  | .ref name amount, nt, h => by
    rw [Spec.expr, Spec.leaf_def] at h
    cases hl : lookup done (normaliseName (compileString name)) with
    | some p =>
      obtain ⟨sid, idx⟩ := p
      rw [hl] at h
      simp only [Except.ok.injEq] at h
      subst h
      obtain ⟨d, hd, _, he, _⟩ := lookup_some hl
      intro r hr
      simp only [NTree.refs, List.mem_singleton] at hr
      subst hr
      refine ⟨d.1, ?_⟩
      have : d = (d.1, sid, idx) := by rw [← he]
      rw [← this]; exact hd
    | none =>
      rw [hl] at h
      cases amount with
      | none => simp only [Except.ok.injEq] at h; subst h; simp [NTree.refs]
      | some am =>
        cases am with
        | qty o v u sp p => simp only [Except.ok.injEq] at h; subst h; simp [NTree.refs]
        | prop off v pc w p => cases h
  | .step name inputs, nt, h => by
    rw [Spec.expr] at h
    cases hs : Spec.exprs done block inputs with
    | error e => rw [hs] at h; cases h
    | ok ts =>
      rw [hs] at h
      have : nt = .step (compileString name) ts := by cases h; rfl
      subst this
      simpa [NTree.refs] using refsList_defined inputs ts hs
theorem refsList_defined {done : List NStmt} {block : Nat} : ∀ (es : List AExpr) (nts : List NTree),
    Spec.exprs done block es = .ok nts → ∀ r ∈ NTree.refsList nts, ∃ key, (key, r.1, r.2.1) ∈ definedNames done
  | [], nts, h => by
    rw [Spec.exprs] at h
    cases h
    simp [NTree.refsList]
  | e :: es, nts, h => by
    rw [Spec.exprs] at h
    cases h1 : Spec.expr done block e with
    | error x => rw [h1] at h; cases h
    | ok t =>
      rw [h1] at h
      cases h2 : Spec.exprs done block es with
      | error x => rw [h2] at h; cases h
      | ok ts =>
        rw [h2] at h
        have : nts = t :: ts := by cases h; rfl
        subst this
        intro r hr
        simp only [NTree.refsList, List.mem_append] at hr
        cases hr with
        | inl hr => exact refs_defined e t h1 r hr
        | inr hr => exact refsList_defined es ts h2 r hr
end

theorem numbered_block : ∀ (bs : List (List AStmt)) (i : Nat), ∀ p ∈ numbered i bs, p.1 < i + bs.length
  | [], _, p, h => by simp [numbered] at h
  | b :: bs, i, p, h => by
    simp only [numbered, List.mem_append, List.mem_map] at h
    rcases h with ⟨s, _, rfl⟩ | h
    · simp
    · have := numbered_block bs (i + 1) p h
      simp only [List.length_cons]; omega

/-- statement `k` of an accepted program: its references point to names defined before it, its block exists -/
theorem spec_stmt_facts (asts : List (List AStmt)) (ns : List NStmt) (h : Spec.blocks asts = .ok ns)
    (k : Nat) (s : NStmt) (hk : ns[k]? = some s) :
    s.block < asts.length ∧ ∀ r ∈ s.tree.refs, ∃ key, (key, r.1, r.2.1) ∈ definedNames (ns.take k) := by
  obtain ⟨hl, hst⟩ := spec_stmt_at asts ns h
  have hlt : k < (numbered 0 asts).length := by rw [← hl]; exact (List.getElem?_eq_some_iff.mp hk).1
  obtain ⟨n, hn, hs⟩ := hst k _ (List.getElem?_eq_getElem hlt)
  rw [hk] at hn; cases hn
  obtain ⟨he, hb, _⟩ := spec_stmt_ok hs
  refine ⟨?_, refs_defined _ _ he⟩
  have := numbered_block asts 0 _ (List.getElem_mem hlt)
  omega

theorem definedNames_take {ns : List NStmt} {k : Nat} {d : SVS × Nat × Nat} (h : d ∈ definedNames (ns.take k)) :
    d ∈ definedNames ns ∧ d.2.1 < k := by
  have hlt := definedNames_sid_lt h
  rw [mem_definedNames] at h ⊢
  obtain ⟨s, hs, hn⟩ := h
  rw [List.getElem?_take] at hs
  simp only [List.length_take] at hlt
  split at hs
  · exact ⟨⟨s, hs, hn⟩, by omega⟩
  · cases hs

theorem rootsOf_foldl_prefix : ∀ (b : List NStmt) (acc : List Tree),
    ∃ Y, b.foldl (fun roots s => roots ++ [embedStmt roots s]) acc = acc ++ Y
  | [], acc => ⟨[], by simp⟩
  | s :: b, acc => by
    obtain ⟨Y, hY⟩ := rootsOf_foldl_prefix b (acc ++ [embedStmt acc s])
    exact ⟨embedStmt acc s :: Y, by simp [List.foldl_cons, hY]⟩

theorem rootsOf_append_prefix (a b : List NStmt) : ∃ Y, rootsOf (a ++ b) = rootsOf a ++ Y := by
  unfold rootsOf
  rw [List.foldl_append]
  exact rootsOf_foldl_prefix b _

/-- the root of statement `k` is built from the roots of the statements before it -/
theorem rootsOf_getElem (ns : List NStmt) (k : Nat) (s : NStmt) (hk : ns[k]? = some s) :
    (rootsOf ns)[k]? = some (embedStmt (rootsOf (ns.take k)) s) := by
  obtain ⟨he, hl⟩ := getElem?_split ns k s hk
  have : ns = (ns.take k ++ [s]) ++ ns.drop (k + 1) := by simpa using he
  obtain ⟨Y, hY⟩ := rootsOf_append_prefix (ns.take k ++ [s]) (ns.drop (k + 1))
  rw [← this, rootsOf_snoc] at hY
  rw [hY, List.append_assoc, List.getElem?_append_right (by rw [rootsOf_length]; omega), rootsOf_length, hl]
  simp

/-- the roots of a prefix are a prefix of the roots -/
theorem rootsOf_take_getElem (ns : List NStmt) (k j : Nat) (hj : j < k) (hk : k ≤ ns.length) :
    (rootsOf (ns.take k))[j]? = (rootsOf ns)[j]? := by
  obtain ⟨Y, hY⟩ := rootsOf_append_prefix (ns.take k) (ns.drop k)
  rw [List.take_append_drop] at hY
  rw [hY, List.getElem?_append_left (by rw [rootsOf_length, List.length_take]; omega)]

mutual
theorem refNodes_embedTree (roots : List Tree) : ∀ (nt : NTree) (n : Tree), n ∈ (embedTree roots nt).refNodes →
    ∃ r ∈ nt.refs, n = Tree.reference (roots[r.1]?.getD default) r.2.1 r.2.2 ∨ n ∈ (roots[r.1]?.getD default).refNodes
  | .ingredient d q, n, h => by simp [embedTree, Tree.refNodes] at h
  | .step d inputs, n, h => by
    simp only [embedTree, Tree.refNodes] at h
    simpa [NTree.refs] using refNodes_embedTrees roots inputs n h
  | .nref sid idx a, n, h => by
    simp only [embedTree, Tree.refNodes, List.mem_cons] at h
    exact ⟨(sid, idx, a), by simp [NTree.refs], h⟩
theorem refNodes_embedTrees (roots : List Tree) : ∀ (nts : List NTree) (n : Tree),
    n ∈ Tree.refNodesList (embedTrees roots nts) →
    ∃ r ∈ NTree.refsList nts, n = Tree.reference (roots[r.1]?.getD default) r.2.1 r.2.2 ∨
      n ∈ (roots[r.1]?.getD default).refNodes
  | [], n, h => by simp [embedTrees, Tree.refNodesList] at h
  | t :: ts, n, h => by
    simp only [embedTrees, Tree.refNodesList, List.mem_append] at h
    rcases h with h | h
    · obtain ⟨r, hr, hn⟩ := refNodes_embedTree roots t n h
      exact ⟨r, by simp [NTree.refsList, hr], hn⟩
    · obtain ⟨r, hr, hn⟩ := refNodes_embedTrees roots ts n h
      exact ⟨r, by simp [NTree.refsList, hr], hn⟩
end

mutual
theorem innerSubs_embedTree (roots : List Tree) : ∀ nt : NTree, (embedTree roots nt).innerSubs = []
  | .ingredient .. => rfl
  | .step d inputs => by simp only [embedTree, Tree.innerSubs]; exact innerSubs_embedTrees roots inputs
  | .nref .. => rfl
theorem innerSubs_embedTrees (roots : List Tree) : ∀ nts : List NTree, Tree.innerSubsList (embedTrees roots nts) = []
  | [] => rfl
  | t :: ts => by simp [embedTrees, Tree.innerSubsList, innerSubs_embedTree roots t, innerSubs_embedTrees roots ts]
end

theorem refNodes_embedStmt (roots : List Tree) (s : NStmt) :
    (embedStmt roots s).refNodes = (embedTree roots s.tree).refNodes := by
  unfold embedStmt; split <;> rfl

theorem innerSubs_embedStmt (roots : List Tree) (s : NStmt) : (embedStmt roots s).bodyOrSelf.innerSubs = [] := by
  unfold embedStmt; split
  · cases h : embedTree roots s.tree with
    | sub b ns sh =>
      have := innerSubs_embedTree roots s.tree
      rw [h] at this; simp [Tree.innerSubs] at this
    | _ => simp only [Tree.bodyOrSelf]; rw [← h]; exact innerSubs_embedTree roots s.tree
  · exact innerSubs_embedTree roots s.tree

theorem embedStmt_named (roots : List Tree) (s : NStmt) (h : s.names ≠ []) :
    embedStmt roots s = .sub (embedTree roots s.tree) s.names s.showNames := by
  unfold embedStmt
  cases hn : s.names with
  | nil => exact absurd hn h
  | cons a b => simp

/-- a statement defining a name has a sub recipe as root, with the statement's names -/
theorem root_of_defined (ns : List NStmt) (d : SVS × Nat × Nat) (hd : d ∈ definedNames ns) :
    ∃ s b, ns[d.2.1]? = some s ∧ (rootsOf ns)[d.2.1]? = some (.sub b s.names s.showNames) ∧
      (s.names[d.2.2]?).map normaliseName = some d.1 := by
  obtain ⟨s, hs, hn⟩ := (mem_definedNames ns d).mp hd
  have hne : s.names ≠ [] := by intro h; rw [h] at hn; simp at hn
  exact ⟨s, _, hs, by rw [rootsOf_getElem ns _ s hs, embedStmt_named _ _ hne], hn⟩

/-- every reference node of the root of statement `k`, at any depth, is a reference of the program to a root before
    `k` which is a sub recipe -/
theorem refNodes_root (asts : List (List AStmt)) (ns : List NStmt) (h : Spec.blocks asts = .ok ns) :
    ∀ (k : Nat) (r n : Tree), (rootsOf ns)[k]? = some r → n ∈ r.refNodes →
      ∃ ref ∈ allRefs ns, ref.1 < k ∧ (∃ key, (key, ref.1, ref.2.1) ∈ definedNames ns) ∧
        ∃ rs, (rootsOf ns)[ref.1]? = some rs ∧ n = Tree.reference rs ref.2.1 ref.2.2.1 := by
  intro k
  induction k using Nat.strongRecOn with
  | _ k ih =>
    intro r n hr hn
    have hlt : k < ns.length := by
      have := (List.getElem?_eq_some_iff.mp hr).1; rwa [rootsOf_length] at this
    have hs : ns[k]? = some ns[k] := List.getElem?_eq_getElem hlt
    rw [rootsOf_getElem ns k _ hs] at hr
    cases hr
    rw [refNodes_embedStmt] at hn
    obtain ⟨x, hx, hn⟩ := refNodes_embedTree _ _ n hn
    obtain ⟨key, hdef⟩ := (spec_stmt_facts asts ns h k _ hs).2 x hx
    obtain ⟨hdef', hxk⟩ := definedNames_take hdef
    simp only at hxk
    have hroot : (rootsOf (ns.take k))[x.1]? = (rootsOf ns)[x.1]? := rootsOf_take_getElem ns k x.1 hxk (by omega)
    obtain ⟨s', b', hs', hr', _⟩ := root_of_defined ns _ hdef'
    simp only at hs' hr'
    rw [hroot, hr'] at hn
    simp only [Option.getD_some] at hn
    rcases hn with hn | hn
    · refine ⟨(x.1, x.2.1, x.2.2, ns[k].block), ?_, hxk, ⟨key, hdef'⟩, _, hr', hn⟩
      simp only [allRefs, List.mem_flatMap, List.mem_map]
      exact ⟨ns[k], List.getElem_mem hlt, x, hx, rfl⟩
    · obtain ⟨ref, hrefm, hlt', hd', hrs⟩ := ih x.1 hxk _ n hr' hn
      exact ⟨ref, hrefm, by omega, hd', hrs⟩

theorem stmtDefs_pairwise (sid : Nat) : ∀ (names : List SVS) (i : Nat),
    (stmtDefs sid i names).Pairwise (fun d d' => d.2 ≠ d'.2)
  | [], _ => by simp [stmtDefs]
  | n :: ns, i => by
    simp only [stmtDefs, List.pairwise_cons]
    refine ⟨?_, stmtDefs_pairwise sid ns (i + 1)⟩
    intro d hd he
    have := ((mem_stmtDefs sid d ns (i + 1)).mp hd).2.1
    rw [← he] at this
    simp only at this
    omega

theorem definedNamesFrom_pairwise : ∀ (ss : List NStmt) (k : Nat),
    (definedNamesFrom k ss).Pairwise (fun d d' => d.2 ≠ d'.2)
  | [], _ => by simp [definedNamesFrom]
  | s :: ss, k => by
    simp only [definedNamesFrom, List.pairwise_append]
    refine ⟨stmtDefs_pairwise k s.names 0, definedNamesFrom_pairwise ss (k + 1), ?_⟩
    intro d hd d' hd' he
    have h1 := ((mem_stmtDefs k d s.names 0).mp hd).1
    have h2 := ((mem_definedNamesFrom d' ss (k + 1)).mp hd').1
    rw [← he, h1] at h2
    omega

/-- two positions of the table of defined names hold different (statement, output) pairs -/
theorem definedNames_pos_inj (ns : List NStmt) (j k : Nat) (d d' : SVS × Nat × Nat)
    (hj : (definedNames ns)[j]? = some d) (hk : (definedNames ns)[k]? = some d') (he : d.2 = d'.2) : j = k := by
  have hp : (definedNames ns).Pairwise (fun d d' => d.2 ≠ d'.2) := definedNamesFrom_pairwise ns 0
  rw [List.pairwise_iff_getElem] at hp
  obtain ⟨hjl, hje⟩ := List.getElem?_eq_some_iff.mp hj
  obtain ⟨hkl, hke⟩ := List.getElem?_eq_some_iff.mp hk
  apply Classical.byContradiction
  intro hne
  rcases Nat.lt_or_gt_of_ne hne with hlt | hlt
  · exact hp j k hjl hkl hlt (by rw [hje, hke]; exact he)
  · exact hp k j hkl hjl hlt (by rw [hje, hke]; exact he.symm)

theorem list_beq_get {α : Type} [BEq α] : ∀ (l1 l2 : List α), (l1 == l2) = true →
    l1.length = l2.length ∧ ∀ (i : Nat) (x y : α), l1[i]? = some x → l2[i]? = some y → (x == y) = true
  | [], [], _ => ⟨rfl, by simp⟩
  | [], _ :: _, h => by cases h
  | _ :: _, [], h => by cases h
  | a :: as, b :: bs, h => by
    have h' : (a == b && as == bs) = true := h
    rw [Bool.and_eq_true] at h'
    obtain ⟨hl, hg⟩ := list_beq_get as bs h'.2
    refine ⟨by simp [hl], ?_⟩
    intro i x y hx hy
    cases i with
    | zero => simp at hx hy; rw [← hx, ← hy]; exact h'.1
    | succ i => simp at hx hy; exact hg i x y hx hy

theorem embedTree_not_sub (roots : List Tree) (nt : NTree) : (embedTree roots nt).isSub = false := by
  cases nt <;> rfl

/-- two defining statements whose first names are `==` are the same statement -/
theorem same_stmt_of_names (ns : List NStmt) (hU : KeysUnique (definedNames ns)) (p q : Nat) (sp sq : NStmt)
    (hp : ns[p]? = some sp) (hq : ns[q]? = some sq) (hne : sp.names ≠ [])
    (hn : (sp.names == sq.names) = true ∨ (sq.names == sp.names) = true) : p = q := by
  have key : ∀ (p q : Nat) (sp sq : NStmt), ns[p]? = some sp → ns[q]? = some sq → sp.names ≠ [] →
      (sp.names == sq.names) = true → p = q := by
    intro p q sp sq hp hq hne hn
    obtain ⟨hl, hg⟩ := list_beq_get _ _ hn
    cases hsp : sp.names with
    | nil => exact absurd hsp hne
    | cons a as =>
      cases hsq : sq.names with
      | nil => rw [hsp, hsq] at hl; simp at hl
      | cons b bs =>
        have hab := hg 0 a b (by rw [hsp]; rfl) (by rw [hsq]; rfl)
        have h1 : (normaliseName a, p, 0) ∈ definedNames ns :=
          (mem_definedNames ns _).mpr ⟨sp, hp, by simp [hsp]⟩
        have h2 : (normaliseName b, q, 0) ∈ definedNames ns :=
          (mem_definedNames ns _).mpr ⟨sq, hq, by simp [hsq]⟩
        have := hU _ h1 _ h2 (normaliseName_congr hab)
        simp only [Prod.mk.injEq] at this
        exact this.2.1
  rcases hn with hn | hn
  · exact key p q sp sq hp hq hne hn
  · have hne' : sq.names ≠ [] := by
      intro h
      rw [h] at hn
      cases hs : sp.names with
      | nil => exact hne hs
      | cons a as => rw [hs] at hn; cases hn
    exact (key q p sq sp hq hp hne' hn).symm

/-- what elaboration leaves in the table, entry by entry -/
theorem elab_entry (asts : List (List AStmt)) (bs : List Block) (st : CState)
    (h : compileBlocks 0 {} asts = .ok (bs, st)) (ns : List NStmt) (hs : Spec.blocks asts = .ok ns)
    (p : Nat) (o : NamedOutput) (ho : st.outputs[p]? = some o) :
    ∃ key sid s b, (definedNames ns)[p]? = some (key, sid, o.idx) ∧ ns[sid]? = some s ∧
      (rootsOf ns)[sid]? = some o.sub ∧ o.sub = .sub b s.names s.showNames ∧
      (s.names[o.idx]?).map normaliseName = some key ∧ o.defBlock = s.block ∧
      o.refs = ((allRefs ns).filter (fun r => r.1 == sid && r.2.1 == o.idx)).map
                  (fun r => (Tree.reference o.sub o.idx r.2.2.1, r.2.2.2)) := by
  obtain ⟨_, hr⟩ := elab_table asts bs st h ns hs
  obtain ⟨key, sid, idx, s, hd, hsid, _, hidx, hroot, hblk, hrefs⟩ := (elab_table_entry asts bs st h ns hs).2 p o ho
  subst hidx
  obtain ⟨s', b, hs', hr', hn⟩ := root_of_defined ns _ (List.mem_of_getElem? hd)
  simp only at hs' hr' hn
  rw [hsid] at hs'; cases hs'
  rw [← hr] at hroot
  rw [hroot] at hr'
  exact ⟨key, sid, s, b, hd, hsid, hroot, Option.some.inj hr', hn, hblk, hrefs⟩

/-- the state elaboration leaves satisfies the invariant of the inlining loop -/
theorem foldInv_init (asts : List (List AStmt)) (bs : List Block) (st : CState)
    (h : compileBlocks 0 {} asts = .ok (bs, st)) : FoldInv 0 bs st.outputs := by
  obtain ⟨ns, hs, hbs⟩ := (elab_ok_iff asts bs).mp ⟨st, h⟩
  obtain ⟨_, hflat⟩ := elab_table asts bs st h ns hs
  have hlen := (elab_table_entry asts bs st h ns hs).1
  have hU := spec_keys_unique asts ns hs
  have entry := elab_entry asts bs st h ns hs
  -- the table entry of a defined name
  have entryOf : ∀ d ∈ definedNames ns, ∃ (p : Nat) (o : NamedOutput), st.outputs[p]? = some o ∧ (definedNames ns)[p]? = some d := by
    intro d hd
    obtain ⟨p, hp⟩ := List.mem_iff_getElem?.mp hd
    have hlt : p < st.outputs.length := by rw [hlen]; exact (List.getElem?_eq_some_iff.mp hp).1
    exact ⟨p, _, List.getElem?_eq_getElem hlt, hp⟩
  -- a sub recipe root with the names of an entry is the root of that entry's statement
  have rootPos : ∀ (k : Nat) (o : NamedOutput), st.outputs[k]? = some o → ∀ (p : Nat) (r : Tree),
      (rootsOf ns)[p]? = some r → r.isSub = true → (r.subNames == o.sub.subNames) = true →
      (rootsOf ns)[p]? = some o.sub := by
    intro k o ho p r hp hsub hn
    obtain ⟨key, sid, s, b, hd, hsid, hroot, hsubeq, hname, _⟩ := entry k o ho
    have hlt : p < ns.length := by
      have := (List.getElem?_eq_some_iff.mp hp).1; rwa [rootsOf_length] at this
    have hsp : ns[p]? = some ns[p] := List.getElem?_eq_getElem hlt
    rw [rootsOf_getElem ns p _ hsp] at hp
    have hne : (ns[p]).names ≠ [] := by
      intro hnil
      have : embedStmt (rootsOf (ns.take p)) ns[p] = embedTree (rootsOf (ns.take p)) (ns[p]).tree := by
        simp [embedStmt, hnil]
      rw [this] at hp
      cases hp
      rw [embedTree_not_sub] at hsub; cases hsub
    rw [embedStmt_named _ _ hne] at hp
    cases hp
    rw [hsubeq] at hn
    simp only [Tree.subNames] at hn
    have := same_stmt_of_names ns hU p sid _ s hsp hsid hne (Or.inl hn)
    rw [this]; exact hroot
  refine { shape := ?_, distinct := ?_, refsShape := ?_, nodes := ?_, wf := ?_, uniq := ?_, inner := ?_, rooted := ?_ }
  · intro o ho
    obtain ⟨p, hp⟩ := List.mem_iff_getElem?.mp ho
    obtain ⟨_, _, _, _, _, _, _, hsub, _⟩ := entry p o hp
    rw [hsub]; rfl
  · intro j k oj ok hj hk hjk hnum
    obtain ⟨keyj, sidj, sj, bj, hdj, hsj, _, hsubj, hnamej, _⟩ := entry j oj hj
    obtain ⟨keyk, sidk, sk, bk, hdk, hsk, _, hsubk, hnamek, _⟩ := entry k ok hk
    rw [hsubj, hsubk]
    simp only [Tree.subNames]
    rw [hsubj] at hnum
    simp only [Tree.numOutputs] at hnum
    have hnej : sj.names ≠ [] := by intro h; rw [h] at hnum; cases hnum
    have contra : ((sj.names == sk.names) = true ∨ (sk.names == sj.names) = true) → False := by
      intro hn
      have hsid := same_stmt_of_names ns hU sidj sidk sj sk hsj hsk hnej hn
      subst hsid
      rw [hsj] at hsk; cases hsk
      have hij : oj.idx = 0 := by
        cases hx : sj.names[oj.idx]? with
        | none => rw [hx] at hnamej; cases hnamej
        | some x => have := (List.getElem?_eq_some_iff.mp hx).1; omega
      have hik : ok.idx = 0 := by
        cases hx : sj.names[ok.idx]? with
        | none => rw [hx] at hnamek; cases hnamek
        | some x => have := (List.getElem?_eq_some_iff.mp hx).1; omega
      exact hjk (definedNames_pos_inj ns j k _ _ hdj hdk (by simp [hij, hik]))
    constructor
    · cases hx : (sj.names == sk.names) with
      | false => rfl
      | true => exact (contra (Or.inl hx)).elim
    · cases hx : (sk.names == sj.names) with
      | false => rfl
      | true => exact (contra (Or.inr hx)).elim
  · intro o ho p hp
    obtain ⟨k, hk⟩ := List.mem_iff_getElem?.mp ho
    obtain ⟨_, _, _, _, _, _, _, _, _, _, hrefs⟩ := entry k o hk
    rw [hrefs, List.mem_map] at hp
    obtain ⟨r, _, rfl⟩ := hp
    exact ⟨_, rfl⟩
  · intro T hT n hn
    rw [← hflat] at hT
    obtain ⟨k, hk⟩ := List.mem_iff_getElem?.mp hT
    obtain ⟨ref, hrefm, _, ⟨key, hdef⟩, rs, hrs, rfl⟩ := refNodes_root asts ns hs k T n hk hn
    obtain ⟨p, o, ho, hd⟩ := entryOf _ hdef
    obtain ⟨key', sid', s, b, hd', _, hroot, _, _, _, hrefs⟩ := entry p o ho
    rw [hd] at hd'
    simp only [Option.some.injEq, Prod.mk.injEq] at hd'
    obtain ⟨_, hsid, hidx⟩ := hd'
    subst hsid
    rw [hrs] at hroot
    cases hroot
    refine ⟨o, List.mem_of_getElem? ho, (Tree.reference o.sub ref.2.1 ref.2.2.1, ref.2.2.2), ?_, rfl⟩
    rw [hrefs, List.mem_map]
    exact ⟨ref, List.mem_filter.mpr ⟨hrefm, by simp [hidx]⟩, by rw [hidx]⟩
  · intro p T hp s i a hn
    rw [← hflat] at hp ⊢
    obtain ⟨ref, _, hlt, ⟨key, hdef⟩, rs, hrs, he⟩ := refNodes_root asts ns hs p T _ hp hn
    cases he
    obtain ⟨s', b', _, hr', _⟩ := root_of_defined ns _ hdef
    simp only at hr'
    rw [hrs] at hr'
    refine ⟨ref.1, hlt, hrs, ?_⟩
    rw [Option.some.inj hr']; rfl
  · intro k o _ ho p q r r' hp hq hsub hsub' hn hn'
    rw [← hflat] at hp hq
    have h1 := rootPos k o ho p r hp hsub hn
    have h2 := rootPos k o ho q r' hq hsub' hn'
    obtain ⟨key, sid, s, b, hd, hsid, hroot, hsubeq, hname, _⟩ := entry k o ho
    -- both positions hold the root of statement `sid`
    have pos : ∀ (p : Nat), (rootsOf ns)[p]? = some o.sub → p = sid := by
      intro p hp
      have hlt : p < ns.length := by
        have := (List.getElem?_eq_some_iff.mp hp).1; rwa [rootsOf_length] at this
      have hsp : ns[p]? = some ns[p] := List.getElem?_eq_getElem hlt
      have hne : s.names ≠ [] := by intro hnil; rw [hnil] at hname; simp at hname
      rw [rootsOf_getElem ns p _ hsp, hsubeq] at hp
      have hne' : (ns[p]).names ≠ [] := by
        intro hnil
        have : embedStmt (rootsOf (ns.take p)) ns[p] = embedTree (rootsOf (ns.take p)) (ns[p]).tree := by
          simp [embedStmt, hnil]
        rw [this] at hp
        have := embedTree_not_sub (rootsOf (ns.take p)) (ns[p]).tree
        rw [Option.some.inj hp] at this; cases this
      rw [embedStmt_named _ _ hne'] at hp
      have hnames : (ns[p]).names = s.names := by injection (Option.some.inj hp)
      exact same_stmt_of_names ns hU p sid _ s hsp hsid hne' (Or.inl (by rw [hnames]; simp))
    rw [pos p h1, pos q h2]
  · intro k o _ ho T hT x hx
    rw [← hflat] at hT
    obtain ⟨p, hp⟩ := List.mem_iff_getElem?.mp hT
    have hlt : p < ns.length := by
      have := (List.getElem?_eq_some_iff.mp hp).1; rwa [rootsOf_length] at this
    rw [rootsOf_getElem ns p _ (List.getElem?_eq_getElem hlt)] at hp
    cases hp
    rw [innerSubs_embedStmt] at hx
    cases hx
  · intro k o _ ho
    obtain ⟨key, sid, s, b, hd, hsid, hroot, _, _, hblk, _⟩ := entry k o ho
    have hblt := (spec_stmt_facts asts ns hs sid s hsid).1
    rw [hbs, hblk]
    simp only [embed, List.getElem?_map, List.getElem?_range hblt, Option.map_some]
    refine ⟨_, rfl, ?_⟩
    simp only [List.mem_map, List.mem_filter]
    refine ⟨(s, o.sub), ⟨?_, by simp⟩, rfl⟩
    apply List.mem_iff_getElem?.mpr
    exact ⟨sid, by rw [List.getElem?_zip_eq_some]; exact ⟨hsid, hroot⟩⟩


-- ---------------------------------------------------------------- `parseAll` without unfolding the parser
theorem parseAll_nil (i : Nat) : parseAll i [] = .ok [] := rfl

attribute [local irreducible] parse in
theorem parseAll_cons (i : Nat) (s : Str) (ss : List Str) : parseAll i (s :: ss) =
    match parse s with
    | .ok stmts => (parseAll (i + 1) ss) >>= fun rest => pure (stmts :: rest)
    | .syntaxError => .error (.syntaxError i)
    | .zeroDivision => .error (.zeroDivision i) := rfl

/-- parsing fails only with `ParseError` or `ZeroDivisionError` -/
theorem parseAll_error : ∀ (srcs : List Str) (i : Nat) (e : CompileResult), parseAll i srcs = .error e →
    (∃ b, e = .syntaxError b) ∨ (∃ b, e = .zeroDivision b)
  | [], i, e, h => by rw [parseAll_nil] at h; cases h
  | s :: ss, i, e, h => by
    rw [parseAll_cons] at h
    cases hp : parse s with
    | syntaxError => rw [hp] at h; cases h; exact Or.inl ⟨i, rfl⟩
    | zeroDivision => rw [hp] at h; cases h; exact Or.inr ⟨i, rfl⟩
    | ok stmts =>
      rw [hp] at h
      simp only [] at h
      cases hr : parseAll (i + 1) ss with
      | error e' =>
        rw [hr] at h
        cases h
        exact parseAll_error ss (i + 1) _ hr
      | ok rest => rw [hr] at h; cases h


-- ---------------------------------------------------------------- what is written: nodes outside embedded copies
mutual
/-- the ingredient and step nodes of a tree outside embedded copies, in order, each seen through `fi` (description and
    quantity of an ingredient) or `fs` (description and number of inputs of a step) -/
def Tree.collect {β : Type} (fi : SVS → Option Quantity → β) (fs : SVS → Nat → β) : Tree → List β
  | .ingredient d q => [fi d q]
  | .step d i => fs d i.length :: Tree.collectList fi fs i
  | .reference .. => []
  | .sub b _ _ => Tree.collect fi fs b
def Tree.collectList {β : Type} (fi : SVS → Option Quantity → β) (fs : SVS → Nat → β) : List Tree → List β
  | [] => []
  | t :: ts => Tree.collect fi fs t ++ Tree.collectList fi fs ts
end

mutual
/-- the reference nodes of a tree outside embedded copies -/
def Tree.topRefs : Tree → List Tree
  | .ingredient .. => []
  | .step _ i => Tree.topRefsList i
  | .reference s n a => [.reference s n a]
  | .sub b _ _ => Tree.topRefs b
def Tree.topRefsList : List Tree → List Tree
  | [] => []
  | t :: ts => Tree.topRefs t ++ Tree.topRefsList ts
end

theorem Tree.substList_length (old new : Tree) (ts : List Tree) : (Tree.substList old new ts).length = ts.length := by
  rw [Tree.substList_eq_map, List.length_map]

mutual
theorem Tree.topRefs_sub_refNodes : ∀ (t n : Tree), n ∈ t.topRefs → n ∈ t.refNodes
  | .ingredient .., n, h => by simp [Tree.topRefs] at h
  | .step d i, n, h => by
    simp only [Tree.topRefs] at h; simp only [Tree.refNodes]; exact Tree.topRefsList_sub_refNodes i n h
  | .reference s j a, n, h => by
    simp only [Tree.topRefs, List.mem_singleton] at h; simp [Tree.refNodes, h]
  | .sub b ns sh, n, h => by
    simp only [Tree.topRefs] at h; simp only [Tree.refNodes]; exact Tree.topRefs_sub_refNodes b n h
theorem Tree.topRefsList_sub_refNodes : ∀ (ts : List Tree) (n : Tree), n ∈ Tree.topRefsList ts → n ∈ Tree.refNodesList ts
  | [], n, h => by simp [Tree.topRefsList] at h
  | t :: ts, n, h => by
    simp only [Tree.topRefsList, List.mem_append] at h
    simp only [Tree.refNodesList, List.mem_append]
    exact h.imp (Tree.topRefs_sub_refNodes t n) (Tree.topRefsList_sub_refNodes ts n)
end

/-- how often the replaced node occurs outside copies -/
def Tree.occ (old t : Tree) : Nat := (t.topRefs).countP (fun n => Tree.beq n old)
def Tree.occList (old : Tree) (ts : List Tree) : Nat := (Tree.topRefsList ts).countP (fun n => Tree.beq n old)

mutual
/-- substitution keeps every written node and adds those of the inserted tree once per replaced reference -/
theorem Tree.collect_subst {β : Type} (fi : SVS → Option Quantity → β) (fs : SVS → Nat → β) (old new : Tree)
    (hr : old.isRef = true) (p : β → Bool) : ∀ t : Tree,
    (Tree.collect fi fs (Tree.subst old new t)).countP p =
      (Tree.collect fi fs t).countP p + Tree.occ old t * (Tree.collect fi fs new).countP p
  | .ingredient d q => by
    have : Tree.beq (.ingredient d q) old = false := by cases old <;> simp [Tree.isRef] at hr; simp [Tree.beq]
    simp [Tree.subst, this, Tree.occ, Tree.topRefs]
  | .step d i => by
    have : Tree.beq (.step d i) old = false := by cases old <;> simp [Tree.isRef] at hr; simp [Tree.beq]
    have ih := Tree.collectList_subst fi fs old new hr p i
    simp only [Tree.subst, this, Bool.false_eq_true, if_false, Tree.collect, Tree.substList_length, List.countP_cons,
      ih, Tree.occ, Tree.topRefs, Tree.occList]
    omega
  | .reference s j a => by
    simp only [Tree.subst, Tree.occ, Tree.topRefs, List.countP_cons, List.countP_nil]
    cases hb : Tree.beq (.reference s j a) old <;> simp [Tree.collect]
  | .sub b ns sh => by
    rw [Tree.subst_sub _ _ _ _ _ hr]
    simpa [Tree.collect, Tree.occ, Tree.topRefs] using Tree.collect_subst fi fs old new hr p b
theorem Tree.collectList_subst {β : Type} (fi : SVS → Option Quantity → β) (fs : SVS → Nat → β) (old new : Tree)
    (hr : old.isRef = true) (p : β → Bool) : ∀ ts : List Tree,
    (Tree.collectList fi fs (Tree.substList old new ts)).countP p =
      (Tree.collectList fi fs ts).countP p + Tree.occList old ts * (Tree.collect fi fs new).countP p
  | [] => by simp [Tree.substList, Tree.collectList, Tree.occList, Tree.topRefsList]
  | t :: ts => by
    have h1 := Tree.collect_subst fi fs old new hr p t
    have h2 := Tree.collectList_subst fi fs old new hr p ts
    simp only [Tree.substList, Tree.collectList, List.countP_append, h1, h2, Tree.occList, Tree.topRefsList, Tree.occ,
      Nat.add_mul]
    omega
end

mutual
/-- the same for the references outside copies, counted by a predicate that substitution does not change and that
    rejects the replaced reference -/
theorem Tree.topRefs_subst (old new : Tree) (hr : old.isRef = true) (q : Tree → Bool) : ∀ t : Tree,
    (∀ s j a, Tree.reference s j a ∈ t.topRefs →
      (Tree.beq (.reference s j a) old = true → q (.reference s j a) = false) ∧
      q (.reference (Tree.subst old new s) j a) = q (.reference s j a)) →
    (Tree.subst old new t).topRefs.countP q = t.topRefs.countP q + Tree.occ old t * new.topRefs.countP q
  | .ingredient d q', _ => by
    have : Tree.beq (.ingredient d q') old = false := by cases old <;> simp [Tree.isRef] at hr; simp [Tree.beq]
    simp [Tree.subst, this, Tree.occ, Tree.topRefs]
  | .step d i, h => by
    have : Tree.beq (.step d i) old = false := by cases old <;> simp [Tree.isRef] at hr; simp [Tree.beq]
    have ih := Tree.topRefsList_subst old new hr q i (by simpa [Tree.topRefs] using h)
    simp only [Tree.subst, this, Bool.false_eq_true, if_false, Tree.topRefs, ih, Tree.occ, Tree.occList]
  | .reference s j a, h => by
    simp only [Tree.subst, Tree.occ, Tree.topRefs, List.countP_cons, List.countP_nil]
    cases hb : Tree.beq (.reference s j a) old with
    | true => simp [(h s j a (by simp [Tree.topRefs])).1 hb]
    | false => simp [Tree.topRefs, (h s j a (by simp [Tree.topRefs])).2]
  | .sub b ns sh, h => by
    rw [Tree.subst_sub _ _ _ _ _ hr]
    simpa [Tree.topRefs, Tree.occ] using Tree.topRefs_subst old new hr q b (by simpa [Tree.topRefs] using h)
theorem Tree.topRefsList_subst (old new : Tree) (hr : old.isRef = true) (q : Tree → Bool) : ∀ ts : List Tree,
    (∀ s j a, Tree.reference s j a ∈ Tree.topRefsList ts →
      (Tree.beq (.reference s j a) old = true → q (.reference s j a) = false) ∧
      q (.reference (Tree.subst old new s) j a) = q (.reference s j a)) →
    (Tree.topRefsList (Tree.substList old new ts)).countP q =
      (Tree.topRefsList ts).countP q + Tree.occList old ts * new.topRefs.countP q
  | [], _ => by simp [Tree.substList, Tree.topRefsList, Tree.occList]
  | t :: ts, h => by
    have h1 := Tree.topRefs_subst old new hr q t (fun s j a hm => h s j a (by simp [Tree.topRefsList, hm]))
    have h2 := Tree.topRefsList_subst old new hr q ts (fun s j a hm => h s j a (by simp [Tree.topRefsList, hm]))
    simp only [Tree.substList, Tree.topRefsList, List.countP_append, h1, h2, Tree.occList, Tree.occ, Nat.add_mul]
    omega
end

/-- the same over a list of roots -/
theorem collect_subst_flat {β : Type} (fi : SVS → Option Quantity → β) (fs : SVS → Nat → β) (old new : Tree)
    (hr : old.isRef = true) (p : β → Bool) : ∀ L : List Tree,
    ((L.map (Tree.subst old new)).flatMap (Tree.collect fi fs)).countP p =
      (L.flatMap (Tree.collect fi fs)).countP p +
        (L.flatMap Tree.topRefs).countP (fun n => Tree.beq n old) * (Tree.collect fi fs new).countP p
  | [] => by simp
  | T :: L => by
    have h1 := Tree.collect_subst fi fs old new hr p T
    have h2 := collect_subst_flat fi fs old new hr p L
    simp only [List.map_cons, List.flatMap_cons, List.countP_append, h1, h2, Tree.occ, Nat.add_mul]
    omega

theorem topRefs_subst_flat (old new : Tree) (hr : old.isRef = true) (q : Tree → Bool) : ∀ L : List Tree,
    (∀ T ∈ L, ∀ s j a, Tree.reference s j a ∈ T.topRefs →
      (Tree.beq (.reference s j a) old = true → q (.reference s j a) = false) ∧
      q (.reference (Tree.subst old new s) j a) = q (.reference s j a)) →
    ((L.map (Tree.subst old new)).flatMap Tree.topRefs).countP q =
      (L.flatMap Tree.topRefs).countP q +
        (L.flatMap Tree.topRefs).countP (fun n => Tree.beq n old) * new.topRefs.countP q
  | [], _ => by simp
  | T :: L, h => by
    have h1 := Tree.topRefs_subst old new hr q T (h T (by simp))
    have h2 := topRefs_subst_flat old new hr q L (fun T' hT' => h T' (by simp [hT']))
    simp only [List.map_cons, List.flatMap_cons, List.countP_append, h1, h2, Tree.occ, Nat.add_mul]
    omega

/-- a reference to output `idx` of the sub recipe with names `names` -/
def pointsTo (names : List SVS) (idx : Nat) : Tree → Bool
  | .reference s j _ => s.subNames == names && j == idx
  | _ => false

/-- every recorded reference of a not yet visited entry stands exactly once in the recipe outside copies -/
def RefCount (i : Nat) (blocks : List Block) (outs : List NamedOutput) : Prop :=
  ∀ (k : Nat) (o : NamedOutput), i ≤ k → outs[k]? = some o →
    (blocks.flatten.flatMap Tree.topRefs).countP (pointsTo o.sub.subNames o.idx) = o.refs.length



namespace FoldData.Ok
variable {d : FoldData} {i : Nat} {blocks : List Block} {outs : List NamedOutput}

theorem refIsRef : d.ref.isRef = true := rfl

theorem size_lt : d.o.sub.size < d.ref.size := by
  simp only [FoldData.ref, Tree.size]; omega

theorem flatNew (hd : d.Ok i blocks outs) :
    (d.blocks' blocks).flatten = (d.l1 ++ d.l2).map (Tree.subst d.ref d.new) := by
  unfold FoldData.blocks'
  rw [← hd.hflat', List.map_flatten]
  congr 1
  apply List.map_congr_left
  intro b _
  exact Tree.substList_eq_map d.ref d.new b

theorem mem_flat (hd : d.Ok i blocks outs) {T : Tree} (hT : T ∈ d.l1 ++ d.l2) : T ∈ blocks.flatten := by
  rw [hd.hflat]; simp only [List.mem_append, List.mem_cons] at hT ⊢
  rcases hT with hT | hT
  · exact Or.inl hT
  · exact Or.inr (Or.inr hT)

theorem sub_mem_flat (hd : d.Ok i blocks outs) : d.o.sub ∈ blocks.flatten := by
  rw [hd.hflat]; simp

/-- a reference node outside copies is a recorded reference -/
theorem topRef_recorded (h : FoldInv i blocks outs) {n : Tree} (hn : n ∈ blocks.flatten.flatMap Tree.topRefs) :
    ∃ (k : Nat) (ok : NamedOutput) (a : Amount) (b : Nat), outs[k]? = some ok ∧ (n, b) ∈ ok.refs ∧
      n = Tree.reference ok.sub ok.idx a ∧ ok.sub.isSub = true := by
  obtain ⟨T, hT, hnT⟩ := List.mem_flatMap.mp hn
  obtain ⟨ok, hok, p, hp, hpe⟩ := h.nodes T hT n (Tree.topRefs_sub_refNodes T n hnT)
  obtain ⟨k, hk⟩ := List.mem_iff_getElem?.mp hok
  obtain ⟨a, ha⟩ := h.refsShape ok hok p hp
  refine ⟨k, ok, a, p.2, hk, ?_, by rw [← hpe, ha], h.shape ok hok⟩
  rw [← hpe]; exact hp

/-- a recorded reference that points to the folded entry is its only reference -/
theorem points_iff (hd : d.Ok i blocks outs) (h : FoldInv i blocks outs) {n : Tree}
    (hn : n ∈ blocks.flatten.flatMap Tree.topRefs) :
    (Tree.beq n d.ref = pointsTo d.o.sub.subNames d.o.idx n) ∧ (Tree.beq n d.ref = true → n = d.ref) := by
  obtain ⟨k, ok, a, b, hk, hmem, hne, _⟩ := topRef_recorded h hn
  by_cases hki : k = i
  · subst hki
    rw [hd.ho] at hk; cases hk
    rw [hd.hrefs] at hmem
    simp only [List.mem_singleton, Prod.mk.injEq] at hmem
    rw [hmem.1]
    refine ⟨?_, fun _ => rfl⟩
    rw [Tree.beq_refl]
    simp [FoldData.ref, pointsTo]
  · have hdist := h.distinct i k d.o ok hd.ho hk (Ne.symm hki) hd.hnum
    have h1 : Tree.beq n d.ref = false := by
      cases hb : Tree.beq n d.ref with
      | false => rfl
      | true =>
        rw [hne] at hb
        have := Tree.beq_subNames (Tree.beq_ref_target hb)
        rw [hdist.2] at this; cases this
    refine ⟨?_, fun hb => by rw [h1] at hb; cases hb⟩
    rw [h1, hne]
    simp [pointsTo, hdist.2]

/-- the replaced reference stands exactly once outside copies, and not in the removed definition -/
theorem occ_one (hd : d.Ok i blocks outs) (h : FoldInv i blocks outs) (hc : RefCount i blocks outs) :
    ((d.l1 ++ d.l2).flatMap Tree.topRefs).countP (fun n => Tree.beq n d.ref) = 1 := by
  have h1 : (blocks.flatten.flatMap Tree.topRefs).countP (fun n => Tree.beq n d.ref) = 1 := by
    have := hc i d.o (Nat.le_refl _) hd.ho
    rw [hd.hrefs] at this
    simp only [List.length_singleton] at this
    rw [← this]
    apply List.countP_congr
    intro n hn
    rw [(points_iff hd h hn).1]
  have h2 : d.o.sub.topRefs.countP (fun n => Tree.beq n d.ref) = 0 := by
    rw [List.countP_eq_zero]
    intro n hn hb
    have h3 := Tree.refNodes_size _ _ (Tree.topRefs_sub_refNodes _ _ hn)
    have h4 := Tree.beq_size _ _ hb
    have := size_lt (d := d)
    omega
  rw [hd.hflat] at h1
  simp only [List.flatMap_append, List.flatMap_cons, List.countP_append, h2] at h1 ⊢
  omega

theorem new_collect {β : Type} (fi : SVS → Option Quantity → β) (fs : SVS → Nat → β) (hd : d.Ok i blocks outs) :
    Tree.collect fi fs d.new = Tree.collect fi fs d.o.sub := by
  unfold FoldData.new; split
  · rw [hd.hs]; rfl
  · rfl

theorem new_topRefs (hd : d.Ok i blocks outs) : d.new.topRefs = d.o.sub.topRefs := by
  unfold FoldData.new; split
  · rw [hd.hs]; rfl
  · rfl

/-- **conservation**: one inlining keeps every written node, exactly once -/
theorem collect_count {β : Type} (fi : SVS → Option Quantity → β) (fs : SVS → Nat → β) (hd : d.Ok i blocks outs)
    (h : FoldInv i blocks outs) (hc : RefCount i blocks outs) (p : β → Bool) :
    ((d.blocks' blocks).flatten.flatMap (Tree.collect fi fs)).countP p = (blocks.flatten.flatMap (Tree.collect fi fs)).countP p := by
  rw [flatNew hd, collect_subst_flat fi fs d.ref d.new rfl p, occ_one hd h hc, new_collect fi fs hd, hd.hflat]
  simp only [List.flatMap_append, List.flatMap_cons, List.countP_append]
  omega

theorem refCount (hd : d.Ok i blocks outs) (h : FoldInv i blocks outs) (hc : RefCount i blocks outs) :
    RefCount (i + 1) (d.blocks' blocks) (d.outs' outs) := by
  intro k ok' hk hok'
  unfold FoldData.outs' at hok'
  rw [List.getElem?_map] at hok'
  cases hok : outs[k]? with
  | none => rw [hok] at hok'; cases hok'
  | some ok =>
    rw [hok] at hok'
    simp only [Option.map_some, Option.some.injEq] at hok'
    subst hok'
    have hokm : ok ∈ outs := List.mem_of_getElem? hok
    have hnames : (NamedOutput.substitute d.ref d.new ok).sub.subNames = ok.sub.subNames :=
      Tree.subNames_subst d.ref d.new ok.sub rfl (h.shape ok hokm)
    have hidx : (NamedOutput.substitute d.ref d.new ok).idx = ok.idx := rfl
    have hlen : (NamedOutput.substitute d.ref d.new ok).refs.length = ok.refs.length := by
      simp [NamedOutput.substitute]
    rw [hnames, hidx, hlen, ← hc k ok (by omega) hok]
    have hdist := h.distinct i k d.o ok hd.ho hok (by omega) hd.hnum
    rw [flatNew hd, topRefs_subst_flat d.ref d.new rfl _ (d.l1 ++ d.l2), occ_one hd h hc, new_topRefs hd, hd.hflat]
    · simp only [List.flatMap_append, List.flatMap_cons, List.countP_append]
      omega
    · intro T hT s j a hn
      have hnf : Tree.reference s j a ∈ blocks.flatten.flatMap Tree.topRefs :=
        List.mem_flatMap.mpr ⟨T, mem_flat hd hT, hn⟩
      constructor
      · intro hb
        rw [(points_iff hd h hnf).2 hb]
        simp [FoldData.ref, pointsTo, hdist.1]
      · obtain ⟨_, oe, _, _, _, _, hne, hsub⟩ := topRef_recorded h hnf
        have hs : s = oe.sub := by injection hne
        simp only [pointsTo]
        rw [Tree.subNames_subst d.ref d.new s rfl (by rw [hs]; exact hsub)]

end FoldData.Ok



mutual
theorem topRefs_embedTree (roots : List Tree) : ∀ nt : NTree,
    (embedTree roots nt).topRefs = nt.refs.map (fun r => Tree.reference (roots[r.1]?.getD default) r.2.1 r.2.2)
  | .ingredient .. => rfl
  | .step d inputs => by simp only [embedTree, Tree.topRefs, NTree.refs]; exact topRefs_embedTrees roots inputs
  | .nref .. => rfl
theorem topRefs_embedTrees (roots : List Tree) : ∀ nts : List NTree,
    Tree.topRefsList (embedTrees roots nts) =
      (NTree.refsList nts).map (fun r => Tree.reference (roots[r.1]?.getD default) r.2.1 r.2.2)
  | [] => rfl
  | t :: ts => by
    simp [embedTrees, Tree.topRefsList, NTree.refsList, topRefs_embedTree roots t, topRefs_embedTrees roots ts]
end

theorem topRefs_embedStmt (roots : List Tree) (s : NStmt) :
    (embedStmt roots s).topRefs = (embedTree roots s.tree).topRefs := by
  unfold embedStmt; split <;> rfl

/-- every reference of the program points to a defined name of an earlier statement -/
theorem allRefs_defined (asts : List (List AStmt)) (ns : List NStmt) (h : Spec.blocks asts = .ok ns) :
    ∀ r ∈ allRefs ns, ∃ key, (key, r.1, r.2.1) ∈ definedNames ns := by
  intro r hr
  simp only [allRefs, List.mem_flatMap, List.mem_map] at hr
  obtain ⟨s, hs, x, hx, rfl⟩ := hr
  obtain ⟨k, hk⟩ := List.mem_iff_getElem?.mp hs
  obtain ⟨key, hdef⟩ := (spec_stmt_facts asts ns h k s hk).2 x hx
  exact ⟨key, (definedNames_take hdef).1⟩

/-- the references outside copies of the elaborated roots are the references of the program, in order -/
theorem topRefs_rootsOf (asts : List (List AStmt)) (ns : List NStmt) (h : Spec.blocks asts = .ok ns) :
    ∀ k, k ≤ ns.length → (rootsOf (ns.take k)).flatMap Tree.topRefs =
      (allRefs (ns.take k)).map (fun r => Tree.reference ((rootsOf ns)[r.1]?.getD default) r.2.1 r.2.2.1)
  | 0, _ => by simp [rootsOf, allRefs]
  | k + 1, hk => by
    have ih := topRefs_rootsOf asts ns h k (by omega)
    have hlt : k < ns.length := by omega
    have hs : ns[k]? = some ns[k] := List.getElem?_eq_getElem hlt
    have htake : ns.take (k + 1) = ns.take k ++ [ns[k]] := by
      rw [List.take_add_one, hs]; rfl
    rw [htake, rootsOf_snoc, allRefs_snoc, List.flatMap_append, List.map_append, ih]
    congr 1
    simp only [List.flatMap_cons, List.flatMap_nil, List.append_nil, topRefs_embedStmt, topRefs_embedTree,
      List.map_map]
    apply List.map_congr_left
    intro x hx
    obtain ⟨key, hdef⟩ := (spec_stmt_facts asts ns h k _ hs).2 x hx
    have hxk := (definedNames_take hdef).2
    simp only at hxk
    simp only [Function.comp]
    rw [rootsOf_take_getElem ns k x.1 hxk (by omega)]

theorem refCount_init (asts : List (List AStmt)) (bs : List Block) (st : CState)
    (h : compileBlocks 0 {} asts = .ok (bs, st)) : RefCount 0 bs st.outputs := by
  obtain ⟨ns, hs, hbs⟩ := (elab_ok_iff asts bs).mp ⟨st, h⟩
  obtain ⟨_, hflat⟩ := elab_table asts bs st h ns hs
  have hU := spec_keys_unique asts ns hs
  intro k o _ ho
  obtain ⟨key, sid, s, b, hd, hsid, hroot, hsubeq, hname, _, hrefs⟩ := elab_entry asts bs st h ns hs k o ho
  have htop := topRefs_rootsOf asts ns hs ns.length (Nat.le_refl _)
  rw [List.take_length] at htop
  rw [← hflat, htop, hrefs, List.length_map, ← List.countP_eq_length_filter, List.countP_map]
  apply List.countP_congr
  intro r hr
  obtain ⟨key', hdef⟩ := allRefs_defined asts ns hs r hr
  obtain ⟨s', b', hs', hr', hn'⟩ := root_of_defined ns _ hdef
  simp only at hs' hr' hn'
  have hne : s'.names ≠ [] := by intro hnil; rw [hnil] at hn'; simp at hn'
  simp only [Function.comp, hr', Option.getD_some, pointsTo, hsubeq, Tree.subNames]
  by_cases he : r.1 = sid
  · rw [he, hsid] at hs'
    cases hs'
    simp [he]
  · have : (s'.names == s.names) = false := by
      cases hx : (s'.names == s.names) with
      | false => rfl
      | true => exact absurd (same_stmt_of_names ns hU r.1 sid s' s hs' hsid hne (Or.inl hx)) he
    simp [this, he]



-- ---------------------------------------------------------------- expansion and the history of the roots
mutual
/-- the pure step/ingredient tree a recipe tree stands for: every reference is replaced by the expansion of its
    embedded copy, sub recipe wrappers and amounts are dropped -/
def Tree.expandH : Tree → Tree
  | .ingredient d q => .ingredient d q
  | .step d i => .step d (Tree.expandHList i)
  | .reference s _ _ => Tree.expandH s
  | .sub b _ _ => Tree.expandH b
def Tree.expandHList : List Tree → List Tree
  | [] => []
  | t :: ts => Tree.expandH t :: Tree.expandHList ts
end

mutual
/-- substituting a tree with the same expansion for a reference keeps the expansion, provided the nodes `==` to the
    reference are the reference itself -/
theorem Tree.expandH_subst (old new : Tree) (hr : old.isRef = true) (he : old.expandH = new.expandH) : ∀ t : Tree,
    (∀ n ∈ t.refNodes, Tree.beq n old = true → n = old) → (Tree.subst old new t).expandH = t.expandH
  | .ingredient d q, _ => by
    have : Tree.beq (.ingredient d q) old = false := by cases old <;> simp [Tree.isRef] at hr; simp [Tree.beq]
    simp [Tree.subst, this]
  | .step d i, h => by
    have : Tree.beq (.step d i) old = false := by cases old <;> simp [Tree.isRef] at hr; simp [Tree.beq]
    simp only [Tree.subst, this, Bool.false_eq_true, if_false, Tree.expandH]
    rw [Tree.expandHList_subst old new hr he i (by simpa [Tree.refNodes] using h)]
  | .reference s j a, h => by
    simp only [Tree.subst]
    cases hb : Tree.beq (.reference s j a) old with
    | true =>
      simp only [if_true]
      rw [← he, ← h _ (by simp [Tree.refNodes]) hb]
    | false =>
      simp only [Bool.false_eq_true, if_false, Tree.expandH]
      exact Tree.expandH_subst old new hr he s (fun n hn => h n (by simp [Tree.refNodes, hn]))
  | .sub b ns sh, h => by
    rw [Tree.subst_sub _ _ _ _ _ hr]
    simp only [Tree.expandH]
    exact Tree.expandH_subst old new hr he b (by simpa [Tree.refNodes] using h)
theorem Tree.expandHList_subst (old new : Tree) (hr : old.isRef = true) (he : old.expandH = new.expandH) :
    ∀ ts : List Tree, (∀ n ∈ Tree.refNodesList ts, Tree.beq n old = true → n = old) →
    Tree.expandHList (Tree.substList old new ts) = Tree.expandHList ts
  | [], _ => rfl
  | t :: ts, h => by
    simp only [Tree.substList, Tree.expandHList]
    rw [Tree.expandH_subst old new hr he t (fun n hn => h n (by simp [Tree.refNodesList, hn])),
      Tree.expandHList_subst old new hr he ts (fun n hn => h n (by simp [Tree.refNodesList, hn]))]
end

/-- a composition of inlining substitutions: each replaces a reference to a sub recipe by that sub recipe or by its
    body -/
inductive InlineChainH : (Tree → Tree) → Prop
  | nil : InlineChainH id
  | step {σ : Tree → Tree} (body : Tree) (ns : List SVS) (sh : Bool) (idx : Nat) (a : Amount) (unwrap : Bool) :
      InlineChainH σ →
      InlineChainH (fun t => Tree.subst (.reference (.sub body ns sh) idx a)
        (if unwrap then body else .sub body ns sh) (σ t))

/-- the roots of `bs'` descend from those of `bs`: block by block a sublist (same order), each root rewritten by the
    same composition of inlining substitutions, with the same expansion -/
def DescendsH (bs bs' : List Block) : Prop :=
  ∃ σ, InlineChainH σ ∧ bs'.length = bs.length ∧
    ∀ (b : Nat) (ts' : List Tree), bs'[b]? = some ts' →
      ∃ ts kept, bs[b]? = some ts ∧ List.Sublist kept ts ∧ ts' = kept.map σ ∧
        ∀ t ∈ kept, (σ t).expandH = t.expandH

theorem DescendsH.refl (bs : List Block) : DescendsH bs bs :=
  ⟨id, .nil, rfl, fun _ ts' h => ⟨ts', ts', h, List.Sublist.refl _, by simp, fun _ _ => rfl⟩⟩

namespace FoldData.Ok
variable {d : FoldData} {i : Nat} {blocks : List Block} {outs : List NamedOutput}

/-- a reference node of the recipe `==` to the replaced one is the replaced one -/
theorem node_eq_ref (hd : d.Ok i blocks outs) (h : FoldInv i blocks outs) {T n : Tree} (hT : T ∈ blocks.flatten)
    (hn : n ∈ T.refNodes) (hb : Tree.beq n d.ref = true) : n = d.ref := by
  obtain ⟨ok, hok, p, hp, hpe⟩ := h.nodes T hT n hn
  obtain ⟨k, hk⟩ := List.mem_iff_getElem?.mp hok
  obtain ⟨a, ha⟩ := h.refsShape ok hok p hp
  by_cases hki : k = i
  · subst hki
    rw [hd.ho] at hk; cases hk
    rw [hd.hrefs] at hp
    simp only [List.mem_singleton] at hp
    rw [← hpe, hp]
  · exfalso
    have hdist := h.distinct i k d.o ok hd.ho hk (Ne.symm hki) hd.hnum
    rw [← hpe, ha] at hb
    have := Tree.beq_subNames (Tree.beq_ref_target hb)
    rw [hdist.2] at this; cases this

theorem expand_eq (hd : d.Ok i blocks outs) (h : FoldInv i blocks outs) {T : Tree} (hT : T ∈ blocks.flatten) :
    (Tree.subst d.ref d.new T).expandH = T.expandH := by
  apply Tree.expandH_subst d.ref d.new rfl
  · unfold FoldData.new; split
    · simp only [FoldData.ref, Tree.expandH]; rw [hd.hs]; rfl
    · rfl
  · exact fun n hn hb => node_eq_ref hd h hT hn hb

theorem descends (hd : d.Ok i blocks outs) (h : FoldInv i blocks outs) {bs0 : List Block}
    (h0 : DescendsH bs0 blocks) : DescendsH bs0 (d.blocks' blocks) := by
  obtain ⟨σ, hσ, hl, hrel⟩ := h0
  refine ⟨fun t => Tree.subst d.ref d.new (σ t), ?_, by simp [FoldData.blocks', hl], ?_⟩
  · have := InlineChainH.step d.body d.ns d.sh d.o.idx d.am d.o.unwrap hσ
    simp only [FoldData.ref, FoldData.new, hd.hs]
    exact this
  · intro b ts' hts'
    unfold FoldData.blocks' at hts'
    rw [List.getElem?_map] at hts'
    cases hx : (blocks.set d.o.defBlock (d.t1 ++ d.t2))[b]? with
    | none => rw [hx] at hts'; cases hts'
    | some x =>
      rw [hx] at hts'
      simp only [Option.map_some, Option.some.injEq] at hts'
      -- `x` is a sublist of the block it comes from
      have hsub : ∃ ts1, blocks[b]? = some ts1 ∧ List.Sublist x ts1 := by
        rw [List.getElem?_set] at hx
        split at hx
        · rename_i hdb
          split at hx
          · cases hx
            rw [← hdb]
            exact ⟨_, hd.hb, List.Sublist.append (List.Sublist.refl _) (List.sublist_cons_self _ _)⟩
          · cases hx
        · exact ⟨x, hx, List.Sublist.refl _⟩
      obtain ⟨ts1, hts1, hsub1⟩ := hsub
      obtain ⟨ts, kept1, hts, hk1, he1, hexp1⟩ := hrel b ts1 hts1
      rw [he1, List.sublist_map_iff] at hsub1
      obtain ⟨kept2, hk2, hx2⟩ := hsub1
      refine ⟨ts, kept2, hts, hk2.trans hk1, ?_, ?_⟩
      · rw [← hts', hx2, Tree.substList_eq_map, List.map_map]; rfl
      · intro t ht
        have hmem : σ t ∈ blocks.flatten := by
          apply List.mem_flatten.mpr
          refine ⟨ts1, List.mem_of_getElem? hts1, ?_⟩
          rw [he1]
          exact List.mem_map_of_mem (hk2.subset ht)
        rw [expand_eq hd h hmem]
        exact hexp1 t (hk2.subset ht)

end FoldData.Ok

theorem RefCount.next {i : Nat} {blocks : List Block} {outs : List NamedOutput} (h : RefCount i blocks outs) :
    RefCount (i + 1) blocks outs := fun k o hk => h k o (by omega)

/-- everything the loop keeps, from any state satisfying the invariants -/
theorem foldAll_inv2 : ∀ (n i : Nat) (blocks : List Block) (outs : List NamedOutput),
    FoldInv i blocks outs → RefCount i blocks outs →
    ∃ blocks' outs', foldAll n i blocks outs = .ok (blocks', outs') ∧ FoldInv (i + n) blocks' outs' ∧
      RefCount (i + n) blocks' outs' ∧
      (∀ {β : Type} (fi : SVS → Option Quantity → β) (fs : SVS → Nat → β) (p : β → Bool),
        (blocks'.flatten.flatMap (Tree.collect fi fs)).countP p = (blocks.flatten.flatMap (Tree.collect fi fs)).countP p) ∧
      (∀ bs0, DescendsH bs0 blocks → DescendsH bs0 blocks')
  | 0, i, blocks, outs, h, hc => ⟨blocks, outs, rfl, h, hc, fun _ _ _ => rfl, fun _ h0 => h0⟩
  | n + 1, i, blocks, outs, h, hc => by
    have hi : i + (n + 1) = i + 1 + n := by omega
    rcases foldStep_shape h with hs | ⟨d, hd⟩
    · obtain ⟨b2, o2, hs2, h2, hc2, hw2, hd2⟩ := foldAll_inv2 n (i + 1) blocks outs h.next hc.next
      refine ⟨b2, o2, ?_, by rw [hi]; exact h2, by rw [hi]; exact hc2, hw2, hd2⟩
      simp only [foldAll, hs]; exact hs2
    · obtain ⟨b2, o2, hs2, h2, hc2, hw2, hd2⟩ :=
        foldAll_inv2 n (i + 1) _ _ (hd.inv h) (hd.refCount h hc)
      refine ⟨b2, o2, ?_, by rw [hi]; exact h2, by rw [hi]; exact hc2, ?_, ?_⟩
      · simp only [foldAll, hd.hstep]; exact hs2
      · intro β fi fs p; rw [hw2 fi fs p, hd.collect_count fi fs h hc p]
      · intro bs0 h0; exact hd2 bs0 (hd.descends h h0)



-- ---------------------------------------------------------------- sublists as order-preserving injections
theorem sublist_index_map {α : Type} {l1 l2 : List α} (h : l1.Sublist l2) :
    ∃ f : Nat → Nat, (∀ i j, i < j → j < l1.length → f i < f j) ∧ ∀ j, j < l1.length → l2[f j]? = l1[j]? := by
  induction h with
  | slnil => exact ⟨id, fun _ _ h _ => h, fun _ h => by simp at h⟩
  | cons a _ ih =>
    obtain ⟨f, hm, hg⟩ := ih
    exact ⟨fun j => f j + 1, fun i j hij hj => Nat.succ_lt_succ (hm i j hij hj), fun j hj => by simpa using hg j hj⟩
  | cons_cons a _ ih =>
    obtain ⟨f, hm, hg⟩ := ih
    refine ⟨fun j => match j with | 0 => 0 | j + 1 => f j + 1, ?_, ?_⟩
    · intro i j hij hj
      cases j with
      | zero => omega
      | succ j =>
        cases i with
        | zero => simp
        | succ i =>
          simp only [List.length_cons] at hj
          exact Nat.succ_lt_succ (hm i j (by omega) (by omega))
    · intro j hj
      cases j with
      | zero => simp
      | succ j =>
        simp only [List.length_cons] at hj
        simpa using hg j (by omega)

-- ---------------------------------------------------------------- `compile` in terms of its three phases
theorem elabBlocks_ok {srcs : List Str} {bs : List Block} {st : CState} (h : elabBlocks srcs = .ok (bs, st)) :
    ∃ asts, parseAll 0 srcs = .ok asts ∧ compileBlocks 0 {} asts = .ok (bs, st) := by
  unfold elabBlocks at h
  cases hp : parseAll 0 srcs with
  | error e => rw [hp] at h; cases h
  | ok asts => rw [hp] at h; exact ⟨asts, rfl, h⟩

theorem compile_of_elab {srcs : List Str} {bs : List Block} {st : CState} (h : elabBlocks srcs = .ok (bs, st)) :
    compile srcs =
      match foldAll st.outputs.length 0 bs st.outputs with
      | .error why => .internal why
      | .ok (blocks, _) => if checkBlocks [] blocks then .ok blocks else .internal "ReferenceToInvalidSubRecipeError" := by
  unfold compile
  rw [h]
  rfl

/-- an accepted description: `compile` returns what the inlining loop leaves -/
theorem compile_ok_fold {srcs : List Str} {bs bs' : List Block} {st : CState} (h : elabBlocks srcs = .ok (bs, st))
    (hc : compile srcs = .ok bs') : ∃ outs', foldAll st.outputs.length 0 bs st.outputs = .ok (bs', outs') := by
  rw [compile_of_elab h] at hc
  cases hf : foldAll st.outputs.length 0 bs st.outputs with
  | error why => rw [hf] at hc; cases hc
  | ok p =>
    obtain ⟨b2, o2⟩ := p
    rw [hf] at hc
    simp only [] at hc
    split at hc
    · cases hc; exact ⟨o2, rfl⟩
    · cases hc

/-- the state after `n` iterations from the elaborated state -/
theorem fold_reachable (asts : List (List AStmt)) (bs : List Block) (st : CState)
    (h : compileBlocks 0 {} asts = .ok (bs, st)) (n : Nat) :
    ∃ b1 o1, foldAll n 0 bs st.outputs = .ok (b1, o1) ∧ FoldInv n b1 o1 ∧ RefCount n b1 o1 ∧
      (∀ {β : Type} (fi : SVS → Option Quantity → β) (fs : SVS → Nat → β) (p : β → Bool),
        (b1.flatten.flatMap (Tree.collect fi fs)).countP p = (bs.flatten.flatMap (Tree.collect fi fs)).countP p) ∧
      DescendsH bs b1 := by
  obtain ⟨b1, o1, hf, h1, h2, h3, h4⟩ :=
    foldAll_inv2 n 0 bs st.outputs (foldInv_init asts bs st h) (refCount_init asts bs st h)
  rw [Nat.zero_add] at h1 h2
  exact ⟨b1, o1, hf, h1, h2, h3, h4 bs (DescendsH.refl bs)⟩



-- ---------------------------------------------------------------- structural validity (`C03.ValidS`) on the flattened blocks
theorem validBlockS_mono : ∀ (b : Block) (prev prev' : List Tree), (∀ x ∈ prev, x ∈ prev') →
    C03.ValidBlockS prev b → C03.ValidBlockS prev' b
  | [], _, _, _, _ => trivial
  | t :: ts, prev, prev', hsub, h => by
    refine ⟨fun s hs => hsub s (h.1 s hs), validBlockS_mono ts _ _ ?_ h.2⟩
    intro x hx
    cases ht : t.isSub with
    | false => simp only [ht, Bool.false_eq_true, if_false] at hx ⊢; exact hsub x hx
    | true =>
      simp only [ht, if_true, List.mem_cons] at hx ⊢
      exact hx.imp id (hsub x)

theorem validBlockS_append : ∀ (b c : Block) (prev : List Tree),
    C03.ValidBlockS prev (b ++ c) ↔ (C03.ValidBlockS prev b ∧ C03.ValidBlockS ((b.filter Tree.isSub).reverse ++ prev) c)
  | [], c, prev => by simp [C03.ValidBlockS]
  | t :: b, c, prev => by
    simp only [List.cons_append, C03.ValidBlockS, validBlockS_append b c, and_assoc]
    cases ht : t.isSub <;> simp [ht]

theorem validS_of_flatten : ∀ (bs : List Block) (prev : List Tree), C03.ValidBlockS prev bs.flatten → C03.ValidS prev bs
  | [], _, _ => trivial
  | b :: bs, prev, h => by
    rw [List.flatten_cons, validBlockS_append] at h
    refine ⟨h.1, validS_of_flatten bs _ (validBlockS_mono _ _ _ ?_ h.2)⟩
    intro x hx
    simp only [List.mem_append, List.mem_reverse] at hx ⊢
    exact hx.symm

theorem validBlockS_of_pos : ∀ (b : Block) (prev : List Tree),
    (∀ (p : Nat) (T : Tree), b[p]? = some T → ∀ s ∈ T.refTargets,
      s ∈ prev ∨ ∃ k, k < p ∧ b[k]? = some s ∧ s.isSub = true) → C03.ValidBlockS prev b
  | [], _, _ => trivial
  | t :: ts, prev, h => by
    refine ⟨?_, validBlockS_of_pos ts _ ?_⟩
    · intro s hs
      rcases h 0 t rfl s hs with h' | ⟨k, hk, _⟩
      · exact h'
      · omega
    · intro p T hp s hs
      rcases h (p + 1) T (by simpa using hp) s hs with h' | ⟨k, hk, hks, hsub⟩
      · left
        cases t.isSub <;> simp [h']
      · cases k with
        | zero =>
          simp only [List.getElem?_cons_zero, Option.some.injEq] at hks
          subst hks
          left; simp [hsub]
        | succ k => exact Or.inr ⟨k, by omega, by simpa using hks, hsub⟩

/-- a recipe whose embedded copies are earlier roots is structurally valid in the sense of `C03.ValidS` -/
theorem validS_of_scoped (bs : List Block) (h : Scoped bs.flatten) : C03.ValidS [] bs := by
  apply validS_of_flatten
  apply validBlockS_of_pos
  intro p T hp s hs
  obtain ⟨i, a, hn⟩ := Tree.refTargets_refNodes T s hs
  exact Or.inr (h p T hp s i a hn)



-- ---------------------------------------------------------------- generic preservation along the loop
theorem foldAll_preserves (P : List Block → List NamedOutput → Prop)
    (hP : ∀ (d : FoldData) (i : Nat) (blocks : List Block) (outs : List NamedOutput), d.Ok i blocks outs →
      FoldInv i blocks outs → RefCount i blocks outs → P blocks outs → P (d.blocks' blocks) (d.outs' outs)) :
    ∀ (n i : Nat) (blocks : List Block) (outs : List NamedOutput), FoldInv i blocks outs → RefCount i blocks outs →
      P blocks outs → ∀ b' o', foldAll n i blocks outs = .ok (b', o') → P b' o'
  | 0, _, _, _, _, _, hp, _, _, hf => by cases hf; exact hp
  | n + 1, i, blocks, outs, h, hc, hp, b', o', hf => by
    rcases foldStep_shape h with hs | ⟨d, hd⟩
    · simp only [foldAll, hs] at hf
      exact foldAll_preserves P hP n (i + 1) blocks outs h.next hc.next hp b' o' hf
    · simp only [foldAll, hd.hstep] at hf
      exact foldAll_preserves P hP n (i + 1) _ _ (hd.inv h) (hd.refCount h hc) (hP d i blocks outs hd h hc hp) b' o' hf

-- ---------------------------------------------------------------- trees the constructors accept
mutual
/-- every node is accepted by its constructor (`mkStep`, `mkSub`, `mkReference`) -/
def Tree.wfB : Tree → Bool
  | .ingredient .. => true
  | .step _ i => Tree.wfBList i
  | .reference s idx _ => decide (idx < s.numOutputs) && Tree.wfB s
  | .sub b ns _ => b.canBeChild && !ns.isEmpty && Tree.wfB b
def Tree.wfBList : List Tree → Bool
  | [] => true
  | t :: ts => t.canBeChild && Tree.wfB t && Tree.wfBList ts
end

theorem Tree.canBeChild_subst (old new t : Tree) (hr : old.isRef = true) (hn : new.canBeChild = true)
    (ht : t.canBeChild = true) : (Tree.subst old new t).canBeChild = true := by
  cases t with
  | ingredient d q =>
    have : Tree.beq (.ingredient d q) old = false := by cases old <;> simp [Tree.isRef] at hr; simp [Tree.beq]
    simp [Tree.subst, this, Tree.canBeChild]
  | step d i =>
    have : Tree.beq (.step d i) old = false := by cases old <;> simp [Tree.isRef] at hr; simp [Tree.beq]
    simp [Tree.subst, this, Tree.canBeChild]
  | reference s j a =>
    simp only [Tree.subst]
    split
    · exact hn
    · rfl
  | sub b ns sh =>
    rw [Tree.subst_sub _ _ _ _ _ hr]
    exact ht

theorem Tree.numOutputs_subst (old new s : Tree) (hr : old.isRef = true) (hs : s.isSub = true) :
    (Tree.subst old new s).numOutputs = s.numOutputs := by
  rw [Tree.numOutputs_eq, Tree.numOutputs_eq, Tree.subNames_subst old new s hr hs]

mutual
theorem Tree.wfB_subst (old new : Tree) (hr : old.isRef = true) (hnw : new.wfB = true) (hnc : new.canBeChild = true) :
    ∀ t : Tree, t.wfB = true → (Tree.subst old new t).wfB = true
  | .ingredient d q, _ => by
    have : Tree.beq (.ingredient d q) old = false := by cases old <;> simp [Tree.isRef] at hr; simp [Tree.beq]
    simp [Tree.subst, this, Tree.wfB]
  | .step d i, h => by
    have : Tree.beq (.step d i) old = false := by cases old <;> simp [Tree.isRef] at hr; simp [Tree.beq]
    simp only [Tree.subst, this, Bool.false_eq_true, if_false, Tree.wfB] at h ⊢
    exact Tree.wfBList_subst old new hr hnw hnc i h
  | .reference s j a, h => by
    simp only [Tree.subst]
    split
    · exact hnw
    · simp only [Tree.wfB, Bool.and_eq_true, decide_eq_true_eq] at h ⊢
      have hsub : s.isSub = true := by
        cases s <;> simp [Tree.numOutputs] at h <;> rfl
      exact ⟨by rw [Tree.numOutputs_subst old new s hr hsub]; exact h.1, Tree.wfB_subst old new hr hnw hnc s h.2⟩
  | .sub b ns sh, h => by
    rw [Tree.subst_sub _ _ _ _ _ hr]
    simp only [Tree.wfB, Bool.and_eq_true] at h ⊢
    exact ⟨⟨Tree.canBeChild_subst old new b hr hnc h.1.1, h.1.2⟩, Tree.wfB_subst old new hr hnw hnc b h.2⟩
theorem Tree.wfBList_subst (old new : Tree) (hr : old.isRef = true) (hnw : new.wfB = true)
    (hnc : new.canBeChild = true) : ∀ ts : List Tree, Tree.wfBList ts = true →
    Tree.wfBList (Tree.substList old new ts) = true
  | [], _ => rfl
  | t :: ts, h => by
    simp only [Tree.substList, Tree.wfBList, Bool.and_eq_true] at h ⊢
    exact ⟨⟨Tree.canBeChild_subst old new t hr hnc h.1.1, Tree.wfB_subst old new hr hnw hnc t h.1.2⟩,
      Tree.wfBList_subst old new hr hnw hnc ts h.2⟩
end

/-- every root is accepted by the constructors -/
def WFAll (blocks : List Block) : Prop := ∀ T ∈ blocks.flatten, T.wfB = true

theorem FoldData.Ok.wfAll {d : FoldData} {i : Nat} {blocks : List Block} {outs : List NamedOutput}
    (hd : d.Ok i blocks outs) (hw : WFAll blocks) : WFAll (d.blocks' blocks) := by
  intro T' hT'
  rw [hd.flatNew] at hT'
  obtain ⟨T, hT, rfl⟩ := List.mem_map.mp hT'
  have hsub := hw _ hd.sub_mem_flat
  have hnum := hd.hnum
  rw [hd.hs] at hsub hnum
  simp only [Tree.wfB, Bool.and_eq_true] at hsub
  apply Tree.wfB_subst d.ref d.new rfl
  · unfold FoldData.new; split
    · exact hsub.2
    · rw [hd.hs]; simp only [Tree.wfB, Bool.and_eq_true]; exact hsub
  · unfold FoldData.new; split
    · exact hsub.1.1
    · rw [hd.hs]
      simp only [Tree.numOutputs] at hnum
      simp [Tree.canBeChild, hnum]
  · exact hw T (hd.mem_flat hT)

mutual
theorem wfB_embedTree (roots : List Tree) : ∀ nt : NTree,
    (∀ r ∈ nt.refs, r.2.1 < (roots[r.1]?.getD default).numOutputs ∧ (roots[r.1]?.getD default).wfB = true) →
    (embedTree roots nt).wfB = true
  | .ingredient .., _ => rfl
  | .step d inputs, h => by
    simp only [embedTree, Tree.wfB]
    exact wfB_embedTrees roots inputs (by simpa [NTree.refs] using h)
  | .nref sid idx a, h => by
    have := h (sid, idx, a) (by simp [NTree.refs])
    simp only [embedTree, Tree.wfB, Bool.and_eq_true, decide_eq_true_eq]
    exact this
theorem wfB_embedTrees (roots : List Tree) : ∀ nts : List NTree,
    (∀ r ∈ NTree.refsList nts, r.2.1 < (roots[r.1]?.getD default).numOutputs ∧ (roots[r.1]?.getD default).wfB = true) →
    Tree.wfBList (embedTrees roots nts) = true
  | [], _ => rfl
  | t :: ts, h => by
    simp only [embedTrees, Tree.wfBList, Bool.and_eq_true]
    refine ⟨⟨?_, wfB_embedTree roots t (fun r hr => h r (by simp [NTree.refsList, hr]))⟩,
      wfB_embedTrees roots ts (fun r hr => h r (by simp [NTree.refsList, hr]))⟩
    have := embedTree_not_sub roots t
    cases he : embedTree roots t <;> simp [he, Tree.isSub] at this <;> rfl
end

theorem wfB_root (asts : List (List AStmt)) (ns : List NStmt) (h : Spec.blocks asts = .ok ns) :
    ∀ (k : Nat) (r : Tree), (rootsOf ns)[k]? = some r → r.wfB = true := by
  intro k
  induction k using Nat.strongRecOn with
  | _ k ih =>
    intro r hr
    have hlt : k < ns.length := by
      have := (List.getElem?_eq_some_iff.mp hr).1; rwa [rootsOf_length] at this
    have hs : ns[k]? = some ns[k] := List.getElem?_eq_getElem hlt
    rw [rootsOf_getElem ns k _ hs] at hr
    cases hr
    have htree : (embedTree (rootsOf (ns.take k)) (ns[k]).tree).wfB = true := by
      apply wfB_embedTree
      intro x hx
      obtain ⟨key, hdef⟩ := (spec_stmt_facts asts ns h k _ hs).2 x hx
      obtain ⟨hdef', hxk⟩ := definedNames_take hdef
      simp only at hxk
      rw [rootsOf_take_getElem ns k x.1 hxk (by omega)]
      obtain ⟨s', b', hs', hr', hn'⟩ := root_of_defined ns _ hdef'
      simp only at hs' hr' hn'
      rw [hr']
      simp only [Option.getD_some, Tree.numOutputs]
      refine ⟨?_, ih x.1 hxk _ hr'⟩
      cases hx' : s'.names[x.2.1]? with
      | none => rw [hx'] at hn'; cases hn'
      | some _ => exact (List.getElem?_eq_some_iff.mp hx').1
    unfold embedStmt
    split
    · exact htree
    · rename_i hne
      simp only [Tree.wfB, Bool.and_eq_true]
      refine ⟨⟨?_, by simpa using hne⟩, htree⟩
      have := embedTree_not_sub (rootsOf (ns.take k)) (ns[k]).tree
      cases he : embedTree (rootsOf (ns.take k)) (ns[k]).tree <;> simp [he, Tree.isSub] at this <;> rfl

theorem wfAll_init (asts : List (List AStmt)) (bs : List Block) (st : CState)
    (h : compileBlocks 0 {} asts = .ok (bs, st)) : WFAll bs := by
  obtain ⟨ns, hs, _⟩ := (elab_ok_iff asts bs).mp ⟨st, h⟩
  obtain ⟨_, hflat⟩ := elab_table asts bs st h ns hs
  intro T hT
  rw [← hflat] at hT
  obtain ⟨k, hk⟩ := List.mem_iff_getElem?.mp hT
  exact wfB_root asts ns hs k T hk

/-- the roots the loop leaves are accepted by the constructors -/
theorem foldAll_wfAll (asts : List (List AStmt)) (bs : List Block) (st : CState)
    (h : compileBlocks 0 {} asts = .ok (bs, st)) (n : Nat) (b' : List Block) (o' : List NamedOutput)
    (hf : foldAll n 0 bs st.outputs = .ok (b', o')) : WFAll b' :=
  foldAll_preserves (fun b _ => WFAll b) (fun _ _ _ _ hd _ _ hp => hd.wfAll hp) n 0 bs st.outputs
    (foldInv_init asts bs st h) (refCount_init asts bs st h) (wfAll_init asts bs st h) b' o' hf


/-- an accepted description went through the three phases -/
theorem compile_ok_phases {srcs : List Str} {bs' : List Block} (h : compile srcs = .ok bs') :
    ∃ asts bs st outs', parseAll 0 srcs = .ok asts ∧ compileBlocks 0 {} asts = .ok (bs, st) ∧
      elabBlocks srcs = .ok (bs, st) ∧ foldAll st.outputs.length 0 bs st.outputs = .ok (bs', outs') := by
  cases he : elabBlocks srcs with
  | error e =>
    exfalso
    have hc : compile srcs = e := by unfold compile; rw [he]
    rw [h] at hc
    unfold elabBlocks at he
    cases hp : parseAll 0 srcs with
    | error e' =>
      rw [hp] at he
      have : e' = e := by cases he; rfl
      rcases parseAll_error srcs 0 e' hp with ⟨b, hb⟩ | ⟨b, hb⟩ <;> rw [← hc, hb] at this <;> cases this
    | ok asts =>
      rw [hp] at he
      exact (C01.elab_no_other_error asts).2.2.2 bs' (by rw [hc]; exact he)
  | ok p =>
    obtain ⟨bs, st⟩ := p
    obtain ⟨asts, hp, hcb⟩ := elabBlocks_ok he
    obtain ⟨outs', hf⟩ := compile_ok_fold he h
    exact ⟨asts, bs, st, outs', hp, hcb, rfl, hf⟩

end RG
