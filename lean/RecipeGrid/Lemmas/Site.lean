import RecipeGrid.Model.Site
/-! Helper lemmas about `Model/Href.lean` and `Model/Site.lean`. Nothing here is a specification; the
    property statements live in `Props/C14.lean`, `Props/C15.lean` and `Props/C17.lean`. -/
namespace RG

-- ================================================================ string literals
theorem dot_lit : ".".toList = ['.'] := by decide
theorem dotdot_lit : "..".toList = ['.', '.'] := by decide

-- ================================================================ split / join
theorem joinSlash_nil : joinSlash [] = [] := rfl
theorem joinSlash_singleton (a : Str) : joinSlash [a] = a := by
  simp [joinSlash, List.intercalate, List.intersperse]
theorem joinSlash_cons_cons (a b : Str) (t : List Str) : joinSlash (a :: b :: t) = a ++ '/' :: joinSlash (b :: t) := by
  simp [joinSlash, List.intercalate, List.intersperse]

theorem joinSlash_cons_of_ne_nil (a : Str) (t : List Str) (h : t ≠ []) : joinSlash (a :: t) = a ++ '/' :: joinSlash t := by
  cases t with
  | nil => exact absurd rfl h
  | cons b t => exact joinSlash_cons_cons a b t

theorem joinSlash_append_singleton (xs : List Str) (y : Str) (h : xs ≠ []) :
    joinSlash (xs ++ [y]) = joinSlash xs ++ '/' :: y := by
  induction xs with
  | nil => exact absurd rfl h
  | cons a t ih =>
    cases t with
    | nil => simp [joinSlash_cons_cons, joinSlash_singleton]
    | cons b t =>
      have := ih (by simp)
      rw [List.cons_append, List.cons_append, joinSlash_cons_cons, ← List.cons_append, this, joinSlash_cons_cons]
      simp

theorem splitSlash_joinSlash (segs : List Str) (hne : segs ≠ []) (h : ∀ s ∈ segs, '/' ∉ s) :
    splitSlash (joinSlash segs) = segs :=
  List.splitOn_intercalate '/' h hne

theorem splitSlash_abs (segs : List Str) (hne : segs ≠ []) (h : ∀ s ∈ segs, '/' ∉ s) :
    splitSlash ('/' :: joinSlash segs) = [] :: segs := by
  have : '/' :: joinSlash segs = joinSlash ([] :: segs) := by
    rw [joinSlash_cons_of_ne_nil _ _ hne]; rfl
  rw [this]
  apply splitSlash_joinSlash
  · simp
  · intro s hs
    cases hs with
    | head => simp
    | tail _ hs => exact h s hs

/-- the first character of a joined path is the first character of its first segment -/
theorem joinSlash_head (c : Char) (x : Str) (rest : List Str) : ∃ t, joinSlash ((c :: x) :: rest) = c :: t := by
  cases rest with
  | nil => exact ⟨x, joinSlash_singleton _⟩
  | cons b t => exact ⟨_, by rw [joinSlash_cons_cons]; rfl⟩

-- ================================================================ common prefix
theorem commonPrefixLen_le_left (a b : List Str) : commonPrefixLen a b ≤ a.length := by
  induction a generalizing b with
  | nil => simp [commonPrefixLen]
  | cons x a ih =>
    cases b with
    | nil => simp [commonPrefixLen]
    | cons y b =>
      simp only [commonPrefixLen]
      split
      · have := ih b; simp; omega
      · simp

theorem commonPrefixLen_le_right (a b : List Str) : commonPrefixLen a b ≤ b.length := by
  induction a generalizing b with
  | nil => simp [commonPrefixLen]
  | cons x a ih =>
    cases b with
    | nil => simp [commonPrefixLen]
    | cons y b =>
      simp only [commonPrefixLen]
      split
      · have := ih b; simp; omega
      · simp

theorem commonPrefixLen_take (a b : List Str) :
    a.take (commonPrefixLen a b) = b.take (commonPrefixLen a b) := by
  induction a generalizing b with
  | nil => simp [commonPrefixLen]
  | cons x a ih =>
    cases b with
    | nil => simp [commonPrefixLen]
    | cons y b =>
      simp only [commonPrefixLen]
      split
      · rename_i h
        have h' : x = y := by simpa using h
        rw [Nat.add_comm, List.take_succ_cons, List.take_succ_cons, ih b, h']
      · simp

/-- if the common prefix is all of `b`, then `b` is a prefix of `a` -/
theorem prefix_of_commonPrefixLen_eq (a b : List Str) (h : commonPrefixLen a b = b.length) : b <+: a := by
  have h1 := commonPrefixLen_take a b
  rw [h, List.take_length] at h1
  exact ⟨a.drop b.length, by have := List.take_append_drop b.length a; rw [h1] at this; exact this⟩

theorem commonPrefixLen_of_prefix (a b : List Str) (h : b <+: a) : commonPrefixLen a b = b.length := by
  obtain ⟨t, rfl⟩ := h
  induction b with
  | nil => cases t <;> simp [commonPrefixLen]
  | cons y b ih => simp [commonPrefixLen, ih, Nat.add_comm]

theorem commonPrefixLen_cons_self (x : Str) (a b : List Str) :
    commonPrefixLen (x :: a) (x :: b) = 1 + commonPrefixLen a b := by
  simp [commonPrefixLen]

-- ================================================================ remove_dot_segments
theorem removeDots_normal (acc xs r : List Str) (h : ∀ s ∈ xs, s ≠ ['.'] ∧ s ≠ ['.', '.']) :
    removeDots acc (xs ++ r) = removeDots (xs.reverse ++ acc) r := by
  induction xs generalizing acc with
  | nil => rfl
  | cons x xs ih =>
    have hx := h x (by simp)
    rw [List.cons_append, removeDots]
    simp only [dot_lit, dotdot_lit, beq_iff_eq, hx.1, hx.2, if_false]
    rw [ih _ (fun s hs => h s (by simp [hs]))]
    simp

theorem removeDots_all_normal (acc xs : List Str) (h : ∀ s ∈ xs, s ≠ ['.'] ∧ s ≠ ['.', '.']) :
    removeDots acc xs = acc.reverse ++ xs := by
  have := removeDots_normal acc xs [] h
  rw [List.append_nil] at this
  rw [this, removeDots]
  simp

theorem removeDots_dotdots (acc : List Str) (k : Nat) (r : List Str) (hr : r ≠ []) :
    removeDots acc (List.replicate k "..".toList ++ r) = removeDots (acc.drop k) r := by
  induction k generalizing acc with
  | zero => simp
  | succ k ih =>
    have hne : (List.replicate k "..".toList ++ r).isEmpty = false := by
      cases k <;> cases r <;> simp_all [List.replicate_succ]
    rw [List.replicate_succ, List.cons_append, removeDots, hne]
    have h1 : ("..".toList == ".".toList) = false := by decide
    have h2 : ("..".toList == "..".toList) = true := by decide
    simp only [h1, h2, if_true, Bool.false_eq_true, if_false]
    rw [ih]
    simp

-- ================================================================ relative paths on segment lists
/-- `relativePath` computed on the segment lists of two absolute paths -/
theorem relativePath_abs (fs ts : List Str) (hf : fs ≠ []) (ht : ts ≠ [])
    (hfs : ∀ s ∈ fs, '/' ∉ s) (hts : ∀ s ∈ ts, '/' ∉ s) :
    relativePath ('/' :: joinSlash fs) ('/' :: joinSlash ts) =
      joinSlash (List.replicate (fs.dropLast.length - commonPrefixLen fs.dropLast ts) "..".toList
        ++ ts.drop (commonPrefixLen fs.dropLast ts)) := by
  unfold relativePath
  simp only [splitSlash_abs fs hf hfs, splitSlash_abs ts ht hts, List.dropLast_cons_of_ne_nil hf,
    commonPrefixLen_cons_self]
  congr 2
  · simp; omega
  · rw [Nat.add_comm, List.drop_succ_cons]

/-- the general law on segment lists: the relative path from `fs` to `ts` resolves, against `fs`, to `ts` -/
theorem relative_resolves_segs (fs ts : List Str) (hf : fs ≠ []) (ht : ts ≠ [])
    (hfs : ∀ s ∈ fs, s ≠ ".".toList ∧ s ≠ "..".toList ∧ '/' ∉ s)
    (hts : ∀ s ∈ ts, s ≠ [] ∧ s ≠ ".".toList ∧ s ≠ "..".toList ∧ '/' ∉ s)
    (hne : ¬ ts <+: fs.dropLast) :
    resolveRef ('/' :: joinSlash fs) (relativePath ('/' :: joinSlash fs) ('/' :: joinSlash ts)) = '/' :: joinSlash ts := by
  rw [relativePath_abs fs ts hf ht (fun s hs => (hfs s hs).2.2) (fun s hs => (hts s hs).2.2.2)]
  generalize hc : commonPrefixLen fs.dropLast ts = c
  have hcl : c ≤ fs.dropLast.length := hc ▸ commonPrefixLen_le_left _ _
  have hcr : c ≤ ts.length := hc ▸ commonPrefixLen_le_right _ _
  have hlt : c < ts.length := by
    rcases Nat.lt_or_ge c ts.length with h | h
    · exact h
    · exact absurd (prefix_of_commonPrefixLen_eq _ _ (by omega)) hne
  have htake : fs.dropLast.take c = ts.take c := hc ▸ commonPrefixLen_take _ _
  have hrest : ts.drop c ≠ [] := by
    intro h
    have := congrArg List.length h
    simp at this; omega
  -- the reference: non-empty, not starting with '/'
  have hLne : List.replicate (fs.dropLast.length - c) "..".toList ++ ts.drop c ≠ [] := by
    simp [hrest]
  have hLslash : ∀ s ∈ List.replicate (fs.dropLast.length - c) "..".toList ++ ts.drop c, '/' ∉ s := by
    intro s hs
    rcases List.mem_append.mp hs with h | h
    · rw [List.eq_of_mem_replicate h, dotdot_lit]; decide
    · exact (hts s (List.mem_of_mem_drop h)).2.2.2
  obtain ⟨ch, t, hhead, hch⟩ : ∃ ch t, joinSlash (List.replicate (fs.dropLast.length - c) "..".toList ++ ts.drop c) = ch :: t ∧ ch ≠ '/' := by
    cases hk : fs.dropLast.length - c with
    | zero =>
      cases hd : ts.drop c with
      | nil => exact absurd hd hrest
      | cons x rest =>
        have hx := hts x (List.mem_of_mem_drop (hd ▸ List.mem_cons_self))
        cases x with
        | nil => exact absurd rfl hx.1
        | cons ch x =>
          obtain ⟨t, ht⟩ := joinSlash_head ch x rest
          refine ⟨ch, t, by simpa using ht, ?_⟩
          intro h; subst h; exact hx.2.2.2 (by simp)
    | succ k =>
      rw [List.replicate_succ, dotdot_lit, List.cons_append]
      obtain ⟨t, ht⟩ := joinSlash_head '.' ['.'] (List.replicate k ['.', '.'] ++ ts.drop c)
      exact ⟨'.', t, ht, by decide⟩
  unfold resolveRef
  have h1 : (joinSlash (List.replicate (fs.dropLast.length - c) "..".toList ++ ts.drop c)).isEmpty = false := by
    rw [hhead]; rfl
  have h2 : ((joinSlash (List.replicate (fs.dropLast.length - c) "..".toList ++ ts.drop c)).head? == some '/') = false := by
    rw [hhead]; simpa using hch
  simp only [h1, h2, Bool.false_eq_true, if_false]
  rw [splitSlash_joinSlash _ hLne hLslash]
  simp only [List.drop_one, List.tail_cons]
  rw [splitSlash_joinSlash fs hf (fun s hs => (hfs s hs).2.2)]
  have hnormF : ∀ s ∈ fs.dropLast, s ≠ ['.'] ∧ s ≠ ['.', '.'] := by
    intro s hs
    have := hfs s (List.dropLast_subset _ hs)
    rw [dot_lit, dotdot_lit] at this
    exact ⟨this.1, this.2.1⟩
  have hnormT : ∀ s ∈ ts.drop c, s ≠ ['.'] ∧ s ≠ ['.', '.'] := by
    intro s hs
    have := hts s (List.mem_of_mem_drop hs)
    rw [dot_lit, dotdot_lit] at this
    exact ⟨this.2.1, this.2.2.1⟩
  rw [removeDots_normal [] _ _ hnormF, removeDots_dotdots _ _ _ hrest, removeDots_all_normal _ _ hnormT]
  congr 2
  rw [List.append_nil, List.drop_reverse, List.reverse_reverse]
  have : fs.dropLast.length - (fs.dropLast.length - c) = c := by omega
  rw [this, htake, List.take_append_drop]

/-- a link from a page to itself is the page's own file name -/
theorem relativePath_self_segs (fs : List Str) (hf : fs ≠ []) (hfs : ∀ s ∈ fs, '/' ∉ s) :
    relativePath ('/' :: joinSlash fs) ('/' :: joinSlash fs) = fs.getLast hf := by
  rw [relativePath_abs fs fs hf hf hfs hfs]
  have hp : commonPrefixLen fs.dropLast fs = fs.dropLast.length := by
    rw [show commonPrefixLen fs.dropLast fs = commonPrefixLen fs.dropLast fs from rfl]
    have h1 := commonPrefixLen_le_left fs.dropLast fs
    -- compute by induction on the list
    clear h1
    induction fs with
    | nil => exact absurd rfl hf
    | cons x t ih =>
      cases t with
      | nil => simp [commonPrefixLen]
      | cons y t =>
        rw [List.dropLast_cons_of_ne_nil (by simp), commonPrefixLen_cons_self,
          ih (by simp) (fun s hs => hfs s (by simp [hs]))]
        simp; omega
  rw [hp, Nat.sub_self, List.replicate_zero, List.nil_append]
  have : fs.drop fs.dropLast.length = [fs.getLast hf] := by
    have h := List.dropLast_concat_getLast hf
    conv => lhs; rw [← h]
    simp
  rw [this, joinSlash_singleton]

-- ================================================================ insertion sort
theorem insertSorted_perm {α} (le : α → α → Bool) (x : α) (l : List α) : (insertSorted le x l).Perm (x :: l) := by
  induction l with
  | nil => exact List.Perm.refl _
  | cons y ys ih =>
    simp only [insertSorted]
    split
    · exact List.Perm.refl _
    · exact (List.Perm.cons y ih).trans (List.Perm.swap x y ys)

theorem insertionSort_perm {α} (le : α → α → Bool) (l : List α) : (insertionSort le l).Perm l := by
  induction l with
  | nil => exact List.Perm.refl _
  | cons x xs ih =>
    simp only [insertionSort]
    exact (insertSorted_perm le x _).trans (List.Perm.cons x ih)

theorem mem_insertionSort {α} (le : α → α → Bool) (l : List α) (a : α) : a ∈ insertionSort le l ↔ a ∈ l :=
  (insertionSort_perm le l).mem_iff

theorem insertSorted_pairwise {α} (le : α → α → Bool) (x : α) (l : List α)
    (total : ∀ a ∈ x :: l, ∀ b ∈ x :: l, le a b = true ∨ le b a = true)
    (trans : ∀ a ∈ x :: l, ∀ b ∈ x :: l, ∀ c ∈ x :: l, le a b = true → le b c = true → le a c = true)
    (h : l.Pairwise (fun a b => le a b = true)) :
    (insertSorted le x l).Pairwise (fun a b => le a b = true) := by
  induction l with
  | nil => simp [insertSorted]
  | cons y ys ih =>
    simp only [insertSorted]
    have hy := List.pairwise_cons.mp h
    split
    · rename_i hxy
      refine List.pairwise_cons.mpr ⟨?_, h⟩
      intro z hz
      rcases List.mem_cons.mp hz with rfl | hz
      · exact hxy
      · exact trans x (by simp) y (by simp) z (by simp [hz]) hxy (hy.1 z hz)
    · rename_i hxy
      have hyx : le y x = true := by
        rcases total x (by simp) y (by simp) with h1 | h1
        · exact absurd h1 hxy
        · exact h1
      refine List.pairwise_cons.mpr ⟨?_, ?_⟩
      · intro z hz
        have := (insertSorted_perm le x ys).mem_iff.mp hz
        rcases List.mem_cons.mp this with rfl | hz
        · exact hyx
        · exact hy.1 z hz
      · apply ih
        · intro a ha b hb
          exact total a (by simp at ha ⊢; grind) b (by simp at hb ⊢; grind)
        · intro a ha b hb c hc
          exact trans a (by simp at ha ⊢; grind) b (by simp at hb ⊢; grind) c (by simp at hc ⊢; grind)
        · exact hy.2

theorem insertionSort_pairwise {α} (le : α → α → Bool) (l : List α)
    (total : ∀ a ∈ l, ∀ b ∈ l, le a b = true ∨ le b a = true)
    (trans : ∀ a ∈ l, ∀ b ∈ l, ∀ c ∈ l, le a b = true → le b c = true → le a c = true) :
    (insertionSort le l).Pairwise (fun a b => le a b = true) := by
  induction l with
  | nil => simp [insertionSort]
  | cons x xs ih =>
    simp only [insertionSort]
    have hm : ∀ a, a ∈ x :: insertionSort le xs → a ∈ x :: xs := by
      intro a ha
      rcases List.mem_cons.mp ha with rfl | ha
      · simp
      · exact List.mem_cons_of_mem _ ((mem_insertionSort le xs a).mp ha)
    apply insertSorted_pairwise
    · intro a ha b hb
      exact total a (hm a ha) b (hm b hb)
    · intro a ha b hb c hc
      exact trans a (hm a ha) b (hm b hb) c (hm c hc)
    · apply ih
      · intro a ha b hb
        exact total a (List.mem_cons_of_mem _ ha) b (List.mem_cons_of_mem _ hb)
      · intro a ha b hb c hc
        exact trans a (List.mem_cons_of_mem _ ha) b (List.mem_cons_of_mem _ hb) c (List.mem_cons_of_mem _ hc)

/-- the sorted list is determined by the multiset of elements when `le` is a total order on them -/
theorem insertionSort_eq_of_perm {α} (le : α → α → Bool) (l₁ l₂ : List α)
    (total : ∀ a ∈ l₁, ∀ b ∈ l₁, le a b = true ∨ le b a = true)
    (trans : ∀ a ∈ l₁, ∀ b ∈ l₁, ∀ c ∈ l₁, le a b = true → le b c = true → le a c = true)
    (antisymm : ∀ a ∈ l₁, ∀ b ∈ l₁, le a b = true → le b a = true → a = b)
    (h : l₁.Perm l₂) : insertionSort le l₁ = insertionSort le l₂ := by
  have m : ∀ a, a ∈ l₂ → a ∈ l₁ := fun a ha => h.mem_iff.mpr ha
  apply List.Perm.eq_of_pairwise (le := fun a b => le a b = true)
  · intro a b ha hb
    exact antisymm a ((mem_insertionSort le l₁ a).mp ha) b (m b ((mem_insertionSort le l₂ b).mp hb))
  · exact insertionSort_pairwise le l₁ total trans
  · exact insertionSort_pairwise le l₂ (fun a ha b hb => total a (m a ha) b (m b hb))
      (fun a ha b hb c hc => trans a (m a ha) b (m b hb) c (m c hc))
  · exact (insertionSort_perm le l₁).trans (h.trans (insertionSort_perm le l₂).symm)

-- ================================================================ strLe is a total order
theorem strLe_total (a b : Str) : strLe a b = true ∨ strLe b a = true := by
  induction a generalizing b with
  | nil => exact .inl (by simp [strLe])
  | cons x xs ih =>
    cases b with
    | nil => exact .inr (by simp [strLe])
    | cons y ys =>
      simp only [strLe]
      rcases Nat.lt_trichotomy x.toNat y.toNat with h | h | h
      · simp [h]
      · have h1 : ¬ x.toNat < y.toNat := by omega
        have h2 : ¬ y.toNat < x.toNat := by omega
        simp only [h1, h2, if_false]
        exact ih ys
      · have h1 : ¬ x.toNat < y.toNat := by omega
        simp [h, h1]

theorem strLe_trans (a b c : Str) (h1 : strLe a b = true) (h2 : strLe b c = true) : strLe a c = true := by
  induction a generalizing b c with
  | nil => simp [strLe]
  | cons x xs ih =>
    cases b with
    | nil => simp [strLe] at h1
    | cons y ys =>
      cases c with
      | nil => simp [strLe] at h2
      | cons z zs =>
        simp only [strLe] at h1 h2 ⊢
        split at h1
        · split at h2
          · have : x.toNat < z.toNat := by omega
            simp [this]
          · split at h2
            · simp at h2
            · have : x.toNat < z.toNat := by omega
              simp [this]
        · split at h1
          · simp at h1
          · split at h2
            · have : x.toNat < z.toNat := by omega
              simp [this]
            · split at h2
              · simp at h2
              · have e1 : ¬ x.toNat < z.toNat := by omega
                have e2 : ¬ x.toNat > z.toNat := by omega
                simp only [e1, e2, if_false]
                exact ih ys zs h1 h2

theorem strLe_antisymm (a b : Str) (h1 : strLe a b = true) (h2 : strLe b a = true) : a = b := by
  induction a generalizing b with
  | nil =>
    cases b with
    | nil => rfl
    | cons y ys => simp [strLe] at h2
  | cons x xs ih =>
    cases b with
    | nil => simp [strLe] at h1
    | cons y ys =>
      simp only [strLe, gt_iff_lt] at h1 h2
      by_cases hxy : x.toNat < y.toNat
      · have : ¬ y.toNat < x.toNat := by omega
        simp [hxy, this] at h2
      · by_cases hyx : y.toNat < x.toNat
        · simp [hxy, hyx] at h1
        · simp only [hxy, hyx, if_false] at h1 h2
          have : x = y := Char.toNat_inj.mp (by omega)
          rw [this, ih ys h1 h2]

-- ================================================================ the (title, name) order
/-- lexicographic order on two string keys, as the model's sort comparators are written -/
def keyLe {α} (k1 k2 : α → Str) (a b : α) : Bool :=
  if k1 a == k1 b then strLe (k2 a) (k2 b) else strLe (k1 a) (k1 b)

theorem keyLe_of_eq {α} (k1 k2 : α → Str) (a b : α) (h : k1 a = k1 b) : keyLe k1 k2 a b = strLe (k2 a) (k2 b) := by
  simp [keyLe, h]
theorem keyLe_of_ne {α} (k1 k2 : α → Str) (a b : α) (h : k1 a ≠ k1 b) : keyLe k1 k2 a b = strLe (k1 a) (k1 b) := by
  simp [keyLe, h]

theorem keyLe_total {α} (k1 k2 : α → Str) (a b : α) : keyLe k1 k2 a b = true ∨ keyLe k1 k2 b a = true := by
  by_cases h : k1 a = k1 b
  · rw [keyLe_of_eq _ _ _ _ h, keyLe_of_eq _ _ _ _ h.symm]
    exact strLe_total _ _
  · rw [keyLe_of_ne _ _ _ _ h, keyLe_of_ne _ _ _ _ (fun e => h e.symm)]
    exact strLe_total _ _

theorem keyLe_antisymm {α} (k1 k2 : α → Str) (a b : α) (h1 : keyLe k1 k2 a b = true) (h2 : keyLe k1 k2 b a = true) :
    k1 a = k1 b ∧ k2 a = k2 b := by
  by_cases h : k1 a = k1 b
  · rw [keyLe_of_eq _ _ _ _ h] at h1
    rw [keyLe_of_eq _ _ _ _ h.symm] at h2
    exact ⟨h, strLe_antisymm _ _ h1 h2⟩
  · rw [keyLe_of_ne _ _ _ _ h] at h1
    rw [keyLe_of_ne _ _ _ _ (fun e => h e.symm)] at h2
    exact absurd (strLe_antisymm _ _ h1 h2) h

theorem keyLe_trans {α} (k1 k2 : α → Str) (a b c : α) (h1 : keyLe k1 k2 a b = true) (h2 : keyLe k1 k2 b c = true) :
    keyLe k1 k2 a c = true := by
  by_cases hab : k1 a = k1 b <;> by_cases hbc : k1 b = k1 c
  · rw [keyLe_of_eq _ _ _ _ hab] at h1
    rw [keyLe_of_eq _ _ _ _ hbc] at h2
    rw [keyLe_of_eq _ _ _ _ (hab.trans hbc)]
    exact strLe_trans _ _ _ h1 h2
  · rw [keyLe_of_ne _ _ _ _ hbc] at h2
    rw [keyLe_of_ne _ _ _ _ (fun e => hbc (hab.symm.trans e)), hab]
    exact h2
  · rw [keyLe_of_ne _ _ _ _ hab] at h1
    rw [keyLe_of_ne _ _ _ _ (fun e => hab (e.trans hbc.symm)), ← hbc]
    exact h1
  · rw [keyLe_of_ne _ _ _ _ hab] at h1
    rw [keyLe_of_ne _ _ _ _ hbc] at h2
    have h3 := strLe_trans _ _ _ h1 h2
    by_cases hac : k1 a = k1 c
    · rw [← hac] at h2
      exact absurd (strLe_antisymm _ _ h1 h2) hab
    · rw [keyLe_of_ne _ _ _ _ hac]
      exact h3

/-- sorting by (key1, key2) does not depend on the input order when no two elements share both keys -/
theorem insertionSort_keyLe_perm {α} (k1 k2 : α → Str) (l₁ l₂ : List α) (h : l₁.Perm l₂)
    (hinj : ∀ a ∈ l₁, ∀ b ∈ l₁, k1 a = k1 b → k2 a = k2 b → a = b) :
    insertionSort (keyLe k1 k2) l₁ = insertionSort (keyLe k1 k2) l₂ := by
  apply insertionSort_eq_of_perm _ _ _ _ _ _ h
  · intro a _ b _; exact keyLe_total k1 k2 a b
  · intro a _ b _ c _; exact keyLe_trans k1 k2 a b c
  · intro a ha b hb h1 h2
    have := keyLe_antisymm k1 k2 a b h1 h2
    exact hinj a ha b hb this.1 this.2

-- ================================================================ the page hierarchy, unfolded
theorem Dir.ind {P : Dir → Prop} (h : ∀ n r recs subs, (∀ s ∈ subs, P s) → P (.mk n r recs subs)) : ∀ d, P d := by
  intro d
  exact Dir.rec (motive_1 := P) (motive_2 := fun l => ∀ s ∈ l, P s)
    (fun n r recs subs ih => h n r recs subs ih)
    (by intro s hs; cases hs)
    (fun d ds hd hds s hs => by
      rcases List.mem_cons.mp hs with rfl | hs
      · exact hd
      · exact hds s hs) d

theorem subcategoryPages_eq (M : Nat) (sv : Option Nat) (chain : List (Str × Str)) (dirs : List Str) (ds : List Dir) :
    subcategoryPages M sv chain dirs ds =
      (ds.flatMap (fun d => (categoryPages M sv chain dirs false d).1),
       ds.map (fun d => ((categoryPages M sv chain dirs false d).2.1, (categoryPages M sv chain dirs false d).2.2, d.name))) := by
  induction ds with
  | nil => simp [subcategoryPages]
  | cons d ds ih =>
    rw [subcategoryPages, ih]
    simp

/-- title of a category page -/
def catTitle (sv : Option Nat) (isRoot : Bool) (d : Dir) : Str :=
  if isRoot then (match sv with | some n => "Recipes for ".toList ++ natDigits n | none => "Categories".toList) else d.title
/-- directory names from the scale root down to (and including) this category -/
def catDirs (dirs : List Str) (isRoot : Bool) (d : Dir) : List Str := if isRoot then [] else dirs ++ [d.name]

def subLe (a b : Str × Str × Str) : Bool := if a.1 == b.1 then strLe a.2.2 b.2.2 else strLe a.1 b.1
def recLe (a b : Str × Str × List Page × Str) : Bool := if a.1 == b.1 then strLe a.2.2.2 b.2.2.2 else strLe a.1 b.1

/-- the page of a scalable recipe (native servings `native`) in the `serves n` hierarchy -/
def scaledPage (M n native : Nat) (chain : List (Str × Str)) (dirs : List Str) (r : RecipeFile) : Page :=
  let rp := recipePath (some n) dirs r.file
  Page.mk rp r.title (breadcrumbs (chain ++ [(r.title, rp)]) rp ++ [hrefRelative rp cssPath] ++
    (['#'] :: (List.range M).map fun m => hrefRelative rp (recipePath (some (m + 1)) dirs r.file)) ++
    (if n != native then [hrefRelative rp (recipePath (some native) dirs r.file)] else []))

/-- the page of an unscalable recipe (in the `categories` hierarchy) -/
def unscaledPage (chain : List (Str × Str)) (dirs : List Str) (r : RecipeFile) : Page :=
  let rp := recipePath none dirs r.file
  Page.mk rp r.title (breadcrumbs (chain ++ [(r.title, rp)]) rp ++ [hrefRelative rp cssPath])

/-- a recipe's entry in its category: (title, link target, its page in this hierarchy if any, file name) -/
def recEntry (M : Nat) (sv : Option Nat) (chain : List (Str × Str)) (dirs : List Str) (r : RecipeFile) : Str × Str × List Page × Str :=
  match r.servings with
  | none => (r.title, recipePath none dirs r.file, [], r.file)
  | some native =>
    match sv with
    | some n => (r.title, recipePath (some n) dirs r.file, [scaledPage M n native chain dirs r], r.file)
    | none => (r.title, recipePath (some native) dirs r.file, [], r.file)

def unscaledPages (sv : Option Nat) (chain : List (Str × Str)) (dirs : List Str) (recipes : List RecipeFile) : List Page :=
  if sv.isNone then recipes.filterMap fun r => if r.servings.isNone then some (unscaledPage chain dirs r) else none else []

/-- a category page: breadcrumbs, stylesheet, sorted sub-categories, sorted recipes -/
def catPage (sv : Option Nat) (chain : List (Str × Str)) (dirs : List Str) (title : Str)
    (subs : List (Str × Str × Str)) (recs : List (Str × Str × List Page × Str)) : Page :=
  let path := catPath sv dirs
  Page.mk path title (breadcrumbs chain path ++ [hrefRelative path cssPath]
    ++ (insertionSort subLe subs).map (fun s => hrefRelative path s.2.1)
    ++ (insertionSort recLe recs).map (fun r => hrefRelative path r.2.1))

theorem categoryPages_eq0 (M : Nat) (sv : Option Nat) (chain : List (Str × Str)) (dirs : List Str) (isRoot : Bool) (d : Dir) :
    categoryPages M sv chain dirs isRoot d =
      (catPage sv (chain ++ [(catTitle sv isRoot d, catPath sv (catDirs dirs isRoot d))]) (catDirs dirs isRoot d) (catTitle sv isRoot d)
          (d.subdirs.map fun s =>
            ((categoryPages M sv (chain ++ [(catTitle sv isRoot d, catPath sv (catDirs dirs isRoot d))]) (catDirs dirs isRoot d) false s).2.1,
             (categoryPages M sv (chain ++ [(catTitle sv isRoot d, catPath sv (catDirs dirs isRoot d))]) (catDirs dirs isRoot d) false s).2.2, s.name))
          (d.recipes.map (recEntry M sv (chain ++ [(catTitle sv isRoot d, catPath sv (catDirs dirs isRoot d))]) (catDirs dirs isRoot d)))
        :: d.subdirs.flatMap (fun s => (categoryPages M sv (chain ++ [(catTitle sv isRoot d, catPath sv (catDirs dirs isRoot d))]) (catDirs dirs isRoot d) false s).1)
        ++ (d.recipes.map (recEntry M sv (chain ++ [(catTitle sv isRoot d, catPath sv (catDirs dirs isRoot d))]) (catDirs dirs isRoot d))).flatMap (·.2.2.1)
        ++ unscaledPages sv (chain ++ [(catTitle sv isRoot d, catPath sv (catDirs dirs isRoot d))]) (catDirs dirs isRoot d) d.recipes,
       (catTitle sv isRoot d, catPath sv (catDirs dirs isRoot d))) := by
  cases d with
  | mk name readme recipes subdirs =>
    cases sv with
    | none =>
      rw [categoryPages, subcategoryPages_eq]
      rfl
    | some n =>
      rw [categoryPages, subcategoryPages_eq]
      rfl

theorem categoryPages_snd (M : Nat) (sv : Option Nat) (chain : List (Str × Str)) (dirs : List Str) (isRoot : Bool) (d : Dir) :
    (categoryPages M sv chain dirs isRoot d).2 = (catTitle sv isRoot d, catPath sv (catDirs dirs isRoot d)) := by
  rw [categoryPages_eq0]

/-- the chain handed to the children of a category -/
def chainOf (sv : Option Nat) (chain : List (Str × Str)) (dirs : List Str) (isRoot : Bool) (d : Dir) : List (Str × Str) :=
  chain ++ [(catTitle sv isRoot d, catPath sv (catDirs dirs isRoot d))]

/-- (title, path, name) of the sub-categories, in listing order -/
def subEntries (sv : Option Nat) (dirs : List Str) (subdirs : List Dir) : List (Str × Str × Str) :=
  subdirs.map fun s => (s.title, catPath sv (dirs ++ [s.name]), s.name)

/-- the page of a recipe in the hierarchy `sv`, if it has one there -/
def recipePageOf (M : Nat) (sv : Option Nat) (chain : List (Str × Str)) (dirs : List Str) (r : RecipeFile) : Option Page :=
  match sv, r.servings with
  | some n, some native => some (scaledPage M n native chain dirs r)
  | none, none => some (unscaledPage chain dirs r)
  | _, _ => none

theorem recipe_pages_eq (M : Nat) (sv : Option Nat) (chain : List (Str × Str)) (dirs : List Str) (recipes : List RecipeFile) :
    (recipes.map (recEntry M sv chain dirs)).flatMap (·.2.2.1) ++ unscaledPages sv chain dirs recipes
      = recipes.filterMap (recipePageOf M sv chain dirs) := by
  cases sv with
  | none =>
    have h1 : (recipes.map (recEntry M none chain dirs)).flatMap (·.2.2.1) = [] := by
      induction recipes with
      | nil => rfl
      | cons r rs ih =>
        rw [List.map_cons, List.flatMap_cons, ih]
        cases hr : r.servings <;> simp [recEntry, hr]
    rw [h1, List.nil_append]
    simp only [unscaledPages, Option.isNone_none, if_true]
    congr 1
    funext r
    cases hr : r.servings <;> simp [recipePageOf, hr]
  | some n =>
    have h2 : ∀ rs, unscaledPages (some n) chain dirs rs = [] := by intro rs; simp [unscaledPages]
    rw [h2, List.append_nil]
    induction recipes with
    | nil => rfl
    | cons r rs ih =>
      rw [List.map_cons, List.flatMap_cons, ih]
      cases hr : r.servings <;> simp [recEntry, recipePageOf, hr]

/-- the closed form of one category: its own page, the sub-hierarchies, the recipe pages -/
theorem categoryPages_eq (M : Nat) (sv : Option Nat) (chain : List (Str × Str)) (dirs : List Str) (isRoot : Bool) (d : Dir) :
    categoryPages M sv chain dirs isRoot d =
      (catPage sv (chainOf sv chain dirs isRoot d) (catDirs dirs isRoot d) (catTitle sv isRoot d)
          (subEntries sv (catDirs dirs isRoot d) d.subdirs)
          (d.recipes.map (recEntry M sv (chainOf sv chain dirs isRoot d) (catDirs dirs isRoot d)))
        :: (d.subdirs.flatMap (fun s => (categoryPages M sv (chainOf sv chain dirs isRoot d) (catDirs dirs isRoot d) false s).1)
        ++ d.recipes.filterMap (recipePageOf M sv (chainOf sv chain dirs isRoot d) (catDirs dirs isRoot d))),
       (catTitle sv isRoot d, catPath sv (catDirs dirs isRoot d))) := by
  rw [categoryPages_eq0, ← recipe_pages_eq]
  simp only [categoryPages_snd, chainOf, subEntries, catTitle, catDirs, Bool.false_eq_true, if_false, List.append_assoc]
  rfl

theorem mem_categoryPages (M : Nat) (sv : Option Nat) (chain : List (Str × Str)) (dirs : List Str) (isRoot : Bool) (d : Dir) (p : Page) :
    p ∈ (categoryPages M sv chain dirs isRoot d).1 ↔
      p = catPage sv (chainOf sv chain dirs isRoot d) (catDirs dirs isRoot d) (catTitle sv isRoot d)
          (subEntries sv (catDirs dirs isRoot d) d.subdirs)
          (d.recipes.map (recEntry M sv (chainOf sv chain dirs isRoot d) (catDirs dirs isRoot d)))
      ∨ (∃ s ∈ d.subdirs, p ∈ (categoryPages M sv (chainOf sv chain dirs isRoot d) (catDirs dirs isRoot d) false s).1)
      ∨ (∃ r ∈ d.recipes, recipePageOf M sv (chainOf sv chain dirs isRoot d) (catDirs dirs isRoot d) r = some p) := by
  rw [categoryPages_eq]
  simp only [List.mem_cons, List.mem_append, List.mem_flatMap, List.mem_filterMap]

-- ================================================================ navigating the source tree
/-- `SubDir d rel d'`: following the directory names `rel` down from `d` reaches `d'` -/
inductive SubDir : Dir → List Str → Dir → Prop
  | here (d : Dir) : SubDir d [] d
  | sub {d s d' : Dir} {rel : List Str} : s ∈ d.subdirs → SubDir s rel d' → SubDir d (s.name :: rel) d'

theorem catDirs_false (dirs : List Str) (s : Dir) : catDirs dirs false s = dirs ++ [s.name] := by simp [catDirs]
theorem catDirs_true (dirs : List Str) (s : Dir) : catDirs dirs true s = [] := by simp [catDirs]

theorem recipePageOf_some {M : Nat} {sv : Option Nat} {chain : List (Str × Str)} {dirs : List Str} {r : RecipeFile} {p : Page}
    (h : recipePageOf M sv chain dirs r = some p) :
    r.servings.isSome = sv.isSome ∧ p.path = recipePath sv dirs r.file ∧ p.title = r.title := by
  unfold recipePageOf at h
  split at h
  · rename_i h1; cases h; simp [h1, scaledPage]
  · rename_i h1; cases h; simp [h1, unscaledPage]
  · cases h

theorem recipePageOf_isSome {M : Nat} {sv : Option Nat} {chain : List (Str × Str)} {dirs : List Str} {r : RecipeFile}
    (h : r.servings.isSome = sv.isSome) : ∃ p, recipePageOf M sv chain dirs r = some p := by
  unfold recipePageOf
  cases sv <;> cases hr : r.servings <;> simp_all

/-- every page of a hierarchy is the category page of some directory of the tree or the page of a recipe in it -/
theorem pages_sound (M : Nat) (sv : Option Nat) : ∀ (d : Dir) (chain : List (Str × Str)) (dirs : List Str) (isRoot : Bool),
    ∀ p ∈ (categoryPages M sv chain dirs isRoot d).1, ∃ rel d', SubDir d rel d' ∧
      (p.path = catPath sv (catDirs dirs isRoot d ++ rel) ∨
       ∃ r ∈ d'.recipes, r.servings.isSome = sv.isSome ∧ p.path = recipePath sv (catDirs dirs isRoot d ++ rel) r.file ∧ p.title = r.title) := by
  intro d
  induction d using Dir.ind with
  | h n rd recs subs ih =>
    intro chain dirs isRoot p hp
    rw [mem_categoryPages] at hp
    rcases hp with rfl | ⟨s, hs, hp⟩ | ⟨r, hr, hp⟩
    · exact ⟨[], _, SubDir.here _, .inl (by simp [catPage])⟩
    · obtain ⟨rel, d', hsub, h⟩ := ih s hs _ _ _ p hp
      refine ⟨s.name :: rel, d', SubDir.sub hs hsub, ?_⟩
      rw [catDirs_false, List.append_assoc] at h
      exact h
    · have := recipePageOf_some hp
      exact ⟨[], _, SubDir.here _, .inr ⟨r, hr, by simpa using this⟩⟩

/-- every directory of the tree has its category page in the hierarchy -/
theorem catPage_complete (M : Nat) (sv : Option Nat) {d d' : Dir} {rel : List Str} (h : SubDir d rel d') :
    ∀ (chain : List (Str × Str)) (dirs : List Str) (isRoot : Bool),
      ∃ p ∈ (categoryPages M sv chain dirs isRoot d).1, p.path = catPath sv (catDirs dirs isRoot d ++ rel) := by
  induction h with
  | here d =>
    intro chain dirs isRoot
    exact ⟨_, (mem_categoryPages ..).mpr (.inl rfl), by simp [catPage]⟩
  | @sub d s d' rel hs _ ih =>
    intro chain dirs isRoot
    obtain ⟨p, hp, hpath⟩ := ih (chainOf sv chain dirs isRoot d) (catDirs dirs isRoot d) false
    refine ⟨p, (mem_categoryPages ..).mpr (.inr (.inl ⟨s, hs, hp⟩)), ?_⟩
    rw [hpath, catDirs_false, List.append_assoc]
    rfl

/-- every recipe of the tree has its page in the hierarchies it belongs to -/
theorem recipePage_complete (M : Nat) (sv : Option Nat) {d d' : Dir} {rel : List Str} (h : SubDir d rel d')
    (r : RecipeFile) (hr : r ∈ d'.recipes) (hsv : r.servings.isSome = sv.isSome) :
    ∀ (chain : List (Str × Str)) (dirs : List Str) (isRoot : Bool),
      ∃ p ∈ (categoryPages M sv chain dirs isRoot d).1,
        p.path = recipePath sv (catDirs dirs isRoot d ++ rel) r.file ∧ p.title = r.title := by
  induction h with
  | here d =>
    intro chain dirs isRoot
    obtain ⟨p, hp⟩ := recipePageOf_isSome (M := M) (chain := chainOf sv chain dirs isRoot d) (dirs := catDirs dirs isRoot d) hsv
    have := recipePageOf_some hp
    exact ⟨p, (mem_categoryPages ..).mpr (.inr (.inr ⟨r, hr, hp⟩)), by simpa using this.2⟩
  | @sub d s d' rel hs _ ih =>
    intro chain dirs isRoot
    obtain ⟨p, hp, hpath⟩ := ih hr (chainOf sv chain dirs isRoot d) (catDirs dirs isRoot d) false
    refine ⟨p, (mem_categoryPages ..).mpr (.inr (.inl ⟨s, hs, hp⟩)), ?_⟩
    rw [hpath.1, catDirs_false, List.append_assoc]
    exact ⟨rfl, hpath.2⟩

-- ================================================================ the whole site
def homeChain (root : Dir) (rootName : Str) : List (Str × Str) := [(root.title (some rootName), "/index.html".toList)]
def homePage (root : Dir) (rootName : Str) (M : Nat) : Page :=
  Page.mk "/index.html".toList (root.title (some rootName))
    ([hrefRelative "/index.html".toList cssPath]
      ++ (List.range M).map (fun m => hrefRelative "/index.html".toList (catPath (some (m + 1)) []))
      ++ [hrefRelative "/index.html".toList (catPath none [])])

theorem mem_bracketed_range_map {α} (a b : α) (f : Nat → α) (M : Nat) (l : α) :
    l ∈ [a] ++ (List.range M).map f ++ [b] ↔ l = a ∨ (∃ m, m < M ∧ l = f m) ∨ l = b := by
  simp only [List.mem_append, List.mem_cons, List.mem_map, List.mem_range, List.not_mem_nil, or_false, or_assoc]
  constructor
  · rintro (h | ⟨m, hm, h⟩ | h)
    · exact .inl h
    · exact .inr (.inl ⟨m, hm, h.symm⟩)
    · exact .inr (.inr h)
  · rintro (h | ⟨m, hm, h⟩ | h)
    · exact .inl h
    · exact .inr (.inl ⟨m, hm, h.symm⟩)
    · exact .inr (.inr h)

theorem mem_homePage_links (root : Dir) (rootName : Str) (M : Nat) (l : Str) :
    l ∈ (homePage root rootName M).links ↔
      l = hrefRelative (homePage root rootName M).path cssPath
      ∨ (∃ m, m < M ∧ l = hrefRelative (homePage root rootName M).path (catPath (some (m + 1)) []))
      ∨ l = hrefRelative (homePage root rootName M).path (catPath none []) :=
  mem_bracketed_range_map _ _ _ M l

theorem sitePages_ok (root : Dir) (rootName : Str) (M : Nat) (ps : List Page) :
    sitePages root rootName M = .ok ps ↔
      maxNativeServings root ≤ M ∧
      ps = homePage root rootName M ::
        ((List.range M).flatMap (fun m => (categoryPages M (some (m + 1)) (homeChain root rootName) [] true root).1)
          ++ (categoryPages M none (homeChain root rootName) [] true root).1) := by
  unfold sitePages
  split
  · constructor
    · intro h; cases h
    · intro h; omega
  · constructor
    · intro h
      refine ⟨by omega, ?_⟩
      cases h
      rfl
    · intro h
      rw [h.2]
      rfl

/-- the hierarchies of a site with maximum `M`: `categories` and `serves1` … `servesM` -/
def SvOK (M : Nat) : Option Nat → Prop
  | none => True
  | some n => 1 ≤ n ∧ n ≤ M

theorem mem_sitePages {root : Dir} {rootName : Str} {M : Nat} {ps : List Page} (h : sitePages root rootName M = .ok ps) (p : Page) :
    p ∈ ps ↔ p = homePage root rootName M ∨
      ∃ sv, SvOK M sv ∧ p ∈ (categoryPages M sv (homeChain root rootName) [] true root).1 := by
  rw [((sitePages_ok ..).mp h).2]
  simp only [List.mem_cons, List.mem_append, List.mem_flatMap, List.mem_range]
  constructor
  · rintro (h | ⟨m, hm, h⟩ | h)
    · exact .inl h
    · exact .inr ⟨some (m + 1), ⟨by omega, by omega⟩, h⟩
    · exact .inr ⟨none, trivial, h⟩
  · rintro (h | ⟨sv, hsv, h⟩)
    · exact .inl h
    · cases sv with
      | none => exact .inr (.inr h)
      | some n =>
        obtain ⟨h1, h2⟩ := hsv
        refine .inr (.inl ⟨n - 1, by omega, ?_⟩)
        have : n - 1 + 1 = n := by omega
        rw [this]; exact h

-- ================================================================ native servings are bounded by the maximum
theorem le_foldl_max (l : List Nat) (a : Nat) : a ≤ l.foldl max a ∧ ∀ x ∈ l, x ≤ l.foldl max a := by
  induction l generalizing a with
  | nil => simp
  | cons y ys ih =>
    simp only [List.foldl_cons]
    have := ih (max a y)
    refine ⟨by omega, ?_⟩
    intro x hx
    rcases List.mem_cons.mp hx with rfl | hx
    · omega
    · exact this.2 x hx

theorem maxNativeServings_le_list {s : Dir} {ds : List Dir} (h : s ∈ ds) : maxNativeServings s ≤ maxNativeServingsList ds := by
  induction ds with
  | nil => cases h
  | cons d ds ih =>
    rw [maxNativeServingsList]
    rcases List.mem_cons.mp h with rfl | h
    · omega
    · have := ih h; omega

theorem servings_le_max {d d' : Dir} {rel : List Str} (h : SubDir d rel d') (r : RecipeFile) (hr : r ∈ d'.recipes)
    (k : Nat) (hk : r.servings = some k) : k ≤ maxNativeServings d := by
  induction h with
  | here d =>
    cases d with
    | mk n rd recs subs =>
      rw [maxNativeServings]
      have := (le_foldl_max (recs.map fun r => r.servings.getD 0) 0).2 k
        (List.mem_map.mpr ⟨r, hr, by simp [hk]⟩)
      omega
  | @sub d s d' rel hs _ ih =>
    have h1 := ih hr
    have h2 := maxNativeServings_le_list hs
    cases d with
    | mk n rd recs subs =>
      rw [maxNativeServings]
      simp only [Dir.subdirs] at h2
      omega

-- ================================================================ page paths as segment lists
theorem catPath_segs (sv : Option Nat) (dirs : List Str) :
    catPath sv dirs = '/' :: joinSlash (scaleRoot sv :: dirs ++ ["index.html".toList]) := by
  rw [joinSlash_append_singleton _ _ (by simp)]
  rfl

theorem recipePath_segs (sv : Option Nat) (dirs : List Str) (file : Str) :
    recipePath sv dirs file = '/' :: joinSlash (scaleRoot sv :: dirs ++ [stemOf file ++ ".html".toList]) := by
  rw [joinSlash_append_singleton _ _ (by simp)]
  simp [recipePath, catDir]

theorem slash_not_mem_natDigits (n : Nat) : '/' ∉ natDigits n := by
  intro h
  have := Nat.isDigit_of_mem_toDigits (by decide) (by decide) h
  revert this; decide

theorem scaleRoot_ok (sv : Option Nat) :
    scaleRoot sv ≠ [] ∧ scaleRoot sv ≠ ".".toList ∧ scaleRoot sv ≠ "..".toList ∧ '/' ∉ scaleRoot sv := by
  cases sv with
  | none => decide
  | some n =>
    have e : scaleRoot (some n) = 's' :: ("erves".toList ++ natDigits n) := rfl
    rw [e, dot_lit, dotdot_lit]
    refine ⟨by simp, by simp, by simp, ?_⟩
    intro h
    rcases List.mem_cons.mp h with h | h
    · revert h; decide
    · rcases List.mem_append.mp h with h | h
      · revert h; decide
      · exact slash_not_mem_natDigits n h

theorem htmlSeg_ok (stem : Str) (h : '/' ∉ stem) :
    stem ++ ".html".toList ≠ [] ∧ stem ++ ".html".toList ≠ ".".toList ∧ stem ++ ".html".toList ≠ "..".toList
      ∧ '/' ∉ stem ++ ".html".toList := by
  have hl : (stem ++ ".html".toList).length ≥ 5 := by
    rw [List.length_append]
    have : ".html".toList.length = 5 := by decide
    omega
  refine ⟨?_, ?_, ?_, ?_⟩
  · intro e; rw [e] at hl; simp at hl
  · intro e; rw [e] at hl; revert hl; decide
  · intro e; rw [e] at hl; revert hl; decide
  · intro hm
    rcases List.mem_append.mp hm with hm | hm
    · exact h hm
    · revert hm; decide

-- ================================================================ link targets
/-- a generated link is the in-page anchor `#` or the relative link from `frm` to a target in `T` -/
def LinkOK (T : Str → Prop) (frm : Str) (l : Str) : Prop := l = ['#'] ∨ ∃ t, T t ∧ l = hrefRelative frm t

/-- the link targets a recipe needs: its native-servings page, every page of the serving menu, its own page -/
def RecTargets (M : Nat) (sv : Option Nat) (T : Str → Prop) (dirs : List Str) (r : RecipeFile) : Prop :=
  match r.servings with
  | none => T (recipePath none dirs r.file)
  | some native => T (recipePath (some native) dirs r.file) ∧ (∀ m, m < M → T (recipePath (some (m + 1)) dirs r.file))
      ∧ (∀ n, sv = some n → T (recipePath (some n) dirs r.file))

theorem breadcrumbs_ok (T : Str → Prop) (chain : List (Str × Str)) (frm : Str) (h : ∀ c ∈ chain, T c.2) :
    ∀ l ∈ breadcrumbs chain frm, LinkOK T frm l := by
  intro l hl
  obtain ⟨c, hc, rfl⟩ := List.mem_map.mp hl
  exact .inr ⟨c.2, h c hc, rfl⟩

theorem recEntry_target (M : Nat) (sv : Option Nat) (T : Str → Prop) (chain : List (Str × Str)) (dirs : List Str) (r : RecipeFile)
    (h : RecTargets M sv T dirs r) : T (recEntry M sv chain dirs r).2.1 := by
  unfold RecTargets at h
  unfold recEntry
  cases hr : r.servings with
  | none => simp only [hr] at h ⊢; exact h
  | some native =>
    simp only [hr] at h ⊢
    cases sv with
    | none => exact h.1
    | some n => exact h.2.2 n rfl

theorem recipePage_links_ok (M : Nat) (sv : Option Nat) (T : Str → Prop) (hcss : T cssPath) (chain : List (Str × Str)) (dirs : List Str)
    (r : RecipeFile) (p : Page) (hchain : ∀ c ∈ chain, T c.2) (h : RecTargets M sv T dirs r)
    (hp : recipePageOf M sv chain dirs r = some p) : ∀ l ∈ p.links, LinkOK T p.path l := by
  unfold RecTargets at h
  unfold recipePageOf at hp
  cases sv with
  | some n =>
    cases hr : r.servings with
    | none => simp [hr] at hp
    | some native =>
      simp only [hr, Option.some.injEq] at hp h
      subst hp
      have hself : T (recipePath (some n) dirs r.file) := h.2.2 n rfl
      intro l hl
      simp only [scaledPage, List.mem_append, List.mem_cons, List.mem_map, List.mem_range, List.not_mem_nil, or_false] at hl
      rcases hl with ((hl | hl) | hl) | hl
      · apply breadcrumbs_ok T _ _ _ l hl
        intro c hc
        rcases List.mem_append.mp hc with hc | hc
        · exact hchain c hc
        · have : c = (r.title, recipePath (some n) dirs r.file) := by simpa using hc
          rw [this]; exact hself
      · exact .inr ⟨cssPath, hcss, hl⟩
      · rcases hl with hl | ⟨m, hm, hl⟩
        · exact .inl hl
        · exact .inr ⟨_, h.2.1 m hm, hl.symm⟩
      · split at hl
        · have : l = hrefRelative (recipePath (some n) dirs r.file) (recipePath (some native) dirs r.file) := by simpa using hl
          exact .inr ⟨_, h.1, this⟩
        · cases hl
  | none =>
    cases hr : r.servings with
    | some native => simp [hr] at hp
    | none =>
      simp only [hr, Option.some.injEq] at hp h
      subst hp
      intro l hl
      simp only [unscaledPage, List.mem_append, List.mem_cons, List.not_mem_nil, or_false] at hl
      rcases hl with hl | hl
      · apply breadcrumbs_ok T _ _ _ l hl
        intro c hc
        rcases List.mem_append.mp hc with hc | hc
        · exact hchain c hc
        · have : c = (r.title, recipePath none dirs r.file) := by simpa using hc
          rw [this]; exact h
      · exact .inr ⟨cssPath, hcss, hl⟩

/-- every generated link of every page of a hierarchy points into `T`, provided `T` contains the stylesheet, the
    pages above, the category pages of the sub-tree and the recipe pages the lists and menus refer to -/
theorem links_target (M : Nat) (sv : Option Nat) (T : Str → Prop) (hcss : T cssPath) :
    ∀ (d : Dir) (chain : List (Str × Str)) (dirs : List Str) (isRoot : Bool),
      (∀ c ∈ chain, T c.2) →
      (∀ rel d', SubDir d rel d' → T (catPath sv (catDirs dirs isRoot d ++ rel))) →
      (∀ rel d' r, SubDir d rel d' → r ∈ d'.recipes → RecTargets M sv T (catDirs dirs isRoot d ++ rel) r) →
      ∀ p ∈ (categoryPages M sv chain dirs isRoot d).1, ∀ l ∈ p.links, LinkOK T p.path l := by
  intro d
  induction d using Dir.ind with
  | h n rd recs subs ih =>
    intro chain dirs isRoot hchain hcat hrec p hp
    have hme : T (catPath sv (catDirs dirs isRoot (Dir.mk n rd recs subs))) := by
      have := hcat [] _ (SubDir.here _)
      rwa [List.append_nil] at this
    have hchain' : ∀ c ∈ chainOf sv chain dirs isRoot (Dir.mk n rd recs subs), T c.2 := by
      intro c hc
      rcases List.mem_append.mp hc with hc | hc
      · exact hchain c hc
      · have : c = (catTitle sv isRoot (Dir.mk n rd recs subs), catPath sv (catDirs dirs isRoot (Dir.mk n rd recs subs))) := by
          simpa using hc
        rw [this]; exact hme
    rw [mem_categoryPages] at hp
    rcases hp with rfl | ⟨s, hs, hp⟩ | ⟨r, hr, hp⟩
    · intro l hl
      simp only [catPage, List.mem_append, List.mem_cons, List.mem_map, List.not_mem_nil, or_false] at hl
      rcases hl with ((hl | hl) | ⟨e, he, hl⟩) | ⟨e, he, hl⟩
      · exact breadcrumbs_ok T _ _ hchain' l hl
      · exact .inr ⟨cssPath, hcss, hl⟩
      · rw [mem_insertionSort] at he
        obtain ⟨s, hs, rfl⟩ := List.mem_map.mp he
        refine .inr ⟨_, ?_, hl.symm⟩
        have := hcat [s.name] s (SubDir.sub hs (SubDir.here s))
        exact this
      · rw [mem_insertionSort] at he
        obtain ⟨r, hr, rfl⟩ := List.mem_map.mp he
        refine .inr ⟨_, ?_, hl.symm⟩
        apply recEntry_target
        have := hrec [] _ r (SubDir.here _) hr
        rwa [List.append_nil] at this
    · apply ih s hs _ _ _ hchain' _ _ p hp
      · intro rel d' hsub
        have := hcat (s.name :: rel) d' (SubDir.sub hs hsub)
        rw [catDirs_false, List.append_assoc]
        exact this
      · intro rel d' r hsub hr
        have := hrec (s.name :: rel) d' r (SubDir.sub hs hsub) hr
        rw [catDirs_false, List.append_assoc]
        exact this
    · apply recipePage_links_ok M sv T hcss _ _ r p hchain' _ hp
      have := hrec [] _ r (SubDir.here _) hr
      rwa [List.append_nil] at this

-- ================================================================ independence of the listing order
theorem nodup_map_inj {α β} (f : α → β) (l : List α) (h : (l.map f).Nodup) :
    ∀ a ∈ l, ∀ b ∈ l, f a = f b → a = b := by
  induction l with
  | nil => intro a ha; cases ha
  | cons x xs ih =>
    rw [List.map_cons, List.nodup_cons] at h
    intro a ha b hb hab
    rcases List.mem_cons.mp ha with e1 | ha' <;> rcases List.mem_cons.mp hb with e2 | hb'
    · rw [e1, e2]
    · subst e1
      exact absurd (List.mem_map.mpr ⟨b, hb', hab.symm⟩) h.1
    · subst e2
      have : f b ∈ List.map f xs := List.mem_map.mpr ⟨a, ha', hab⟩
      exact absurd this h.1
    · exact ih h.2 a ha' b hb' hab

theorem subLe_eq_keyLe : subLe = keyLe (fun a : Str × Str × Str => a.1) (fun a => a.2.2) := rfl
theorem recLe_eq_keyLe : recLe = keyLe (fun a : Str × Str × List Page × Str => a.1) (fun a => a.2.2.2) := rfl

theorem recEntry_file (M : Nat) (sv : Option Nat) (chain : List (Str × Str)) (dirs : List Str) (r : RecipeFile) :
    (recEntry M sv chain dirs r).2.2.2 = r.file := by
  unfold recEntry
  cases r.servings <;> cases sv <;> rfl

/-- the sorted sub-category list does not depend on the listing order (sibling names distinct) -/
theorem sorted_subs_perm (sv : Option Nat) (dirs : List Str) (subdirs subdirs' : List Dir)
    (h : subdirs.Perm subdirs') (hn : (subdirs.map Dir.name).Nodup) :
    insertionSort subLe (subEntries sv dirs subdirs) = insertionSort subLe (subEntries sv dirs subdirs') := by
  rw [subLe_eq_keyLe]
  apply insertionSort_keyLe_perm
  · exact h.map _
  · intro a ha b hb _ h2
    obtain ⟨s, hs, rfl⟩ := List.mem_map.mp ha
    obtain ⟨t, ht, rfl⟩ := List.mem_map.mp hb
    have : s = t := nodup_map_inj Dir.name subdirs hn s hs t ht h2
    rw [this]

/-- the sorted recipe list does not depend on the listing order (sibling file names distinct) -/
theorem sorted_recs_perm (M : Nat) (sv : Option Nat) (chain : List (Str × Str)) (dirs : List Str) (recipes recipes' : List RecipeFile)
    (h : recipes.Perm recipes') (hn : (recipes.map (·.file)).Nodup) :
    insertionSort recLe (recipes.map (recEntry M sv chain dirs)) = insertionSort recLe (recipes'.map (recEntry M sv chain dirs)) := by
  rw [recLe_eq_keyLe]
  apply insertionSort_keyLe_perm
  · exact h.map _
  · intro a ha b hb _ h2
    obtain ⟨s, hs, rfl⟩ := List.mem_map.mp ha
    obtain ⟨t, ht, rfl⟩ := List.mem_map.mp hb
    simp only [recEntry_file] at h2
    have : s = t := nodup_map_inj (·.file) recipes hn s hs t ht h2
    rw [this]

theorem catTitle_mk (sv : Option Nat) (isRoot : Bool) (n : Str) (r : Option Str) (recs : List RecipeFile) (subs : List Dir) :
    catTitle sv isRoot (.mk n r recs subs) = catTitle sv isRoot (.mk n r [] []) := rfl
theorem catDirs_mk (dirs : List Str) (isRoot : Bool) (n : Str) (r : Option Str) (recs : List RecipeFile) (subs : List Dir) :
    catDirs dirs isRoot (.mk n r recs subs) = catDirs dirs isRoot (.mk n r [] []) := rfl
theorem chainOf_mk (sv : Option Nat) (chain : List (Str × Str)) (dirs : List Str) (isRoot : Bool) (n : Str) (r : Option Str)
    (recs : List RecipeFile) (subs : List Dir) :
    chainOf sv chain dirs isRoot (.mk n r recs subs) = chainOf sv chain dirs isRoot (.mk n r [] []) := rfl

/-- re-listing one directory: same category page, same multiset of pages -/
theorem categoryPages_perm_here (M : Nat) (sv : Option Nat) (chain : List (Str × Str)) (dirs : List Str) (isRoot : Bool)
    (n : Str) (r : Option Str) (recipes recipes' : List RecipeFile) (subdirs subdirs' : List Dir)
    (hr : recipes.Perm recipes') (hs : subdirs.Perm subdirs')
    (hnr : (recipes.map (·.file)).Nodup) (hns : (subdirs.map Dir.name).Nodup) :
    (categoryPages M sv chain dirs isRoot (.mk n r recipes subdirs)).1.head? = (categoryPages M sv chain dirs isRoot (.mk n r recipes' subdirs')).1.head?
    ∧ (categoryPages M sv chain dirs isRoot (.mk n r recipes subdirs)).1.Perm (categoryPages M sv chain dirs isRoot (.mk n r recipes' subdirs')).1
    ∧ (categoryPages M sv chain dirs isRoot (.mk n r recipes subdirs)).2 = (categoryPages M sv chain dirs isRoot (.mk n r recipes' subdirs')).2 := by
  rw [categoryPages_eq, categoryPages_eq]
  simp only [catTitle_mk _ _ n r recipes subdirs, catTitle_mk _ _ n r recipes' subdirs', catDirs_mk _ _ n r recipes subdirs,
    catDirs_mk _ _ n r recipes' subdirs', chainOf_mk _ _ _ _ n r recipes subdirs, chainOf_mk _ _ _ _ n r recipes' subdirs',
    Dir.subdirs, Dir.recipes]
  have hcat : ∀ (chain : List (Str × Str)) (dirs : List Str) (title : Str),
      catPage sv chain dirs title (subEntries sv dirs subdirs) (recipes.map (recEntry M sv chain dirs))
      = catPage sv chain dirs title (subEntries sv dirs subdirs') (recipes'.map (recEntry M sv chain dirs)) := by
    intro chain dirs title
    unfold catPage
    rw [sorted_subs_perm sv dirs subdirs subdirs' hs hns, sorted_recs_perm M sv chain dirs recipes recipes' hr hnr]
  rw [hcat]
  refine ⟨?_, ?_, ?_⟩
  · first | rfl | trivial
  · exact List.Perm.cons _ (List.Perm.append (hs.flatMap_right _) (hr.filterMap _))
  · first | rfl | trivial

theorem flatMap_perm_pointwise {α β} (l : List α) (f g : α → List β) (h : ∀ x ∈ l, (f x).Perm (g x)) :
    (l.flatMap f).Perm (l.flatMap g) := by
  induction l with
  | nil => exact List.Perm.refl _
  | cons x xs ih =>
    rw [List.flatMap_cons, List.flatMap_cons]
    exact List.Perm.append (h x (by simp)) (ih (fun y hy => h y (by simp [hy])))

/-- re-listing inside one sub-directory: same category page here, same multiset of pages -/
theorem categoryPages_perm_sub (M : Nat) (sv : Option Nat) (n : Str) (r : Option Str) (recs : List RecipeFile)
    (pre post : List Dir) (s s' : Dir) (hname : s.name = s'.name) (hreadme : s.readmeTitle = s'.readmeTitle)
    (hp : ∀ chain dirs, ((categoryPages M sv chain dirs false s).1).Perm (categoryPages M sv chain dirs false s').1)
    (chain : List (Str × Str)) (dirs : List Str) (isRoot : Bool) :
    (categoryPages M sv chain dirs isRoot (.mk n r recs (pre ++ s :: post))).1.head? = (categoryPages M sv chain dirs isRoot (.mk n r recs (pre ++ s' :: post))).1.head?
    ∧ (categoryPages M sv chain dirs isRoot (.mk n r recs (pre ++ s :: post))).1.Perm (categoryPages M sv chain dirs isRoot (.mk n r recs (pre ++ s' :: post))).1
    ∧ (categoryPages M sv chain dirs isRoot (.mk n r recs (pre ++ s :: post))).2 = (categoryPages M sv chain dirs isRoot (.mk n r recs (pre ++ s' :: post))).2 := by
  rw [categoryPages_eq, categoryPages_eq]
  simp only [catTitle_mk _ _ n r recs (pre ++ s :: post), catTitle_mk _ _ n r recs (pre ++ s' :: post),
    catDirs_mk _ _ n r recs (pre ++ s :: post), catDirs_mk _ _ n r recs (pre ++ s' :: post),
    chainOf_mk _ _ _ _ n r recs (pre ++ s :: post), chainOf_mk _ _ _ _ n r recs (pre ++ s' :: post), Dir.subdirs, Dir.recipes]
  have htitle : s.title = s'.title := by
    unfold Dir.title
    rw [hreadme, hname]
  have hsub : ∀ dirs, subEntries sv dirs (pre ++ s :: post) = subEntries sv dirs (pre ++ s' :: post) := by
    intro dirs
    simp [subEntries, hname, htitle]
  rw [hsub]
  refine ⟨?_, ?_, ?_⟩
  · first | rfl | trivial
  rotate_left
  · first | rfl | trivial
  apply List.Perm.cons
  apply List.Perm.append_right
  rw [List.flatMap_append, List.flatMap_append, List.flatMap_cons, List.flatMap_cons]
  exact List.Perm.append_left _ (List.Perm.append_right _ (hp _ _))

-- native servings maximum: independent of listing order
theorem foldl_max_le_iff (l : List Nat) (a b : Nat) : l.foldl max a ≤ b ↔ a ≤ b ∧ ∀ x ∈ l, x ≤ b := by
  induction l generalizing a with
  | nil => simp
  | cons y ys ih =>
    rw [List.foldl_cons, ih, Nat.max_le]
    simp only [List.mem_cons, forall_eq_or_imp, and_assoc]

theorem foldl_max_perm (l l' : List Nat) (h : l.Perm l') : l.foldl max 0 = l'.foldl max 0 := by
  apply Nat.le_antisymm
  · rw [foldl_max_le_iff]
    exact ⟨Nat.zero_le _, fun x hx => (le_foldl_max l' 0).2 x (h.mem_iff.mp hx)⟩
  · rw [foldl_max_le_iff]
    exact ⟨Nat.zero_le _, fun x hx => (le_foldl_max l 0).2 x (h.mem_iff.mpr hx)⟩

theorem maxNativeServingsList_le_iff (ds : List Dir) (b : Nat) :
    maxNativeServingsList ds ≤ b ↔ ∀ d ∈ ds, maxNativeServings d ≤ b := by
  induction ds with
  | nil => simp [maxNativeServingsList]
  | cons d ds ih =>
    rw [maxNativeServingsList]
    simp only [List.mem_cons, forall_eq_or_imp, ← ih]
    omega

theorem maxNativeServingsList_eq_of (ds ds' : List Dir)
    (h1 : ∀ d ∈ ds, ∃ d' ∈ ds', maxNativeServings d = maxNativeServings d')
    (h2 : ∀ d' ∈ ds', ∃ d ∈ ds, maxNativeServings d = maxNativeServings d') :
    maxNativeServingsList ds = maxNativeServingsList ds' := by
  apply Nat.le_antisymm
  · rw [maxNativeServingsList_le_iff]
    intro d hd
    obtain ⟨d', hd', e⟩ := h1 d hd
    rw [e]; exact maxNativeServings_le_list hd'
  · rw [maxNativeServingsList_le_iff]
    intro d' hd'
    obtain ⟨d, hd, e⟩ := h2 d' hd'
    rw [← e]; exact maxNativeServings_le_list hd

theorem maxNativeServings_perm_here (n : Str) (r : Option Str) (recipes recipes' : List RecipeFile) (subdirs subdirs' : List Dir)
    (hr : recipes.Perm recipes') (hs : subdirs.Perm subdirs') :
    maxNativeServings (.mk n r recipes subdirs) = maxNativeServings (.mk n r recipes' subdirs') := by
  rw [maxNativeServings, maxNativeServings, foldl_max_perm _ _ (hr.map _),
    maxNativeServingsList_eq_of subdirs subdirs' (fun d hd => ⟨d, hs.mem_iff.mp hd, rfl⟩) (fun d hd => ⟨d, hs.mem_iff.mpr hd, rfl⟩)]

theorem maxNativeServings_perm_sub (n : Str) (r : Option Str) (recs : List RecipeFile) (pre post : List Dir) (s s' : Dir)
    (h : maxNativeServings s = maxNativeServings s') :
    maxNativeServings (.mk n r recs (pre ++ s :: post)) = maxNativeServings (.mk n r recs (pre ++ s' :: post)) := by
  rw [maxNativeServings, maxNativeServings]
  congr 1
  apply maxNativeServingsList_eq_of
  · intro d hd
    rcases List.mem_append.mp hd with hd | hd
    · exact ⟨d, by simp [hd], rfl⟩
    · rcases List.mem_cons.mp hd with rfl | hd
      · exact ⟨s', by simp, h⟩
      · exact ⟨d, by simp [hd], rfl⟩
  · intro d hd
    rcases List.mem_append.mp hd with hd | hd
    · exact ⟨d, by simp [hd], rfl⟩
    · rcases List.mem_cons.mp hd with rfl | hd
      · exact ⟨s, by simp, h⟩
      · exact ⟨d, by simp [hd], rfl⟩

-- ================================================================ page files are never directory names
theorem not_prefix_of_last_not_mem {α} (X : List α) (last : α) (D : List α) (h : last ∉ D) : ¬ (X ++ [last]) <+: D := by
  rintro ⟨t, rfl⟩
  exact h (by simp)

theorem dot_not_mem_scaleRoot (sv : Option Nat) : '.' ∉ scaleRoot sv := by
  cases sv with
  | none => decide
  | some n =>
    have e : scaleRoot (some n) = "serves".toList ++ natDigits n := rfl
    rw [e]
    intro h
    rcases List.mem_append.mp h with h | h
    · revert h; decide
    · have := Nat.isDigit_of_mem_toDigits (by decide) (by decide) h
      revert this; decide

theorem scaleRoot_ne_css (sv : Option Nat) : scaleRoot sv ≠ "css".toList := by
  cases sv with
  | none => decide
  | some n =>
    have e : scaleRoot (some n) = 's' :: ("erves".toList ++ natDigits n) := rfl
    have e2 : "css".toList = 'c' :: "ss".toList := by decide
    rw [e, e2]
    intro h
    have := (List.cons.inj h).1
    revert this; decide

/-- a file segment `<stem>.html` is not the scale root and (if no directory name ends in ".html") not a directory name -/
theorem htmlSeg_not_mem_dirs (sv : Option Nat) (dirs : List Str) (stem : Str)
    (h : ∀ s ∈ dirs, ¬ ".html".toList <:+ s) : stem ++ ".html".toList ∉ scaleRoot sv :: dirs := by
  intro hm
  rcases List.mem_cons.mp hm with hm | hm
  · apply dot_not_mem_scaleRoot sv
    rw [← hm]
    exact List.mem_append_right _ (by decide)
  · exact h _ hm ⟨stem, rfl⟩

-- ================================================================ counting pages
theorem length_recipePages (M : Nat) (sv : Option Nat) (chain : List (Str × Str)) (dirs : List Str) (recipes : List RecipeFile) :
    (recipes.filterMap (recipePageOf M sv chain dirs)).length
      = (recipes.filter (fun r => r.servings.isSome == sv.isSome)).length := by
  induction recipes with
  | nil => rfl
  | cons r rs ih =>
    rw [List.filterMap_cons, List.filter_cons]
    cases hs : r.servings <;> cases sv <;> simp [recipePageOf, hs, ih]

theorem length_flatMap_eq_sum {α β} (l : List α) (f : α → List β) : (l.flatMap f).length = (l.map fun x => (f x).length).sum := by
  induction l with
  | nil => rfl
  | cons x xs ih => simp [ih]

theorem length_categoryPages (M : Nat) (sv : Option Nat) (chain : List (Str × Str)) (dirs : List Str) (isRoot : Bool) (d : Dir) :
    (categoryPages M sv chain dirs isRoot d).1.length =
      1 + (d.subdirs.map fun s => (categoryPages M sv (chainOf sv chain dirs isRoot d) (catDirs dirs isRoot d) false s).1.length).sum
        + (d.recipes.filter (fun r => r.servings.isSome == sv.isSome)).length := by
  rw [categoryPages_eq]
  simp only [List.length_cons, List.length_append, length_recipePages, length_flatMap_eq_sum]
  omega

end RG
