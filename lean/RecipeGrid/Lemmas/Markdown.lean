import RecipeGrid.Model.Markdown
import RecipeGrid.Lemmas.Fmt
/-! Helper lemmas about `Model/Markdown.lean` used by `Props/C13.lean` (block grouping, `str.replace`)
    and `Props/C18.lean` (the serving-count suffix of the title). -/
namespace RG

/-! ## block grouping -/

def finGroups (acc : List (List Nat)) : List (List Nat) := acc.reverse.map List.reverse

theorem groupBlocksAux_flatten (xs : List (CodeBlockKind × Nat)) (acc : List (List Nat)) :
    (groupBlocksAux xs acc).flatten = (finGroups acc).flatten ++ (xs.filter (·.1.isRecipe)).map (·.2) := by
  induction xs generalizing acc with
  | nil => simp [groupBlocksAux, finGroups]
  | cons x rest ih =>
    obtain ⟨k, i⟩ := x
    unfold groupBlocksAux
    by_cases hk : k.isRecipe = true
    · cases acc with
      | nil => simp [hk, ih, finGroups]
      | cons g gs =>
        by_cases hn : k.startsNew = true
        · simp [hk, hn, ih, finGroups]
        · simp [hk, hn, ih, finGroups]
    · simp [hk, ih]

theorem groupBlocksAux_nonempty (xs : List (CodeBlockKind × Nat)) (acc : List (List Nat))
    (hacc : ∀ g ∈ acc, g ≠ []) : ∀ g ∈ groupBlocksAux xs acc, g ≠ [] := by
  induction xs generalizing acc with
  | nil => simpa [groupBlocksAux] using hacc
  | cons x rest ih =>
    obtain ⟨k, i⟩ := x
    unfold groupBlocksAux
    split
    · exact ih acc hacc
    · split
      · exact ih _ (by simp)
      · split
        · exact ih _ (by simpa using hacc)
        · refine ih _ ?_
          intro g hg
          simp at hg
          rcases hg with rfl | hg
          · simp
          · exact hacc g (by simp [hg])

theorem groupBlocksAux_heads_cons (xs : List (CodeBlockKind × Nat)) (acc : List (List Nat))
    (hne : acc ≠ []) (hacc : ∀ g ∈ acc, g ≠ []) :
    (groupBlocksAux xs acc).map (·.head?) =
      (finGroups acc).map (·.head?) ++ (xs.filter (fun p => p.1.isRecipe && p.1.startsNew)).map (fun p => some p.2) := by
  induction xs generalizing acc with
  | nil => simp [groupBlocksAux, finGroups]
  | cons x rest ih =>
    obtain ⟨k, i⟩ := x
    unfold groupBlocksAux
    by_cases hk : k.isRecipe = true
    · cases acc with
      | nil => exact absurd rfl hne
      | cons g gs =>
        have hg : g ≠ [] := hacc g (by simp)
        by_cases hn : k.startsNew = true
        · simp only [hk, hn, Bool.not_true, Bool.false_eq_true, if_false, if_true]
          rw [ih _ (by simp) (by simpa using hacc)]
          simp [hk, hn, finGroups]
        · simp only [hk, hn, Bool.not_true, Bool.false_eq_true, if_false]
          rw [ih _ (by simp) (by
            intro g' hg'
            simp at hg'
            rcases hg' with rfl | hg'
            · simp
            · exact hacc g' (by simp [hg']))]
          have : (g.reverse ++ [i]).head? = g.reverse.head? := by
            cases hr : g.reverse with
            | nil => simp at hr; exact absurd hr hg
            | cons a b => simp
          simp [hk, hn, finGroups, this]
    · simp [hk, ih _ hne hacc]

theorem groupBlocksAux_heads_nil (xs : List (CodeBlockKind × Nat)) :
    (groupBlocksAux xs []).map (·.head?) =
      match xs.filter (·.1.isRecipe) with
      | [] => []
      | p :: rest => some p.2 :: (rest.filter (·.1.startsNew)).map (fun p => some p.2) := by
  induction xs with
  | nil => simp [groupBlocksAux]
  | cons x rest ih =>
    obtain ⟨k, i⟩ := x
    unfold groupBlocksAux
    by_cases hk : k.isRecipe = true
    · simp only [hk, Bool.not_true, Bool.false_eq_true, if_false]
      rw [groupBlocksAux_heads_cons _ _ (by simp) (by simp)]
      simp [hk, finGroups, List.filter_filter, Bool.and_comm]
    · simp [hk, ih]


theorem filter_zipIdx_succ {α} (f : α → Bool) (l : List α) (m : Nat) :
    ((l.zipIdx (m + 1)).filter (fun x => x.2 == 0 || f x.1)).map (·.1) = l.filter f := by
  induction l generalizing m with
  | nil => simp
  | cons a l ih =>
    simp only [List.zipIdx_cons, List.filter_cons]
    by_cases h : f a = true
    · simp [h, ih]
    · simp [h, ih]

theorem heads_spec_eq (rs : List (CodeBlockKind × Nat)) :
    (match rs with
      | [] => []
      | p :: rest => some p.2 :: (rest.filter (·.1.startsNew)).map (fun p => some p.2)) =
    (rs.zipIdx.filter (fun x => x.2 == 0 || x.1.1.startsNew)).map (fun x => some x.1.2) := by
  cases rs with
  | nil => simp
  | cons p rest =>
    have := filter_zipIdx_succ (fun p : CodeBlockKind × Nat => p.1.startsNew) rest 0
    simp only [List.zipIdx_cons, List.filter_cons, Nat.zero_add] at this ⊢
    simp only [beq_self_eq_true, Bool.true_or, if_true, List.map_cons]
    rw [← this]
    simp [List.map_map]

/-! ## `replaceAll` (= `str.replace`) -/

theorem isPrefixOfStr_iff (p s : Str) : isPrefixOfStr p s = true ↔ ∃ t, s = p ++ t := by
  induction p generalizing s with
  | nil => simp [isPrefixOfStr]
  | cons a p ih =>
    cases s with
    | nil => simp [isPrefixOfStr]
    | cons b s =>
      simp only [isPrefixOfStr, Bool.and_eq_true, beq_iff_eq, ih, List.cons_append, List.cons.injEq]
      constructor
      · rintro ⟨rfl, t, rfl⟩; exact ⟨t, rfl, rfl⟩
      · rintro ⟨t, rfl, rfl⟩; exact ⟨rfl, t, rfl⟩

theorem isPrefixOfStr_append (p t : Str) : isPrefixOfStr p (p ++ t) = true :=
  (isPrefixOfStr_iff _ _).2 ⟨t, rfl⟩

theorem isPrefixOfStr_nil_right {p : Str} (hp : p ≠ []) : isPrefixOfStr p [] = false := by
  cases p with
  | nil => exact absurd rfl hp
  | cons a p => rfl

theorem isInfixOfStr_iff (p s : Str) : isInfixOfStr p s = true ↔ ∃ k, isPrefixOfStr p (s.drop k) = true := by
  induction s with
  | nil =>
    cases p <;> simp [isInfixOfStr, isPrefixOfStr]
  | cons c s ih =>
    simp only [isInfixOfStr, Bool.or_eq_true, ih]
    constructor
    · rintro (h | ⟨k, h⟩)
      · exact ⟨0, h⟩
      · exact ⟨k + 1, h⟩
    · rintro ⟨k, h⟩
      cases k with
      | zero => exact Or.inl h
      | succ k => exact Or.inr ⟨k, h⟩

/-- enough fuel: the result does not depend on it -/
theorem replaceAllAux_fuel (pat rep : Str) (hp : pat ≠ []) (f1 f2 : Nat) (s : Str)
    (h1 : s.length < f1) (h2 : s.length < f2) :
    replaceAllAux pat rep f1 s = replaceAllAux pat rep f2 s := by
  induction f1 generalizing f2 s with
  | zero => omega
  | succ f1 ih =>
    cases f2 with
    | zero => omega
    | succ f2 =>
      cases s with
      | nil => simp [replaceAllAux]
      | cons c rest =>
        simp only [replaceAllAux]
        have hl : 0 < pat.length := List.length_pos_iff.mpr hp
        split
        · rw [ih]
          · simp only [List.length_drop, List.length_cons] at h1 ⊢; omega
          · simp only [List.length_drop, List.length_cons] at h2 ⊢; omega
        · rw [ih]
          · simp only [List.length_cons] at h1; omega
          · simp only [List.length_cons] at h2; omega

theorem replaceAll_nil_pat (v s : Str) : replaceAll [] v s = s := by
  simp [replaceAll]

theorem replaceAll_nil (p v : Str) : replaceAll p v [] = [] := by
  unfold replaceAll
  split
  · rfl
  · simp [replaceAllAux]

theorem replaceAll_of_prefix {p : Str} (v : Str) (hp : p ≠ []) {s : Str} (h : isPrefixOfStr p s = true) :
    replaceAll p v s = v ++ replaceAll p v (s.drop p.length) := by
  have hpe : p.isEmpty = false := by cases p <;> simp_all
  cases s with
  | nil => rw [isPrefixOfStr_nil_right hp] at h; cases h
  | cons c rest =>
    simp only [replaceAll, hpe, Bool.false_eq_true, if_false]
    rw [show (c :: rest).length + 1 = ((c :: rest).length) + 1 from rfl, replaceAllAux]
    simp only [h, if_true]
    congr 1
    apply replaceAllAux_fuel _ _ hp
    · have hl : 0 < p.length := List.length_pos_iff.mpr hp
      simp only [List.length_drop, List.length_cons]; omega
    · simp

theorem replaceAll_of_not_prefix {p : Str} (v : Str) (hp : p ≠ []) {c : Char} {rest : Str}
    (h : isPrefixOfStr p (c :: rest) = false) :
    replaceAll p v (c :: rest) = c :: replaceAll p v rest := by
  have hpe : p.isEmpty = false := by cases p <;> simp_all
  simp only [replaceAll, hpe, Bool.false_eq_true, if_false]
  rw [show (c :: rest).length + 1 = ((c :: rest).length) + 1 from rfl, replaceAllAux]
  simp only [h, Bool.false_eq_true, if_false]
  congr 1

/-- the part of the text before the first possible occurrence is copied -/
theorem replaceAll_append_of_no_occ (p v : Str) (hp : p ≠ []) (s rest : Str)
    (h : ∀ k, k < s.length → isPrefixOfStr p ((s ++ rest).drop k) = false) :
    replaceAll p v (s ++ rest) = s ++ replaceAll p v rest := by
  induction s with
  | nil => rfl
  | cons c s ih =>
    have h0 := h 0 (by simp)
    simp only [List.drop_zero, List.cons_append] at h0
    rw [List.cons_append, replaceAll_of_not_prefix v hp h0, ih]
    · rfl
    · intro k hk
      have := h (k + 1) (by simp; omega)
      simpa using this

theorem replaceAll_no_occurrence (p v s : Str) (h : isInfixOfStr p s = false) : replaceAll p v s = s := by
  by_cases hp : p = []
  · subst hp; exact replaceAll_nil_pat v s
  · have := replaceAll_append_of_no_occ p v hp s [] (by
      intro k _
      rw [List.append_nil]
      cases hk : isPrefixOfStr p (s.drop k) with
      | false => rfl
      | true =>
        have := (isInfixOfStr_iff p s).2 ⟨k, hk⟩
        rw [h] at this; cases this)
    simpa [replaceAll_nil] using this

theorem replaceAll_prefix_append (p v : Str) (hp : p ≠ []) (rest : Str) :
    replaceAll p v (p ++ rest) = v ++ replaceAll p v rest := by
  rw [replaceAll_of_prefix v hp (isPrefixOfStr_append p rest)]
  simp

/-- start offsets in `s ++ rest`: those inside `s`, then those of `rest` shifted -/
theorem range_filter_drop_append {α} (f : List α → Bool) (s rest : List α) :
    (List.range ((s ++ rest).length + 1)).filter (fun k => f ((s ++ rest).drop k)) =
      (List.range s.length).filter (fun k => f ((s ++ rest).drop k)) ++
        ((List.range (rest.length + 1)).filter (fun k => f (rest.drop k))).map (· + s.length) := by
  rw [List.length_append, Nat.add_assoc, List.range_add, List.filter_append]
  congr 1
  rw [List.filter_map]
  have hf : (fun x => s.length + x) = fun x => x + s.length := funext fun x => Nat.add_comm _ _
  rw [hf]
  congr 1
  apply List.filter_congr
  intro k _
  have : (s ++ rest).drop (k + s.length) = rest.drop k := by
    rw [Nat.add_comm, ← List.drop_drop, List.drop_left]
  simp [this]

theorem append_map_add_inj {n : Nat} {X Y A B : List Nat} (hX : ∀ x ∈ X, x < n) (hY : ∀ y ∈ Y, y < n)
    (h : X ++ A.map (· + n) = Y ++ B.map (· + n)) : X = Y ∧ A = B := by
  have h1 := congrArg (List.filter (fun x => decide (x < n))) h
  have h2 := congrArg (List.filter (fun x => !decide (x < n))) h
  simp only [List.filter_append] at h1 h2
  have e1 : ∀ {X : List Nat}, (∀ x ∈ X, x < n) → X.filter (fun x => decide (x < n)) = X := by
    intro X hX; exact List.filter_eq_self.2 (by simpa using hX)
  have e2 : ∀ {X : List Nat}, (∀ x ∈ X, x < n) → X.filter (fun x => !decide (x < n)) = [] := by
    intro X hX; exact List.filter_eq_nil_iff.2 (by simpa using hX)
  have e3 : ∀ A : List Nat, (A.map (· + n)).filter (fun x => decide (x < n)) = [] := by
    intro A; exact List.filter_eq_nil_iff.2 (by simp)
  have e4 : ∀ A : List Nat, (A.map (· + n)).filter (fun x => !decide (x < n)) = A.map (· + n) := by
    intro A; exact List.filter_eq_self.2 (by simp)
  rw [e1 hX, e1 hY, e3, e3, List.append_nil, List.append_nil] at h1
  rw [e2 hX, e2 hY, e4, e4, List.nil_append, List.nil_append] at h2
  refine ⟨h1, ?_⟩
  have := congrArg (List.map (· - n)) h2
  simpa [List.map_map, Function.comp_def] using this

/-! ## the serving suffix of a title -/

/-- a non-empty run of `\s` characters -/
def SpaceRun (s : Str) : Prop := s ≠ [] ∧ ∀ c ∈ s, isReSpace c = true

instance (s : Str) : Decidable (SpaceRun s) := inferInstanceAs (Decidable (_ ∧ _))

/-- `s` spells the pattern word `w` letter by letter under `(?i)` -/
def CiWord : List Char → Str → Prop
  | [], [] => True
  | l :: ls, c :: cs => ciMatches c l = true ∧ CiWord ls cs
  | _, _ => False

instance CiWord.dec : (w : List Char) → (a : Str) → Decidable (CiWord w a)
  | [], [] => isTrue trivial
  | _ :: ls, _ :: cs => @instDecidableAnd _ _ _ (CiWord.dec ls cs)
  | [], _ :: _ => isFalse (by simp [CiWord])
  | _ :: _, [] => isFalse (by simp [CiWord])

/-- the words of a phrase, in any letter case, separated by space runs -/
def PhraseText : List String → Str → Prop
  | [], _ => False
  | [w], s => CiWord w.toList s
  | w :: ws, s => ∃ a sp r, s = a ++ sp ++ r ∧ CiWord w.toList a ∧ SpaceRun sp ∧ PhraseText ws r

theorem mem_takeWhile_imp' {α} (p : α → Bool) (l : List α) : ∀ x ∈ l.takeWhile p, p x = true := by
  induction l with
  | nil => simp
  | cons a l ih =>
    intro x hx
    by_cases ha : p a = true
    · simp only [List.takeWhile_cons, ha, if_true, List.mem_cons] at hx
      rcases hx with rfl | hx
      · exact ha
      · exact ih x hx
    · simp [ha] at hx

theorem spaces1_eq_some {s r : Str} (h : spaces1 s = some r) :
    ∃ sp, s = sp ++ r ∧ SpaceRun sp ∧ (∀ c, r.head? = some c → isReSpace c = false) := by
  cases s with
  | nil => simp [spaces1] at h
  | cons c t =>
    simp only [spaces1] at h
    split at h
    · rename_i hc
      injection h with h
      refine ⟨(c :: t).takeWhile isReSpace, ?_, ⟨?_, ?_⟩, ?_⟩
      · rw [← h, List.takeWhile_append_dropWhile]
      · simp [hc]
      · intro d hd; exact mem_takeWhile_imp' _ _ d hd
      · intro d hd
        rw [← h] at hd
        have := List.head?_dropWhile_not isReSpace (c :: t)
        rw [hd] at this
        simpa using this
    · cases h

theorem spaces1_append {sp r : Str} (hsp : SpaceRun sp) (hr : ∀ c, r.head? = some c → isReSpace c = false) :
    spaces1 (sp ++ r) = some r := by
  obtain ⟨hne, hall⟩ := hsp
  cases sp with
  | nil => exact absurd rfl hne
  | cons c t =>
    have hc := hall c (by simp)
    simp only [List.cons_append, spaces1, hc, if_true]
    congr 1
    rw [← List.cons_append, List.dropWhile_append_of_pos hall]
    cases r with
    | nil => rfl
    | cons d r => simp [hr d rfl]

theorem ciWordPrefix_eq_some {w : List Char} {s r : Str} (h : ciWordPrefix w s = some r) :
    ∃ a, s = a ++ r ∧ CiWord w a := by
  induction w generalizing s with
  | nil => simp only [ciWordPrefix] at h; injection h with h; exact ⟨[], by simp [h], trivial⟩
  | cons l ls ih =>
    cases s with
    | nil => simp [ciWordPrefix] at h
    | cons c s =>
      simp only [ciWordPrefix] at h
      split at h
      · rename_i hc
        obtain ⟨a, rfl, ha⟩ := ih h
        exact ⟨c :: a, rfl, hc, ha⟩
      · cases h

theorem ciWordPrefix_append {w : List Char} {a : Str} (h : CiWord w a) (r : Str) : ciWordPrefix w (a ++ r) = some r := by
  induction w generalizing a with
  | nil => cases a with
    | nil => rfl
    | cons c a => exact absurd h (by simp [CiWord])
  | cons l ls ih =>
    cases a with
    | nil => exact absurd h (by simp [CiWord])
    | cons c a =>
      obtain ⟨hc, ha⟩ := h
      simp [ciWordPrefix, hc, ih ha]


def IsLower (l : Char) : Prop := 97 ≤ l.toNat ∧ l.toNat ≤ 122
instance (l : Char) : Decidable (IsLower l) := inferInstanceAs (Decidable (_ ∧ _))

/-- code points that can match a lower-case ASCII pattern letter under `(?i)` -/
def letterLike (n : Nat) : Bool := (65 ≤ n && n ≤ 90) || (97 ≤ n && n ≤ 122) || n == 304 || n == 305 || n == 383 || n == 8490

theorem ciPartners_letterLike : ∀ q ∈ Gen.ciPartners, letterLike q.1 = true := by decide

theorem ciMatches_letterLike {c l : Char} (hl : IsLower l) (h : ciMatches c l = true) : letterLike c.toNat = true := by
  simp only [ciMatches, Bool.or_eq_true, beq_iff_eq] at h
  rcases h with rfl | h
  · obtain ⟨h1, h2⟩ := hl
    simp [letterLike, h1, h2]
  · have := List.contains_iff_mem.mp h
    exact ciPartners_letterLike _ this

theorem letterLike_not_space {c : Char} (h : letterLike c.toNat = true) : isReSpace c = false := by
  simp only [letterLike, Bool.or_eq_true, Bool.and_eq_true, decide_eq_true_eq, beq_iff_eq] at h
  simp only [isReSpace, inTable, Gen.reSpaceRanges, Gen.reSpaceRanges_0, List.any_cons, List.any_nil,
    Bool.or_false, Bool.or_eq_false_iff, Bool.and_eq_false_iff, decide_eq_false_iff_not]
  omega

theorem letterLike_not_digit {c : Char} (h : letterLike c.toNat = true) : isDigit c = false := by
  simp only [letterLike, Bool.or_eq_true, Bool.and_eq_true, decide_eq_true_eq, beq_iff_eq] at h
  simp only [isDigit, Bool.and_eq_false_iff, decide_eq_false_iff_not]
  omega

theorem isDigit_not_space {c : Char} (h : isDigit c = true) : isReSpace c = false := by
  simp only [isDigit, Bool.and_eq_true, decide_eq_true_eq] at h
  simp only [isReSpace, inTable, Gen.reSpaceRanges, Gen.reSpaceRanges_0, List.any_cons, List.any_nil,
    Bool.or_false, Bool.or_eq_false_iff, Bool.and_eq_false_iff, decide_eq_false_iff_not]
  omega


/-- the words of a pattern phrase are non-empty and lower-case ASCII -/
def WfPhrase (p : List String) : Prop := ∀ w ∈ p, w.toList ≠ [] ∧ ∀ l ∈ w.toList, IsLower l
instance (p : List String) : Decidable (WfPhrase p) := inferInstanceAs (Decidable (∀ w ∈ p, _))

theorem servingPhrases_wf : ∀ p ∈ Gen.servingPhrases, p ≠ [] ∧ WfPhrase p := by decide

theorem CiWord_letterLike {w : List Char} {a : Str} (hw : ∀ l ∈ w, IsLower l) (h : CiWord w a) :
    ∀ c ∈ a, letterLike c.toNat = true := by
  induction w generalizing a with
  | nil => cases a with
    | nil => simp
    | cons c a => exact absurd h (by simp [CiWord])
  | cons l ls ih =>
    cases a with
    | nil => exact absurd h (by simp [CiWord])
    | cons c a =>
      obtain ⟨hc, ha⟩ := h
      intro d hd
      rcases List.mem_cons.mp hd with rfl | hd
      · exact ciMatches_letterLike (hw l (by simp)) hc
      · exact ih (fun l hl => hw l (by simp [hl])) ha d hd

theorem CiWord_ne_nil {w : List Char} {a : Str} (hw : w ≠ []) (h : CiWord w a) : a ≠ [] := by
  cases w with
  | nil => exact absurd rfl hw
  | cons l ls => cases a with
    | nil => exact absurd h (by simp [CiWord])
    | cons c a => simp

/-- a phrase text starts with a letter-like character and consists of letter-like characters and spaces -/
theorem PhraseText_chars {p : List String} (hp : WfPhrase p) {s : Str} (h : PhraseText p s) :
    (∃ c r, s = c :: r ∧ letterLike c.toNat = true) ∧ ∀ c ∈ s, letterLike c.toNat = true ∨ isReSpace c = true := by
  induction p generalizing s with
  | nil => exact absurd h (by simp [PhraseText])
  | cons w ws ih =>
    have hw := hp w (by simp)
    cases ws with
    | nil =>
      simp only [PhraseText] at h
      have hl := CiWord_letterLike hw.2 h
      refine ⟨?_, fun c hc => Or.inl (hl c hc)⟩
      cases s with
      | nil => exact absurd rfl (CiWord_ne_nil hw.1 h)
      | cons c r => exact ⟨c, r, rfl, hl c (by simp)⟩
    | cons w' ws' =>
      simp only [PhraseText] at h
      obtain ⟨a, sp, r, rfl, ha, hsp, hr⟩ := h
      have hl := CiWord_letterLike hw.2 ha
      have ih' := ih (fun x hx => hp x (by simp [hx])) hr
      refine ⟨?_, ?_⟩
      · cases a with
        | nil => exact absurd rfl (CiWord_ne_nil hw.1 ha)
        | cons c a' => exact ⟨c, _, rfl, hl c (by simp)⟩
      · intro c hc
        simp only [List.mem_append] at hc
        rcases hc with (hc | hc) | hc
        · exact Or.inl (hl c hc)
        · exact Or.inr (hsp.2 c hc)
        · exact ih'.2 c hc

theorem phrasePrefix_eq_some {p : List String} (hp : p ≠ []) {s r : Str} (h : phrasePrefix p s = some r) :
    ∃ ph sp2, s = ph ++ sp2 ++ r ∧ PhraseText p ph ∧ SpaceRun sp2 ∧ (∀ c, r.head? = some c → isReSpace c = false) := by
  induction p generalizing s with
  | nil => exact absurd rfl hp
  | cons w ws ih =>
    cases ws with
    | nil =>
      simp only [phrasePrefix] at h
      obtain ⟨m, hm, h2⟩ := Option.bind_eq_some_iff.mp h
      obtain ⟨a, rfl, ha⟩ := ciWordPrefix_eq_some hm
      obtain ⟨sp, rfl, hsp, hr⟩ := spaces1_eq_some h2
      exact ⟨a, sp, by simp, ha, hsp, hr⟩
    | cons w' ws' =>
      simp only [phrasePrefix] at h
      obtain ⟨m2, h12, h3⟩ := Option.bind_eq_some_iff.mp h
      obtain ⟨m, hm, h2⟩ := Option.bind_eq_some_iff.mp h12
      obtain ⟨a, rfl, ha⟩ := ciWordPrefix_eq_some hm
      obtain ⟨sp, rfl, hsp, _⟩ := spaces1_eq_some h2
      obtain ⟨ph, sp2, rfl, hph, hsp2, hr⟩ := ih (by simp) h3
      exact ⟨a ++ sp ++ ph, sp2, by simp, ⟨a, sp, ph, rfl, ha, hsp, hph⟩, hsp2, hr⟩

theorem phrasePrefix_complete {p : List String} (hp : WfPhrase p) {ph sp2 r : Str} (hph : PhraseText p ph)
    (hsp2 : SpaceRun sp2) (hr : ∀ c, r.head? = some c → isReSpace c = false) :
    phrasePrefix p (ph ++ sp2 ++ r) = some r := by
  induction p generalizing ph with
  | nil => exact absurd hph (by simp [PhraseText])
  | cons w ws ih =>
    cases ws with
    | nil =>
      simp only [PhraseText] at hph
      simp only [phrasePrefix, List.append_assoc, ciWordPrefix_append hph, Option.bind_some, spaces1_append hsp2 hr]
    | cons w' ws' =>
      simp only [PhraseText] at hph
      obtain ⟨a, sp, r', rfl, ha, hsp, hr'⟩ := hph
      have hwf : WfPhrase (w' :: ws') := fun x hx => hp x (by simp [hx])
      obtain ⟨⟨c, r'', rfl, hc⟩, _⟩ := PhraseText_chars hwf hr'
      simp only [phrasePrefix, List.append_assoc, ciWordPrefix_append ha, Option.bind_some]
      rw [spaces1_append hsp (by
        intro d hd
        simp only [List.cons_append, List.head?_cons, Option.some.injEq] at hd
        subst hd
        exact letterLike_not_space hc)]
      simp only [Option.bind_some]
      have := ih hwf hr'
      simpa [List.append_assoc] using this


theorem takeWhile_append_of_all {α} (p : α → Bool) (a b : List α) (ha : ∀ x ∈ a, p x = true)
    (hb : ∀ x, b.head? = some x → p x = false) : (a ++ b).takeWhile p = a ∧ (a ++ b).dropWhile p = b := by
  induction a with
  | nil =>
    cases b with
    | nil => simp
    | cons x b => simp [hb x rfl]
  | cons x a ih =>
    have hx := ha x (by simp)
    have := ih (fun y hy => ha y (by simp [hy]))
    simp [hx, this]

theorem digitsToEnd_eq_some {s ds : Str} (h : digitsToEnd s = some ds) :
    ∃ tail, s = ds ++ tail ∧ ds ≠ [] ∧ (∀ c ∈ ds, isDigit c = true) ∧ (∀ c ∈ tail, isReSpace c = true) := by
  simp only [digitsToEnd] at h
  split at h
  · cases h
  · rename_i hne
    split at h
    · rename_i hrest
      injection h with h
      refine ⟨s.dropWhile isDigit, ?_, ?_, ?_, ?_⟩
      · rw [← h, List.takeWhile_append_dropWhile]
      · rw [← h]; simpa using hne
      · rw [← h]; exact mem_takeWhile_imp' _ _
      · rcases Bool.or_eq_true_iff.mp hrest with h1 | h1
        · simpa using h1
        · have : s.dropWhile isDigit = ['\n'] := by simpa using h1
          rw [this]
          intro c hc
          simp only [List.mem_singleton] at hc
          subst hc
          decide
    · cases h

theorem digitsToEnd_complete {ds tail : Str} (hne : ds ≠ []) (hds : ∀ c ∈ ds, isDigit c = true)
    (htail : ∀ c ∈ tail, isReSpace c = true) : digitsToEnd (ds ++ tail) = some ds := by
  have := takeWhile_append_of_all isDigit ds tail hds (by
    intro x hx
    have hm : x ∈ tail := List.mem_of_mem_head? hx
    cases hd : isDigit x with
    | false => rfl
    | true => have := isDigit_not_space hd; rw [htail x hm] at this; cases this)
  simp only [digitsToEnd, this.1, this.2]
  have h1 : ds.isEmpty = false := by cases ds <;> simp_all
  have h2 : tail.all isReSpace = true := by simpa using htail
  simp [h1, h2]

/-- two ways of cutting a text at its first digit agree -/
theorem split_first_digit {m m' r r' : Str} (h : m ++ r = m' ++ r')
    (hm : ∀ c ∈ m, isDigit c = false) (hm' : ∀ c ∈ m', isDigit c = false)
    (hr : ∃ c t, r = c :: t ∧ isDigit c = true) (hr' : ∃ c t, r' = c :: t ∧ isDigit c = true) : m = m' ∧ r = r' := by
  induction m generalizing m' with
  | nil =>
    cases m' with
    | nil => exact ⟨rfl, by simpa using h⟩
    | cons c m' =>
      obtain ⟨d, t, rfl, hd⟩ := hr
      simp only [List.nil_append, List.cons_append, List.cons.injEq] at h
      rw [h.1, hm' c (by simp)] at hd; cases hd
  | cons c m ih =>
    cases m' with
    | nil =>
      obtain ⟨d, t, rfl, hd⟩ := hr'
      simp only [List.nil_append, List.cons_append, List.cons.injEq] at h
      rw [← h.1, hm c (by simp)] at hd; cases hd
    | cons c' m' =>
      simp only [List.cons_append, List.cons.injEq] at h
      obtain ⟨h1, h2⟩ := ih h.2 (fun x hx => hm x (by simp [hx])) (fun x hx => hm' x (by simp [hx]))
      exact ⟨by rw [h.1, h1], h2⟩

theorem findSome?_eq_of_unique {α β} (f : α → Option β) (l : List α) (x : β)
    (hex : ∃ a ∈ l, f a = some x) (huniq : ∀ a ∈ l, ∀ y, f a = some y → y = x) : l.findSome? f = some x := by
  induction l with
  | nil => obtain ⟨a, ha, _⟩ := hex; cases ha
  | cons a l ih =>
    simp only [List.findSome?_cons]
    cases hfa : f a with
    | some y => simp [huniq a (by simp) y hfa]
    | none =>
      simp only
      apply ih
      · obtain ⟨b, hb, hfb⟩ := hex
        rcases List.mem_cons.mp hb with rfl | hb
        · rw [hfa] at hfb; cases hfb
        · exact ⟨b, hb, hfb⟩
      · exact fun b hb => huniq b (by simp [hb])


theorem take_length_sub_append {α} (a b : List α) : (a ++ b).take ((a ++ b).length - b.length) = a := by
  simp

/-- what a match of the pattern with its `space` group at the start of `s` looks like -/
structure ServingMatch (s sp prep ds : Str) : Prop where
  ex : ∃ p ∈ Gen.servingPhrases, ∃ ph sp2 tail, s = sp ++ prep ++ ds ++ tail ∧ prep = ph ++ sp2 ∧
    SpaceRun sp ∧ PhraseText p ph ∧ SpaceRun sp2 ∧ ds ≠ [] ∧ (∀ c ∈ ds, isDigit c = true) ∧ (∀ c ∈ tail, isReSpace c = true)

theorem matchServingsAt_sound {s sp prep ds : Str} (h : matchServingsAt s = some (sp, prep, ds)) :
    ServingMatch s sp prep ds := by
  unfold matchServingsAt at h
  split at h
  · cases h
  · rename_i after hafter
    obtain ⟨sp0, rfl, hsp0, _⟩ := spaces1_eq_some hafter
    obtain ⟨p, hp, hf⟩ := List.exists_of_findSome?_eq_some h
    split at hf
    · rename_i afterPrep hprep
      split at hf
      · rename_i ds0 hds
        obtain ⟨ph, sp2, rfl, hph, hsp2, _⟩ := phrasePrefix_eq_some (servingPhrases_wf p hp).1 hprep
        obtain ⟨tail, rfl, hne, hdig, htail⟩ := digitsToEnd_eq_some hds
        simp only [Option.some.injEq, Prod.mk.injEq] at hf
        obtain ⟨h1, h2, h3⟩ := hf
        rw [take_length_sub_append] at h1
        rw [take_length_sub_append] at h2
        subst h1 h2 h3
        exact ⟨p, hp, ph, sp2, tail, by simp, rfl, hsp0, hph, hsp2, hne, hdig, htail⟩
      · cases hf
    · cases hf

theorem head_digit_of_append {ds tail : Str} (hne : ds ≠ []) (hdig : ∀ c ∈ ds, isDigit c = true) :
    ∃ c t, ds ++ tail = c :: t ∧ isDigit c = true := by
  obtain ⟨d0, dt, rfl⟩ := List.exists_cons_of_ne_nil hne
  exact ⟨d0, dt ++ tail, rfl, hdig d0 (by simp)⟩

theorem phrase_sp_no_digit {p : List String} (hwf : WfPhrase p) {ph sp2 : Str} (hph : PhraseText p ph)
    (hsp2 : SpaceRun sp2) : ∀ c ∈ ph ++ sp2, isDigit c = false := by
  obtain ⟨_, hchars⟩ := PhraseText_chars hwf hph
  intro c hc
  rcases List.mem_append.mp hc with hc | hc
  · rcases hchars c hc with h1 | h1
    · exact letterLike_not_digit h1
    · cases hd : isDigit c with
      | false => rfl
      | true => rw [isDigit_not_space hd] at h1; cases h1
  · cases hd : isDigit c with
    | false => rfl
    | true => have := hsp2.2 c hc; rw [isDigit_not_space hd] at this; cases this

theorem matchServingsAt_complete {s sp prep ds : Str} (h : ServingMatch s sp prep ds) :
    matchServingsAt s = some (sp, prep, ds) := by
  obtain ⟨p, hp, ph, sp2, tail, rfl, rfl, hsp, hph, hsp2, hne, hdig, htail⟩ := h
  have hwf := (servingPhrases_wf p hp).2
  obtain ⟨⟨c0, r0, hph0, hc0⟩, _⟩ := PhraseText_chars hwf hph
  obtain ⟨d0, dt, hd0e, hd0⟩ := head_digit_of_append (tail := tail) hne hdig
  have hrest : ∀ c, (ds ++ tail).head? = some c → isReSpace c = false := by
    intro c hc
    rw [hd0e] at hc
    simp only [List.head?_cons, Option.some.injEq] at hc
    subst hc; exact isDigit_not_space hd0
  have hsplit0 : sp ++ (ph ++ sp2) ++ ds ++ tail = sp ++ (ph ++ sp2 ++ (ds ++ tail)) := by simp
  have hspaces : spaces1 (sp ++ (ph ++ sp2 ++ (ds ++ tail))) = some (ph ++ sp2 ++ (ds ++ tail)) :=
    spaces1_append hsp (by
      intro c hc
      subst hph0
      simp only [List.cons_append, List.head?_cons, Option.some.injEq] at hc
      subst hc; exact letterLike_not_space hc0)
  unfold matchServingsAt
  rw [hsplit0, hspaces]
  simp only
  rw [take_length_sub_append]
  have hnodig := phrase_sp_no_digit hwf hph hsp2
  apply findSome?_eq_of_unique
  · refine ⟨p, hp, ?_⟩
    rw [phrasePrefix_complete hwf hph hsp2 hrest]
    simp only
    rw [digitsToEnd_complete hne hdig htail]
    simp only [Option.some.injEq, Prod.mk.injEq, true_and, and_true]
    exact take_length_sub_append _ _
  · intro p' hp' y hy
    split at hy
    · rename_i afterPrep hprep
      split at hy
      · rename_i ds' hds'
        obtain ⟨ph', sp2', hsplit', hph', hsp2', _⟩ := phrasePrefix_eq_some (servingPhrases_wf p' hp').1 hprep
        obtain ⟨tail', rfl, hne', hdig', htail'⟩ := digitsToEnd_eq_some hds'
        have hnodig' := phrase_sp_no_digit (servingPhrases_wf p' hp').2 hph' hsp2'
        obtain ⟨e1, e2⟩ := split_first_digit hsplit' hnodig hnodig' ⟨d0, dt, hd0e, hd0⟩
          (head_digit_of_append hne' hdig')
        have hds2 := digitsToEnd_complete hne hdig htail
        rw [e2, hds'] at hds2
        injection hds2 with hds2
        injection hy with hy
        rw [← hy]
        simp only [Prod.mk.injEq, true_and]
        refine ⟨?_, hds2⟩
        rw [e2]
        exact take_length_sub_append _ _
      · cases hy
    · cases hy


theorem matchServingsAt_nil : matchServingsAt [] = none := by
  simp [matchServingsAt, spaces1]

theorem searchServingsAux_eq_some {acc s b sp prep ds : Str} (h : searchServingsAux acc s = some (b, sp, prep, ds)) :
    ∃ n, n < s.length ∧ b = acc.reverse ++ s.take n ∧ matchServingsAt (s.drop n) = some (sp, prep, ds) ∧
      ∀ k, k < n → matchServingsAt (s.drop k) = none := by
  induction s generalizing acc with
  | nil => simp [searchServingsAux] at h
  | cons c rest ih =>
    simp only [searchServingsAux] at h
    split at h
    · rename_i sp' prep' ds' hm
      simp only [Option.some.injEq, Prod.mk.injEq] at h
      obtain ⟨rfl, rfl, rfl, rfl⟩ := h
      exact ⟨0, by simp, by simp, by simpa using hm, by omega⟩
    · rename_i hm
      obtain ⟨n, hn, hb, hmn, hlt⟩ := ih h
      refine ⟨n + 1, by simpa using hn, by simpa using hb, by simpa using hmn, ?_⟩
      intro k hk
      cases k with
      | zero => simpa using hm
      | succ k => simpa using hlt k (by omega)

theorem searchServingsAux_eq_none {acc s : Str} :
    searchServingsAux acc s = none ↔ ∀ k, matchServingsAt (s.drop k) = none := by
  induction s generalizing acc with
  | nil => simp [searchServingsAux, matchServingsAt_nil]
  | cons c rest ih =>
    simp only [searchServingsAux]
    constructor
    · intro h k
      split at h
      · cases h
      · rename_i hm
        cases k with
        | zero => simpa using hm
        | succ k => simpa using ih.mp h k
    · intro h
      have h0 := h 0
      simp only [List.drop_zero] at h0
      rw [h0]
      exact ih.mpr (fun k => by simpa using h (k + 1))

theorem searchServingsAux_of_first {acc s : Str} {n : Nat} {r : Str × Str × Str}
    (hn : matchServingsAt (s.drop n) = some r) (hlt : ∀ k, k < n → matchServingsAt (s.drop k) = none) :
    searchServingsAux acc s = some (acc.reverse ++ s.take n, r.1, r.2.1, r.2.2) := by
  induction n generalizing acc s with
  | zero =>
    cases s with
    | nil => rw [List.drop_zero, matchServingsAt_nil] at hn; cases hn
    | cons c rest =>
      rw [List.drop_zero] at hn
      simp [searchServingsAux, hn]
  | succ n ih =>
    cases s with
    | nil => rw [List.drop_nil, matchServingsAt_nil] at hn; cases hn
    | cons c rest =>
      have h0 := hlt 0 (by omega)
      rw [List.drop_zero] at h0
      simp only [searchServingsAux, h0]
      rw [ih (acc := c :: acc) (s := rest) (by simpa using hn) (fun k hk => by simpa using hlt (k + 1) (by omega))]
      simp


theorem ciMatches_self (l : Char) : ciMatches l l = true := by simp [ciMatches]

theorem ciMatches_toUpper {l : Char} (hl : IsLower l) : ciMatches l.toUpper l = true := by
  have h : ∀ n, n < 123 → 97 ≤ n → ciMatches (Char.ofNat n).toUpper (Char.ofNat n) = true := by decide
  have := h l.toNat (by have := hl.2; omega) hl.1
  rwa [Char.ofNat_toNat] at this

/-- `a` spells the word `w` with each letter in either case -/
def CaseVariantWord : List Char → Str → Prop
  | [], [] => True
  | l :: ls, c :: cs => (c = l ∨ c = l.toUpper) ∧ CaseVariantWord ls cs
  | _, _ => False

instance CaseVariantWord.dec : (w : List Char) → (a : Str) → Decidable (CaseVariantWord w a)
  | [], [] => isTrue trivial
  | _ :: ls, _ :: cs => @instDecidableAnd _ _ _ (CaseVariantWord.dec ls cs)
  | [], _ :: _ => isFalse (by simp [CaseVariantWord])
  | _ :: _, [] => isFalse (by simp [CaseVariantWord])

/-- the words of the phrase, each letter in either case, joined by non-empty space runs -/
def CaseVariantOf : List String → Str → Prop
  | [], _ => False
  | [w], s => CaseVariantWord w.toList s
  | w :: ws, s => ∃ a sp r, s = a ++ sp ++ r ∧ CaseVariantWord w.toList a ∧ SpaceRun sp ∧ CaseVariantOf ws r

theorem CaseVariantWord.ciWord {w : List Char} {a : Str} (hw : ∀ l ∈ w, IsLower l) (h : CaseVariantWord w a) : CiWord w a := by
  induction w generalizing a with
  | nil => cases a with
    | nil => trivial
    | cons c a => exact absurd h (by simp [CaseVariantWord])
  | cons l ls ih =>
    cases a with
    | nil => exact absurd h (by simp [CaseVariantWord])
    | cons c a =>
      obtain ⟨hc, ha⟩ := h
      refine ⟨?_, ih (fun x hx => hw x (by simp [hx])) ha⟩
      rcases hc with rfl | rfl
      · exact ciMatches_self _
      · exact ciMatches_toUpper (hw l (by simp))

theorem CaseVariantOf.phraseText {p : List String} (hp : WfPhrase p) {s : Str} (h : CaseVariantOf p s) : PhraseText p s := by
  induction p generalizing s with
  | nil => exact absurd h (by simp [CaseVariantOf])
  | cons w ws ih =>
    have hw := (hp w (by simp)).2
    cases ws with
    | nil => exact CaseVariantWord.ciWord hw h
    | cons w' ws' =>
      obtain ⟨a, sp, r, rfl, ha, hsp, hr⟩ := h
      exact ⟨a, sp, r, rfl, CaseVariantWord.ciWord hw ha, hsp, ih (fun x hx => hp x (by simp [hx])) hr⟩

theorem natDigits_isDigit' (n : Nat) : ∀ c ∈ natDigits n, isDigit c = true := by
  intro c hc
  have := natDigits_isDigit n c hc
  simp only [Char.isDigit, Bool.and_eq_true, decide_eq_true_eq] at this
  simp only [isDigit, Bool.and_eq_true, decide_eq_true_eq]
  have h1 : (48 : UInt32).toNat ≤ c.val.toNat := UInt32.le_iff_toNat_le.mp this.1
  have h2 : c.val.toNat ≤ (57 : UInt32).toNat := UInt32.le_iff_toNat_le.mp this.2
  exact ⟨h1, h2⟩

theorem natOfDigitChars_eq_digitsVal (ds : Str) : natOfDigitChars ds = digitsVal ds := rfl

end RG
