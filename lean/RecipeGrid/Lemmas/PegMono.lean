import RecipeGrid.Lemmas.Parser
/-! Progress facts about the hand-written parser that the tie to the generated grammar needs (`Lemmas/PegRules.lean`):
    every rule is monotone (`Mono`), `expr` and `stmt` consume a character (`Adv`) and need one (`NeedsChar`).
    (`*` in peggie insists on progress; `Parser.many` takes its fuel from the characters left.) -/
namespace RG
namespace Parser

theorem needs_bind_right {α β} {m : P α} {f : α → P β} (hm : Mono m) (hf : ∀ a, NeedsChar (f a)) :
    NeedsChar (m >>= f) := by
  intro t s r e
  obtain ⟨b, s'⟩ := r
  obtain ⟨a, s1, e1, e2⟩ := bind_some e
  have h1 := hm _ _ _ _ e1
  have h2 := hf a _ _ _ e2
  omega

theorem mono_eof : Mono eof := by
  intro t s a s' e
  unfold eof at e
  split at e
  · cases e; exact Nat.le_refl _
  · cases e

theorem mono_wordBoundary : Mono wordBoundary := by
  intro t s a s' e
  unfold wordBoundary at e
  split at e
  · cases e; exact Nat.le_refl _
  · cases e

theorem mono_ciWord : ∀ w : Str, Mono (ciWord w)
  | [] => mono_pure _
  | _ :: ls => mono_bind (adv_sat _).mono fun _ => mono_ciWord ls

theorem mono_hsp : Mono hsp := (adv_skipMany1 _).mono
theorem mono_sp : Mono sp := (adv_skipMany1 _).mono
theorem mono_ohsp : Mono ohsp := mono_skipMany _
theorem mono_osp : Mono osp := mono_skipMany _

theorem mono_preposition : Mono preposition := by
  unfold preposition
  refine mono_bind (mono_ciWord _) fun _ => ?_
  exact mono_orElse (mono_bind mono_hsp fun _ => mono_bind (mono_ciWord _) fun _ => mono_wordBoundary) mono_wordBoundary

theorem mono_remainder : Mono remainder := by
  unfold remainder
  refine mono_orElse ?_ (mono_orElse ?_ (mono_orElse ?_ ?_))
  · exact mono_bind (mono_ciWord _) fun _ => mono_wordBoundary
  · exact mono_bind (mono_ciWord _) fun _ => mono_wordBoundary
  · exact mono_bind (mono_ciWord _) fun _ => mono_wordBoundary
  · exact mono_bind (mono_ciWord _) fun _ => mono_bind (mono_skipMany _) fun _ =>
      mono_bind (mono_ciWord _) fun _ => mono_wordBoundary

theorem mono_unitPattern : ∀ ws : List Str, Mono (unitPattern ws)
  | [] => mono_wordBoundary
  | [w] => by
    unfold unitPattern
    exact mono_bind (mono_ciWord _) fun _ => mono_wordBoundary
  | w :: w2 :: ws => by
    unfold unitPattern
    exact mono_bind (mono_ciWord _) fun _ => mono_bind mono_sp fun _ => mono_unitPattern (w2 :: ws)

theorem mono_firstOf : ∀ ps : List (P Unit), (∀ p ∈ ps, Mono p) → Mono (firstOf ps)
  | [], _ => adv_fail.mono
  | p :: ps, h => by
    unfold firstOf
    exact mono_orElse (h p (List.mem_cons_self ..)) (mono_firstOf ps fun q hq => h q (List.mem_cons_of_mem _ hq))

theorem mono_knownUnit : Mono knownUnit := by
  unfold knownUnit
  refine mono_firstOf _ fun p hp => ?_
  obtain ⟨ws, _, rfl⟩ := List.mem_map.mp hp
  exact mono_unitPattern ws

theorem mono_assign : Mono assign := by
  unfold assign
  exact mono_orElse
    (mono_bind (adv_lit _).mono fun _ => mono_bind (adv_lit _).mono fun _ => mono_pure _)
    (mono_bind (adv_lit _).mono fun _ => mono_pure _)

theorem mono_hspPreposition : Mono hspPreposition :=
  mono_orElse (mono_textOf (mono_bind mono_hsp fun _ => mono_preposition)) (mono_pure _)

theorem mono_proportion : Mono proportion := by
  unfold proportion
  refine mono_orElse ?_ ?_
  · exact mono_bind mono_getPos fun _ => mono_bind (mono_textOf mono_remainder) fun _ =>
      mono_bind mono_hspPreposition fun _ => mono_pure _
  · refine mono_bind adv_number.mono fun a => ?_
    obtain ⟨off, v⟩ := a
    refine mono_orElse ?_ (mono_orElse ?_ ?_)
    · exact mono_bind (mono_textOf (mono_bind mono_hsp fun _ => mono_preposition)) fun _ => mono_pure _
    · exact mono_bind (mono_textOf (mono_bind mono_ohsp fun _ => mono_bind (adv_lit _).mono fun _ =>
        mono_bind mono_hspPreposition fun _ => mono_pure _)) fun _ => mono_pure _
    · exact mono_bind (mono_textOf (mono_bind mono_ohsp fun _ => (adv_lit _).mono)) fun _ => mono_pure _

theorem mono_explicitQuantity : Mono explicitQuantity := by
  unfold explicitQuantity
  refine mono_bind mono_getPos fun _ => mono_bind (adv_lit _).mono fun _ => mono_bind mono_ohsp fun _ => ?_
  refine mono_bind adv_number.mono fun a => ?_
  obtain ⟨off, v⟩ := a
  refine mono_bind (mono_opt ?_) fun _ => ?_
  · exact mono_bind (mono_textOf mono_ohsp) fun _ => mono_bind (mono_string true) fun _ => mono_pure _
  · exact mono_bind mono_ohsp fun _ => mono_bind (adv_lit _).mono fun _ => mono_bind mono_hspPreposition fun _ =>
      mono_pure _

theorem mono_implicitQuantity : Mono implicitQuantity := by
  unfold implicitQuantity
  refine mono_bind adv_number.mono fun a => ?_
  obtain ⟨off, v⟩ := a
  refine mono_bind (mono_opt ?_) fun unit => ?_
  · exact mono_bind (mono_textOf mono_ohsp) fun _ => mono_bind mono_getPos fun _ =>
      mono_bind (mono_textOf mono_knownUnit) fun _ => mono_bind mono_hspPreposition fun _ => mono_pure _
  · cases unit with
    | none => exact mono_pure _
    | some u => obtain ⟨spacing, u, prep⟩ := u; exact mono_pure _

theorem mono_amount : Mono amount :=
  mono_orElse mono_proportion (mono_orElse mono_explicitQuantity mono_implicitQuantity)

theorem mono_optAmount : Mono (opt (amount >>= fun a => ohsp >>= fun _ => (pure a : P AAmount))) :=
  mono_opt (mono_bind mono_amount fun _ => mono_bind mono_ohsp fun _ => mono_pure _)

theorem adv_reference : Adv reference := by
  rw [reference_eq]
  exact adv_bind_right mono_optAmount fun _ => adv_bind_left (adv_string false) fun _ => mono_pure _

theorem needs_reference : NeedsChar reference := by
  rw [reference_eq]
  exact needs_bind_right mono_optAmount fun _ => needs_bind (needs_string false)

theorem mono_commaExpr {e : P AExpr} (he : Mono e) : Mono (commaExpr e) :=
  mono_bind mono_osp fun _ => mono_bind (adv_lit _).mono fun _ => mono_bind mono_osp fun _ => he

theorem adv_commaExpr {e : P AExpr} (he : Mono e) : Adv (commaExpr e) :=
  adv_bind_right mono_osp fun _ => adv_bind_left (adv_lit _) fun _ => mono_bind mono_osp fun _ => he

theorem needs_commaExpr (e : P AExpr) : NeedsChar (commaExpr e) :=
  needs_bind_right mono_osp fun _ => needs_bind (needs_lit _)

theorem adv_commaString : Adv commaString :=
  adv_bind_right mono_ohsp fun _ => adv_bind_left (adv_lit _) fun _ => mono_bind mono_ohsp fun _ => mono_string false

theorem needs_commaString : NeedsChar commaString :=
  needs_bind_right mono_ohsp fun _ => needs_bind (needs_lit _)

theorem adv_step {e : P AExpr} (he : Mono e) : Adv (step e) := by
  rw [step_eq']
  refine adv_bind_left (adv_string false) fun _ => mono_bind mono_ohsp fun _ => mono_bind (adv_lit _).mono fun _ => ?_
  refine mono_bind mono_osp fun _ => mono_bind he fun _ => mono_bind (mono_many (mono_commaExpr he)) fun _ => ?_
  refine mono_bind (mono_opt (mono_bind mono_osp fun _ => (adv_lit _).mono)) fun _ => ?_
  exact mono_bind mono_osp fun _ => mono_bind (adv_lit _).mono fun _ => mono_pure _

theorem adv_ltrShorthand {e : P AExpr} (he : Adv e) : Adv (ltrShorthand e) := by
  rw [ltrShorthand_eq]
  exact adv_bind_left he fun _ => mono_bind (mono_many mono_commaString) fun _ => mono_pure _

theorem adv_expr : ∀ k, Adv (expr k)
  | 0 => adv_fail
  | k + 1 => by
    rw [expr_succ]
    refine adv_orElse (adv_step (adv_expr k).mono) (adv_orElse adv_reference ?_)
    refine adv_bind_left (adv_lit _) fun _ => mono_bind mono_osp fun _ => ?_
    refine mono_bind (adv_ltrShorthand (adv_expr k)).mono fun _ => mono_bind mono_osp fun _ => ?_
    exact mono_bind (adv_lit _).mono fun _ => mono_pure _

theorem needs_expr : ∀ k, NeedsChar (expr k)
  | 0 => needs_fail
  | k + 1 => by
    rw [expr_succ]
    refine needs_orElse ?_ (needs_orElse needs_reference (needs_bind (needs_lit _)))
    rw [step_eq']
    exact needs_bind (needs_string false)

theorem mono_eol : Mono eol := by
  unfold eol
  exact mono_orElse (mono_bind mono_ohsp fun _ => mono_bind (adv_sat _).mono fun _ => mono_osp)
    (mono_bind mono_ohsp fun _ => mono_eof)

theorem mono_targetP : Mono targetP :=
  mono_bind mono_outputList fun _ => mono_bind mono_ohsp fun _ => mono_bind mono_assign fun _ =>
    mono_bind mono_ohsp fun _ => mono_pure _

theorem adv_stmt : Adv stmt := by
  rw [stmt_eq]
  refine adv_bind_right (mono_opt mono_targetP) fun _ => adv_bind_right mono_remaining fun n => ?_
  exact adv_bind_left (adv_ltrShorthand (adv_expr _)) fun _ => mono_bind mono_eol fun _ => mono_pure _

theorem needs_stmt : NeedsChar stmt := by
  rw [stmt_eq]
  refine needs_bind_right (mono_opt mono_targetP) fun _ => needs_bind_right mono_remaining fun n => ?_
  rw [ltrShorthand_eq]
  exact needs_bind (needs_bind (needs_expr _))

end Parser
end RG
