import RecipeGrid.Model.Peg
/-! The generic recogniser of `Model/Peg.lean` and its fuel: a run that did not run out of fuel gives the same result
    with any larger fuel (for every grammar and every table of scanners). -/
namespace RG
namespace Peg

/-- `call'` answers like `call` wherever `call` did not run out of fuel -/
def Extends (call call' : String → Nat → PegRes) : Prop :=
  ∀ n j, call n j ≠ .err .fuel → call' n j = call n j

theorem pegStar_extends {b b' : Nat → PegRes} (h : ∀ j, b j ≠ .err .fuel → b' j = b j) :
    ∀ k i, pegStar b k i ≠ .err .fuel → pegStar b' k i = pegStar b k i
  | 0, _, hne => absurd rfl hne
  | k + 1, i, hne => by
    unfold pegStar at hne ⊢
    cases hb : b i with
    | ok j =>
      rw [hb] at hne
      rw [h i (by rw [hb]; exact fun e => by cases e), hb]
      by_cases hji : j ≤ i
      · simp only [hji, if_true]
      · simp only [hji, if_false] at hne ⊢
        exact pegStar_extends h k j hne
    | fail => rw [h i (by rw [hb]; exact fun e => by cases e), hb]
    | err e =>
      rw [hb] at hne
      rw [h i (by rw [hb]; exact hne), hb]

variable {terms : String → Option (Parser.P Unit)} {t : Array Char}

theorem pegExpr_extends {call call' : String → Nat → PegRes} (h : Extends call call') :
    ∀ (e : PExpr) (i : Nat), pegExpr call terms t e i ≠ .err .fuel → pegExpr call' terms t e i = pegExpr call terms t e i
  | .empty, _, _ => rfl
  | .term _, _, _ => rfl
  | .unsupported _, _, _ => rfl
  | .rule n, i, hne => h n i hne
  | .cat a b, i, hne => by
    simp only [pegExpr] at hne ⊢
    cases ha : pegExpr call terms t a i with
    | ok j =>
      rw [ha] at hne
      rw [pegExpr_extends h a i (by rw [ha]; exact fun e => by cases e), ha]
      exact pegExpr_extends h b j hne
    | fail => rw [pegExpr_extends h a i (by rw [ha]; exact fun e => by cases e), ha]
    | err e => rw [ha] at hne; rw [pegExpr_extends h a i (by rw [ha]; exact hne), ha]
  | .alt a b, i, hne => by
    simp only [pegExpr] at hne ⊢
    cases ha : pegExpr call terms t a i with
    | ok j => rw [pegExpr_extends h a i (by rw [ha]; exact fun e => by cases e), ha]
    | fail =>
      rw [ha] at hne
      rw [pegExpr_extends h a i (by rw [ha]; exact fun e => by cases e), ha]
      exact pegExpr_extends h b i hne
    | err e => rw [ha] at hne; rw [pegExpr_extends h a i (by rw [ha]; exact hne), ha]
  | .star a, i, hne => by
    simp only [pegExpr] at hne ⊢
    exact pegStar_extends (fun j => pegExpr_extends h a j) _ _ hne
  | .plus a, i, hne => by
    simp only [pegExpr] at hne ⊢
    cases ha : pegExpr call terms t a i with
    | ok j =>
      rw [ha] at hne
      rw [pegExpr_extends h a i (by rw [ha]; exact fun e => by cases e), ha]
      by_cases hji : j ≤ i
      · simp only [hji, if_true]
      · simp only [hji, if_false] at hne ⊢
        exact pegStar_extends (fun j => pegExpr_extends h a j) _ _ hne
    | fail => rw [pegExpr_extends h a i (by rw [ha]; exact fun e => by cases e), ha]
    | err e => rw [ha] at hne; rw [pegExpr_extends h a i (by rw [ha]; exact hne), ha]
  | .maybe a, i, hne => by
    simp only [pegExpr] at hne ⊢
    cases ha : pegExpr call terms t a i with
    | ok j => rw [pegExpr_extends h a i (by rw [ha]; exact fun e => by cases e), ha]
    | fail => rw [pegExpr_extends h a i (by rw [ha]; exact fun e => by cases e), ha]
    | err e => rw [ha] at hne; rw [pegExpr_extends h a i (by rw [ha]; exact hne), ha]
  | .notp a, i, hne => by
    simp only [pegExpr] at hne ⊢
    cases ha : pegExpr call terms t a i with
    | ok j => rw [pegExpr_extends h a i (by rw [ha]; exact fun e => by cases e), ha]
    | fail => rw [pegExpr_extends h a i (by rw [ha]; exact fun e => by cases e), ha]
    | err e => rw [ha] at hne; rw [pegExpr_extends h a i (by rw [ha]; exact hne), ha]
  | .andp a, i, hne => by
    simp only [pegExpr] at hne ⊢
    cases ha : pegExpr call terms t a i with
    | ok j => rw [pegExpr_extends h a i (by rw [ha]; exact fun e => by cases e), ha]
    | fail => rw [pegExpr_extends h a i (by rw [ha]; exact fun e => by cases e), ha]
    | err e => rw [ha] at hne; rw [pegExpr_extends h a i (by rw [ha]; exact hne), ha]

variable {rules : List (String × PExpr)}

theorem pegRun_extends : ∀ f, Extends (pegRun rules terms t f) (pegRun rules terms t (f + 1))
  | 0, _, _, hne => absurd rfl hne
  | f + 1, n, j, hne => by
    unfold pegRun at hne ⊢
    cases hl : rules.lookup n with
    | none => rfl
    | some body =>
      rw [hl] at hne
      exact pegExpr_extends (pegRun_extends f) body j hne

/-- **enough fuel gives the same answer as more fuel** -/
theorem pegRun_fuel_mono {f f' : Nat} (hle : f ≤ f') (name : String) (i : Nat)
    (hne : pegRun rules terms t f name i ≠ .err .fuel) :
    pegRun rules terms t f' name i = pegRun rules terms t f name i := by
  induction f' with
  | zero => rw [Nat.le_zero.1 hle]
  | succ g ih =>
    rcases Nat.lt_or_ge f (g + 1) with hlt | hge
    · have h1 := ih (by omega)
      rw [← h1] at hne ⊢
      exact pegRun_extends g name i hne
    · rw [show f = g + 1 by omega]

end Peg
end RG
