import RecipeGrid.Lemmas.ReTerm
/-! The engine from a position `b` of a text is the engine from the start of the rest of the text `text[b:]` - what peggie hands
    to `pattern.match` - with the positions shifted: the `base` of `Rx.run` is exactly "the text before `b` does not exist". -/
namespace RG
namespace Rx

variable {α : Type}

theorem getElem?_slice (t : Array Char) (b i : Nat) : (t.extract b t.size)[i]? = t[i + b]? := by
  rw [Array.getElem?_extract]
  split
  · rw [Nat.add_comm]
  · rename_i h
    rw [Array.getElem?_eq_none (by omega)]

theorem size_slice (t : Array Char) (b : Nat) : (t.extract b t.size).size = t.size - b := by
  rw [Array.size_extract]; omega

theorem step_slice (t : Array Char) (b : Nat) (p : Char → Bool) (i : Nat) (k : K α) :
    step t p (i + b) k = step (t.extract b t.size) p i (fun j => k (j + b)) := by
  simp only [step, getElem?_slice, show i + b + 1 = i + 1 + b by omega]

theorem boundaryAt_slice (t : Array Char) (b i : Nat) : boundaryAt t b (i + b) = boundaryAt (t.extract b t.size) 0 i := by
  unfold boundaryAt
  simp only [getElem?_slice]
  cases i with
  | zero => rw [if_pos (by omega), if_pos (Nat.le_refl 0)]
  | succ i =>
    rw [if_neg (by omega), if_neg (by omega), show i + 1 + b - 1 = i + 1 - 1 + b by omega]

theorem starK_slice {ma ma' : Nat → K α → Option α} (b : Nat) (h : ∀ i k, ma (i + b) k = ma' i (fun j => k (j + b))) :
    ∀ fuel i (k : K α), starK ma fuel (i + b) k = starK ma' fuel i (fun j => k (j + b))
  | 0, _, _ => rfl
  | fuel + 1, i, k => by
    rw [starK, starK, h]
    have : (fun j => starK ma fuel (j + b) k) = fun j => starK ma' fuel j (fun j => k (j + b)) :=
      funext fun j => starK_slice b h fuel j k
    rw [this]

/-- the engine on the text from `b` = the engine on `text[b:]` from its start -/
theorem run_slice (t : Array Char) (b : Nat) : ∀ (r : Rx) (i : Nat) (k : K α),
    run t b r (i + b) k = run (t.extract b t.size) 0 r i (fun j => k (j + b))
  | eps, i, k => by simp only [run]
  | chr c, i, k => by simp only [run]; exact step_slice t b _ i k
  | ichr c, i, k => by simp only [run]; exact step_slice t b _ i k
  | any, i, k => by simp only [run]; exact step_slice t b _ i k
  | cls neg items, i, k => by simp only [run]; exact step_slice t b _ i k
  | seq x y, i, k => by
    simp only [run]
    rw [run_slice t b x i]
    congr 1; funext j
    exact run_slice t b y j k
  | alt x y, i, k => by
    simp only [run]
    rw [run_slice t b x i k, run_slice t b y i k]
  | star x, i, k => by
    simp only [run]
    rw [size_slice, show t.size - (i + b) = t.size - b - i by omega]
    exact starK_slice b (fun i k => run_slice t b x i k) _ i k
  | plus x, i, k => by
    simp only [run]
    rw [run_slice t b x i]
    congr 1; funext j
    rw [size_slice, show t.size - (j + b) = t.size - b - j by omega]
    exact starK_slice b (fun i k => run_slice t b x i k) _ j k
  | opt x, i, k => by
    simp only [run]
    rw [run_slice t b x i k]
  | grp _ x, i, k => by
    simp only [run]
    exact run_slice t b x i k
  | bound, i, k => by
    simp only [run]
    rw [boundaryAt_slice]

/-- **`Rx.matchEnd r text i` is `pattern.match(text[i:])`** (under the engine's semantics), as a position of `text` -/
theorem matchEnd_slice (r : Rx) (t : Array Char) (i : Nat) :
    r.matchEnd t i = (r.matchEnd (t.extract i t.size) 0).map (· + i) := by
  unfold matchEnd
  have := run_slice (α := Nat) t i r 0 some
  rw [Nat.zero_add] at this
  rw [this]
  generalize t.extract i t.size = t'
  -- a continuation applied after the fact
  have hmap : ∀ (r : Rx) (j : Nat) (k : K Nat) (f : Nat → Nat),
      run t' 0 r j (fun m => (k m).map f) = (run t' 0 r j k).map f := by
    intro r
    induction r with
    | eps => intro j k f; simp only [run]
    | chr c => intro j k f; simp only [run, step]; cases t'[j]? with
      | none => rfl
      | some ch => cases hp : (ch == c) <;> simp [hp]
    | ichr c => intro j k f; simp only [run, step]; cases t'[j]? with
      | none => rfl
      | some ch => cases hp : ciMatches ch c <;> simp [hp]
    | any => intro j k f; simp only [run, step]; cases t'[j]? with
      | none => rfl
      | some ch => simp
    | cls neg items => intro j k f; simp only [run, step]; cases t'[j]? with
      | none => rfl
      | some ch => cases hp : clsTest neg items ch <;> simp [hp]
    | seq x y ihx ihy =>
      intro j k f
      simp only [run]
      rw [← ihx]
      congr 1; funext m
      exact ihy m k f
    | alt x y ihx ihy =>
      intro j k f
      simp only [run]
      rw [ihx, ihy]
      cases run t' 0 x j k <;> rfl
    | star x ih =>
      intro j k f
      simp only [run]
      generalize t'.size - j = fuel
      induction fuel generalizing j with
      | zero => rfl
      | succ n ihn =>
        rw [starK, starK]
        have : (fun m => starK (run t' 0 x) n m fun m => (k m).map f) = fun m => ((starK (run t' 0 x) n m k).map f) :=
          funext fun m => ihn m
        rw [this, ih]
        cases run t' 0 x j (fun m => starK (run t' 0 x) n m k) <;> rfl
    | plus x ih =>
      intro j k f
      simp only [run]
      rw [← ih]
      congr 1; funext m
      generalize t'.size - m = fuel
      induction fuel generalizing m with
      | zero => rfl
      | succ n ihn =>
        rw [starK, starK]
        have : (fun m => starK (run t' 0 x) n m fun m => (k m).map f) = fun m => ((starK (run t' 0 x) n m k).map f) :=
          funext fun m => ihn m
        rw [this, ih]
        cases run t' 0 x m (fun m => starK (run t' 0 x) n m k) <;> rfl
    | opt x ih =>
      intro j k f
      simp only [run]
      rw [ih]
      cases run t' 0 x j k <;> rfl
    | grp _ x ih => intro j k f; simp only [run]; exact ih j k f
    | bound => intro j k f; simp only [run]; split <;> rfl
  exact hmap r 0 some (· + i)

/-! ## an answer of the engine is an answer of the continuation at a position between the start and the end of the text -/

theorem step_answer {t : Array Char} {p : Char → Bool} {i : Nat} {k : K α} {a : α} (h : step t p i k = some a) :
    i + 1 ≤ t.size ∧ k (i + 1) = some a := by
  simp only [step] at h
  cases hc : t[i]? with
  | none => rw [hc] at h; cases h
  | some c =>
    rw [hc] at h
    have hlt : i < t.size := by
      rcases Nat.lt_or_ge i t.size with h' | h'
      · exact h'
      · simp [Array.getElem?_eq_none h'] at hc
    cases hp : p c with
    | false => simp [hp] at h
    | true => simp only [hp, if_true] at h; exact ⟨hlt, h⟩

theorem starK_answer {ma : Nat → K α → Option α}
    (h : ∀ i k a, i ≤ size → ma i k = some a → ∃ j, i ≤ j ∧ j ≤ size ∧ k j = some a) :
    ∀ fuel i (k : K α) a, i ≤ size → starK ma fuel i k = some a → ∃ j, i ≤ j ∧ j ≤ size ∧ k j = some a
  | 0, i, k, a, hi, e => ⟨i, Nat.le_refl _, hi, e⟩
  | fuel + 1, i, k, a, hi, e => by
    rw [starK] at e
    cases hm : ma i (fun j => starK ma fuel j k) with
    | none => rw [hm] at e; exact ⟨i, Nat.le_refl _, hi, e⟩
    | some a' =>
      rw [hm] at e
      cases e
      obtain ⟨j, h1, h2, h3⟩ := h i _ _ hi hm
      obtain ⟨j', h4, h5, h6⟩ := starK_answer h fuel j k _ h2 h3
      exact ⟨j', by omega, h5, h6⟩

theorem run_answer (t : Array Char) (base : Nat) : ∀ (r : Rx) (i : Nat) (k : K α) (a : α), i ≤ t.size →
    run t base r i k = some a → ∃ j, i ≤ j ∧ j ≤ t.size ∧ k j = some a
  | eps, i, k, a, hi, e => by simp only [run] at e; exact ⟨i, Nat.le_refl _, hi, e⟩
  | chr c, i, k, a, _, e => by simp only [run] at e; obtain ⟨h1, h2⟩ := step_answer e; exact ⟨i + 1, by omega, h1, h2⟩
  | ichr c, i, k, a, _, e => by simp only [run] at e; obtain ⟨h1, h2⟩ := step_answer e; exact ⟨i + 1, by omega, h1, h2⟩
  | any, i, k, a, _, e => by simp only [run] at e; obtain ⟨h1, h2⟩ := step_answer e; exact ⟨i + 1, by omega, h1, h2⟩
  | cls neg items, i, k, a, _, e => by
    simp only [run] at e; obtain ⟨h1, h2⟩ := step_answer e; exact ⟨i + 1, by omega, h1, h2⟩
  | seq x y, i, k, a, hi, e => by
    simp only [run] at e
    obtain ⟨j, h1, h2, h3⟩ := run_answer t base x i _ a hi e
    obtain ⟨j', h4, h5, h6⟩ := run_answer t base y j k a h2 h3
    exact ⟨j', by omega, h5, h6⟩
  | alt x y, i, k, a, hi, e => by
    simp only [run] at e
    cases hx : run t base x i k with
    | none => rw [hx] at e; exact run_answer t base y i k a hi e
    | some a' => rw [hx] at e; cases e; exact run_answer t base x i k _ hi hx
  | star x, i, k, a, hi, e => by
    simp only [run] at e
    exact starK_answer (fun i k a hi e => run_answer t base x i k a hi e) _ i k a hi e
  | plus x, i, k, a, hi, e => by
    simp only [run] at e
    obtain ⟨j, h1, h2, h3⟩ := run_answer t base x i _ a hi e
    obtain ⟨j', h4, h5, h6⟩ := starK_answer (fun i k a hi e => run_answer t base x i k a hi e) _ j k a h2 h3
    exact ⟨j', by omega, h5, h6⟩
  | opt x, i, k, a, hi, e => by
    simp only [run] at e
    cases hx : run t base x i k with
    | none => rw [hx] at e; exact ⟨i, Nat.le_refl _, hi, e⟩
    | some a' => rw [hx] at e; cases e; exact run_answer t base x i k _ hi hx
  | grp _ x, i, k, a, hi, e => by simp only [run] at e; exact run_answer t base x i k a hi e
  | bound, i, k, a, hi, e => by
    simp only [run] at e
    split at e
    · exact ⟨i, Nat.le_refl _, hi, e⟩
    · cases e

/-- a match ends between its start and the end of the text -/
theorem matchEnd_bounds {r : Rx} {t : Array Char} {i j : Nat} (hi : i ≤ t.size) (h : r.matchEnd t i = some j) :
    i ≤ j ∧ j ≤ t.size := by
  obtain ⟨j', h1, h2, h3⟩ := run_answer t i r i some j hi h
  cases h3
  exact ⟨h1, h2⟩

end Rx
end RG
